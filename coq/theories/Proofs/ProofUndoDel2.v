(** [Proof.Undo] for EVERY valid block (C08, concluded): sibling leaves, whole subtrees and whole trees
    deleted; a light client over a chain reorganisation.

    [ProofUndoDel] proves [undoDel_spec s dels C] - the statement about the second half of
    [Proof.Undo] that [ProofUndoSpec.proof_undo_block] needs - for REGULAR deletions.  This file
    removes the hypothesis:
    - [undoDel_every]: [undoDel_spec s dels C] for every duplicate-free list of live leaves;
    - [proof_undo_every_block] (and [.._term]): for every valid block - distinct live deletions, fresh
      additions, any remembered subset - [Proof.Undo] with the block's data returns exactly
      [exp_cached s (cached_after_undo (cached_after C dels remembered) adds)];
      [un_ex_tree_deleted], [un_ex_all_deleted] are instances;
    - [proof_undo_any_cached]: the same for ANY cached set of the state after the block (what a
      client holds after several undos);
    - [client_undo_in_step], [light_client_undo_depth], [client_step_undo]: a light client
      ([Proofs/LightClient.v]) that goes back to its previous stump and calls [Proof.Undo] with the
      data it recorded is in step with the previous state again - one block, and by induction any
      number of blocks, newest first.  (It holds the leaves it held minus the additions of the undone
      blocks: leaves those blocks deleted are, as documented, not restored.)

    Structure
    - 1  [deTwinHashAndPos]: the positions are those of [deTwin] ([ProofUpdateDel2.tw_deTwin]: the
         roots of the maximal deleted subtrees), and the hash stored with the parent of two twins is
         the parent's hash in [s] ([deTwinHP_spec], [tw_step_hash], [tw_deTwinHP]);
    - 2  [ud_blocks_spec2]: the loop over the block targets when some of them are tops of deleted
         trees - for those the [DetectOffset] test of the loops fails for every coordinate below
         another tree ([ProofUpdateDel2.subtree_diff_trees]) and nothing moves;
    - 3  [unl_tree_g]: the converse of [ProofUpdateDel2.move_tree_g] - un-lifting over the roots of
         the maximal deleted subtrees in reverse order undoes the contraction of [prune] - and the
         forest forms [ug_down], [ug_up_unlift]; [twinfree_par]: the order and twin-freeness of the
         roots give the side condition [garb];
    - 4  the theorem [undoDel_all_main] (the assembly of [ProofUndoDel.undoDel_regular_main] again,
         with the roots in place of the deleted leaves);
    - 5  closed forms, the free algebra, examples; 6 any cached set, the light client. *)
From Utreexo Require Import Base.Hash Model.Utils Model.UtilsFast Model.Verify Model.ProofOps
  Model.ProofUpdate Spec.Forest Spec.Oracle Spec.Geometry Spec.Term
  Proofs.UtilsGeom Proofs.UtilsGeom2 Proofs.SpecBasics Proofs.StumpAdd Proofs.LayoutStruct
  Proofs.ProofPosSpec Proofs.CalcTotal Proofs.CalcSound Proofs.CalcComplete Proofs.CachedVerifies
  Proofs.AbstractModels Proofs.StumpAddData Proofs.StumpDelData Proofs.ProofOpsSpec
  Proofs.ProofUpdateSpec Proofs.ProofUpdateDel Proofs.ProofUpdateDel2 Proofs.ProofUndoSpec Proofs.ProofUndoDel.
From Utreexo Require Proofs.RefTheory Proofs.StumpUpdate Proofs.LightClient.
From Coq Require Import List Arith PeanoNat NArith ZArith Lia ZifyNat ZifyN ZifyBool Sorted Permutation.
Import ListNotations.
Open Scope N_scope.

Local Notation SSlt := (StronglySorted N.lt).
Local Notation SSle := (StronglySorted N.le).

(** * 1. [deTwinHashAndPos]: the positions of [deTwin], the hashes of the valuation *)

Lemma merge_single_keys {H} (l : list (hp H)) (k : N) (h : H) : SSlt (map fst l) -> ~ In k (map fst l) ->
  map fst (mergeSortedHashAndPos l [(k, h)]) = insertInOrder (map fst l) k /\
  forall e, In e (mergeSortedHashAndPos l [(k, h)]) -> In e l \/ e = (k, h).
Proof.
  intros Hs Hn. destruct (cc_mergeSorted_spec H l [(k, h)] Hs) as (S1 & M1 & I1).
  { cbn [map]. constructor; constructor. }
  split.
  - apply pps_SSlt_ext; [exact S1|apply insertInOrder_SS; assumption|].
    intros x. rewrite M1, insertInOrder_In. cbn [map In fst]. split.
    + intros [A|[B|[]]]; [right; exact A|left; symmetry; exact B].
    + intros [A|B]; [right; left; symmetry; exact A|left; exact B].
  - intros e He. destruct (I1 e He) as [A|[<-|[]]]; auto.
Qed.

Section TwinHP.
  Variable H : Type.
  Variable HO : ops H.
  Variable P : list N -> Prop.
  Variable fr : N.
  Variable V : N -> H.
  Hypothesis P_sorted : forall l, P l -> SSlt l.
  Hypothesis P_step : forall l1 a b l2, P (l1 ++ a :: b :: l2) -> rightSib a = b ->
    a < Parent a fr /\ ~ In (Parent a fr) (l1 ++ l2) /\ P (insertInOrder (l1 ++ l2) (Parent a fr)).
  Hypothesis V_step : forall l1 a b l2, P (l1 ++ a :: b :: l2) -> rightSib a = b ->
    op_hash2 HO (V a) (V b) = V (Parent a fr).

  Lemma deTwinHP_spec : forall fuel i (l : list (hp H)), P (map fst l) -> graph H V l ->
    map fst (deTwinHP_loop HO fuel i l fr) = deTwin_loop fuel i (map fst l) fr /\
    graph H V (deTwinHP_loop HO fuel i l fr).
  Proof.
    induction fuel as [|f IH]; intros i l HP HG; [split; [reflexivity|exact HG]|].
    cbn [deTwinHP_loop deTwin_loop]. rewrite !nth_error_map. unfold hp in *.
    destruct (nth_error l i) as [a|] eqn:Ea; cbn [option_map]; [|split; [reflexivity|exact HG]].
    destruct (nth_error l (S i)) as [b|] eqn:Eb; cbn [option_map]; [|split; [reflexivity|exact HG]].
    destruct (N.eqb_spec (rightSib (fst a)) (fst b)) as [Et|Et]; [|exact (IH (S i) l HP HG)].
    destruct (nth_split2 l i a b Ea Eb) as [El Li].
    set (l1 := firstn i l) in *. set (l2 := skipn (S (S i)) l) in *.
    assert (Ek : map fst l = map fst l1 ++ fst a :: fst b :: map fst l2).
    { rewrite El at 1. rewrite map_app. reflexivity. }
    assert (HP' : P (map fst l1 ++ fst a :: fst b :: map fst l2)) by (rewrite <- Ek; exact HP).
    destruct (P_step _ _ _ _ HP' Et) as (_ & Hnin & HPn).
    pose proof (V_step _ _ _ _ HP' Et) as HV.
    assert (Hs12 : SSlt (map fst (l1 ++ l2))).
    { pose proof (P_sorted _ HP') as Hs. rewrite map_app.
      change (fst a :: fst b :: map fst l2) with ([fst a; fst b] ++ map fst l2) in Hs.
      exact (SS_app_drop N.lt _ _ _ Hs). }
    rewrite <- map_app in Hnin, HPn.
    destruct (merge_single_keys (l1 ++ l2) (Parent (fst a) fr) (op_hash2 HO (snd a) (snd b)) Hs12 Hnin) as [Km Im].
    assert (Efs : firstn i (map fst l) ++ skipn (S (S i)) (map fst l) = map fst (l1 ++ l2)).
    { rewrite firstn_map, skipn_map, map_app. reflexivity. }
    rewrite Efs, <- Km. apply IH.
    - rewrite Km. exact HPn.
    - intros e He. destruct (Im e He) as [He'|Ee]; [|subst e].
      + apply HG. rewrite El. apply in_app_or in He' as [A|B]; apply in_or_app; [left; exact A|right; right; right; exact B].
      + cbn [fst snd]. rewrite <- HV.
        rewrite (HG a (nth_error_In _ _ Ea)), (HG b (nth_error_In _ _ Eb)). reflexivity.
  Qed.
End TwinHP.

Section TwinHash.
  Variable H : Type.
  Variable HO : ops H.
  Hypothesis HOK : ops_ok HO.
  Variable s : slots H.
  Hypothesis Hn63 : N.of_nat (length s) <= 2 ^ 63.
  Hypothesis Hnd : NoDup (live s).
  Variable hs : list H.
  Local Notation R := (rows_of (num_leaves s)).
  Local Notation total := (TreeRows (N.of_nat (length s))).
  Local Notation F := (Fv H HO s).

  Lemma locc_cwf c r o : locc H HO s c r o -> cwf H HO c.
  Proof.
    intros (k0 & lo & c1 & Hec & Ho).
    exact (occ_cwf H HO _ _ _ _ _ _ Ho (entry_cwf H HO s (k0, lo, Some c1) c1 Hec eq_refl)).
  Qed.

  (** the hash that [deTwinHashAndPos] stores with the parent of two twins is the parent's *)
  Lemma tw_step_hash l1 a b l2 : Ptw H HO s hs (l1 ++ a :: b :: l2) -> rightSib a = b ->
    op_hash2 HO (F a) (F b) = F (Parent a total).
  Proof.
    intros (L & El & Hs & Hfd & _ & _) Et.
    pose proof (rf_R_total H s) as ER. pose proof (rows_of_le_63 _ Hn63) as HR63.
    assert (Ha : In a (map (cpos R) L)) by (rewrite <- El; apply in_or_app; right; left; reflexivity).
    assert (Hb : In b (map (cpos R) L)) by (rewrite <- El; apply in_or_app; right; right; left; reflexivity).
    apply in_map_iff in Ha as (xa & <- & Hxa). apply in_map_iff in Hb as (xb & <- & Hxb).
    pose proof (tw_fdc_valid H HO s hs xa (Hfd xa Hxa)) as Va.
    pose proof (tw_fdc_valid H HO s hs xb (Hfd xb Hxb)) as Vb.
    assert (Hlt : cpos R xa < cpos R xb).
    { assert (Hs2 : SSlt ((l1 ++ [cpos R xa]) ++ cpos R xb :: l2)) by (rewrite <- app_assoc; exact Hs).
      apply (SS_app_lt _ _ Hs2); [apply in_or_app; right; left; reflexivity|left; reflexivity]. }
    destruct (twin_coords R xa xb HR63 Va Vb Hlt Et) as (Er & Eo & Ev & Hr).
    destruct (Hfd xa Hxa) as (ca & La & _). destruct (Hfd xb Hxb) as (cb & Lb & _).
    apply N.even_spec in Ev as [q Eq]. rewrite Er, Eo, Eq in Lb. rewrite Eq in La.
    destruct (tw_parent H HO s Hn63 ca cb (fst xa) q La Lb) as (h & Lp).
    rewrite (parent_cpos R (N.of_nat (length s)) xa HR63 ER Va Hr).
    rewrite Eq, (N.mul_comm 2 q), N.div_mul by lia.
    change (cpos R (S (fst xa), q)) with (pos R (S (fst xa)) q). rewrite (locc_val H HO s _ _ _ Lp).
    pose proof (locc_cwf _ _ _ Lp) as Hw. cbn [cwf] in Hw. destruct Hw as (Eh & _).
    cbn [chash]. rewrite Eh. f_equal.
    - destruct xa as [ra oa]. cbn [fst snd] in *. subst oa. exact (locc_val H HO s _ _ _ La).
    - destruct xb as [rb ob]. cbn [fst snd] in *. subst rb ob. rewrite Eq. exact (locc_val H HO s _ _ _ Lb).
  Qed.

  Variable L0 : list coord.
  Hypothesis L0_sorted : SSlt (map (cpos R) L0).
  Hypothesis L0_leaf : forall x, In x L0 -> exists h, locc H HO s (CLeaf h) (fst x) (snd x) /\ In h hs.
  Hypothesis L0_cov : covers H HO s hs L0.

  (** (1): on the sorted deleted leaves with their hashes, [deTwinHashAndPos] returns the roots of the
      maximal deleted subtrees with their hashes in [s] *)
  Theorem tw_deTwinHP : exists Lf,
    deTwinHashAndPos HO (gr H F (map (cpos R) L0)) total = gr H F (map (cpos R) Lf) /\
    SSlt (map (cpos R) Lf) /\ (forall x, In x Lf -> fdc H HO s hs x) /\ antichain Lf /\
    covers H HO s hs Lf /\ twinfreeC Lf.
  Proof.
    destruct (tw_deTwin H HO HOK s Hn63 Hnd hs L0 L0_sorted L0_leaf L0_cov) as (Lf & Ed & Hs & A & B & C & D).
    exists Lf. split; [|auto].
    unfold deTwinHashAndPos.
    destruct (deTwinHP_spec H HO (Ptw H HO s hs) total F
                (fun l '(ex_intro _ _ (conj _ (conj Hs' _))) => Hs')
                (tw_step H HO s Hn63 hs) tw_step_hash
                (2 * length (gr H F (map (cpos R) L0)) + 2) 0 (gr H F (map (cpos R) L0))) as [Ek Eg].
    - rewrite po_gr_fst. exact (tw_init H HO HOK s Hn63 Hnd hs L0 L0_sorted L0_leaf L0_cov).
    - apply po_gr_graph.
    - rewrite (po_graph_eq H F _ Eg), Ek, po_gr_fst. f_equal.
      unfold deTwin in Ed. rewrite po_gr_length. exact Ed.
  Qed.
End TwinHash.

(** * 2. The loop over the block targets when some of them are tops of deleted trees *)

Lemma ud_targets_noop {H} : forall k i (tw np : list (hp H)) bt bh sibPos n total,
  (forall e, In e tw -> ud_test bt sibPos n total (fst e) = false) ->
  ud_targets k i tw np bt bh sibPos n total = (tw, np).
Proof.
  induction k as [|k IH]; intros i tw np bt bh sibPos n total Hno; [reflexivity|].
  destruct (nth_error tw i) as [e|] eqn:En.
  - rewrite (ud_targets_S_some H bt bh sibPos n total k i tw np e En), (Hno e (nth_error_In _ _ En)).
    apply IH. exact Hno.
  - exact (ud_targets_S_none H bt bh sibPos n total k i tw np En).
Qed.

Lemma ud_proof_noop {H} (HO : ops H) : forall k i rng al (cur : list (hp H)) bt bh sibPos n total,
  (forall t, In t rng -> ud_test bt sibPos n total t = false) ->
  ud_proof HO k i rng al cur bt bh sibPos n total = Some cur.
Proof.
  induction k as [|k IH]; intros i rng al cur bt bh sibPos n total Hno; [reflexivity|].
  destruct (nth_error rng i) as [t|] eqn:En.
  - rewrite (ud_proof_S_skip H HO bt bh sibPos n total k i rng al cur t En (Hno t (nth_error_In _ _ En))).
    apply IH. exact Hno.
  - exact (ud_proof_S_none H HO bt bh sibPos n total k i rng al cur En).
Qed.

Section Blocks2.
  Variable H : Type.
  Variable HO : ops H.
  Variable R : nat.
  Variable n : N.
  Hypothesis HR : (R <= 63)%nat.
  Hypothesis Hn : n <= 2 ^ 63.
  Hypothesis ER : N.of_nat R = TreeRows n.
  Local Notation hp := (hp H).
  Local Notation cposh := (cposh H R).
  Local Notation total := (N.of_nat R).

  (** an invariant of the coordinates of the list elements *)
  Variable Good : coord -> Prop.

  (** the targets that move something *)
  Definition movers (Bs : list (coord * H * bool)) : list coord := map (fun b => fst (fst b)) (filter snd Bs).

  Lemma ud_blocks_spec2 : forall (Bs : list (coord * H * bool)) (TW PW : list (coord * H)) (np : list hp),
    (forall b, In b Bs -> snd b = true -> dok R n (fst (fst b))) -> garb (movers Bs) ->
    (forall b, In b Bs -> snd b = true -> forall y, Good y -> safe1 (fst (fst b)) y -> Good (unlift1 (fst (fst b)) y)) ->
    (forall b, In b Bs -> snd b = true -> Good (par (fst (fst b)))) ->
    (forall b, In b Bs -> snd b = false -> forall y, Good y -> cvalid R y ->
       ud_test (cpos R (fst (fst b))) (Parent (cpos R (fst (fst b))) total) n total (cpos R y) = false) ->
    (forall e, In e TW -> Good (fst e) /\ cvalid R (fst e) /\ unl_to (movers Bs) (fst e) (unl (movers Bs) (fst e))) ->
    (forall e, In e PW -> Good (fst e) /\ cvalid R (fst e) /\ unl_to (movers Bs) (fst e) (unl (movers Bs) (fst e))) ->
    NoDup (map fst TW) -> NoDup (map fst PW) -> SpecBasics.ascK np ->
    exists PW' np',
      ud_blocks HO (map (fun b => bpos H R (fst b)) Bs) (sortK (map cposh TW)) (sortK (map cposh PW)) np n total
      = Some (sortK (map cposh (map (unl_e H (movers Bs)) TW)), sortK (map cposh PW'), np') /\
      NoDup (map fst PW') /\ (forall e, In e PW' -> cvalid R (fst e)) /\
      (forall e, In e PW -> In (unl_e H (movers Bs) e) PW') /\
      (forall e', In e' PW' -> (exists e, In e PW /\ e' = unl_e H (movers Bs) e) \/
                               (exists b, In b Bs /\ snd b = true /\ fst e' = par (fst (fst b)))) /\
      SpecBasics.ascK np' /\
      (forall e, In e np' -> In e np \/ exists b, In b Bs /\ e = bpos H R (fst b)).
  Proof.
    induction Bs as [|b Bs IH]; intros TW PW np HB Hg G2 G2' G3 HT HP NT NP Hnp.
    - exists PW, np. cbn [map ud_blocks]. split.
      { assert (Eid : map (unl_e H (movers [])) TW = TW).
        { rewrite <- (map_id TW) at 2. apply map_ext. intros [y h]. reflexivity. }
        rewrite Eid. reflexivity. }
      split; [exact NP|]. split; [intros e He; exact (proj1 (proj2 (HP e He)))|]. split.
      { intros [y h] He. exact He. }
      split; [intros e' He'; left; exists e'; split; [exact He'|destruct e'; reflexivity]|].
      split; [exact Hnp|auto].
    - destruct b as [[d bh] fl]. destruct fl.
      + (* a target inside a surviving tree *)
        pose proof (HB _ (or_introl eq_refl) eq_refl) as Hd. cbn [fst snd] in Hd.
        assert (Emv : movers ((d, bh, true) :: Bs) = d :: movers Bs) by reflexivity.
        rewrite Emv in *. cbn [garb] in Hg. destruct Hg as [Hg1 Hg2].
        assert (HT1 : forall e, In e TW -> cvalid R (fst e) /\ safe1 d (fst e)).
        { intros e He. destruct (HT e He) as (_ & Hv & Hu). cbn [unl_to] in Hu. split; [exact Hv|exact (proj1 Hu)]. }
        assert (HP1 : forall e, In e PW -> cvalid R (fst e) /\ safe1 d (fst e)).
        { intros e He. destruct (HP e He) as (_ & Hv & Hu). cbn [unl_to] in Hu. split; [exact Hv|exact (proj1 Hu)]. }
        destruct (step_targets H R n HR Hn ER d Hd bh TW HT1 NT np) as (np1 & Et & Hnp1).
        destruct (step_proofs H HO R n HR Hn ER d Hd bh PW HP1 NP) as (Gc & HGc & Ep).
        set (TW1 := map (unlift_e d) TW) in *. set (PW1 := map (unlift_e d) PW ++ Gc) in *.
        destruct Hd as (Hd1 & Hd2 & Hd3).
        assert (Hunl : forall y, unl (d :: movers Bs) y = unl (movers Bs) (unlift1 d y)) by reflexivity.
        assert (HGv : forall g, In g Gc -> fst g = par d).
        { intros g Hg. destruct HGc as [->|(hg & ->)]; [destruct Hg|]. destruct Hg as [<-|[]]. reflexivity. }
        assert (Hpar : unl_to (movers Bs) (par d) (par d)) by (apply unl_to_id; exact Hg1).
        assert (Hstep : forall X : list (coord * H), (forall e, In e X -> Good (fst e) /\ cvalid R (fst e) /\
                            unl_to (d :: movers Bs) (fst e) (unl (d :: movers Bs) (fst e))) ->
                  forall e, In e (map (unlift_e d) X) -> Good (fst e) /\ cvalid R (fst e) /\
                            unl_to (movers Bs) (fst e) (unl (movers Bs) (fst e))).
        { intros X HX e' He'. apply in_map_iff in He' as (e & <- & He).
          destruct (HX e He) as (Hgd & Hv & Hu). cbn [unl_to] in Hu. destruct Hu as [Hs Hu]. cbn [unlift_e fst].
          split; [exact (G2 _ (or_introl eq_refl) eq_refl _ Hgd Hs)|].
          split; [exact (unlift1_valid R d _ Hd1 Hv Hs)|]. rewrite Hunl in Hu. exact Hu. }
        assert (HT' : forall e, In e TW1 -> Good (fst e) /\ cvalid R (fst e) /\ unl_to (movers Bs) (fst e) (unl (movers Bs) (fst e)))
          by exact (Hstep TW HT).
        assert (HP' : forall e, In e PW1 -> Good (fst e) /\ cvalid R (fst e) /\ unl_to (movers Bs) (fst e) (unl (movers Bs) (fst e))).
        { intros e' He'. unfold PW1 in He'. apply in_app_or in He' as [He'|He']; [exact (Hstep PW HP e' He')|].
          rewrite (HGv e' He'). split; [exact (G2' _ (or_introl eq_refl) eq_refl)|].
          split; [exact (par_valid R d Hd1 Hd2)|]. rewrite (unl_to_fun _ _ _ Hpar). exact Hpar. }
        assert (NT' : NoDup (map fst TW1)).
        { unfold TW1. rewrite map_map. cbn [unlift_e fst].
          apply RefTheory.NoDup_map_inj_on; [exact (NoDup_map_inv _ _ NT)|].
          intros e1 e2 H1 H2 E.
          pose proof (unlift1_inj R n HR Hn ER d _ _ (proj2 (HT1 e1 H1)) (proj2 (HT1 e2 H2)) E) as Ey.
          exact (ud_nodup_map_inj fst TW NT e1 e2 H1 H2 Ey). }
        assert (NP' : NoDup (map fst PW1)).
        { unfold PW1. rewrite map_app. apply NoDup_app3.
          - rewrite map_map. cbn [unlift_e fst].
            apply RefTheory.NoDup_map_inj_on; [exact (NoDup_map_inv _ _ NP)|].
            intros e1 e2 H1 H2 E.
            pose proof (unlift1_inj R n HR Hn ER d _ _ (proj2 (HP1 e1 H1)) (proj2 (HP1 e2 H2)) E) as Ey.
            exact (ud_nodup_map_inj fst PW NP e1 e2 H1 H2 Ey).
          - destruct HGc as [->|(hg & ->)]; [constructor|]. cbn [map]. constructor; [intros []|constructor].
          - intros x Hx Hgx. apply in_map_iff in Hgx as (g & <- & Hgg). rewrite (HGv g Hgg) in Hx.
            apply in_map_iff in Hx as (e' & Ee & He'). apply in_map_iff in He' as (e & <- & He).
            cbn [unlift_e fst] in Ee. exact (unlift1_not_par R n HR Hn ER d _ (proj2 (HP1 e He)) Ee). }
        assert (Hnp1a : SpecBasics.ascK np1).
        { pose proof (ud_targets_np_asc (length (sortK (map cposh TW))) 0 (sortK (map cposh TW)) np
                        (cpos R d) bh (Parent (cpos R d) total) n total Hnp) as Ha.
          rewrite Et in Ha. exact Ha. }
        destruct (IH TW1 PW1 np1 (fun b' Hb' => HB b' (or_intror Hb')) Hg2
                     (fun b' Hb' => G2 b' (or_intror Hb')) (fun b' Hb' => G2' b' (or_intror Hb'))
                     (fun b' Hb' => G3 b' (or_intror Hb')) HT' HP' NT' NP' Hnp1a)
          as (PW' & np' & E & A1 & A2 & A3 & A4 & A5 & A6).
        exists PW', np'. split; [|split; [exact A1|split; [exact A2|split; [|split; [|split; [exact A5|]]]]]].
        * cbn [map].
          refine (eq_trans (ud_blocks_cons HO (bpos H R (d, bh)) (map (fun b => bpos H R (fst b)) Bs) _ _ np n total _ _ Et Ep) _).
          cbn [fst snd]. refine (eq_trans E _). f_equal. f_equal. f_equal. f_equal. f_equal.
          unfold TW1. rewrite map_map. apply map_ext. intros [y h]. reflexivity.
        * intros e He. specialize (A3 (unlift_e d e)). apply A3. unfold PW1. apply in_or_app. left. apply in_map, He.
        * intros e' He'. destruct (A4 e' He') as [(e1 & He1 & ->)|(b' & Hb' & Hfl & Eb')].
          -- unfold PW1 in He1. apply in_app_or in He1 as [He1|He1].
             ++ apply in_map_iff in He1 as (e & <- & He). left. exists e. split; [exact He|reflexivity].
             ++ right. exists (d, bh, true). split; [left; reflexivity|]. split; [reflexivity|].
                cbn [unl_e fst]. rewrite (HGv e1 He1). exact (unl_to_fun _ _ _ Hpar).
          -- right. exists b'. split; [right; exact Hb'|auto].
        * intros e He. destruct (A6 e He) as [He1|(b' & Hb' & ->)].
          -- apply Hnp1 in He1 as [He1|(-> & _)]; [left; exact He1|]. right. exists (d, bh, true). split; [left; reflexivity|reflexivity].
          -- right. exists b'. split; [right; exact Hb'|reflexivity].
      + (* the top of a deleted tree: nothing moves *)
        assert (Emv : movers ((d, bh, false) :: Bs) = movers Bs) by reflexivity.
        rewrite Emv in *.
        assert (Hnt : forall X : list (coord * H), (forall e, In e X -> Good (fst e) /\ cvalid R (fst e) /\ unl_to (movers Bs) (fst e) (unl (movers Bs) (fst e))) ->
                  forall e, In e (sortK (map cposh X)) ->
                    ud_test (cpos R d) (Parent (cpos R d) total) n total (fst e) = false).
        { intros X HX e He. apply (proj1 (RefTheory.sortK_In _ _)) in He. apply in_map_iff in He as (e0 & <- & He0).
          destruct (HX e0 He0) as (Hgd & Hv & _). exact (G3 _ (or_introl eq_refl) eq_refl _ Hgd Hv). }
        pose proof (ud_targets_noop (length (sortK (map cposh TW))) 0 (sortK (map cposh TW)) np (cpos R d) bh
                      (Parent (cpos R d) total) n total (Hnt TW HT)) as Et.
        assert (Ep : ud_proof HO (length (sortK (map cposh PW))) 0 (positions (sortK (map cposh PW))) true
                       (sortK (map cposh PW)) (cpos R d) bh (Parent (cpos R d) total) n total
                     = Some (sortK (map cposh PW))).
        { apply ud_proof_noop. intros t Ht. unfold positions in Ht. apply in_map_iff in Ht as (e & <- & He).
          exact (Hnt PW HP e He). }
        destruct (IH TW PW np (fun b' Hb' => HB b' (or_intror Hb')) Hg
                     (fun b' Hb' => G2 b' (or_intror Hb')) (fun b' Hb' => G2' b' (or_intror Hb'))
                     (fun b' Hb' => G3 b' (or_intror Hb')) HT HP NT NP Hnp)
          as (PW' & np' & E & A1 & A2 & A3 & A4 & A5 & A6).
        exists PW', np'. split; [|split; [exact A1|split; [exact A2|split; [exact A3|split; [|split; [exact A5|]]]]]].
        * cbn [map].
          refine (eq_trans (ud_blocks_cons HO (bpos H R (d, bh)) (map (fun b => bpos H R (fst b)) Bs) _ _ np n total _ _ Et Ep) _).
          cbn [fst snd]. exact E.
        * intros e' He'. destruct (A4 e' He') as [Hl|(b' & Hb' & Hfl & Eb')]; [left; exact Hl|].
          right. exists b'. split; [right; exact Hb'|auto].
        * intros e He. destruct (A6 e He) as [He1|(b' & Hb' & ->)]; [left; exact He1|].
          right. exists b'. split; [right; exact Hb'|reflexivity].
  Qed.
End Blocks2.

(** * 3. The contraction of [prune] undone, for whole subtrees *)

Section UnlTreeG.
  Variable H : Type.
  Variable HO : ops H.
  Hypothesis HOK : ops_ok HO.
  Variable hs : list H.
  Local Notation prune := (RefTheory.prune HO hs).
  Local Notation ppath := (ppath H HO hs).
  Local Notation glist := (glist H HO hs).
  Local Notation uncontracted := (uncontracted H HO hs).

  Theorem unl_tree_g : forall c : ctree H, forall Y, (cheight H c <= fst Y)%nat ->
    forall D, StronglySorted clt D -> (forall d, In d D <-> In d (glist c Y)) ->
    forall pi c0 c0', occp H c pi c0 -> prune c0 = Some c0' -> uncontracted c0 ->
      unl_to (rev D) (walk Y (ppath c pi)) (walk Y pi).
  Proof.
    induction c as [h|h l IHl r IHr]; intros Y HY D Hs Hp pi c0 c0' Ho Hpr Hun.
    - inversion Ho; subst. cbn [RefTheory.prune] in Hpr. cbn [ProofUpdateDel2.glist] in Hp.
      destruct (memH HO h hs); [discriminate|]. destruct D as [|d D]; [reflexivity|].
      exfalso. exact (proj1 (Hp d) (or_introl eq_refl)).
    - cbn [cheight] in HY.
      destruct (prune_occp H HO hs _ _ c0 Ho c0' Hpr) as (cc & Pc & _).
      rewrite (glist_node H HO hs h l r cc Pc) in Hp.
      assert (HZ : (1 <= fst Y)%nat) by lia.
      assert (Hhl : (cheight H l <= fst (chd 0 Y))%nat) by (unfold chd; cbn [fst]; lia).
      assert (Hhr : (cheight H r <= fst (chd 1 Y))%nat) by (unfold chd; cbn [fst]; lia).
      inversion Ho; subst.
      + (* the top: both children survive, nothing below reaches it *)
        rewrite ppath_nil. cbn [walk fold_left]. apply unl_to_id. intros d Hd. apply in_rev in Hd.
        destruct (Hun h l r eq_refl) as [Pl Pr].
        destruct (mv d Y) eqn:Em; [exfalso|reflexivity]. apply mv_under in Em. destruct Em as [Em _].
        apply Hp in Hd. apply in_app_or in Hd as [Hd|Hd].
        * destruct (glist_walk H HO hs l _ d Hhl Hd) as (tau & -> & Hlt & Hne). specialize (Hne Pl).
          destruct (walk_coord tau (chd 0 Y) ltac:(lia)) as [W1 _]. unfold par in Em. cbn [fst] in Em.
          rewrite W1 in Em. unfold chd in Em. cbn [fst] in Em. destruct tau; [contradiction|cbn [length] in *; lia].
        * destruct (glist_walk H HO hs r _ d Hhr Hd) as (tau & -> & Hlt & Hne). specialize (Hne Pr).
          destruct (walk_coord tau (chd 1 Y) ltac:(lia)) as [W1 _]. unfold par in Em. cbn [fst] in Em.
          rewrite W1 in Em. unfold chd in Em. cbn [fst] in Em. destruct tau; [contradiction|cbn [length] in *; lia].
      + (* below the left child *)
        match goal with X : occp H l _ c0 |- _ => rename X into Hol end.
        pose proof (occp_height H _ _ _ Hol) as Hh2.
        destruct (prune_occp H HO hs l _ c0 Hol c0' Hpr) as (l' & Pl & _).
        change (walk Y (false :: ?p)) with (walk (chd 0 Y) p). cbn [ProofUpdateDel.ppath].
        destruct (prune r) as [r'|] eqn:Pr.
        * change (walk Y (false :: ?p)) with (walk (chd 0 Y) p).
          apply (unl_to_filter (chd 0 Y)).
          -- apply under_walk. pose proof (ppath_length H HO hs l pi0). unfold chd. cbn [fst]. lia.
          -- intros d Hd Eu y Hy Hsf. apply in_rev in Hd. apply Hp in Hd. apply in_app_or in Hd as [Hd|Hd].
             ++ destruct (glist_walk H HO hs l _ d Hhl Hd) as (tau & -> & Hlt & Hne).
                apply un_region_closed; [apply Hne; rewrite Pl; discriminate|unfold chd; cbn [fst]; lia|exact Hy|exact Hsf].
             ++ exfalso. apply underb_spec in Eu. exact (under_chd_disj Y d HZ Eu (glist_under H HO hs r _ d Hhr Hd)).
          -- intros d Hd Eu y Hy. apply in_rev in Hd. apply Hp in Hd. apply in_app_or in Hd as [Hd|Hd].
             ++ exfalso. assert (Ht : underb (chd 0 Y) d = true) by (apply underb_spec, (glist_under H HO hs l _ d Hhl Hd)). congruence.
             ++ destruct (glist_walk H HO hs r _ d Hhr Hd) as (tau & -> & Hlt & Hne).
                apply (un_region_disj Y true tau y HZ); [apply Hne; rewrite Pr; discriminate|lia|exact Hy].
          -- rewrite filter_rev'.
             refine (IHl (chd 0 Y) Hhl _ (SS_filter _ _ _ Hs) _ pi0 c0 c0' Hol Hpr Hun).
             intros d. rewrite filter_In, Hp, in_app_iff, underb_spec. split.
             ++ intros [[Hd|Hd] Hu]; [exact Hd|]. exfalso. exact (under_chd_disj Y d HZ Hu (glist_under H HO hs r _ d Hhr Hd)).
             ++ intros Hd. split; [left; exact Hd|exact (glist_under H HO hs l _ d Hhl Hd)].
        * rewrite (glist_none H HO hs r Pr) in Hp.
          assert (Hp2 : forall d, In d D <-> In d (glist l (chd 0 Y)) \/ d = chd 1 Y).
          { intros d. rewrite Hp, in_app_iff. cbn [In]. split.
            - intros [A|[B|[]]]; [left; exact A|right; symmetry; exact B].
            - intros [A|B]; [left; exact A|right; left; symmetry; exact B]. }
          destruct (sorted_last D (glist l (chd 0 Y)) (chd 1 Y) Hs Hp2) as (D' & -> & Hp' & Hs').
          { intros a Ha. left. pose proof (glist_row H HO hs l _ a Hhl ltac:(rewrite Pl; discriminate) Ha) as Hr.
            unfold chd in *. cbn [fst] in *. exact Hr. }
          rewrite rev_app_distr. cbn [rev app unl_to].
          pose proof (ppath_length H HO hs l pi0) as Hpl.
          destruct (unlift1_sibling Y true (ppath l pi0) HZ ltac:(lia)) as (A & B & C). cbn [bN negb] in A, B, C.
          split; [intros _; exact B|]. rewrite C.
          exact (IHl (chd 0 Y) Hhl D' Hs' Hp' pi0 c0 c0' Hol Hpr Hun).
      + (* below the right child *)
        match goal with X : occp H r _ c0 |- _ => rename X into Hor end.
        pose proof (occp_height H _ _ _ Hor) as Hh2.
        destruct (prune_occp H HO hs r _ c0 Hor c0' Hpr) as (r' & Pr & _).
        change (walk Y (true :: ?p)) with (walk (chd 1 Y) p). cbn [ProofUpdateDel.ppath].
        destruct (prune l) as [l'|] eqn:Pl.
        * change (walk Y (true :: ?p)) with (walk (chd 1 Y) p).
          apply (unl_to_filter (chd 1 Y)).
          -- apply under_walk. pose proof (ppath_length H HO hs r pi0). unfold chd. cbn [fst]. lia.
          -- intros d Hd Eu y Hy Hsf. apply in_rev in Hd. apply Hp in Hd. apply in_app_or in Hd as [Hd|Hd].
             ++ exfalso. apply underb_spec in Eu. exact (under_chd_disj Y d HZ (glist_under H HO hs l _ d Hhl Hd) Eu).
             ++ destruct (glist_walk H HO hs r _ d Hhr Hd) as (tau & -> & Hlt & Hne).
                apply un_region_closed; [apply Hne; rewrite Pr; discriminate|unfold chd; cbn [fst]; lia|exact Hy|exact Hsf].
          -- intros d Hd Eu y Hy. apply in_rev in Hd. apply Hp in Hd. apply in_app_or in Hd as [Hd|Hd].
             ++ destruct (glist_walk H HO hs l _ d Hhl Hd) as (tau & -> & Hlt & Hne).
                apply (un_region_disj Y false tau y HZ); [apply Hne; rewrite Pl; discriminate|lia|exact Hy].
             ++ exfalso. assert (Ht : underb (chd 1 Y) d = true) by (apply underb_spec, (glist_under H HO hs r _ d Hhr Hd)). congruence.
          -- rewrite filter_rev'.
             refine (IHr (chd 1 Y) Hhr _ (SS_filter _ _ _ Hs) _ pi0 c0 c0' Hor Hpr Hun).
             intros d. rewrite filter_In, Hp, in_app_iff, underb_spec. split.
             ++ intros [[Hd|Hd] Hu]; [|exact Hd]. exfalso. exact (under_chd_disj Y d HZ (glist_under H HO hs l _ d Hhl Hd) Hu).
             ++ intros Hd. split; [right; exact Hd|exact (glist_under H HO hs r _ d Hhr Hd)].
        * rewrite (glist_none H HO hs l Pl) in Hp.
          assert (Hp2 : forall d, In d D <-> In d (glist r (chd 1 Y)) \/ d = chd 0 Y).
          { intros d. rewrite Hp, in_app_iff. cbn [In]. split.
            - intros [[A|[]]|B]; [right; symmetry; exact A|left; exact B].
            - intros [A|B]; [right; exact A|left; left; symmetry; exact B]. }
          destruct (sorted_last D (glist r (chd 1 Y)) (chd 0 Y) Hs Hp2) as (D' & -> & Hp' & Hs').
          { intros a Ha. left. pose proof (glist_row H HO hs r _ a Hhr ltac:(rewrite Pr; discriminate) Ha) as Hr.
            unfold chd in *. cbn [fst] in *. exact Hr. }
          rewrite rev_app_distr. cbn [rev app unl_to].
          pose proof (ppath_length H HO hs r pi0) as Hpl.
          destruct (unlift1_sibling Y false (ppath r pi0) HZ ltac:(lia)) as (A & B & C). cbn [bN negb] in A, B, C.
          split; [intros _; exact B|]. rewrite C.
          exact (IHr (chd 1 Y) Hhr D' Hs' Hp' pi0 c0 c0' Hor Hpr Hun).
  Qed.
End UnlTreeG.

Lemma twinfree_par (L : list coord) : twinfreeC L -> forall d d', In d L -> In d' L -> par d = par d' -> d = d'.
Proof.
  intros Htf d d' Hd Hd' Ep. unfold par in Ep. injection Ep as Er Eq.
  pose proof (N.div_mod (snd d) 2 ltac:(lia)) as A. pose proof (N.div_mod (snd d') 2 ltac:(lia)) as B.
  pose proof (N.mod_lt (snd d) 2 ltac:(lia)) as A'. pose proof (N.mod_lt (snd d') 2 ltac:(lia)) as B'.
  rewrite <- Eq in B. set (q := snd d / 2) in *.
  destruct (N.eq_dec (snd d mod 2) (snd d' mod 2)) as [Em|Hm].
  - destruct d, d'. cbn [fst snd] in *. f_equal; lia.
  - exfalso. set (y := (S (fst d), q)).
    assert (Hc : forall a b : coord, In a L -> In b L -> fst a = fst d -> fst b = fst d ->
              snd a = 2 * q -> snd b = 2 * q + 1 -> False).
    { intros a b Ha Hb Fa Fb Sa Sb. apply (Htf y); [cbn; lia| |].
      - replace (chd 0 y) with a; [exact Ha|]. unfold chd, y. cbn [fst snd Nat.pred]. destruct a. cbn [fst snd] in *. f_equal; lia.
      - replace (chd 1 y) with b; [exact Hb|]. unfold chd, y. cbn [fst snd Nat.pred]. destruct b. cbn [fst snd] in *. f_equal; lia. }
    destruct (N.eq_dec (snd d mod 2) 0) as [E0|E1].
    + apply (Hc d d' Hd Hd'); lia.
    + apply (Hc d' d Hd' Hd); lia.
Qed.

Section UnlForestG.
  Variable H : Type.
  Variable HO : ops H.
  Hypothesis HOK : ops_ok HO.
  Variable s : slots H.
  Variable hs : list H.
  Local Notation entry := (StumpAdd.entry H).
  Local Notation erow := (@StumpAdd.erow H).
  Local Notation ecoord := (@StumpAddData.ecoord H).
  Local Notation prune := (RefTheory.prune HO hs).
  Local Notation ppath := (ppath H HO hs).
  Local Notation s1 := (kill HO hs s).

  Variable D : list coord.
  Hypothesis HsD : StronglySorted clt D.
  Hypothesis HD : forall d, In d D <->
    exists (e : entry) ce, In e (forest HO s) /\ snd e = Some ce /\ prune ce <> None /\
                          In d (glist H HO hs ce (ecoord e)).

  (** a target of another tree does not move the coordinates below a tree *)
  Lemma ug_other (e : entry) d y : In e (forest HO s) -> In d D -> underb (ecoord e) d = false ->
    under (ecoord e) y -> mv d y = false.
  Proof.
    intros He Hd Eu Hy. destruct (mv d y) eqn:Em; [exfalso|reflexivity]. apply mv_under in Em.
    apply HD in Hd as (e' & ce' & He' & Hs' & Hne2 & Hd).
    pose proof (gf_height H HO s e' ce' He' Hs') as Hh'.
    destruct (glist_walk H HO hs ce' (ecoord e') d Hh' Hd) as (tau & Ed & Hlt & Hne'). specialize (Hne' Hne2).
    assert (HA : under (ecoord e') (par d)).
    { rewrite Ed. apply under_parent_walk; [exact Hne'|change (fst (ecoord e')) with (erow e'); lia]. }
    destruct (Nat.eq_dec (erow e') (erow e)) as [Er|Er].
    - pose proof (gf_same_row H HO s e' e He' He Er) as ->.
      assert (Ht : underb (ecoord e) d = true).
      { apply underb_spec. rewrite Ed. apply under_walk. change (fst (ecoord e)) with (erow e). lia. }
      congruence.
    - exact (gf_trees_disj H HO s e' e _ y He' He Er HA Hy Em).
  Qed.

  (** a target of the tree keeps the coordinates below the tree below it *)
  Lemma ug_same (e : entry) ce d y : In e (forest HO s) -> snd e = Some ce -> prune ce <> None -> In d D ->
    underb (ecoord e) d = true -> under (ecoord e) y -> (mv d y = true -> (1 <= fst y)%nat) ->
    under (ecoord e) (unlift1 d y).
  Proof.
    intros He Hs Hne Hd Eu Hy Hsf. apply underb_spec in Eu.
    pose proof (gf_height H HO s e ce He Hs) as Hh.
    pose proof (gf_in_tree H HO s hs D HD e ce d He Hs Hd Eu) as Hd'.
    destruct (glist_walk H HO hs ce (ecoord e) d Hh Hd') as (tau & -> & Hlt & Hne').
    apply un_region_closed; [exact (Hne' Hne)|change (fst (ecoord e)) with (erow e); lia|exact Hy|exact Hsf].
  Qed.

  Lemma ug_unlift (e : entry) ce pi c0 c0' : In e (forest HO s) -> snd e = Some ce ->
    occp H ce pi c0 -> prune c0 = Some c0' -> uncontracted H HO hs c0 ->
    unl_to (rev D) (walk (ecoord e) (ppath ce pi)) (walk (ecoord e) pi).
  Proof.
    intros He Hs Hp Hpr Hun.
    assert (Hne : prune ce <> None).
    { destruct (prune_occp H HO hs ce pi c0 Hp c0' Hpr) as (cc & Pc & _). rewrite Pc. discriminate. }
    pose proof (gf_height H HO s e ce He Hs) as Hh. pose proof (occp_height H _ _ _ Hp) as Hl.
    pose proof (ppath_length H HO hs ce pi) as Hpl.
    apply (unl_to_filter (ecoord e)).
    - apply under_walk. change (fst (ecoord e)) with (erow e). lia.
    - intros d Hd Eu y Hy Hsf. apply in_rev in Hd. exact (ug_same e ce d y He Hs Hne Hd Eu Hy Hsf).
    - intros d Hd Eu y Hy. apply in_rev in Hd. exact (ug_other e d y He Hd Eu Hy).
    - rewrite filter_rev'.
      apply (unl_tree_g H HO hs ce (ecoord e) Hh _ (SS_filter _ _ _ HsD)) with (c0 := c0) (c0' := c0');
        [|exact Hp|exact Hpr|exact Hun].
      intros d. rewrite filter_In, underb_spec. split.
      + intros [Hd Hu]. exact (gf_in_tree H HO s hs D HD e ce d He Hs Hd Hu).
      + intros Hd. split; [apply HD; exists e, ce; auto|exact (glist_under H HO hs ce (ecoord e) d Hh Hd)].
  Qed.

  Lemma ug_down c0' r1 o1 : locc H HO s1 c0' r1 o1 ->
    exists c0 r0 o0, locc H HO s c0 r0 o0 /\ prune c0 = Some c0' /\ liftc D (r0, o0) = (r1, o1) /\
                     uncontracted H HO hs c0 /\ unl_to (rev D) (r1, o1) (r0, o0).
  Proof.
    intros Hl. apply locc_path in Hl as (e' & c' & pi' & He' & Hs' & Hp' & Hw & _).
    rewrite RefTheory.forest_kill in He'. apply in_map_iff in He' as (e & <- & He).
    unfold RefTheory.prune_entry in Hs'. cbn [snd] in Hs'.
    destruct (snd e) as [ce|] eqn:Ese; [|discriminate]. cbn [RefTheory.oprune] in Hs'.
    destruct (prune_occp_inv2 H HO hs ce c' Hs' pi' c0' Hp') as (pi & c0 & A & B & C & U).
    pose proof (sl_height H HO s e ce pi c0 He Ese A) as Hl.
    exists c0, (fst (walk (ecoord e) pi)), (snd (walk (ecoord e) pi)).
    split; [apply locc_path; exists e, ce, pi; repeat split; try assumption; apply surjective_pairing|].
    split; [exact B|].
    change (ecoord (RefTheory.prune_entry HO hs e)) with (ecoord e) in Hw.
    rewrite <- surjective_pairing.
    split; [rewrite (gf_move H HO s hs D HsD HD e ce pi c0 c0' He Ese A B), C; exact Hw|].
    split; [exact U|].
    pose proof (ug_unlift e ce pi c0 c0' He Ese A B U) as Hu. rewrite C, Hw in Hu. exact Hu.
  Qed.

  Lemma ug_up_unlift c0 r0 o0 c0' : locc H HO s c0 r0 o0 -> prune c0 = Some c0' ->
    uncontracted H HO hs c0 -> unl_to (rev D) (liftc D (r0, o0)) (r0, o0).
  Proof.
    intros Hl Hp Hun. apply locc_path in Hl as (e & ce & pi & He & Hs & Ho & Hw & _).
    rewrite <- Hw, (gf_move H HO s hs D HsD HD e ce pi c0 c0' He Hs Ho Hp).
    exact (ug_unlift e ce pi c0 c0' He Hs Ho Hp Hun).
  Qed.
End UnlForestG.

(** * 4. [undoDel] for every set of deletions *)

Section UndoDelGraph2.
  Variable H : Type.
  Variable HO : ops H.
  Variable F1 : N -> H.

  Theorem ud_undoDel_graph2 (n : N) (t1 PP1 comp1 : list N) (h1 : list H) (bt : list N) (bhs bp : list H)
          (tw1 pw1 np before : list (hp H)) cands rows (needed comp : list N) :
    bt <> [] -> length t1 = length h1 -> SSlt t1 -> SSlt PP1 ->
    ProofPositions_fast t1 n (TreeRows n) = (PP1, comp1) ->
    length bt = length bhs ->
    ud_blocks HO (rev (deTwinHashAndPos HO (sortK (zip_hp bt bhs)) (TreeRows n))) (zip_hp t1 h1) (gr H F1 PP1) [] n (TreeRows n)
    = Some (tw1, pw1, np) ->
    calculateHashes HO true n (Some bhs) bt bp = Ok (before, cands, rows) ->
    ProofPositions_fast (positions tw1) n (TreeRows n) = (needed, comp) ->
    undoDel HO t1 (map F1 PP1) bt bhs h1 bt bp n
    = Some (hashes tw1, positions tw1,
            hashes (getHashAndPosSubset
                      (mergeSortedHashAndPos (ud_replace (mergeSortedHashAndPos pw1 np) before) before)
                      needed)).
  Proof.
    intros Hne ElT HsT HsP Epp Elb Ebl Ecalc Epp2.
    unfold undoDel. destruct bt as [|b0 bt']; [contradiction|].
    rewrite (pu_toHP H t1 h1 ElT HsT).
    unfold positions at 1. rewrite (pu_zip_fst t1 h1 ElT), Epp.
    rewrite (pu_toHP H PP1 (map F1 PP1)) by (try assumption; rewrite map_length; reflexivity).
    rewrite (po_zip_gr H F1 PP1).
    unfold toHashAndPos at 1. rewrite Elb, Nat.eqb_refl.
    cbv zeta.
    match goal with |- match ?X with _ => _ end = _ => replace X with (Some (tw1, pw1, np)) by (symmetry; exact Ebl) end.
    rewrite Ecalc, Epp2. reflexivity.
  Qed.
End UndoDelGraph2.

Section UndoDelAll.
  Variable H : Type.
  Variable HO : ops H.
  Hypothesis HOK : ops_ok HO.
  Hypothesis hash_nz : forall a b, NZ HO (op_hash2 HO a b).
  Variable s : slots H.
  Hypothesis Hlive_nz : forall h, In (Some h) s -> NZ HO h.
  Hypothesis Hn63 : N.of_nat (length s) <= 2 ^ 63.
  Hypothesis Hnd : NoDup (live s).
  Variable hs : list H.
  Hypothesis Hhs : NoDup hs.
  Local Notation entry := (StumpAdd.entry H).
  Local Notation prune := (RefTheory.prune HO hs).

  Local Notation n := (N.of_nat (length s)).
  Local Notation total := (TreeRows (N.of_nat (length s))).
  Local Notation R := (rows_of (num_leaves s)).
  Local Notation lay := (layout HO s).
  Local Notation F := (Fv H HO s).
  Local Notation s1 := (kill HO hs s).
  Local Notation lay1 := (layout HO (kill HO hs s)).
  Local Notation F1 := (Fv H HO (kill HO hs s)).

  Variable xds : list (node H).
  Hypothesis Fx : find_leaves HO lay hs = Some xds.

  Lemma ua_x : (forall x, In x xds -> In x lay) /\ (forall x, In x xds -> nleaf x = true) /\ NoDup xds /\
               map (@nhash H) xds = hs.
  Proof. destruct (cc_find_leaves_facts HO s hs xds HOK Hhs Fx) as (A & B & C0 & D0 & _). auto. Qed.
  Lemma ua_R63 : (R <= 63)%nat. Proof. apply rows_of_le_63. exact Hn63. Qed.
  Lemma ua_ER : N.of_nat R = total. Proof. exact (rf_R_total H s). Qed.

  Variable C : list H.
  Hypothesis HC : NoDup C.
  Variables (h1 : list H) (t1 : list N) (p1 : list H).
  Hypothesis E1 : exp_cached HO (mk_ctx HO s1) (removeH HO C hs) = Some (h1, t1, p1).
  Hypothesis Hxne : xds <> [].

  Theorem undoDel_all_main :
    undoDel HO t1 p1 (map (npos R) xds) hs h1 (map (npos R) xds) (canon_proof_hashes HO R lay xds) n
    = exp_cached HO (mk_ctx HO s) (removeH HO C hs).
  Proof.
    destruct ua_x as (Lx & Flx & Ntx & Ehx). pose proof ua_R63 as HR63. pose proof ua_ER as ER.
    (* the block targets: the roots of the maximal deleted subtrees *)
    destruct (tw_deTwinHP H HO HOK s Hn63 Hnd hs (mdd H s xds) (af_L0_sorted H HO s xds Lx Ntx)
                (af_L0_leaf H HO s hs xds Lx Flx Ehx) (af_L0_cov H HO s Hnd hs xds Lx Flx Ehx))
      as (Lf & EdtHP & HsLf & Lfd & Lac & Lcov & Ltf).
    assert (LfV : forall x, In x Lf -> cvalid R x) by (intros x Hx; exact (tw_fdc_valid H HO s hs x (Lfd x Hx))).
    set (D := filter (fun d => negb (istop H HO s d)) Lf).
    assert (HsD : StronglySorted ProofUpdateDel.clt D).
    { apply SS_filter. exact (SS_clt_of_pos R Lf LfV HsLf). }
    assert (Fnt : forall d, In d Lf -> istop H HO s d = false -> exists (e : entry) ce, In e (forest HO s) /\ snd e = Some ce /\
                    prune ce <> None /\ In d (glist H HO hs ce (StumpAddData.ecoord H e))).
    { intros d Hd Ht. destruct (tw_char_fwd H HO HOK s Hn63 hs Lf Lfd Lac Lcov Ltf d Hd) as (e & ce & He & Hse & _ & [[E _]|[Hne Hg]]).
      - exfalso. assert (istop H HO s d = true) by (apply istop_spec; exists e, ce; auto). congruence.
      - exists e, ce. auto. }
    assert (Ftop : forall d, In d Lf -> istop H HO s d = true -> exists (e : entry) ce, In e (forest HO s) /\ snd e = Some ce /\
                    prune ce = None /\ d = StumpAddData.ecoord H e).
    { intros d Hd Ht. destruct (tw_char_fwd H HO HOK s Hn63 hs Lf Lfd Lac Lcov Ltf d Hd) as (e & ce & He & Hse & _ & [[E Hn]|[Hne Hg]]).
      - exists e, ce. auto.
      - rewrite (af_glist_not_top H HO s Hn63 hs e ce d He Hse Hne Hg) in Ht. discriminate. }
    assert (HDd : forall d, In d D <-> exists (e : entry) ce, In e (forest HO s) /\ snd e = Some ce /\
                    prune ce <> None /\ In d (glist H HO hs ce (StumpAddData.ecoord H e))).
    { intros d. unfold D. rewrite filter_In, negb_true_iff. split.
      - intros [Hd Ht]. exact (Fnt d Hd Ht).
      - intros (e & ce & He & Hse & Hne & Hg). split; [|exact (af_glist_not_top H HO s Hn63 hs e ce d He Hse Hne Hg)].
        exact (tw_char_bwd H HO HOK s Hn63 hs Lf Lfd Lac Lcov Ltf e ce d He Hse Hne Hg). }
    assert (HDLf : forall d, In d D -> In d Lf) by (intros d Hd; apply filter_In in Hd; exact (proj1 Hd)).
    pose proof (kill_rows H HO hs s) as ER1.
    assert (EL1 : N.of_nat (length s1) = n) by (rewrite length_kill; reflexivity).
    assert (Hn63_1 : N.of_nat (length s1) <= 2 ^ 63) by (rewrite EL1; exact Hn63).
    pose proof (dg_nd1 H HO s Hnd hs) as Hnd1.
    (* the cached proof after the deletions *)
    pose proof E1 as E1'. unfold exp_cached in E1'. cbn [mk_ctx clay crows] in E1'.
    set (C2 := removeH HO C hs) in *.
    assert (HC2 : NoDup C2) by (apply NoDup_filter; exact HC).
    destruct (find_leaves HO lay1 C2) as [tsU|] eqn:FU; [|discriminate].
    fold (sort_nodes H s1 tsU) in E1'. injection E1' as <- <- <-.
    destruct (cc_find_leaves_facts HO s1 C2 tsU HOK HC2 FU) as (LU & FlU & NtU & EhU & InU).
    set (sortedU := sort_nodes H s1 tsU).
    pose proof (po_sort_nodes_perm H s1 tsU) as PsortU. fold sortedU in PsortU.
    assert (LSU : forall x, In x sortedU -> In x lay1)
      by (intros x Hx; apply LU; exact (Permutation_in _ PsortU Hx)).
    assert (FlSU : forall x, In x sortedU -> nleaf x = true)
      by (intros x Hx; apply FlU; exact (Permutation_in _ PsortU Hx)).
    assert (NtSU : NoDup sortedU) by (exact (Permutation_NoDup (Permutation_sym PsortU) NtU)).
    assert (HhU : forall h, In h (map (@nhash H) sortedU) <-> In h C2).
    { intros h. rewrite <- EhU. split; apply Permutation_in, Permutation_map;
        [exact PsortU|exact (Permutation_sym PsortU)]. }
    assert (HinU : forall y, In y lay1 -> nleaf y = true -> In (nhash y) C2 -> In y sortedU).
    { intros y Hy Hl Hh. apply (Permutation_in _ (Permutation_sym PsortU)). apply InU.
      exists (nhash y). split; [exact Hh|exact (find_leaf_of_node H HO HOK s1 y Hnd1 Hy Hl)]. }
    assert (HsTU : SSlt (map (npos R) sortedU)).
    { rewrite <- ER1. unfold sortedU. rewrite (po_sort_nodes_pos H HO s1 tsU LU NtU).
      apply pps_sortN_NoDup_SSlt, (po_targets_NoDup H HO s1 tsU LU NtU). }
    assert (Epp1 : ProofPositions_fast (map (npos R) sortedU) n total
                   = (canon_proof_pos R lay1 sortedU, computable_pos R lay1 sortedU)).
    { pose proof (po_pp_both_fast H HO s1 Hn63_1 sortedU LSU FlSU NtSU) as Hq.
      rewrite ER1, EL1 in Hq. rewrite <- (po_sortN_sorted_id _ HsTU) at 1. exact Hq. }
    assert (HsPU : SSlt (canon_proof_pos R lay1 sortedU)).
    { pose proof (po_canon_pos_SSlt H HO s1 Hn63_1 sortedU LSU) as Hq. rewrite ER1 in Hq. exact Hq. }
    assert (Ep1 : canon_proof_hashes HO R lay1 sortedU = map F1 (canon_proof_pos R lay1 sortedU)).
    { pose proof (po_canon_hashes_Fv H HO s1 Hn63_1 sortedU LSU) as Hq. rewrite ER1 in Hq. exact Hq. }
    rewrite ER1. rewrite Ep1.
    (* the kept leaves in the previous state *)
    assert (HC2s : forall h, In h C2 -> In (Some h) s /\ ~ In h hs).
    { intros h Hh. apply HhU in Hh. apply in_map_iff in Hh as (y & <- & Hy).
      apply (dg_live1 H HO HOK s hs). exact (layout_leaf_live H HO s1 y (LSU y Hy) (FlSU y Hy)). }
    destruct (po_find_leaves_some H HO s C2) as [tsC FC].
    { intros h Hh. destruct (proj1 (find_leaf_live H HO s h HOK) (proj1 (HC2s h Hh))) as (x & Ex & _).
      exists x. exact Ex. }
    destruct (cc_find_leaves_facts HO s C2 tsC HOK HC2 FC) as (LC & FlC & NtC & EhC & InC).
    set (sorted := sort_nodes H s tsC).
    pose proof (po_sort_nodes_perm H s tsC) as Psort. fold sorted in Psort.
    assert (LS : forall x, In x sorted -> In x lay)
      by (intros x Hx; apply LC; exact (Permutation_in _ Psort Hx)).
    assert (FlS : forall x, In x sorted -> nleaf x = true)
      by (intros x Hx; apply FlC; exact (Permutation_in _ Psort Hx)).
    assert (NtS : NoDup sorted) by (exact (Permutation_NoDup (Permutation_sym Psort) NtC)).
    assert (HhS : forall h, In h (map (@nhash H) sorted) <-> In h C2).
    { intros h. rewrite <- EhC. split; apply Permutation_in, Permutation_map;
        [exact Psort|exact (Permutation_sym Psort)]. }
    assert (HinS : forall y, In y lay -> nleaf y = true -> In (nhash y) C2 -> In y sorted).
    { intros y Hy Hl Hh. apply (Permutation_in _ (Permutation_sym Psort)). apply InC.
      exists (nhash y). split; [exact Hh|exact (find_leaf_of_node H HO HOK s y Hnd Hy Hl)]. }
    assert (HsTS : SSlt (map (npos R) sorted)).
    { unfold sorted. rewrite (po_sort_nodes_pos H HO s tsC LC NtC).
      apply pps_sortN_NoDup_SSlt, (po_targets_NoDup H HO s tsC LC NtC). }
    set (needed := canon_proof_pos R lay sorted).
    assert (Epp : ProofPositions_fast (map (npos R) sorted) n total
                  = (needed, computable_pos R lay sorted)).
    { rewrite <- (po_sortN_sorted_id _ HsTS) at 1. exact (po_pp_both_fast H HO s Hn63 sorted LS FlS NtS). }
    pose proof (po_canon_pos_SSlt H HO s Hn63 sorted LS) as Hsn. fold needed in Hsn.
    unfold exp_cached. cbn [mk_ctx clay crows]. rewrite FC.
    fold (sort_nodes H s tsC). fold sorted.
    (* the block targets with their hashes: [deTwinHashAndPos] gives the roots with their hashes in [s] *)
    set (sxd := sort_nodes H s xds).
    pose proof (po_sort_nodes_perm H s xds) as Psx. fold sxd in Psx.
    assert (Hbtpos : map (npos R) sxd = sortN (map (npos R) xds))
      by exact (po_sort_nodes_pos H HO s xds Lx Ntx).
    assert (Hbts : SSlt (map (npos R) sxd)).
    { rewrite Hbtpos. apply pps_sortN_NoDup_SSlt, (po_targets_NoDup H HO s xds Lx Ntx). }
    assert (Esx : forall x, In x sxd -> In x xds) by (intros x Hx; exact (Permutation_in _ Psx Hx)).
    assert (Ebtw0 : sortK (zip_hp (map (npos R) xds) hs) = gr H F (map (cpos R) (mdd H s xds))).
    { symmetry. apply (st_sort_uniq H).
      - rewrite po_gr_fst. exact (af_L0_sorted H HO s xds Lx Ntx).
      - unfold mdd, gr. fold sxd. rewrite !map_map. rewrite <- Ehx, pu_zip_map.
        eapply Permutation_trans; [|apply Permutation_map; exact Psx].
        apply Permutation_refl'. apply map_ext_in. intros x Hx. cbn [fst snd].
        change (cpos R (nrow x, noff x)) with (npos R x). rewrite (po_Fv_node H HO s x (Lx x (Esx x Hx))). reflexivity. }
    set (Bs := map (fun d => ((d, F (cpos R d)), negb (istop H HO s d))) Lf).
    assert (Ebtw : deTwinHashAndPos HO (sortK (zip_hp (map (npos R) xds) hs)) total
                   = map (fun b => bpos H R (fst b)) Bs).
    { rewrite Ebtw0, EdtHP. unfold gr, Bs. rewrite !map_map. reflexivity. }
    assert (Emov : movers H (rev Bs) = rev D).
    { unfold movers, Bs, D. rewrite filter_rev', map_rev. f_equal.
      rewrite ud_filter_map, map_map. cbn [fst snd]. apply map_id. }
    (* the targets and the proof positions after the deletions, as lists of coordinates *)
    set (XT := map (fun x : node H => ((nrow x, noff x), nhash x)) sortedU).
    assert (EzT : zip_hp (map (npos R) sortedU) (map (@nhash H) sortedU) = map (cposh H R) XT).
    { unfold XT. rewrite map_map, pu_zip_map. reflexivity. }
    assert (HXT : forall e, In e XT -> exists c0, locc H HO s1 c0 (fst (fst e)) (snd (fst e)) /\ snd e = chash c0).
    { intros e He. unfold XT in He. apply in_map_iff in He as (x & <- & Hx). cbn [fst snd].
      destruct (node_locc H HO s1 x (LSU x Hx) (FlSU x Hx)) as (k0 & lo & c & He & Ho & _).
      exists (CLeaf (nhash x)). split; [exists k0, lo, c; auto|reflexivity]. }
    assert (NdT : NoDup (map fst XT)).
    { unfold XT. rewrite map_map. cbn [fst].
      apply (RefTheory.NoDup_map_inj_on (fun x : node H => (nrow x, noff x))); [exact NtSU|].
      intros x y Hx Hy Exy. apply (RefTheory.layout_coord_inj H HO s1 x y (LSU x Hx) (LSU y Hy)). exact Exy. }
    set (SC := sort_coords R (proof_coords lay1 sortedU)).
    assert (ESC : canon_proof_pos R lay1 sortedU = map fst SC) by reflexivity.
    set (XP := map (fun e : N * (nat * N) => (snd e, F1 (fst e))) SC).
    assert (EzP : gr H F1 (map fst SC) = map (cposh H R) XP).
    { unfold gr, XP. rewrite !map_map. apply map_ext_in. intros e He.
      apply RefTheory.sort_coords_In in He as (c & _ & ->). reflexivity. }
    assert (Hn2R : n <= 2 ^ N.of_nat R) by exact (rows_of_upper (num_leaves s)).
    assert (Hlv1 : forall c0 r o, locc H HO s1 c0 r o -> cvalid R (r, o)).
    { intros c0 r o Hl. apply (cinf_valid R n (r, o) Hn2R). rewrite <- EL1.
      destruct (locc_node H HO s1 c0 r o Hl) as (x & Hx & Xr & Xo & _).
      pose proof (layout_coords_valid H HO s1 x Hx) as Hv. rewrite Xr, Xo in Hv. exact Hv. }
    assert (Hlv : forall c0 r o, locc H HO s c0 r o -> cvalid R (r, o)).
    { intros c0 r o Hl. apply (cinf_valid R n (r, o) Hn2R).
      destruct (locc_node H HO s c0 r o Hl) as (x & Hx & Xr & Xo & _).
      pose proof (layout_coords_valid H HO s x Hx) as Hv. rewrite Xr, Xo in Hv. exact Hv. }
    assert (HSCv : forall e, In e SC -> fst e = cpos R (snd e) /\ cvalid R (snd e)).
    { intros e He. apply RefTheory.sort_coords_In in He as (c & Hc & ->). cbn [fst snd].
      split; [reflexivity|].
      pose proof (po_is_node_vld H HO s1 c (po_proof_coord_is_node H HO s1 Hn63_1 sortedU LSU c Hc)) as [V1 V2].
      unfold cN in V1, V2. cbn [fst snd] in V1, V2. rewrite EL1, <- ER in V1, V2.
      split; [lia|exact V2]. }
    assert (HXP : forall e, In e XP -> exists c0, locc H HO s1 c0 (fst (fst e)) (snd (fst e)) /\ snd e = chash c0).
    { intros e He. unfold XP in He. apply in_map_iff in He as (ec & <- & Hec). cbn [fst snd].
      destruct (HSCv ec Hec) as [Ep Hv].
      assert (Hp : In (fst ec) (canon_proof_pos R lay1 sortedU)) by (rewrite ESC; apply in_map, Hec).
      rewrite <- ER1 in Hp.
      apply (canon_pos_occ H HO s1 Hn63_1 Hnd1 sortedU LSU FlSU) in Hp as (h & l & rr & r & o & Hlp & Hcase).
      rewrite ER1 in Hcase.
      destruct (locc_child H HO s1 _ _ _ Hlp h l rr eq_refl) as (r1 & Er & Ll & Lr). injection Er as <-.
      destruct Hcase as [(_ & _ & Eq)|(_ & _ & Eq)].
      - assert (Ec : snd ec = (r, 2 * o + 1)).
        { apply (cpos_inj R _ _ HR63 Hv (Hlv1 rr _ _ Lr)). rewrite <- Ep, Eq. reflexivity. }
        exists rr. rewrite Ec. cbn [fst snd]. split; [exact Lr|]. rewrite Eq.
        pose proof (locc_val H HO s1 rr _ _ Lr) as Hq. rewrite ER1 in Hq. exact Hq.
      - assert (Ec : snd ec = (r, 2 * o)).
        { apply (cpos_inj R _ _ HR63 Hv (Hlv1 l _ _ Ll)). rewrite <- Ep, Eq. reflexivity. }
        exists l. rewrite Ec. cbn [fst snd]. split; [exact Ll|]. rewrite Eq.
        pose proof (locc_val H HO s1 l _ _ Ll) as Hq. rewrite ER1 in Hq. exact Hq. }
    assert (NdP : NoDup (map fst XP)).
    { unfold XP. rewrite map_map. cbn [fst].
      assert (Hn1 : NoDup (map fst SC)) by (apply pps_SSlt_NoDup; rewrite <- ESC; exact HsPU).
      assert (Hn2 : NoDup (map (cpos R) (map snd SC))).
      { replace (map (cpos R) (map snd SC)) with (map fst SC); [exact Hn1|].
        rewrite map_map. apply map_ext_in. intros e He. exact (proj1 (HSCv e He)). }
      exact (NoDup_map_inv _ _ Hn2). }
    (* un-lifting: every subtree of the state after the deletions goes back to its uncontracted
       origin *)
    assert (Hdown : forall c0' r1 o1, locc H HO s1 c0' r1 o1 ->
              exists c0 r0 o0, locc H HO s c0 r0 o0 /\ prune c0 = Some c0' /\ liftc D (r0, o0) = (r1, o1) /\
                               uncontracted H HO hs c0 /\ unl_to (rev D) (r1, o1) (r0, o0))
      by exact (ug_down H HO s hs D HsD HDd).
    set (Good := fun y : coord => exists (e : entry) ce, In e (forest HO s) /\ snd e = Some ce /\
                                   prune ce <> None /\ under (StumpAddData.ecoord H e) y).
    assert (Hgood1 : forall c0' r1 o1, locc H HO s1 c0' r1 o1 -> Good (r1, o1)).
    { intros c0' r1 o1 Hl. apply locc_path in Hl as (e' & c' & pi' & He' & Hs' & Hp' & Hw & Hlen).
      rewrite RefTheory.forest_kill in He'. apply in_map_iff in He' as (e & <- & He).
      unfold RefTheory.prune_entry in Hs'. cbn [snd] in Hs'.
      destruct (snd e) as [ce|] eqn:Ese; [|discriminate]. cbn [RefTheory.oprune] in Hs'.
      exists e, ce. split; [exact He|]. split; [exact Ese|]. split; [rewrite Hs'; discriminate|].
      change (StumpAddData.ecoord H (RefTheory.prune_entry HO hs e)) with (StumpAddData.ecoord H e) in Hw.
      rewrite <- Hw. apply under_walk. exact Hlen. }
    assert (Htraj : forall X : list (coord * H),
              (forall e, In e X -> exists c0, locc H HO s1 c0 (fst (fst e)) (snd (fst e)) /\ snd e = chash c0) ->
              forall e, In e X -> Good (fst e) /\ cvalid R (fst e) /\
                                  unl_to (movers H (rev Bs)) (fst e) (unl (movers H (rev Bs)) (fst e))).
    { intros X HX e He. destruct (HX e He) as (c0' & Hl & _). destruct e as [[r1 o1] h]. cbn [fst snd] in *.
      split; [exact (Hgood1 c0' r1 o1 Hl)|]. split; [exact (Hlv1 c0' r1 o1 Hl)|].
      destruct (Hdown c0' r1 o1 Hl) as (c0 & r0 & o0 & _ & _ & _ & _ & Hu).
      rewrite Emov, (unl_to_fun _ _ _ Hu). exact Hu. }
    destruct (ud_blocks_spec2 H HO R n HR63 Hn63 ER Good (rev Bs) XT XP [])
      as (PW' & np' & Ebl & NP' & VP' & PA & PB & NPa & NPb).
    { intros b Hb Hfl. apply in_rev in Hb. unfold Bs in Hb. apply in_map_iff in Hb as (d & <- & Hd). cbn [fst snd] in *.
      apply negb_true_iff in Hfl. destruct (Fnt d Hd Hfl) as (e & ce & He & Hse & Hne & Hg).
      exact (af_dok H HO s Hn63 hs xds Lx Flx e ce d He Hse Hne Hg). }
    { rewrite Emov. apply garb_sorted; [exact (SS_rev_flip _ _ HsD)|].
      intros d d' Hd Hd'. apply (twinfree_par Lf Ltf); apply HDLf, in_rev; assumption. }
    { intros b Hb Hfl y (e & ce & He & Hse & Hne & Hu) Hsf.
      apply in_rev in Hb. unfold Bs in Hb. apply in_map_iff in Hb as (d & <- & Hd). cbn [fst snd] in *.
      assert (HdD : In d D) by (unfold D; apply filter_In; auto).
      exists e, ce. split; [exact He|]. split; [exact Hse|]. split; [exact Hne|].
      destruct (underb (StumpAddData.ecoord H e) d) eqn:Eu.
      - exact (ug_same H HO s hs D HDd e ce d y He Hse Hne HdD Eu Hu Hsf).
      - rewrite (unlift1_id d y (ug_other H HO s hs D HDd e d y He HdD Eu Hu)). exact Hu. }
    { intros b Hb Hfl. apply in_rev in Hb. unfold Bs in Hb. apply in_map_iff in Hb as (d & <- & Hd). cbn [fst snd] in *.
      apply negb_true_iff in Hfl. destruct (Fnt d Hd Hfl) as (e & ce & He & Hse & Hne & Hg).
      exists e, ce. split; [exact He|]. split; [exact Hse|]. split; [exact Hne|].
      pose proof (gf_height H HO s e ce He Hse) as Hh.
      destruct (glist_walk H HO hs ce (StumpAddData.ecoord H e) d Hh Hg) as (tau & -> & Hlt & Hne'). specialize (Hne' Hne).
      apply under_parent_walk; [exact Hne'|change (fst (StumpAddData.ecoord H e)) with (StumpAdd.erow H e); lia]. }
    { intros b Hb Hfl y (e & ce & He & Hse & Hne & Hu) Hvy.
      apply in_rev in Hb. unfold Bs in Hb. apply in_map_iff in Hb as (d & <- & Hd). cbn [fst snd] in *.
      apply negb_false_iff in Hfl. destruct (Ftop d Hd Hfl) as (e' & ce' & He' & Hse' & Hn' & Ed').
      rewrite ud_test_eq. apply andb_false_iff. left. apply N.eqb_neq. intros Esub.
      assert (Er : StumpAdd.erow H e' <> StumpAdd.erow H e).
      { intros Er. pose proof (gf_same_row H HO s e' e He' He Er) as Ee. subst e'. congruence. }
      destruct (LfV d Hd) as [Vd1 Vd2]. destruct Hvy as [Vy1 Vy2].
      rewrite !cpos_gpos in Esub. rewrite ER in *.
      revert Esub. apply not_eq_sym.
      apply subtree_diff_trees with (k1 := N.of_nat (StumpAdd.erow H e')) (k2 := N.of_nat (StumpAdd.erow H e));
        [exact Hn63|rewrite <- ER; lia|exact Vd2|rewrite <- ER; lia|exact Vy2| | |lia].
      - apply (in_tree_of_under HO s e' d He'). rewrite Ed'. apply under_refl.
      - exact (in_tree_of_under HO s e y He Hu). }
    { exact (Htraj XT HXT). }
    { exact (Htraj XP HXP). }
    { exact NdT. }
    { exact NdP. }
    { constructor. }
    match goal with HH : forall e, In e XP -> In (unl_e H ?l e) PW' |- _ => set (Ds := l) in * end.
    assert (EDs : Ds = rev D) by exact Emov. clearbody Ds. subst Ds.
    set (TWf := map (unl_e H (rev D)) XT) in *.
    (* where the targets come back to *)
    assert (TT : forall y, In y sortedU -> exists x, In x sorted /\ nhash x = nhash y /\
                   unl (rev D) (nrow y, noff y) = (nrow x, noff x)).
    { intros y Hy. destruct (node_locc H HO s1 y (LSU y Hy) (FlSU y Hy)) as (k0 & lo & c & He & Ho & _).
      assert (Hl1 : locc H HO s1 (CLeaf (nhash y)) (nrow y) (noff y)) by (exists k0, lo, c; auto).
      destruct (Hdown _ _ _ Hl1) as (c0 & r0 & o0 & Hl0 & Hp0 & _ & Hun & Hu).
      pose proof (uncontracted_leaf HO hs c0 (nhash y) Hun Hp0) as ->.
      destruct (locc_node H HO s _ _ _ Hl0) as (x & Hx & Xr & Xo & Xh & Xl). cbn [chash cleafb] in Xh, Xl.
      exists x. split; [|split; [exact Xh|]].
      - apply (HinS x Hx Xl). rewrite Xh. apply HhU. apply in_map, Hy.
      - rewrite (unl_to_fun _ _ _ Hu), Xr, Xo. reflexivity. }
    assert (TT' : forall x, In x sorted -> exists y, In y sortedU /\ nhash y = nhash x).
    { intros x Hx. assert (Hh : In (nhash x) C2) by (apply HhS; apply in_map, Hx).
      apply HhU in Hh. apply in_map_iff in Hh as (y & Ey & Hy). exists y. auto. }
    set (tw1 := sortK (map (cposh H R) TWf)) in *.
    assert (Etw1 : tw1 = gr H F (map (npos R) sorted)).
    { assert (Hel : forall e, In e tw1 <-> exists y, In y sortedU /\
                       e = (cpos R (unl (rev D) (nrow y, noff y)), nhash y)).
      { intros e. unfold tw1, TWf, XT. rewrite RefTheory.sortK_In, !map_map, in_map_iff.
        split; intros (y & A & B); exists y; (split; [|]); try assumption; [symmetry; exact A|symmetry; exact B]. }
      assert (Gtw : graph H F tw1).
      { intros e He. apply Hel in He as (y & Hy & ->). cbn [fst snd].
        destruct (TT y Hy) as (x & Hx & Eh & Eu). rewrite Eu, <- Eh.
        symmetry. exact (po_Fv_node H HO s x (LS x Hx)). }
      assert (Ntw : NoDup (map fst (map (cposh H R) TWf))).
      { unfold TWf, XT. rewrite !map_map. cbn [ProofUpdateSpec.cposh unl_e fst].
        apply RefTheory.NoDup_map_inj_on; [exact NtSU|]. intros y1 y2 H1 H2 Ek.
        destruct (TT y1 H1) as (x1 & Hx1 & Eh1 & Eu1). destruct (TT y2 H2) as (x2 & Hx2 & Eh2 & Eu2).
        rewrite Eu1, Eu2 in Ek.
        assert (Ex : x1 = x2) by (apply (RefTheory.layout_npos_inj H HO s x1 x2 (LS _ Hx1) (LS _ Hx2)); exact Ek).
        apply (live_leaf_unique H HO s1 y1 y2 Hnd1 (LSU _ H1) (LSU _ H2) (FlSU _ H1) (FlSU _ H2)). congruence. }
      rewrite (po_graph_eq H F tw1 Gtw). f_equal.
      apply pps_SSlt_ext; [apply cc_sortK_SSlt; exact Ntw|exact HsTS|].
      intros p. split.
      - intros Hp. apply in_map_iff in Hp as (e & <- & He). apply Hel in He as (y & Hy & ->). cbn [fst].
        destruct (TT y Hy) as (x & Hx & _ & Eu). rewrite Eu. apply in_map_iff. exists x. split; [reflexivity|exact Hx].
      - intros Hp. apply in_map_iff in Hp as (x & <- & Hx). destruct (TT' x Hx) as (y & Hy & Eh).
        destruct (TT y Hy) as (x' & Hx' & Eh' & Eu).
        assert (Ex : x' = x).
        { apply (live_leaf_unique H HO s x' x Hnd (LS _ Hx') (LS _ Hx) (FlS _ Hx') (FlS _ Hx)). congruence. }
        subst x'. apply in_map_iff. exists (cpos R (unl (rev D) (nrow y, noff y)), nhash y).
        split; [cbn [fst]; rewrite Eu; reflexivity|]. apply Hel. exists y. auto. }
    destruct (ur_before H HO HOK hash_nz s Hlive_nz Hn63 Hnd hs Hhs xds Fx) as (before & cands & rows & Ecalc & Sbef & Fbef & Kbef).
    set (pw1 := sortK (map (cposh H R) PW')) in *.
    assert (SxT : sortK (map (cposh H R) XT) = map (cposh H R) XT).
    { apply pu_sortK_sorted_id. rewrite <- EzT, pu_zip_fst; [exact HsTU|rewrite !map_length; reflexivity]. }
    assert (SxP : sortK (map (cposh H R) XP) = map (cposh H R) XP).
    { apply pu_sortK_sorted_id. rewrite <- EzP, po_gr_fst, <- ESC. exact HsPU. }
    assert (Ebl2 : ud_blocks HO (rev (deTwinHashAndPos HO (sortK (zip_hp (map (npos R) xds) hs)) total))
                     (zip_hp (map (npos R) sortedU) (map (@nhash H) sortedU))
                     (gr H F1 (canon_proof_pos R lay1 sortedU)) [] n total = Some (tw1, pw1, np')).
    { rewrite Ebtw, <- map_rev, EzT, ESC, EzP, <- ER, <- SxT, <- SxP. exact Ebl. }
    assert (Epos1 : positions tw1 = map (npos R) sorted) by (rewrite Etw1; apply po_gr_fst).
    pose proof (ud_undoDel_graph2 H HO F1 n (map (npos R) sortedU) (canon_proof_pos R lay1 sortedU)
                  (computable_pos R lay1 sortedU) (map (@nhash H) sortedU) (map (npos R) xds) hs
                  (canon_proof_hashes HO R lay xds) tw1 pw1 np' before cands rows needed
                  (computable_pos R lay sorted)) as G.
    specialize (G ltac:(destruct xds; [contradiction|discriminate])
                  ltac:(rewrite !map_length; reflexivity) HsTU HsPU Epp1
                  ltac:(rewrite <- Ehx, !map_length; reflexivity) Ebl2 Ecalc
                  ltac:(rewrite Epos1; exact Epp)).
    refine (eq_trans G _). clear G.
    set (pw2 := mergeSortedHashAndPos pw1 np').
    set (pw3 := mergeSortedHashAndPos (ud_replace pw2 before) before).
    assert (Hfinal : getHashAndPosSubset pw3 needed = gr H F needed).
    { (* the pile of proof hashes: ascending, every entry true on the previous state *)
      assert (S1 : SSlt (map fst pw1)).
      { apply cc_sortK_SSlt. exact (st_keys_nodup H R HR63 PW' VP' NP'). }
      destruct (mergeHP_le H pw1 np' (po_SSlt_SSle _ S1) (cc_ascK_SSle np' NPa)) as (M2a & M2b & M2c & _).
      fold pw2 in M2a, M2b, M2c.
      pose proof (ud_replace_spec H pw2 before M2a Sbef) as Erp.
      assert (Krp : map fst (ud_replace pw2 before) = map fst pw2).
      { rewrite Erp, map_map. apply map_ext. intros e. unfold rep1. destruct (hp_find H before (fst e)); reflexivity. }
      destruct (mergeHP_le H (ud_replace pw2 before) before ltac:(rewrite Krp; exact M2a) (po_SSlt_SSle _ Sbef))
        as (M3a & M3b & M3c & M3d). fold pw3 in M3a, M3b, M3c, M3d.
      (* the positions of the subtrees of [s] that hold a deleted leaf *)
      assert (Hbk : forall c r o, locc H HO s c r o -> (exists h, In h (cleaves H c) /\ In h hs) ->
                      In (cpos R (r, o)) (map fst before)).
      { intros c r o Hl (h & Hh1 & Hh2). apply Kbef. exists c, r, o. split; [exact Hl|]. split; [|reflexivity].
        rewrite <- Ehx in Hh2. apply in_map_iff in Hh2 as (x & Ex & Hx). exists x. split; [exact Hx|].
        rewrite Ex. exact Hh1. }
      assert (K1 : forall d, In d Lf -> In (cpos R d) (map fst before)).
      { intros d Hd. destruct (Lfd d Hd) as (c & Lc & Pc). destruct d as [rd od]. cbn [fst snd] in Lc.
        apply (Hbk c rd od Lc). destruct (occp_some_leaf c) as (pi & x & Hpx).
        pose proof (occp_leaves H _ _ _ Hpx x (or_introl eq_refl)) as Hx.
        exists x. split; [exact Hx|]. exact (proj1 (prune_none_iff H HO HOK hs c) Pc x Hx). }
      assert (K2 : forall d, In d D -> In (cpos R (par d)) (map fst before)).
      { intros d Hd. apply HDd in Hd as (e & ce & He & Hse & Hne & Hg).
        destruct (glist_elim H HO hs ce _ d Hg) as (pi & c & Hp & Ed & Pc).
        pose proof (sl_height H HO s e ce pi c He Hse Hp) as Hlen.
        destruct pi as [|b0 pi0] eqn:Epi.
        { exfalso. inversion Hp; subst. contradiction. }
        destruct (exists_last (l := b0 :: pi0) ltac:(discriminate)) as (pi' & b & Epl). rewrite <- Epi in *. clear Epi.
        rewrite Epl in Hp, Ed, Hlen. destruct (occp_app_inv H ce pi' [b] c Hp) as (c1 & Hp1 & Hp2).
        rewrite app_length in Hlen. cbn [length] in Hlen.
        assert (Lc1 : locc H HO s c1 (fst (walk (StumpAddData.ecoord H e) pi')) (snd (walk (StumpAddData.ecoord H e) pi'))).
        { apply locc_path. exists e, ce, pi'. split; [exact He|]. split; [exact Hse|]. split; [exact Hp1|].
          split; [apply surjective_pairing|lia]. }
        assert (Epar : par d = walk (StumpAddData.ecoord H e) pi').
        { rewrite Ed, walk_app. cbn [walk fold_left].
          destruct (walk_coord pi' (StumpAddData.ecoord H e) ltac:(change (fst (StumpAddData.ecoord H e)) with (StumpAdd.erow H e); lia)) as [W1 _].
          set (Z := walk (StumpAddData.ecoord H e) pi') in *. unfold par, chd. cbn [fst snd].
          assert (Hz : (1 <= fst Z)%nat) by (rewrite W1; change (fst (StumpAddData.ecoord H e)) with (StumpAdd.erow H e); lia).
          destruct Z as [rz oz]. cbn [fst snd] in *. f_equal; [lia|].
          destruct b; cbn [bN]; [replace (2 * oz + 1) with (1 + oz * 2) by lia; rewrite N.div_add by lia; reflexivity|].
          rewrite N.add_0_r, N.mul_comm, N.div_mul by lia. reflexivity. }
        rewrite Epar. rewrite (surjective_pairing (walk (StumpAddData.ecoord H e) pi')).
        apply (Hbk c1 _ _ Lc1). destruct (occp_some_leaf c) as (pi2 & x & Hpx).
        pose proof (occp_leaves H _ _ _ Hpx x (or_introl eq_refl)) as Hx.
        exists x. split; [exact (occp_leaves H _ _ _ Hp2 x Hx)|]. exact (proj1 (prune_none_iff H HO HOK hs c) Pc x Hx). }
      assert (Hgood : forall e, In e pw3 -> snd e = F (fst e)).
      { intros e He. destruct (M3b e He) as [He1|He1]; [|exact (Fbef e He1)].
        rewrite Erp in He1. apply in_map_iff in He1 as (e2 & <- & He2). unfold rep1.
        destruct (hp_find H before (fst e2)) as [h|] eqn:Ef.
        - apply hp_find_some in Ef. exact (Fbef _ Ef).
        - apply hp_find_none in Ef. destruct (M2b e2 He2) as [Hp1|Hnp].
          + unfold pw1 in Hp1. apply (proj1 (RefTheory.sortK_In _ _)) in Hp1. apply in_map_iff in Hp1 as (e' & <- & He').
            destruct (PB e' He') as [(e0 & He0 & ->)|(b & Hb & Eb)].
            * destruct (HXP e0 He0) as (c0' & Hl1 & Eh).
              destruct e0 as [[r1 o1] h0]. cbn [fst snd] in *.
              destruct (Hdown c0' r1 o1 Hl1) as (c0 & r0 & o0 & Hl0 & Hp0 & _ & _ & Hu).
              cbn [unl_e ProofUpdateSpec.cposh fst snd] in *. rewrite (unl_to_fun _ _ _ Hu) in *.
              assert (Hno : forall h, In h (cleaves H c0) -> ~ In h hs).
              { intros h Hh1 Hh2. apply Ef. exact (Hbk c0 r0 o0 Hl0 (ex_intro _ h (conj Hh1 Hh2))). }
              assert (Hw : cwf H HO c0).
              { destruct Hl0 as (k0 & lo & c & Hec & Ho).
                exact (occ_cwf H HO _ _ _ _ _ _ Ho (entry_cwf H HO s (k0, lo, Some c) c Hec eq_refl)). }
              rewrite (prune_untouched H HO HOK hs c0 Hw Hno) in Hp0. injection Hp0 as <-.
              rewrite Eh. symmetry. exact (locc_val H HO s c0 r0 o0 Hl0).
            * exfalso. apply Ef. cbn [ProofUpdateSpec.cposh fst]. destruct Eb as [Hfl Eb]. rewrite Eb.
              apply in_rev in Hb. unfold Bs in Hb. apply in_map_iff in Hb as (d & <- & Hd). cbn [fst snd] in *.
              apply K2. unfold D. apply filter_In. auto.
          + exfalso. apply Ef. destruct (NPb e2 Hnp) as [[]|(b & Hb & ->)].
            apply in_rev in Hb. unfold Bs in Hb. apply in_map_iff in Hb as (d & <- & Hd). cbn [bpos fst].
            exact (K1 d Hd). }
      assert (Hcover : forall y, In y needed -> In y (map fst pw3)).
      { intros y Hy.
        apply (canon_pos_occ H HO s Hn63 Hnd sorted LS FlS) in Hy as (h & l & rr & r & o & Hlp & Hcase).
        destruct (locc_child H HO s _ _ _ Hlp h l rr eq_refl) as (r1 & Er & Ll & Lr). injection Er as <-.
        assert (Hbefore_in : forall p, In p (map fst before) -> In p (map fst pw3)).
        { intros p Hp. apply in_map_iff in Hp as (e & <- & He). exact (M3d e He). }
        (* the side that holds no kept leaf: [cp] at offset [op]; the other side: [cq] *)
        assert (Hside : forall (cp cq : ctree H) (op oq : N),
                  (cp = l /\ cq = rr /\ op = 2 * o /\ oq = 2 * o + 1) \/
                  (cp = rr /\ cq = l /\ op = 2 * o + 1 /\ oq = 2 * o) ->
                  hit H sorted cq -> ~ hit H sorted cp -> In (pos R r op) (map fst pw3)).
        { intros cp cq op oq Hwhich Hq Hnp.
          assert (Lp : locc H HO s cp r op) by (destruct Hwhich as [(-> & _ & -> & _)|(-> & _ & -> & _)]; assumption).
          assert (Lq : locc H HO s cq r oq) by (destruct Hwhich as [(_ & -> & _ & ->)|(_ & -> & _ & ->)]; assumption).
          destruct (has_del HO hs cp) eqn:Hdel.
          { (* a deleted leaf inside: the block proof computes this position *)
            apply Hbefore_in. apply (Hbk cp r op Lp). apply (has_del_iff H HO HOK hs). exact Hdel. }
          (* untouched: it is a proof position after the deletions too, and comes back *)
          assert (Hno : forall x, In x (cleaves H cp) -> ~ In x hs).
          { intros x Hx1 Hx2. assert (Ht : has_del HO hs cp = true) by (apply (has_del_iff H HO HOK hs); eauto). congruence. }
          assert (Hcw : forall c rc oc, locc H HO s c rc oc -> cwf H HO c).
          { intros c rc oc (k0 & lo & c1 & Hec & Ho).
            exact (occ_cwf H HO _ _ _ _ _ _ Ho (entry_cwf H HO s (k0, lo, Some c1) c1 Hec eq_refl)). }
          pose proof (prune_untouched H HO HOK hs cp (Hcw _ _ _ Lp) Hno) as Pp.
          assert (Hunp : uncontracted H HO hs cp).
          { intros h' l' r' ->. pose proof (Hcw _ _ _ Lp) as Hw. cbn [cwf] in Hw. destruct Hw as (_ & Wl & Wr).
            split; intros Hn0; pose proof (proj1 (prune_none_iff H HO HOK hs _) Hn0) as Hn1; clear Hn0; rename Hn1 into Hn0.
            - destruct (occp_some_leaf l') as (pi & x & Hpx). pose proof (occp_leaves H _ _ _ Hpx x (or_introl eq_refl)) as Hx.
              apply (Hno x); [cbn [cleaves]; apply in_or_app; left; exact Hx|exact (Hn0 x Hx)].
            - destruct (occp_some_leaf r') as (pi & x & Hpx). pose proof (occp_leaves H _ _ _ Hpx x (or_introl eq_refl)) as Hx.
              apply (Hno x); [cbn [cleaves]; apply in_or_app; right; exact Hx|exact (Hn0 x Hx)]. }
          destruct (prune cq) as [cq'|] eqn:Pq.
          2:{ exfalso. pose proof (proj1 (prune_none_iff H HO HOK hs _) Pq) as Pq'. clear Pq. rename Pq' into Pq. destruct Hq as (x & Hx & Hxc).
              assert (Hc2 : In (nhash x) C2) by (apply HhS; apply in_map, Hx).
              exact (proj2 (HC2s _ Hc2) (Pq _ Hxc)). }
          (* the hits of the two sides after the deletions *)
          assert (Hq1 : hit H sortedU cq').
          { destruct Hq as (x & Hx & Hxc). destruct (TT' x Hx) as (y1 & Hy1 & Ehy). exists y1. split; [exact Hy1|].
            rewrite Ehy. apply (prune_leaves H HO HOK hs cq cq' Pq). split; [exact Hxc|].
            assert (Hc2 : In (nhash x) C2) by (apply HhS; apply in_map, Hx). exact (proj2 (HC2s _ Hc2)). }
          assert (Hp1 : ~ hit H sortedU cp).
          { intros (y1 & Hy1 & Hyc). apply Hnp.
            assert (Hc2 : In (nhash y1) C2) by (apply HhU; apply in_map, Hy1).
            apply HhS in Hc2. apply in_map_iff in Hc2 as (x & Ex & Hx). exists x. split; [exact Hx|]. rewrite Ex. exact Hyc. }
          (* the parent after the deletions *)
          assert (Hpl : exists l' rr', prune l = Some l' /\ prune rr = Some rr' /\
                          ((cp = l /\ l' = cp /\ rr' = cq') \/ (cp = rr /\ rr' = cp /\ l' = cq'))).
          { destruct Hwhich as [(E1' & E2' & _)|(E1' & E2' & _)]; subst l rr.
            - exists cp, cq'. split; [exact Pp|]. split; [exact Pq|]. left. auto.
            - exists cq', cp. split; [exact Pq|]. split; [exact Pp|]. right. auto. }
          destruct Hpl as (l' & rr' & Pl & Pr & Hsides).
          assert (PP : prune (CNode h l rr) = Some (CNode (op_hash2 HO (chash l') (chash rr')) l' rr')).
          { cbn [RefTheory.prune]. rewrite Pl, Pr. reflexivity. }
          pose proof (gf_up H HO s hs D HsD HDd _ _ _ _ Hlp PP) as Hlp'.
          destruct (liftc D (S r, o)) as [rp opp] eqn:Elp. cbn [fst snd] in Hlp'.
          destruct (locc_child H HO s1 _ _ _ Hlp' _ l' rr' eq_refl) as (r1' & Er' & Ll' & Lr'). subst rp.
          assert (El : liftc D (r, 2 * o) = (r1', 2 * opp)).
          { pose proof (gf_up H HO s hs D HsD HDd _ _ _ _ Ll Pl) as Hu.
            rewrite (surjective_pairing (liftc D (r, 2 * o))). exact (locc_once HO s1 l' _ _ _ _ Hnd1 Hu Ll'). }
          assert (Err : liftc D (r, 2 * o + 1) = (r1', 2 * opp + 1)).
          { pose proof (gf_up H HO s hs D HsD HDd _ _ _ _ Lr Pr) as Hu.
            rewrite (surjective_pairing (liftc D (r, 2 * o + 1))). exact (locc_once HO s1 rr' _ _ _ _ Hnd1 Hu Lr'). }
          (* the position of [cp] after the deletions is a canonical proof position there *)
          assert (Hcan : exists op', liftc D (r, op) = (r1', op') /\ locc H HO s1 cp r1' op' /\
                            In (pos R r1' op') (canon_proof_pos R lay1 sortedU)).
          { destruct Hwhich as [(E1' & E2' & -> & _)|(E1' & E2' & -> & _)];
              destruct Hsides as [(E3 & E4 & E5)|(E3 & E4 & E5)].
            - exists (2 * opp). split; [exact El|]. subst l' rr'. split; [exact Ll'|].
              rewrite <- ER1. apply (canon_pos_occ H HO s1 Hn63_1 Hnd1 sortedU LSU FlSU).
              exists (op_hash2 HO (chash cp) (chash cq')), cp, cq', r1', opp. split; [exact Hlp'|]. right. auto.
            - exfalso. subst. destruct Hq as (x & Hx & Hxc). apply Hnp. exists x. auto.
            - exfalso. subst. destruct Hq as (x & Hx & Hxc). apply Hnp. exists x. auto.
            - exists (2 * opp + 1). split; [exact Err|]. subst l' rr'. split; [exact Lr'|].
              rewrite <- ER1. apply (canon_pos_occ H HO s1 Hn63_1 Hnd1 sortedU LSU FlSU).
              exists (op_hash2 HO (chash cq') (chash cp)), cq', cp, r1', opp. split; [exact Hlp'|]. left. auto. }
          destruct Hcan as (op' & Elift & Lp' & Hin).
          rewrite ESC in Hin. apply in_map_iff in Hin as (ec & Eec & Hec).
          destruct (HSCv ec Hec) as [Epc Hv].
          assert (Ec : snd ec = (r1', op')).
          { apply (cpos_inj R _ _ HR63 Hv (Hlv1 cp _ _ Lp')). rewrite <- Epc, Eec. reflexivity. }
          assert (He0 : In (snd ec, F1 (fst ec)) XP) by (unfold XP; apply in_map_iff; exists ec; auto).
          pose proof (PA _ He0) as Hpw. unfold unl_e in Hpw. cbn [fst snd] in Hpw.
          pose proof (ug_up_unlift H HO s hs D HsD HDd cp r op cp Lp Pp Hunp) as Hu.
          rewrite Ec, <- Elift, (unl_to_fun _ _ _ Hu) in Hpw.
          assert (H1 : In (cposh H R ((r, op), F1 (fst ec))) pw1).
          { unfold pw1. apply RefTheory.sortK_In. apply in_map. exact Hpw. }
          apply M2c in H1.
          assert (H2 : In (rep1 H before (cposh H R ((r, op), F1 (fst ec)))) (ud_replace pw2 before)).
          { rewrite Erp. apply in_map. exact H1. }
          apply M3c in H2. apply (in_map fst) in H2.
          assert (Ek : fst (rep1 H before (cposh H R ((r, op), F1 (fst ec)))) = pos R r op).
          { unfold rep1. destruct (hp_find H before _); reflexivity. }
          rewrite Ek in H2. exact H2. }
        destruct Hcase as [(Hl & Hnr & ->)|(Hr & Hnl & ->)].
        - exact (Hside rr l (2 * o + 1) (2 * o) (or_intror (conj eq_refl (conj eq_refl (conj eq_refl eq_refl)))) Hl Hnr).
        - exact (Hside l rr (2 * o) (2 * o + 1) (or_introl (conj eq_refl (conj eq_refl (conj eq_refl eq_refl)))) Hr Hnl). }
      apply (getSubset_graph H F pw3 needed M3a Hsn Hcover). intros e He _. exact (Hgood e He). }
    rewrite Hfinal, Etw1. unfold hashes, positions. rewrite po_gr_fst, !po_gr_snd.
    rewrite <- (po_hashes_Fv H HO s sorted LS), (po_canon_hashes_Fv H HO s Hn63 sorted LS). reflexivity.
  Qed.
End UndoDelAll.

Print Assumptions undoDel_all_main.

(** * 5. Closed forms: [undoDel_spec] and [Proof.Undo] for EVERY valid block *)

(** G2 for every set of deletions: sibling leaves, whole subtrees, whole trees *)
Theorem undoDel_every {H} (HO : ops H) :
  ops_ok HO -> (forall a b, NZ HO (op_hash2 HO a b)) ->
  forall (s : slots H) (hs C : list H),
  (forall h, In (Some h) s -> NZ HO h) ->
  N.of_nat (length s) <= 2 ^ 63 -> NoDup (live s) -> NoDup hs -> NoDup C ->
  undoDel_spec H HO s hs C.
Proof.
  intros HOK Hnz s hs C Hl Hn63 Hnd Hhs HC. unfold undoDel_spec. intros h1 t1 p1 bt bp E1 Ep.
  unfold exp_prove in Ep. cbn [mk_ctx clay crows] in Ep.
  destruct (find_leaves HO (layout HO s) hs) as [xds|] eqn:Fx; [|discriminate]. injection Ep as <- <-.
  destruct (cc_find_leaves_facts HO s hs xds HOK Hhs Fx) as (_ & _ & _ & Ehx & _).
  destruct xds as [|x0 xds'].
  - cbn [map] in Ehx. subst hs. rewrite (pu_kill_nil H HO s) in E1. rewrite E1. reflexivity.
  - apply (undoDel_all_main H HO HOK Hnz s Hl Hn63 Hnd hs Hhs (x0 :: xds') Fx C HC h1 t1 p1 E1).
    discriminate.
Qed.
Print Assumptions undoDel_every.

(** C08 for [Proof.Undo], every valid block: distinct live deletions (the block proof
    [exp_prove s hs] exists), fresh additions, any remembered subset *)
Theorem proof_undo_every_block {H} (HO : ops H) :
  ops_ok HO -> (forall a b, NZ HO (op_hash2 HO a b)) ->
  forall (s : slots H) (hs adds C : list H) (rem : list N),
  (forall h, In (Some h) s -> NZ HO h) ->
  N.of_nat (length s + length adds) <= 2 ^ 63 ->
  NoDup (live s) -> NoDup hs ->
  NoDup (live (kill HO hs s ++ map Some adds)) ->
  NoDup C -> (forall h, In h C -> In (Some h) s) ->
  forall hC' tC' pC' bt bp,
  exp_cached HO (mk_ctx HO (apply_block HO s hs adds)) (cached_after HO C hs (pick adds rem))
  = Some (hC', tC', pC') ->
  exp_prove HO (mk_ctx HO s) hs = Some (bt, bp) ->
  proof_undo HO tC' pC' (N.of_nat (length adds)) (num_leaves (apply_block HO s hs adds)) bt hs hC'
             (ud_to_destroy (spec_update_data HO s hs adds)) bt bp
  = exp_cached HO (mk_ctx HO s) (cached_after_undo HO (cached_after HO C hs (pick adds rem)) adds).
Proof.
  intros HOK Hnz s hs adds C rem Hl Hb Hnd Hhs Hnd2 HC HCs hC' tC' pC' bt bp E Ep.
  apply (proof_undo_block H HO HOK Hnz s hs adds Hb Hnd2 C rem HC HCs hC' tC' pC' bt bp); [|exact E|exact Ep].
  apply (undoDel_every HO HOK Hnz s hs C Hl ltac:(lia) Hnd Hhs HC).
Qed.
Print Assumptions proof_undo_every_block.

(** in the free hash algebra *)
Theorem proof_undo_every_block_term (s : slots term) (hs adds C : list term) (rem : list N)
        (hC' : list term) (tC' : list N) (pC' : list term) (bt : list N) (bp : list term) :
  (forall h, In (Some h) s -> h <> Zero) ->
  N.of_nat (length s + length adds) <= 2 ^ 63 ->
  NoDup (live s) -> NoDup hs ->
  NoDup (live (kill term_ops hs s ++ map Some adds)) ->
  NoDup C -> (forall h, In h C -> In (Some h) s) ->
  exp_cached term_ops (mk_ctx term_ops (apply_block term_ops s hs adds))
             (cached_after term_ops C hs (pick adds rem)) = Some (hC', tC', pC') ->
  exp_prove term_ops (mk_ctx term_ops s) hs = Some (bt, bp) ->
  proof_undo term_ops tC' pC' (N.of_nat (length adds)) (num_leaves (apply_block term_ops s hs adds))
             bt hs hC' (ud_to_destroy (spec_update_data term_ops s hs adds)) bt bp
  = exp_cached term_ops (mk_ctx term_ops s)
               (cached_after_undo term_ops (cached_after term_ops C hs (pick adds rem)) adds).
Proof.
  intros Hl Hb Hnd Hhs Hnd2 HC HCs E Ep.
  exact (proof_undo_every_block term_ops term_ops_ok cs_term_hash_nz s hs adds C rem
           (fun h Hh => term_nonzero_eqb h (Hl h Hh)) Hb Hnd Hhs Hnd2 HC HCs hC' tC' pC' bt bp E Ep).
Qed.

(** six leaves (trees of four and of two leaves): the block deletes the whole second tree and a leaf
    of the first one and adds two leaves; [Undo] gives back the cached proof of the two kept leaves *)
Example un_ex_tree_deleted :
  exists hC' tC' pC' bt bp,
    exp_cached term_ops (mk_ctx term_ops (apply_block term_ops pu_ex_s6 [Atom 6; Atom 2; Atom 5] [Atom 7; Atom 8]))
               (cached_after term_ops [Atom 1; Atom 3; Atom 6] [Atom 6; Atom 2; Atom 5] (pick [Atom 7; Atom 8] [1]))
    = Some (hC', tC', pC') /\
    exp_prove term_ops (mk_ctx term_ops pu_ex_s6) [Atom 6; Atom 2; Atom 5] = Some (bt, bp) /\
    proof_undo term_ops tC' pC' 2 (num_leaves (apply_block term_ops pu_ex_s6 [Atom 6; Atom 2; Atom 5] [Atom 7; Atom 8]))
               bt [Atom 6; Atom 2; Atom 5] hC'
               (ud_to_destroy (spec_update_data term_ops pu_ex_s6 [Atom 6; Atom 2; Atom 5] [Atom 7; Atom 8])) bt bp
    = exp_cached term_ops (mk_ctx term_ops pu_ex_s6) [Atom 1; Atom 3] /\
    exp_cached term_ops (mk_ctx term_ops pu_ex_s6) [Atom 1; Atom 3]
    = Some ([Atom 1; Atom 3], [0; 2], [Atom 2; Atom 4]).
Proof.
  eexists _, _, _, _, _. split; [vm_compute; reflexivity|]. split; [vm_compute; reflexivity|].
  split; [|vm_compute; reflexivity].
  change [Atom 1; Atom 3]
    with (cached_after_undo term_ops (cached_after term_ops [Atom 1; Atom 3; Atom 6]
                                        [Atom 6; Atom 2; Atom 5] (pick [Atom 7; Atom 8] [1])) [Atom 7; Atom 8]).
  apply (proof_undo_every_block_term pu_ex_s6 [Atom 6; Atom 2; Atom 5] [Atom 7; Atom 8] [Atom 1; Atom 3; Atom 6] [1]).
  - intros h Hh. cbn in Hh. repeat (destruct Hh as [Hh|Hh]; [injection Hh as <-; discriminate|]). destruct Hh.
  - vm_compute. discriminate.
  - apply po_ex_nodup; reflexivity.
  - apply po_ex_nodup; reflexivity.
  - apply po_ex_nodup; reflexivity.
  - apply po_ex_nodup; reflexivity.
  - intros h Hh. cbn in Hh. cbn. repeat (destruct Hh as [<-|Hh]; [auto 12|]). destruct Hh.
  - vm_compute. reflexivity.
  - vm_compute. reflexivity.
Qed.

(** every leaf deleted: nothing is cached afterwards, and nothing comes back *)
Example un_ex_all_deleted :
  exists hC' tC' pC' bt bp,
    exp_cached term_ops (mk_ctx term_ops (apply_block term_ops pu_ex_s6 [Atom 6; Atom 2; Atom 5; Atom 1; Atom 4; Atom 3] [Atom 7]))
               (cached_after term_ops [Atom 4; Atom 5] [Atom 6; Atom 2; Atom 5; Atom 1; Atom 4; Atom 3] (pick [Atom 7] [0]))
    = Some (hC', tC', pC') /\
    exp_prove term_ops (mk_ctx term_ops pu_ex_s6) [Atom 6; Atom 2; Atom 5; Atom 1; Atom 4; Atom 3] = Some (bt, bp) /\
    proof_undo term_ops tC' pC' 1 (num_leaves (apply_block term_ops pu_ex_s6 [Atom 6; Atom 2; Atom 5; Atom 1; Atom 4; Atom 3] [Atom 7]))
               bt [Atom 6; Atom 2; Atom 5; Atom 1; Atom 4; Atom 3] hC'
               (ud_to_destroy (spec_update_data term_ops pu_ex_s6 [Atom 6; Atom 2; Atom 5; Atom 1; Atom 4; Atom 3] [Atom 7])) bt bp
    = Some ([], [], []).
Proof.
  eexists _, _, _, _, _. split; [vm_compute; reflexivity|]. split; [vm_compute; reflexivity|].
  assert (Ee : exp_cached term_ops (mk_ctx term_ops pu_ex_s6) [] = Some ([], [], [])) by (vm_compute; reflexivity).
  rewrite <- Ee.
  change (@nil term)
    with (cached_after_undo term_ops (cached_after term_ops [Atom 4; Atom 5]
                                        [Atom 6; Atom 2; Atom 5; Atom 1; Atom 4; Atom 3] (pick [Atom 7] [0])) [Atom 7]) at 3.
  apply (proof_undo_every_block_term pu_ex_s6 [Atom 6; Atom 2; Atom 5; Atom 1; Atom 4; Atom 3] [Atom 7] [Atom 4; Atom 5] [0]).
  - intros h Hh. cbn in Hh. repeat (destruct Hh as [Hh|Hh]; [injection Hh as <-; discriminate|]). destruct Hh.
  - vm_compute. discriminate.
  - apply po_ex_nodup; reflexivity.
  - apply po_ex_nodup; reflexivity.
  - apply po_ex_nodup; reflexivity.
  - apply po_ex_nodup; reflexivity.
  - intros h Hh. cbn in Hh. cbn. repeat (destruct Hh as [<-|Hh]; [auto 12|]). destruct Hh.
  - vm_compute. reflexivity.
  - vm_compute. reflexivity.
Qed.

(** * 6. Any cached set of the new state; a light client over a reorganisation *)

(** [Proof.Undo] on the cached proof of ANY set [C1] of leaves of the state after the block: the
    cached proof, before the block, of the members of [C1] that the block did not add *)
Theorem proof_undo_any_cached {H} (HO : ops H) :
  ops_ok HO -> (forall a b, NZ HO (op_hash2 HO a b)) ->
  forall (s : slots H) (hs adds C1 : list H),
  (forall h, In (Some h) s -> NZ HO h) ->
  N.of_nat (length s + length adds) <= 2 ^ 63 ->
  NoDup (live s) -> NoDup hs ->
  NoDup (live (kill HO hs s ++ map Some adds)) -> NoDup C1 ->
  forall hC' tC' pC' bt bp,
  exp_cached HO (mk_ctx HO (apply_block HO s hs adds)) C1 = Some (hC', tC', pC') ->
  exp_prove HO (mk_ctx HO s) hs = Some (bt, bp) ->
  proof_undo HO tC' pC' (N.of_nat (length adds)) (num_leaves (apply_block HO s hs adds)) bt hs hC'
             (ud_to_destroy (spec_update_data HO s hs adds)) bt bp
  = exp_cached HO (mk_ctx HO s) (removeH HO C1 adds) /\
  exp_cached HO (mk_ctx HO s) (removeH HO C1 adds) <> None.
Proof.
  intros HOK Hnz s hs adds C1 Hl Hb Hnd Hhs Hnd2 HC1 hC' tC' pC' bt bp E Ep.
  unfold spec_update_data, apply_block in *. cbn [ud_to_destroy].
  assert (Hb1 : N.of_nat (length (kill HO hs s) + length adds) <= 2 ^ 63) by (rewrite length_kill; exact Hb).
  destruct (undoAdd_spec_any H HO HOK Hnz (kill HO hs s) adds C1 hC' tC' pC' Hb1 Hnd2 HC1 E) as [Eu Hne].
  set (K := removeH HO C1 adds) in *.
  destruct (exp_cached HO (mk_ctx HO (kill HO hs s)) K) as [[[h1 t1] p1]|] eqn:EK; [|contradiction].
  assert (HK : NoDup K) by (apply NoDup_filter; exact HC1).
  assert (HKl : forall h, In h K -> In (Some h) (kill HO hs s)) by exact (LightClient.exp_cached_live H HO HOK _ K _ EK).
  assert (EKr : removeH HO K hs = K).
  { apply (removeH_none H HO HOK). intros h Hh Hd. exact (proj2 (proj1 (dg_live1 H HO HOK s hs h) (HKl h Hh)) Hd). }
  pose proof (undoDel_every HO HOK Hnz s hs K Hl ltac:(lia) Hnd Hhs HK) as Hspec. unfold undoDel_spec in Hspec.
  rewrite EKr in Hspec. specialize (Hspec h1 t1 p1 bt bp EK Ep).
  assert (Esub : sub64 (num_leaves (kill HO hs s ++ map Some adds)) (N.of_nat (length adds)) = num_leaves s).
  { unfold num_leaves. rewrite app_length, map_length, length_kill. rewrite sub64_small; [lia|lia|].
    rewrite W_eq. assert (2 ^ 63 < 2 ^ 64) by (apply pow2_lt; lia). lia. }
  split.
  - unfold proof_undo, num_leaves in *. rewrite Eu, Esub. exact Hspec.
  -     assert (HKs : forall h, In h K -> In (Some h) s).
    { intros h Hh. exact (proj1 (proj1 (dg_live1 H HO HOK s hs h) (HKl h Hh))). }
    exact (cached_exists H HO HOK s K HKs).
Qed.
Print Assumptions proof_undo_any_cached.

Lemma last_cons_default {A} (l : list A) : forall x d, last (x :: l) d = last l x.
Proof.
  induction l as [|y l IH]; intros x d; [reflexivity|].
  change (last (x :: y :: l) d) with (last (y :: l) d). rewrite (IH y d), (IH y x). reflexivity.
Qed.

Section LightClientUndo.
  Variable H : Type.
  Variable HO : ops H.
  Hypothesis HOK : ops_ok HO.
  Hypothesis Hnz : forall a b, NZ HO (op_hash2 HO a b).
  Variable filler : H.
  Hypothesis Hfill : NZ HO filler.
  Local Notation client := (LightClient.client H).
  Local Notation cblock := (LightClient.cblock H).
  Local Notation in_step := (LightClient.in_step H HO).
  Local Notation cblock_ok := (LightClient.cblock_ok H HO).
  Local Notation stump_of := (StumpUpdate.stump_of H HO).

  (** a client undoes a block: it goes back to the stump it held before the block and calls
      [Proof.Undo] with what it recorded when it processed the block - the block (deleted hashes, their
      positions and proof, the number of additions) and the update data that [Stump.Update] returned;
      [s] is the state before the block *)
  Definition client_undo (s : slots H) (cl : client) (b : cblock) : option client :=
    let '(st', (hC', tC', pC')) := cl in
    let '(dels, adds, rem) := b in
    match exp_prove HO (mk_ctx HO s) dels with
    | None => None
    | Some (bt, pfd) =>
        match stump_update HO true filler (stump_of s) dels adds bt pfd with
        | (_, Ok ud) =>
            match proof_undo HO tC' pC' (N.of_nat (length adds)) (st_n st') bt dels hC' (u_to_destroy ud) bt pfd with
            | Some c => Some (stump_of s, c)
            | None => None
            end
        | _ => None
        end
    end.

  (** one block back: whatever set [C'] the client holds after the block, it is in step with the
      previous state afterwards, holding the members of [C'] that the block did not add *)
  Theorem client_undo_in_step (s : slots H) (C' : list H) (cl : client) (b : cblock) :
    (forall h, In (Some h) s -> NZ HO h) -> NoDup (live s) -> NoDup C' ->
    N.of_nat (length s + length (snd (fst b))) <= 2 ^ 63 ->
    cblock_ok s b ->
    in_step (apply_block HO s (fst (fst b)) (snd (fst b))) C' cl ->
    exists cl0, client_undo s cl b = Some cl0 /\
      in_step s (removeH HO C' (snd (fst b))) cl0 /\ NoDup (removeH HO C' (snd (fst b))).
  Proof.
    destruct b as [[dels adds] rem]. destruct cl as [st' [[hC' tC'] pC']].
    intros Hlive Hnd HC Hb (V1 & V2 & V3 & V4 & V5 & V6 & V7) [Est Ec]. cbn [fst snd] in *. subst st'.
    unfold client_undo.
    pose proof (StumpUpdate.exp_prove_live H HO HOK s dels V2) as Hne.
    destruct (exp_prove HO (mk_ctx HO s) dels) as [[bt pfd]|] eqn:Ep; [|contradiction].
    assert (Hfresh : forall a, In a adds -> ~ In (Some a) (kill HO dels s)).
    { intros a Ha Hin. exact (ag_fresh H (kill HO dels s) adds V4 a Ha Hin). }
    pose proof (stump_update_data HO filler s dels adds bt pfd HOK Hnz Hfill Hlive V3 Hnd Hb V1 Ep Hfresh V7) as Eu.
    change (the_stump (mk_ctx HO s)) with (stump_of s) in Eu. rewrite Eu.
    destruct (proof_undo_any_cached HO HOK Hnz s dels adds C' Hlive Hb Hnd V1 V4 HC hC' tC' pC' bt pfd Ec Ep)
      as [Epu Hsome].
    cbn [StumpUpdate.stump_of st_n ud_of_spec u_to_destroy]. rewrite Epu.
    destruct (exp_cached HO (mk_ctx HO s) (removeH HO C' adds)) as [c|] eqn:Ec0; [|contradiction].
    exists (stump_of s, c). split; [reflexivity|]. split; [split; [reflexivity|exact Ec0]|].
    apply NoDup_filter. exact HC.
  Qed.

  (** a history to undo, newest block first: each block with the state before it *)
  Fixpoint undo_ok (sTop : slots H) (hist : list (slots H * cblock)) : Prop :=
    match hist with
    | [] => True
    | (s, b) :: rest =>
        sTop = apply_block HO s (fst (fst b)) (snd (fst b)) /\ cblock_ok s b /\
        (forall h, In (Some h) s -> NZ HO h) /\ NoDup (live s) /\
        N.of_nat (length s + length (snd (fst b))) <= 2 ^ 63 /\ undo_ok s rest
    end.
  Fixpoint undo_run (hist : list (slots H * cblock)) (C' : list H) (cl : client) : option (list H * client) :=
    match hist with
    | [] => Some (C', cl)
    | (s, b) :: rest =>
        match client_undo s cl b with
        | None => None
        | Some cl0 => undo_run rest (removeH HO C' (snd (fst b))) cl0
        end
    end.
  Definition undo_bottom (sTop : slots H) (hist : list (slots H * cblock)) : slots H :=
    last (map fst hist) sTop.

  (** depth k: undoing the last k blocks, newest first, leaves the client in step with the state
      before them *)
  Theorem light_client_undo_depth : forall hist sTop C' cl,
    NoDup C' -> undo_ok sTop hist -> in_step sTop C' cl ->
    exists C0 cl0, undo_run hist C' cl = Some (C0, cl0) /\ in_step (undo_bottom sTop hist) C0 cl0 /\ NoDup C0.
  Proof.
    induction hist as [|[s b] rest IH]; intros sTop C' cl HC Hok Hin.
    - exists C', cl. split; [reflexivity|]. split; [exact Hin|exact HC].
    - cbn [undo_ok] in Hok. destruct Hok as (-> & Hbk & Hlive & Hnd & Hb & Hok).
      destruct (client_undo_in_step s C' cl b Hlive Hnd HC Hb Hbk Hin) as (cl0 & Eu & Hin0 & HC0).
      cbn [undo_run]. rewrite Eu.
      destruct (IH s _ cl0 HC0 Hok Hin0) as (C0 & cl1 & Er & Hin1 & HC1).
      exists C0, cl1. split; [exact Er|]. split; [|exact HC1].
      unfold undo_bottom in *. cbn [map fst]. rewrite last_cons_default. exact Hin1.
  Qed.

  (** a block processed and undone: the client is back in step with the state before the block,
      holding what it held before minus what the block deleted *)
  Corollary client_step_undo (s : slots H) (C : list H) (cl : client) (b : cblock) :
    (forall h, In (Some h) s -> NZ HO h) -> NoDup (live s) -> NoDup C ->
    N.of_nat (length s + length (snd (fst b))) <= 2 ^ 63 ->
    in_step s C cl -> cblock_ok s b ->
    exists cl' cl0, LightClient.client_step H HO filler s cl b = Some cl' /\
      client_undo s cl' b = Some cl0 /\ in_step s (removeH HO C (fst (fst b))) cl0.
  Proof.
    intros Hlive Hnd HC Hb Hin Hbk.
    destruct (LightClient.client_step_in_step H HO HOK Hnz filler Hfill s C cl b Hlive Hnd HC Hb Hin Hbk)
      as (cl' & Es & Hin' & _ & _ & HC').
    destruct b as [[dels adds] rem]. cbn [LightClient.astep fst snd] in *.
    destruct (client_undo_in_step s _ cl' (dels, adds, rem) Hlive Hnd HC' Hb Hbk Hin') as (cl0 & Eu & Hin0 & _).
    exists cl', cl0. split; [exact Es|]. split; [exact Eu|]. cbn [fst snd] in Hin0.
    destruct Hbk as (_ & _ & _ & V4 & _).
    assert (HCs : forall h, In h C -> In (Some h) s) by exact (LightClient.exp_cached_live H HO HOK s C _ (proj2 Hin)).
    pose proof (ub_undo_set H HO HOK s dels adds V4 C rem HCs) as Eset. unfold cached_after_undo in Eset.
    rewrite Eset in Hin0. exact Hin0.
  Qed.
End LightClientUndo.
Print Assumptions light_client_undo_depth.
Print Assumptions client_step_undo.

(** non-vacuity: the three-block history of [LightClient.lc_hist], undone block by block *)
Definition lcu_s1 : slots term := apply_block term_ops [] [] [Atom 1; Atom 2; Atom 3; Atom 4; Atom 5].
Definition lcu_s2 : slots term := apply_block term_ops lcu_s1 [Atom 2; Atom 3] [Atom 6; Atom 7].
Definition lcu_hist : list (slots term * LightClient.cblock term) :=
  [ (lcu_s2, ([Atom 5; Atom 6], [Atom 8], []));
    (lcu_s1, ([Atom 2; Atom 3], [Atom 6; Atom 7], [0; 1]));
    ([], ([], [Atom 1; Atom 2; Atom 3; Atom 4; Atom 5], [1; 4])) ].

Example lcu_computed :
  exists sF clF,
    LightClient.run_client term term_ops (Atom 99) [] [] (mkStump [] 0, ([], [], [])) LightClient.lc_hist
    = Some (sF, [Atom 7], clF) /\
    (* one block back: leaf 7 at its previous position (a root: no proof hashes); leaves 5 and 6 are not restored *)
    undo_run term term_ops (Atom 99) (firstn 1 lcu_hist) [Atom 7] clF
    = Some ([Atom 7], (StumpUpdate.stump_of term term_ops lcu_s2, ([Atom 7], [6], []))) /\
    (* two blocks back: nothing the client held then survives *)
    undo_run term term_ops (Atom 99) (firstn 2 lcu_hist) [Atom 7] clF
    = Some ([], (StumpUpdate.stump_of term term_ops lcu_s1, ([], [], []))) /\
    undo_run term term_ops (Atom 99) lcu_hist [Atom 7] clF = Some ([], (mkStump [] 0, ([], [], []))).
Proof. eexists _, _. split; [vm_compute; reflexivity|]. repeat split; vm_compute; reflexivity. Qed.

