(** [Proof.Undo] (mirror: [Model.ProofUpdate.proof_undo], i.e. [undoAdd] then [undoDel]) against the
    reference forest (property C08: "undoing a cached proof yields a canonical proof for the previous
    state").

    A light client holds, after a block, the cached proof [exp_cached s' C'] of the set
    [C' = cached_after C dels remembered] in the state [s' = apply_block s dels adds].  On a
    reorganisation it calls [Proof.Undo] with the block's data: the number of additions, the number of
    leaves after the block, the positions and hashes of the deleted leaves, the empty roots the
    additions wrote over ([UpdateData.ToDestroy]) and the block proof.  The statement of C08: the
    result is [exp_cached s C''] with [C'' = cached_after_undo C' adds] = the leaves of [C] that the
    block did not delete (deleted leaves are documented as not restored, additions disappear).

    What is proved here
    - G0  the full statement as an executable check [un_check]; evaluated in the free hash algebra on
          every history over four slots (19,375 cases: dead slots, empty roots, deleted siblings and
          whole trees, additions that write empty roots over and cross powers of two, every cached
          set, every remembered subset) and on a dozen larger histories: no difference;
    - G1  [undoAdd_spec_any]: the first half of [Proof.Undo], the method [undoAdd], on ANY forest of
          up to 2^63 leaves and for ANY cached set [C'] of the new state - the result is the expected
          cached proof, in the previous state, of the members of [C'] that the block did not add
          ([removeH C' adds]); the un-lifting over the re-created empty roots ([moveDownPositions],
          in reverse order of destruction), the pruning of what cannot exist in the previous forest
          ([pruneEdges]), the remap to the lower geometry, the recomputation of the needed proof
          positions; [undoAdd_spec_empty]: the block that created the accumulator;
          [proof_undo_add_only] (and [.._term] in the free algebra): [Proof.Undo] for every
          ADDITION-ONLY block returns exactly [exp_cached s C].
    - G3  reduced to [undoDel]: [proof_undo_reduction] - for ANY block (deletions and additions),
          [Proof.Undo] equals [undoDel] applied to [exp_cached (kill dels s) (C minus dels)], the
          expected cached proof of the kept leaves in the state between the deletions and the
          additions (G1 applied to [kill dels s]); [proof_undo_block]: the statement of C08 for the
          block follows from [undoDel_spec] (the statement about [undoDel] alone);
          [proof_undo_block_b] + [ud_small_4]: [undoDel_spec] decided by computation on every
          four-slot state gives C08 there for ANY additions.
    Not proved: [undoDel_spec] for blocks with deletions (G2); see the end of the file.

    Structure
    - 1  un-lifting a coordinate over a destroyed root ([unlift1] = [moveDownPosition], the inverse of
         [StumpAddData.lift1] below the sibling of the root), trajectories [unl_to];
    - 2  [unlift_adds]: every old subtree, lifted over all destroyed roots of a run of additions and
         back, is where it was; [bad_unlift]: every subtree of the new forest that holds an added
         leaf comes back to a coordinate that holds a slot beyond the old forest - without ever
         moving a position of row 0 (where [calcPrevPosition] does not compute a coordinate);
    - 3  [pruneEdges] / [remapDown] on lists of coordinates;
    - 4  [undoAdd] on graphs of valuations; 5 the theorem; 6 the first block, [Proof.Undo] for
         addition-only blocks; 7 any block, reduced to [undoDel];
    - 8  towards [undoDel]: [ud_targets_spec], the loop over the cached targets on sorted lists;
    - 9  the executable check. *)
From Utreexo Require Import Base.Hash Model.Utils Model.UtilsFast Model.Verify Model.ProofOps
  Model.ProofUpdate Spec.Forest Spec.Oracle Spec.Geometry Spec.Term
  Proofs.UtilsGeom Proofs.UtilsGeom2 Proofs.SpecBasics Proofs.StumpAdd Proofs.LayoutStruct
  Proofs.ProofPosSpec Proofs.CalcTotal Proofs.CalcSound Proofs.CalcComplete Proofs.CachedVerifies
  Proofs.AbstractModels Proofs.StumpAddData Proofs.StumpDelData Proofs.ProofOpsSpec
  Proofs.ProofUpdateSpec.
From Utreexo Require Proofs.RefTheory.
From Coq Require Import List Arith PeanoNat NArith ZArith Lia ZifyNat ZifyN ZifyBool Sorted Permutation.
Import ListNotations.
Open Scope N_scope.

Local Notation SSlt := (StronglySorted N.lt).
Local Notation SSle := (StronglySorted N.le).

(** * 1. Un-lifting a coordinate over a re-created empty root *)

(** the parent of a coordinate *)
Definition par (d : coord) : coord := (S (fst d), snd d / 2).

(** [mv d y]: [y] is the parent of [d] or lies below it (what [moveDownPosition] tests) *)
Definition mv (d y : coord) : bool :=
  (fst y <=? S (fst d))%nat && (snd y / 2 ^ N.of_nat (S (fst d) - fst y) =? snd d / 2).

(** one iteration of the first loop of [undoAdd] on coordinates *)
Definition unlift1 (d y : coord) : coord :=
  if mv d y
  then (Nat.pred (fst y), insbit (snd y) (N.of_nat (fst d - Nat.pred (fst y))) (N.even (snd d)))
  else y.

Definition coord_eqb (x y : coord) : bool := Nat.eqb (fst x) (fst y) && (snd x =? snd y).

Lemma coord_eqb_eq x y : coord_eqb x y = true <-> x = y.
Proof.
  unfold coord_eqb. rewrite andb_true_iff, Nat.eqb_eq, N.eqb_eq. destruct x, y; cbn [fst snd].
  split; [intros [-> ->]; reflexivity|intros E; injection E as -> ->; auto].
Qed.

Lemma mv_split d y : mv d y = coord_eqb y (par d) || anc (par d) y.
Proof.
  unfold mv, coord_eqb, anc, par. cbn [fst snd].
  destruct (Nat.eqb_spec (fst y) (S (fst d))) as [E|Hne].
  - rewrite E, Nat.sub_diag. change (N.of_nat 0) with 0. rewrite N.pow_0_r, N.div_1_r.
    rewrite Nat.leb_refl, Nat.ltb_irrefl. cbn [andb orb]. rewrite orb_false_r. reflexivity.
  - cbn [andb orb]. f_equal.
    destruct (Nat.leb_spec (fst y) (S (fst d))), (Nat.ltb_spec (fst y) (S (fst d))); try reflexivity; lia.
Qed.

Lemma par_valid R d : (fst d < R)%nat -> cvalid R d -> cvalid R (par d).
Proof.
  intros Hd [H1 H2]. unfold par, cvalid. cbn [fst snd]. split; [lia|].
  apply N.div_lt_upper_bound; [lia|]. rewrite <- N.pow_succ_r'.
  replace (N.succ (N.of_nat R - N.of_nat (S (fst d)))) with (N.of_nat R - N.of_nat (fst d)) by lia.
  exact H2.
Qed.

Lemma cpos_inj R x y : (R <= 63)%nat -> cvalid R x -> cvalid R y -> cpos R x = cpos R y -> x = y.
Proof.
  intros HR [Hx1 Hx2] [Hy1 Hy2] E. rewrite !cpos_gpos in E.
  apply gpos_inj in E as [Er Eo]; try assumption; try lia.
  destruct x, y. cbn [fst snd] in *. f_equal; [lia|exact Eo].
Qed.

Lemma Parent_cpos R d : (R <= 63)%nat -> (fst d < R)%nat -> cvalid R d ->
  Parent (cpos R d) (N.of_nat R) = cpos R (par d).
Proof.
  intros HR Hd [H1 H2]. rewrite !cpos_gpos. rewrite Parent_gpos by (try assumption; lia).
  unfold par. cbn [fst snd]. f_equal. lia.
Qed.

(** [moveDownPosition] with the arguments of [undoAdd] is [unlift1] *)
Lemma unlift1_bridge R d y : (R <= 63)%nat -> (fst d < R)%nat -> cvalid R d -> cvalid R y ->
  (mv d y = true -> (1 <= fst y)%nat) ->
  moveDownPosition (N.of_nat R) (Parent (cpos R d) (N.of_nat R)) (cpos R d) (cpos R y)
  = cpos R (unlift1 d y).
Proof.
  intros HR Hd Hvd Hvy Hrow. unfold moveDownPosition.
  rewrite (pu_isAnc_anc R d y HR Hd Hvd Hvy).
  rewrite (Parent_cpos R d HR Hd Hvd).
  assert (Eeq : (cpos R y =? cpos R (par d)) = coord_eqb y (par d)).
  { destruct (N.eqb_spec (cpos R y) (cpos R (par d))) as [E|Hne].
    - apply cpos_inj in E; [|assumption|assumption|apply par_valid; assumption].
      symmetry. apply coord_eqb_eq. exact E.
    - destruct (coord_eqb y (par d)) eqn:Ec; [|reflexivity].
      apply coord_eqb_eq in Ec. subst y. contradiction. }
  rewrite Eeq. change (S (fst d), snd d / 2) with (par d). rewrite <- mv_split.
  unfold unlift1. destruct (mv d y) eqn:Em; [|reflexivity].
  specialize (Hrow eq_refl).
  unfold mv in Em. apply andb_true_iff in Em as [Em1 Em2]. apply Nat.leb_le in Em1.
  destruct Hvd as [Hd1 Hd2]. destruct Hvy as [Hy1 Hy2].
  rewrite !cpos_gpos. cbn [fst snd].
  replace (N.of_nat (fst y)) with (N.of_nat (Nat.pred (fst y)) + 1) by lia.
  rewrite (calcPrevPosition_gpos (N.of_nat R) (N.of_nat (Nat.pred (fst y))) (snd y) _ (N.of_nat (fst d))).
  - rewrite isLeftNiece_gpos by lia. f_equal. f_equal. lia.
  - lia.
  - lia.
  - lia.
  - replace (N.of_nat R - N.of_nat (Nat.pred (fst y)) - 1) with (N.of_nat R - N.of_nat (fst y)) by lia.
    exact Hy2.
  - apply DetectRow_gpos; [lia|lia|exact Hd2].
Qed.

Lemma unlift1_valid R d y : (fst d < R)%nat -> cvalid R y ->
  (mv d y = true -> (1 <= fst y)%nat) -> cvalid R (unlift1 d y).
Proof.
  intros Hd [Hy1 Hy2] Hrow. unfold unlift1. destruct (mv d y) eqn:Em; [|split; assumption].
  specialize (Hrow eq_refl). unfold mv in Em. apply andb_true_iff in Em as [Em1 _].
  apply Nat.leb_le in Em1. split; cbn [fst snd]; [lia|].
  replace (N.of_nat R - N.of_nat (Nat.pred (fst y))) with (N.of_nat R - N.of_nat (fst y) + 1) by lia.
  apply insbit_lt; [lia|exact Hy2].
Qed.

(** the lift over [d] of a coordinate in the subtree of the sibling of [d] comes back *)
Lemma unlift1_lift1 d z : N.even (snd d) = true -> (fst z <= fst d)%nat ->
  snd z / 2 ^ N.of_nat (fst d - fst z) = snd d + 1 ->
  mv d (lift1 d z) = true /\ (1 <= fst (lift1 d z))%nat /\ unlift1 d (lift1 d z) = z.
Proof.
  intros Hev Hr Hq. destruct d as [rd sd], z as [rz oz]. cbn [fst snd] in *.
  set (b := N.of_nat (rd - rz)) in *.
  apply N.even_spec in Hev as [q ->].
  assert (Eq2 : (2 * q) / 2 = q) by (rewrite N.mul_comm; apply N.div_mul; lia).
  assert (Eq3 : (2 * q + 1) / 2 = q).
  { replace (2 * q + 1) with (1 + q * 2) by lia. rewrite N.div_add by lia. reflexivity. }
  assert (Eb1 : oz / 2 ^ (b + 1) = q).
  { rewrite N.pow_add_r, N.pow_1_r, <- N.div_div by (try apply pow2_nz; lia). rewrite Hq. exact Eq3. }
  assert (Ea : anc (S rd, 2 * q / 2) (rz, oz) = true).
  { unfold anc. cbn [fst snd]. apply andb_true_iff. split; [apply Nat.ltb_lt; lia|].
    apply N.eqb_eq. replace (N.of_nat (S rd - rz)) with (b + 1) by (unfold b; lia).
    rewrite Eb1, Eq2. reflexivity. }
  unfold lift1. cbn [fst snd]. rewrite Ea. fold b.
  assert (Er : rmbit oz b / 2 ^ b = q).
  { unfold rmbit. rewrite Eb1. rewrite N.div_add_l by apply pow2_nz.
    rewrite N.div_small by (apply N.mod_upper_bound, pow2_nz). lia. }
  assert (Em : mv (rd, 2 * q) (S rz, rmbit oz b) = true).
  { unfold mv. cbn [fst snd]. apply andb_true_iff. split; [apply Nat.leb_le; lia|].
    apply N.eqb_eq. replace (N.of_nat (S rd - S rz)) with b by (unfold b; lia).
    rewrite Er, Eq2. reflexivity. }
  split; [exact Em|]. split; [cbn [fst]; lia|].
  unfold unlift1. rewrite Em. cbn [fst snd Nat.pred]. fold b. f_equal.
  assert (Et : N.testbit oz b = true).
  { apply N.testbit_true. rewrite Hq. replace (2 * q + 1) with (1 + q * 2) by lia.
    rewrite N.mod_add by lia. reflexivity. }
  rewrite N.even_mul. cbn [N.even orb]. rewrite <- Et. apply insbit_rmbit.
Qed.

Lemma unlift1_id d y : mv d y = false -> unlift1 d y = y.
Proof. intros E. unfold unlift1. rewrite E. reflexivity. Qed.

Lemma lift1_id d y : mv d y = false -> lift1 d y = y.
Proof.
  intros E. rewrite mv_split in E. apply orb_false_iff in E as [_ E].
  unfold lift1. change (S (fst d), snd d / 2) with (par d). rewrite E. reflexivity.
Qed.

(** ** Trajectories *)

Definition unl (Dr : list coord) (y : coord) : coord := fold_left (fun y d => unlift1 d y) Dr y.

(** [unl_to Dr y z]: un-lifting [y] over the list [Dr] gives [z], and no position of row 0 is
    moved on the way (there [calcPrevPosition] does not compute a coordinate) *)
Fixpoint unl_to (Dr : list coord) (y z : coord) : Prop :=
  match Dr with
  | [] => y = z
  | d :: t => (mv d y = true -> (1 <= fst y)%nat) /\ unl_to t (unlift1 d y) z
  end.

Lemma unl_to_app Dr1 : forall Dr2 y z,
  unl_to (Dr1 ++ Dr2) y z <-> exists w, unl_to Dr1 y w /\ unl_to Dr2 w z.
Proof.
  induction Dr1 as [|d Dr1 IH]; intros Dr2 y z; cbn [app unl_to].
  - split; [intros Hu; exists y; auto|intros (w & -> & Hu); exact Hu].
  - rewrite IH. split.
    + intros (Hm & w & H1 & H2). exists w. auto.
    + intros (w & (Hm & H1) & H2). split; [exact Hm|]. exists w. auto.
Qed.

Lemma unl_to_fun Dr : forall y z, unl_to Dr y z -> unl Dr y = z.
Proof.
  induction Dr as [|d Dr IH]; intros y z Hu; cbn [unl_to] in Hu; [exact Hu|].
  destruct Hu as [_ Hu]. unfold unl. cbn [fold_left]. apply IH, Hu.
Qed.

Lemma unl_to_id Dr y : (forall d, In d Dr -> mv d y = false) -> unl_to Dr y y.
Proof.
  induction Dr as [|d Dr IH]; intros Hd; cbn [unl_to]; [reflexivity|].
  pose proof (Hd d (or_introl eq_refl)) as Em. split; [rewrite Em; discriminate|].
  rewrite (unlift1_id d y Em). apply IH. intros d' Hd'. apply Hd. right. exact Hd'.
Qed.

(** the lift over a list is undone when every single lift is *)
Lemma unl_to_prefix D x :
  (forall D0 d D1, D = D0 ++ d :: D1 ->
     let z := liftc D0 x in
     (mv d (lift1 d z) = true -> (1 <= fst (lift1 d z))%nat) /\ unlift1 d (lift1 d z) = z) ->
  unl_to (rev D) (liftc D x) x.
Proof.
  induction D as [|d D IH] using rev_ind; intros Hp; [reflexivity|].
  rewrite rev_app_distr. cbn [rev app unl_to]. rewrite liftc_app. unfold liftc at 1 3. cbn [fold_left].
  destruct (Hp D d [] eq_refl) as [Hm Eu]. cbv zeta in Hm, Eu. split; [exact Hm|].
  unfold liftc at 1. cbn [fold_left]. rewrite Eu. apply IH.
  intros D0 d' D1 E. apply (Hp D0 d' (D1 ++ [d])). rewrite E, <- app_assoc. reflexivity.
Qed.

(** the mirror's loop over the destroyed roots, element-wise *)
Lemma unl_bridge R : (R <= 63)%nat -> forall Dr y z,
  (forall d, In d Dr -> (fst d < R)%nat /\ cvalid R d) -> cvalid R y -> unl_to Dr y z ->
  fold_left (fun p d => moveDownPosition (N.of_nat R) (Parent (cpos R d) (N.of_nat R)) (cpos R d) p)
            Dr (cpos R y) = cpos R z /\ cvalid R z.
Proof.
  intros HR. induction Dr as [|d Dr IH]; intros y z HD Hy Hu; cbn [unl_to] in Hu.
  - subst z. split; [reflexivity|exact Hy].
  - destruct Hu as [Hm Hu]. destruct (HD d (or_introl eq_refl)) as [Hd Hvd]. cbn [fold_left].
    rewrite (unlift1_bridge R d y HR Hd Hvd Hy Hm).
    apply IH; [intros d' Hd'; apply HD; right; exact Hd'| |exact Hu].
    apply unlift1_valid; assumption.
Qed.

(** * 2. The lift over the destroyed roots of a run of additions is undone *)

Lemma ud_disj_arith (j k m fx : nat) (od oe sx lod loe : N) :
  (j < k)%nat -> fx = (k - m)%nat -> (m <= k)%nat -> (fx <= S j)%nat ->
  sx / 2 ^ N.of_nat (S j - fx) = od / 2 -> sx / 2 ^ N.of_nat m = oe ->
  od * p2 j = lod -> oe * p2 k = loe -> loe + p2 k <= lod -> False.
Proof.
  intros Hjk Efx Hm Hfx Eq W2 Eod Eoe Hdis.
  assert (Hq : od / 2 ^ N.of_nat (k - j) = oe).
  { rewrite <- W2.
    replace (N.of_nat m) with (N.of_nat (S j - fx) + N.of_nat (m - (S j - fx))) by lia.
    rewrite N.pow_add_r, <- N.div_div by apply pow2_nz. rewrite Eq.
    replace (N.of_nat (k - j)) with (1 + N.of_nat (m - (S j - fx))) by lia.
    rewrite N.pow_add_r, N.pow_1_r, <- N.div_div by (try apply pow2_nz; lia). reflexivity. }
  pose proof (N.div_mod od (2 ^ N.of_nat (k - j)) (pow2_nz _)) as Hdm.
  pose proof (N.mod_lt od (2 ^ N.of_nat (k - j)) (pow2_nz _)) as Hml. rewrite Hq in Hdm.
  assert (Epk : p2 k = 2 ^ N.of_nat (k - j) * p2 j).
  { unfold p2. rewrite <- N.pow_add_r. f_equal. clear - Hjk. lia. }
  rewrite Epk in Eoe, Hdis. pose proof (p2_pos j) as Hpos.
  remember (od mod 2 ^ N.of_nat (k - j)) as mm eqn:Emm.
  remember (2 ^ N.of_nat (k - j)) as P eqn:EP. remember (p2 j) as Q eqn:EQ.
  clear - Hdm Hml Eoe Eod Hdis Hpos.
  rewrite Hdm in Eod. assert (Hlt : mm * Q < P * Q) by (apply N.mul_lt_mono_pos_r; assumption).
  rewrite <- Eoe, <- Eod in Hdis. lia.
Qed.

(** a block that ends with slot [n] holds no later slot *)
Lemma ud_blk_core (q r A B oz n m P : N) : P = A * B -> n = P * q + (P - 1) -> oz = A * q + r ->
  r < A -> 0 < P -> m < (oz + 1) * B -> m <= n.
Proof.
  intros EP Hdm Hdo Hlo HP Hm.
  assert (Hle : (oz + 1) * B <= (q + 1) * A * B) by (apply N.mul_le_mono_r; lia).
  rewrite <- N.mul_assoc, <- EP in Hle. clear - Hdm Hle Hm HP. lia.
Qed.

Lemma ud_blk_arith (rz h : nat) (oz n m : N) :
  (rz <= S h)%nat -> oz / 2 ^ N.of_nat (S h - rz) = n / p2 (S h) ->
  n mod p2 (S h) = p2 (S h) - 1 -> m < (oz + 1) * p2 rz -> m <= n.
Proof.
  intros Hr Eq Hmod Hm.
  assert (EP : p2 (S h) = 2 ^ N.of_nat (S h - rz) * p2 rz).
  { unfold p2. rewrite <- N.pow_add_r. f_equal. lia. }
  pose proof (N.div_mod n (p2 (S h)) (proj2 (N.neq_0_lt_0 _) (p2_pos _))) as Hdm. rewrite Hmod in Hdm.
  pose proof (N.div_mod oz (2 ^ N.of_nat (S h - rz)) (pow2_nz _)) as Hdo.
  pose proof (N.mod_lt oz (2 ^ N.of_nat (S h - rz)) (pow2_nz _)) as Hlo. rewrite Eq in Hdo.
  exact (ud_blk_core _ _ _ _ oz n m _ EP Hdm Hdo Hlo (p2_pos (S h)) Hm).
Qed.

Section Unlift.
  Variable H : Type.
  Variable HO : ops H.
  Local Notation entry := (StumpAdd.entry H).
  Local Notation erow := (@StumpAdd.erow H).
  Local Notation elo := (@StumpAddData.elo H).
  Local Notation ecoord := (@StumpAddData.ecoord H).
  Local Notation merge := (StumpAddData.merge H HO).
  Local Notation nones := (@StumpAddData.nones H).
  Local Notation somes := (@StumpAddData.somes H).
  Local Notation desc := (@StumpAddData.desc H).

  (** the empty root of a lower tree does not move the nodes of a higher tree down either *)
  Lemma mv_disj (s : slots H) (ed e : entry) pi :
    In ed (forest HO s) -> In e (forest HO s) -> (erow ed < erow e)%nat ->
    (length pi <= erow e)%nat ->
    mv (ecoord ed) (walk (ecoord e) pi) = false.
  Proof.
    intros Hed He Hrow Hl.
    destruct (mv (ecoord ed) (walk (ecoord e) pi)) eqn:Em; [exfalso|reflexivity].
    unfold mv in Em. apply andb_true_iff in Em as [Em1 Em2].
    apply Nat.leb_le in Em1. apply N.eqb_eq in Em2.
    destruct (walk_coord pi (ecoord e) Hl) as [W1 W2].
    destruct ed as [[j lod] td]. destruct e as [[k loe] te].
    unfold StumpAddData.ecoord, StumpAdd.erow, StumpAddData.elo in *. cbn [fst snd] in *.
    pose proof (forest_entries_disjoint H HO s k loe te j lod td He Hed Hrow) as Hdis.
    apply forest_entry in Hed as (_ & _ & Ed & _). apply forest_entry in He as (_ & _ & Ee & _).
    assert (Eod : lod / 2 ^ N.of_nat j * p2 j = lod).
    { rewrite Ed. fold (p2 j). rewrite N.div_mul by (apply N.neq_0_lt_0, p2_pos). reflexivity. }
    assert (Eoe : loe / 2 ^ N.of_nat k * p2 k = loe).
    { rewrite Ee. fold (p2 k). rewrite N.div_mul by (apply N.neq_0_lt_0, p2_pos). reflexivity. }
    exact (ud_disj_arith j k (length pi) _ _ _ _ lod loe Hrow W1 Hl Em1 Em2 W2 Eod Eoe Hdis).
  Qed.

  Lemma nones_split : forall (ch : list entry) D0 d D1, nones ch = D0 ++ d :: D1 ->
    exists cha e2 chb, ch = cha ++ e2 :: chb /\ snd e2 = None /\ d = ecoord e2 /\
                       D0 = nones cha /\ D1 = nones chb.
  Proof.
    induction ch as [|e ch IH]; intros D0 d D1 E.
    - destruct D0; discriminate.
    - unfold StumpAddData.nones in E. cbn [flat_map] in E. fold (nones ch) in E.
      destruct (snd e) as [ce|] eqn:Ese.
      + cbn [app] in E. destruct (IH _ _ _ E) as (cha & e2 & chb & -> & A & B & C & D).
        exists (e :: cha), e2, chb. split; [reflexivity|]. split; [exact A|]. split; [exact B|].
        split; [|exact D]. rewrite C. unfold StumpAddData.nones. cbn [flat_map]. rewrite Ese. reflexivity.
      + cbn [app] in E. destruct D0 as [|d0 D0].
        * cbn [app] in E. injection E as <- <-. exists [], e, ch. auto.
        * cbn [app] in E. injection E as <- E.
          destruct (IH _ _ _ E) as (cha & e2 & chb & -> & A & B & C & D).
          exists (e :: cha), e2, chb. split; [reflexivity|]. split; [exact A|]. split; [exact B|].
          split; [|exact D]. rewrite C. unfold StumpAddData.nones. cbn [flat_map]. rewrite Ese. reflexivity.
  Qed.

  (** a coordinate below the sibling of a destroyed empty root of a chain: lifted and back *)
  Lemma sib_walk_unlift n h2 (e2 : entry) pi :
    erow e2 = h2 -> elo e2 = 2 * (n / p2 (S h2)) * p2 h2 -> bit n h2 = true ->
    (length pi <= h2)%nat ->
    let d := ecoord e2 in let z := walk (xc n h2) pi in
    (mv d (lift1 d z) = true -> (1 <= fst (lift1 d z))%nat) /\ unlift1 d (lift1 d z) = z.
  Proof.
    intros Hr Hlo Hb Hl d z.
    assert (Ed : d = chd 0 (xc n (S h2))) by exact (chain_entry_coord H n h2 e2 Hr Hlo).
    pose proof (xc_child n h2 Hb) as Ex.
    assert (Hlz : (length pi <= fst (xc n h2))%nat) by (cbn [xc fst]; exact Hl).
    destruct (walk_coord pi (xc n h2) Hlz) as [W1 W2]. fold z in W1, W2.
    cbn [xc fst] in W1.
    assert (Fd : fst d = h2) by (rewrite Ed; reflexivity).
    assert (Sd : snd d = 2 * (n / p2 (S h2)) + 0) by (rewrite Ed; reflexivity).
    destruct (unlift1_lift1 d z) as (A & B & C).
    - rewrite Sd, N.add_0_r, N.even_mul. reflexivity.
    - rewrite Fd. lia.
    - rewrite Fd. replace (h2 - fst z)%nat with (length pi) by lia. rewrite W2, Ex, Sd.
      unfold chd, xc. cbn [fst snd]. lia.
    - split; [intros _; exact B|exact C].
  Qed.

  Section Step.
    Variable s : slots H.
    Variable a : H.
    Variables (rest : list H) (ch un : list entry).
    Hypothesis SD : step_data H HO s a rest ch un.
    Local Notation n := (num_leaves s).

    (** one addition *)
    Lemma chain_unlift c0 r0 o0 : locc H HO s c0 r0 o0 ->
      unl_to (rev (nones ch)) (liftc (nones ch) (r0, o0)) (r0, o0).
    Proof.
      intros Hl. apply locc_path in Hl as (e & ce & pi & He & Hs & Hp & Hw & Hlen). rewrite <- Hw.
      apply unl_to_prefix. intros D0 d D1 ED. cbv zeta.
      destruct (nones_split ch D0 d D1 ED) as (cha & e2 & chb & Ech & Hn2 & -> & -> & ->).
      pose proof (sd_chain H HO s a rest ch un SD) as Hc. rewrite Ech in Hc.
      apply (chain_at_app H) in Hc as [Hca Hc2]. cbn [Nat.add] in Hc2.
      pose proof Hc2 as (Hr2 & Hlo2 & Hb2 & Hcb).
      assert (Hine2 : In e2 (forest HO s)).
      { apply (sl_ch_forest H HO s a rest ch un SD). rewrite Ech. apply in_or_app. right. left. reflexivity. }
      (* the tree of the occurrence is above the destroyed root ... *)
      assert (Habove : (erow e2 < erow e)%nat ->
                (mv (ecoord e2) (lift1 (ecoord e2) (liftc (nones cha) (walk (ecoord e) pi))) = true ->
                 (1 <= fst (lift1 (ecoord e2) (liftc (nones cha) (walk (ecoord e) pi))))%nat) /\
                unlift1 (ecoord e2) (lift1 (ecoord e2) (liftc (nones cha) (walk (ecoord e) pi)))
                = liftc (nones cha) (walk (ecoord e) pi)).
      { intros Hrow.
        rewrite (liftc_disj H HO s e pi He Hlen (nones cha)).
        2:{ intros d Hd. apply nones_in in Hd as (e1 & He1 & _ & ->). exists e1.
            split; [apply (sl_ch_forest H HO s a rest ch un SD); rewrite Ech; apply in_or_app; left; exact He1|].
            split; [reflexivity|]. pose proof (chain_at_rows H n cha 0 e1 Hca He1). lia. }
        pose proof (mv_disj s e2 e pi Hine2 He Hrow Hlen) as Em.
        rewrite (lift1_id _ _ Em), Em, (unlift1_id _ _ Em). split; [discriminate|reflexivity]. }
      apply (step_in_forest H HO s a rest ch un e SD) in He as He'.
      apply in_app_or in He' as [He'|He'].
      - rewrite Ech in He'. apply in_app_or in He' as [He'|[He'|He']].
        + (* ... or it was popped before the destroyed root: it sits below the sibling *)
          apply in_split in He' as (ch1 & ch2a & Ecca). rewrite Ecca in Hca.
          assert (Hin : forall e', In e' (ch1 ++ e :: ch2a) -> In e' (forest HO s)).
          { intros e' He''. apply (sl_ch_forest H HO s a rest ch un SD). rewrite Ech, Ecca.
            apply in_or_app. left. exact He''. }
          pose proof (chain_coord H HO s n ch1 e ch2a ce pi Hin Hca Hs Hlen) as Ec.
          rewrite <- Ecca in Ec. rewrite Ec.
          apply (sib_walk_unlift n (length cha) e2); try assumption.
          rewrite app_length, repeat_length. cbn [length].
          pose proof (somes_le H ch2a).
          pose proof (proj1 (chain_at_app H n ch1 0 (e :: ch2a)) Hca) as [_ (Hre & _)]. cbn [Nat.add] in Hre.
          rewrite Ecca, app_length. cbn [length]. lia.
        + subst e2. rewrite Hs in Hn2. discriminate.
        + apply Habove. pose proof (chain_at_rows H n chb _ e Hcb He'). lia.
      - apply Habove. pose proof (sd_un H HO s a rest ch un SD e He').
        rewrite Ech, app_length in H0. cbn [length] in H0. lia.
    Qed.
  End Step.

  (** every old subtree, lifted over all destroyed roots and back *)
  Lemma unlift_adds : forall (adds : list H) (s : slots H),
    N.of_nat (length s + length adds) <= 2 ^ 63 ->
    forall c0 r0 o0, locc H HO s c0 r0 o0 ->
      unl_to (rev (to_destroy_c H HO s adds)) (liftc (to_destroy_c H HO s adds) (r0, o0)) (r0, o0).
  Proof.
    induction adds as [|a adds IH]; intros s Hb c0 r0 o0 Hl; [reflexivity|].
    cbn [length] in Hb.
    destruct (step_data_ex H HO s a adds ltac:(lia)) as (ch & un & SD).
    rewrite (sd_dest H HO s a adds ch un SD).
    assert (Hb' : N.of_nat (length (s ++ [Some a]) + length adds) <= 2 ^ 63)
      by (rewrite app_length; cbn [length]; lia).
    rewrite rev_app_distr, liftc_app. apply unl_to_app.
    exists (liftc (nones ch) (r0, o0)). split.
    - pose proof (step_up H HO s a adds ch un SD c0 r0 o0 Hl) as Hs.
      pose proof (IH (s ++ [Some a]) Hb' c0 _ _ Hs) as Hu.
      rewrite <- surjective_pairing in Hu. exact Hu.
    - exact (chain_unlift s a adds ch un SD c0 r0 o0 Hl).
  Qed.

  (** ** The subtrees that hold an added leaf come back outside the old forest *)

  Lemma mstep_none c (e : entry) : snd e = None -> mstep H HO c e = c.
  Proof. intros E. unfold mstep. rewrite E. reflexivity. Qed.
  Lemma mstep_some c (e : entry) ce : snd e = Some ce ->
    mstep H HO c e = CNode (op_hash2 HO (chash ce) (chash c)) ce c.
  Proof. intros E. unfold mstep. rewrite E. reflexivity. Qed.

  Lemma somes_app (a b : list entry) : somes (a ++ b) = (somes a + somes b)%nat.
  Proof.
    induction a as [|e a IH]; [reflexivity|]. cbn [app StumpAddData.somes].
    destruct (snd e); rewrite IH; reflexivity.
  Qed.

  (** an occurrence in the tree a chain builds: on the spine, below the carried tree, or in a
      popped root *)
  Lemma merge_occp_spine : forall (ch : list entry) c Pi c0, occp H (merge ch c) Pi c0 ->
    (exists ch1 ch2, ch = ch1 ++ ch2 /\ Pi = repeat true (somes ch2)) \/
    (exists pi, Pi = repeat true (somes ch) ++ pi /\ occp H c pi c0 /\ pi <> []) \/
    (exists ch1 (e : entry) ch2 ce pi, ch = ch1 ++ e :: ch2 /\ snd e = Some ce /\
        Pi = repeat true (somes ch2) ++ false :: pi /\ occp H ce pi c0).
  Proof.
    induction ch as [|e ch IH]; intros c Pi c0 Ho.
    - change (merge [] c) with c in Ho. destruct Pi as [|b Pi].
      + left. exists [], []. split; reflexivity.
      + right. left. exists (b :: Pi). split; [reflexivity|]. split; [exact Ho|discriminate].
    - change (merge (e :: ch) c) with (merge ch (mstep H HO c e)) in Ho.
      destruct (IH _ _ _ Ho) as [(ch1 & ch2 & -> & ->)|[(pi & -> & Hp & Hne)|(ch1 & e' & ch2 & ce & pi & -> & He' & -> & Hp)]].
      + left. exists (e :: ch1), ch2. split; reflexivity.
      + cbn [StumpAddData.somes]. destruct (snd e) as [ce|] eqn:Ese.
        * rewrite (mstep_some c e ce Ese) in Hp. inversion Hp; subst.
          -- contradiction.
          -- right. right. exists [], e, ch, ce. eexists. split; [reflexivity|]. split; [exact Ese|].
             split; [reflexivity|]. assumption.
          -- match goal with Hq : occp H c ?p c0 |- _ => destruct p as [|b p'] end.
             ++ left. exists [], (e :: ch). split; [reflexivity|]. cbn [StumpAddData.somes]. rewrite Ese.
                rewrite <- repeat_snoc. reflexivity.
             ++ right. left. exists (b :: p'). split; [|split; [assumption|discriminate]].
                rewrite <- repeat_snoc, <- app_assoc. reflexivity.
        * rewrite (mstep_none c e Ese) in Hp. right. left. exists pi. auto.
      + right. right. exists (e :: ch1), e', ch2, ce, pi. auto.
  Qed.

  Lemma strip_nones : forall ch1 : list entry, exists cha chb, ch1 = cha ++ chb /\ somes chb = 0%nat /\
    (cha = [] \/ exists cha' e1 ce1, cha = cha' ++ [e1] /\ snd e1 = Some ce1).
  Proof.
    induction ch1 as [|e ch1 IH] using rev_ind.
    - exists [], []. auto.
    - destruct (snd e) as [ce|] eqn:Ese.
      + exists (ch1 ++ [e]), []. split; [rewrite app_nil_r; reflexivity|]. split; [reflexivity|].
        right. exists ch1, e, ce. auto.
      + destruct IH as (cha & chb & -> & Hs & Hc). exists cha, (chb ++ [e]).
        split; [rewrite app_assoc; reflexivity|]. split; [|exact Hc].
        rewrite somes_app, Hs. cbn [StumpAddData.somes]. rewrite Ese. reflexivity.
  Qed.

  Lemma xc_block n h : snd (xc n h) * p2 (fst (xc n h)) <= n < (snd (xc n h) + 1) * p2 (fst (xc n h)).
  Proof.
    unfold xc. cbn [fst snd]. pose proof (p2_pos h) as Hp.
    pose proof (N.div_mod n (p2 h) ltac:(lia)) as Hdm. pose proof (N.mod_lt n (p2 h) ltac:(lia)). nia.
  Qed.

  Lemma bad_unlift R : (R <= 63)%nat -> forall (adds : list H) (s : slots H),
    N.of_nat (length s + length adds) <= 2 ^ N.of_nat R ->
    NoDup (live (s ++ map Some adds)) ->
    forall c0 r1 o1, locc H HO (s ++ map Some adds) c0 r1 o1 ->
      (exists a, In a adds /\ In a (cleaves H c0)) ->
      exists z j, unl_to (rev (to_destroy_c H HO s adds)) (r1, o1) z /\ (j < length adds)%nat /\
        (fst z <= R)%nat /\
        snd z * p2 (fst z) <= N.of_nat (length s + j) < (snd z + 1) * p2 (fst z).
  Proof.
    intros HR. induction adds as [|a rest IH]; intros s Hb Hnd c0 r1 o1 Hl Hex.
    { destruct Hex as (a & [] & _). }
    cbn [length] in Hb.
    assert (Hb63 : N.of_nat (length s + S (length rest)) <= 2 ^ 63) by (apply (pow_R_63 R); assumption).
    destruct (step_data_ex H HO s a rest ltac:(lia)) as (ch & un & SD).
    rewrite (sd_dest H HO s a rest ch un SD), rev_app_distr.
    assert (Es' : s ++ map Some (a :: rest) = (s ++ [Some a]) ++ map Some rest)
      by (rewrite <- app_assoc; reflexivity).
    rewrite Es' in Hl, Hnd.
    assert (Hb' : N.of_nat (length (s ++ [Some a]) + length rest) <= 2 ^ N.of_nat R).
    { rewrite app_length. cbn [length]. replace (length s + 1 + length rest)%nat with (length s + S (length rest))%nat by lia. exact Hb. }
    assert (Hb'63 : N.of_nat (length (s ++ [Some a]) + length rest) <= 2 ^ 63) by (apply (pow_R_63 R); assumption).
    destruct (lift_adds HO rest (s ++ [Some a]) Hb'63) as [_ I2].
    (* the new leaf is not in the old forest *)
    assert (Hfresh : ~ In (Some a) s).
    { intros Hin. rewrite <- Es' in Hnd. rewrite live_app, live_map_some in Hnd.
      apply NoDup_app_inv in Hnd as (_ & _ & Hd). apply (Hd a); [apply live_in; exact Hin|left; reflexivity]. }
    pose proof (sd_chain H HO s a rest ch un SD) as Hc.
    set (n := num_leaves s) in *.
    assert (Hcase : (exists a', In a' rest /\ In a' (cleaves H c0)) \/
              (In a (cleaves H c0) /\ exists r0 o0, locc H HO (s ++ [Some a]) c0 r0 o0 /\
                  liftc (to_destroy_c H HO (s ++ [Some a]) rest) (r0, o0) = (r1, o1))).
    { destruct Hex as (a0 & [<-|Ha0] & Hc0); [|left; eauto].
      destruct (I2 c0 r1 o1 Hl) as [(a' & A1 & A2)|(r0 & o0 & A1 & A2)]; [left; eauto|right; eauto]. }
    destruct Hcase as [Hex'|(Hac & r0 & o0 & Hl1 & El)].
    - (* a later leaf: the coordinate lies beyond everything the first chain moved *)
      destruct (IH (s ++ [Some a]) Hb' Hnd c0 r1 o1 Hl Hex') as (z & j & Hu & Hj & Hrz & Hblk).
      exists z, (S j). split; [|split; [cbn [length]; lia|split; [exact Hrz|]]].
      + apply unl_to_app. exists z. split; [exact Hu|]. apply unl_to_id.
        intros d Hd. apply in_rev in Hd. apply nones_in in Hd as (e & He & _ & ->).
        destruct (mv (ecoord e) z) eqn:Em; [exfalso|reflexivity].
        unfold mv in Em. apply andb_true_iff in Em as [Em1 Em2].
        apply Nat.leb_le in Em1. apply N.eqb_eq in Em2.
        assert (Hm0 : n mod p2 0 = p2 0 - 1) by (rewrite p2_0, N.mod_1_r; reflexivity).
        pose proof (chain_ones n ch 0%nat Hc Hm0 e He) as Hones.
        assert (Hlo : elo e = 2 * (n / p2 (S (erow e))) * p2 (erow e)).
        { clear - Hc He. revert Hc. generalize 0%nat. induction ch as [|e0 ch IH]; intros h Hc; [destruct He|].
          destruct Hc as (Hr & Hl & _ & Hc). destruct He as [<-|He]; [rewrite Hr; exact Hl|exact (IH He _ Hc)]. }
        unfold StumpAddData.ecoord in Em1, Em2. cbn [fst snd] in Em1, Em2.
        rewrite Hlo in Em2. fold (p2 (erow e)) in Em2.
        rewrite N.div_mul in Em2 by (apply N.neq_0_lt_0, p2_pos).
        rewrite (N.mul_comm 2), N.div_mul in Em2 by lia.
        pose proof (ud_blk_arith (fst z) (erow e) (snd z) n (N.of_nat (length (s ++ [Some a]) + j))
                      Em1 Em2 Hones (proj2 Hblk)) as Hle.
        rewrite app_length in Hle. cbn [length] in Hle. unfold n, num_leaves in Hle. lia.
      + rewrite app_length in Hblk. cbn [length] in Hblk.
        replace (length s + S j)%nat with (length s + 1 + j)%nat by lia. exact Hblk.
    - (* the first new leaf: a subtree on the spine of the tree the chain built *)
      pose proof (unlift_adds rest (s ++ [Some a]) Hb'63 c0 r0 o0 Hl1) as Hu1. rewrite El in Hu1.
      apply locc_path in Hl1 as (e & ce & Pi & He & Hs & Hp & Hw & Hlen).
      assert (Hold : forall e' ce', In e' (forest HO s) -> snd e' = Some ce' ->
                       ~ In a (cleaves H ce')).
      { intros e' ce' He' Hs' Hin. apply Hfresh. exact (forest_leaves_live H HO s e' ce' a He' Hs' Hin). }
      apply (step_in_forest' H HO s a rest ch un e SD) in He. destruct He as [->|He].
      2:{ exfalso. apply (Hold e ce (sl_un_forest H HO s a rest ch un SD e He) Hs).
          exact (occp_leaves H _ _ _ Hp a Hac). }
      cbn [snd] in Hs. injection Hs as <-.
      rewrite (sl_top_coord H HO s a rest ch un SD) in Hw. fold n in Hw.
      destruct (merge_occp_spine ch (CLeaf a) Pi c0 Hp)
        as [(ch1 & ch2 & Ech & EPi)|[(pi & _ & Hp' & Hne)|(ch1 & e & ch2 & ce & pi & Ech & Hse & _ & Hp')]].
      2:{ apply occp_leaf_inv in Hp' as [-> _]. contradiction. }
      2:{ exfalso. apply (Hold e ce); [|exact Hse|exact (occp_leaves H _ _ _ Hp' a Hac)].
          apply (sl_ch_forest H HO s a rest ch un SD). rewrite Ech. apply in_or_app. right. left. reflexivity. }
      destruct (strip_nones ch1) as (cha & chb & Ech1 & Hsb & Hlast).
      set (ch2' := chb ++ ch2).
      assert (Ech' : ch = cha ++ ch2') by (unfold ch2'; rewrite Ech, Ech1, <- app_assoc; reflexivity).
      assert (EPi' : Pi = repeat true (somes ch2')) by (unfold ch2'; rewrite somes_app, Hsb; exact EPi).
      clearbody ch2'. clear Ech EPi Ech1 Hsb ch1 ch2 chb.
      rewrite Ech' in Hc. apply (chain_at_app H) in Hc as [Hca Hc2]. cbn [Nat.add] in Hc2.
      set (h1 := length cha) in *.
      assert (Ey : (r0, o0) = liftc (nones ch2') (xc n h1)).
      { rewrite <- Hw, EPi', <- (desc_walk H ch2').
        pose proof (lift_chain H n [] ch2' h1 Hc2 I) as Hlc.
        rewrite app_nil_r in Hlc. rewrite Hlc. unfold liftc at 1. cbn [fold_left].
        rewrite Ech', app_length. reflexivity. }
      exists (xc n h1), 0%nat.
      split; [|split; [cbn [length]; lia|split]].
      + apply unl_to_app. exists (r0, o0). split; [exact Hu1|].
        rewrite Ech', nones_app, rev_app_distr. apply unl_to_app. exists (xc n h1). split.
        * rewrite Ey. apply unl_to_prefix. intros D0 d D1 ED. cbv zeta.
          destruct (nones_split ch2' D0 d D1 ED) as (c2a & e2 & c2b & Ec2 & Hn2 & -> & -> & ->).
          rewrite Ec2 in Hc2. apply (chain_at_app H) in Hc2 as [Hc2a (Hr2 & Hlo2 & Hb2 & _)].
          pose proof (lift_chain H n [] c2a h1 Hc2a I) as Hlc.
          rewrite app_nil_r in Hlc. rewrite Hlc.
          replace (liftc [] (xc n (h1 + length c2a))) with (xc n (h1 + length c2a)) by reflexivity.
          rewrite (desc_walk H c2a).
          apply (sib_walk_unlift n (h1 + length c2a) e2); try assumption.
          rewrite repeat_length. pose proof (somes_le H c2a). lia.
        * apply unl_to_id. intros d Hd. apply in_rev in Hd. apply nones_in in Hd as (e1 & He1 & Hn1 & ->).
          unfold mv. apply andb_false_iff. left. apply Nat.leb_gt.
          unfold StumpAddData.ecoord, xc. cbn [fst].
          pose proof (chain_at_rows H n cha 0 e1 Hca He1) as Hrow.
          destruct Hlast as [->|(cha' & el & cel & Ecl & Hsl)]; [destruct He1|].
          rewrite Ecl in Hca, He1. apply (chain_at_app H) in Hca as [Hca' (Hrl & _)].
          apply in_app_or in He1 as [He1|[<-|[]]].
          -- pose proof (chain_at_rows H n cha' 0 e1 Hca' He1). unfold h1. rewrite Ecl, app_length. cbn [length]. lia.
          -- rewrite Hsl in Hn1. discriminate.
      + assert (HE : In (length ch, last_lo H ch n, Some (merge ch (CLeaf a))) (forest HO (s ++ [Some a])))
          by exact (sl_top H HO s a rest ch un SD).
        assert (Hv : cvalid R (ecoord (length ch, last_lo H ch n, Some (merge ch (CLeaf a))))).
        { apply (ecoord_valid H HO R (s ++ [Some a])); [|exact HE]. rewrite app_length. cbn [length]. lia. }
        destruct Hv as [Hv _]. unfold StumpAddData.ecoord, StumpAdd.erow in Hv. cbn [fst] in Hv.
        cbn [xc fst]. rewrite Ech', app_length in Hv. unfold h1. lia.
      + rewrite Nat.add_0_r. exact (xc_block n h1).
  Qed.
End Unlift.

(** * 3. The loops of [undoAdd] on lists of coordinates *)

Definition cinfb (n : N) (x : coord) : bool := (snd x + 1) * 2 ^ N.of_nat (fst x) <=? n.

Lemma cinfb_spec n x : cinfb n x = true <-> cinf n x.
Proof. unfold cinfb, cinf. apply N.leb_le. Qed.

Lemma cinf_valid R n x : n <= 2 ^ N.of_nat R -> cinf n x -> cvalid R x.
Proof.
  unfold cinf, cvalid. intros Hn Hx. pose proof (UtilsGeom.pow2_pos (N.of_nat (fst x))) as Hp.
  assert (Hr : (fst x <= R)%nat).
  { destruct (Nat.le_gt_cases (fst x) R) as [Hle|Hgt]; [exact Hle|exfalso].
    assert (2 ^ N.of_nat R < 2 ^ N.of_nat (fst x)) by (apply pow2_lt; lia). nia. }
  split; [exact Hr|].
  assert (E : 2 ^ N.of_nat R = 2 ^ (N.of_nat R - N.of_nat (fst x)) * 2 ^ N.of_nat (fst x)).
  { rewrite <- N.pow_add_r. f_equal. lia. }
  rewrite E in Hn. revert Hn Hx Hp. generalize (2 ^ (N.of_nat R - N.of_nat (fst x))), (2 ^ N.of_nat (fst x)).
  intros A B Hn Hx Hp. nia.
Qed.

Lemma cvalid_mono R R' x : (R <= R')%nat -> cvalid R x -> cvalid R' x.
Proof.
  intros HR [H1 H2]. split; [lia|].
  assert (2 ^ (N.of_nat R - N.of_nat (fst x)) <= 2 ^ (N.of_nat R' - N.of_nat (fst x))) by (apply pow2_le; lia).
  lia.
Qed.

Lemma cpos_g R x : cpos R x = g (N.of_nat R) (cN x).
Proof. reflexivity. Qed.

Lemma cvalid_vld R x : cvalid R x -> vld (N.of_nat R) (cN x).
Proof. intros [H1 H2]. unfold vld, cN. cbn [fst snd]. split; [lia|exact H2]. Qed.

(** row-major order does not depend on the geometry: downwards *)
Lemma SSle_cpos_transfer R R' (Z : list coord) : (R <= 63)%nat -> (R' <= 63)%nat ->
  (forall z, In z Z -> cvalid R z /\ cvalid R' z) ->
  SSle (map (cpos R') Z) -> SSle (map (cpos R) Z).
Proof.
  intros HR HR' Hv. induction Z as [|x Z IH]; intros Hs; [constructor|]. cbn [map] in *.
  destruct (po_SS_inv _ _ _ Hs) as [Hs' Hc]. constructor.
  - apply IH; [intros z Hz; apply Hv; right; exact Hz|exact Hs'].
  - apply Forall_forall. intros p Hp. apply in_map_iff in Hp as (y & <- & Hy).
    destruct (Hv x (or_introl eq_refl)) as [V1 V1']. destruct (Hv y (or_intror Hy)) as [V2 V2'].
    pose proof (Hc (cpos R' y) (in_map _ _ _ Hy)) as Hle.
    destruct (N.le_gt_cases (cpos R x) (cpos R y)) as [Hok|Hgt]; [exact Hok|exfalso].
    rewrite !cpos_g in Hgt, Hle.
    apply (pu_g_lex (N.of_nat R) (cN y) (cN x) ltac:(lia) (cvalid_vld _ _ V2) (cvalid_vld _ _ V1)) in Hgt.
    apply (pu_g_lex (N.of_nat R') (cN y) (cN x) ltac:(lia) (cvalid_vld _ _ V2') (cvalid_vld _ _ V1')) in Hgt.
    lia.
Qed.

Lemma SS_map_filter {A} (f : A -> N) (p : A -> bool) (l : list A) :
  SSle (map f l) -> SSle (map f (filter p l)).
Proof.
  induction l as [|x l IH]; intros Hs; [constructor|]. cbn [map filter] in *.
  destruct (po_SS_inv _ _ _ Hs) as [Hs' Hc].
  destruct (p x); [|exact (IH Hs')]. cbn [map]. constructor; [exact (IH Hs')|].
  apply Forall_forall. intros q Hq. apply in_map_iff in Hq as (y & <- & Hy).
  apply filter_In in Hy as [Hy _]. apply Hc, in_map, Hy.
Qed.

Lemma ud_prune_arith (hR r o n : N) : hR <= 63 -> n <= 2 ^ hR -> 0 < n -> r <= hR ->
  maxPositionAtRow r hR n = (n / 2 ^ r + gstart hR r - 1, false) /\
  ((gstart hR r + o <=? n / 2 ^ r + gstart hR r - 1) = ((o + 1) * 2 ^ r <=? n)).
Proof.
  intros HhR Hn Hn0 Hr. unfold maxPositionAtRow. rewrite (ct_maxpos_val n hR r HhR Hn Hr).
  assert (Hv : 0 < n / 2 ^ r + gstart hR r).
  { destruct (N.eq_dec r 0) as [->|Hr0].
    - rewrite N.pow_0_r, N.div_1_r. lia.
    - unfold gstart. assert (2 ^ (hR + 1 - r) < 2 ^ (hR + 1)) by (apply pow2_lt; lia).
      generalize (n / 2 ^ r). intros q. lia. }
  destruct (N.eqb_spec (n / 2 ^ r + gstart hR r) 0) as [E|_]; [lia|]. split; [reflexivity|].
  pose proof (UtilsGeom.pow2_pos r) as Hp.
  pose proof (N.div_mod n (2 ^ r) ltac:(lia)) as Hdm. pose proof (N.mod_lt n (2 ^ r) ltac:(lia)) as Hml.
  set (q := n / 2 ^ r) in *. set (m := n mod 2 ^ r) in *. set (P := 2 ^ r) in *.
  set (G := gstart hR r) in *. clearbody q m P G.
  destruct (N.leb_spec (G + o) (q + G - 1)) as [H1|H1], (N.leb_spec ((o + 1) * P) n) as [H2|H2];
    try reflexivity; exfalso.
  - assert (H3 : o + 1 <= q) by lia.
    assert (H4 : (o + 1) * P <= q * P) by (apply N.mul_le_mono_r; exact H3). lia.
  - assert (H3 : q <= o) by lia.
    assert (H4 : (q + 1) * P <= (o + 1) * P) by (apply N.mul_le_mono_r; lia). lia.
Qed.

Section Loops.
  Variable H : Type.
  Variable HO : ops H.
  Local Notation hp := (hp H).

  Lemma ud_fold_map t R (Dr : list coord) : forall l : list hp,
    fold_left (fun acc destroyed => moveDownPositions t (Parent destroyed t) destroyed acc)
              (map (cpos R) Dr) l
    = map (fun e => (fold_left (fun p d => moveDownPosition t (Parent (cpos R d) t) (cpos R d) p)
                               Dr (fst e), snd e)) l.
  Proof.
    induction Dr as [|d Dr IH]; intros l; cbn [map fold_left].
    - rewrite <- (map_id l) at 1. apply map_ext. intros [p h]. reflexivity.
    - rewrite IH. unfold moveDownPositions. rewrite map_map. reflexivity.
  Qed.

  (** [pruneEdges] keeps the coordinates of the previous forest *)
  Lemma ud_pruneEdges R' R k n' : (R' <= 63)%nat -> (R <= R')%nat -> k <= n' -> n' < W ->
    0 < n' - k -> n' - k <= 2 ^ N.of_nat R ->
    forall Z : list (coord * H), (forall e, In e Z -> cvalid R' (fst e)) ->
    pruneEdges (map (cposh H R') Z) k n' (N.of_nat R') (N.of_nat R)
    = Some (map (cposh H R') (filter (fun e => cinfb (n' - k) (fst e)) Z)).
  Proof.
    intros HR' HRR Hk HW Hn0 Hn. induction Z as [|e Z IH]; intros Hv; [reflexivity|].
    destruct (Hv e (or_introl eq_refl)) as [Hv1 Hv2].
    cbn [map pruneEdges filter]. change (fst (cposh H R' e)) with (cpos R' (fst e)).
    rewrite cpos_gpos. rewrite DetectRow_gpos by (try assumption; lia).
    rewrite IH by (intros e' He'; apply Hv; right; exact He').
    rewrite (sub64_small n' k Hk HW).
    destruct (N.ltb_spec (N.of_nat R) (N.of_nat (fst (fst e)))) as [Hgt|Hle].
    - assert (Ec : cinfb (n' - k) (fst e) = false).
      { unfold cinfb. apply N.leb_gt.
        assert (2 ^ N.of_nat R < 2 ^ N.of_nat (fst (fst e))) by (apply pow2_lt; lia).
        pose proof (UtilsGeom.pow2_pos (N.of_nat (fst (fst e)))). nia. }
      rewrite Ec. reflexivity.
    - destruct (ud_prune_arith (N.of_nat R) (N.of_nat (fst (fst e))) (snd (fst e)) (n' - k)
                  ltac:(lia) Hn Hn0 Hle) as [Emp Eleb].
      rewrite Emp. cbn [fst snd].
      rewrite (startPositionAtRow_gstart _ (N.of_nat R')) by lia.
      rewrite (startPositionAtRow_gstart _ (N.of_nat R)) by lia.
      pose proof (gpos_lt_W (N.of_nat R') (N.of_nat (fst (fst e))) (snd (fst e)) ltac:(lia) ltac:(lia) Hv2) as HgW.
      unfold gpos at 1. rewrite sub64_small by (unfold gpos in HgW; lia).
      replace (gstart (N.of_nat R') (N.of_nat (fst (fst e))) + snd (fst e)
               - gstart (N.of_nat R') (N.of_nat (fst (fst e)))) with (snd (fst e)) by lia.
      assert (HsW : gstart (N.of_nat R) (N.of_nat (fst (fst e))) + snd (fst e) < W).
      { destruct (Nat.eq_dec R R') as [->|Hne]; [exact HgW|].
        assert (H1 : gstart (N.of_nat R) (N.of_nat (fst (fst e))) < 2 ^ (N.of_nat R + 1)).
        { unfold gstart. pose proof (UtilsGeom.pow2_pos (N.of_nat R + 1 - N.of_nat (fst (fst e)))). lia. }
        assert (H2 : 2 ^ (N.of_nat R + 1) <= 2 ^ 63) by (apply pow2_le; lia).
        assert (H3 : 2 ^ (N.of_nat R' - N.of_nat (fst (fst e))) <= 2 ^ 63) by (apply pow2_le; lia).
        rewrite W_eq. change 64 with (63 + 1). rewrite pow2_S. lia. }
      unfold add64. rewrite wrap_small by exact HsW. rewrite Eleb.
      unfold cinfb. clear Eleb.
      destruct ((snd (fst e) + 1) * 2 ^ N.of_nat (fst (fst e)) <=? n' - k); reflexivity.
  Qed.

  (** the remap to the lower geometry *)
  Lemma ud_remapDown R' R n' : (R' <= 63)%nat -> (R <= R')%nat -> N.of_nat R' = TreeRows n' ->
    forall Z : list (coord * H), (forall e, In e Z -> cvalid R (fst e)) ->
    remapDown n' (N.of_nat R') (N.of_nat R) (map (cposh H R') Z) = map (cposh H R) Z.
  Proof.
    intros HR' HRR ER Z Hv. unfold remapDown. rewrite map_map. apply map_ext_in. intros e He.
    destruct (Hv e He) as [H1 H2]. destruct (cvalid_mono R R' (fst e) HRR (Hv e He)) as [H1' H2'].
    unfold cposh. cbn [fst snd]. f_equal. rewrite <- ER, !cpos_gpos.
    rewrite DetectRow_gpos by (try assumption; lia).
    rewrite (startPositionAtRow_gstart _ (N.of_nat R')) by lia.
    rewrite (startPositionAtRow_gstart _ (N.of_nat R)) by lia.
    pose proof (gpos_lt_W (N.of_nat R') (N.of_nat (fst (fst e))) (snd (fst e)) ltac:(lia) ltac:(lia) H2') as HgW.
    pose proof (gpos_lt_W (N.of_nat R) (N.of_nat (fst (fst e))) (snd (fst e)) ltac:(lia) ltac:(lia) H2) as HgW2.
    unfold gpos in *. rewrite sub64_small by lia.
    replace (gstart (N.of_nat R') (N.of_nat (fst (fst e))) + snd (fst e)
             - gstart (N.of_nat R') (N.of_nat (fst (fst e)))) with (snd (fst e)) by lia.
    unfold add64. rewrite wrap_small by lia. lia.
  Qed.
End Loops.

(** * 4. [undoAdd] on graphs of valuations *)

Lemma ud_nodup_map_inj {A B} (f : A -> B) (l : list A) : NoDup (map f l) ->
  forall x y, In x l -> In y l -> f x = f y -> x = y.
Proof.
  induction l as [|a l IH]; intros Hnd x y Hx Hy E; [destruct Hx|].
  cbn [map] in Hnd. inversion Hnd as [|? ? Hnin Hnd']; subst.
  destruct Hx as [<-|Hx], Hy as [<-|Hy]; try reflexivity.
  - exfalso. apply Hnin. rewrite E. apply in_map, Hy.
  - exfalso. apply Hnin. rewrite <- E. apply in_map, Hx.
  - exact (IH Hnd' x y Hx Hy E).
Qed.

Lemma ud_filter_map {A B} (f : A -> B) (p : B -> bool) (l : list A) :
  filter p (map f l) = map f (filter (fun a => p (f a)) l).
Proof.
  induction l as [|a l IH]; [reflexivity|]. cbn [map filter]. destruct (p (f a)); cbn [map]; rewrite IH; reflexivity.
Qed.

Lemma ud_blk_valid (R' fz : nat) (oz m N' : N) : (fz <= R')%nat -> oz * p2 fz <= m -> m < N' ->
  N' <= 2 ^ N.of_nat R' -> oz < 2 ^ (N.of_nat R' - N.of_nat fz).
Proof.
  intros Hr H1 H2 H3.
  assert (E : 2 ^ N.of_nat R' = 2 ^ (N.of_nat R' - N.of_nat fz) * p2 fz).
  { unfold p2. rewrite <- N.pow_add_r. f_equal. lia. }
  rewrite E in H3. pose proof (p2_pos fz) as Hp. revert H1 H3 Hp.
  generalize (2 ^ (N.of_nat R' - N.of_nat fz)), (p2 fz). intros A B H1 H3 Hp. nia.
Qed.

Section UndoGraph.
  Variable H : Type.
  Variable HO : ops H.
  Variables F' F : N -> H.

  Theorem ud_undoAdd_graph (n' k : N) (TD tC' PP' comp' : list N) (hC' : list H)
          (T P needed comp : list N) :
    k <= n' -> n' < W -> n' <> k ->
    length tC' = length hC' -> SSlt tC' -> SSlt PP' ->
    ProofPositions_fast tC' n' (TreeRows n') = (PP', comp') ->
    (exists l2,
       pruneEdges (sortK (fold_left (fun acc destroyed =>
                     moveDownPositions (TreeRows n') (Parent destroyed (TreeRows n')) destroyed acc)
                     (rev TD) (zip_hp tC' hC')))
                  k n' (TreeRows n') (TreeRows (n' - k)) = Some l2 /\
       (if TreeRows (n' - k) <? TreeRows n'
        then remapDown n' (TreeRows n') (TreeRows (n' - k)) l2 else l2) = gr H F T) ->
    (exists l2,
       pruneEdges (sortK (fold_left (fun acc destroyed =>
                     moveDownPositions (TreeRows n') (Parent destroyed (TreeRows n')) destroyed acc)
                     (rev TD) (gr H F' PP')))
                  k n' (TreeRows n') (TreeRows (n' - k)) = Some l2 /\
       (if TreeRows (n' - k) <? TreeRows n'
        then remapDown n' (TreeRows n') (TreeRows (n' - k)) l2 else l2) = gr H F P) ->
    SSlt P -> ProofPositions_fast T (n' - k) (TreeRows (n' - k)) = (needed, comp) -> SSle needed ->
    undoAdd tC' (map F' PP') k n' hC' TD
    = Some (map F T, T, map F (filter (fun x => memN x needed) P)).
  Proof.
    intros Hk HW Hne ElT HsT HsP Epp (l2 & Ep2 & Er2) (l3 & Ep3 & Er3) HsPP Epp2 Hsn.
    unfold undoAdd.
    rewrite (pu_toHP H tC' hC' ElT HsT).
    unfold positions at 1. rewrite (pu_zip_fst tC' hC' ElT). rewrite Epp.
    rewrite (pu_toHP H PP' (map F' PP')) by (try assumption; rewrite map_length; reflexivity).
    rewrite (po_zip_gr H F' PP').
    rewrite (sub64_small n' k Hk HW).
    destruct (N.eqb_spec n' k) as [E|_]; [contradiction|].
    cbv zeta. rewrite Ep2, Ep3, Er2, Er3.
    unfold positions. rewrite po_gr_fst, Epp2.
    rewrite (po_subset_gr H F P needed HsPP Hsn).
    unfold hashes. rewrite !po_gr_snd. reflexivity.
  Qed.
End UndoGraph.

(** * 5. G1: [undoAdd] against the reference forest *)

Section UndoAdd.
  Variable H : Type.
  Variable HO : ops H.
  Hypothesis HOK : ops_ok HO.
  Hypothesis hash_nz : forall a b, NZ HO (op_hash2 HO a b).
  Variable s : slots H.
  Variable adds : list H.
  Hypothesis Hb : N.of_nat (length s + length adds) <= 2 ^ 63.

  Local Notation s' := (s ++ map Some adds).
  Hypothesis Hnd' : NoDup (live s').
  Hypothesis Hs0 : (0 < length s)%nat.

  Local Notation n := (N.of_nat (length s)).
  Local Notation n' := (N.of_nat (length s')).
  Local Notation k := (N.of_nat (length adds)).
  Local Notation total := (TreeRows (N.of_nat (length s))).
  Local Notation total' := (TreeRows (N.of_nat (length s'))).
  Local Notation R := (rows_of (num_leaves s)).
  Local Notation R' := (rows_of (num_leaves s')).
  Local Notation lay := (layout HO s).
  Local Notation lay' := (layout HO s').
  Local Notation F := (Fv H HO s).
  Local Notation F' := (Fv H HO s').
  Local Notation D := (to_destroy_c H HO s adds).
  Local Notation Dr := (rev (to_destroy_c H HO s adds)).

  Lemma ua_len' : n' = n + k. Proof. exact (ag_len' H s adds Hb). Qed.
  Lemma ua_R63' : (R' <= 63)%nat. Proof. exact (ag_R63 H s adds Hb). Qed.
  Lemma ua_ER' : N.of_nat R' = total'. Proof. exact (ag_ER H s adds). Qed.
  Lemma ua_ER : N.of_nat R = total. Proof. exact (rf_R_total H s). Qed.
  Lemma ua_RR : (R <= R')%nat.
  Proof.
    pose proof (pu_TreeRows_mono n n' ltac:(rewrite ua_len'; lia)) as Hm.
    rewrite <- ua_ER, <- ua_ER' in Hm. lia.
  Qed.
  Lemma ua_n2R : n <= 2 ^ N.of_nat R. Proof. exact (rows_of_upper (num_leaves s)). Qed.
  Lemma ua_n2R' : n' <= 2 ^ N.of_nat R'. Proof. exact (rows_of_upper (num_leaves s')). Qed.
  Lemma ua_nd : NoDup (live s). Proof. exact (ag_nd H s adds Hnd'). Qed.

  Lemma ua_HD d : In d Dr -> (fst d < R')%nat /\ cvalid R' d.
  Proof.
    intros Hd. apply in_rev in Hd. destruct (ag_dok H HO hash_nz s adds Hb d Hd) as (A & B & _). auto.
  Qed.

  Lemma ua_locc_cinf (t : slots H) c0 r o : locc H HO t c0 r o -> cinf (N.of_nat (length t)) (r, o).
  Proof.
    intros Hl. destruct (locc_node H HO t c0 r o Hl) as (x & Hx & Xr & Xo & _).
    pose proof (layout_coords_valid H HO t x Hx) as Hv. rewrite Xr, Xo in Hv. exact Hv.
  Qed.

  (** an element of the cached proof of the new state goes back to its old coordinate, or
      outside the old forest *)
  Lemma ua_class (e : coord * H) :
    (exists c0, locc H HO s' c0 (fst (fst e)) (snd (fst e)) /\ snd e = chash c0) ->
    cvalid R' (fst e) /\ unl_to Dr (fst e) (unl Dr (fst e)) /\ cvalid R' (unl Dr (fst e)) /\
    (cinfb n (unl Dr (fst e)) = false \/
     exists c0 r0 o0, locc H HO s c0 r0 o0 /\ liftc D (r0, o0) = fst e /\
                      unl Dr (fst e) = (r0, o0) /\ snd e = chash c0).
  Proof.
    destruct e as [[r1 o1] h]. cbn [fst snd]. intros (c0 & Hl & Eh).
    split; [exact (cinf_valid R' n' (r1, o1) ua_n2R' (ua_locc_cinf s' c0 r1 o1 Hl))|].
    destruct (proj2 (lift_adds HO adds s Hb) c0 r1 o1 Hl) as [Hbad|(r0 & o0 & Hl0 & El)].
    - assert (Hb' : N.of_nat (length s + length adds) <= 2 ^ N.of_nat R').
      { pose proof ua_n2R' as Hu. rewrite app_length, map_length in Hu. exact Hu. }
      destruct (bad_unlift H HO R' ua_R63' adds s Hb' Hnd' c0 r1 o1 Hl Hbad)
        as (z & j & Hu & Hj & Hrz & Hb1 & Hb2).
      rewrite (unl_to_fun _ _ _ Hu). split; [exact Hu|].
      assert (Hjn : N.of_nat (length s + j) < n').
      { rewrite app_length, map_length. lia. }
      split.
      + split; [exact Hrz|]. exact (ud_blk_valid R' (fst z) (snd z) _ n' Hrz Hb1 Hjn ua_n2R').
      + left. unfold cinfb. apply N.leb_gt. fold (p2 (fst z)). lia.
    - pose proof (unlift_adds H HO adds s Hb c0 r0 o0 Hl0) as Hu. rewrite El in Hu.
      rewrite (unl_to_fun _ _ _ Hu). split; [exact Hu|]. split.
      + apply (cvalid_mono R R' _ ua_RR). exact (cinf_valid R n (r0, o0) ua_n2R (ua_locc_cinf s c0 r0 o0 Hl0)).
      + right. exists c0, r0, o0. auto.
  Qed.

  (** the first half of [undoAdd] on a list of the new state *)
  Lemma ua_pipeline (X : list (coord * H)) :
    (forall e, In e X -> exists c0, locc H HO s' c0 (fst (fst e)) (snd (fst e)) /\ snd e = chash c0) ->
    NoDup (map fst X) ->
    exists T,
      (exists l2,
         pruneEdges (sortK (fold_left (fun acc destroyed =>
                       moveDownPositions total' (Parent destroyed total') destroyed acc)
                       (rev (map (cpos R') D)) (map (cposh H R') X)))
                    k n' total' total = Some l2 /\
         (if total <? total' then remapDown n' total' total l2 else l2) = gr H F T) /\
      SSlt T /\
      (forall p, In p T <-> exists e c0 r0 o0, In e X /\ locc H HO s c0 r0 o0 /\
                                               liftc D (r0, o0) = fst e /\ p = cpos R (r0, o0)).
  Proof.
    intros HX Hnd.
    pose proof ua_R63' as HR63'. pose proof ua_RR as HRR. pose proof ua_len' as Elen.
    set (phi := fun e : coord * H => (unl Dr (fst e), snd e)).
    set (U := map phi X).
    rewrite <- ua_ER', <- ua_ER.
    assert (E1 : fold_left (fun acc destroyed =>
                    moveDownPositions (N.of_nat R') (Parent destroyed (N.of_nat R')) destroyed acc)
                    (rev (map (cpos R') D)) (map (cposh H R') X) = map (cposh H R') U).
    { rewrite <- map_rev, (ud_fold_map H (N.of_nat R') R' Dr). unfold U. rewrite !map_map.
      apply map_ext_in. intros e He.
      destruct (ua_class e (HX e He)) as (Hv & Hu & _).
      destruct (unl_bridge R' HR63' Dr (fst e) _ ua_HD Hv Hu) as [Eb _].
      unfold cposh, phi. cbn [fst snd]. rewrite Eb. reflexivity. }
    rewrite E1.
    destruct (Permutation_map_inv _ _ (RefTheory.sortK_perm (map (cposh H R') U))) as (U' & E2 & PU).
    assert (HvU' : forall e, In e U' -> cvalid R' (fst e)).
    { intros e He. apply (Permutation_in _ (Permutation_sym PU)) in He. unfold U in He.
      apply in_map_iff in He as (e0 & <- & He0). destruct (ua_class e0 (HX e0 He0)) as (_ & _ & Hv & _).
      exact Hv. }
    assert (Enk : n' - k = n) by lia.
    assert (Hk : k <= n') by lia.
    assert (HW : n' < W).
    { rewrite W_eq. assert (2 ^ 63 < 2 ^ 64) by (apply pow2_lt; lia). rewrite Elen. lia. }
    pose proof (ud_pruneEdges H R' R k n' HR63' HRR Hk HW ltac:(lia) ltac:(rewrite Enk; exact ua_n2R) U' HvU') as Epr.
    rewrite Enk in Epr.
    pose proof (eq_trans (f_equal (fun l => pruneEdges l k n' (N.of_nat R') (N.of_nat R)) E2) Epr) as Epr2.
    cbv beta in Epr2. clear Epr. rename Epr2 into Epr.
    set (Z := filter (fun e : coord * H => cinfb n (fst e)) U') in *.
    (* the members of [Z] are the old occurrences *)
    assert (ZX : forall e', In e' Z -> exists e c0 r0 o0, In e X /\ e' = ((r0, o0), snd e) /\
                   locc H HO s c0 r0 o0 /\ liftc D (r0, o0) = fst e /\ snd e = chash c0).
    { intros e' He'. apply filter_In in He' as [He' Hc].
      apply (Permutation_in _ (Permutation_sym PU)) in He'. unfold U in He'.
      apply in_map_iff in He' as (e & <- & He).
      destruct (ua_class e (HX e He)) as (_ & _ & _ & [Hf|(c0 & r0 & o0 & Hl0 & El & Eu & Eh)]).
      - unfold phi in Hc. cbn [fst] in Hc. congruence.
      - exists e, c0, r0, o0. unfold phi. rewrite Eu. auto. }
    assert (XZ : forall e c0 r0 o0, In e X -> locc H HO s c0 r0 o0 -> liftc D (r0, o0) = fst e ->
                   In ((r0, o0), snd e) Z).
    { intros e c0 r0 o0 He Hl0 El. apply filter_In. split.
      - apply (Permutation_in _ PU). unfold U. apply in_map_iff. exists e. split; [|exact He].
        unfold phi. f_equal. pose proof (unlift_adds H HO adds s Hb c0 r0 o0 Hl0) as Hu.
        rewrite El in Hu. exact (unl_to_fun _ _ _ Hu).
      - cbn [fst]. apply cinfb_spec. exact (ua_locc_cinf s c0 r0 o0 Hl0). }
    assert (HvZ : forall e, In e Z -> cvalid R (fst e)).
    { intros e' He'. destruct (ZX e' He') as (e & c0 & r0 & o0 & _ & -> & Hl0 & _). cbn [fst].
      exact (cinf_valid R n (r0, o0) ua_n2R (ua_locc_cinf s c0 r0 o0 Hl0)). }
    assert (Erm : (if N.of_nat R <? N.of_nat R'
                   then remapDown n' (N.of_nat R') (N.of_nat R) (map (cposh H R') Z)
                   else map (cposh H R') Z) = map (cposh H R) Z).
    { destruct (N.ltb_spec (N.of_nat R) (N.of_nat R')) as [Hlt|Hge].
      - exact (ud_remapDown H R' R n' HR63' HRR ua_ER' Z HvZ).
      - assert (ERR : R = R') by lia. rewrite <- ERR. reflexivity. }
    set (T := map (fun e : coord * H => cpos R (fst e)) Z).
    assert (GZ : graph H F (map (cposh H R) Z)).
    { intros e He. apply in_map_iff in He as (e' & <- & He').
      destruct (ZX e' He') as (e & c0 & r0 & o0 & _ & -> & Hl0 & _ & Eh). unfold cposh. cbn [fst snd].
      rewrite Eh. symmetry. exact (locc_val H HO s c0 r0 o0 Hl0). }
    assert (ET : map fst (map (cposh H R) Z) = T) by (unfold T; rewrite map_map; reflexivity).
    exists T. split; [|split].
    - exists (map (cposh H R') Z). split; [exact Epr|]. rewrite Erm, <- ET. exact (po_graph_eq H F _ GZ).
    - apply pps_SSle_NoDup_SSlt.
      + (* sorted: the order of the sort in the upper geometry *)
        assert (S1 : SSle (map (fun e : coord * H => cpos R' (fst e)) U')).
        { pose proof (pu_sortK_SSle H (map (cposh H R') U)) as Hs. rewrite E2, map_map in Hs. exact Hs. }
        pose proof (SS_map_filter (fun e : coord * H => cpos R' (fst e))
                      (fun e : coord * H => cinfb n (fst e)) U' S1) as S2. fold Z in S2.
        unfold T. rewrite <- (map_map fst (cpos R)). rewrite <- (map_map fst (cpos R')) in S2.
        apply (SSle_cpos_transfer R R' (map fst Z)); [lia|exact HR63'| |exact S2].
        intros z Hz. apply in_map_iff in Hz as (e & <- & He).
        split; [exact (HvZ e He)|exact (cvalid_mono R R' _ HRR (HvZ e He))].
      + (* distinct: the coordinates come from distinct elements of [X] *)
        assert (NX : NoDup X) by exact (NoDup_map_inv _ _ Hnd).
        set (p := fun e : coord * H => cinfb n (fst e)).
        assert (PF : Permutation (filter p U) Z) by (apply cc_filter_perm; exact PU).
        unfold U in PF. rewrite ud_filter_map in PF.
        set (Xg := filter (fun a => p (phi a)) X) in PF.
        assert (NT0 : NoDup (map (fun e : coord * H => cpos R (fst e)) (map phi Xg))).
        { rewrite map_map. apply RefTheory.NoDup_map_inj_on; [apply NoDup_filter; exact NX|].
          intros e1 e2 H1 H2 Ep.
          apply filter_In in H1 as [H1 G1]. apply filter_In in H2 as [H2 G2].
          assert (Hold : forall e, In e X -> p (phi e) = true ->
                    cvalid R (unl Dr (fst e)) /\ liftc D (unl Dr (fst e)) = fst e).
          { intros e He Hg.
            destruct (ua_class e (HX e He)) as (_ & _ & _ & [Hf|(c0 & r0 & o0 & Hl0 & El & Eu & _)]).
            - unfold p, phi in Hg. cbn [fst] in Hg. congruence.
            - rewrite Eu. split; [|exact El].
              exact (cinf_valid R n (r0, o0) ua_n2R (ua_locc_cinf s c0 r0 o0 Hl0)). }
          destruct (Hold e1 H1 G1) as [V1 L1]. destruct (Hold e2 H2 G2) as [V2 L2].
          unfold phi in Ep. cbn [fst] in Ep.
          apply (cpos_inj R _ _ ltac:(lia) V1 V2) in Ep.
          apply (ud_nodup_map_inj fst X Hnd e1 e2 H1 H2). rewrite <- L1, <- L2, Ep. reflexivity. }
        unfold T. eapply Permutation_NoDup; [|exact NT0]. apply Permutation_map. exact PF.
    - intros q. unfold T. rewrite in_map_iff. split.
      + intros (e' & <- & He'). destruct (ZX e' He') as (e & c0 & r0 & o0 & He & -> & Hl0 & El & _).
        exists e, c0, r0, o0. auto.
      + intros (e & c0 & r0 & o0 & He & Hl0 & El & ->).
        exists ((r0, o0), snd e). split; [reflexivity|exact (XZ e c0 r0 o0 He Hl0 El)].
  Qed.

  Variable C' : list H.
  Hypothesis HC' : NoDup C'.
  Variables (hC' : list H) (tC' : list N) (pC' : list H).
  Hypothesis E : exp_cached HO (mk_ctx HO s') C' = Some (hC', tC', pC').

  (** G1: [undoAdd] takes the cached proof of any set of leaves of the new state to the cached
      proof, in the old state, of those of them that the block did not add *)
  Theorem undoAdd_spec :
    undoAdd tC' pC' k n' hC' (to_destroy HO R' s adds)
    = exp_cached HO (mk_ctx HO s) (removeH HO C' adds) /\
    exp_cached HO (mk_ctx HO s) (removeH HO C' adds) <> None.
  Proof.
    pose proof ua_nd as Hnd. pose proof ua_R63' as HR63'. pose proof ua_len' as Elen.
    assert (Hn63 : n <= 2 ^ 63) by lia.
    assert (Hn63' : n' <= 2 ^ 63) by (rewrite Elen; lia).
    (* the cached set after the block *)
    unfold exp_cached in E. cbn [mk_ctx clay crows] in E.
    destruct (find_leaves HO lay' C') as [tsU|] eqn:FU; [|discriminate].
    fold (sort_nodes H s' tsU) in E. injection E as <- <- <-.
    destruct (cc_find_leaves_facts HO s' C' tsU HOK HC' FU) as (LU & FlU & NtU & EhU & InU).
    set (sortedU := sort_nodes H s' tsU).
    pose proof (po_sort_nodes_perm H s' tsU) as PsortU. fold sortedU in PsortU.
    assert (LSU : forall x, In x sortedU -> In x lay')
      by (intros x Hx; apply LU; exact (Permutation_in _ PsortU Hx)).
    assert (FlSU : forall x, In x sortedU -> nleaf x = true)
      by (intros x Hx; apply FlU; exact (Permutation_in _ PsortU Hx)).
    assert (NtSU : NoDup sortedU) by (exact (Permutation_NoDup (Permutation_sym PsortU) NtU)).
    assert (HhU : forall h, In h (map (@nhash H) sortedU) <-> In h C').
    { intros h. rewrite <- EhU. split; apply Permutation_in, Permutation_map;
        [exact PsortU|exact (Permutation_sym PsortU)]. }
    assert (HinU : forall y, In y lay' -> nleaf y = true -> In (nhash y) C' -> In y sortedU).
    { intros y Hy Hl Hh. apply (Permutation_in _ (Permutation_sym PsortU)). apply InU.
      exists (nhash y). split; [exact Hh|exact (find_leaf_of_node H HO HOK s' y Hnd' Hy Hl)]. }
    assert (HsTU : SSlt (map (npos R') sortedU)).
    { unfold sortedU. rewrite (po_sort_nodes_pos H HO s' tsU LU NtU).
      apply pps_sortN_NoDup_SSlt, (po_targets_NoDup H HO s' tsU LU NtU). }
    assert (Epp' : ProofPositions_fast (map (npos R') sortedU) n' total'
                   = (canon_proof_pos R' lay' sortedU, computable_pos R' lay' sortedU)).
    { rewrite <- (po_sortN_sorted_id _ HsTU) at 1. exact (po_pp_both_fast H HO s' Hn63' sortedU LSU FlSU NtSU). }
    pose proof (po_canon_pos_SSlt H HO s' Hn63' sortedU LSU) as HsPU.
    (* the expected cached set before the block *)
    set (C'' := removeH HO C' adds).
    assert (HC''in : forall h, In h C'' <-> In h C' /\ ~ In h adds) by (exact (removeH_In HOK C' adds)).
    assert (HC's' : forall h, In h C' -> In (Some h) s').
    { intros h Hh. apply HhU in Hh. apply in_map_iff in Hh as (y & <- & Hy).
      exact (layout_leaf_live H HO s' y (LSU y Hy) (FlSU y Hy)). }
    assert (HC''s : forall h, In h C'' -> In (Some h) s).
    { intros h Hh. apply HC''in in Hh as [Hh Hna]. apply HC's', (ag_in' H s adds) in Hh as [Hh|Hh]; [exact Hh|contradiction]. }
    assert (HC'' : NoDup C'') by (apply NoDup_filter; exact HC').
    destruct (po_find_leaves_some H HO s C'') as [tsC FC].
    { intros h Hh. destruct (proj1 (find_leaf_live H HO s h HOK) (HC''s h Hh)) as (x & Ex & _).
      exists x. exact Ex. }
    destruct (cc_find_leaves_facts HO s C'' tsC HOK HC'' FC) as (LC & FlC & NtC & EhC & InC).
    set (sorted := sort_nodes H s tsC).
    pose proof (po_sort_nodes_perm H s tsC) as Psort. fold sorted in Psort.
    assert (LS : forall x, In x sorted -> In x lay)
      by (intros x Hx; apply LC; exact (Permutation_in _ Psort Hx)).
    assert (FlS : forall x, In x sorted -> nleaf x = true)
      by (intros x Hx; apply FlC; exact (Permutation_in _ Psort Hx)).
    assert (NtS : NoDup sorted) by (exact (Permutation_NoDup (Permutation_sym Psort) NtC)).
    assert (HhS : forall h, In h (map (@nhash H) sorted) <-> In h C'').
    { intros h. rewrite <- EhC. split; apply Permutation_in, Permutation_map;
        [exact Psort|exact (Permutation_sym Psort)]. }
    assert (HinS : forall y, In y lay -> nleaf y = true -> In (nhash y) C'' -> In y sorted).
    { intros y Hy Hl Hh. apply (Permutation_in _ (Permutation_sym Psort)). apply InC.
      exists (nhash y). split; [exact Hh|exact (find_leaf_of_node H HO HOK s y Hnd Hy Hl)]. }
    assert (HsTS : SSlt (map (npos R) sorted)).
    { unfold sorted. rewrite (po_sort_nodes_pos H HO s tsC LC NtC).
      apply pps_sortN_NoDup_SSlt, (po_targets_NoDup H HO s tsC LC NtC). }
    set (needed := canon_proof_pos R lay sorted).
    assert (Epp : ProofPositions_fast (map (npos R) sorted) n total
                  = (needed, computable_pos R lay sorted)).
    { rewrite <- (po_sortN_sorted_id _ HsTS) at 1. exact (po_pp_both_fast H HO s Hn63 sorted LS FlS NtS). }
    pose proof (po_canon_pos_SSlt H HO s Hn63 sorted LS) as Hsn. fold needed in Hsn.
    unfold exp_cached. cbn [mk_ctx clay crows]. fold C''. rewrite FC.
    fold (sort_nodes H s tsC). fold sorted.
    split; [|discriminate].
    (* a leaf of the old forest in the new one *)
    assert (Hup : forall c0 r0 o0, locc H HO s c0 r0 o0 ->
              locc H HO s' c0 (fst (liftc D (r0, o0))) (snd (liftc D (r0, o0))))
      by exact (proj1 (lift_adds HO adds s Hb)).
    assert (Hhit : forall c0 r0 o0, locc H HO s c0 r0 o0 -> (hit H sortedU c0 <-> hit H sorted c0)).
    { intros c0 r0 o0 Hl0. split.
      - intros (y & Hy & Hyc).
        assert (Hc : In (nhash y) C'').
        { apply HC''in. split; [apply HhU; apply in_map, Hy|].
          intros Ha. exact (ag_fresh H s adds Hnd' _ Ha (locc_leaf_live H HO s c0 r0 o0 _ Hl0 Hyc)). }
        apply HhS in Hc. apply in_map_iff in Hc as (x & Ex & Hx).
        exists x. split; [exact Hx|]. rewrite Ex. exact Hyc.
      - intros (x & Hx & Hxc).
        assert (Hc : In (nhash x) C') by (apply (HC''in (nhash x)); apply HhS; apply in_map, Hx).
        apply HhU in Hc. apply in_map_iff in Hc as (y & Ey & Hy).
        exists y. split; [exact Hy|]. rewrite Ey. exact Hxc. }
    (* the targets as a list of coordinates *)
    set (XT := map (fun x : node H => ((nrow x, noff x), nhash x)) sortedU).
    assert (EzT : zip_hp (map (npos R') sortedU) (map (@nhash H) sortedU) = map (cposh H R') XT).
    { unfold XT. rewrite map_map, pu_zip_map. reflexivity. }
    assert (HXT : forall e, In e XT -> exists c0, locc H HO s' c0 (fst (fst e)) (snd (fst e)) /\ snd e = chash c0).
    { intros e He. unfold XT in He. apply in_map_iff in He as (x & <- & Hx). cbn [fst snd].
      destruct (node_locc H HO s' x (LSU x Hx) (FlSU x Hx)) as (k0 & lo & c & He & Ho & _).
      exists (CLeaf (nhash x)). split; [exists k0, lo, c; auto|reflexivity]. }
    assert (NdT : NoDup (map fst XT)).
    { unfold XT. rewrite map_map. cbn [fst].
      apply (RefTheory.NoDup_map_inj_on (fun x : node H => (nrow x, noff x))); [exact NtSU|].
      intros x y Hx Hy Exy. apply (RefTheory.layout_coord_inj H HO s' x y (LSU x Hx) (LSU y Hy)). exact Exy. }
    (* the proof positions as a list of coordinates *)
    set (SC := sort_coords R' (proof_coords lay' sortedU)).
    assert (ESC : canon_proof_pos R' lay' sortedU = map fst SC) by reflexivity.
    set (XP := map (fun e : N * (nat * N) => (snd e, F' (fst e))) SC).
    assert (EzP : gr H F' (map fst SC) = map (cposh H R') XP).
    { unfold gr, XP. rewrite !map_map. apply map_ext_in. intros e He.
      apply RefTheory.sort_coords_In in He as (c & _ & ->). reflexivity. }
    assert (HSCv : forall e, In e SC -> fst e = cpos R' (snd e) /\ cvalid R' (snd e)).
    { intros e He. apply RefTheory.sort_coords_In in He as (c & Hc & ->). cbn [fst snd].
      split; [reflexivity|].
      pose proof (po_is_node_vld H HO s' c (po_proof_coord_is_node H HO s' Hn63' sortedU LSU c Hc)) as [V1 V2].
      unfold cN in V1, V2. cbn [fst snd] in V1, V2. rewrite <- ua_ER' in V1, V2.
      split; [lia|exact V2]. }
    assert (Hlv : forall c0 r o, locc H HO s' c0 r o -> cvalid R' (r, o)).
    { intros c0 r o Hl. exact (cinf_valid R' n' (r, o) ua_n2R' (ua_locc_cinf s' c0 r o Hl)). }
    assert (HXP : forall e, In e XP -> exists c0, locc H HO s' c0 (fst (fst e)) (snd (fst e)) /\ snd e = chash c0).
    { intros e He. unfold XP in He. apply in_map_iff in He as (ec & <- & Hec). cbn [fst snd].
      destruct (HSCv ec Hec) as [Ep Hv].
      assert (Hp : In (fst ec) (canon_proof_pos R' lay' sortedU)) by (rewrite ESC; apply in_map, Hec).
      apply (canon_pos_occ H HO s' Hn63' Hnd' sortedU LSU FlSU) in Hp as (h & l & rr & r & o & Hlp & Hcase).
      destruct (locc_child H HO s' _ _ _ Hlp h l rr eq_refl) as (r1 & Er & Ll & Lr). injection Er as <-.
      destruct Hcase as [(_ & _ & Eq)|(_ & _ & Eq)].
      - assert (Ec : snd ec = (r, 2 * o + 1)).
        { apply (cpos_inj R' _ _ HR63' Hv (Hlv rr _ _ Lr)). rewrite <- Ep, Eq. reflexivity. }
        exists rr. rewrite Ec. cbn [fst snd]. split; [exact Lr|]. rewrite Eq. exact (locc_val H HO s' rr _ _ Lr).
      - assert (Ec : snd ec = (r, 2 * o)).
        { apply (cpos_inj R' _ _ HR63' Hv (Hlv l _ _ Ll)). rewrite <- Ep, Eq. reflexivity. }
        exists l. rewrite Ec. cbn [fst snd]. split; [exact Ll|]. rewrite Eq. exact (locc_val H HO s' l _ _ Ll). }
    assert (NdP : NoDup (map fst XP)).
    { unfold XP. rewrite map_map. cbn [fst].
      assert (Hn1 : NoDup (map fst SC)) by (apply pps_SSlt_NoDup; rewrite <- ESC; exact HsPU).
      assert (Hn2 : NoDup (map (cpos R') (map snd SC))).
      { replace (map (cpos R') (map snd SC)) with (map fst SC); [exact Hn1|].
        rewrite map_map. apply map_ext_in. intros e He. exact (proj1 (HSCv e He)). }
      exact (NoDup_map_inv _ _ Hn2). }
    destruct (ua_pipeline XT HXT NdT) as (T & HpT & HsT & MT).
    destruct (ua_pipeline XP HXP NdP) as (P & HpP & HsP & MP).
    (* the targets before the block *)
    assert (ET : T = map (npos R) sorted).
    { apply pps_SSlt_ext; [exact HsT|exact HsTS|]. intros p. rewrite MT. split.
      - intros (e & c0 & r0 & o0 & He & Hl0 & El & ->). unfold XT in He.
        apply in_map_iff in He as (y & <- & Hy). cbn [fst] in El.
        pose proof (Hup c0 r0 o0 Hl0) as Hu. rewrite El in Hu. cbn [fst snd] in Hu.
        destruct (node_locc H HO s' y (LSU y Hy) (FlSU y Hy)) as (k0 & lo & c & He & Ho & _).
        assert (Ec0 : c0 = CLeaf (nhash y)).
        { apply (locc_uniq H HO s' _ _ _ _ Hu). exists k0, lo, c. auto. }
        subst c0.
        destruct (locc_node H HO s _ _ _ Hl0) as (x & Hx & Xr & Xo & Xh & Xl). cbn [chash cleafb] in Xh, Xl.
        assert (Hc : In (nhash x) C'').
        { rewrite Xh. apply HC''in. split; [apply HhU; apply in_map, Hy|].
          intros Ha. apply (ag_fresh H s adds Hnd' _ Ha). rewrite <- Xh.
          exact (layout_leaf_live H HO s x Hx Xl). }
        apply in_map_iff. exists x. split; [|exact (HinS x Hx Xl Hc)].
        unfold npos, cpos. rewrite Xr, Xo. reflexivity.
      - intros Hp. apply in_map_iff in Hp as (x & <- & Hx).
        pose proof (LS x Hx) as Hxl. pose proof (FlS x Hx) as Xl.
        assert (Hh : In (nhash x) C') by (apply (HC''in (nhash x)); apply HhS; apply in_map, Hx).
        destruct (node_locc H HO s x Hxl Xl) as (k0 & lo & c & He & Ho & _).
        assert (Hl0 : locc H HO s (CLeaf (nhash x)) (nrow x) (noff x)) by (exists k0, lo, c; auto).
        destruct (locc_node H HO s' _ _ _ (Hup _ _ _ Hl0)) as (z & Hz & Zr & Zo & Zh & Zl).
        cbn [chash cleafb] in Zh, Zl.
        exists ((nrow z, noff z), nhash z), (CLeaf (nhash x)), (nrow x), (noff x).
        split; [|split; [exact Hl0|split; [|reflexivity]]].
        + unfold XT. apply in_map_iff. exists z. split; [reflexivity|].
          apply (HinU z Hz Zl). rewrite Zh. exact Hh.
        + cbn [fst]. rewrite Zr, Zo. apply surjective_pairing. }
    (* every needed proof position is among the positions that came back *)
    assert (Hsub : forall p, In p needed -> In p P).
    { intros p Hp.
      apply (canon_pos_occ H HO s Hn63 Hnd sorted LS FlS) in Hp as (h & l & rr & r & o & Hlp & Hcase).
      destruct (locc_child H HO s _ _ _ Hlp h l rr eq_refl) as (r1 & Er & Ll & Lr). injection Er as <-.
      pose proof (Hup _ _ _ Hlp) as Hlp'.
      destruct (liftc D (S r, o)) as [rp op] eqn:Elp. cbn [fst snd] in Hlp'.
      destruct (locc_child H HO s' _ _ _ Hlp' h l rr eq_refl) as (r1' & Er' & Ll' & Lr'). subst rp.
      assert (El : liftc D (r, 2 * o) = (r1', 2 * op)).
      { pose proof (Hup _ _ _ Ll) as Hu. rewrite (surjective_pairing (liftc D (r, 2 * o))).
        exact (locc_once HO s' l _ _ _ _ Hnd' Hu Ll'). }
      assert (Err : liftc D (r, 2 * o + 1) = (r1', 2 * op + 1)).
      { pose proof (Hup _ _ _ Lr) as Hu. rewrite (surjective_pairing (liftc D (r, 2 * o + 1))).
        exact (locc_once HO s' rr _ _ _ _ Hnd' Hu Lr'). }
      assert (Hgen : forall c0 o1 o1', locc H HO s c0 r o1 -> locc H HO s' c0 r1' o1' ->
                       liftc D (r, o1) = (r1', o1') ->
                       In (pos R' r1' o1') (canon_proof_pos R' lay' sortedU) ->
                       In (pos R r o1) P).
      { intros c0 o1 o1' Hl0 Hl0' Elift Hin. apply MP.
        rewrite ESC in Hin. apply in_map_iff in Hin as (ec & Eec & Hec).
        destruct (HSCv ec Hec) as [Ep Hv].
        assert (Ec : snd ec = (r1', o1')).
        { apply (cpos_inj R' _ _ HR63' Hv (Hlv c0 _ _ Hl0')). rewrite <- Ep, Eec. reflexivity. }
        exists (snd ec, F' (fst ec)), c0, r, o1.
        split; [unfold XP; apply in_map_iff; exists ec; auto|].
        split; [exact Hl0|]. split; [cbn [fst]; rewrite Ec; exact Elift|reflexivity]. }
      destruct Hcase as [(Hl & Hnr & ->)|(Hr & Hnl & ->)].
      - apply (Hgen rr _ _ Lr Lr' Err). apply (canon_pos_occ H HO s' Hn63' Hnd' sortedU LSU FlSU).
        exists h, l, rr, r1', op. split; [exact Hlp'|]. left.
        split; [apply (Hhit l _ _ Ll), Hl|]. split; [|reflexivity].
        intros Hx. apply Hnr. apply (Hhit rr _ _ Lr), Hx.
      - apply (Hgen l _ _ Ll Ll' El). apply (canon_pos_occ H HO s' Hn63' Hnd' sortedU LSU FlSU).
        exists h, l, rr, r1', op. split; [exact Hlp'|]. right.
        split; [apply (Hhit rr _ _ Lr), Hr|]. split; [|reflexivity].
        intros Hx. apply Hnl. apply (Hhit l _ _ Ll), Hx. }
    (* the mirror of [undoAdd] on these graphs *)
    rewrite (to_destroy_coords H HO R' adds s).
    rewrite (po_canon_hashes_Fv H HO s' Hn63' sortedU LSU).
    rewrite <- EzT in HpT. rewrite ESC in *. rewrite <- EzP in HpP.
    assert (Enk : n' - k = n) by lia.
    pose proof (ud_undoAdd_graph H F' F n' k (map (cpos R') D) (map (npos R') sortedU) (map fst SC)
                  (computable_pos R' lay' sortedU) (map (@nhash H) sortedU) T P needed
                  (computable_pos R lay sorted)) as G.
    rewrite Enk in G.
    assert (HW : n' < W).
    { rewrite W_eq. assert (2 ^ 63 < 2 ^ 64) by (apply pow2_lt; lia). lia. }
    specialize (G ltac:(lia) HW ltac:(lia) ltac:(rewrite !map_length; reflexivity) HsTU HsPU Epp' HpT HpP HsP).
    rewrite ET in G. specialize (G Epp (po_SSlt_SSle _ Hsn)).
    rewrite G. f_equal. f_equal; [f_equal|].
    - symmetry. exact (po_hashes_Fv H HO s sorted LS).
    - rewrite (po_canon_hashes_Fv H HO s Hn63 sorted LS). fold needed. f_equal.
      apply pps_SSlt_ext; [apply po_filter_SS; exact HsP|exact Hsn|].
      intros p. rewrite filter_In, RefTheory.memN_In. split; [tauto|].
      intros Hp. split; [exact (Hsub p Hp)|exact Hp].
  Qed.
End UndoAdd.


(** * 6. The block that created the accumulator; [Proof.Undo] for addition-only blocks *)

Section Shape.
  Variable H : Type.
  Variable HO : ops H.
  Hypothesis HOK : ops_ok HO.

  (** the shape of an expected cached proof *)
  Lemma cached_shape (t : slots H) (C' hC' : list H) (tC' : list N) (pC' : list H) :
    N.of_nat (length t) <= 2 ^ 63 -> NoDup (live t) -> NoDup C' ->
    exp_cached HO (mk_ctx HO t) C' = Some (hC', tC', pC') ->
    exists PP' comp',
      length tC' = length hC' /\ SSlt tC' /\
      ProofPositions_fast tC' (N.of_nat (length t)) (TreeRows (N.of_nat (length t))) = (PP', comp') /\
      pC' = map (Fv H HO t) PP' /\ (forall h, In h C' -> In (Some h) t).
  Proof.
    intros Hn63 Hnd HC' E.
    unfold exp_cached in E. cbn [mk_ctx clay crows] in E.
    destruct (find_leaves HO (layout HO t) C') as [tsU|] eqn:FU; [|discriminate].
    fold (sort_nodes H t tsU) in E. injection E as <- <- <-.
    destruct (cc_find_leaves_facts HO t C' tsU HOK HC' FU) as (LU & FlU & NtU & EhU & InU).
    set (sortedU := sort_nodes H t tsU).
    pose proof (po_sort_nodes_perm H t tsU) as PsortU. fold sortedU in PsortU.
    assert (LSU : forall x, In x sortedU -> In x (layout HO t))
      by (intros x Hx; apply LU; exact (Permutation_in _ PsortU Hx)).
    assert (FlSU : forall x, In x sortedU -> nleaf x = true)
      by (intros x Hx; apply FlU; exact (Permutation_in _ PsortU Hx)).
    assert (NtSU : NoDup sortedU) by (exact (Permutation_NoDup (Permutation_sym PsortU) NtU)).
    assert (HsTU : SSlt (map (npos (rows_of (num_leaves t))) sortedU)).
    { unfold sortedU. rewrite (po_sort_nodes_pos H HO t tsU LU NtU).
      apply pps_sortN_NoDup_SSlt, (po_targets_NoDup H HO t tsU LU NtU). }
    exists (canon_proof_pos (rows_of (num_leaves t)) (layout HO t) sortedU),
           (computable_pos (rows_of (num_leaves t)) (layout HO t) sortedU).
    split; [rewrite !map_length; reflexivity|]. split; [exact HsTU|]. split; [|split].
    - rewrite <- (po_sortN_sorted_id _ HsTU) at 1. exact (po_pp_both_fast H HO t Hn63 sortedU LSU FlSU NtSU).
    - exact (po_canon_hashes_Fv H HO t Hn63 sortedU LSU).
    - intros h Hh. rewrite <- EhU in Hh. apply in_map_iff in Hh as (y & <- & Hy).
      exact (layout_leaf_live H HO t y (LU y Hy) (FlU y Hy)).
  Qed.

  Lemma removeH_all (l dels : list H) : (forall h, In h l -> In h dels) -> removeH HO l dels = [].
  Proof.
    intros Hl. induction l as [|h l IH]; [reflexivity|]. unfold removeH. cbn [filter].
    rewrite (proj2 (memH_In H HO HOK h dels) (Hl h (or_introl eq_refl))). cbn [negb].
    apply IH. intros h' Hh'. apply Hl. right. exact Hh'.
  Qed.

  Lemma removeH_none (l dels : list H) : (forall h, In h l -> ~ In h dels) -> removeH HO l dels = l.
  Proof.
    intros Hl. induction l as [|h l IH]; [reflexivity|]. unfold removeH. cbn [filter].
    destruct (memH HO h dels) eqn:Em.
    - exfalso. apply (Hl h (or_introl eq_refl)). apply (memH_In H HO HOK). exact Em.
    - cbn [negb]. f_equal. apply IH. intros h' Hh'. apply Hl. right. exact Hh'.
  Qed.

  (** undoing the block that created the accumulator leaves nothing cached *)
  Theorem undoAdd_spec_empty (adds C' hC' : list H) (tC' : list N) (pC' : list H) (TD : list N) :
    N.of_nat (length adds) <= 2 ^ 63 -> NoDup adds -> NoDup C' ->
    exp_cached HO (mk_ctx HO (map Some adds)) C' = Some (hC', tC', pC') ->
    undoAdd tC' pC' (N.of_nat (length adds)) (N.of_nat (length (map Some adds))) hC' TD
    = exp_cached HO (mk_ctx HO []) (removeH HO C' adds) /\
    exp_cached HO (mk_ctx HO []) (removeH HO C' adds) <> None.
  Proof.
    intros Hb Hnd HC' E.
    destruct (cached_shape (map Some adds) C' hC' tC' pC') as (PP' & comp' & ElT & HsT & Epp & -> & Hin);
      try assumption.
    { rewrite map_length. exact Hb. }
    { rewrite live_map_some. exact Hnd. }
    rewrite removeH_all.
    2:{ intros h Hh. apply Hin in Hh. apply in_map_iff in Hh as (x & Ex & Hx). injection Ex as ->. exact Hx. }
    assert (Ee : exp_cached HO (mk_ctx HO []) [] = Some ([], [], [])) by reflexivity.
    rewrite Ee. split; [|discriminate].
    rewrite map_length in *.
    unfold undoAdd. rewrite (pu_toHP H tC' hC' ElT HsT).
    unfold positions at 1. rewrite (pu_zip_fst tC' hC' ElT), Epp.
    unfold toHashAndPos. rewrite map_length, Nat.eqb_refl. rewrite N.eqb_refl. reflexivity.
  Qed.
End Shape.

(** [undoAdd] on any forest, for any cached set of the new state *)
Theorem undoAdd_spec_any (H : Type) (HO : ops H) (HOK : ops_ok HO)
        (hash_nz : forall a b, NZ HO (op_hash2 HO a b)) (s : slots H) (adds : list H)
        (C' hC' : list H) (tC' : list N) (pC' : list H) :
  N.of_nat (length s + length adds) <= 2 ^ 63 ->
  NoDup (live (s ++ map Some adds)) ->
  NoDup C' ->
  exp_cached HO (mk_ctx HO (s ++ map Some adds)) C' = Some (hC', tC', pC') ->
  undoAdd tC' pC' (N.of_nat (length adds)) (N.of_nat (length (s ++ map Some adds))) hC'
          (to_destroy HO (rows_of (num_leaves (s ++ map Some adds))) s adds)
  = exp_cached HO (mk_ctx HO s) (removeH HO C' adds) /\
  exp_cached HO (mk_ctx HO s) (removeH HO C' adds) <> None.
Proof.
  intros Hb Hnd' HC' E. destruct s as [|x s0].
  - cbn [app] in *. apply (undoAdd_spec_empty H HO HOK adds C' hC' tC' pC'); try assumption.
    rewrite live_map_some in Hnd'. exact Hnd'.
  - apply (undoAdd_spec H HO HOK hash_nz (x :: s0) adds Hb Hnd'); try assumption.
    cbn [length]. lia.
Qed.

Section UndoAddOnly.
  Variable H : Type.
  Variable HO : ops H.
  Hypothesis HOK : ops_ok HO.
  Hypothesis hash_nz : forall a b, NZ HO (op_hash2 HO a b).
  Variable s : slots H.
  Variable adds : list H.
  Hypothesis Hb : N.of_nat (length s + length adds) <= 2 ^ 63.
  Hypothesis Hnd' : NoDup (live (s ++ map Some adds)).

  Variable C : list H.
  Variable rem : list N.
  Hypothesis HC : NoDup C.
  Hypothesis HCs : forall h, In h C -> In (Some h) s.

  Lemma ua_undo_set : cached_after_undo HO (cached_after HO C [] (pick adds rem)) adds = C.
  Proof.
    unfold cached_after_undo, cached_after.
    rewrite (removeH_none H HO HOK C []) by (intros h _ []).
    unfold removeH. rewrite filter_app. fold (removeH HO C adds). fold (removeH HO (pick adds rem) adds).
    rewrite (removeH_none H HO HOK C adds).
    2:{ intros h Hh Ha. exact (ag_fresh H s adds Hnd' h Ha (HCs h Hh)). }
    rewrite (removeH_all H HO HOK (pick adds rem) adds) by (intros h Hh; exact (pick_In adds rem h Hh)).
    apply app_nil_r.
  Qed.

  Lemma ua_after_nodup : NoDup (cached_after HO C [] (pick adds rem)).
  Proof.
    unfold cached_after. rewrite (removeH_none H HO HOK C []) by (intros h _ []).
    apply NoDup_app_intro; [exact HC|apply pick_from_NoDup, (ag_adds_nd H s adds Hnd')|].
    intros h Hh Hp. exact (ag_fresh H s adds Hnd' h (pick_In adds rem h Hp) (HCs h Hh)).
  Qed.

  (** G1: [Proof.Undo] for an addition-only block.  The client held the cached proof of [C] before
      the block and holds, after it, the one of [C] and the remembered additions; [Undo] with the
      block's data (the number of additions, the new number of leaves, no deletions, the empty roots
      the additions wrote over; the block proof is not looked at) returns the cached proof of [C] in
      the previous state. *)
  Theorem proof_undo_add_only (hC' : list H) (tC' : list N) (pC' : list H) (bt : list N) (bp : list H) :
    exp_cached HO (mk_ctx HO (apply_block HO s [] adds)) (cached_after HO C [] (pick adds rem))
    = Some (hC', tC', pC') ->
    proof_undo HO tC' pC' (N.of_nat (length adds)) (num_leaves (apply_block HO s [] adds)) [] [] hC'
               (ud_to_destroy (spec_update_data HO s [] adds)) bt bp
    = exp_cached HO (mk_ctx HO s)
                 (cached_after_undo HO (cached_after HO C [] (pick adds rem)) adds) /\
    cached_after_undo HO (cached_after HO C [] (pick adds rem)) adds = C /\
    exp_cached HO (mk_ctx HO s) C <> None.
  Proof.
    intros E. unfold spec_update_data, apply_block in *. cbn [ud_to_destroy].
    rewrite (pu_kill_nil H HO s) in *.
    destruct (undoAdd_spec_any H HO HOK hash_nz s adds _ hC' tC' pC' Hb Hnd' ua_after_nodup E) as [Eu Hne].
    fold (cached_after_undo HO (cached_after HO C [] (pick adds rem)) adds) in Eu, Hne.
    rewrite ua_undo_set in *. split; [|split; [reflexivity|exact Hne]].
    unfold proof_undo, num_leaves in *. rewrite Eu.
    destruct (exp_cached HO (mk_ctx HO s) C) as [[[a b] c]|]; [reflexivity|contradiction].
  Qed.
End UndoAddOnly.

Print Assumptions undoAdd_spec_any.
Print Assumptions proof_undo_add_only.

(** in the free hash algebra *)
Theorem proof_undo_add_only_term (s : slots term) (adds C : list term) (rem : list N)
        (hC' : list term) (tC' : list N) (pC' : list term) (bt : list N) (bp : list term) :
  N.of_nat (length s + length adds) <= 2 ^ 63 ->
  NoDup (live (s ++ map Some adds)) ->
  NoDup C -> (forall h, In h C -> In (Some h) s) ->
  exp_cached term_ops (mk_ctx term_ops (apply_block term_ops s [] adds))
             (cached_after term_ops C [] (pick adds rem)) = Some (hC', tC', pC') ->
  proof_undo term_ops tC' pC' (N.of_nat (length adds)) (num_leaves (apply_block term_ops s [] adds))
             [] [] hC' (ud_to_destroy (spec_update_data term_ops s [] adds)) bt bp
  = exp_cached term_ops (mk_ctx term_ops s) C /\
  exp_cached term_ops (mk_ctx term_ops s) C <> None.
Proof.
  intros Hb Hnd HC HCs E.
  destruct (proof_undo_add_only term term_ops term_ops_ok cs_term_hash_nz s adds Hb Hnd C rem HC HCs
              hC' tC' pC' bt bp E) as (E1 & E2 & E3).
  rewrite E2 in E1. auto.
Qed.
Print Assumptions proof_undo_add_only_term.

(** * 7. Any block: [Proof.Undo] is [undoDel] on the expected cached proof of the state between the
      deletions and the additions (G3 reduced to [undoDel]) *)

Section UndoBlock.
  Variable H : Type.
  Variable HO : ops H.
  Hypothesis HOK : ops_ok HO.
  Hypothesis hash_nz : forall a b, NZ HO (op_hash2 HO a b).
  Variable s : slots H.
  Variables dels adds : list H.
  Hypothesis Hb : N.of_nat (length s + length adds) <= 2 ^ 63.
  Hypothesis Hnd2 : NoDup (live (kill HO dels s ++ map Some adds)).
  Variable C : list H.
  Variable rem : list N.
  Hypothesis HC : NoDup C.
  Hypothesis HCs : forall h, In h C -> In (Some h) s.

  Lemma ub_kill_keep h : forall t : slots H, In (Some h) t -> ~ In h dels -> In (Some h) (kill HO dels t).
  Proof.
    induction t as [|o t IH]; intros Hin Hnd; [destruct Hin|]. rewrite kill_cons.
    destruct Hin as [->|Hin].
    - left. destruct (memH HO h dels) eqn:Em; [|reflexivity].
      exfalso. apply Hnd. apply (memH_In H HO HOK). exact Em.
    - right. exact (IH Hin Hnd).
  Qed.

  Lemma ub_kept_fresh h : In h (removeH HO C dels) -> ~ In h adds.
  Proof.
    intros Hh Ha. apply (removeH_In HOK) in Hh as [Hh Hnd].
    exact (ag_fresh H (kill HO dels s) adds Hnd2 h Ha (ub_kill_keep h s (HCs h Hh) Hnd)).
  Qed.

  Lemma ub_undo_set : cached_after_undo HO (cached_after HO C dels (pick adds rem)) adds = removeH HO C dels.
  Proof.
    unfold cached_after_undo, cached_after.
    unfold removeH at 1. rewrite filter_app.
    fold (removeH HO (removeH HO C dels) adds). fold (removeH HO (pick adds rem) adds).
    rewrite (removeH_none H HO HOK (removeH HO C dels) adds) by exact ub_kept_fresh.
    rewrite (removeH_all H HO HOK (pick adds rem) adds) by (intros h Hh; exact (pick_In adds rem h Hh)).
    apply app_nil_r.
  Qed.

  Lemma ub_after_nodup : NoDup (cached_after HO C dels (pick adds rem)).
  Proof.
    unfold cached_after.
    apply NoDup_app_intro; [apply NoDup_filter; exact HC
                           |apply pick_from_NoDup, (ag_adds_nd H (kill HO dels s) adds Hnd2)|].
    intros h Hh Hp. exact (ub_kept_fresh h Hh (pick_In adds rem h Hp)).
  Qed.

  (** G3, reduced: whatever the block, the first half of [Proof.Undo] hands [undoDel] the expected
      cached proof of the kept leaves in the state after the deletions *)
  Theorem proof_undo_reduction (hC' : list H) (tC' : list N) (pC' : list H)
          (dp bt : list N) (bp : list H) :
    exp_cached HO (mk_ctx HO (apply_block HO s dels adds)) (cached_after HO C dels (pick adds rem))
    = Some (hC', tC', pC') ->
    exists h1 t1 p1,
      exp_cached HO (mk_ctx HO (kill HO dels s)) (removeH HO C dels) = Some (h1, t1, p1) /\
      proof_undo HO tC' pC' (N.of_nat (length adds)) (num_leaves (apply_block HO s dels adds)) dp dels hC'
                 (ud_to_destroy (spec_update_data HO s dels adds)) bt bp
      = undoDel HO t1 p1 dp dels h1 bt bp (num_leaves s).
  Proof.
    intros E. unfold spec_update_data, apply_block in *. cbn [ud_to_destroy].
    assert (Hb1 : N.of_nat (length (kill HO dels s) + length adds) <= 2 ^ 63)
      by (rewrite length_kill; exact Hb).
    destruct (undoAdd_spec_any H HO HOK hash_nz (kill HO dels s) adds _ hC' tC' pC' Hb1 Hnd2 ub_after_nodup E)
      as [Eu Hne].
    fold (cached_after_undo HO (cached_after HO C dels (pick adds rem)) adds) in Eu, Hne.
    rewrite ub_undo_set in *.
    destruct (exp_cached HO (mk_ctx HO (kill HO dels s)) (removeH HO C dels)) as [[[h1 t1] p1]|];
      [|contradiction].
    exists h1, t1, p1. split; [reflexivity|].
    unfold proof_undo, num_leaves in *. rewrite Eu. f_equal.
    rewrite app_length, map_length, length_kill.
    rewrite sub64_small; [lia|lia|].
    rewrite W_eq. assert (2 ^ 63 < 2 ^ 64) by (apply pow2_lt; lia). lia.
  Qed.

  (** what remains of C08: [undoDel] takes the cached proof of the kept leaves from the state after
      the deletions back to the state before them *)
  Definition undoDel_spec : Prop :=
    forall h1 t1 p1 bt bp,
      exp_cached HO (mk_ctx HO (kill HO dels s)) (removeH HO C dels) = Some (h1, t1, p1) ->
      exp_prove HO (mk_ctx HO s) dels = Some (bt, bp) ->
      undoDel HO t1 p1 bt dels h1 bt bp (num_leaves s)
      = exp_cached HO (mk_ctx HO s) (removeH HO C dels).

  (** the statement of C08 for the block, from [undoDel_spec] *)
  Theorem proof_undo_block (hC' : list H) (tC' : list N) (pC' : list H) (bt : list N) (bp : list H) :
    undoDel_spec ->
    exp_cached HO (mk_ctx HO (apply_block HO s dels adds)) (cached_after HO C dels (pick adds rem))
    = Some (hC', tC', pC') ->
    exp_prove HO (mk_ctx HO s) dels = Some (bt, bp) ->
    proof_undo HO tC' pC' (N.of_nat (length adds)) (num_leaves (apply_block HO s dels adds)) bt dels hC'
               (ud_to_destroy (spec_update_data HO s dels adds)) bt bp
    = exp_cached HO (mk_ctx HO s)
                 (cached_after_undo HO (cached_after HO C dels (pick adds rem)) adds).
  Proof.
    intros Hspec E Ep. destruct (proof_undo_reduction hC' tC' pC' bt bt bp E) as (h1 & t1 & p1 & E1 & ->).
    rewrite ub_undo_set. exact (Hspec h1 t1 p1 bt bp E1 Ep).
  Qed.
End UndoBlock.

Print Assumptions proof_undo_reduction.
Print Assumptions proof_undo_block.

(** ** [undoDel_spec] as a boolean; small states with ANY additions *)

Section SpecB.
  Variable H : Type.
  Variable HO : ops H.
  Hypothesis HOK : ops_ok HO.

  Lemma list_eqb_eq {A} (eqb : A -> A -> bool) : (forall a b, eqb a b = true <-> a = b) ->
    forall l l' : list A, list_eqb eqb l l' = true -> l = l'.
  Proof.
    intros Hs. induction l as [|a l IH]; intros [|b l'] E; cbn [list_eqb] in E; try discriminate; [reflexivity|].
    apply andb_true_iff in E as [E1 E2]. apply Hs in E1. subst b. f_equal. exact (IH l' E2).
  Qed.

  Lemma pu_res_eqb_eq (a b : option (list H * list N * list H)) : pu_res_eqb H HO a b = true -> a = b.
  Proof.
    destruct a as [[[h t] p]|], b as [[[h' t'] p']|]; cbn [pu_res_eqb]; intros E; try discriminate; [|reflexivity].
    apply andb_true_iff in E as [E E3]. apply andb_true_iff in E as [E1 E2].
    apply (list_eqb_eq _ HOK) in E1, E3. apply (list_eqb_eq _ N.eqb_eq) in E2. subst. reflexivity.
  Qed.

  (** the statement about [undoDel] alone, decided *)
  Definition undoDel_specb (s : slots H) (C dels : list H) : bool :=
    match exp_cached HO (mk_ctx HO (kill HO dels s)) (removeH HO C dels),
          exp_prove HO (mk_ctx HO s) dels with
    | Some (h1, t1, p1), Some (bt, bp) =>
        pu_res_eqb H HO (undoDel HO t1 p1 bt dels h1 bt bp (num_leaves s))
                   (exp_cached HO (mk_ctx HO s) (removeH HO C dels))
    | _, _ => false
    end.

  Lemma undoDel_specb_ok s C dels : undoDel_specb s C dels = true -> undoDel_spec H HO s dels C.
  Proof.
    unfold undoDel_specb, undoDel_spec. intros E h1 t1 p1 bt bp E1 Ep. rewrite E1, Ep in E.
    exact (pu_res_eqb_eq _ _ E).
  Qed.

  (** without deletions [undoDel] returns its input *)
  Lemma undoDel_spec_nil s C : undoDel_spec H HO s [] C.
  Proof.
    unfold undoDel_spec. intros h1 t1 p1 bt bp E1 Ep.
    unfold exp_prove in Ep. cbn [mk_ctx clay crows find_leaves map] in Ep. injection Ep as <- _.
    rewrite (pu_kill_nil H HO s) in E1. rewrite E1. reflexivity.
  Qed.
End SpecB.

(** every state of [k] slots, every cached set and every deleted set of its live leaves *)
Definition ud_small (k : nat) : list (slots term * list term * list term) :=
  flat_map (fun s => flat_map (fun C => map (fun dels => (s, C, dels)) (pu_sublists (live s)))
                              (pu_sublists (live s))) (pu_states k 1).

Lemma ud_small_4 : forallb (fun c => let '(s, C, dels) := c in undoDel_specb term term_ops s C dels)
                           (ud_small 4) = true.
Proof. vm_compute. reflexivity. Qed.

(** C08 for [Proof.Undo] from the decided statement about [undoDel]: with [ud_small_4], on every
    state of four slots (dead slots, any cached set, any deleted set) with ANY additions (any number,
    any remembered subset) - the bounded computation covers [undoDel], the theorems
    [undoAdd_spec_any] / [proof_undo_block] cover the additions *)
Theorem proof_undo_block_b {H} (HO : ops H) : ops_ok HO -> (forall a b, NZ HO (op_hash2 HO a b)) ->
  forall (s : slots H) (C dels adds : list H) (rem : list N)
         (hC' : list H) (tC' : list N) (pC' : list H) (bt : list N) (bp : list H),
  undoDel_specb H HO s C dels = true ->
  N.of_nat (length s + length adds) <= 2 ^ 63 ->
  NoDup (live (kill HO dels s ++ map Some adds)) ->
  NoDup C -> (forall h, In h C -> In (Some h) s) ->
  exp_cached HO (mk_ctx HO (apply_block HO s dels adds))
             (cached_after HO C dels (pick adds rem)) = Some (hC', tC', pC') ->
  exp_prove HO (mk_ctx HO s) dels = Some (bt, bp) ->
  proof_undo HO tC' pC' (N.of_nat (length adds)) (num_leaves (apply_block HO s dels adds))
             bt dels hC' (ud_to_destroy (spec_update_data HO s dels adds)) bt bp
  = exp_cached HO (mk_ctx HO s)
               (cached_after_undo HO (cached_after HO C dels (pick adds rem)) adds).
Proof.
  intros HOK Hnz s C dels adds rem hC' tC' pC' bt bp Hspec Hb Hnd2 HC HCs E Ep.
  exact (proof_undo_block H HO HOK Hnz s dels adds Hb Hnd2 C rem HC HCs hC' tC' pC' bt bp
           (undoDel_specb_ok H HO HOK s C dels Hspec) E Ep).
Qed.
Print Assumptions proof_undo_block_b.

(** * 8. Towards [undoDel]: the loop over the cached targets

    [ud_targets] ("Look for the sibling in the cached targets") indexes the slice that its body
    re-sorts in place.  On a strictly sorted list whose moved positions only decrease and stay
    distinct, every element is nevertheless visited exactly once: the result is the sorted list of the
    moved elements ([ud_targets_spec]); the block target is recorded once per moved element. *)

Section ListGen.
  Context {X : Type}.
  Implicit Types l : list X.
  Lemma In_firstn l i (x : X) : In x (firstn i l) -> In x l.
  Proof. intros Hx. rewrite <- (firstn_skipn i l). apply in_or_app. left. exact Hx. Qed.
  Lemma In_skipn l i (x : X) : In x (skipn i l) -> In x l.
  Proof. intros Hx. rewrite <- (firstn_skipn i l). apply in_or_app. right. exact Hx. Qed.

  Lemma firstn_S_nth l i e : nth_error l i = Some e -> firstn (S i) l = firstn i l ++ [e].
  Proof.
    revert i. induction l as [|y l IH]; intros i Hn; [destruct i; discriminate|]. destruct i as [|i].
    - cbn in Hn. injection Hn as <-. reflexivity.
    - cbn [nth_error] in Hn. cbn [firstn app]. f_equal. exact (IH i Hn).
  Qed.

  Lemma skipn_nth l i e : nth_error l i = Some e -> skipn i l = e :: skipn (S i) l.
  Proof.
    revert i. induction l as [|y l IH]; intros i Hn; [destruct i; discriminate|]. destruct i as [|i].
    - cbn in Hn. injection Hn as <-. reflexivity.
    - cbn [nth_error] in Hn. cbn [skipn]. exact (IH i Hn).
  Qed.
End ListGen.

Section SortedNth.
  Context {A : Type}.
  Implicit Types l : list (N * A).

  Definition below (k : N) l : nat := length (filter (fun x : N * A => fst x <? k) l).

  Lemma below_perm k l l' : Permutation l l' -> below k l = below k l'.
  Proof. intros Hp. unfold below. apply Permutation_length, cc_filter_perm, Hp. Qed.

  Lemma below_app k l l' : below k (l ++ l') = (below k l + below k l')%nat.
  Proof. unfold below. rewrite filter_app, app_length. reflexivity. Qed.

  Lemma below_all k l : (forall x, In x l -> fst x < k) -> below k l = length l.
  Proof.
    intros Hl. unfold below. rewrite po_filter_all; [reflexivity|].
    intros x Hx. apply N.ltb_lt, Hl, Hx.
  Qed.

  Lemma below_none k l : (forall x, In x l -> k <= fst x) -> below k l = 0%nat.
  Proof.
    intros Hl. unfold below. induction l as [|x l IH]; [reflexivity|]. cbn [filter].
    destruct (N.ltb_spec (fst x) k) as [Hlt|_].
    - pose proof (Hl x (or_introl eq_refl)). lia.
    - apply IH. intros y Hy. apply Hl. right. exact Hy.
  Qed.

  (** in a strictly sorted list an element sits at the index that counts the smaller keys *)
  Lemma nth_error_sorted l : SSlt (map fst l) -> forall e, In e l ->
    nth_error l (below (fst e) l) = Some e.
  Proof.
    induction l as [|x l IH]; intros Hs e He; [destruct He|]. cbn [map] in Hs.
    destruct (po_SS_inv _ _ _ Hs) as [Hs' Hx]. unfold below. cbn [filter].
    destruct He as [<-|He].
    - rewrite N.ltb_irrefl. fold (below (fst x) l). rewrite below_none; [reflexivity|].
      intros y Hy. specialize (Hx (fst y) (in_map _ _ _ Hy)). lia.
    - pose proof (Hx (fst e) (in_map _ _ _ He)) as Hlt.
      destruct (N.ltb_spec (fst x) (fst e)) as [_|Hc]; [|lia]. cbn [length nth_error].
      exact (IH Hs' e He).
  Qed.

  Lemma SSlt_firstn_lt l i e : SSlt (map fst l) -> nth_error l i = Some e ->
    (forall x, In x (firstn i l) -> fst x < fst e) /\ (forall x, In x (skipn (S i) l) -> fst e < fst x).
  Proof.
    revert i. induction l as [|y l IH]; intros i Hs Hn; [destruct i; discriminate|]. cbn [map] in Hs.
    destruct (po_SS_inv _ _ _ Hs) as [Hs' Hy]. destruct i as [|i].
    - cbn [nth_error] in Hn. injection Hn as <-. cbn [firstn skipn]. split; [intros x []|].
      intros x Hx. apply Hy, in_map, Hx.
    - cbn [nth_error] in Hn. destruct (IH i Hs' Hn) as [I1 I2]. cbn [firstn skipn]. split; [|exact I2].
      intros x [<-|Hx]; [|exact (I1 x Hx)]. apply Hy, in_map. exact (nth_error_In _ _ Hn).
  Qed.

End SortedNth.

Section UdLoops.
  Variable H : Type.
  Variable HO : ops H.
  Local Notation hp := (hp H).
  Variables (bt : N) (bh : H) (sibPos n total : N).

  (** the test and the move of one iteration, on positions *)
  Definition ud_test (p : N) : bool :=
    (subtree_of p n =? subtree_of bt n) && (isAncestor sibPos p total || (sibPos =? p)).
  Definition ud_mv (p : N) : N := if ud_test p then calcPrevPosition p bt total else p.
  Definition ud_mve (e : hp) : hp := (ud_mv (fst e), snd e).

  Lemma set_pos_split (A B : list hp) e p : set_pos (length A) p (A ++ e :: B) = A ++ (p, snd e) :: B.
  Proof. induction A as [|a A IH]; [reflexivity|]. cbn [length app set_pos]. f_equal. exact IH. Qed.

  Variable orig : list hp.
  Hypothesis Hso : SSlt (map fst orig).
  Hypothesis Hlt : forall e, In e orig -> ud_test (fst e) = true -> ud_mv (fst e) < fst e.
  (** the positions stay distinct while the list is processed *)
  Hypothesis Hnd : forall i, NoDup (map fst (map ud_mve (firstn i orig) ++ skipn i orig)).

  Lemma ud_mv_le e : In e orig -> ud_mv (fst e) <= fst e.
  Proof.
    intros He. destruct (ud_test (fst e)) eqn:Et; [pose proof (Hlt e He Et); lia|].
    unfold ud_mv. rewrite Et. lia.
  Qed.

  (** the element under the cursor is the next unprocessed one *)
  Lemma ud_cursor (G tw : list hp) i (e : hp) : SSlt (map fst tw) ->
    Permutation tw (map ud_mve (firstn i orig) ++ skipn i orig ++ G) ->
    nth_error orig i = Some e -> (forall g, In g G -> fst e < fst g) ->
    @nth_error hp tw i = Some e.
  Proof.
    intros Hs Hp Hn HG.
    destruct (SSlt_firstn_lt orig i e Hso Hn) as [Hb Ha].
    assert (He : In e tw).
    { apply (Permutation_in _ (Permutation_sym Hp)), in_or_app. right. apply in_or_app. left.
      rewrite (skipn_nth orig i e Hn). left. reflexivity. }
    assert (Eb : below (fst e) tw = i).
    { rewrite (below_perm (fst e) _ _ Hp). rewrite (skipn_nth orig i e Hn), !below_app.
      rewrite below_all.
      2:{ intros x Hx. apply in_map_iff in Hx as (y & <- & Hy). cbn [ud_mve fst].
          pose proof (ud_mv_le y (In_firstn _ _ _ Hy)). pose proof (Hb y Hy). lia. }
      change (e :: skipn (S i) orig) with ([e] ++ skipn (S i) orig). rewrite below_app.
      rewrite (below_none (fst e) [e]) by (intros x [<-|[]]; lia).
      rewrite (below_none (fst e) (skipn (S i) orig)) by (intros x Hx; pose proof (Ha x Hx); lia).
      rewrite (below_none (fst e) G) by (intros x Hx; pose proof (HG x Hx); lia).
      rewrite map_length, firstn_length_le; [lia|].
      apply Nat.lt_le_incl, nth_error_Some. rewrite Hn. discriminate. }
    rewrite <- Eb. exact (nth_error_sorted tw Hs e He).
  Qed.

  (** one step of the permutation *)
  Lemma ud_step_perm (G tw : list hp) i e : Permutation tw (map ud_mve (firstn i orig) ++ skipn i orig ++ G) ->
    nth_error orig i = Some e -> nth_error tw i = Some e ->
    Permutation (set_pos i (ud_mv (fst e)) tw) (map ud_mve (firstn (S i) orig) ++ skipn (S i) orig ++ G).
  Proof.
    intros Hp Hn Ht.
    destruct (nth_error_split tw i Ht) as (A & B & -> & <-).
    rewrite set_pos_split. rewrite (skipn_nth orig _ e Hn) in Hp.
    rewrite (firstn_S_nth orig _ e Hn), map_app. cbn [map]. rewrite <- app_assoc. cbn [app].
    change (ud_mve e) with (ud_mv (fst e), snd e).
    apply Permutation_sym in Hp. cbn [app] in Hp.
    apply Permutation_sym. apply Permutation_elt.
    apply Permutation_app_inv in Hp. exact Hp.
  Qed.

  Lemma ud_targets_S_some k i (tw np : list hp) (e : hp) : @nth_error hp tw i = Some e ->
    ud_targets (S k) i tw np bt bh sibPos n total
    = if ud_test (fst e)
      then ud_targets k (S i) (sortK (set_pos i (ud_mv (fst e)) tw)) (sortK (np ++ [(bt, bh)]))
                      bt bh sibPos n total
      else ud_targets k (S i) tw np bt bh sibPos n total.
  Proof.
    intros Hn. cbn [ud_targets]. rewrite Hn. cbv iota. unfold ud_mv, ud_test.
    destruct (subtree_of (fst e) n =? subtree_of bt n); cbn [negb andb]; [|reflexivity].
    destruct (isAncestor sibPos (fst e) total || (sibPos =? fst e)); reflexivity.
  Qed.

  Lemma ud_targets_S_none k i (tw np : list hp) : @nth_error hp tw i = None ->
    ud_targets (S k) i tw np bt bh sibPos n total = (tw, np).
  Proof. intros Hn. cbn [ud_targets]. rewrite Hn. reflexivity. Qed.

  (** "Look for the sibling in the cached targets" *)
  Lemma ud_targets_spec : forall k i tw np, (length orig <= i + k)%nat -> (i <= length orig)%nat ->
    SSlt (map fst tw) -> Permutation tw (map ud_mve (firstn i orig) ++ skipn i orig) ->
    exists tw' np', ud_targets k i tw np bt bh sibPos n total = (tw', np') /\
      SSlt (map fst tw') /\ Permutation tw' (map ud_mve orig) /\
      (forall e, In e np' <-> In e np \/ (e = (bt, bh) /\ exists x, In x (skipn i orig) /\ ud_test (fst x) = true)).
  Proof.
    induction k as [|k IH]; intros i tw np Hk Hi Hs Hp.
    - assert (Ei : i = length orig) by lia. subst i. rewrite firstn_all, skipn_all, app_nil_r in Hp.
      exists tw, np. split; [reflexivity|]. split; [exact Hs|]. split; [exact Hp|].
      intros e. rewrite skipn_all. split; [auto|]. intros [He|(_ & x & [] & _)]. exact He.
    - destruct (nth_error orig i) as [e|] eqn:Hn.
      + assert (Ht : @nth_error hp tw i = Some e).
        { apply (ud_cursor [] tw i e Hs); [rewrite app_nil_r; exact Hp|exact Hn|intros g []]. }
        assert (Hstep : Permutation (set_pos i (ud_mv (fst e)) tw)
                          (map ud_mve (firstn (S i) orig) ++ skipn (S i) orig)).
        { pose proof (ud_step_perm [] tw i e ltac:(rewrite app_nil_r; exact Hp) Hn Ht) as Hq.
          rewrite app_nil_r in Hq. exact Hq. }
        assert (HSi : (S i <= length orig)%nat) by (apply nth_error_Some; rewrite Hn; discriminate).
        assert (Hskip : forall x, In x (skipn i orig) <-> x = e \/ In x (skipn (S i) orig)).
        { intros x. rewrite (skipn_nth orig i e Hn). cbn [In]. split; intros [A|B]; auto. }
        destruct (ud_test (fst e)) eqn:Et.
        * (* moved *)
          assert (Emv : calcPrevPosition (fst e) bt total = ud_mv (fst e)).
          { unfold ud_mv. rewrite Et. reflexivity. }
          destruct (IH (S i) (sortK (set_pos i (ud_mv (fst e)) tw)) (sortK (np ++ [(bt, bh)]))) as (tw' & np' & E & A & B & C).
          -- lia.
          -- exact HSi.
          -- apply cc_sortK_SSlt. eapply Permutation_NoDup; [|exact (Hnd (S i))].
             apply Permutation_map, Permutation_sym. exact Hstep.
          -- eapply Permutation_trans; [apply RefTheory.sortK_perm|exact Hstep].
          -- exists tw', np'. split; [|split; [exact A|split; [exact B|]]].
             ++ rewrite (ud_targets_S_some k i tw np e Ht), Et. exact E.
             ++ intros x. rewrite C, RefTheory.sortK_In, in_app_iff. cbn [In]. split.
                ** intros [[Hx|[<-|[]]]|(-> & y & Hy & Hty)]; [left; exact Hx| |].
                   --- right. split; [reflexivity|]. exists e. split; [apply Hskip; left; reflexivity|exact Et].
                   --- right. split; [reflexivity|]. exists y. split; [apply Hskip; right; exact Hy|exact Hty].
                ** intros [Hx|(-> & y & Hy & Hty)]; [left; left; exact Hx|]. left. right. left. reflexivity.
        * (* not moved *)
          assert (Emv : ud_mv (fst e) = fst e) by (unfold ud_mv; rewrite Et; reflexivity).
          assert (Hsame : set_pos i (ud_mv (fst e)) tw = tw).
          { destruct (nth_error_split tw i Ht) as (A & B & -> & <-). rewrite set_pos_split, Emv.
            destruct e; reflexivity. }
          rewrite Hsame in Hstep.
          destruct (IH (S i) tw np ltac:(lia) HSi Hs Hstep) as (tw' & np' & E & A & B & C).
          exists tw', np'. split; [|split; [exact A|split; [exact B|]]].
          -- rewrite (ud_targets_S_some k i tw np e Ht), Et. exact E.
          -- intros x. rewrite C. split.
             ++ intros [Hx|(-> & y & Hy & Hty)]; [left; exact Hx|]. right. split; [reflexivity|].
                exists y. split; [apply Hskip; right; exact Hy|exact Hty].
             ++ intros [Hx|(-> & y & Hy & Hty)]; [left; exact Hx|]. apply Hskip in Hy as [->|Hy]; [congruence|].
                right. split; [reflexivity|]. exists y. auto.
      + (* past the end *)
        assert (Hlen : (length orig <= i)%nat) by (apply nth_error_None; exact Hn).
        assert (Ei : i = length orig) by lia. subst i. rewrite firstn_all, skipn_all, app_nil_r in Hp.
        assert (Ht : @nth_error hp tw (length orig) = None).
        { apply nth_error_None. apply Nat.eq_le_incl.
          exact (eq_trans (Permutation_length Hp) (map_length ud_mve orig)). }
        exists tw, np. split; [exact (ud_targets_S_none k _ tw np Ht)|]. split; [exact Hs|]. split; [exact Hp|].
        intros e. rewrite skipn_all. split; [auto|]. intros [He|(_ & x & [] & _)]. exact He.
  Qed.
End UdLoops.

(** * 9. The full statement of C08 for [Proof.Undo], as an executable check (G0)

    [un_check s C dels adds rem]: [s] the state before the block, [C] the cached set before it,
    [dels] the deleted leaves, [adds] the added leaves, [rem] the indexes of the remembered additions.
    After the block the client holds [exp_cached (apply_block s dels adds) (cached_after C dels
    remembered)].  [Proof.Undo] is called as the harness calls it (harness/c07.go): the number of
    additions, the number of leaves AFTER the block, the positions ([exp_prove s dels], the targets of
    the block proof) and the hashes of the deleted leaves, the cached hashes, [to_destroy] of the
    block's update data, the block proof.  The check compares the mirror with
    [exp_cached s (cached_after_undo (cached_after C dels remembered) adds)] - the members of [C] the
    block did not delete. *)
Section Check.
  Variable H : Type.
  Variable HO : ops H.
  Definition un_set (C dels adds : list H) (rem : list N) : list H :=
    cached_after_undo HO (cached_after HO C dels (pick adds rem)) adds.
  Definition un_run (s : slots H) (C dels adds : list H) (rem : list N)
    : option (list H * list N * list H) :=
    let s' := apply_block HO s dels adds in
    match exp_cached HO (mk_ctx HO s') (cached_after HO C dels (pick adds rem)),
          exp_prove HO (mk_ctx HO s) dels with
    | Some (hC', tC', pC'), Some (bt, bp) =>
        proof_undo HO tC' pC' (N.of_nat (length adds)) (num_leaves s') bt dels hC'
                   (ud_to_destroy (spec_update_data HO s dels adds)) bt bp
    | _, _ => None
    end.
  Definition un_exp (s : slots H) (C dels adds : list H) (rem : list N) :=
    exp_cached HO (mk_ctx HO s) (un_set C dels adds rem).
  Definition un_check (s : slots H) (C dels adds : list H) (rem : list N) : bool :=
    match un_exp s C dels adds rem with
    | Some _ => pu_res_eqb H HO (un_run s C dels adds rem) (un_exp s C dels adds rem)
    | None => false
    end.
End Check.

(** the cases of [ProofUpdateSpec.pu_cases]: every state of [k] slots [Atom i] / dead, every cached
    set and every deleted set of live leaves, 0..[maxadd] fresh additions, every remembered subset *)
Definition un_failures (k maxadd : nat) :=
  flat_map (fun s =>
    filter (fun c => let '(s, C, dels, adds, rem) := c in negb (un_check term term_ops s C dels adds rem))
           (pu_cases maxadd s)) (pu_states k 1).

(** all 19,375 cases over four slots and up to four additions: no difference *)
Example un_g0_exhaustive_4 : un_failures 4 4 = [].
Proof. vm_compute. reflexivity. Qed.

(** larger histories (the ones of [ProofUpdateSpec.pu_g0_large]) *)
Example un_g0_large :
  forallb (fun c => let '(s, C, dels, adds, rem) := c in un_check term term_ops s C dels adds rem)
    [ (pu_s8, [Atom 1; Atom 13], [], map Atom [20; 21; 22], [0; 2]);
      (pu_s8, [Atom 1; Atom 3; Atom 13], [Atom 3], map Atom [20; 21; 22; 23], [1; 3]);
      (pu_s8, [Atom 9; Atom 10; Atom 4], [Atom 9; Atom 10], map Atom [20], [0]);
      (pu_s8, [Atom 1; Atom 3; Atom 4; Atom 9; Atom 10; Atom 13], [Atom 13; Atom 1], [], []);
      (pu_s8, [], [Atom 4; Atom 3], map Atom [20; 21; 22], [0; 1; 2]);
      (pu_s8, [Atom 3; Atom 4], [Atom 1], map Atom [20; 21; 22; 23; 24], []);
      (pu_s8, [Atom 13], [Atom 13], map Atom [20; 21; 22], [2]);
      (pu_s8, [Atom 1; Atom 9], [Atom 3; Atom 4; Atom 10], map Atom [20; 21; 22], [1]);
      (pu_s8 ++ [Some (Atom 14); Some (Atom 15); Some (Atom 16)], [Atom 16; Atom 1],
         [Atom 15], map Atom [20], [0]);
      (pu_s8 ++ [Some (Atom 14); Some (Atom 15); Some (Atom 16)], [Atom 14; Atom 15; Atom 16; Atom 9],
         [Atom 14; Atom 9; Atom 10], map Atom [20; 21; 22; 23; 24; 25], [0; 5]);
      (map (fun i => Some (Atom i)) (pu_seqN 1 16), map Atom [1; 2; 7; 16], map Atom [3; 4; 8; 15],
         map Atom [20; 21], [1]);
      (map (fun i => Some (Atom i)) (pu_seqN 1 16), map Atom [5; 6; 7; 8], map Atom [5; 6; 7],
         map Atom [20], [0]) ] = true.
Proof. vm_compute. reflexivity. Qed.

(** non-vacuity of G1: seven slots whose middle tree is dead (an empty root at row 1), three additions
    that write it over (7 -> 10 leaves, a new row), two of them remembered; [Undo] gives back the
    cached proof of the two old leaves *)
Example un_ex_add_only :
  to_destroy term_ops (rows_of (num_leaves (pu_ex_s2 ++ map Some pu_ex_adds2))) pu_ex_s2 pu_ex_adds2 = [18] /\
  exists hC' tC' pC',
    exp_cached term_ops (mk_ctx term_ops (apply_block term_ops pu_ex_s2 [] pu_ex_adds2))
               (cached_after term_ops [Atom 7; Atom 2] [] (pick pu_ex_adds2 [0; 2])) = Some (hC', tC', pC') /\
    tC' = [1; 9; 18; 19] /\
    proof_undo term_ops tC' pC' 3 (num_leaves (apply_block term_ops pu_ex_s2 [] pu_ex_adds2)) [] [] hC'
               (ud_to_destroy (spec_update_data term_ops pu_ex_s2 [] pu_ex_adds2)) [] []
    = exp_cached term_ops (mk_ctx term_ops pu_ex_s2) [Atom 7; Atom 2] /\
    exp_cached term_ops (mk_ctx term_ops pu_ex_s2) [Atom 7; Atom 2]
    = Some ([Atom 2; Atom 7], [1; 6], [Atom 1; Node (Atom 3) (Atom 4)]).
Proof.
  split; [vm_compute; reflexivity|].
  eexists _, _, _. split; [vm_compute; reflexivity|]. split; [reflexivity|].
  split; [|vm_compute; reflexivity].
  apply (proof_undo_add_only_term pu_ex_s2 pu_ex_adds2 [Atom 7; Atom 2] [0; 2]).
  - vm_compute. discriminate.
  - apply po_ex_nodup; reflexivity.
  - apply po_ex_nodup; reflexivity.
  - intros h [<-|[<-|[]]]; cbn; auto 10.
  - vm_compute. reflexivity.
Qed.

(** What remains for C08: [undoDel_spec] (section 7) for blocks with deletions - G2.  It needs
    (i) [deTwinHashAndPos] (the identity for regular deletions, [ProofUpdateDel.mfin_deTwin] on
    positions); (ii) the loops [ud_targets] / [ud_proof] of [ud_blocks]: on coordinates one
    iteration is [unlift1] of section 1 for every element in the tree of the target (the
    [DetectOffset] test is [ProofUpdateSpec.pu_same_subtree]), but the Go loops index a slice that the
    body re-sorts in place ([ud_targets]: done, [ud_targets_spec] of section 8 - the moved element only
    moves towards the front, so every element is visited once; the block target is appended to
    [newProofs] once per moved target, so that list has duplicates, which only the two-pointer walk
    of [getHashAndPosSubset] removes) and, in [ud_proof], write at the OLD index into the slice that
    [mergeSortedHashAndPos] has just replaced (the inserted parent position sorts behind every
    position below it, so the indexes of the positions still to be moved are unchanged; the hash
    stored with it is wrong whenever the moved position is not the sibling itself and is repaired
    by (iv)); (iii) the geometry: the un-lift over the deleted leaves in reverse order of the
    contraction of [prune] - the converse of [ProofUpdateDel.move_tree_multi], with
    [unlift1_lift1] as its step; (iv) [calculateHashes] of the block proof on the previous state
    ([CalcComplete]) to show that [ud_replace] and the final merge put the true previous hashes on
    the re-created positions, and (v) that the canonical proof positions of the kept leaves in the
    previous state are among: the un-lifted old proof positions, the deleted targets whose sibling
    subtree holds a kept leaf ([newProofs]), the nodes computed by the block proof.  With
    [proof_undo_block] the statement for whole blocks follows.  [un_check] covers all of it by
    computation on small histories, and [ud_small_4] + [proof_undo_block_b] for four-slot states
    with any additions. *)

