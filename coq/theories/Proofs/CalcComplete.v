(** Completeness (forward direction) of the verifier core [calculateHashes] (mirror
    [Model.Verify], repaired form [strict = true]).

    Pick a "valuation" [W : N -> H -> Prop] on claims (position, hash) that is closed under one
    hashing step in the forward direction: [W] of a position and [W] of its sibling give [W] of
    the parent position at [getNextHash] of the two hashes.  Feed [calculateHashes] with valid
    targets (all in the forest, pairwise distinct, none an ancestor of another) carrying [W]-hashes
    and with [W]-hashes of the canonical proof positions in ascending order (followed by anything).
    Then the hashing loop succeeds; every computed position is a target or an ancestor of a target
    and carries a [W]-hash; the reported candidates are [W]-hashes of the roots of the trees that
    contain targets, reported with the rows of those roots in ascending order.

    This is the dual of [Proofs.CalcSound]; the loop is analysed through [calc_step]/[calc_loop_S]
    of [Proofs.CalcTotal] and the coordinate calculus of [Proofs.ProofPosSpec]. *)
From Utreexo Require Import Model.Verify Proofs.UtilsGeom Proofs.UtilsGeom2 Proofs.CalcTotal
                            Proofs.CalcSound Spec.Geometry Proofs.ProofPosSpec Spec.Term.
From Utreexo Require Proofs.SpecBasics Proofs.RefTheory.
From Coq Require Import Lia ZifyN ZifyNat ZifyBool List Sorted Permutation PeanoNat.
Import ListNotations.
Open Scope N_scope.

Local Notation SSlt := (StronglySorted N.lt).

(** * 1. List helpers (prefixed [cc_]) *)

Lemma cc_SS_app_inv {A} (R : A -> A -> Prop) l1 l2 :
  StronglySorted R (l1 ++ l2) ->
  StronglySorted R l1 /\ StronglySorted R l2 /\ (forall x y, In x l1 -> In y l2 -> R x y).
Proof.
  induction l1 as [|a l1 IH]; intros HS.
  - split; [constructor|]. split; [exact HS|]. intros x y [].
  - cbn [app] in HS. inversion HS as [|a' l' Hl Ha]; subst.
    destruct (IH Hl) as (H1 & H2 & H3). rewrite Forall_forall in Ha.
    split.
    + constructor; [exact H1|]. apply Forall_forall. intros x Hx. apply Ha.
      apply in_or_app. left. exact Hx.
    + split; [exact H2|]. intros x y [<-|Hx] Hy.
      * apply Ha. apply in_or_app. right. exact Hy.
      * exact (H3 x y Hx Hy).
Qed.

Lemma cc_SS_cons_inv {A} (R : A -> A -> Prop) a l :
  StronglySorted R (a :: l) -> StronglySorted R l /\ (forall y, In y l -> R a y).
Proof.
  intros HS. inversion HS as [|a' l' Hl Ha]; subst. rewrite Forall_forall in Ha.
  split; assumption.
Qed.

Lemma cc_SS_snoc {A} (R : A -> A -> Prop) l a :
  StronglySorted R l -> (forall x, In x l -> R x a) -> StronglySorted R (l ++ [a]).
Proof.
  intros HS Ha. apply pps_SS_app; [exact HS|repeat constructor|].
  intros x y Hx [<-|[]]. exact (Ha x Hx).
Qed.

Lemma cc_SSlt_NoDup l : SSlt l -> NoDup l.
Proof. apply pps_SSlt_NoDup. Qed.

Lemma cc_in_map_fst {A B} (l : list (A * B)) x : In x (map fst l) <-> exists y, In (x, y) l.
Proof.
  rewrite in_map_iff. split.
  - intros ([a b] & E & Hin). cbn [fst] in E. subst a. exists b. exact Hin.
  - intros (y & Hin). exists (x, y). split; [reflexivity|exact Hin].
Qed.

Lemma cc_Forall2_app_inv_l {A B} (P : A -> B -> Prop) l1 l2 l :
  Forall2 P (l1 ++ l2) l ->
  exists m1 m2, l = m1 ++ m2 /\ Forall2 P l1 m1 /\ Forall2 P l2 m2.
Proof.
  revert l. induction l1 as [|a l1 IH]; intros l HF.
  - exists [], l. split; [reflexivity|]. split; [constructor|exact HF].
  - cbn [app] in HF. inversion HF as [|a' b l' m Hab Hrest]; subst.
    destruct (IH m Hrest) as (m1 & m2 & -> & H1 & H2).
    exists (b :: m1), m2. split; [reflexivity|]. split; [constructor; assumption|exact H2].
Qed.

Lemma cc_Forall2_snoc {A B} (P : A -> B -> Prop) l m a b :
  Forall2 P l m -> P a b -> Forall2 P (l ++ [a]) (m ++ [b]).
Proof.
  intros HF Hab. induction HF as [|x y l m Hxy HF IH]; cbn [app].
  - constructor; [exact Hab|constructor].
  - constructor; assumption.
Qed.

Lemma cc_filter_snoc {A} (f : A -> bool) l a :
  filter f (l ++ [a]) = filter f l ++ (if f a then [a] else []).
Proof.
  induction l as [|x l IH]; cbn [app filter]; [destruct (f a); reflexivity|].
  rewrite IH. destruct (f x); reflexivity.
Qed.

(** ** the stable sort by key *)

Lemma cc_ascK_SSle {A} (l : list (N * A)) : SpecBasics.ascK l -> StronglySorted N.le (map fst l).
Proof.
  induction 1 as [|x|x y l Hxy Hl IH]; cbn [map].
  - constructor.
  - repeat constructor.
  - cbn [map] in IH. constructor; [exact IH|].
    destruct (cc_SS_cons_inv _ _ _ IH) as [_ Hy].
    constructor; [exact Hxy|]. apply Forall_forall. intros z Hz. specialize (Hy z Hz). lia.
Qed.

Lemma cc_sortK_SSlt {A} (l : list (N * A)) : NoDup (map fst l) -> SSlt (map fst (sortK l)).
Proof.
  intros Hnd. apply pps_SSle_NoDup_SSlt.
  - apply cc_ascK_SSle. apply SpecBasics.sortK_asc.
  - eapply Permutation_NoDup; [|exact Hnd].
    apply Permutation_map, Permutation_sym, RefTheory.sortK_perm.
Qed.

Lemma cc_zip_hp_fst {H} : forall (ts : list N) (hs : list H),
  length hs = length ts -> map fst (zip_hp ts hs) = ts.
Proof.
  induction ts as [|t ts IH]; intros hs Hl; [reflexivity|].
  destruct hs as [|h hs]; [discriminate|]. cbn [zip_hp map fst]. f_equal.
  apply IH. cbn [length] in Hl. lia.
Qed.

Lemma cc_zip_hp_Forall2 {H} (P : N -> H -> Prop) : forall ts hs,
  Forall2 P ts hs -> Forall (fun e : N * H => P (fst e) (snd e)) (zip_hp ts hs).
Proof.
  intros ts hs HF. induction HF as [|t h ts hs Hth HF IH]; cbn [zip_hp]; [constructor|].
  constructor; [exact Hth|exact IH].
Qed.

(** ** [mergeSortedHashAndPos] of two strictly ascending lists *)

Section Merge.
  Variable H : Type.
  Local Notation hp := (hp H).

  Lemma cc_merge_in : forall fuel (a b : list hp) e,
    In e (merge_hp fuel a b) -> In e a \/ In e b.
  Proof.
    induction fuel as [|f IH]; intros a b e Hin; [destruct Hin|].
    cbn [merge_hp] in Hin. destruct a as [|x a]; [right; exact Hin|].
    destruct b as [|y b]; [left; exact Hin|].
    destruct (fst x <? fst y).
    - destruct Hin as [<-|Hin]; [left; left; reflexivity|].
      destruct (IH _ _ _ Hin) as [Ha|Hb]; [left; right; exact Ha|right; exact Hb].
    - destruct (fst y <? fst x).
      + destruct Hin as [<-|Hin]; [right; left; reflexivity|].
        destruct (IH _ _ _ Hin) as [Ha|Hb]; [left; exact Ha|right; right; exact Hb].
      + destruct Hin as [<-|Hin]; [left; left; reflexivity|].
        destruct (IH _ _ _ Hin) as [Ha|Hb]; [left; right; exact Ha|right; right; exact Hb].
  Qed.

  Lemma cc_merge_keys : forall fuel (a b : list hp),
    (length a + length b < fuel)%nat -> SSlt (map fst a) -> SSlt (map fst b) ->
    SSlt (map fst (merge_hp fuel a b)) /\
    (forall x, In x (map fst (merge_hp fuel a b)) <-> In x (map fst a) \/ In x (map fst b)).
  Proof.
    induction fuel as [|f IH]; intros a b Hf Ha Hb; [lia|].
    cbn [merge_hp]. destruct a as [|x a].
    { split; [exact Hb|]. intros z. cbn [map In]. tauto. }
    destruct b as [|y b].
    { split; [exact Ha|]. intros z. cbn [map In]. tauto. }
    cbn [map] in Ha, Hb.
    destruct (cc_SS_cons_inv _ _ _ Ha) as [Ha' Hxa].
    destruct (cc_SS_cons_inv _ _ _ Hb) as [Hb' Hyb].
    cbn [length] in Hf.
    destruct (N.ltb_spec (fst x) (fst y)) as [Hxy|Hxy].
    - destruct (IH a (y :: b) ltac:(cbn [length]; lia) Ha' Hb) as [IH1 IH2].
      cbn [map]. split.
      + constructor; [exact IH1|]. apply Forall_forall. intros z Hz. apply IH2 in Hz.
        destruct Hz as [Hz|Hz]; [exact (Hxa z Hz)|]. cbn [map In] in Hz.
        destruct Hz as [<-|Hz]; [exact Hxy|]. specialize (Hyb z Hz). lia.
      + intros z. cbn [In]. rewrite IH2. cbn [map In]. tauto.
    - destruct (N.ltb_spec (fst y) (fst x)) as [Hyx|Hyx].
      + destruct (IH (x :: a) b ltac:(cbn [length]; lia) Ha Hb') as [IH1 IH2].
        cbn [map]. split.
        * constructor; [exact IH1|]. apply Forall_forall. intros z Hz. apply IH2 in Hz.
          destruct Hz as [Hz|Hz]; [|exact (Hyb z Hz)]. cbn [map In] in Hz.
          destruct Hz as [<-|Hz]; [exact Hyx|]. specialize (Hxa z Hz). lia.
        * intros z. cbn [In]. rewrite IH2. cbn [map In]. tauto.
      + assert (Exy : fst x = fst y) by lia.
        destruct (IH a b ltac:(lia) Ha' Hb') as [IH1 IH2].
        cbn [map]. split.
        * constructor; [exact IH1|]. apply Forall_forall. intros z Hz. apply IH2 in Hz.
          destruct Hz as [Hz|Hz]; [exact (Hxa z Hz)|]. rewrite Exy. exact (Hyb z Hz).
        * intros z. cbn [In]. rewrite IH2. rewrite Exy. tauto.
  Qed.

  Lemma cc_mergeSorted_spec (a b : list hp) :
    SSlt (map fst a) -> SSlt (map fst b) ->
    SSlt (map fst (mergeSortedHashAndPos a b)) /\
    (forall x, In x (map fst (mergeSortedHashAndPos a b)) <-> In x (map fst a) \/ In x (map fst b)) /\
    (forall e, In e (mergeSortedHashAndPos a b) -> In e a \/ In e b).
  Proof.
    intros Ha Hb. unfold mergeSortedHashAndPos.
    destruct (cc_merge_keys (S (length a + length b)) a b ltac:(lia) Ha Hb) as [H1 H2].
    split; [exact H1|]. split; [exact H2|]. intros e. apply cc_merge_in.
  Qed.
End Merge.

(** * 2. Geometry: the row loop on a position of the forest *)

Section Geo.
  Variables n total : N.
  Hypothesis Ht63 : total <= 63.
  Hypothesis Hnle : n <= 2 ^ total.

  Local Notation g := (g total).
  Local Notation inf := (inf n).
  Local Notation vld := (vld total).
  Local Notation mp := (mpos n total).

  (** a position of the forest does not exceed the maximal position of its row *)
  Lemma cc_mpos_ge c : inf c -> g c <= mp (fst c).
  Proof.
    intros Hc. pose proof (pps_inf_vld n total Hnle c Hc) as [Hr Ho].
    rewrite ct_mpos_eq by assumption.
    apply pps_in_forest_iff in Hc. unfold ProofPosSpec.g, UtilsGeom.gpos. lia.
  Qed.

  (** ... and lies above the maximal position of every lower row *)
  Lemma cc_mpos_lt c r : vld c -> r < fst c -> mp r < g c.
  Proof.
    intros [Hr Ho] Hlt. rewrite ct_mpos_eq by (try assumption; lia).
    pose proof (ct_div_pow2_le n total r Hnle ltac:(lia)) as Hq.
    pose proof (pow2_pos (total - r)) as Hpos.
    pose proof (gpos_row_mono total r (2 ^ (total - r) - 1) (fst c) (snd c) Hlt Hr ltac:(lia)) as Hm.
    unfold ProofPosSpec.g. unfold UtilsGeom.gpos at 1 in Hm. lia.
  Qed.

  Lemma cc_row_loop c : inf c -> forall fuel cr, cr <= fst c ->
    (N.to_nat (fst c - cr) < fuel)%nat ->
    row_loop true fuel (g c) cr total n = Some (Some (fst c)).
  Proof.
    intros Hc. pose proof (pps_inf_vld n total Hnle c Hc) as Hv. pose proof Hv as [Hr Ho].
    induction fuel as [|f IH]; intros cr Hcr Hf; [lia|].
    cbn [row_loop]. change (fst (maxPositionAtRow cr total n)) with (mp cr).
    destruct (N.ltb_spec (mp cr) (g c)) as [Hlt|Hge].
    - assert (Hne : cr <> fst c).
      { intros ->. pose proof (cc_mpos_ge c Hc). lia. }
      rewrite ct_add8_small by lia. cbn [andb].
      destruct (N.ltb_spec total (cr + 1)) as [Hend|_]; [lia|].
      apply IH; lia.
    - destruct (N.eq_dec cr (fst c)) as [->|Hne]; [reflexivity|].
      pose proof (cc_mpos_lt c cr Hv ltac:(lia)). lia.
  Qed.

  Hypothesis Htotal : total = TreeRows n.

  Lemma cc_isRoot c : inf c -> isRootPositionOnRow (g c) n (fst c) = is_root_c n c.
  Proof.
    intros Hc. assert (Hn63 : n <= 2 ^ 63).
    { pose proof (pow2_le total 63 Ht63). lia. }
    pose proof (pps_t_root n total Ht63 Hnle c Hc) as E.
    unfold isRootPositionOnRowTotalRows in E. rewrite <- Htotal, N.eqb_refl in E. exact E.
  Qed.

  Lemma cc_isLeft c : fst c <= total -> isLeftNiece (g c) = N.even (snd c).
  Proof. intros Hr. apply isLeftNiece_gpos. exact Hr. Qed.
End Geo.

(** * 3. Coordinate arithmetic of siblings *)

Lemma cc_g_same_row h c c' : fst c = fst c' -> (g h c < g h c' <-> snd c < snd c').
Proof. intros E. unfold ProofPosSpec.g, UtilsGeom.gpos. rewrite E. lia. Qed.

Lemma cc_sib_neq c : sib c <> c.
Proof.
  destruct c as [r o]. unfold sib. cbn [fst snd]. intros E. injection E as E.
  destruct (pps_bit0 o) as [k [(E1 & E2 & _)|(E1 & E2 & _)]]; lia.
Qed.

Lemma cc_sib_gt h c : g h c < g h (sib c) ->
  rsib c = sib c /\ g h (sib c) = g h c + 1 /\ N.even (snd c) = true.
Proof.
  intros Hlt. destruct c as [r o].
  apply (cc_g_same_row h (r, o) (sib (r, o)) eq_refl) in Hlt.
  unfold rsib, sib, ProofPosSpec.g, UtilsGeom.gpos in *. cbn [fst snd] in *.
  destruct (pps_bit0 o) as [k [(E1 & E2 & E3 & _)|(E1 & E2 & E3 & _)]].
  - rewrite E2, E3. split; [reflexivity|]. split; [lia|].
    rewrite E1. rewrite N.even_mul. reflexivity.
  - lia.
Qed.

Lemma cc_rsib_cases c : rsib c = c \/ rsib c = sib c.
Proof.
  destruct c as [r o]. unfold rsib, sib. cbn [fst snd].
  destruct (pps_bit0 o) as [k [(E1 & E2 & E3 & _)|(E1 & E2 & E3 & _)]].
  - right. rewrite E2, E3. reflexivity.
  - left. rewrite E3, <- E1. reflexivity.
Qed.

Lemma cc_sib_row c : fst (sib c) = fst c. Proof. reflexivity. Qed.
Lemma cc_par_row c : fst (par c) = fst c + 1. Proof. reflexivity. Qed.

(** the head of a strictly ascending list of keys is its least key *)
Lemma cc_head_least {A} (x : N * A) l v :
  SSlt (map fst (x :: l)) -> In v (map fst (x :: l)) ->
  (forall z, In z (map fst (x :: l)) -> v <= z) -> fst x = v.
Proof.
  intros HS Hv Hle. cbn [map] in *. destruct (cc_SS_cons_inv _ _ _ HS) as [_ Hx].
  destruct Hv as [E|Hv]; [exact E|].
  specialize (Hx v Hv). specialize (Hle (fst x) (or_introl eq_refl)). lia.
Qed.

(** * 4. The loop *)

Section CalcComplete.
  Variable H : Type.
  Variable HO : ops H.
  Variable W : N -> H -> Prop.
  Variables n total : N.
  Hypothesis Htotal : total = TreeRows n.
  Hypothesis Hn63 : n <= 2 ^ 63.

  Local Notation g := (g total).
  Local Notation inf := (inf n).
  Local Notation vld := (vld total).
  Local Notation isroot := (is_root_c n).
  Local Notation clt := (clt total).
  Local Notation hp := (hp H).

  Lemma cc_t63 : total <= 63.
  Proof. rewrite Htotal. apply TreeRows_le_63. exact Hn63. Qed.

  Lemma cc_nle : n <= 2 ^ total.
  Proof. rewrite Htotal. apply TreeRows_upper. Qed.

  Variables T anc : list crd.
  Local Notation K := (T ++ anc).
  Hypothesis HK1 : forall c, In c K -> inf c.
  Hypothesis HK2 : forall c, In c K -> isroot c = false -> In (par c) anc.
  Hypothesis HK3 : forall c, In c anc -> exists c', In c' K /\ isroot c' = false /\ c = par c'.
  Hypothesis HK4 : forall c, In c T -> ~ In c anc.

  Lemma cc_K_vld c : In c K -> vld c.
  Proof. intros Hc. exact (pps_inf_vld n total cc_nle c (HK1 c Hc)). Qed.

  Lemma cc_g_inj c c' : In c K -> In c' K -> g c = g c' -> c = c'.
  Proof. intros Hc Hc'. apply pps_g_inj; apply cc_K_vld; assumption. Qed.

  Lemma cc_par_gt c : In c K -> isroot c = false -> g c < g (par c).
  Proof.
    intros Hc Hr. apply pps_g_row_lt.
    - exact (cc_K_vld c Hc).
    - apply (pps_inf_vld n total cc_nle). exact (pps_par_inf n c (HK1 c Hc) Hr).
    - cbn [par fst]. lia.
  Qed.

  Lemma cc_sib_nonroot c : In c K -> In (sib c) K -> isroot c = false.
  Proof.
    intros Hc Hs. destruct (isroot c) eqn:E; [|reflexivity].
    exfalso. exact (pps_root_sib n c (HK1 c Hc) E (HK1 _ Hs)).
  Qed.

  (** the parents of two pending positions ascend with the positions *)
  Lemma cc_par_mono c c' : In c K -> In c' K -> isroot c = false -> isroot c' = false ->
    g c < g c' -> c' <> sib c -> g (par c) < g (par c').
  Proof.
    intros Hc Hc' Hr Hr' Hlt Hns.
    pose proof (pps_g_lt_row n total cc_t63 cc_nle c c' (cc_K_vld c Hc) (cc_K_vld c' Hc') Hlt) as Hrow.
    destruct (N.eq_dec (fst c) (fst c')) as [E|E].
    - exact (proj2 (pps_pair_order n total cc_t63 cc_nle c c' E Hlt Hns)).
    - apply pps_g_row_lt.
      + apply (pps_inf_vld n total cc_nle). exact (pps_par_inf n c (HK1 c Hc) Hr).
      + apply (pps_inf_vld n total cc_nle). exact (pps_par_inf n c' (HK1 c' Hc') Hr').
      + cbn [par fst]. lia.
  Qed.

  (** a queue entry: the position of a member of [P] that also belongs to [S] *)
  Definition posin (P S : list crd) (e : hp) : Prop :=
    exists c, In c P /\ In c S /\ fst e = g c.

  Lemma posin_mono (P P' S : list crd) e :
    (forall c, In c P -> In c P') -> posin P S e -> posin P' S e.
  Proof. intros Hsub (c & H1 & H2 & H3). exists c. split; [apply Hsub; exact H1|]. split; assumption. Qed.

  Lemma posin_Forall_mono (P P' S : list crd) l :
    (forall c, In c P -> In c P') -> Forall (posin P S) l -> Forall (posin P' S) l.
  Proof.
    intros Hsub HF. eapply Forall_impl; [|exact HF]. intros e. apply posin_mono. exact Hsub.
  Qed.

  (** ** popping the least pending position *)
  Lemma cc_pop_head q rest (tp np : list hp) :
    StronglySorted clt (q :: rest) -> (forall c, In c (q :: rest) -> In c K) ->
    SSlt (map fst tp) -> SSlt (map fst np) ->
    Forall (posin (q :: rest) T) tp -> Forall (posin (q :: rest) anc) np ->
    (In q T -> In (g q) (map fst tp)) -> (In q anc -> In (g q) (map fst np)) ->
    exists h tp1 np1, pop H tp np = Some (g q, h, tp1, np1) /\
      ((tp = (g q, h) :: tp1 /\ np1 = np /\ In q T) \/
       (np = (g q, h) :: np1 /\ tp1 = tp /\ In q anc)) /\
      Forall (posin rest T) tp1 /\ Forall (posin rest anc) np1.
  Proof.
    intros HS HPK Htp Hnp HtpP HnpP HqT Hqa.
    destruct (cc_SS_cons_inv _ _ _ HS) as [HSr Hqlt].
    assert (HqK : In q K) by (apply HPK; left; reflexivity).
    (* every queued position is at least [g q]; equality identifies [q] *)
    assert (Hge : forall S e, posin (q :: rest) S e -> g q <= fst e).
    { intros S e (c & [<-|Hc] & _ & ->); [lia|]. specialize (Hqlt c Hc). unfold ProofPosSpec.clt in Hqlt. lia. }
    assert (Hshrink : forall S e, posin (q :: rest) S e -> g q < fst e -> posin rest S e).
    { intros S e (c & [<-|Hc] & HcS & E) Hlt; [lia|]. exists c. repeat split; assumption. }
    assert (Heq : forall S e, posin (q :: rest) S e -> fst e = g q -> In q S).
    { intros S e (c & Hc & HcS & E) E2. rewrite E in E2.
      apply cc_g_inj in E2; [subst c; exact HcS|apply HPK; exact Hc|exact HqK]. }
    rewrite Forall_forall in HtpP, HnpP.
    assert (HtailT : forall x l, tp = x :: l -> fst x = g q -> Forall (posin rest T) l).
    { intros x l -> Ex. apply Forall_forall. intros e He.
      apply Hshrink; [apply HtpP; right; exact He|].
      cbn [map] in Htp. destruct (cc_SS_cons_inv _ _ _ Htp) as [_ Hx].
      specialize (Hx (fst e) (in_map fst _ _ He)). lia. }
    assert (HtailA : forall y l, np = y :: l -> fst y = g q -> Forall (posin rest anc) l).
    { intros y l -> Ey. apply Forall_forall. intros e He.
      apply Hshrink; [apply HnpP; right; exact He|].
      cbn [map] in Hnp. destruct (cc_SS_cons_inv _ _ _ Hnp) as [_ Hy].
      specialize (Hy (fst e) (in_map fst _ _ He)). lia. }
    apply in_app_or in HqK. destruct HqK as [HqT'|Hqa'].
    - (* [q] is a target: it heads the first queue *)
      pose proof (HqT HqT') as Hin.
      destruct tp as [|x tp']; [destruct Hin|].
      assert (Ex : fst x = g q).
      { apply (cc_head_least x tp' (g q) Htp Hin). intros z Hz.
        apply in_map_iff in Hz. destruct Hz as (e & <- & He). exact (Hge T e (HtpP e He)). }
      assert (Hnq : forall e, In e np -> g q < fst e).
      { intros e He. pose proof (Hge anc e (HnpP e He)) as Hle.
        destruct (N.eq_dec (fst e) (g q)) as [E|E]; [|lia].
        exfalso. exact (HK4 q HqT' (Heq anc e (HnpP e He) E)). }
      assert (HnpR : Forall (posin rest anc) np).
      { apply Forall_forall. intros e He. apply Hshrink; [apply HnpP; exact He|apply Hnq; exact He]. }
      exists (snd x), tp', np. split.
      + unfold pop. destruct np as [|y np']; [rewrite Ex; reflexivity|].
        specialize (Hnq y (or_introl eq_refl)).
        destruct (N.ltb_spec (fst x) (fst y)) as [_|Hc]; [rewrite Ex; reflexivity|lia].
      + split; [left; split; [|split; [reflexivity|exact HqT']]|].
        * rewrite <- Ex. destruct x; reflexivity.
        * split; [exact (HtailT x tp' eq_refl Ex)|exact HnpR].
    - (* [q] is a computed position: it heads the second queue *)
      pose proof (Hqa Hqa') as Hin.
      destruct np as [|y np']; [destruct Hin|].
      assert (Ey : fst y = g q).
      { apply (cc_head_least y np' (g q) Hnp Hin). intros z Hz.
        apply in_map_iff in Hz. destruct Hz as (e & <- & He). exact (Hge anc e (HnpP e He)). }
      assert (Hnq : forall e, In e tp -> g q < fst e).
      { intros e He. pose proof (Hge T e (HtpP e He)) as Hle.
        destruct (N.eq_dec (fst e) (g q)) as [E|E]; [|lia].
        exfalso. exact (HK4 q (Heq T e (HtpP e He) E) Hqa'). }
      assert (HtpR : Forall (posin rest T) tp).
      { apply Forall_forall. intros e He. apply Hshrink; [apply HtpP; exact He|apply Hnq; exact He]. }
      exists (snd y), tp, np'. split.
      + unfold pop. destruct tp as [|x tp']; [rewrite Ey; reflexivity|].
        specialize (Hnq x (or_introl eq_refl)).
        destruct (N.ltb_spec (fst x) (fst y)) as [Hc|_]; [lia|rewrite Ey; reflexivity].
      + split; [right; split; [|split; [reflexivity|exact Hqa']]|].
        * rewrite <- Ey. destruct y; reflexivity.
        * split; [exact HtpR|exact (HtailA y np' eq_refl Ey)].
  Qed.

  (** ** the fixed data of a run *)
  Hypothesis W_step : forall c h hs, In c K -> isroot c = false ->
    W (g c) h -> W (g (sib c)) hs -> W (g (par c)) (getNextHash HO (g c) h hs).

  Variable Ks : list crd.
  Hypothesis HKs_sorted : StronglySorted clt Ks.
  Hypothesis HKs_mem : forall c, In c Ks <-> In c K.

  Variable PPs : list crd.
  Hypothesis HPP_sorted : StronglySorted clt PPs.
  Hypothesis HPP_mem : forall s, In s PPs <->
    exists c, In c K /\ isroot c = false /\ ~ In (sib c) K /\ s = sib c.

  Variable tp_all : list hp.
  Hypothesis Htp_sorted : SSlt (map fst tp_all).
  Hypothesis Htp_mem : forall x, In x (map fst tp_all) <-> In x (map g T).
  Hypothesis Htp_W : Forall (fun e : hp => W (fst e) (snd e)) tp_all.

  Variables ws extra : list H.
  Hypothesis Hws : Forall2 (fun s w => W (g s) w) PPs ws.

  Lemma cc_clt_NoDup l : StronglySorted clt l -> NoDup l.
  Proof.
    intros HS. apply pps_clt_map in HS. apply cc_SSlt_NoDup in HS.
    exact (NoDup_map_inv _ _ HS).
  Qed.

  Lemma cc_split_NoDup (D P : list crd) c : Ks = D ++ P -> In c D -> In c P -> False.
  Proof.
    intros E HD HP. pose proof (cc_clt_NoDup Ks HKs_sorted) as Hnd. rewrite E in Hnd.
    revert HD HP. clear E. induction D as [|d D IH]; intros HD HP; [destruct HD|].
    cbn [app] in Hnd. inversion Hnd as [|d' l' Hnin Hnd']; subst.
    destruct HD as [->|HD]; [apply Hnin, in_or_app; right; exact HP|exact (IH Hnd' HD HP)].
  Qed.

  Lemma cc_PP_facts s : In s PPs -> In (sib s) K /\ isroot (sib s) = false /\ ~ In s K.
  Proof.
    intros Hs. apply HPP_mem in Hs. destruct Hs as (c & Hc & Hr & Hn & ->).
    rewrite pps_sib_invol. repeat split; assumption.
  Qed.

  (** ** the invariant of the reachable loop states

      [D] = the processed members of [K], [P] = the pending ones (both ascending);
      [PD]/[PP] = the consumed / remaining proof positions, [wsP] the remaining proof hashes;
      [tdone] = the consumed targets, [apop] = the consumed computed entries. *)
  Record CInv (D P PD PP : list crd) (wsP : list H) (tdone apop : list hp) (st : cstate H)
    : Prop := mkCInv {
    ci_K : Ks = D ++ P;
    ci_PPs : PPs = PD ++ PP;
    ci_tp : tp_all = tdone ++ c_tp st;
    ci_tdone : Forall (posin D T) tdone;
    ci_tpP : Forall (posin P T) (c_tp st);
    ci_all : c_all st = apop ++ c_np st;
    ci_apop : Forall (posin D anc) apop;
    ci_npP : Forall (posin P anc) (c_np st);
    ci_all_sorted : SSlt (map fst (c_all st));
    ci_all_W : Forall (fun e : hp => W (fst e) (snd e)) (c_all st);
    ci_par : forall c, In c D -> isroot c = false -> In (g (par c)) (map fst (c_all st));
    ci_np_lt : forall e q, In e (c_np st) -> In q P -> isroot q = false -> fst e < g (par q);
    ci_proof : c_proof st = wsP ++ extra;
    ci_wsP : Forall2 (fun s w => W (g s) w) PP wsP;
    ci_PD : forall s, In s PD -> In (sib s) D;
    ci_PPP : forall s, In s PP -> In (sib s) P;
    ci_sib : forall c, In c D -> isroot c = false -> ~ In (sib c) P;
    ci_prev : match c_prev st with Some v => forall c, In c P -> v < g c | None => True end;
    ci_row : c_row st <= total;
    ci_rowP : forall c, In c P -> c_row st <= fst c;
    ci_rows : c_rows st = map fst (filter isroot D);
    ci_roots : Forall2 (fun c h => W (g c) h) (filter isroot D) (c_roots st) }.

  (** the initial state *)
  Lemma cc_init : CInv [] Ks [] PPs ws [] []
                       (mkC 0 tp_all [] [] (ws ++ extra) None [] []).
  Proof.
    constructor; cbn [c_row c_tp c_np c_all c_proof c_prev c_roots c_rows app map filter];
      try reflexivity; try constructor; try (intros; contradiction); try exact Hws; try lia.
    - apply Forall_forall. intros e He.
      pose proof (proj1 (Htp_mem (fst e)) (in_map fst _ _ He)) as Hin.
      apply in_map_iff in Hin. destruct Hin as (c & E & Hc). exists c.
      split; [apply HKs_mem, in_or_app; left; exact Hc|]. split; [exact Hc|symmetry; exact E].
    - intros s Hs. apply HKs_mem. exact (proj1 (cc_PP_facts s Hs)).
  Qed.

  (** where the members of [K] sit in a split of [Ks] *)
  Lemma cc_before (D P : list crd) q c : Ks = D ++ P -> In q P -> In c K -> g c < g q ->
    (forall c', In c' P -> g q <= g c') -> In c D.
  Proof.
    intros E Hq Hc Hlt Hmin. apply HKs_mem in Hc. rewrite E in Hc.
    apply in_app_or in Hc. destruct Hc as [Hc|Hc]; [exact Hc|].
    specialize (Hmin c Hc). lia.
  Qed.

  (** the least pending position is queued *)
  Lemma cc_queued (D P : list crd) tdone tp apop np call :
    Ks = D ++ P -> tp_all = tdone ++ tp -> Forall (posin D T) tdone ->
    call = apop ++ np -> Forall (posin D anc) apop ->
    (forall c, In c D -> isroot c = false -> In (g (par c)) (map fst call)) ->
    forall q, In q P ->
      (In q T -> In (g q) (map fst tp)) /\
      (In q anc -> (forall c', In c' K -> isroot c' = false -> par c' = q -> In c' D) ->
       In (g q) (map fst np)).
  Proof.
    intros EK Etp Htd Eall Hap Hpar q Hq.
    assert (HqK : In q K) by (apply HKs_mem; rewrite EK; apply in_or_app; right; exact Hq).
    assert (HnotD : forall S e, posin D S e -> fst e <> g q).
    { intros S e (c & Hc & _ & E) E2. rewrite E in E2.
      apply cc_g_inj in E2; [|apply HKs_mem; rewrite EK; apply in_or_app; left; exact Hc|exact HqK].
      subst c. exact (cc_split_NoDup D P q EK Hc Hq). }
    rewrite Forall_forall in Htd, Hap. split.
    - intros HqT. assert (Hin : In (g q) (map fst tp_all)) by (apply Htp_mem, in_map; exact HqT).
      rewrite Etp, map_app in Hin. apply in_app_or in Hin. destruct Hin as [Hin|Hin]; [|exact Hin].
      apply in_map_iff in Hin. destruct Hin as (e & E & He). exfalso.
      exact (HnotD T e (Htd e He) E).
    - intros Hqa Hch. destruct (HK3 q Hqa) as (c' & Hc' & Hr' & Eq).
      pose proof (Hpar c' (Hch c' Hc' Hr' (eq_sym Eq)) Hr') as Hin. rewrite <- Eq in Hin.
      rewrite Eall, map_app in Hin. apply in_app_or in Hin. destruct Hin as [Hin|Hin]; [|exact Hin].
      apply in_map_iff in Hin. destruct Hin as (e & E & He). exfalso.
      exact (HnotD anc e (Hap e He) E).
  Qed.

  (** the consumed entry moves to the processed side *)
  Lemma cc_pop_split (D : list crd) q h tdone tp tp1 apop np np1 call :
    tp_all = tdone ++ tp -> call = apop ++ np ->
    Forall (posin D T) tdone -> Forall (posin D anc) apop ->
    ((tp = (g q, h) :: tp1 /\ np1 = np /\ In q T) \/
     (np = (g q, h) :: np1 /\ tp1 = tp /\ In q anc)) ->
    exists tdone' apop', tp_all = tdone' ++ tp1 /\ call = apop' ++ np1 /\
      Forall (posin (D ++ [q]) T) tdone' /\ Forall (posin (D ++ [q]) anc) apop'.
  Proof.
    intros Etp Eall Htd Hap Hcase.
    assert (Hsub : forall c, In c D -> In c (D ++ [q])) by (intros c Hc; apply in_or_app; left; exact Hc).
    assert (Hq : In q (D ++ [q])) by (apply in_or_app; right; left; reflexivity).
    destruct Hcase as [(-> & -> & HqT)|(-> & -> & Hqa)].
    - exists (tdone ++ [(g q, h)]), apop. rewrite <- app_assoc. cbn [app].
      split; [exact Etp|]. split; [exact Eall|]. split.
      + apply Forall_app. split; [exact (posin_Forall_mono _ _ _ _ Hsub Htd)|].
        constructor; [|constructor]. exists q. repeat split; assumption.
      + exact (posin_Forall_mono _ _ _ _ Hsub Hap).
    - exists tdone, (apop ++ [(g q, h)]). rewrite <- app_assoc. cbn [app].
      split; [exact Etp|]. split; [exact Eall|]. split.
      + exact (posin_Forall_mono _ _ _ _ Hsub Htd).
      + apply Forall_app. split; [exact (posin_Forall_mono _ _ _ _ Hsub Hap)|].
        constructor; [|constructor]. exists q. repeat split; assumption.
  Qed.

  Lemma cc_SSlt_fst_app {A} (a b : list (N * A)) : SSlt (map fst (a ++ b)) ->
    SSlt (map fst a) /\ SSlt (map fst b) /\
    (forall x y, In x a -> In y b -> fst x < fst y).
  Proof.
    rewrite map_app. intros HS. destruct (cc_SS_app_inv _ _ _ HS) as (H1 & H2 & H3).
    split; [exact H1|]. split; [exact H2|]. intros x y Hx Hy.
    apply H3; apply in_map; assumption.
  Qed.

  Lemma cc_case_sorted q h (tp np tp1 np1 : list hp) :
    SSlt (map fst tp) -> SSlt (map fst np) ->
    ((tp = (g q, h) :: tp1 /\ np1 = np /\ In q T) \/
     (np = (g q, h) :: np1 /\ tp1 = tp /\ In q anc)) ->
    SSlt (map fst tp1) /\ SSlt (map fst np1) /\
    (forall e, In e tp1 -> In e tp) /\ (forall e, In e np1 -> In e np) /\
    (In (g q, h) tp \/ In (g q, h) np).
  Proof.
    intros Htp Hnp [(-> & -> & _)|(-> & -> & _)].
    - cbn [map] in Htp. destruct (cc_SS_cons_inv _ _ _ Htp) as [Ht _].
      split; [exact Ht|]. split; [exact Hnp|]. split; [intros e He; right; exact He|].
      split; [intros e He; exact He|]. left. left. reflexivity.
    - cbn [map] in Hnp. destruct (cc_SS_cons_inv _ _ _ Hnp) as [Hn _].
      split; [exact Htp|]. split; [exact Hn|]. split; [intros e He; exact He|].
      split; [intros e He; right; exact He|]. right. left. reflexivity.
  Qed.

  (** what the loop reports *)
  Definition CPost (o : outcome (calc_result H)) : Prop :=
    o = OutOfFuel \/
    exists cf cands,
      o = Ok (mergeSortedHashAndPos cf tp_all, cands, map fst (filter isroot Ks)) /\
      SSlt (map fst cf) /\ Forall (fun e : hp => W (fst e) (snd e)) cf /\
      (forall x, In x (map fst cf) <-> In x (map g anc)) /\
      Forall2 (fun c h => W (g c) h) (filter isroot Ks) cands.

  Lemma cc_posin_nil S (l : list hp) : Forall (posin [] S) l -> l = [].
  Proof.
    destruct l as [|e l]; [reflexivity|]. intros HF. inversion HF as [|e' l' (c & [] & _) _].
  Qed.

  Ltac cinv_destruct I :=
    destruct I as [iK iPPs itp itdone itpP iall iapop inpP isorted iW ipar inplt iproof iwsP
                   iPD iPPP isib iprev irow irowP irows iroots].

  (** the shared part of an iteration: the head [q] of the pending positions is popped *)
  Lemma cc_head_pop D q rest PD PP wsP tdone apop st :
    CInv D (q :: rest) PD PP wsP tdone apop st ->
    exists h tp1 np1 tdone' apop',
      pop H (c_tp st) (c_np st) = Some (g q, h, tp1, np1) /\ W (g q) h /\
      ((c_tp st = (g q, h) :: tp1 /\ np1 = c_np st /\ In q T) \/
       (c_np st = (g q, h) :: np1 /\ tp1 = c_tp st /\ In q anc)) /\
      Forall (posin rest T) tp1 /\ Forall (posin rest anc) np1 /\
      tp_all = tdone' ++ tp1 /\ c_all st = apop' ++ np1 /\
      Forall (posin (D ++ [q]) T) tdone' /\ Forall (posin (D ++ [q]) anc) apop' /\
      SSlt (map fst tp1) /\ SSlt (map fst np1) /\
      (forall e, In e np1 -> In e (c_np st)).
  Proof.
    intros I. cinv_destruct I.
    pose proof HKs_sorted as HS. rewrite iK in HS.
    destruct (cc_SS_app_inv _ _ _ HS) as (_ & HSP & HDP).
    assert (HPK : forall c, In c (q :: rest) -> In c K).
    { intros c Hc. apply HKs_mem. rewrite iK. apply in_or_app. right. exact Hc. }
    pose proof Htp_sorted as Htps. rewrite itp in Htps.
    destruct (cc_SSlt_fst_app _ _ Htps) as (_ & Htp1 & _).
    pose proof isorted as Hals. rewrite iall in Hals.
    destruct (cc_SSlt_fst_app _ _ Hals) as (_ & Hnp1 & _).
    destruct (cc_SS_cons_inv _ _ _ HSP) as [_ Hqlt].
    assert (Hq : In q (q :: rest)) by (left; reflexivity).
    destruct (cc_queued D (q :: rest) tdone (c_tp st) apop (c_np st) (c_all st)
                iK itp itdone iall iapop ipar q Hq) as [HqT Hqa].
    assert (Hqa' : In q anc -> In (g q) (map fst (c_np st))).
    { intros Ha. apply (Hqa Ha). intros c' Hc' Hr' Ec'.
      apply (cc_before D (q :: rest) q c' iK Hq Hc').
      - rewrite <- Ec'. exact (cc_par_gt c' Hc' Hr').
      - intros c2 [<-|Hc2]; [lia|]. specialize (Hqlt c2 Hc2). unfold ProofPosSpec.clt in Hqlt. lia. }
    destruct (cc_pop_head q rest (c_tp st) (c_np st) HSP HPK Htp1 Hnp1 itpP inpP HqT Hqa')
      as (h & tp1 & np1 & Epop & Hcase & HtpR & HnpR).
    destruct (cc_pop_split D q h tdone (c_tp st) tp1 apop (c_np st) np1 (c_all st)
                itp iall itdone iapop Hcase) as (tdone' & apop' & E1 & E2 & F1 & F2).
    destruct (cc_case_sorted q h _ _ _ _ Htp1 Hnp1 Hcase) as (S1 & S2 & In1 & In2 & Hin).
    exists h, tp1, np1, tdone', apop'. split; [exact Epop|]. split.
    { rewrite Forall_forall in Htp_W, iW. destruct Hin as [Hin|Hin].
      - apply (Htp_W (g q, h)). rewrite itp. apply in_or_app. right. exact Hin.
      - apply (iW (g q, h)). rewrite iall. apply in_or_app. right. exact Hin. }
    repeat (split; [assumption|]). exact In2.
  Qed.

  (** facts about a split [Ks = D ++ q :: rest] *)
  Lemma cc_split_facts D q rest : Ks = D ++ q :: rest ->
    (forall c, In c D -> In c K) /\ In q K /\ (forall c, In c rest -> In c K) /\
    (forall c, In c D -> g c < g q) /\ (forall c, In c rest -> g q < g c) /\
    StronglySorted clt rest /\ ~ In q rest /\ ~ In q D /\
    Ks = (D ++ [q]) ++ rest.
  Proof.
    intros E. pose proof HKs_sorted as HS. rewrite E in HS.
    destruct (cc_SS_app_inv _ _ _ HS) as (_ & HSP & HDP).
    destruct (cc_SS_cons_inv _ _ _ HSP) as [HSr Hqlt].
    assert (Hsub : forall c, In c (D ++ q :: rest) -> In c K).
    { intros c Hc. apply HKs_mem. rewrite E. exact Hc. }
    split; [intros c Hc; apply Hsub, in_or_app; left; exact Hc|].
    split; [apply Hsub, in_or_app; right; left; reflexivity|].
    split; [intros c Hc; apply Hsub, in_or_app; right; right; exact Hc|].
    split; [intros c Hc; apply (HDP c q Hc); left; reflexivity|].
    split; [exact Hqlt|]. split; [exact HSr|].
    split; [intros Hin; specialize (Hqlt q Hin); unfold ProofPosSpec.clt in Hqlt; lia|].
    split; [intros Hin; specialize (HDP q q Hin (or_introl eq_refl)); unfold ProofPosSpec.clt in HDP; lia|].
    rewrite <- app_assoc. exact E.
  Qed.

  (** appending the parent of the popped position keeps the computed list ascending *)
  Lemma cc_all_snoc D q rest PD PP wsP tdone apop st hv :
    CInv D (q :: rest) PD PP wsP tdone apop st -> isroot q = false ->
    SSlt (map fst (c_all st ++ [(g (par q), hv)])).
  Proof.
    intros I Hr. cinv_destruct I.
    destruct (cc_split_facts D q rest iK) as (HDK & HqK & _ & HDq & _).
    rewrite map_app. cbn [map fst]. apply cc_SS_snoc; [exact isorted|].
    intros x Hx. apply in_map_iff in Hx. destruct Hx as (e & <- & He).
    rewrite iall in He. apply in_app_or in He. destruct He as [He|He].
    - rewrite Forall_forall in iapop. destruct (iapop e He) as (c & Hc & _ & ->).
      pose proof (HDq c Hc). pose proof (cc_par_gt q HqK Hr). lia.
    - apply (inplt e q He (or_introl eq_refl) Hr).
  Qed.

  (** the new queue entry lies below the parents of the positions that stay pending *)
  Lemma cc_np_lt_snoc D q rest (np1 : list hp) (P' : list crd) hv :
    Ks = D ++ q :: rest -> isroot q = false ->
    (forall c, In c P' -> In c rest) -> ~ In (sib q) P' ->
    (forall e q', In e np1 -> In q' P' -> isroot q' = false -> fst e < g (par q')) ->
    forall e q', In e (np1 ++ [(g (par q), hv)]) -> In q' P' -> isroot q' = false ->
                 fst e < g (par q').
  Proof.
    intros EK Hr Hsub Hns Hold e q' He Hq' Hr'.
    destruct (cc_split_facts D q rest EK) as (_ & HqK & HrK & _ & Hql & _).
    apply in_app_or in He. destruct He as [He|[<-|[]]]; [exact (Hold e q' He Hq' Hr')|].
    cbn [fst]. apply cc_par_mono; try assumption.
    - apply HrK, Hsub, Hq'.
    - apply Hql, Hsub, Hq'.
    - intros ->. exact (Hns Hq').
  Qed.

  (** ** case 1: the popped position is a root *)
  Lemma cc_step_root D q rest PD PP wsP tdone apop st h tp1 np1 tdone' apop' :
    CInv D (q :: rest) PD PP wsP tdone apop st -> isroot q = true -> W (g q) h ->
    Forall (posin rest T) tp1 -> Forall (posin rest anc) np1 ->
    tp_all = tdone' ++ tp1 -> c_all st = apop' ++ np1 ->
    Forall (posin (D ++ [q]) T) tdone' -> Forall (posin (D ++ [q]) anc) apop' ->
    (forall e, In e np1 -> In e (c_np st)) ->
    CInv (D ++ [q]) rest PD PP wsP tdone' apop'
         (mkC (fst q) tp1 np1 (c_all st) (c_proof st) (Some (g q))
              (c_roots st ++ [h]) (c_rows st ++ [fst q])).
  Proof.
    intros I Hroot HW HtpR HnpR Etp Eall Ftd Fap Hnp1.
    pose proof I as I0. cinv_destruct I.
    destruct (cc_split_facts D q rest iK) as (HDK & HqK & HrK & HDq & Hql & HSr & Hqnr & HqnD & EK').
    constructor; cbn [c_row c_tp c_np c_all c_proof c_prev c_roots c_rows]; try assumption.
    - (* ci_par *) intros c Hc Hr. apply in_app_or in Hc. destruct Hc as [Hc|[<-|[]]].
      + exact (ipar c Hc Hr).
      + congruence.
    - (* ci_np_lt *) intros e q' He Hq' Hr'. apply (inplt e q' (Hnp1 e He)); [right; exact Hq'|exact Hr'].
    - (* ci_PD *) intros s Hs. apply in_or_app. left. exact (iPD s Hs).
    - (* ci_PPP *) intros s Hs. destruct (iPPP s Hs) as [E|Hin]; [|exact Hin].
      exfalso. assert (HsP : In s PPs) by (rewrite iPPs; apply in_or_app; right; exact Hs).
      destruct (cc_PP_facts s HsP) as (_ & Hnr & _). rewrite <- E in Hnr. congruence.
    - (* ci_sib *) intros c Hc Hr Hin. apply in_app_or in Hc. destruct Hc as [Hc|[<-|[]]].
      + apply (isib c Hc Hr). right. exact Hin.
      + congruence.
    - (* ci_row *) destruct (cc_K_vld q HqK) as [Hrow _]. exact Hrow.
    - (* ci_rowP *) intros c Hc.
      apply (pps_g_lt_row n total cc_t63 cc_nle q c (cc_K_vld q HqK) (cc_K_vld c (HrK c Hc)) (Hql c Hc)).
    - (* ci_rows *) rewrite cc_filter_snoc, Hroot, map_app, irows. reflexivity.
    - (* ci_roots *) rewrite cc_filter_snoc, Hroot. apply cc_Forall2_snoc; assumption.
  Qed.

  Lemma cc_row_facts q (rest : list crd) : In q K -> (forall c, In c rest -> In c K) ->
    (forall c, In c rest -> g q < g c) ->
    fst q <= total /\ (forall c, In c rest -> fst q <= fst c).
  Proof.
    intros HqK HrK Hql. split; [exact (proj1 (cc_K_vld q HqK))|]. intros c Hc.
    exact (pps_g_lt_row n total cc_t63 cc_nle q c (cc_K_vld q HqK) (cc_K_vld c (HrK c Hc)) (Hql c Hc)).
  Qed.

  (** the parent of a pending non-root position is pending, beyond its sibling *)
  Lemma cc_par_pending D q rest : Ks = D ++ q :: rest -> isroot q = false ->
    In (par q) anc /\ In (par q) rest /\ par q <> sib q.
  Proof.
    intros EK Hr.
    destruct (cc_split_facts D q rest EK) as (HDK & HqK & HrK & HDq & Hql & HSr & Hqnr & HqnD & EK').
    pose proof (HK2 q HqK Hr) as Hpa. pose proof (cc_par_gt q HqK Hr) as Hgt.
    split; [exact Hpa|]. split.
    - assert (Hin : In (par q) Ks) by (apply HKs_mem, in_or_app; right; exact Hpa).
      rewrite EK in Hin. apply in_app_or in Hin. destruct Hin as [Hin|[E|Hin]]; [| |exact Hin].
      + specialize (HDq _ Hin). lia.
      + rewrite <- E in Hgt. lia.
    - intros E. apply (f_equal fst) in E. cbn [par sib fst] in E. lia.
  Qed.

  (** ** case 2: the sibling comes from the proof *)
  Lemma cc_step_proof D q rest PD PP wsP tdone apop st h tp1 np1 tdone' apop' :
    CInv D (q :: rest) PD PP wsP tdone apop st -> isroot q = false -> ~ In (sib q) K ->
    W (g q) h ->
    Forall (posin rest T) tp1 -> Forall (posin rest anc) np1 ->
    tp_all = tdone' ++ tp1 -> c_all st = apop' ++ np1 ->
    Forall (posin (D ++ [q]) T) tdone' -> Forall (posin (D ++ [q]) anc) apop' ->
    (forall e, In e np1 -> In e (c_np st)) ->
    exists ph wsP' PP',
      c_proof st = ph :: wsP' ++ extra /\
      CInv (D ++ [q]) rest (PD ++ [sib q]) PP' wsP' tdone' apop'
           (mkC (fst q) tp1 (np1 ++ [(g (par q), getNextHash HO (g q) h ph)])
                (c_all st ++ [(g (par q), getNextHash HO (g q) h ph)]) (wsP' ++ extra)
                (Some (g q)) (c_roots st) (c_rows st)).
  Proof.
    intros I Hroot Hns HW HtpR HnpR Etp Eall Ftd Fap Hnp1.
    pose proof I as I0. cinv_destruct I.
    destruct (cc_split_facts D q rest iK) as (HDK & HqK & HrK & HDq & Hql & HSr & Hqnr & HqnD & EK').
    destruct (cc_par_pending D q rest iK Hroot) as (Hpa & Hpr & _).
    destruct (cc_row_facts q rest HqK HrK Hql) as [Hrow HrowP].
    (* the sibling is the next proof position *)
    assert (HsPP : In (sib q) PPs).
    { apply HPP_mem. exists q. repeat split; assumption. }
    pose proof HPP_sorted as HSPP. rewrite iPPs in HSPP.
    destruct (cc_SS_app_inv _ _ _ HSPP) as (_ & HSPP2 & _).
    assert (HsP : In (sib q) PP).
    { rewrite iPPs in HsPP. apply in_app_or in HsPP. destruct HsPP as [Hin|Hin]; [|exact Hin].
      exfalso. apply HqnD. rewrite <- (pps_sib_invol q). exact (iPD _ Hin). }
    destruct PP as [|s0 PP']; [destruct HsP|].
    assert (Es0 : s0 = sib q).
    { destruct HsP as [E|Hin]; [exact E|]. exfalso.
      destruct (cc_SS_cons_inv _ _ _ HSPP2) as [_ Hs0lt]. specialize (Hs0lt _ Hin).
      unfold ProofPosSpec.clt in Hs0lt.
      assert (Hs0 : In s0 PPs) by (rewrite iPPs; apply in_or_app; right; left; reflexivity).
      destruct (cc_PP_facts s0 Hs0) as (Hs0K & Hs0r & Hs0n).
      assert (Hne : sib s0 <> q).
      { intros E. apply pps_sib_eq_inv in E. subst s0. lia. }
      assert (Hlt : g q < g (sib s0)).
      { destruct (iPPP s0 (or_introl eq_refl)) as [E|Hin2]; [congruence|exact (Hql _ Hin2)]. }
      pose proof (pps_g_lt_row n total cc_t63 cc_nle q (sib s0) (cc_K_vld q HqK) (cc_K_vld _ Hs0K) Hlt) as Hr1.
      pose proof (pps_sib_vld n total cc_t63 cc_nle q (HK1 q HqK) Hroot) as Hv1.
      pose proof (pps_sib_vld n total cc_t63 cc_nle (sib s0) (HK1 _ Hs0K) Hs0r) as Hv2.
      rewrite pps_sib_invol in Hv2.
      pose proof (pps_g_lt_row n total cc_t63 cc_nle s0 (sib q) Hv2 Hv1 Hs0lt) as Hr2.
      cbn [sib fst] in Hr1, Hr2.
      assert (Erow : fst q = fst (sib s0)) by (cbn [sib fst]; lia).
      assert (Hns2 : sib s0 <> sib q).
      { intros E. apply (f_equal sib) in E. rewrite !pps_sib_invol in E. subst s0. exact (Hs0n HqK). }
      destruct (pps_pair_order n total cc_t63 cc_nle q (sib s0) Erow Hlt Hns2) as [Hc _].
      rewrite pps_sib_invol in Hc. lia. }
    subst s0.
    inversion iwsP as [|s0' ph PPx wsP' Hph Hrest]; subst.
    exists ph, wsP', PP'. split; [rewrite iproof; reflexivity|].
    assert (HWpar : W (g (par q)) (getNextHash HO (g q) h ph)) by (apply W_step; assumption).
    constructor; cbn [c_row c_tp c_np c_all c_proof c_prev c_roots c_rows]; try assumption.
    - (* ci_PPs *) rewrite <- app_assoc. exact iPPs.
    - (* ci_all *) rewrite Eall, app_assoc. reflexivity.
    - (* ci_npP *) apply Forall_app. split; [exact HnpR|]. constructor; [|constructor].
      exists (par q). repeat split; assumption.
    - (* ci_all_sorted *) exact (cc_all_snoc D q rest PD _ _ tdone apop st _ I0 Hroot).
    - (* ci_all_W *) apply Forall_app. split; [exact iW|]. constructor; [exact HWpar|constructor].
    - (* ci_par *) intros c Hc Hr. rewrite map_app. apply in_or_app.
      apply in_app_or in Hc. destruct Hc as [Hc|[<-|[]]]; [left; exact (ipar c Hc Hr)|].
      right. left. reflexivity.
    - (* ci_np_lt *) apply (cc_np_lt_snoc D q rest np1 rest _ iK Hroot); [tauto| |].
      + intros Hin. apply Hns, HrK, Hin.
      + intros e q' He Hq' Hr'. apply (inplt e q' (Hnp1 e He)); [right; exact Hq'|exact Hr'].
    - (* ci_proof *) reflexivity.
    - (* ci_PD *) intros s Hs. apply in_or_app. apply in_app_or in Hs.
      destruct Hs as [Hs|[<-|[]]]; [left; exact (iPD s Hs)|].
      right. left. symmetry. apply pps_sib_invol.
    - (* ci_PPP *) intros s Hs. destruct (iPPP s (or_intror Hs)) as [E|Hin]; [|exact Hin].
      exfalso. symmetry in E. apply pps_sib_eq_inv in E. subst s.
      pose proof (cc_clt_NoDup _ HSPP2) as Hnd2. inversion Hnd2 as [|x l Hnin _]; subst.
      exact (Hnin Hs).
    - (* ci_sib *) intros c Hc Hr Hin. apply in_app_or in Hc. destruct Hc as [Hc|[<-|[]]].
      + apply (isib c Hc Hr). right. exact Hin.
      + apply Hns, HrK, Hin.
    - (* ci_rows *) rewrite cc_filter_snoc, Hroot, app_nil_r. exact irows.
    - (* ci_roots *) rewrite cc_filter_snoc, Hroot, app_nil_r. exact iroots.
  Qed.

  (** ** case 3: the sibling is pending too: it is the next position, on the right *)
  Lemma cc_step_pair D q rest PD PP wsP tdone apop st h tp1 np1 tdone' apop' :
    CInv D (q :: rest) PD PP wsP tdone apop st -> isroot q = false -> In (sib q) K ->
    W (g q) h ->
    ((c_tp st = (g q, h) :: tp1 /\ np1 = c_np st /\ In q T) \/
     (c_np st = (g q, h) :: np1 /\ tp1 = c_tp st /\ In q anc)) ->
    Forall (posin rest T) tp1 -> Forall (posin rest anc) np1 ->
    tp_all = tdone' ++ tp1 -> c_all st = apop' ++ np1 ->
    Forall (posin (D ++ [q]) T) tdone' -> Forall (posin (D ++ [q]) anc) apop' ->
    SSlt (map fst tp1) -> SSlt (map fst np1) ->
    (forall e, In e np1 -> In e (c_np st)) ->
    exists rest' sh tp2 np2 tdone'' apop'',
      N.even (snd q) = true /\ rsib q = sib q /\
      pop H tp1 np1 = Some (g (sib q), sh, tp2, np2) /\
      CInv ((D ++ [q]) ++ [sib q]) rest' PD PP wsP tdone'' apop''
           (mkC (fst q) tp2 (np2 ++ [(g (par q), getNextHash HO (g q) h sh)])
                (c_all st ++ [(g (par q), getNextHash HO (g q) h sh)]) (c_proof st)
                (Some (g (sib q))) (c_roots st) (c_rows st)).
  Proof.
    intros I Hroot HsK HW Hcase HtpR HnpR Etp Eall Ftd Fap S1 S2 Hnp1.
    pose proof I as I0. cinv_destruct I.
    destruct (cc_split_facts D q rest iK) as (HDK & HqK & HrK & HDq & Hql & HSr & Hqnr & HqnD & EK').
    destruct (cc_par_pending D q rest iK Hroot) as (Hpa & Hpr & Hpns).
    destruct (cc_row_facts q rest HqK HrK Hql) as [Hrow HrowP].
    assert (Hsr : isroot (sib q) = false).
    { apply cc_sib_nonroot; [exact HsK|]. rewrite pps_sib_invol. exact HqK. }
    (* the sibling is pending *)
    assert (Hsrest : In (sib q) rest).
    { assert (Hin : In (sib q) Ks) by (apply HKs_mem; exact HsK).
      rewrite iK in Hin. apply in_app_or in Hin. destruct Hin as [Hin|[E|Hin]]; [| |exact Hin].
      - exfalso. apply (isib (sib q) Hin Hsr). rewrite pps_sib_invol. left. reflexivity.
      - exfalso. exact (cc_sib_neq q (eq_sym E)). }
    destruct (cc_sib_gt total q (Hql _ Hsrest)) as (Ersib & Egs & Heven).
    destruct rest as [|q2 rest']; [destruct Hsrest|].
    assert (Eq2 : q2 = sib q).
    { destruct Hsrest as [E|Hin]; [exact E|].
      destruct (cc_SS_cons_inv _ _ _ HSr) as [_ Hq2lt]. specialize (Hq2lt _ Hin).
      unfold ProofPosSpec.clt in Hq2lt. pose proof (Hql q2 (or_introl eq_refl)). lia. }
    subst q2.
    destruct (cc_SS_cons_inv _ _ _ HSr) as [HSr' Hsl]. unfold ProofPosSpec.clt in Hsl.
    (* the second pop *)
    assert (HPK2 : forall c, In c (sib q :: rest') -> In c K) by exact HrK.
    assert (Hq2P : In (sib q) (q :: sib q :: rest')) by (right; left; reflexivity).
    destruct (cc_queued D (q :: sib q :: rest') tdone (c_tp st) apop (c_np st) (c_all st)
                iK itp itdone iall iapop ipar (sib q) Hq2P) as [H2T H2a].
    assert (Hgne : g (sib q) <> g q) by lia.
    assert (H2T' : In (sib q) T -> In (g (sib q)) (map fst tp1)).
    { intros Hin. specialize (H2T Hin). destruct Hcase as [(E & _ & _)|(_ & -> & _)]; [|exact H2T].
      rewrite E in H2T. cbn [map fst In] in H2T. destruct H2T as [E2|H2T]; [congruence|exact H2T]. }
    assert (H2a' : In (sib q) anc -> In (g (sib q)) (map fst np1)).
    { intros Hin. assert (H2 : In (g (sib q)) (map fst (c_np st))).
      { apply (H2a Hin). intros c' Hc' Hr' Ec'.
        assert (Hlt : g c' < g (sib q)) by (rewrite <- Ec'; exact (cc_par_gt c' Hc' Hr')).
        assert (Hne : c' <> q).
        { intros ->. apply (f_equal fst) in Ec'. cbn [par sib fst] in Ec'. lia. }
        assert (Hin' : In c' Ks) by (apply HKs_mem; exact Hc').
        rewrite iK in Hin'. apply in_app_or in Hin'.
        destruct Hin' as [Hin'|[E|[E|Hin']]]; [exact Hin'|congruence| |].
        - subst c'. lia.
        - specialize (Hsl _ Hin'). lia. }
      destruct Hcase as [(_ & -> & _)|(E & _ & _)]; [exact H2|].
      rewrite E in H2. cbn [map fst In] in H2. destruct H2 as [E2|H2]; [congruence|exact H2]. }
    destruct (cc_pop_head (sib q) rest' tp1 np1 HSr HPK2 S1 S2 HtpR HnpR H2T' H2a')
      as (sh & tp2 & np2 & Epop2 & Hcase2 & HtpR2 & HnpR2).
    destruct (cc_pop_split (D ++ [q]) (sib q) sh tdone' tp1 tp2 apop' np1 np2 (c_all st)
                Etp Eall Ftd Fap Hcase2) as (tdone'' & apop'' & E1 & E2 & F1 & F2).
    destruct (cc_case_sorted (sib q) sh _ _ _ _ S1 S2 Hcase2) as (_ & _ & In1 & In2 & Hin2).
    assert (HWs : W (g (sib q)) sh).
    { rewrite Forall_forall in Htp_W, iW. destruct Hin2 as [Hin|Hin].
      - apply (Htp_W (g (sib q), sh)). rewrite Etp. apply in_or_app. right. exact Hin.
      - apply (iW (g (sib q), sh)). rewrite Eall. apply in_or_app. right. exact Hin. }
    assert (HWpar : W (g (par q)) (getNextHash HO (g q) h sh)) by (apply W_step; assumption).
    exists rest', sh, tp2, np2, tdone'', apop''.
    split; [exact Heven|]. split; [exact Ersib|]. split; [exact Epop2|].
    assert (Hpr' : In (par q) rest').
    { destruct Hpr as [E|Hin]; [exfalso; exact (Hpns (eq_sym E))|exact Hin]. }
    constructor; cbn [c_row c_tp c_np c_all c_proof c_prev c_roots c_rows]; try assumption.
    - (* ci_K *) rewrite <- !app_assoc. cbn [app]. exact iK.
    - (* ci_all *) rewrite E2, app_assoc. reflexivity.
    - (* ci_npP *) apply Forall_app. split; [exact HnpR2|]. constructor; [|constructor].
      exists (par q). repeat split; assumption.
    - (* ci_all_sorted *) exact (cc_all_snoc D q _ PD PP wsP tdone apop st _ I0 Hroot).
    - (* ci_all_W *) apply Forall_app. split; [exact iW|]. constructor; [exact HWpar|constructor].
    - (* ci_par *) intros c Hc Hr. rewrite map_app. apply in_or_app.
      apply in_app_or in Hc. destruct Hc as [Hc|[<-|[]]].
      + apply in_app_or in Hc. destruct Hc as [Hc|[<-|[]]]; [left; exact (ipar c Hc Hr)|].
        right. left. reflexivity.
      + right. left. cbn [fst]. rewrite pps_par_sib. reflexivity.
    - (* ci_np_lt *) apply (cc_np_lt_snoc D q (sib q :: rest') np2 rest' _ iK Hroot).
      + intros c Hc. right. exact Hc.
      + intros Hin. specialize (Hsl _ Hin). lia.
      + intros e q' He Hq' Hr'.
        apply (inplt e q' (Hnp1 e (In2 e He))); [right; right; exact Hq'|exact Hr'].
    - (* ci_PD *) intros s Hs. apply in_or_app. left. apply in_or_app. left. exact (iPD s Hs).
    - (* ci_PPP *) intros s Hs.
      assert (HsP : In s PPs) by (rewrite iPPs; apply in_or_app; right; exact Hs).
      destruct (cc_PP_facts s HsP) as (_ & _ & HsnK).
      destruct (iPPP s Hs) as [E|[E|Hin]]; [| |exact Hin]; exfalso; apply HsnK.
      + symmetry in E. apply pps_sib_eq_inv in E. subst s. exact HsK.
      + apply (f_equal sib) in E. rewrite !pps_sib_invol in E. subst s. exact HqK.
    - (* ci_sib *) intros c Hc Hr Hin. apply in_app_or in Hc. destruct Hc as [Hc|[<-|[]]].
      + apply in_app_or in Hc. destruct Hc as [Hc|[<-|[]]].
        * apply (isib c Hc Hr). right. right. exact Hin.
        * specialize (Hsl _ Hin). lia.
      + rewrite pps_sib_invol in Hin. apply Hqnr. right. exact Hin.
    - (* ci_rowP *) intros c Hc. apply HrowP. right. exact Hc.
    - (* ci_rows *) rewrite !cc_filter_snoc, Hroot, Hsr, !app_nil_r. exact irows.
    - (* ci_roots *) rewrite !cc_filter_snoc, Hroot, Hsr, !app_nil_r. exact iroots.
  Qed.

  (** ** the loop *)
  Lemma cc_loop : forall f D P PD PP wsP tdone apop st,
    CInv D P PD PP wsP tdone apop st -> CPost (calc_loop HO true f n total st tp_all).
  Proof.
    induction f as [|f IH]; intros D P PD PP wsP tdone apop st I; [left; reflexivity|].
    rewrite calc_loop_S. unfold calc_step. cbv zeta.
    pose proof cc_t63 as Ht63. pose proof cc_nle as Hnle.
    destruct (N.ltb_spec total (c_row st)) as [Hgt|_]; [pose proof (ci_row _ _ _ _ _ _ _ _ I); lia|].
    destruct P as [|q rest].
    - (* nothing is pending: both queues are empty *)
      cinv_destruct I.
      rewrite (cc_posin_nil _ _ itpP), (cc_posin_nil _ _ inpP). cbn [pop step_k].
      rewrite app_nil_r in iK. subst D.
      rewrite (cc_posin_nil _ _ inpP), app_nil_r in iall.
      right. exists (c_all st), (c_roots st). rewrite irows.
      split; [reflexivity|]. split; [exact isorted|]. split; [exact iW|]. split; [|exact iroots].
      intros x. split.
      + intros Hx. apply in_map_iff in Hx. destruct Hx as (e & <- & He).
        rewrite iall in He. rewrite Forall_forall in iapop.
        destruct (iapop e He) as (c & _ & Hc & ->). apply in_map. exact Hc.
      + intros Hx. apply in_map_iff in Hx. destruct Hx as (c & <- & Hc).
        destruct (HK3 c Hc) as (c' & Hc' & Hr' & ->).
        apply ipar; [apply HKs_mem; exact Hc'|exact Hr'].
    - (* the least pending position is popped *)
      destruct (cc_head_pop D q rest PD PP wsP tdone apop st I)
        as (h & tp1 & np1 & tdone' & apop' & Epop & HW & Hcase & HtpR & HnpR & Etp & Eall &
            Ftd & Fap & S1 & S2 & Hnp1).
      rewrite Epop.
      destruct (cc_split_facts D q rest (ci_K _ _ _ _ _ _ _ _ I))
        as (_ & HqK & _ & _ & _ & _ & _ & _ & _).
      pose proof (HK1 q HqK) as Hqinf.
      assert (Eprev : (match c_prev st with Some v => g q <=? v | None => false end) = false).
      { pose proof (ci_prev _ _ _ _ _ _ _ _ I) as Hp. destruct (c_prev st) as [v|]; [|reflexivity].
        specialize (Hp q (or_introl eq_refl)). apply N.leb_gt. exact Hp. }
      rewrite Eprev.
      rewrite (cc_row_loop n total Ht63 Hnle q Hqinf 300 (c_row st)
                 (ci_rowP _ _ _ _ _ _ _ _ I q (or_introl eq_refl))).
      2:{ destruct (cc_K_vld q HqK) as [Hr _]. lia. }
      rewrite (cc_isRoot n total Ht63 Hnle Htotal q Hqinf).
      destruct (isroot q) eqn:Hroot.
      + (* a root: the candidate of its row *)
        cbn [step_k]. eapply IH.
        exact (cc_step_root D q rest PD PP wsP tdone apop st h tp1 np1 tdone' apop'
                 I Hroot HW HtpR HnpR Etp Eall Ftd Fap Hnp1).
      + rewrite (pps_t_par n total Ht63 Hnle q Hqinf Hroot).
        assert (Hdec : In (sib q) K \/ ~ In (sib q) K).
        { destruct (cmem (sib q) K) eqn:E; [left; apply pps_cmem_spec; exact E|].
          right. apply pps_cmem_false. exact E. }
        destruct Hdec as [HsK|HsnK].
        * (* the sibling is pending *)
          destruct (cc_step_pair D q rest PD PP wsP tdone apop st h tp1 np1 tdone' apop'
                      I Hroot HsK HW Hcase HtpR HnpR Etp Eall Ftd Fap S1 S2 Hnp1)
            as (rest' & sh & tp2 & np2 & tdone'' & apop'' & Heven & Ersib & Epop2 & I').
          unfold pop_sib. rewrite Epop2.
          rewrite (pps_t_rsib n total Hnle q Hqinf), Ersib, N.eqb_refl.
          rewrite (cc_isLeft total q (proj1 (cc_K_vld q HqK))), Heven. cbn [negb step_k].
          eapply IH. exact I'.
        * (* the sibling is the next proof hash *)
          destruct (cc_step_proof D q rest PD PP wsP tdone apop st h tp1 np1 tdone' apop'
                      I Hroot HsnK HW HtpR HnpR Etp Eall Ftd Fap Hnp1)
            as (ph & wsP' & PP' & Epf & I').
          assert (Esib : pop_sib H (g q) tp1 np1 = None).
          { unfold pop_sib.
            destruct (pop H tp1 np1) as [[[[p2 h2] tp2] np2]|] eqn:Epop2; [|reflexivity].
            destruct (N.eqb_spec (rightSib (g q)) p2) as [E|_]; [|reflexivity]. exfalso.
            rewrite (pps_t_rsib n total Hnle q Hqinf) in E.
            assert (Hp2 : exists c, In c rest /\ p2 = g c).
            { rewrite Forall_forall in HtpR, HnpR.
              destruct (pop_spec H _ _ _ _ _ _ Epop2) as [[E2 _]|[E2 _]].
              - destruct (HtpR (p2, h2)) as (c & Hc & _ & Ec); [rewrite E2; left; reflexivity|].
                exists c. split; [exact Hc|exact Ec].
              - destruct (HnpR (p2, h2)) as (c & Hc & _ & Ec); [rewrite E2; left; reflexivity|].
                exists c. split; [exact Hc|exact Ec]. }
            destruct Hp2 as (c & Hc & ->).
            destruct (cc_split_facts D q rest (ci_K _ _ _ _ _ _ _ _ I))
              as (_ & _ & HrK & _ & Hql & _ & Hqnr & _ & _).
            apply pps_g_inj in E;
              [|exact (pps_rsib_vld n total Ht63 Hnle q Hqinf Hroot)|exact (cc_K_vld c (HrK c Hc))].
            destruct (cc_rsib_cases q) as [E2|E2]; rewrite E2 in E; subst c.
            - exact (Hqnr Hc).
            - exact (HsnK (HrK _ Hc)). }
          rewrite Esib, Epf. cbn [step_k]. eapply IH. exact I'.
  Qed.

  (** ** the result for these data *)
  Theorem cc_run_complete :
    forall f, CPost (calc_loop HO true f n total
                               (mkC 0 tp_all [] [] (ws ++ extra) None [] []) tp_all).
  Proof. intros f. exact (cc_loop f _ _ _ _ _ _ _ _ cc_init). Qed.
End CalcComplete.

(** * 5. [calculateHashes] on an abstract closed target set *)

Lemma cc_Forall2_map_l {A B C} (f : A -> B) (P : B -> C -> Prop) l m :
  Forall2 (fun a c => P (f a) c) l m <-> Forall2 P (map f l) m.
Proof.
  split.
  - intros HF. induction HF as [|a c l m Hac HF IH]; cbn [map]; constructor; assumption.
  - revert m. induction l as [|a l IH]; intros m HF; cbn [map] in HF.
    + inversion HF. constructor.
    + inversion HF as [|b c l' m' Hbc Hrest]; subst. constructor; [exact Hbc|apply IH; exact Hrest].
Qed.

Lemma cc_Forall2_fun {A B} (P : A -> B -> Prop) l m1 m2 :
  (forall a b b', P a b -> P a b' -> b = b') -> Forall2 P l m1 -> Forall2 P l m2 -> m1 = m2.
Proof.
  intros Hfun H1. revert m2. induction H1 as [|a b l m Hab H1 IH]; intros m2 H2.
  - inversion H2. reflexivity.
  - inversion H2 as [|a' b' l' m' Hab' H2']; subst. f_equal; [exact (Hfun a b b' Hab Hab')|].
    apply IH. exact H2'.
Qed.

Lemma cc_NoDup_app {A} (l1 l2 : list A) :
  NoDup l1 -> NoDup l2 -> (forall c, In c l1 -> ~ In c l2) -> NoDup (l1 ++ l2).
Proof.
  intros H1 H2 Hd. induction l1 as [|t l1 IH]; [exact H2|].
  cbn [app]. inversion H1 as [|t' l' Hnin H1']; subst. constructor.
  - intros Hin. apply in_app_or in Hin. destruct Hin as [Hin|Hin]; [exact (Hnin Hin)|].
    exact (Hd t (or_introl eq_refl) Hin).
  - apply IH; [exact H1'|]. intros c Hc. apply Hd. right. exact Hc.
Qed.

Section Wrap.
  Variable H : Type.
  Variable HO : ops H.
  Variable W : N -> H -> Prop.
  Variables n total : N.
  Hypothesis Htotal : total = TreeRows n.
  Hypothesis Hn63 : n <= 2 ^ 63.

  Local Notation g := (g total).
  Local Notation isroot := (is_root_c n).
  Local Notation clt := (clt total).

  (** the hashes paired with the targets: the given ones, or (Go's [nil]) the empty hash *)
  Definition cc_hs (hashes : option (list H)) (targets : list N) : list H :=
    match hashes with Some l => l | None => map (fun _ => op_empty HO) targets end.

  Theorem calc_complete_abs (T anc : list crd)
    (HK1 : forall c, In c (T ++ anc) -> inf n c)
    (HK2 : forall c, In c (T ++ anc) -> isroot c = false -> In (par c) anc)
    (HK3 : forall c, In c anc -> exists c', In c' (T ++ anc) /\ isroot c' = false /\ c = par c')
    (HK4 : forall c, In c T -> ~ In c anc)
    (W_step : forall c h hs, In c (T ++ anc) -> isroot c = false ->
       W (g c) h -> W (g (sib c)) hs -> W (g (par c)) (getNextHash HO (g c) h hs))
    (Ks : list crd) (HKs_sorted : StronglySorted clt Ks)
    (HKs_mem : forall c, In c Ks <-> In c (T ++ anc))
    (PPs : list crd) (HPP_sorted : StronglySorted clt PPs)
    (HPP_mem : forall s, In s PPs <->
       exists c, In c (T ++ anc) /\ isroot c = false /\ ~ In (sib c) (T ++ anc) /\ s = sib c)
    (hashes : option (list H)) (ws extra : list H) :
    NoDup T ->
    Forall2 (fun c h => W (g c) h) T (cc_hs hashes (map g T)) ->
    Forall2 (fun s w => W (g s) w) PPs ws ->
    exists inter cands,
      calculateHashes HO true n hashes (map g T) (ws ++ extra)
        = Ok (inter, cands, map fst (filter isroot Ks)) /\
      Forall2 (fun c h => W (g c) h) (filter isroot Ks) cands /\
      map fst inter = map g Ks /\
      Forall (fun e : hp H => W (fst e) (snd e)) inter.
  Proof.
    intros HndT HWT Hws.
    pose proof (TreeRows_upper n) as Hnle. rewrite <- Htotal in Hnle.
    set (targets := map g T) in *. set (hs := cc_hs hashes targets) in *.
    assert (Hlen : length hs = length targets).
    { unfold targets. rewrite map_length. symmetry. exact (cs_Forall2_length _ _ _ HWT). }
    pose proof (calc_no_out_of_fuel_gen H HO n hashes targets (ws ++ extra) Hn63) as Hnf.
    unfold calculateHashes in *. cbv zeta in *. fold (cc_hs hashes targets) in *. fold hs in Hnf |- *.
    rewrite Hlen, Nat.eqb_refl in Hnf |- *. cbn [negb] in Hnf |- *. rewrite <- Htotal in Hnf |- *.
    set (tp := sortK (zip_hp targets hs)) in *.
    assert (HndK : NoDup (map fst (zip_hp targets hs))).
    { rewrite (cc_zip_hp_fst targets hs Hlen). unfold targets.
      apply pps_NoDup_map_on; [exact HndT|]. intros c Hc.
      apply (pps_inf_vld n total Hnle). apply HK1, in_or_app. left. exact Hc. }
    assert (Htp_sorted : SSlt (map fst tp)) by (apply cc_sortK_SSlt; exact HndK).
    assert (Htp_mem : forall x, In x (map fst tp) <-> In x (map g T)).
    { intros x. fold targets.
      replace (In x targets) with (In x (map fst (zip_hp targets hs)))
        by (rewrite (cc_zip_hp_fst targets hs Hlen); reflexivity).
      split; apply Permutation_in, Permutation_map;
        [apply RefTheory.sortK_perm|apply Permutation_sym, RefTheory.sortK_perm]. }
    assert (Htp_W : Forall (fun e : hp H => W (fst e) (snd e)) tp).
    { apply cs_sortK_Forall. apply cc_zip_hp_Forall2.
      exact (proj1 (cc_Forall2_map_l g W T hs) HWT). }
    destruct (cc_run_complete H HO W n total Htotal Hn63 T anc HK1 HK2 HK3 HK4 W_step
                Ks HKs_sorted HKs_mem PPs HPP_sorted HPP_mem tp Htp_sorted Htp_mem Htp_W
                ws extra Hws (calc_fuel (length targets) total))
      as [Eo|(cf & cands & Eo & Hcf_sorted & Hcf_W & Hcf_mem & Hcands)];
      [exfalso; exact (Hnf Eo)|].
    exists (mergeSortedHashAndPos cf tp), cands. split; [exact Eo|]. split; [exact Hcands|].
    destruct (cc_mergeSorted_spec H cf tp Hcf_sorted Htp_sorted) as (M1 & M2 & M3).
    split.
    - apply pps_SSlt_ext; [exact M1|apply pps_clt_map; exact HKs_sorted|].
      intros x. rewrite M2, Hcf_mem, Htp_mem, !in_map_iff. split.
      + intros [(c & E & Hc)|(c & E & Hc)]; exists c; (split; [exact E|]);
          apply HKs_mem, in_or_app; [right|left]; exact Hc.
      + intros (c & E & Hc). apply HKs_mem, in_app_or in Hc.
        destruct Hc as [Hc|Hc]; [right|left]; exists c; split; assumption.
    - apply Forall_forall. intros e He. rewrite Forall_forall in Hcf_W, Htp_W.
      destruct (M3 e He) as [Hin|Hin]; [exact (Hcf_W e Hin)|exact (Htp_W e Hin)].
  Qed.
End Wrap.

(** * 6. Valid target sets ([Geometry.pp_valid]) *)

Section ConcreteGeo.
  Variable n : N.
  Hypothesis Hn63 : n <= 2 ^ 63.

  Local Notation total := (TreeRows n).
  Local Notation g := (g total).
  Local Notation isroot := (is_root_c n).
  Local Notation clt := (clt total).

  Lemma cc_c_t63 : total <= 63. Proof. apply TreeRows_le_63. exact Hn63. Qed.
  Lemma cc_c_nle : n <= 2 ^ total. Proof. apply TreeRows_upper. Qed.

  (** the proper ancestors of the targets, and the targets with their ancestors *)
  Definition cc_anc (T : list crd) : list crd := cdedup (flat_map (ancestors 70 n) T).
  Definition cc_K (T : list crd) : list crd := T ++ cc_anc T.

  (** ascending arrangement of a list of coordinates *)
  Definition cc_sortC (l : list crd) : list crd :=
    map snd (sortK (map (fun c => (g c, c)) l)).

  Lemma cc_sortC_spec l : NoDup l -> (forall c, In c l -> vld total c) ->
    StronglySorted clt (cc_sortC l) /\ (forall c, In c (cc_sortC l) <-> In c l).
  Proof.
    intros Hnd Hv. unfold cc_sortC. set (L := map (fun c => (g c, c)) l).
    assert (HL : map fst L = map g l) by (unfold L; rewrite map_map; reflexivity).
    assert (Hent : Forall (fun e : N * crd => fst e = g (snd e)) (sortK L)).
    { apply cs_sortK_Forall. unfold L. apply Forall_forall. intros e He.
      apply in_map_iff in He. destruct He as (c & <- & _). reflexivity. }
    split.
    - apply pps_clt_map. rewrite map_map.
      replace (map (fun x : N * crd => g (snd x)) (sortK L)) with (map fst (sortK L)).
      + apply cc_sortK_SSlt. rewrite HL. apply pps_NoDup_map_on; assumption.
      + apply map_ext_in. intros e He. rewrite Forall_forall in Hent. exact (Hent e He).
    - intros c. rewrite in_map_iff. split.
      + intros (e & <- & He). apply (proj1 (cs_sortK_in e L)) in He. unfold L in He.
        apply in_map_iff in He. destruct He as (c & <- & Hc). exact Hc.
      + intros Hc. exists (g c, c). split; [reflexivity|]. apply (proj2 (cs_sortK_in (g c, c) L)). unfold L.
        apply in_map_iff. exists c. split; [reflexivity|exact Hc].
  Qed.

  (** what validity of the targets gives *)
  Lemma cc_valid_facts T : pp_valid n total T = true ->
    (forall c, In c (cc_K T) -> inf n c) /\
    (forall c, In c (cc_K T) -> isroot c = false -> In (par c) (cc_anc T)) /\
    (forall c, In c (cc_anc T) -> exists c', In c' (cc_K T) /\ isroot c' = false /\ c = par c') /\
    (forall c, In c T -> ~ In c (cc_anc T)) /\
    NoDup T /\ NoDup (cc_anc T).
  Proof.
    intros Hval. pose proof cc_c_t63 as Hh. pose proof cc_c_nle as Hn.
    unfold pp_valid in Hval. apply Bool.andb_true_iff in Hval. destruct Hval as [Hval Hv3].
    apply Bool.andb_true_iff in Hval. destruct Hval as [Hv1 Hv2].
    rewrite forallb_forall in Hv1, Hv2.
    assert (Hcs : forall c, In c T -> inf n c).
    { intros c Hc. specialize (Hv1 c Hc). apply Bool.andb_true_iff in Hv1. apply Hv1. }
    assert (Hanc : forall c, In c (cc_anc T) <-> exists t, In t T /\ In c (ancestors 70 n t)).
    { intros c. unfold cc_anc. rewrite pps_cdedup_In, in_flat_map. reflexivity. }
    assert (Hfuel : forall c : crd, (N.to_nat (total + 1 - fst c) <= 70)%nat) by (intros c; lia).
    unfold cc_K. split; [|split; [|split; [|split; [|split]]]].
    - intros c Hc. apply in_app_or in Hc. destruct Hc as [Hc|Hc]; [apply Hcs; assumption|].
      apply Hanc in Hc. destruct Hc as [t [Ht Hc]]. exact (pps_anc_inf n 70 t (Hcs t Ht) c Hc).
    - intros c Hc Hroot. apply in_app_or in Hc. destruct Hc as [Hc|Hc].
      + apply Hanc. exists c. split; [assumption|].
        destruct (pps_anc_closed n total Hh Hn 70 c (Hcs c Hc) (Hfuel c)) as [Hcl _].
        apply Hcl. exact Hroot.
      + apply Hanc in Hc. destruct Hc as [t [Ht Hc]]. apply Hanc. exists t. split; [assumption|].
        destruct (pps_anc_closed n total Hh Hn 70 t (Hcs t Ht) (Hfuel t)) as [_ Hcl].
        apply Hcl; assumption.
    - intros c Hc. apply Hanc in Hc. destruct Hc as [t [Ht Hc]].
      destruct (pps_anc_src n 70 t c Hc) as [c' (H1 & H2 & H3)]. exists c'.
      split; [|split; assumption]. apply in_or_app. destruct H1 as [->|H1]; [left; assumption|right].
      apply Hanc. exists t. split; assumption.
    - intros c Hc Hin. specialize (Hv2 c Hc). apply Bool.negb_true_iff, pps_cmem_false in Hv2.
      apply Hv2. unfold cc_anc in Hin. exact (proj1 (pps_cdedup_In _ _) Hin).
    - apply pps_cdedup_length_NoDup. exact Hv3.
    - apply pps_cdedup_NoDup.
  Qed.

  (** the rows of the roots among ascending positions ascend *)
  Lemma cc_root_rows_sorted (l : list crd) : StronglySorted clt l ->
    (forall c, In c l -> vld total c) -> SSlt (map fst (filter isroot l)).
  Proof.
    intros HS Hv. induction HS as [|a l HS IH Ha]; [constructor|].
    assert (IH' : SSlt (map fst (filter isroot l))) by (apply IH; intros c Hc; apply Hv; right; exact Hc).
    cbn [filter]. destruct (isroot a) eqn:Era; [|exact IH'].
    cbn [map]. constructor; [exact IH'|]. apply Forall_forall. intros r Hr.
    apply in_map_iff in Hr. destruct Hr as (c & <- & Hc). apply filter_In in Hc.
    destruct Hc as [Hc Erc]. rewrite Forall_forall in Ha. specialize (Ha c Hc).
    unfold ProofPosSpec.clt in Ha.
    pose proof (pps_g_lt_row n total cc_c_t63 cc_c_nle a c (Hv a (or_introl eq_refl))
                  (Hv c (or_intror Hc)) Ha) as Hle.
    destruct (N.eq_dec (fst a) (fst c)) as [E|E]; [exfalso|lia].
    destruct a as [ra oa], c as [rc oc]. cbn [fst] in E. subst rc.
    apply pps_is_root_iff in Era. apply pps_is_root_iff in Erc.
    destruct Era as [_ ->]. destruct Erc as [_ ->]. lia.
  Qed.

  (** a root coordinate is the root position of its row *)
  Lemma cc_root_pos c : vld total c -> isroot c = true -> g c = rootPosition n (fst c) total.
  Proof.
    intros [Hr _] Hc. rewrite rootPosition_gpos; [|exact cc_c_t63|exact Hr|exact cc_c_nle].
    unfold is_root_c in Hc. apply Bool.andb_true_iff in Hc. destruct Hc as [_ Hc].
    apply N.eqb_eq in Hc. unfold ProofPosSpec.g. rewrite Hc. reflexivity.
  Qed.


  Lemma cc_K_NoDup_vld T : pp_valid n total T = true ->
    NoDup (cc_K T) /\ (forall c, In c (cc_K T) -> vld total c) /\ NoDup T.
  Proof.
    intros Hval. destruct (cc_valid_facts T Hval) as (HK1 & _ & _ & HK4 & HndT & Hnda).
    split; [apply cc_NoDup_app; assumption|]. split; [|exact HndT].
    intros c Hc. exact (pps_inf_vld n total cc_c_nle c (HK1 c Hc)).
  Qed.

  (** the targets with their ancestors, ascending *)
  Lemma cc_Ks_spec T : pp_valid n total T = true ->
    StronglySorted clt (cc_sortC (cc_K T)) /\
    (forall c, In c (cc_sortC (cc_K T)) <-> In c (cc_K T)).
  Proof.
    intros Hval. destruct (cc_K_NoDup_vld T Hval) as (Hnd & Hv & _).
    exact (cc_sortC_spec (cc_K T) Hnd Hv).
  Qed.

  (** the canonical proof positions of valid targets: the siblings of the non-root members of
      [K] that are not in [K], ascending ([ProofPosSpec.proof_positions_members]) *)
  Lemma cc_pp_positions T : pp_valid n total T = true ->
    exists bs, fst (ProofPositions (sortN (map g T)) n total) = map g bs /\
      SSlt (map g bs) /\
      (forall s, In s bs <-> exists c, In c (cc_K T) /\ isroot c = false /\
                                       ~ In (sib c) (cc_K T) /\ s = sib c).
  Proof.
    intros Hval. pose proof cc_c_t63 as Hh. pose proof cc_c_nle as Hn.
    destruct (cc_valid_facts T Hval) as (HK1 & HK2 & HK3 & HK4 & HndT & Hnda).
    unfold cc_K in *. set (anc := cc_anc T) in *.
    assert (HvT : forall c, In c T -> vld total c).
    { intros c Hc. apply (pps_inf_vld n total Hn), HK1, in_or_app. left. exact Hc. }
    destruct (cc_sortC_spec T HndT HvT) as [HTs_sorted HTs_mem].
    set (Ts := cc_sortC T) in *.
    assert (HTK : forall c, In c (Ts ++ anc) <-> In c (T ++ anc)).
    { intros c. rewrite !in_app_iff, HTs_mem. reflexivity. }
    destruct (proof_positions_members n total Ts anc Hh Hn) as (bs & ds & Epp & Hbs & _ & Hbmem & _).
    { intros c Hc. apply HK1, HTK. exact Hc. }
    { intros c Hc. apply HK2, HTK. exact Hc. }
    { intros c Hc. destruct (HK3 c Hc) as (c' & Hc' & Hr' & E). exists c'.
      split; [apply HTK; exact Hc'|]. split; assumption. }
    { intros c Hc. apply HK4, HTs_mem. exact Hc. }
    { apply pps_clt_map. exact HTs_sorted. }
    assert (ETs : sortN (map g T) = map g Ts).
    { apply pps_sortN_unique.
      - apply pps_clt_map. exact HTs_sorted.
      - apply pps_NoDup_map_on; assumption.
      - intros x. rewrite !in_map_iff. split; intros (c & E & Hc); exists c;
          (split; [exact E|apply HTs_mem; exact Hc]). }
    exists bs. rewrite ETs, Epp. split; [reflexivity|]. split; [exact Hbs|].
    intros s. rewrite Hbmem. split; intros (c & Hc & Hr & Hns & E); exists c.
    - split; [apply HTK; exact Hc|]. split; [exact Hr|]. split; [|exact E].
      intros Hin. apply Hns, HTK. exact Hin.
    - split; [apply HTK; exact Hc|]. split; [exact Hr|]. split; [|exact E].
      intros Hin. apply Hns, HTK. exact Hin.
  Qed.
End ConcreteGeo.

Section Concrete.
  Variable H : Type.
  Variable HO : ops H.
  Variable W : N -> H -> Prop.
  Variable n : N.
  Hypothesis Hn63 : n <= 2 ^ 63.

  Local Notation total := (TreeRows n).
  Local Notation g := (g total).
  Local Notation isroot := (is_root_c n).
  Local Notation clt := (clt total).
  Local Notation cc_K := (cc_K n).
  Local Notation cc_anc := (cc_anc n).
  Local Notation cc_sortC := (cc_sortC n).

  (** THEOREM (coordinate form of the step hypothesis).  [T] lists the target coordinates in the
      order in which the caller passes them; [hashes = None] is Go's [nil]. *)
  Theorem calc_complete_c (T : list crd) (hashes : option (list H)) (ws extra : list H) :
    pp_valid n total T = true ->
    (forall c h hs, In c (cc_K T) -> isroot c = false ->
       W (g c) h -> W (g (sib c)) hs -> W (g (par c)) (getNextHash HO (g c) h hs)) ->
    Forall2 (fun c h => W (g c) h) T (cc_hs H HO hashes (map g T)) ->
    Forall2 W (fst (ProofPositions (sortN (map g T)) n total)) ws ->
    let Ks := cc_sortC (cc_K T) in
    let rows := map fst (filter isroot Ks) in
    exists inter cands,
      calculateHashes HO true n hashes (map g T) (ws ++ extra) = Ok (inter, cands, rows) /\
      SSlt rows /\
      Forall2 (fun r c => W (rootPosition n r total) c) rows cands /\
      map fst inter = map g Ks /\
      Forall (fun e : hp H => W (fst e) (snd e)) inter.
  Proof.
    intros Hval W_step HWT Hws Ks rows.
    pose proof (cc_c_t63 n Hn63) as Hh. pose proof (cc_c_nle n) as Hn.
    destruct (cc_valid_facts n Hn63 T Hval) as (HK1 & HK2 & HK3 & HK4 & HndT & Hnda).
    destruct (cc_K_NoDup_vld n Hn63 T Hval) as (HndK & HvK & _).
    destruct (cc_Ks_spec n Hn63 T Hval) as [HKs_sorted HKs_mem]. fold Ks in HKs_sorted, HKs_mem.
    destruct (cc_pp_positions n Hn63 T Hval) as (bs & Epp & Hbs & HPP_mem).
    rewrite Epp in Hws. unfold cc_K in *.
    destruct (calc_complete_abs H HO W n total eq_refl Hn63 T (cc_anc T) HK1 HK2 HK3 HK4 W_step
                Ks HKs_sorted HKs_mem bs (proj2 (pps_clt_map total bs) Hbs) HPP_mem
                hashes ws extra HndT HWT (proj2 (cc_Forall2_map_l g W bs ws) Hws))
      as (inter & cands & Ecalc & Hcands & Hinter & HinterW).
    exists inter, cands. split; [exact Ecalc|]. split.
    { apply (cc_root_rows_sorted n Hn63); [exact HKs_sorted|]. intros c Hc. apply HvK, HKs_mem. exact Hc. }
    split; [|split; assumption].
    apply cc_Forall2_map_l.
    assert (Hroots : forall c, In c (filter isroot Ks) -> g c = rootPosition n (fst c) total).
    { intros c Hc. apply filter_In in Hc. destruct Hc as [Hc Hr].
      apply (cc_root_pos n Hn63); [apply HvK, HKs_mem; exact Hc|exact Hr]. }
    clear - Hcands Hroots. induction Hcands as [|c h l m Hch HF IH]; constructor.
    - rewrite <- (Hroots c (or_introl eq_refl)). exact Hch.
    - apply IH. intros c' Hc'. apply Hroots. right. exact Hc'.
  Qed.
End Concrete.

(** * 7. The theorem in position form, its variants *)

Section Final.
  Variable H : Type.
  Variable HO : ops H.
  Variable W : N -> H -> Prop.
  Variable n : N.
  Hypothesis Hn63 : n <= 2 ^ 63.

  Local Notation total := (TreeRows n).
  Local Notation g := (g total).
  Local Notation isroot := (is_root_c n).
  Local Notation clt := (clt total).

  (** FORWARD STEP: the dual of [CalcSound]'s [V_step], stated with [getNextHash] itself *)
  Hypothesis W_step : forall p h hs,
    W p h -> W (sibling p) hs -> W (Parent p total) (getNextHash HO p h hs).

  (** what [calculateHashes] reports on the valid targets [T]: with
      [Ks] = the targets and their ancestors in ascending order ([cc_Ks_spec]) and
      [rows] = the rows of the roots among them, i.e. of the trees that hold targets *)
  Definition cc_result (T : list crd) (o : outcome (calc_result H)) : Prop :=
    let Ks := cc_sortC n (cc_K n T) in
    let rows := map fst (filter isroot Ks) in
    exists inter cands,
      o = Ok (inter, cands, rows) /\
      SSlt rows /\
      (* each candidate is a [W]-value of the root of its row *)
      Forall2 (fun r c => W (rootPosition n r total) c) rows cands /\
      (* the computed positions are exactly the positions of [Ks], each with a [W]-value *)
      map fst inter = map g Ks /\
      Forall (fun e : hp H => W (fst e) (snd e)) inter.

  Theorem calc_complete_gen (T : list crd) (hashes : option (list H)) (ws extra : list H) :
    pp_valid n total T = true ->
    Forall2 (fun c h => W (g c) h) T (cc_hs H HO hashes (map g T)) ->
    Forall2 W (fst (ProofPositions (sortN (map g T)) n total)) ws ->
    cc_result T (calculateHashes HO true n hashes (map g T) (ws ++ extra)).
  Proof.
    intros Hval HWT Hws. unfold cc_result.
    destruct (cc_valid_facts n Hn63 T Hval) as (HK1 & _).
    apply (calc_complete_c H HO W n Hn63 T hashes ws extra Hval); [|exact HWT|exact Hws].
    intros c h hs Hc Hr Hh Hhs. pose proof (HK1 c Hc) as Hinf.
    rewrite <- (pps_t_par n total (cc_c_t63 n Hn63) (cc_c_nle n) c Hinf Hr).
    apply W_step; [exact Hh|].
    rewrite (pps_t_sib n total (cc_c_nle n) c Hinf). exact Hhs.
  Qed.

  (** verification: the targets come with their hashes, in any order *)
  Theorem calc_complete (T : list crd) (hashes ws extra : list H) :
    pp_valid n total T = true ->
    Forall2 W (map g T) hashes ->
    Forall2 W (fst (ProofPositions (sortN (map g T)) n total)) ws ->
    cc_result T (calculateHashes HO true n (Some hashes) (map g T) (ws ++ extra)).
  Proof.
    intros Hval HWT Hws. apply calc_complete_gen; [exact Hval| |exact Hws].
    cbn [cc_hs]. apply cc_Forall2_map_l. exact HWT.
  Qed.

  (** deletion ([Stump.del] passes [nil] hashes): the targets carry the empty hash *)
  Theorem calc_complete_none (T : list crd) (ws extra : list H) :
    pp_valid n total T = true ->
    (forall c, In c T -> W (g c) (op_empty HO)) ->
    Forall2 W (fst (ProofPositions (sortN (map g T)) n total)) ws ->
    cc_result T (calculateHashes HO true n None (map g T) (ws ++ extra)).
  Proof.
    intros Hval HWT Hws. apply calc_complete_gen; [exact Hval| |exact Hws].
    cbn [cc_hs]. rewrite map_map. clear - HWT. induction T as [|t T IH]; cbn [map]; constructor.
    - apply HWT. left. reflexivity.
    - apply IH. intros c Hc. apply HWT. right. exact Hc.
  Qed.

  (** a functional valuation: the candidates ARE the values of the roots *)
  Theorem calc_complete_functional (T : list crd) (o : outcome (calc_result H)) :
    (forall p h h', W p h -> W p h' -> h = h') ->
    cc_result T o ->
    forall inter cands rows vals, o = Ok (inter, cands, rows) ->
      Forall2 (fun r v => W (rootPosition n r total) v) rows vals -> cands = vals.
  Proof.
    intros Hfun (inter0 & cands0 & E0 & _ & HF & _) inter cands rows vals E Hvals.
    rewrite E0 in E. injection E as -> -> <-.
    apply (cc_Forall2_fun _ _ _ _ (fun r => Hfun (rootPosition n r total)) HF Hvals).
  Qed.
End Final.

(** The statement, closed (for reference by other files). *)
Definition calc_complete_statement : Prop :=
  forall (H : Type) (HO : ops H) (W : N -> H -> Prop) (n : N),
    n <= 2 ^ 63 ->
    (forall p h hs, W p h -> W (sibling p) hs ->
                    W (Parent p (TreeRows n)) (getNextHash HO p h hs)) ->
    forall (T : list crd) (hashes : option (list H)) (ws extra : list H),
      pp_valid n (TreeRows n) T = true ->
      Forall2 (fun c h => W (g (TreeRows n) c) h) T
              (cc_hs H HO hashes (map (g (TreeRows n)) T)) ->
      Forall2 W (fst (ProofPositions (sortN (map (g (TreeRows n)) T)) n (TreeRows n))) ws ->
      let Ks := cc_sortC n (cc_K n T) in
      let rows := map fst (filter (is_root_c n) Ks) in
      StronglySorted (clt (TreeRows n)) Ks /\ (forall c, In c Ks <-> In c (cc_K n T)) /\
      exists inter cands,
        calculateHashes HO true n hashes (map (g (TreeRows n)) T) (ws ++ extra)
          = Ok (inter, cands, rows) /\
        StronglySorted N.lt rows /\
        Forall2 (fun r c => W (rootPosition n r (TreeRows n)) c) rows cands /\
        map fst inter = map (g (TreeRows n)) Ks /\
        Forall (fun e : hp H => W (fst e) (snd e)) inter.

Theorem calc_complete_holds : calc_complete_statement.
Proof.
  unfold calc_complete_statement. intros H HO W n Hn Hstep T hashes ws extra Hval HWT Hws.
  split; [exact (proj1 (cc_Ks_spec n Hn T Hval))|]. split; [exact (proj2 (cc_Ks_spec n Hn T Hval))|].
  exact (calc_complete_gen H HO W n Hn Hstep T hashes ws extra Hval HWT Hws).
Qed.

Print Assumptions calc_complete_holds.
