(** Completeness (forward direction) of the verifier core [calculateHashes] (mirror
    [Model.Verify], repaired form [strict = true]), and its two corollaries on the reference forest.

    Pick a "valuation" [W : N -> H -> Prop] on claims (position, hash) that is closed under one
    hashing step in the forward direction: [W] of a position and [W] of its sibling give [W] of
    the parent position at [getNextHash] of the two hashes.  Feed [calculateHashes] with valid
    targets (all in the forest, pairwise distinct, none an ancestor of another; any order) carrying
    [W]-hashes and with [W]-hashes of the canonical proof positions in ascending order (followed
    by anything).  Then the hashing loop succeeds; the computed positions are exactly the targets
    and their ancestors, each with a [W]-hash; the reported candidates are [W]-hashes of the roots
    of the trees that contain targets, reported with the rows of those roots in ascending order
    ([calc_complete], [calc_complete_none], [calc_complete_functional], [calc_complete_holds]).

    This is the dual of [Proofs.CalcSound]; the loop is analysed through [calc_step]/[calc_loop_S]
    of [Proofs.CalcTotal] and the coordinate calculus of [Proofs.ProofPosSpec].

    Sections
      1-2   list helpers, [mergeSortedHashAndPos], the row loop on a position of the forest;
      3-4   the loop invariant [CInv] and the induction ([cc_loop]);
      5-7   [calculateHashes] on an abstract closed set, on [Geometry.pp_valid] targets, the
            position form and its variants;
      8-9   the reference forest ([Spec.Forest]): nodes vs geometric coordinates, the set [K],
            LINK "canonical proof positions of the reference = [ProofPositions]" ([rt_canon_pos]);
      10    C-A [verify_complete]: the verifier accepts every canonical proof;
      11    C-B [stump_del_refines]: [Stump.del] yields the roots of the forest after the deletion;
      12    [verify_complete_indexes]: the indexes returned are the oracle's [exp_root_indexes];
      13    non-vacuity by computation in the free hash algebra. *)
From Utreexo Require Import Model.Verify Proofs.UtilsGeom Proofs.UtilsGeom2 Proofs.CalcTotal
                            Proofs.CalcSound Spec.Geometry Proofs.ProofPosSpec Spec.Term.
From Utreexo Require Proofs.SpecBasics Proofs.RefTheory.
From Coq Require Import Lia ZifyN ZifyNat ZifyBool List Sorted Permutation PeanoNat.
Import ListNotations.
Open Scope N_scope.

Local Notation SSlt := (StronglySorted N.lt).

(** * 1. List helpers (prefixed [cc_]) *)

Lemma cc_SS_app_inv {A} (R : A -> A -> Prop) l1 l2 :
  StronglySorted R (l1 ++ l2) ->
  StronglySorted R l1 /\ StronglySorted R l2 /\ (forall x y, In x l1 -> In y l2 -> R x y).
Proof.
  induction l1 as [|a l1 IH]; intros HS.
  - split; [constructor|]. split; [exact HS|]. intros x y [].
  - cbn [app] in HS. inversion HS as [|a' l' Hl Ha]; subst.
    destruct (IH Hl) as (H1 & H2 & H3). rewrite Forall_forall in Ha.
    split.
    + constructor; [exact H1|]. apply Forall_forall. intros x Hx. apply Ha.
      apply in_or_app. left. exact Hx.
    + split; [exact H2|]. intros x y [<-|Hx] Hy.
      * apply Ha. apply in_or_app. right. exact Hy.
      * exact (H3 x y Hx Hy).
Qed.

Lemma cc_SS_cons_inv {A} (R : A -> A -> Prop) a l :
  StronglySorted R (a :: l) -> StronglySorted R l /\ (forall y, In y l -> R a y).
Proof.
  intros HS. inversion HS as [|a' l' Hl Ha]; subst. rewrite Forall_forall in Ha.
  split; assumption.
Qed.

Lemma cc_SS_snoc {A} (R : A -> A -> Prop) l a :
  StronglySorted R l -> (forall x, In x l -> R x a) -> StronglySorted R (l ++ [a]).
Proof.
  intros HS Ha. apply pps_SS_app; [exact HS|repeat constructor|].
  intros x y Hx [<-|[]]. exact (Ha x Hx).
Qed.

Lemma cc_SSlt_NoDup l : SSlt l -> NoDup l.
Proof. apply pps_SSlt_NoDup. Qed.

Lemma cc_in_map_fst {A B} (l : list (A * B)) x : In x (map fst l) <-> exists y, In (x, y) l.
Proof.
  rewrite in_map_iff. split.
  - intros ([a b] & E & Hin). cbn [fst] in E. subst a. exists b. exact Hin.
  - intros (y & Hin). exists (x, y). split; [reflexivity|exact Hin].
Qed.

Lemma cc_Forall2_app_inv_l {A B} (P : A -> B -> Prop) l1 l2 l :
  Forall2 P (l1 ++ l2) l ->
  exists m1 m2, l = m1 ++ m2 /\ Forall2 P l1 m1 /\ Forall2 P l2 m2.
Proof.
  revert l. induction l1 as [|a l1 IH]; intros l HF.
  - exists [], l. split; [reflexivity|]. split; [constructor|exact HF].
  - cbn [app] in HF. inversion HF as [|a' b l' m Hab Hrest]; subst.
    destruct (IH m Hrest) as (m1 & m2 & -> & H1 & H2).
    exists (b :: m1), m2. split; [reflexivity|]. split; [constructor; assumption|exact H2].
Qed.

Lemma cc_Forall2_snoc {A B} (P : A -> B -> Prop) l m a b :
  Forall2 P l m -> P a b -> Forall2 P (l ++ [a]) (m ++ [b]).
Proof.
  intros HF Hab. induction HF as [|x y l m Hxy HF IH]; cbn [app].
  - constructor; [exact Hab|constructor].
  - constructor; assumption.
Qed.

Lemma cc_filter_snoc {A} (f : A -> bool) l a :
  filter f (l ++ [a]) = filter f l ++ (if f a then [a] else []).
Proof.
  induction l as [|x l IH]; cbn [app filter]; [destruct (f a); reflexivity|].
  rewrite IH. destruct (f x); reflexivity.
Qed.

(** ** the stable sort by key *)

Lemma cc_ascK_SSle {A} (l : list (N * A)) : SpecBasics.ascK l -> StronglySorted N.le (map fst l).
Proof.
  induction 1 as [|x|x y l Hxy Hl IH]; cbn [map].
  - constructor.
  - repeat constructor.
  - cbn [map] in IH. constructor; [exact IH|].
    destruct (cc_SS_cons_inv _ _ _ IH) as [_ Hy].
    constructor; [exact Hxy|]. apply Forall_forall. intros z Hz. specialize (Hy z Hz). lia.
Qed.

Lemma cc_sortK_SSlt {A} (l : list (N * A)) : NoDup (map fst l) -> SSlt (map fst (sortK l)).
Proof.
  intros Hnd. apply pps_SSle_NoDup_SSlt.
  - apply cc_ascK_SSle. apply SpecBasics.sortK_asc.
  - eapply Permutation_NoDup; [|exact Hnd].
    apply Permutation_map, Permutation_sym, RefTheory.sortK_perm.
Qed.

Lemma cc_zip_hp_fst {H} : forall (ts : list N) (hs : list H),
  length hs = length ts -> map fst (zip_hp ts hs) = ts.
Proof.
  induction ts as [|t ts IH]; intros hs Hl; [reflexivity|].
  destruct hs as [|h hs]; [discriminate|]. cbn [zip_hp map fst]. f_equal.
  apply IH. cbn [length] in Hl. lia.
Qed.

Lemma cc_zip_hp_Forall2 {H} (P : N -> H -> Prop) : forall ts hs,
  Forall2 P ts hs -> Forall (fun e : N * H => P (fst e) (snd e)) (zip_hp ts hs).
Proof.
  intros ts hs HF. induction HF as [|t h ts hs Hth HF IH]; cbn [zip_hp]; [constructor|].
  constructor; [exact Hth|exact IH].
Qed.

(** ** [mergeSortedHashAndPos] of two strictly ascending lists *)

Section Merge.
  Variable H : Type.
  Local Notation hp := (hp H).

  Lemma cc_merge_in : forall fuel (a b : list hp) e,
    In e (merge_hp fuel a b) -> In e a \/ In e b.
  Proof.
    induction fuel as [|f IH]; intros a b e Hin; [destruct Hin|].
    cbn [merge_hp] in Hin. destruct a as [|x a]; [right; exact Hin|].
    destruct b as [|y b]; [left; exact Hin|].
    destruct (fst x <? fst y).
    - destruct Hin as [<-|Hin]; [left; left; reflexivity|].
      destruct (IH _ _ _ Hin) as [Ha|Hb]; [left; right; exact Ha|right; exact Hb].
    - destruct (fst y <? fst x).
      + destruct Hin as [<-|Hin]; [right; left; reflexivity|].
        destruct (IH _ _ _ Hin) as [Ha|Hb]; [left; exact Ha|right; right; exact Hb].
      + destruct Hin as [<-|Hin]; [left; left; reflexivity|].
        destruct (IH _ _ _ Hin) as [Ha|Hb]; [left; right; exact Ha|right; right; exact Hb].
  Qed.

  Lemma cc_merge_keys : forall fuel (a b : list hp),
    (length a + length b < fuel)%nat -> SSlt (map fst a) -> SSlt (map fst b) ->
    SSlt (map fst (merge_hp fuel a b)) /\
    (forall x, In x (map fst (merge_hp fuel a b)) <-> In x (map fst a) \/ In x (map fst b)).
  Proof.
    induction fuel as [|f IH]; intros a b Hf Ha Hb; [lia|].
    cbn [merge_hp]. destruct a as [|x a].
    { split; [exact Hb|]. intros z. cbn [map In]. tauto. }
    destruct b as [|y b].
    { split; [exact Ha|]. intros z. cbn [map In]. tauto. }
    cbn [map] in Ha, Hb.
    destruct (cc_SS_cons_inv _ _ _ Ha) as [Ha' Hxa].
    destruct (cc_SS_cons_inv _ _ _ Hb) as [Hb' Hyb].
    cbn [length] in Hf.
    destruct (N.ltb_spec (fst x) (fst y)) as [Hxy|Hxy].
    - destruct (IH a (y :: b) ltac:(cbn [length]; lia) Ha' Hb) as [IH1 IH2].
      cbn [map]. split.
      + constructor; [exact IH1|]. apply Forall_forall. intros z Hz. apply IH2 in Hz.
        destruct Hz as [Hz|Hz]; [exact (Hxa z Hz)|]. cbn [map In] in Hz.
        destruct Hz as [<-|Hz]; [exact Hxy|]. specialize (Hyb z Hz). lia.
      + intros z. cbn [In]. rewrite IH2. cbn [map In]. tauto.
    - destruct (N.ltb_spec (fst y) (fst x)) as [Hyx|Hyx].
      + destruct (IH (x :: a) b ltac:(cbn [length]; lia) Ha Hb') as [IH1 IH2].
        cbn [map]. split.
        * constructor; [exact IH1|]. apply Forall_forall. intros z Hz. apply IH2 in Hz.
          destruct Hz as [Hz|Hz]; [|exact (Hyb z Hz)]. cbn [map In] in Hz.
          destruct Hz as [<-|Hz]; [exact Hyx|]. specialize (Hxa z Hz). lia.
        * intros z. cbn [In]. rewrite IH2. cbn [map In]. tauto.
      + assert (Exy : fst x = fst y) by lia.
        destruct (IH a b ltac:(lia) Ha' Hb') as [IH1 IH2].
        cbn [map]. split.
        * constructor; [exact IH1|]. apply Forall_forall. intros z Hz. apply IH2 in Hz.
          destruct Hz as [Hz|Hz]; [exact (Hxa z Hz)|]. rewrite Exy. exact (Hyb z Hz).
        * intros z. cbn [In]. rewrite IH2. rewrite Exy. tauto.
  Qed.

  Lemma cc_mergeSorted_spec (a b : list hp) :
    SSlt (map fst a) -> SSlt (map fst b) ->
    SSlt (map fst (mergeSortedHashAndPos a b)) /\
    (forall x, In x (map fst (mergeSortedHashAndPos a b)) <-> In x (map fst a) \/ In x (map fst b)) /\
    (forall e, In e (mergeSortedHashAndPos a b) -> In e a \/ In e b).
  Proof.
    intros Ha Hb. unfold mergeSortedHashAndPos.
    destruct (cc_merge_keys (S (length a + length b)) a b ltac:(lia) Ha Hb) as [H1 H2].
    split; [exact H1|]. split; [exact H2|]. intros e. apply cc_merge_in.
  Qed.
End Merge.

(** * 2. Geometry: the row loop on a position of the forest *)

Section Geo.
  Variables n total : N.
  Hypothesis Ht63 : total <= 63.
  Hypothesis Hnle : n <= 2 ^ total.

  Local Notation g := (g total).
  Local Notation inf := (inf n).
  Local Notation vld := (vld total).
  Local Notation mp := (mpos n total).

  (** a position of the forest does not exceed the maximal position of its row *)
  Lemma cc_mpos_ge c : inf c -> g c <= mp (fst c).
  Proof.
    intros Hc. pose proof (pps_inf_vld n total Hnle c Hc) as [Hr Ho].
    rewrite ct_mpos_eq by assumption.
    apply pps_in_forest_iff in Hc. unfold ProofPosSpec.g, UtilsGeom.gpos. lia.
  Qed.

  (** ... and lies above the maximal position of every lower row *)
  Lemma cc_mpos_lt c r : vld c -> r < fst c -> mp r < g c.
  Proof.
    intros [Hr Ho] Hlt. rewrite ct_mpos_eq by (try assumption; lia).
    pose proof (ct_div_pow2_le n total r Hnle ltac:(lia)) as Hq.
    pose proof (pow2_pos (total - r)) as Hpos.
    pose proof (gpos_row_mono total r (2 ^ (total - r) - 1) (fst c) (snd c) Hlt Hr ltac:(lia)) as Hm.
    unfold ProofPosSpec.g. unfold UtilsGeom.gpos at 1 in Hm. lia.
  Qed.

  Lemma cc_row_loop c : inf c -> forall fuel cr, cr <= fst c ->
    (N.to_nat (fst c - cr) < fuel)%nat ->
    row_loop true fuel (g c) cr total n = Some (Some (fst c)).
  Proof.
    intros Hc. pose proof (pps_inf_vld n total Hnle c Hc) as Hv. pose proof Hv as [Hr Ho].
    induction fuel as [|f IH]; intros cr Hcr Hf; [lia|].
    cbn [row_loop]. change (fst (maxPositionAtRow cr total n)) with (mp cr).
    destruct (N.ltb_spec (mp cr) (g c)) as [Hlt|Hge].
    - assert (Hne : cr <> fst c).
      { intros ->. pose proof (cc_mpos_ge c Hc). lia. }
      rewrite ct_add8_small by lia. cbn [andb].
      destruct (N.ltb_spec total (cr + 1)) as [Hend|_]; [lia|].
      apply IH; lia.
    - destruct (N.eq_dec cr (fst c)) as [->|Hne]; [reflexivity|].
      pose proof (cc_mpos_lt c cr Hv ltac:(lia)). lia.
  Qed.

  Hypothesis Htotal : total = TreeRows n.

  Lemma cc_isRoot c : inf c -> isRootPositionOnRow (g c) n (fst c) = is_root_c n c.
  Proof.
    intros Hc. assert (Hn63 : n <= 2 ^ 63).
    { pose proof (pow2_le total 63 Ht63). lia. }
    pose proof (pps_t_root n total Ht63 Hnle c Hc) as E.
    unfold isRootPositionOnRowTotalRows in E. rewrite <- Htotal, N.eqb_refl in E. exact E.
  Qed.

  Lemma cc_isLeft c : fst c <= total -> isLeftNiece (g c) = N.even (snd c).
  Proof. intros Hr. apply isLeftNiece_gpos. exact Hr. Qed.
End Geo.

(** * 3. Coordinate arithmetic of siblings *)

Lemma cc_g_same_row h c c' : fst c = fst c' -> (g h c < g h c' <-> snd c < snd c').
Proof. intros E. unfold ProofPosSpec.g, UtilsGeom.gpos. rewrite E. lia. Qed.

Lemma cc_sib_neq c : sib c <> c.
Proof.
  destruct c as [r o]. unfold sib. cbn [fst snd]. intros E. injection E as E.
  destruct (pps_bit0 o) as [k [(E1 & E2 & _)|(E1 & E2 & _)]]; lia.
Qed.

Lemma cc_sib_gt h c : g h c < g h (sib c) ->
  rsib c = sib c /\ g h (sib c) = g h c + 1 /\ N.even (snd c) = true.
Proof.
  intros Hlt. destruct c as [r o].
  apply (cc_g_same_row h (r, o) (sib (r, o)) eq_refl) in Hlt.
  unfold rsib, sib, ProofPosSpec.g, UtilsGeom.gpos in *. cbn [fst snd] in *.
  destruct (pps_bit0 o) as [k [(E1 & E2 & E3 & _)|(E1 & E2 & E3 & _)]].
  - rewrite E2, E3. split; [reflexivity|]. split; [lia|].
    rewrite E1. rewrite N.even_mul. reflexivity.
  - lia.
Qed.

Lemma cc_rsib_cases c : rsib c = c \/ rsib c = sib c.
Proof.
  destruct c as [r o]. unfold rsib, sib. cbn [fst snd].
  destruct (pps_bit0 o) as [k [(E1 & E2 & E3 & _)|(E1 & E2 & E3 & _)]].
  - right. rewrite E2, E3. reflexivity.
  - left. rewrite E3, <- E1. reflexivity.
Qed.

Lemma cc_sib_row c : fst (sib c) = fst c. Proof. reflexivity. Qed.
Lemma cc_par_row c : fst (par c) = fst c + 1. Proof. reflexivity. Qed.

(** the head of a strictly ascending list of keys is its least key *)
Lemma cc_head_least {A} (x : N * A) l v :
  SSlt (map fst (x :: l)) -> In v (map fst (x :: l)) ->
  (forall z, In z (map fst (x :: l)) -> v <= z) -> fst x = v.
Proof.
  intros HS Hv Hle. cbn [map] in *. destruct (cc_SS_cons_inv _ _ _ HS) as [_ Hx].
  destruct Hv as [E|Hv]; [exact E|].
  specialize (Hx v Hv). specialize (Hle (fst x) (or_introl eq_refl)). lia.
Qed.

(** * 4. The loop *)

Section CalcComplete.
  Variable H : Type.
  Variable HO : ops H.
  Variable W : N -> H -> Prop.
  Variables n total : N.
  Hypothesis Htotal : total = TreeRows n.
  Hypothesis Hn63 : n <= 2 ^ 63.

  Local Notation g := (g total).
  Local Notation inf := (inf n).
  Local Notation vld := (vld total).
  Local Notation isroot := (is_root_c n).
  Local Notation clt := (clt total).
  Local Notation hp := (hp H).

  Lemma cc_t63 : total <= 63.
  Proof. rewrite Htotal. apply TreeRows_le_63. exact Hn63. Qed.

  Lemma cc_nle : n <= 2 ^ total.
  Proof. rewrite Htotal. apply TreeRows_upper. Qed.

  Variables T anc : list crd.
  Local Notation K := (T ++ anc).
  Hypothesis HK1 : forall c, In c K -> inf c.
  Hypothesis HK2 : forall c, In c K -> isroot c = false -> In (par c) anc.
  Hypothesis HK3 : forall c, In c anc -> exists c', In c' K /\ isroot c' = false /\ c = par c'.
  Hypothesis HK4 : forall c, In c T -> ~ In c anc.

  Lemma cc_K_vld c : In c K -> vld c.
  Proof. intros Hc. exact (pps_inf_vld n total cc_nle c (HK1 c Hc)). Qed.

  Lemma cc_g_inj c c' : In c K -> In c' K -> g c = g c' -> c = c'.
  Proof. intros Hc Hc'. apply pps_g_inj; apply cc_K_vld; assumption. Qed.

  Lemma cc_par_gt c : In c K -> isroot c = false -> g c < g (par c).
  Proof.
    intros Hc Hr. apply pps_g_row_lt.
    - exact (cc_K_vld c Hc).
    - apply (pps_inf_vld n total cc_nle). exact (pps_par_inf n c (HK1 c Hc) Hr).
    - cbn [par fst]. lia.
  Qed.

  Lemma cc_sib_nonroot c : In c K -> In (sib c) K -> isroot c = false.
  Proof.
    intros Hc Hs. destruct (isroot c) eqn:E; [|reflexivity].
    exfalso. exact (pps_root_sib n c (HK1 c Hc) E (HK1 _ Hs)).
  Qed.

  (** the parents of two pending positions ascend with the positions *)
  Lemma cc_par_mono c c' : In c K -> In c' K -> isroot c = false -> isroot c' = false ->
    g c < g c' -> c' <> sib c -> g (par c) < g (par c').
  Proof.
    intros Hc Hc' Hr Hr' Hlt Hns.
    pose proof (pps_g_lt_row n total cc_t63 cc_nle c c' (cc_K_vld c Hc) (cc_K_vld c' Hc') Hlt) as Hrow.
    destruct (N.eq_dec (fst c) (fst c')) as [E|E].
    - exact (proj2 (pps_pair_order n total cc_t63 cc_nle c c' E Hlt Hns)).
    - apply pps_g_row_lt.
      + apply (pps_inf_vld n total cc_nle). exact (pps_par_inf n c (HK1 c Hc) Hr).
      + apply (pps_inf_vld n total cc_nle). exact (pps_par_inf n c' (HK1 c' Hc') Hr').
      + cbn [par fst]. lia.
  Qed.

  (** a queue entry: the position of a member of [P] that also belongs to [S] *)
  Definition posin (P S : list crd) (e : hp) : Prop :=
    exists c, In c P /\ In c S /\ fst e = g c.

  Lemma posin_mono (P P' S : list crd) e :
    (forall c, In c P -> In c P') -> posin P S e -> posin P' S e.
  Proof. intros Hsub (c & H1 & H2 & H3). exists c. split; [apply Hsub; exact H1|]. split; assumption. Qed.

  Lemma posin_Forall_mono (P P' S : list crd) l :
    (forall c, In c P -> In c P') -> Forall (posin P S) l -> Forall (posin P' S) l.
  Proof.
    intros Hsub HF. eapply Forall_impl; [|exact HF]. intros e. apply posin_mono. exact Hsub.
  Qed.

  (** ** popping the least pending position *)
  Lemma cc_pop_head q rest (tp np : list hp) :
    StronglySorted clt (q :: rest) -> (forall c, In c (q :: rest) -> In c K) ->
    SSlt (map fst tp) -> SSlt (map fst np) ->
    Forall (posin (q :: rest) T) tp -> Forall (posin (q :: rest) anc) np ->
    (In q T -> In (g q) (map fst tp)) -> (In q anc -> In (g q) (map fst np)) ->
    exists h tp1 np1, pop H tp np = Some (g q, h, tp1, np1) /\
      ((tp = (g q, h) :: tp1 /\ np1 = np /\ In q T) \/
       (np = (g q, h) :: np1 /\ tp1 = tp /\ In q anc)) /\
      Forall (posin rest T) tp1 /\ Forall (posin rest anc) np1.
  Proof.
    intros HS HPK Htp Hnp HtpP HnpP HqT Hqa.
    destruct (cc_SS_cons_inv _ _ _ HS) as [HSr Hqlt].
    assert (HqK : In q K) by (apply HPK; left; reflexivity).
    (* every queued position is at least [g q]; equality identifies [q] *)
    assert (Hge : forall S e, posin (q :: rest) S e -> g q <= fst e).
    { intros S e (c & [<-|Hc] & _ & ->); [lia|]. specialize (Hqlt c Hc). unfold ProofPosSpec.clt in Hqlt. lia. }
    assert (Hshrink : forall S e, posin (q :: rest) S e -> g q < fst e -> posin rest S e).
    { intros S e (c & [<-|Hc] & HcS & E) Hlt; [lia|]. exists c. repeat split; assumption. }
    assert (Heq : forall S e, posin (q :: rest) S e -> fst e = g q -> In q S).
    { intros S e (c & Hc & HcS & E) E2. rewrite E in E2.
      apply cc_g_inj in E2; [subst c; exact HcS|apply HPK; exact Hc|exact HqK]. }
    rewrite Forall_forall in HtpP, HnpP.
    assert (HtailT : forall x l, tp = x :: l -> fst x = g q -> Forall (posin rest T) l).
    { intros x l -> Ex. apply Forall_forall. intros e He.
      apply Hshrink; [apply HtpP; right; exact He|].
      cbn [map] in Htp. destruct (cc_SS_cons_inv _ _ _ Htp) as [_ Hx].
      specialize (Hx (fst e) (in_map fst _ _ He)). lia. }
    assert (HtailA : forall y l, np = y :: l -> fst y = g q -> Forall (posin rest anc) l).
    { intros y l -> Ey. apply Forall_forall. intros e He.
      apply Hshrink; [apply HnpP; right; exact He|].
      cbn [map] in Hnp. destruct (cc_SS_cons_inv _ _ _ Hnp) as [_ Hy].
      specialize (Hy (fst e) (in_map fst _ _ He)). lia. }
    apply in_app_or in HqK. destruct HqK as [HqT'|Hqa'].
    - (* [q] is a target: it heads the first queue *)
      pose proof (HqT HqT') as Hin.
      destruct tp as [|x tp']; [destruct Hin|].
      assert (Ex : fst x = g q).
      { apply (cc_head_least x tp' (g q) Htp Hin). intros z Hz.
        apply in_map_iff in Hz. destruct Hz as (e & <- & He). exact (Hge T e (HtpP e He)). }
      assert (Hnq : forall e, In e np -> g q < fst e).
      { intros e He. pose proof (Hge anc e (HnpP e He)) as Hle.
        destruct (N.eq_dec (fst e) (g q)) as [E|E]; [|lia].
        exfalso. exact (HK4 q HqT' (Heq anc e (HnpP e He) E)). }
      assert (HnpR : Forall (posin rest anc) np).
      { apply Forall_forall. intros e He. apply Hshrink; [apply HnpP; exact He|apply Hnq; exact He]. }
      exists (snd x), tp', np. split.
      + unfold pop. destruct np as [|y np']; [rewrite Ex; reflexivity|].
        specialize (Hnq y (or_introl eq_refl)).
        destruct (N.ltb_spec (fst x) (fst y)) as [_|Hc]; [rewrite Ex; reflexivity|lia].
      + split; [left; split; [|split; [reflexivity|exact HqT']]|].
        * rewrite <- Ex. destruct x; reflexivity.
        * split; [exact (HtailT x tp' eq_refl Ex)|exact HnpR].
    - (* [q] is a computed position: it heads the second queue *)
      pose proof (Hqa Hqa') as Hin.
      destruct np as [|y np']; [destruct Hin|].
      assert (Ey : fst y = g q).
      { apply (cc_head_least y np' (g q) Hnp Hin). intros z Hz.
        apply in_map_iff in Hz. destruct Hz as (e & <- & He). exact (Hge anc e (HnpP e He)). }
      assert (Hnq : forall e, In e tp -> g q < fst e).
      { intros e He. pose proof (Hge T e (HtpP e He)) as Hle.
        destruct (N.eq_dec (fst e) (g q)) as [E|E]; [|lia].
        exfalso. exact (HK4 q (Heq T e (HtpP e He) E) Hqa'). }
      assert (HtpR : Forall (posin rest T) tp).
      { apply Forall_forall. intros e He. apply Hshrink; [apply HtpP; exact He|apply Hnq; exact He]. }
      exists (snd y), tp, np'. split.
      + unfold pop. destruct tp as [|x tp']; [rewrite Ey; reflexivity|].
        specialize (Hnq x (or_introl eq_refl)).
        destruct (N.ltb_spec (fst x) (fst y)) as [Hc|_]; [lia|rewrite Ey; reflexivity].
      + split; [right; split; [|split; [reflexivity|exact Hqa']]|].
        * rewrite <- Ey. destruct y; reflexivity.
        * split; [exact HtpR|exact (HtailA y np' eq_refl Ey)].
  Qed.

  (** ** the fixed data of a run *)
  Hypothesis W_step : forall c h hs, In c K -> isroot c = false ->
    W (g c) h -> W (g (sib c)) hs -> W (g (par c)) (getNextHash HO (g c) h hs).

  Variable Ks : list crd.
  Hypothesis HKs_sorted : StronglySorted clt Ks.
  Hypothesis HKs_mem : forall c, In c Ks <-> In c K.

  Variable PPs : list crd.
  Hypothesis HPP_sorted : StronglySorted clt PPs.
  Hypothesis HPP_mem : forall s, In s PPs <->
    exists c, In c K /\ isroot c = false /\ ~ In (sib c) K /\ s = sib c.

  Variable tp_all : list hp.
  Hypothesis Htp_sorted : SSlt (map fst tp_all).
  Hypothesis Htp_mem : forall x, In x (map fst tp_all) <-> In x (map g T).
  Hypothesis Htp_W : Forall (fun e : hp => W (fst e) (snd e)) tp_all.

  Variables ws extra : list H.
  Hypothesis Hws : Forall2 (fun s w => W (g s) w) PPs ws.

  Lemma cc_clt_NoDup l : StronglySorted clt l -> NoDup l.
  Proof.
    intros HS. apply pps_clt_map in HS. apply cc_SSlt_NoDup in HS.
    exact (NoDup_map_inv _ _ HS).
  Qed.

  Lemma cc_split_NoDup (D P : list crd) c : Ks = D ++ P -> In c D -> In c P -> False.
  Proof.
    intros E HD HP. pose proof (cc_clt_NoDup Ks HKs_sorted) as Hnd. rewrite E in Hnd.
    revert HD HP. clear E. induction D as [|d D IH]; intros HD HP; [destruct HD|].
    cbn [app] in Hnd. inversion Hnd as [|d' l' Hnin Hnd']; subst.
    destruct HD as [->|HD]; [apply Hnin, in_or_app; right; exact HP|exact (IH Hnd' HD HP)].
  Qed.

  Lemma cc_PP_facts s : In s PPs -> In (sib s) K /\ isroot (sib s) = false /\ ~ In s K.
  Proof.
    intros Hs. apply HPP_mem in Hs. destruct Hs as (c & Hc & Hr & Hn & ->).
    rewrite pps_sib_invol. repeat split; assumption.
  Qed.

  (** ** the invariant of the reachable loop states

      [D] = the processed members of [K], [P] = the pending ones (both ascending);
      [PD]/[PP] = the consumed / remaining proof positions, [wsP] the remaining proof hashes;
      [tdone] = the consumed targets, [apop] = the consumed computed entries. *)
  Record CInv (D P PD PP : list crd) (wsP : list H) (tdone apop : list hp) (st : cstate H)
    : Prop := mkCInv {
    ci_K : Ks = D ++ P;
    ci_PPs : PPs = PD ++ PP;
    ci_tp : tp_all = tdone ++ c_tp st;
    ci_tdone : Forall (posin D T) tdone;
    ci_tpP : Forall (posin P T) (c_tp st);
    ci_all : c_all st = apop ++ c_np st;
    ci_apop : Forall (posin D anc) apop;
    ci_npP : Forall (posin P anc) (c_np st);
    ci_all_sorted : SSlt (map fst (c_all st));
    ci_all_W : Forall (fun e : hp => W (fst e) (snd e)) (c_all st);
    ci_par : forall c, In c D -> isroot c = false -> In (g (par c)) (map fst (c_all st));
    ci_np_lt : forall e q, In e (c_np st) -> In q P -> isroot q = false -> fst e < g (par q);
    ci_proof : c_proof st = wsP ++ extra;
    ci_wsP : Forall2 (fun s w => W (g s) w) PP wsP;
    ci_PD : forall s, In s PD -> In (sib s) D;
    ci_PPP : forall s, In s PP -> In (sib s) P;
    ci_sib : forall c, In c D -> isroot c = false -> ~ In (sib c) P;
    ci_prev : match c_prev st with Some v => forall c, In c P -> v < g c | None => True end;
    ci_row : c_row st <= total;
    ci_rowP : forall c, In c P -> c_row st <= fst c;
    ci_rows : c_rows st = map fst (filter isroot D);
    ci_roots : Forall2 (fun c h => W (g c) h) (filter isroot D) (c_roots st) }.

  (** the initial state *)
  Lemma cc_init : CInv [] Ks [] PPs ws [] []
                       (mkC 0 tp_all [] [] (ws ++ extra) None [] []).
  Proof.
    constructor; cbn [c_row c_tp c_np c_all c_proof c_prev c_roots c_rows app map filter];
      try reflexivity; try constructor; try (intros; contradiction); try exact Hws; try lia.
    - apply Forall_forall. intros e He.
      pose proof (proj1 (Htp_mem (fst e)) (in_map fst _ _ He)) as Hin.
      apply in_map_iff in Hin. destruct Hin as (c & E & Hc). exists c.
      split; [apply HKs_mem, in_or_app; left; exact Hc|]. split; [exact Hc|symmetry; exact E].
    - intros s Hs. apply HKs_mem. exact (proj1 (cc_PP_facts s Hs)).
  Qed.

  (** where the members of [K] sit in a split of [Ks] *)
  Lemma cc_before (D P : list crd) q c : Ks = D ++ P -> In q P -> In c K -> g c < g q ->
    (forall c', In c' P -> g q <= g c') -> In c D.
  Proof.
    intros E Hq Hc Hlt Hmin. apply HKs_mem in Hc. rewrite E in Hc.
    apply in_app_or in Hc. destruct Hc as [Hc|Hc]; [exact Hc|].
    specialize (Hmin c Hc). lia.
  Qed.

  (** the least pending position is queued *)
  Lemma cc_queued (D P : list crd) tdone tp apop np call :
    Ks = D ++ P -> tp_all = tdone ++ tp -> Forall (posin D T) tdone ->
    call = apop ++ np -> Forall (posin D anc) apop ->
    (forall c, In c D -> isroot c = false -> In (g (par c)) (map fst call)) ->
    forall q, In q P ->
      (In q T -> In (g q) (map fst tp)) /\
      (In q anc -> (forall c', In c' K -> isroot c' = false -> par c' = q -> In c' D) ->
       In (g q) (map fst np)).
  Proof.
    intros EK Etp Htd Eall Hap Hpar q Hq.
    assert (HqK : In q K) by (apply HKs_mem; rewrite EK; apply in_or_app; right; exact Hq).
    assert (HnotD : forall S e, posin D S e -> fst e <> g q).
    { intros S e (c & Hc & _ & E) E2. rewrite E in E2.
      apply cc_g_inj in E2; [|apply HKs_mem; rewrite EK; apply in_or_app; left; exact Hc|exact HqK].
      subst c. exact (cc_split_NoDup D P q EK Hc Hq). }
    rewrite Forall_forall in Htd, Hap. split.
    - intros HqT. assert (Hin : In (g q) (map fst tp_all)) by (apply Htp_mem, in_map; exact HqT).
      rewrite Etp, map_app in Hin. apply in_app_or in Hin. destruct Hin as [Hin|Hin]; [|exact Hin].
      apply in_map_iff in Hin. destruct Hin as (e & E & He). exfalso.
      exact (HnotD T e (Htd e He) E).
    - intros Hqa Hch. destruct (HK3 q Hqa) as (c' & Hc' & Hr' & Eq).
      pose proof (Hpar c' (Hch c' Hc' Hr' (eq_sym Eq)) Hr') as Hin. rewrite <- Eq in Hin.
      rewrite Eall, map_app in Hin. apply in_app_or in Hin. destruct Hin as [Hin|Hin]; [|exact Hin].
      apply in_map_iff in Hin. destruct Hin as (e & E & He). exfalso.
      exact (HnotD anc e (Hap e He) E).
  Qed.

  (** the consumed entry moves to the processed side *)
  Lemma cc_pop_split (D : list crd) q h tdone tp tp1 apop np np1 call :
    tp_all = tdone ++ tp -> call = apop ++ np ->
    Forall (posin D T) tdone -> Forall (posin D anc) apop ->
    ((tp = (g q, h) :: tp1 /\ np1 = np /\ In q T) \/
     (np = (g q, h) :: np1 /\ tp1 = tp /\ In q anc)) ->
    exists tdone' apop', tp_all = tdone' ++ tp1 /\ call = apop' ++ np1 /\
      Forall (posin (D ++ [q]) T) tdone' /\ Forall (posin (D ++ [q]) anc) apop'.
  Proof.
    intros Etp Eall Htd Hap Hcase.
    assert (Hsub : forall c, In c D -> In c (D ++ [q])) by (intros c Hc; apply in_or_app; left; exact Hc).
    assert (Hq : In q (D ++ [q])) by (apply in_or_app; right; left; reflexivity).
    destruct Hcase as [(-> & -> & HqT)|(-> & -> & Hqa)].
    - exists (tdone ++ [(g q, h)]), apop. rewrite <- app_assoc. cbn [app].
      split; [exact Etp|]. split; [exact Eall|]. split.
      + apply Forall_app. split; [exact (posin_Forall_mono _ _ _ _ Hsub Htd)|].
        constructor; [|constructor]. exists q. repeat split; assumption.
      + exact (posin_Forall_mono _ _ _ _ Hsub Hap).
    - exists tdone, (apop ++ [(g q, h)]). rewrite <- app_assoc. cbn [app].
      split; [exact Etp|]. split; [exact Eall|]. split.
      + exact (posin_Forall_mono _ _ _ _ Hsub Htd).
      + apply Forall_app. split; [exact (posin_Forall_mono _ _ _ _ Hsub Hap)|].
        constructor; [|constructor]. exists q. repeat split; assumption.
  Qed.

  Lemma cc_SSlt_fst_app {A} (a b : list (N * A)) : SSlt (map fst (a ++ b)) ->
    SSlt (map fst a) /\ SSlt (map fst b) /\
    (forall x y, In x a -> In y b -> fst x < fst y).
  Proof.
    rewrite map_app. intros HS. destruct (cc_SS_app_inv _ _ _ HS) as (H1 & H2 & H3).
    split; [exact H1|]. split; [exact H2|]. intros x y Hx Hy.
    apply H3; apply in_map; assumption.
  Qed.

  Lemma cc_case_sorted q h (tp np tp1 np1 : list hp) :
    SSlt (map fst tp) -> SSlt (map fst np) ->
    ((tp = (g q, h) :: tp1 /\ np1 = np /\ In q T) \/
     (np = (g q, h) :: np1 /\ tp1 = tp /\ In q anc)) ->
    SSlt (map fst tp1) /\ SSlt (map fst np1) /\
    (forall e, In e tp1 -> In e tp) /\ (forall e, In e np1 -> In e np) /\
    (In (g q, h) tp \/ In (g q, h) np).
  Proof.
    intros Htp Hnp [(-> & -> & _)|(-> & -> & _)].
    - cbn [map] in Htp. destruct (cc_SS_cons_inv _ _ _ Htp) as [Ht _].
      split; [exact Ht|]. split; [exact Hnp|]. split; [intros e He; right; exact He|].
      split; [intros e He; exact He|]. left. left. reflexivity.
    - cbn [map] in Hnp. destruct (cc_SS_cons_inv _ _ _ Hnp) as [Hn _].
      split; [exact Htp|]. split; [exact Hn|]. split; [intros e He; exact He|].
      split; [intros e He; right; exact He|]. right. left. reflexivity.
  Qed.

  (** what the loop reports *)
  Definition CPost (o : outcome (calc_result H)) : Prop :=
    o = OutOfFuel \/
    exists cf cands,
      o = Ok (mergeSortedHashAndPos cf tp_all, cands, map fst (filter isroot Ks)) /\
      SSlt (map fst cf) /\ Forall (fun e : hp => W (fst e) (snd e)) cf /\
      (forall x, In x (map fst cf) <-> In x (map g anc)) /\
      Forall2 (fun c h => W (g c) h) (filter isroot Ks) cands.

  Lemma cc_posin_nil S (l : list hp) : Forall (posin [] S) l -> l = [].
  Proof.
    destruct l as [|e l]; [reflexivity|]. intros HF. inversion HF as [|e' l' (c & [] & _) _].
  Qed.

  Ltac cinv_destruct I :=
    destruct I as [iK iPPs itp itdone itpP iall iapop inpP isorted iW ipar inplt iproof iwsP
                   iPD iPPP isib iprev irow irowP irows iroots].

  (** the shared part of an iteration: the head [q] of the pending positions is popped *)
  Lemma cc_head_pop D q rest PD PP wsP tdone apop st :
    CInv D (q :: rest) PD PP wsP tdone apop st ->
    exists h tp1 np1 tdone' apop',
      pop H (c_tp st) (c_np st) = Some (g q, h, tp1, np1) /\ W (g q) h /\
      ((c_tp st = (g q, h) :: tp1 /\ np1 = c_np st /\ In q T) \/
       (c_np st = (g q, h) :: np1 /\ tp1 = c_tp st /\ In q anc)) /\
      Forall (posin rest T) tp1 /\ Forall (posin rest anc) np1 /\
      tp_all = tdone' ++ tp1 /\ c_all st = apop' ++ np1 /\
      Forall (posin (D ++ [q]) T) tdone' /\ Forall (posin (D ++ [q]) anc) apop' /\
      SSlt (map fst tp1) /\ SSlt (map fst np1) /\
      (forall e, In e np1 -> In e (c_np st)).
  Proof.
    intros I. cinv_destruct I.
    pose proof HKs_sorted as HS. rewrite iK in HS.
    destruct (cc_SS_app_inv _ _ _ HS) as (_ & HSP & HDP).
    assert (HPK : forall c, In c (q :: rest) -> In c K).
    { intros c Hc. apply HKs_mem. rewrite iK. apply in_or_app. right. exact Hc. }
    pose proof Htp_sorted as Htps. rewrite itp in Htps.
    destruct (cc_SSlt_fst_app _ _ Htps) as (_ & Htp1 & _).
    pose proof isorted as Hals. rewrite iall in Hals.
    destruct (cc_SSlt_fst_app _ _ Hals) as (_ & Hnp1 & _).
    destruct (cc_SS_cons_inv _ _ _ HSP) as [_ Hqlt].
    assert (Hq : In q (q :: rest)) by (left; reflexivity).
    destruct (cc_queued D (q :: rest) tdone (c_tp st) apop (c_np st) (c_all st)
                iK itp itdone iall iapop ipar q Hq) as [HqT Hqa].
    assert (Hqa' : In q anc -> In (g q) (map fst (c_np st))).
    { intros Ha. apply (Hqa Ha). intros c' Hc' Hr' Ec'.
      apply (cc_before D (q :: rest) q c' iK Hq Hc').
      - rewrite <- Ec'. exact (cc_par_gt c' Hc' Hr').
      - intros c2 [<-|Hc2]; [lia|]. specialize (Hqlt c2 Hc2). unfold ProofPosSpec.clt in Hqlt. lia. }
    destruct (cc_pop_head q rest (c_tp st) (c_np st) HSP HPK Htp1 Hnp1 itpP inpP HqT Hqa')
      as (h & tp1 & np1 & Epop & Hcase & HtpR & HnpR).
    destruct (cc_pop_split D q h tdone (c_tp st) tp1 apop (c_np st) np1 (c_all st)
                itp iall itdone iapop Hcase) as (tdone' & apop' & E1 & E2 & F1 & F2).
    destruct (cc_case_sorted q h _ _ _ _ Htp1 Hnp1 Hcase) as (S1 & S2 & In1 & In2 & Hin).
    exists h, tp1, np1, tdone', apop'. split; [exact Epop|]. split.
    { rewrite Forall_forall in Htp_W, iW. destruct Hin as [Hin|Hin].
      - apply (Htp_W (g q, h)). rewrite itp. apply in_or_app. right. exact Hin.
      - apply (iW (g q, h)). rewrite iall. apply in_or_app. right. exact Hin. }
    repeat (split; [assumption|]). exact In2.
  Qed.

  (** facts about a split [Ks = D ++ q :: rest] *)
  Lemma cc_split_facts D q rest : Ks = D ++ q :: rest ->
    (forall c, In c D -> In c K) /\ In q K /\ (forall c, In c rest -> In c K) /\
    (forall c, In c D -> g c < g q) /\ (forall c, In c rest -> g q < g c) /\
    StronglySorted clt rest /\ ~ In q rest /\ ~ In q D /\
    Ks = (D ++ [q]) ++ rest.
  Proof.
    intros E. pose proof HKs_sorted as HS. rewrite E in HS.
    destruct (cc_SS_app_inv _ _ _ HS) as (_ & HSP & HDP).
    destruct (cc_SS_cons_inv _ _ _ HSP) as [HSr Hqlt].
    assert (Hsub : forall c, In c (D ++ q :: rest) -> In c K).
    { intros c Hc. apply HKs_mem. rewrite E. exact Hc. }
    split; [intros c Hc; apply Hsub, in_or_app; left; exact Hc|].
    split; [apply Hsub, in_or_app; right; left; reflexivity|].
    split; [intros c Hc; apply Hsub, in_or_app; right; right; exact Hc|].
    split; [intros c Hc; apply (HDP c q Hc); left; reflexivity|].
    split; [exact Hqlt|]. split; [exact HSr|].
    split; [intros Hin; specialize (Hqlt q Hin); unfold ProofPosSpec.clt in Hqlt; lia|].
    split; [intros Hin; specialize (HDP q q Hin (or_introl eq_refl)); unfold ProofPosSpec.clt in HDP; lia|].
    rewrite <- app_assoc. exact E.
  Qed.

  (** appending the parent of the popped position keeps the computed list ascending *)
  Lemma cc_all_snoc D q rest PD PP wsP tdone apop st hv :
    CInv D (q :: rest) PD PP wsP tdone apop st -> isroot q = false ->
    SSlt (map fst (c_all st ++ [(g (par q), hv)])).
  Proof.
    intros I Hr. cinv_destruct I.
    destruct (cc_split_facts D q rest iK) as (HDK & HqK & _ & HDq & _).
    rewrite map_app. cbn [map fst]. apply cc_SS_snoc; [exact isorted|].
    intros x Hx. apply in_map_iff in Hx. destruct Hx as (e & <- & He).
    rewrite iall in He. apply in_app_or in He. destruct He as [He|He].
    - rewrite Forall_forall in iapop. destruct (iapop e He) as (c & Hc & _ & ->).
      pose proof (HDq c Hc). pose proof (cc_par_gt q HqK Hr). lia.
    - apply (inplt e q He (or_introl eq_refl) Hr).
  Qed.

  (** the new queue entry lies below the parents of the positions that stay pending *)
  Lemma cc_np_lt_snoc D q rest (np1 : list hp) (P' : list crd) hv :
    Ks = D ++ q :: rest -> isroot q = false ->
    (forall c, In c P' -> In c rest) -> ~ In (sib q) P' ->
    (forall e q', In e np1 -> In q' P' -> isroot q' = false -> fst e < g (par q')) ->
    forall e q', In e (np1 ++ [(g (par q), hv)]) -> In q' P' -> isroot q' = false ->
                 fst e < g (par q').
  Proof.
    intros EK Hr Hsub Hns Hold e q' He Hq' Hr'.
    destruct (cc_split_facts D q rest EK) as (_ & HqK & HrK & _ & Hql & _).
    apply in_app_or in He. destruct He as [He|[<-|[]]]; [exact (Hold e q' He Hq' Hr')|].
    cbn [fst]. apply cc_par_mono; try assumption.
    - apply HrK, Hsub, Hq'.
    - apply Hql, Hsub, Hq'.
    - intros ->. exact (Hns Hq').
  Qed.

  (** ** case 1: the popped position is a root *)
  Lemma cc_step_root D q rest PD PP wsP tdone apop st h tp1 np1 tdone' apop' :
    CInv D (q :: rest) PD PP wsP tdone apop st -> isroot q = true -> W (g q) h ->
    Forall (posin rest T) tp1 -> Forall (posin rest anc) np1 ->
    tp_all = tdone' ++ tp1 -> c_all st = apop' ++ np1 ->
    Forall (posin (D ++ [q]) T) tdone' -> Forall (posin (D ++ [q]) anc) apop' ->
    (forall e, In e np1 -> In e (c_np st)) ->
    CInv (D ++ [q]) rest PD PP wsP tdone' apop'
         (mkC (fst q) tp1 np1 (c_all st) (c_proof st) (Some (g q))
              (c_roots st ++ [h]) (c_rows st ++ [fst q])).
  Proof.
    intros I Hroot HW HtpR HnpR Etp Eall Ftd Fap Hnp1.
    pose proof I as I0. cinv_destruct I.
    destruct (cc_split_facts D q rest iK) as (HDK & HqK & HrK & HDq & Hql & HSr & Hqnr & HqnD & EK').
    constructor; cbn [c_row c_tp c_np c_all c_proof c_prev c_roots c_rows]; try assumption.
    - (* ci_par *) intros c Hc Hr. apply in_app_or in Hc. destruct Hc as [Hc|[<-|[]]].
      + exact (ipar c Hc Hr).
      + congruence.
    - (* ci_np_lt *) intros e q' He Hq' Hr'. apply (inplt e q' (Hnp1 e He)); [right; exact Hq'|exact Hr'].
    - (* ci_PD *) intros s Hs. apply in_or_app. left. exact (iPD s Hs).
    - (* ci_PPP *) intros s Hs. destruct (iPPP s Hs) as [E|Hin]; [|exact Hin].
      exfalso. assert (HsP : In s PPs) by (rewrite iPPs; apply in_or_app; right; exact Hs).
      destruct (cc_PP_facts s HsP) as (_ & Hnr & _). rewrite <- E in Hnr. congruence.
    - (* ci_sib *) intros c Hc Hr Hin. apply in_app_or in Hc. destruct Hc as [Hc|[<-|[]]].
      + apply (isib c Hc Hr). right. exact Hin.
      + congruence.
    - (* ci_row *) destruct (cc_K_vld q HqK) as [Hrow _]. exact Hrow.
    - (* ci_rowP *) intros c Hc.
      apply (pps_g_lt_row n total cc_t63 cc_nle q c (cc_K_vld q HqK) (cc_K_vld c (HrK c Hc)) (Hql c Hc)).
    - (* ci_rows *) rewrite cc_filter_snoc, Hroot, map_app, irows. reflexivity.
    - (* ci_roots *) rewrite cc_filter_snoc, Hroot. apply cc_Forall2_snoc; assumption.
  Qed.

  Lemma cc_row_facts q (rest : list crd) : In q K -> (forall c, In c rest -> In c K) ->
    (forall c, In c rest -> g q < g c) ->
    fst q <= total /\ (forall c, In c rest -> fst q <= fst c).
  Proof.
    intros HqK HrK Hql. split; [exact (proj1 (cc_K_vld q HqK))|]. intros c Hc.
    exact (pps_g_lt_row n total cc_t63 cc_nle q c (cc_K_vld q HqK) (cc_K_vld c (HrK c Hc)) (Hql c Hc)).
  Qed.

  (** the parent of a pending non-root position is pending, beyond its sibling *)
  Lemma cc_par_pending D q rest : Ks = D ++ q :: rest -> isroot q = false ->
    In (par q) anc /\ In (par q) rest /\ par q <> sib q.
  Proof.
    intros EK Hr.
    destruct (cc_split_facts D q rest EK) as (HDK & HqK & HrK & HDq & Hql & HSr & Hqnr & HqnD & EK').
    pose proof (HK2 q HqK Hr) as Hpa. pose proof (cc_par_gt q HqK Hr) as Hgt.
    split; [exact Hpa|]. split.
    - assert (Hin : In (par q) Ks) by (apply HKs_mem, in_or_app; right; exact Hpa).
      rewrite EK in Hin. apply in_app_or in Hin. destruct Hin as [Hin|[E|Hin]]; [| |exact Hin].
      + specialize (HDq _ Hin). lia.
      + rewrite <- E in Hgt. lia.
    - intros E. apply (f_equal fst) in E. cbn [par sib fst] in E. lia.
  Qed.

  (** ** case 2: the sibling comes from the proof *)
  Lemma cc_step_proof D q rest PD PP wsP tdone apop st h tp1 np1 tdone' apop' :
    CInv D (q :: rest) PD PP wsP tdone apop st -> isroot q = false -> ~ In (sib q) K ->
    W (g q) h ->
    Forall (posin rest T) tp1 -> Forall (posin rest anc) np1 ->
    tp_all = tdone' ++ tp1 -> c_all st = apop' ++ np1 ->
    Forall (posin (D ++ [q]) T) tdone' -> Forall (posin (D ++ [q]) anc) apop' ->
    (forall e, In e np1 -> In e (c_np st)) ->
    exists ph wsP' PP',
      c_proof st = ph :: wsP' ++ extra /\
      CInv (D ++ [q]) rest (PD ++ [sib q]) PP' wsP' tdone' apop'
           (mkC (fst q) tp1 (np1 ++ [(g (par q), getNextHash HO (g q) h ph)])
                (c_all st ++ [(g (par q), getNextHash HO (g q) h ph)]) (wsP' ++ extra)
                (Some (g q)) (c_roots st) (c_rows st)).
  Proof.
    intros I Hroot Hns HW HtpR HnpR Etp Eall Ftd Fap Hnp1.
    pose proof I as I0. cinv_destruct I.
    destruct (cc_split_facts D q rest iK) as (HDK & HqK & HrK & HDq & Hql & HSr & Hqnr & HqnD & EK').
    destruct (cc_par_pending D q rest iK Hroot) as (Hpa & Hpr & _).
    destruct (cc_row_facts q rest HqK HrK Hql) as [Hrow HrowP].
    (* the sibling is the next proof position *)
    assert (HsPP : In (sib q) PPs).
    { apply HPP_mem. exists q. repeat split; assumption. }
    pose proof HPP_sorted as HSPP. rewrite iPPs in HSPP.
    destruct (cc_SS_app_inv _ _ _ HSPP) as (_ & HSPP2 & _).
    assert (HsP : In (sib q) PP).
    { rewrite iPPs in HsPP. apply in_app_or in HsPP. destruct HsPP as [Hin|Hin]; [|exact Hin].
      exfalso. apply HqnD. rewrite <- (pps_sib_invol q). exact (iPD _ Hin). }
    destruct PP as [|s0 PP']; [destruct HsP|].
    assert (Es0 : s0 = sib q).
    { destruct HsP as [E|Hin]; [exact E|]. exfalso.
      destruct (cc_SS_cons_inv _ _ _ HSPP2) as [_ Hs0lt]. specialize (Hs0lt _ Hin).
      unfold ProofPosSpec.clt in Hs0lt.
      assert (Hs0 : In s0 PPs) by (rewrite iPPs; apply in_or_app; right; left; reflexivity).
      destruct (cc_PP_facts s0 Hs0) as (Hs0K & Hs0r & Hs0n).
      assert (Hne : sib s0 <> q).
      { intros E. apply pps_sib_eq_inv in E. subst s0. lia. }
      assert (Hlt : g q < g (sib s0)).
      { destruct (iPPP s0 (or_introl eq_refl)) as [E|Hin2]; [congruence|exact (Hql _ Hin2)]. }
      pose proof (pps_g_lt_row n total cc_t63 cc_nle q (sib s0) (cc_K_vld q HqK) (cc_K_vld _ Hs0K) Hlt) as Hr1.
      pose proof (pps_sib_vld n total cc_t63 cc_nle q (HK1 q HqK) Hroot) as Hv1.
      pose proof (pps_sib_vld n total cc_t63 cc_nle (sib s0) (HK1 _ Hs0K) Hs0r) as Hv2.
      rewrite pps_sib_invol in Hv2.
      pose proof (pps_g_lt_row n total cc_t63 cc_nle s0 (sib q) Hv2 Hv1 Hs0lt) as Hr2.
      cbn [sib fst] in Hr1, Hr2.
      assert (Erow : fst q = fst (sib s0)) by (cbn [sib fst]; lia).
      assert (Hns2 : sib s0 <> sib q).
      { intros E. apply (f_equal sib) in E. rewrite !pps_sib_invol in E. subst s0. exact (Hs0n HqK). }
      destruct (pps_pair_order n total cc_t63 cc_nle q (sib s0) Erow Hlt Hns2) as [Hc _].
      rewrite pps_sib_invol in Hc. lia. }
    subst s0.
    inversion iwsP as [|s0' ph PPx wsP' Hph Hrest]; subst.
    exists ph, wsP', PP'. split; [rewrite iproof; reflexivity|].
    assert (HWpar : W (g (par q)) (getNextHash HO (g q) h ph)) by (apply W_step; assumption).
    constructor; cbn [c_row c_tp c_np c_all c_proof c_prev c_roots c_rows]; try assumption.
    - (* ci_PPs *) rewrite <- app_assoc. exact iPPs.
    - (* ci_all *) rewrite Eall, app_assoc. reflexivity.
    - (* ci_npP *) apply Forall_app. split; [exact HnpR|]. constructor; [|constructor].
      exists (par q). repeat split; assumption.
    - (* ci_all_sorted *) exact (cc_all_snoc D q rest PD _ _ tdone apop st _ I0 Hroot).
    - (* ci_all_W *) apply Forall_app. split; [exact iW|]. constructor; [exact HWpar|constructor].
    - (* ci_par *) intros c Hc Hr. rewrite map_app. apply in_or_app.
      apply in_app_or in Hc. destruct Hc as [Hc|[<-|[]]]; [left; exact (ipar c Hc Hr)|].
      right. left. reflexivity.
    - (* ci_np_lt *) apply (cc_np_lt_snoc D q rest np1 rest _ iK Hroot); [tauto| |].
      + intros Hin. apply Hns, HrK, Hin.
      + intros e q' He Hq' Hr'. apply (inplt e q' (Hnp1 e He)); [right; exact Hq'|exact Hr'].
    - (* ci_proof *) reflexivity.
    - (* ci_PD *) intros s Hs. apply in_or_app. apply in_app_or in Hs.
      destruct Hs as [Hs|[<-|[]]]; [left; exact (iPD s Hs)|].
      right. left. symmetry. apply pps_sib_invol.
    - (* ci_PPP *) intros s Hs. destruct (iPPP s (or_intror Hs)) as [E|Hin]; [|exact Hin].
      exfalso. symmetry in E. apply pps_sib_eq_inv in E. subst s.
      pose proof (cc_clt_NoDup _ HSPP2) as Hnd2. inversion Hnd2 as [|x l Hnin _]; subst.
      exact (Hnin Hs).
    - (* ci_sib *) intros c Hc Hr Hin. apply in_app_or in Hc. destruct Hc as [Hc|[<-|[]]].
      + apply (isib c Hc Hr). right. exact Hin.
      + apply Hns, HrK, Hin.
    - (* ci_rows *) rewrite cc_filter_snoc, Hroot, app_nil_r. exact irows.
    - (* ci_roots *) rewrite cc_filter_snoc, Hroot, app_nil_r. exact iroots.
  Qed.

  (** ** case 3: the sibling is pending too: it is the next position, on the right *)
  Lemma cc_step_pair D q rest PD PP wsP tdone apop st h tp1 np1 tdone' apop' :
    CInv D (q :: rest) PD PP wsP tdone apop st -> isroot q = false -> In (sib q) K ->
    W (g q) h ->
    ((c_tp st = (g q, h) :: tp1 /\ np1 = c_np st /\ In q T) \/
     (c_np st = (g q, h) :: np1 /\ tp1 = c_tp st /\ In q anc)) ->
    Forall (posin rest T) tp1 -> Forall (posin rest anc) np1 ->
    tp_all = tdone' ++ tp1 -> c_all st = apop' ++ np1 ->
    Forall (posin (D ++ [q]) T) tdone' -> Forall (posin (D ++ [q]) anc) apop' ->
    SSlt (map fst tp1) -> SSlt (map fst np1) ->
    (forall e, In e np1 -> In e (c_np st)) ->
    exists rest' sh tp2 np2 tdone'' apop'',
      N.even (snd q) = true /\ rsib q = sib q /\
      pop H tp1 np1 = Some (g (sib q), sh, tp2, np2) /\
      CInv ((D ++ [q]) ++ [sib q]) rest' PD PP wsP tdone'' apop''
           (mkC (fst q) tp2 (np2 ++ [(g (par q), getNextHash HO (g q) h sh)])
                (c_all st ++ [(g (par q), getNextHash HO (g q) h sh)]) (c_proof st)
                (Some (g (sib q))) (c_roots st) (c_rows st)).
  Proof.
    intros I Hroot HsK HW Hcase HtpR HnpR Etp Eall Ftd Fap S1 S2 Hnp1.
    pose proof I as I0. cinv_destruct I.
    destruct (cc_split_facts D q rest iK) as (HDK & HqK & HrK & HDq & Hql & HSr & Hqnr & HqnD & EK').
    destruct (cc_par_pending D q rest iK Hroot) as (Hpa & Hpr & Hpns).
    destruct (cc_row_facts q rest HqK HrK Hql) as [Hrow HrowP].
    assert (Hsr : isroot (sib q) = false).
    { apply cc_sib_nonroot; [exact HsK|]. rewrite pps_sib_invol. exact HqK. }
    (* the sibling is pending *)
    assert (Hsrest : In (sib q) rest).
    { assert (Hin : In (sib q) Ks) by (apply HKs_mem; exact HsK).
      rewrite iK in Hin. apply in_app_or in Hin. destruct Hin as [Hin|[E|Hin]]; [| |exact Hin].
      - exfalso. apply (isib (sib q) Hin Hsr). rewrite pps_sib_invol. left. reflexivity.
      - exfalso. exact (cc_sib_neq q (eq_sym E)). }
    destruct (cc_sib_gt total q (Hql _ Hsrest)) as (Ersib & Egs & Heven).
    destruct rest as [|q2 rest']; [destruct Hsrest|].
    assert (Eq2 : q2 = sib q).
    { destruct Hsrest as [E|Hin]; [exact E|].
      destruct (cc_SS_cons_inv _ _ _ HSr) as [_ Hq2lt]. specialize (Hq2lt _ Hin).
      unfold ProofPosSpec.clt in Hq2lt. pose proof (Hql q2 (or_introl eq_refl)). lia. }
    subst q2.
    destruct (cc_SS_cons_inv _ _ _ HSr) as [HSr' Hsl]. unfold ProofPosSpec.clt in Hsl.
    (* the second pop *)
    assert (HPK2 : forall c, In c (sib q :: rest') -> In c K) by exact HrK.
    assert (Hq2P : In (sib q) (q :: sib q :: rest')) by (right; left; reflexivity).
    destruct (cc_queued D (q :: sib q :: rest') tdone (c_tp st) apop (c_np st) (c_all st)
                iK itp itdone iall iapop ipar (sib q) Hq2P) as [H2T H2a].
    assert (Hgne : g (sib q) <> g q) by lia.
    assert (H2T' : In (sib q) T -> In (g (sib q)) (map fst tp1)).
    { intros Hin. specialize (H2T Hin). destruct Hcase as [(E & _ & _)|(_ & -> & _)]; [|exact H2T].
      rewrite E in H2T. cbn [map fst In] in H2T. destruct H2T as [E2|H2T]; [congruence|exact H2T]. }
    assert (H2a' : In (sib q) anc -> In (g (sib q)) (map fst np1)).
    { intros Hin. assert (H2 : In (g (sib q)) (map fst (c_np st))).
      { apply (H2a Hin). intros c' Hc' Hr' Ec'.
        assert (Hlt : g c' < g (sib q)) by (rewrite <- Ec'; exact (cc_par_gt c' Hc' Hr')).
        assert (Hne : c' <> q).
        { intros ->. apply (f_equal fst) in Ec'. cbn [par sib fst] in Ec'. lia. }
        assert (Hin' : In c' Ks) by (apply HKs_mem; exact Hc').
        rewrite iK in Hin'. apply in_app_or in Hin'.
        destruct Hin' as [Hin'|[E|[E|Hin']]]; [exact Hin'|congruence| |].
        - subst c'. lia.
        - specialize (Hsl _ Hin'). lia. }
      destruct Hcase as [(_ & -> & _)|(E & _ & _)]; [exact H2|].
      rewrite E in H2. cbn [map fst In] in H2. destruct H2 as [E2|H2]; [congruence|exact H2]. }
    destruct (cc_pop_head (sib q) rest' tp1 np1 HSr HPK2 S1 S2 HtpR HnpR H2T' H2a')
      as (sh & tp2 & np2 & Epop2 & Hcase2 & HtpR2 & HnpR2).
    destruct (cc_pop_split (D ++ [q]) (sib q) sh tdone' tp1 tp2 apop' np1 np2 (c_all st)
                Etp Eall Ftd Fap Hcase2) as (tdone'' & apop'' & E1 & E2 & F1 & F2).
    destruct (cc_case_sorted (sib q) sh _ _ _ _ S1 S2 Hcase2) as (_ & _ & In1 & In2 & Hin2).
    assert (HWs : W (g (sib q)) sh).
    { rewrite Forall_forall in Htp_W, iW. destruct Hin2 as [Hin|Hin].
      - apply (Htp_W (g (sib q), sh)). rewrite Etp. apply in_or_app. right. exact Hin.
      - apply (iW (g (sib q), sh)). rewrite Eall. apply in_or_app. right. exact Hin. }
    assert (HWpar : W (g (par q)) (getNextHash HO (g q) h sh)) by (apply W_step; assumption).
    exists rest', sh, tp2, np2, tdone'', apop''.
    split; [exact Heven|]. split; [exact Ersib|]. split; [exact Epop2|].
    assert (Hpr' : In (par q) rest').
    { destruct Hpr as [E|Hin]; [exfalso; exact (Hpns (eq_sym E))|exact Hin]. }
    constructor; cbn [c_row c_tp c_np c_all c_proof c_prev c_roots c_rows]; try assumption.
    - (* ci_K *) rewrite <- !app_assoc. cbn [app]. exact iK.
    - (* ci_all *) rewrite E2, app_assoc. reflexivity.
    - (* ci_npP *) apply Forall_app. split; [exact HnpR2|]. constructor; [|constructor].
      exists (par q). repeat split; assumption.
    - (* ci_all_sorted *) exact (cc_all_snoc D q _ PD PP wsP tdone apop st _ I0 Hroot).
    - (* ci_all_W *) apply Forall_app. split; [exact iW|]. constructor; [exact HWpar|constructor].
    - (* ci_par *) intros c Hc Hr. rewrite map_app. apply in_or_app.
      apply in_app_or in Hc. destruct Hc as [Hc|[<-|[]]].
      + apply in_app_or in Hc. destruct Hc as [Hc|[<-|[]]]; [left; exact (ipar c Hc Hr)|].
        right. left. reflexivity.
      + right. left. cbn [fst]. rewrite pps_par_sib. reflexivity.
    - (* ci_np_lt *) apply (cc_np_lt_snoc D q (sib q :: rest') np2 rest' _ iK Hroot).
      + intros c Hc. right. exact Hc.
      + intros Hin. specialize (Hsl _ Hin). lia.
      + intros e q' He Hq' Hr'.
        apply (inplt e q' (Hnp1 e (In2 e He))); [right; right; exact Hq'|exact Hr'].
    - (* ci_PD *) intros s Hs. apply in_or_app. left. apply in_or_app. left. exact (iPD s Hs).
    - (* ci_PPP *) intros s Hs.
      assert (HsP : In s PPs) by (rewrite iPPs; apply in_or_app; right; exact Hs).
      destruct (cc_PP_facts s HsP) as (_ & _ & HsnK).
      destruct (iPPP s Hs) as [E|[E|Hin]]; [| |exact Hin]; exfalso; apply HsnK.
      + symmetry in E. apply pps_sib_eq_inv in E. subst s. exact HsK.
      + apply (f_equal sib) in E. rewrite !pps_sib_invol in E. subst s. exact HqK.
    - (* ci_sib *) intros c Hc Hr Hin. apply in_app_or in Hc. destruct Hc as [Hc|[<-|[]]].
      + apply in_app_or in Hc. destruct Hc as [Hc|[<-|[]]].
        * apply (isib c Hc Hr). right. right. exact Hin.
        * specialize (Hsl _ Hin). lia.
      + rewrite pps_sib_invol in Hin. apply Hqnr. right. exact Hin.
    - (* ci_rowP *) intros c Hc. apply HrowP. right. exact Hc.
    - (* ci_rows *) rewrite !cc_filter_snoc, Hroot, Hsr, !app_nil_r. exact irows.
    - (* ci_roots *) rewrite !cc_filter_snoc, Hroot, Hsr, !app_nil_r. exact iroots.
  Qed.

  (** ** the loop *)
  Lemma cc_loop : forall f D P PD PP wsP tdone apop st,
    CInv D P PD PP wsP tdone apop st -> CPost (calc_loop HO true f n total st tp_all).
  Proof.
    induction f as [|f IH]; intros D P PD PP wsP tdone apop st I; [left; reflexivity|].
    rewrite calc_loop_S. unfold calc_step. cbv zeta.
    pose proof cc_t63 as Ht63. pose proof cc_nle as Hnle.
    destruct (N.ltb_spec total (c_row st)) as [Hgt|_]; [pose proof (ci_row _ _ _ _ _ _ _ _ I); lia|].
    destruct P as [|q rest].
    - (* nothing is pending: both queues are empty *)
      cinv_destruct I.
      rewrite (cc_posin_nil _ _ itpP), (cc_posin_nil _ _ inpP). cbn [pop step_k].
      rewrite app_nil_r in iK. subst D.
      rewrite (cc_posin_nil _ _ inpP), app_nil_r in iall.
      right. exists (c_all st), (c_roots st). rewrite irows.
      split; [reflexivity|]. split; [exact isorted|]. split; [exact iW|]. split; [|exact iroots].
      intros x. split.
      + intros Hx. apply in_map_iff in Hx. destruct Hx as (e & <- & He).
        rewrite iall in He. rewrite Forall_forall in iapop.
        destruct (iapop e He) as (c & _ & Hc & ->). apply in_map. exact Hc.
      + intros Hx. apply in_map_iff in Hx. destruct Hx as (c & <- & Hc).
        destruct (HK3 c Hc) as (c' & Hc' & Hr' & ->).
        apply ipar; [apply HKs_mem; exact Hc'|exact Hr'].
    - (* the least pending position is popped *)
      destruct (cc_head_pop D q rest PD PP wsP tdone apop st I)
        as (h & tp1 & np1 & tdone' & apop' & Epop & HW & Hcase & HtpR & HnpR & Etp & Eall &
            Ftd & Fap & S1 & S2 & Hnp1).
      rewrite Epop.
      destruct (cc_split_facts D q rest (ci_K _ _ _ _ _ _ _ _ I))
        as (_ & HqK & _ & _ & _ & _ & _ & _ & _).
      pose proof (HK1 q HqK) as Hqinf.
      assert (Eprev : (match c_prev st with Some v => g q <=? v | None => false end) = false).
      { pose proof (ci_prev _ _ _ _ _ _ _ _ I) as Hp. destruct (c_prev st) as [v|]; [|reflexivity].
        specialize (Hp q (or_introl eq_refl)). apply N.leb_gt. exact Hp. }
      rewrite Eprev.
      rewrite (cc_row_loop n total Ht63 Hnle q Hqinf 300 (c_row st)
                 (ci_rowP _ _ _ _ _ _ _ _ I q (or_introl eq_refl))).
      2:{ destruct (cc_K_vld q HqK) as [Hr _]. lia. }
      rewrite (cc_isRoot n total Ht63 Hnle Htotal q Hqinf).
      destruct (isroot q) eqn:Hroot.
      + (* a root: the candidate of its row *)
        cbn [step_k]. eapply IH.
        exact (cc_step_root D q rest PD PP wsP tdone apop st h tp1 np1 tdone' apop'
                 I Hroot HW HtpR HnpR Etp Eall Ftd Fap Hnp1).
      + rewrite (pps_t_par n total Ht63 Hnle q Hqinf Hroot).
        assert (Hdec : In (sib q) K \/ ~ In (sib q) K).
        { destruct (cmem (sib q) K) eqn:E; [left; apply pps_cmem_spec; exact E|].
          right. apply pps_cmem_false. exact E. }
        destruct Hdec as [HsK|HsnK].
        * (* the sibling is pending *)
          destruct (cc_step_pair D q rest PD PP wsP tdone apop st h tp1 np1 tdone' apop'
                      I Hroot HsK HW Hcase HtpR HnpR Etp Eall Ftd Fap S1 S2 Hnp1)
            as (rest' & sh & tp2 & np2 & tdone'' & apop'' & Heven & Ersib & Epop2 & I').
          unfold pop_sib. rewrite Epop2.
          rewrite (pps_t_rsib n total Hnle q Hqinf), Ersib, N.eqb_refl.
          rewrite (cc_isLeft total q (proj1 (cc_K_vld q HqK))), Heven. cbn [negb step_k].
          eapply IH. exact I'.
        * (* the sibling is the next proof hash *)
          destruct (cc_step_proof D q rest PD PP wsP tdone apop st h tp1 np1 tdone' apop'
                      I Hroot HsnK HW HtpR HnpR Etp Eall Ftd Fap Hnp1)
            as (ph & wsP' & PP' & Epf & I').
          assert (Esib : pop_sib H (g q) tp1 np1 = None).
          { unfold pop_sib.
            destruct (pop H tp1 np1) as [[[[p2 h2] tp2] np2]|] eqn:Epop2; [|reflexivity].
            destruct (N.eqb_spec (rightSib (g q)) p2) as [E|_]; [|reflexivity]. exfalso.
            rewrite (pps_t_rsib n total Hnle q Hqinf) in E.
            assert (Hp2 : exists c, In c rest /\ p2 = g c).
            { rewrite Forall_forall in HtpR, HnpR.
              destruct (pop_spec H _ _ _ _ _ _ Epop2) as [[E2 _]|[E2 _]].
              - destruct (HtpR (p2, h2)) as (c & Hc & _ & Ec); [rewrite E2; left; reflexivity|].
                exists c. split; [exact Hc|exact Ec].
              - destruct (HnpR (p2, h2)) as (c & Hc & _ & Ec); [rewrite E2; left; reflexivity|].
                exists c. split; [exact Hc|exact Ec]. }
            destruct Hp2 as (c & Hc & ->).
            destruct (cc_split_facts D q rest (ci_K _ _ _ _ _ _ _ _ I))
              as (_ & _ & HrK & _ & Hql & _ & Hqnr & _ & _).
            apply pps_g_inj in E;
              [|exact (pps_rsib_vld n total Ht63 Hnle q Hqinf Hroot)|exact (cc_K_vld c (HrK c Hc))].
            destruct (cc_rsib_cases q) as [E2|E2]; rewrite E2 in E; subst c.
            - exact (Hqnr Hc).
            - exact (HsnK (HrK _ Hc)). }
          rewrite Esib, Epf. cbn [step_k]. eapply IH. exact I'.
  Qed.

  (** ** the result for these data *)
  Theorem cc_run_complete :
    forall f, CPost (calc_loop HO true f n total
                               (mkC 0 tp_all [] [] (ws ++ extra) None [] []) tp_all).
  Proof. intros f. exact (cc_loop f _ _ _ _ _ _ _ _ cc_init). Qed.
End CalcComplete.

(** * 5. [calculateHashes] on an abstract closed target set *)

Lemma cc_Forall2_map_l {A B C} (f : A -> B) (P : B -> C -> Prop) l m :
  Forall2 (fun a c => P (f a) c) l m <-> Forall2 P (map f l) m.
Proof.
  split.
  - intros HF. induction HF as [|a c l m Hac HF IH]; cbn [map]; constructor; assumption.
  - revert m. induction l as [|a l IH]; intros m HF; cbn [map] in HF.
    + inversion HF. constructor.
    + inversion HF as [|b c l' m' Hbc Hrest]; subst. constructor; [exact Hbc|apply IH; exact Hrest].
Qed.

Lemma cc_Forall2_fun {A B} (P : A -> B -> Prop) l m1 m2 :
  (forall a b b', P a b -> P a b' -> b = b') -> Forall2 P l m1 -> Forall2 P l m2 -> m1 = m2.
Proof.
  intros Hfun H1. revert m2. induction H1 as [|a b l m Hab H1 IH]; intros m2 H2.
  - inversion H2. reflexivity.
  - inversion H2 as [|a' b' l' m' Hab' H2']; subst. f_equal; [exact (Hfun a b b' Hab Hab')|].
    apply IH. exact H2'.
Qed.

Lemma cc_NoDup_app {A} (l1 l2 : list A) :
  NoDup l1 -> NoDup l2 -> (forall c, In c l1 -> ~ In c l2) -> NoDup (l1 ++ l2).
Proof.
  intros H1 H2 Hd. induction l1 as [|t l1 IH]; [exact H2|].
  cbn [app]. inversion H1 as [|t' l' Hnin H1']; subst. constructor.
  - intros Hin. apply in_app_or in Hin. destruct Hin as [Hin|Hin]; [exact (Hnin Hin)|].
    exact (Hd t (or_introl eq_refl) Hin).
  - apply IH; [exact H1'|]. intros c Hc. apply Hd. right. exact Hc.
Qed.

Section Wrap.
  Variable H : Type.
  Variable HO : ops H.
  Variable W : N -> H -> Prop.
  Variables n total : N.
  Hypothesis Htotal : total = TreeRows n.
  Hypothesis Hn63 : n <= 2 ^ 63.

  Local Notation g := (g total).
  Local Notation isroot := (is_root_c n).
  Local Notation clt := (clt total).

  (** the hashes paired with the targets: the given ones, or (Go's [nil]) the empty hash *)
  Definition cc_hs (hashes : option (list H)) (targets : list N) : list H :=
    match hashes with Some l => l | None => map (fun _ => op_empty HO) targets end.

  Theorem calc_complete_abs (T anc : list crd)
    (HK1 : forall c, In c (T ++ anc) -> inf n c)
    (HK2 : forall c, In c (T ++ anc) -> isroot c = false -> In (par c) anc)
    (HK3 : forall c, In c anc -> exists c', In c' (T ++ anc) /\ isroot c' = false /\ c = par c')
    (HK4 : forall c, In c T -> ~ In c anc)
    (W_step : forall c h hs, In c (T ++ anc) -> isroot c = false ->
       W (g c) h -> W (g (sib c)) hs -> W (g (par c)) (getNextHash HO (g c) h hs))
    (Ks : list crd) (HKs_sorted : StronglySorted clt Ks)
    (HKs_mem : forall c, In c Ks <-> In c (T ++ anc))
    (PPs : list crd) (HPP_sorted : StronglySorted clt PPs)
    (HPP_mem : forall s, In s PPs <->
       exists c, In c (T ++ anc) /\ isroot c = false /\ ~ In (sib c) (T ++ anc) /\ s = sib c)
    (hashes : option (list H)) (ws extra : list H) :
    NoDup T ->
    Forall2 (fun c h => W (g c) h) T (cc_hs hashes (map g T)) ->
    Forall2 (fun s w => W (g s) w) PPs ws ->
    exists inter cands,
      calculateHashes HO true n hashes (map g T) (ws ++ extra)
        = Ok (inter, cands, map fst (filter isroot Ks)) /\
      Forall2 (fun c h => W (g c) h) (filter isroot Ks) cands /\
      map fst inter = map g Ks /\
      Forall (fun e : hp H => W (fst e) (snd e)) inter.
  Proof.
    intros HndT HWT Hws.
    pose proof (TreeRows_upper n) as Hnle. rewrite <- Htotal in Hnle.
    set (targets := map g T) in *. set (hs := cc_hs hashes targets) in *.
    assert (Hlen : length hs = length targets).
    { unfold targets. rewrite map_length. symmetry. exact (cs_Forall2_length _ _ _ HWT). }
    pose proof (calc_no_out_of_fuel_gen H HO n hashes targets (ws ++ extra) Hn63) as Hnf.
    unfold calculateHashes in *. cbv zeta in *. fold (cc_hs hashes targets) in *. fold hs in Hnf |- *.
    rewrite Hlen, Nat.eqb_refl in Hnf |- *. cbn [negb] in Hnf |- *. rewrite <- Htotal in Hnf |- *.
    set (tp := sortK (zip_hp targets hs)) in *.
    assert (HndK : NoDup (map fst (zip_hp targets hs))).
    { rewrite (cc_zip_hp_fst targets hs Hlen). unfold targets.
      apply pps_NoDup_map_on; [exact HndT|]. intros c Hc.
      apply (pps_inf_vld n total Hnle). apply HK1, in_or_app. left. exact Hc. }
    assert (Htp_sorted : SSlt (map fst tp)) by (apply cc_sortK_SSlt; exact HndK).
    assert (Htp_mem : forall x, In x (map fst tp) <-> In x (map g T)).
    { intros x. fold targets.
      replace (In x targets) with (In x (map fst (zip_hp targets hs)))
        by (rewrite (cc_zip_hp_fst targets hs Hlen); reflexivity).
      split; apply Permutation_in, Permutation_map;
        [apply RefTheory.sortK_perm|apply Permutation_sym, RefTheory.sortK_perm]. }
    assert (Htp_W : Forall (fun e : hp H => W (fst e) (snd e)) tp).
    { apply cs_sortK_Forall. apply cc_zip_hp_Forall2.
      exact (proj1 (cc_Forall2_map_l g W T hs) HWT). }
    destruct (cc_run_complete H HO W n total Htotal Hn63 T anc HK1 HK2 HK3 HK4 W_step
                Ks HKs_sorted HKs_mem PPs HPP_sorted HPP_mem tp Htp_sorted Htp_mem Htp_W
                ws extra Hws (calc_fuel (length targets) total))
      as [Eo|(cf & cands & Eo & Hcf_sorted & Hcf_W & Hcf_mem & Hcands)];
      [exfalso; exact (Hnf Eo)|].
    exists (mergeSortedHashAndPos cf tp), cands. split; [exact Eo|]. split; [exact Hcands|].
    destruct (cc_mergeSorted_spec H cf tp Hcf_sorted Htp_sorted) as (M1 & M2 & M3).
    split.
    - apply pps_SSlt_ext; [exact M1|apply pps_clt_map; exact HKs_sorted|].
      intros x. rewrite M2, Hcf_mem, Htp_mem, !in_map_iff. split.
      + intros [(c & E & Hc)|(c & E & Hc)]; exists c; (split; [exact E|]);
          apply HKs_mem, in_or_app; [right|left]; exact Hc.
      + intros (c & E & Hc). apply HKs_mem, in_app_or in Hc.
        destruct Hc as [Hc|Hc]; [right|left]; exists c; split; assumption.
    - apply Forall_forall. intros e He. rewrite Forall_forall in Hcf_W, Htp_W.
      destruct (M3 e He) as [Hin|Hin]; [exact (Hcf_W e Hin)|exact (Htp_W e Hin)].
  Qed.
End Wrap.

(** * 6. Valid target sets ([Geometry.pp_valid]) *)

Section ConcreteGeo.
  Variable n : N.
  Hypothesis Hn63 : n <= 2 ^ 63.

  Local Notation total := (TreeRows n).
  Local Notation g := (g total).
  Local Notation isroot := (is_root_c n).
  Local Notation clt := (clt total).

  Lemma cc_c_t63 : total <= 63. Proof. apply TreeRows_le_63. exact Hn63. Qed.
  Lemma cc_c_nle : n <= 2 ^ total. Proof. apply TreeRows_upper. Qed.

  (** the proper ancestors of the targets, and the targets with their ancestors *)
  Definition cc_anc (T : list crd) : list crd := cdedup (flat_map (ancestors 70 n) T).
  Definition cc_K (T : list crd) : list crd := T ++ cc_anc T.

  (** ascending arrangement of a list of coordinates *)
  Definition cc_sortC (l : list crd) : list crd :=
    map snd (sortK (map (fun c => (g c, c)) l)).

  Lemma cc_sortC_spec l : NoDup l -> (forall c, In c l -> vld total c) ->
    StronglySorted clt (cc_sortC l) /\ (forall c, In c (cc_sortC l) <-> In c l).
  Proof.
    intros Hnd Hv. unfold cc_sortC. set (L := map (fun c => (g c, c)) l).
    assert (HL : map fst L = map g l) by (unfold L; rewrite map_map; reflexivity).
    assert (Hent : Forall (fun e : N * crd => fst e = g (snd e)) (sortK L)).
    { apply cs_sortK_Forall. unfold L. apply Forall_forall. intros e He.
      apply in_map_iff in He. destruct He as (c & <- & _). reflexivity. }
    split.
    - apply pps_clt_map. rewrite map_map.
      replace (map (fun x : N * crd => g (snd x)) (sortK L)) with (map fst (sortK L)).
      + apply cc_sortK_SSlt. rewrite HL. apply pps_NoDup_map_on; assumption.
      + apply map_ext_in. intros e He. rewrite Forall_forall in Hent. exact (Hent e He).
    - intros c. rewrite in_map_iff. split.
      + intros (e & <- & He). apply (proj1 (cs_sortK_in e L)) in He. unfold L in He.
        apply in_map_iff in He. destruct He as (c & <- & Hc). exact Hc.
      + intros Hc. exists (g c, c). split; [reflexivity|]. apply (proj2 (cs_sortK_in (g c, c) L)). unfold L.
        apply in_map_iff. exists c. split; [reflexivity|exact Hc].
  Qed.

  (** what validity of the targets gives *)
  Lemma cc_valid_facts T : pp_valid n total T = true ->
    (forall c, In c (cc_K T) -> inf n c) /\
    (forall c, In c (cc_K T) -> isroot c = false -> In (par c) (cc_anc T)) /\
    (forall c, In c (cc_anc T) -> exists c', In c' (cc_K T) /\ isroot c' = false /\ c = par c') /\
    (forall c, In c T -> ~ In c (cc_anc T)) /\
    NoDup T /\ NoDup (cc_anc T).
  Proof.
    intros Hval. pose proof cc_c_t63 as Hh. pose proof cc_c_nle as Hn.
    unfold pp_valid in Hval. apply Bool.andb_true_iff in Hval. destruct Hval as [Hval Hv3].
    apply Bool.andb_true_iff in Hval. destruct Hval as [Hv1 Hv2].
    rewrite forallb_forall in Hv1, Hv2.
    assert (Hcs : forall c, In c T -> inf n c).
    { intros c Hc. specialize (Hv1 c Hc). apply Bool.andb_true_iff in Hv1. apply Hv1. }
    assert (Hanc : forall c, In c (cc_anc T) <-> exists t, In t T /\ In c (ancestors 70 n t)).
    { intros c. unfold cc_anc. rewrite pps_cdedup_In, in_flat_map. reflexivity. }
    assert (Hfuel : forall c : crd, (N.to_nat (total + 1 - fst c) <= 70)%nat) by (intros c; lia).
    unfold cc_K. split; [|split; [|split; [|split; [|split]]]].
    - intros c Hc. apply in_app_or in Hc. destruct Hc as [Hc|Hc]; [apply Hcs; assumption|].
      apply Hanc in Hc. destruct Hc as [t [Ht Hc]]. exact (pps_anc_inf n 70 t (Hcs t Ht) c Hc).
    - intros c Hc Hroot. apply in_app_or in Hc. destruct Hc as [Hc|Hc].
      + apply Hanc. exists c. split; [assumption|].
        destruct (pps_anc_closed n total Hh Hn 70 c (Hcs c Hc) (Hfuel c)) as [Hcl _].
        apply Hcl. exact Hroot.
      + apply Hanc in Hc. destruct Hc as [t [Ht Hc]]. apply Hanc. exists t. split; [assumption|].
        destruct (pps_anc_closed n total Hh Hn 70 t (Hcs t Ht) (Hfuel t)) as [_ Hcl].
        apply Hcl; assumption.
    - intros c Hc. apply Hanc in Hc. destruct Hc as [t [Ht Hc]].
      destruct (pps_anc_src n 70 t c Hc) as [c' (H1 & H2 & H3)]. exists c'.
      split; [|split; assumption]. apply in_or_app. destruct H1 as [->|H1]; [left; assumption|right].
      apply Hanc. exists t. split; assumption.
    - intros c Hc Hin. specialize (Hv2 c Hc). apply Bool.negb_true_iff, pps_cmem_false in Hv2.
      apply Hv2. unfold cc_anc in Hin. exact (proj1 (pps_cdedup_In _ _) Hin).
    - apply pps_cdedup_length_NoDup. exact Hv3.
    - apply pps_cdedup_NoDup.
  Qed.

  (** the rows of the roots among ascending positions ascend *)
  Lemma cc_root_rows_sorted (l : list crd) : StronglySorted clt l ->
    (forall c, In c l -> vld total c) -> SSlt (map fst (filter isroot l)).
  Proof.
    intros HS Hv. induction HS as [|a l HS IH Ha]; [constructor|].
    assert (IH' : SSlt (map fst (filter isroot l))) by (apply IH; intros c Hc; apply Hv; right; exact Hc).
    cbn [filter]. destruct (isroot a) eqn:Era; [|exact IH'].
    cbn [map]. constructor; [exact IH'|]. apply Forall_forall. intros r Hr.
    apply in_map_iff in Hr. destruct Hr as (c & <- & Hc). apply filter_In in Hc.
    destruct Hc as [Hc Erc]. rewrite Forall_forall in Ha. specialize (Ha c Hc).
    unfold ProofPosSpec.clt in Ha.
    pose proof (pps_g_lt_row n total cc_c_t63 cc_c_nle a c (Hv a (or_introl eq_refl))
                  (Hv c (or_intror Hc)) Ha) as Hle.
    destruct (N.eq_dec (fst a) (fst c)) as [E|E]; [exfalso|lia].
    destruct a as [ra oa], c as [rc oc]. cbn [fst] in E. subst rc.
    apply pps_is_root_iff in Era. apply pps_is_root_iff in Erc.
    destruct Era as [_ ->]. destruct Erc as [_ ->]. lia.
  Qed.

  (** a root coordinate is the root position of its row *)
  Lemma cc_root_pos c : vld total c -> isroot c = true -> g c = rootPosition n (fst c) total.
  Proof.
    intros [Hr _] Hc. rewrite rootPosition_gpos; [|exact cc_c_t63|exact Hr|exact cc_c_nle].
    unfold is_root_c in Hc. apply Bool.andb_true_iff in Hc. destruct Hc as [_ Hc].
    apply N.eqb_eq in Hc. unfold ProofPosSpec.g. rewrite Hc. reflexivity.
  Qed.


  Lemma cc_K_NoDup_vld T : pp_valid n total T = true ->
    NoDup (cc_K T) /\ (forall c, In c (cc_K T) -> vld total c) /\ NoDup T.
  Proof.
    intros Hval. destruct (cc_valid_facts T Hval) as (HK1 & _ & _ & HK4 & HndT & Hnda).
    split; [apply cc_NoDup_app; assumption|]. split; [|exact HndT].
    intros c Hc. exact (pps_inf_vld n total cc_c_nle c (HK1 c Hc)).
  Qed.

  (** the targets with their ancestors, ascending *)
  Lemma cc_Ks_spec T : pp_valid n total T = true ->
    StronglySorted clt (cc_sortC (cc_K T)) /\
    (forall c, In c (cc_sortC (cc_K T)) <-> In c (cc_K T)).
  Proof.
    intros Hval. destruct (cc_K_NoDup_vld T Hval) as (Hnd & Hv & _).
    exact (cc_sortC_spec (cc_K T) Hnd Hv).
  Qed.

  (** the canonical proof positions of valid targets: the siblings of the non-root members of
      [K] that are not in [K], ascending ([ProofPosSpec.proof_positions_members]) *)
  Lemma cc_pp_positions T : pp_valid n total T = true ->
    exists bs, fst (ProofPositions (sortN (map g T)) n total) = map g bs /\
      SSlt (map g bs) /\
      (forall s, In s bs <-> exists c, In c (cc_K T) /\ isroot c = false /\
                                       ~ In (sib c) (cc_K T) /\ s = sib c).
  Proof.
    intros Hval. pose proof cc_c_t63 as Hh. pose proof cc_c_nle as Hn.
    destruct (cc_valid_facts T Hval) as (HK1 & HK2 & HK3 & HK4 & HndT & Hnda).
    unfold cc_K in *. set (anc := cc_anc T) in *.
    assert (HvT : forall c, In c T -> vld total c).
    { intros c Hc. apply (pps_inf_vld n total Hn), HK1, in_or_app. left. exact Hc. }
    destruct (cc_sortC_spec T HndT HvT) as [HTs_sorted HTs_mem].
    set (Ts := cc_sortC T) in *.
    assert (HTK : forall c, In c (Ts ++ anc) <-> In c (T ++ anc)).
    { intros c. rewrite !in_app_iff, HTs_mem. reflexivity. }
    destruct (proof_positions_members n total Ts anc Hh Hn) as (bs & ds & Epp & Hbs & _ & Hbmem & _).
    { intros c Hc. apply HK1, HTK. exact Hc. }
    { intros c Hc. apply HK2, HTK. exact Hc. }
    { intros c Hc. destruct (HK3 c Hc) as (c' & Hc' & Hr' & E). exists c'.
      split; [apply HTK; exact Hc'|]. split; assumption. }
    { intros c Hc. apply HK4, HTs_mem. exact Hc. }
    { apply pps_clt_map. exact HTs_sorted. }
    assert (ETs : sortN (map g T) = map g Ts).
    { apply pps_sortN_unique.
      - apply pps_clt_map. exact HTs_sorted.
      - apply pps_NoDup_map_on; assumption.
      - intros x. rewrite !in_map_iff. split; intros (c & E & Hc); exists c;
          (split; [exact E|apply HTs_mem; exact Hc]). }
    exists bs. rewrite ETs, Epp. split; [reflexivity|]. split; [exact Hbs|].
    intros s. rewrite Hbmem. split; intros (c & Hc & Hr & Hns & E); exists c.
    - split; [apply HTK; exact Hc|]. split; [exact Hr|]. split; [|exact E].
      intros Hin. apply Hns, HTK. exact Hin.
    - split; [apply HTK; exact Hc|]. split; [exact Hr|]. split; [|exact E].
      intros Hin. apply Hns, HTK. exact Hin.
  Qed.
End ConcreteGeo.

Section Concrete.
  Variable H : Type.
  Variable HO : ops H.
  Variable W : N -> H -> Prop.
  Variable n : N.
  Hypothesis Hn63 : n <= 2 ^ 63.

  Local Notation total := (TreeRows n).
  Local Notation g := (g total).
  Local Notation isroot := (is_root_c n).
  Local Notation clt := (clt total).
  Local Notation cc_K := (cc_K n).
  Local Notation cc_anc := (cc_anc n).
  Local Notation cc_sortC := (cc_sortC n).

  (** THEOREM (coordinate form of the step hypothesis).  [T] lists the target coordinates in the
      order in which the caller passes them; [hashes = None] is Go's [nil]. *)
  Theorem calc_complete_c (T : list crd) (hashes : option (list H)) (ws extra : list H) :
    pp_valid n total T = true ->
    (forall c h hs, In c (cc_K T) -> isroot c = false ->
       W (g c) h -> W (g (sib c)) hs -> W (g (par c)) (getNextHash HO (g c) h hs)) ->
    Forall2 (fun c h => W (g c) h) T (cc_hs H HO hashes (map g T)) ->
    Forall2 W (fst (ProofPositions (sortN (map g T)) n total)) ws ->
    let Ks := cc_sortC (cc_K T) in
    let rows := map fst (filter isroot Ks) in
    exists inter cands,
      calculateHashes HO true n hashes (map g T) (ws ++ extra) = Ok (inter, cands, rows) /\
      SSlt rows /\
      Forall2 (fun r c => W (rootPosition n r total) c) rows cands /\
      map fst inter = map g Ks /\
      Forall (fun e : hp H => W (fst e) (snd e)) inter.
  Proof.
    intros Hval W_step HWT Hws Ks rows.
    pose proof (cc_c_t63 n Hn63) as Hh. pose proof (cc_c_nle n) as Hn.
    destruct (cc_valid_facts n Hn63 T Hval) as (HK1 & HK2 & HK3 & HK4 & HndT & Hnda).
    destruct (cc_K_NoDup_vld n Hn63 T Hval) as (HndK & HvK & _).
    destruct (cc_Ks_spec n Hn63 T Hval) as [HKs_sorted HKs_mem]. fold Ks in HKs_sorted, HKs_mem.
    destruct (cc_pp_positions n Hn63 T Hval) as (bs & Epp & Hbs & HPP_mem).
    rewrite Epp in Hws. unfold cc_K in *.
    destruct (calc_complete_abs H HO W n total eq_refl Hn63 T (cc_anc T) HK1 HK2 HK3 HK4 W_step
                Ks HKs_sorted HKs_mem bs (proj2 (pps_clt_map total bs) Hbs) HPP_mem
                hashes ws extra HndT HWT (proj2 (cc_Forall2_map_l g W bs ws) Hws))
      as (inter & cands & Ecalc & Hcands & Hinter & HinterW).
    exists inter, cands. split; [exact Ecalc|]. split.
    { apply (cc_root_rows_sorted n Hn63); [exact HKs_sorted|]. intros c Hc. apply HvK, HKs_mem. exact Hc. }
    split; [|split; assumption].
    apply cc_Forall2_map_l.
    assert (Hroots : forall c, In c (filter isroot Ks) -> g c = rootPosition n (fst c) total).
    { intros c Hc. apply filter_In in Hc. destruct Hc as [Hc Hr].
      apply (cc_root_pos n Hn63); [apply HvK, HKs_mem; exact Hc|exact Hr]. }
    clear - Hcands Hroots. induction Hcands as [|c h l m Hch HF IH]; constructor.
    - rewrite <- (Hroots c (or_introl eq_refl)). exact Hch.
    - apply IH. intros c' Hc'. apply Hroots. right. exact Hc'.
  Qed.
End Concrete.

(** * 7. The theorem in position form, its variants *)

Section Final.
  Variable H : Type.
  Variable HO : ops H.
  Variable W : N -> H -> Prop.
  Variable n : N.
  Hypothesis Hn63 : n <= 2 ^ 63.

  Local Notation total := (TreeRows n).
  Local Notation g := (g total).
  Local Notation isroot := (is_root_c n).
  Local Notation clt := (clt total).

  (** FORWARD STEP: the dual of [CalcSound]'s [V_step], stated with [getNextHash] itself *)
  Hypothesis W_step : forall p h hs,
    W p h -> W (sibling p) hs -> W (Parent p total) (getNextHash HO p h hs).

  (** what [calculateHashes] reports on the valid targets [T]: with
      [Ks] = the targets and their ancestors in ascending order ([cc_Ks_spec]) and
      [rows] = the rows of the roots among them, i.e. of the trees that hold targets *)
  Definition cc_result (T : list crd) (o : outcome (calc_result H)) : Prop :=
    let Ks := cc_sortC n (cc_K n T) in
    let rows := map fst (filter isroot Ks) in
    exists inter cands,
      o = Ok (inter, cands, rows) /\
      SSlt rows /\
      (* each candidate is a [W]-value of the root of its row *)
      Forall2 (fun r c => W (rootPosition n r total) c) rows cands /\
      (* the computed positions are exactly the positions of [Ks], each with a [W]-value *)
      map fst inter = map g Ks /\
      Forall (fun e : hp H => W (fst e) (snd e)) inter.

  Theorem calc_complete_gen (T : list crd) (hashes : option (list H)) (ws extra : list H) :
    pp_valid n total T = true ->
    Forall2 (fun c h => W (g c) h) T (cc_hs H HO hashes (map g T)) ->
    Forall2 W (fst (ProofPositions (sortN (map g T)) n total)) ws ->
    cc_result T (calculateHashes HO true n hashes (map g T) (ws ++ extra)).
  Proof.
    intros Hval HWT Hws. unfold cc_result.
    destruct (cc_valid_facts n Hn63 T Hval) as (HK1 & _).
    apply (calc_complete_c H HO W n Hn63 T hashes ws extra Hval); [|exact HWT|exact Hws].
    intros c h hs Hc Hr Hh Hhs. pose proof (HK1 c Hc) as Hinf.
    rewrite <- (pps_t_par n total (cc_c_t63 n Hn63) (cc_c_nle n) c Hinf Hr).
    apply W_step; [exact Hh|].
    rewrite (pps_t_sib n total (cc_c_nle n) c Hinf). exact Hhs.
  Qed.

  (** verification: the targets come with their hashes, in any order *)
  Theorem calc_complete (T : list crd) (hashes ws extra : list H) :
    pp_valid n total T = true ->
    Forall2 W (map g T) hashes ->
    Forall2 W (fst (ProofPositions (sortN (map g T)) n total)) ws ->
    cc_result T (calculateHashes HO true n (Some hashes) (map g T) (ws ++ extra)).
  Proof.
    intros Hval HWT Hws. apply calc_complete_gen; [exact Hval| |exact Hws].
    cbn [cc_hs]. apply cc_Forall2_map_l. exact HWT.
  Qed.

  (** deletion ([Stump.del] passes [nil] hashes): the targets carry the empty hash *)
  Theorem calc_complete_none (T : list crd) (ws extra : list H) :
    pp_valid n total T = true ->
    (forall c, In c T -> W (g c) (op_empty HO)) ->
    Forall2 W (fst (ProofPositions (sortN (map g T)) n total)) ws ->
    cc_result T (calculateHashes HO true n None (map g T) (ws ++ extra)).
  Proof.
    intros Hval HWT Hws. apply calc_complete_gen; [exact Hval| |exact Hws].
    cbn [cc_hs]. rewrite map_map. clear - HWT. induction T as [|t T IH]; cbn [map]; constructor.
    - apply HWT. left. reflexivity.
    - apply IH. intros c Hc. apply HWT. right. exact Hc.
  Qed.

  (** a functional valuation: the candidates ARE the values of the roots *)
  Theorem calc_complete_functional (T : list crd) (o : outcome (calc_result H)) :
    (forall p h h', W p h -> W p h' -> h = h') ->
    cc_result T o ->
    forall inter cands rows vals, o = Ok (inter, cands, rows) ->
      Forall2 (fun r v => W (rootPosition n r total) v) rows vals -> cands = vals.
  Proof.
    intros Hfun (inter0 & cands0 & E0 & _ & HF & _) inter cands rows vals E Hvals.
    rewrite E0 in E. injection E as -> -> <-.
    apply (cc_Forall2_fun _ _ _ _ (fun r => Hfun (rootPosition n r total)) HF Hvals).
  Qed.
End Final.

Lemma cc_filter_perm {A} (f : A -> bool) l l' :
  Permutation l l' -> Permutation (filter f l) (filter f l').
Proof.
  induction 1 as [|x l l' Hp IH|x y l|l l' l'' Hp1 IH1 Hp2 IH2].
  - constructor.
  - cbn [filter]. destruct (f x); [constructor|]; exact IH.
  - cbn [filter]. destruct (f x), (f y); try apply Permutation_refl. apply perm_swap.
  - exact (Permutation_trans IH1 IH2).
Qed.

(** the ascending lists of the statement, written with [sortN] *)
Lemma cc_Ks_positions n T : n <= 2 ^ 63 -> pp_valid n (TreeRows n) T = true ->
  map (g (TreeRows n)) (cc_sortC n (cc_K n T)) = sortN (map (g (TreeRows n)) (cc_K n T)) /\
  map fst (filter (is_root_c n) (cc_sortC n (cc_K n T)))
    = sortN (map fst (filter (is_root_c n) (cc_K n T))).
Proof.
  intros Hn63 Hval.
  destruct (cc_Ks_spec n Hn63 T Hval) as [HS Hmem].
  destruct (cc_K_NoDup_vld n Hn63 T Hval) as (Hnd & Hv & _).
  assert (HndKs : NoDup (cc_sortC n (cc_K n T))).
  { exact (NoDup_map_inv _ _ (cc_SSlt_NoDup _ (proj1 (pps_clt_map _ _) HS))). }
  pose proof (NoDup_Permutation HndKs Hnd Hmem) as Hperm.
  assert (Hs : StronglySorted N.lt (map fst (filter (is_root_c n) (cc_sortC n (cc_K n T))))).
  { apply (cc_root_rows_sorted n Hn63); [exact HS|]. intros c Hc. apply Hv, Hmem. exact Hc. }
  pose proof (Permutation_map fst (cc_filter_perm (is_root_c n) _ _ Hperm)) as Hperm2.
  split; symmetry; apply pps_sortN_unique.
  - apply pps_clt_map. exact HS.
  - apply pps_NoDup_map_on; assumption.
  - intros x. split; apply Permutation_in, Permutation_map;
      [exact Hperm|apply Permutation_sym; exact Hperm].
  - exact Hs.
  - exact (Permutation_NoDup Hperm2 (cc_SSlt_NoDup _ Hs)).
  - intros x. split; apply Permutation_in; [exact Hperm2|apply Permutation_sym; exact Hperm2].
Qed.

(** The statement, closed (for reference by other files). *)
Definition calc_complete_statement : Prop :=
  forall (H : Type) (HO : ops H) (W : N -> H -> Prop) (n : N),
    n <= 2 ^ 63 ->
    (forall p h hs, W p h -> W (sibling p) hs ->
                    W (Parent p (TreeRows n)) (getNextHash HO p h hs)) ->
    forall (T : list crd) (hashes : option (list H)) (ws extra : list H),
      pp_valid n (TreeRows n) T = true ->
      Forall2 (fun c h => W (g (TreeRows n) c) h) T
              (cc_hs H HO hashes (map (g (TreeRows n)) T)) ->
      Forall2 W (fst (ProofPositions (sortN (map (g (TreeRows n)) T)) n (TreeRows n))) ws ->
      let Ks := cc_sortC n (cc_K n T) in
      let rows := map fst (filter (is_root_c n) Ks) in
      StronglySorted (clt (TreeRows n)) Ks /\ (forall c, In c Ks <-> In c (cc_K n T)) /\
      exists inter cands,
        calculateHashes HO true n hashes (map (g (TreeRows n)) T) (ws ++ extra)
          = Ok (inter, cands, rows) /\
        StronglySorted N.lt rows /\
        Forall2 (fun r c => W (rootPosition n r (TreeRows n)) c) rows cands /\
        map fst inter = map (g (TreeRows n)) Ks /\
        Forall (fun e : hp H => W (fst e) (snd e)) inter.

Theorem calc_complete_holds : calc_complete_statement.
Proof.
  unfold calc_complete_statement. intros H HO W n Hn Hstep T hashes ws extra Hval HWT Hws.
  split; [exact (proj1 (cc_Ks_spec n Hn T Hval))|]. split; [exact (proj2 (cc_Ks_spec n Hn T Hval))|].
  exact (calc_complete_gen H HO W n Hn Hstep T hashes ws extra Hval HWT Hws).
Qed.


From Utreexo Require Import Spec.Forest Spec.Oracle Proofs.LayoutStruct.

(** * 8. The reference forest: nodes, coordinates, roots, ancestors *)

(** a coordinate of [Spec.Forest] (row in [nat]) as a coordinate of [Spec.Geometry] *)
Definition cN (c : nat * N) : crd := (N.of_nat (fst c), snd c).

Lemma cN_inj c d : cN c = cN d -> c = d.
Proof.
  destruct c as [r o], d as [r' o']. unfold cN. cbn [fst snd]. intros E.
  injection E as E1 E2. f_equal; [lia|exact E2].
Qed.

Lemma cN_par r o : par (cN (r, o)) = cN (S r, o / 2).
Proof. unfold par, cN. cbn [fst snd]. f_equal. lia. Qed.

Lemma cN_sib c : sib (cN c) = cN (sib_coord c).
Proof. reflexivity. Qed.

Lemma cc_cdedup_NoDup_id l : NoDup l -> cdedup l = l.
Proof.
  induction 1 as [|x l Hx Hl IH]; [reflexivity|]. cbn [cdedup].
  destruct (cmem x l) eqn:E; [exfalso; apply Hx, pps_cmem_spec; exact E|]. rewrite IH. reflexivity.
Qed.

Section RefForest.
  Variable H : Type.
  Variable HO : ops H.
  Variable s : slots H.

  Local Notation n := (N.of_nat (length s)).
  Local Notation total := (TreeRows (N.of_nat (length s))).
  Local Notation R := (rows_of (num_leaves s)).
  Local Notation lay := (layout HO s).
  Local Notation g := (g total).
  Local Notation hash2 := (op_hash2 HO).

  Definition ncrd (x : node H) : crd := cN (nrow x, noff x).

  Lemma rf_R_total : N.of_nat R = total.
  Proof. unfold rows_of, num_leaves. rewrite N2Nat.id. reflexivity. Qed.

  Lemma rf_t63 : n <= 2 ^ 63 -> total <= 63. Proof. apply TreeRows_le_63. Qed.
  Lemma rf_nle : n <= 2 ^ total. Proof. apply TreeRows_upper. Qed.

  Lemma rf_pos_g r o : pos R r o = g (cN (r, o)).
  Proof. rewrite LayoutStruct.pos_gpos, rf_R_total. reflexivity. Qed.

  Lemma rf_npos x : npos R x = g (ncrd x).
  Proof. unfold npos. apply rf_pos_g. Qed.

  Lemma rf_node_inf x : In x lay -> inf n (ncrd x).
  Proof.
    intros Hx. unfold inf, ncrd, cN, in_forest. cbn [fst snd]. apply N.leb_le.
    exact (layout_coords_valid H HO s x Hx).
  Qed.

  Lemma rf_node_vld x : In x lay -> vld total (ncrd x).
  Proof. intros Hx. exact (pps_inf_vld n total rf_nle _ (rf_node_inf x Hx)). Qed.

  Lemma rf_ncrd_inj x y : In x lay -> In y lay -> ncrd x = ncrd y -> x = y.
  Proof.
    intros Hx Hy E. apply cN_inj in E.
    exact (RefTheory.layout_coord_inj H HO s x y Hx Hy E).
  Qed.

  (** the root flag of a node is the geometric root test on its coordinate *)
  Lemma rf_root_iff x : In x lay -> (nroot x = true <-> is_root_c n (ncrd x) = true).
  Proof.
    intros Hx. unfold is_root_c, ncrd, cN. cbn [fst snd]. split.
    - intros Hr. destruct (root_node_conv H HO s x Hx Hr) as (k & lo & t & Hin & Ek & Eo & _).
      destruct (root_node H HO s k lo t Hin) as (Hbit & _ & Ediv & _).
      rewrite Ek, Hbit, Eo, Ediv, N.eqb_refl. reflexivity.
    - intros Hr. apply andb_true_iff in Hr. destruct Hr as [Hbit Ho]. apply N.eqb_eq in Ho.
      destruct (roots_nth_bit H HO s (nrow x) Hbit) as (lo & t & Hin & _).
      destruct (root_node H HO s (nrow x) lo t Hin) as (_ & _ & Ediv & y & Hy & Hry & _).
      rewrite Ediv, <- Ho in Hy. rewrite (tnode_in H HO s x Hx) in Hy. injection Hy as ->.
      exact Hry.
  Qed.

  Lemma rf_nonroot x : In x lay -> is_root_c n (ncrd x) = false -> nroot x = false.
  Proof.
    intros Hx Hr. destruct (nroot x) eqn:E; [|reflexivity].
    apply (rf_root_iff x Hx) in E. congruence.
  Qed.

  Lemma rf_root_true x : In x lay -> nroot x = false -> is_root_c n (ncrd x) = false.
  Proof.
    intros Hx Hr. destruct (is_root_c n (ncrd x)) eqn:E; [|reflexivity].
    apply (rf_root_iff x Hx) in E. congruence.
  Qed.

  Lemma rf_root_row x : In x lay -> nroot x = true -> nrow x = ntree x.
  Proof.
    intros Hx Hr. destruct (root_node_conv H HO s x Hx Hr) as (k & lo & t & _ & Ek & _ & _ & Et).
    congruence.
  Qed.

  (** the parent node of a non-root node *)
  Lemma rf_parent x : In x lay -> nroot x = false ->
    exists p, In p lay /\ ncrd p = par (ncrd x) /\ nleaf p = false /\ ntree p = ntree x /\
              (nrow x < ntree x)%nat.
  Proof.
    intros Hx Hr.
    destruct (node_parent H HO s _ _ x (tnode_in H HO s x Hx) Hr) as (p & Hp & Hl & Ht & Hrow).
    apply tnode_some in Hp. destruct Hp as (Hp & Er & Eo).
    exists p. split; [exact Hp|]. split.
    - unfold ncrd. rewrite Er, Eo. symmetry. apply cN_par.
    - split; [exact Hl|]. split; [exact Ht|lia].
  Qed.

  (** the geometric proper ancestors of a node are inner nodes of its tree *)
  Lemma rf_ancestors : forall fuel x, In x lay ->
    forall a, In a (ancestors fuel n (ncrd x)) ->
      exists y, In y lay /\ ncrd y = a /\ nleaf y = false /\ ntree y = ntree x.
  Proof.
    induction fuel as [|f IH]; intros x Hx a Ha; [destruct Ha|].
    cbn [ancestors] in Ha. destruct (is_root_c n (ncrd x)) eqn:Er; [destruct Ha|].
    destruct (rf_parent x Hx (rf_nonroot x Hx Er)) as (p & Hp & Ep & Hl & Ht & _).
    fold (par (ncrd x)) in Ha. rewrite <- Ep in Ha. destruct Ha as [<-|Ha].
    - exists p. repeat split; assumption.
    - destruct (IH p Hp a Ha) as (y & Hy & Ey & Hly & Hty). exists y.
      repeat split; try assumption. congruence.
  Qed.

  (** [path_up] of the reference = the node and its geometric ancestors *)
  Lemma rf_path_up : forall f1 x f2, In x lay ->
    (ntree x - nrow x <= f1)%nat -> (ntree x - nrow x <= f2)%nat ->
    map cN (path_up f1 lay (nrow x) (noff x) (ntree x)) = ncrd x :: ancestors f2 n (ncrd x).
  Proof.
    induction f1 as [|f1 IH]; intros x f2 Hx H1 H2.
    - cbn [path_up map]. f_equal.
      destruct (nroot x) eqn:Er.
      + destruct f2; [reflexivity|]. cbn [ancestors].
        rewrite (proj1 (rf_root_iff x Hx) Er). reflexivity.
      + destruct (rf_parent x Hx Er) as (_ & _ & _ & _ & _ & Hlt). lia.
    - cbn [path_up map]. f_equal. destruct (nroot x) eqn:Er.
      + rewrite (rf_root_row x Hx Er), Nat.ltb_irrefl.
        destruct f2; [reflexivity|]. cbn [ancestors].
        rewrite (proj1 (rf_root_iff x Hx) Er). reflexivity.
      + destruct (rf_parent x Hx Er) as (p & Hp & Ep & _ & Ht & Hlt).
        destruct (Nat.ltb_spec (nrow x) (ntree x)) as [_|Hge]; [|lia].
        destruct f2 as [|f2]; [lia|]. cbn [ancestors].
        rewrite (rf_root_true x Hx Er). fold (par (ncrd x)). rewrite <- Ep.
        assert (Ecoord : (S (nrow x), noff x / 2) = (nrow p, noff p)).
        { apply cN_inj. rewrite <- cN_par. exact (eq_sym Ep). }
        injection Ecoord as E1 E2. rewrite E1, E2, <- Ht.
        apply IH; [exact Hp|lia|lia].
  Qed.

  Lemma rf_tree_rows x : In x lay -> (nrow x <= ntree x)%nat /\ (ntree x <= R)%nat.
  Proof.
    intros Hx. destruct (layout_node_tree H HO s x Hx) as (lo & t & Hin & _ & Hle & _).
    split; [exact Hle|].
    destruct (root_node H HO s _ _ _ Hin) as (_ & _ & _ & rt & Hrt & _).
    apply tnode_some in Hrt. destruct Hrt as (Hrt & Er & _).
    pose proof (proj1 (layout_coords_rows_of H HO s rt Hrt)). lia.
  Qed.

  Lemma rf_fuel x : n <= 2 ^ 63 -> In x lay ->
    (ntree x - nrow x <= 64)%nat /\ (ntree x - nrow x <= 70)%nat.
  Proof.
    intros Hn63 Hx. destruct (rf_tree_rows x Hx) as [_ Hle].
    pose proof rf_R_total as ER. pose proof (rf_t63 Hn63). lia.
  Qed.
End RefForest.
Arguments ncrd {H} x.

(** * 9. Targets of the reference forest: validity, the set [K], the canonical proof *)

Section RefTargets.
  Variable H : Type.
  Variable HO : ops H.
  Variable s : slots H.
  Hypothesis Hn63 : N.of_nat (length s) <= 2 ^ 63.

  Local Notation n := (N.of_nat (length s)).
  Local Notation total := (TreeRows (N.of_nat (length s))).
  Local Notation R := (rows_of (num_leaves s)).
  Local Notation lay := (layout HO s).
  Local Notation g := (g total).

  (** the target nodes: distinct leaves of the layout *)
  Variable tsn : list (node H).
  Hypothesis Hts_lay : forall x, In x tsn -> In x lay.
  Hypothesis Hts_leaf : forall x, In x tsn -> nleaf x = true.
  Hypothesis Hts_nd : NoDup tsn.

  Local Notation T := (map ncrd tsn).

  Lemma rt_T_NoDup : NoDup T.
  Proof.
    apply RefTheory.NoDup_map_inj_on; [exact Hts_nd|]. intros x y Hx Hy E.
    exact (rf_ncrd_inj H HO s x y (Hts_lay x Hx) (Hts_lay y Hy) E).
  Qed.

  Lemma rt_valid : pp_valid n total T = true.
  Proof.
    unfold pp_valid. apply andb_true_iff. split; [apply andb_true_iff; split|].
    - apply forallb_forall. intros c Hc. apply in_map_iff in Hc. destruct Hc as (x & <- & Hx).
      apply andb_true_iff. split.
      + exact (rf_node_inf H HO s x (Hts_lay x Hx)).
      + apply N.leb_le. exact (proj1 (rf_node_vld H HO s x (Hts_lay x Hx))).
    - apply forallb_forall. intros c Hc. apply in_map_iff in Hc. destruct Hc as (x & <- & Hx).
      apply negb_true_iff, pps_cmem_false. intros Hin. apply in_flat_map in Hin.
      destruct Hin as (c' & Hc' & Ha). apply in_map_iff in Hc'. destruct Hc' as (z & <- & Hz).
      destruct (rf_ancestors H HO s 70 z (Hts_lay z Hz) _ Ha) as (y & Hy & Ey & Hly & _).
      apply (rf_ncrd_inj H HO s y x Hy (Hts_lay x Hx)) in Ey. subst y.
      rewrite (Hts_leaf x Hx) in Hly. discriminate.
    - rewrite (cc_cdedup_NoDup_id _ rt_T_NoDup). apply Nat.eqb_refl.
  Qed.

  (** [K]: the reference's [known_set], coordinate by coordinate *)
  Lemma rt_K c : In c (cc_K n T) <-> exists d, In d (known_set lay tsn) /\ c = cN d.
  Proof.
    assert (Hpath : forall x, In x tsn ->
      map cN (path_up 64 lay (nrow x) (noff x) (ntree x)) = ncrd x :: ancestors 70 n (ncrd x)).
    { intros x Hx. destruct (rf_fuel H HO s x Hn63 (Hts_lay x Hx)) as [F1 F2].
      exact (rf_path_up H HO s 64 x 70 (Hts_lay x Hx) F1 F2). }
    unfold cc_K, cc_anc. rewrite in_app_iff, pps_cdedup_In, in_flat_map. split.
    - intros [Hc|(c' & Hc' & Ha)].
      + apply in_map_iff in Hc. destruct Hc as (x & <- & Hx).
        exists (nrow x, noff x). split; [apply RefTheory.known_set_target; exact Hx|reflexivity].
      + apply in_map_iff in Hc'. destruct Hc' as (x & <- & Hx).
        assert (Hin : In c (map cN (path_up 64 lay (nrow x) (noff x) (ntree x)))).
        { rewrite (Hpath x Hx). apply in_cons. exact Ha. }
        apply in_map_iff in Hin. destruct Hin as (d & <- & Hd). exists d. split; [|reflexivity].
        apply RefTheory.known_set_In. exists x. split; assumption.
    - intros (d & Hd & ->). apply RefTheory.known_set_In in Hd. destruct Hd as (x & Hx & Hd).
      assert (Hin : In (cN d) (ncrd x :: ancestors 70 n (ncrd x))).
      { rewrite <- (Hpath x Hx). apply in_map. exact Hd. }
      apply in_inv in Hin. destruct Hin as [E|Hin].
      + left. rewrite <- E. apply in_map. exact Hx.
      + right. exists (ncrd x). split; [apply in_map; exact Hx|exact Hin].
  Qed.

  (** every member of [K] is a node of the layout *)
  Lemma rt_K_node c : In c (cc_K n T) -> exists y, In y lay /\ ncrd y = c.
  Proof.
    unfold cc_K, cc_anc. rewrite in_app_iff, pps_cdedup_In, in_flat_map.
    intros [Hc|(c' & Hc' & Ha)].
    - apply in_map_iff in Hc. destruct Hc as (x & <- & Hx). exists x.
      split; [exact (Hts_lay x Hx)|reflexivity].
    - apply in_map_iff in Hc'. destruct Hc' as (x & <- & Hx).
      destruct (rf_ancestors H HO s 70 x (Hts_lay x Hx) c Ha) as (y & Hy & Ey & _).
      exists y. split; assumption.
  Qed.

  Lemma rt_is_root_coord d : In d (known_set lay tsn) ->
    is_root_coord lay d = is_root_c n (cN d).
  Proof.
    intros Hd. destruct (rt_K_node (cN d)) as (y & Hy & Ey); [apply rt_K; exists d; split; [exact Hd|reflexivity]|].
    apply cN_inj in Ey. unfold is_root_coord. rewrite <- Ey. cbn [fst snd].
    change (find_coord lay (nrow y) (noff y)) with (tnode HO s (nrow y) (noff y)).
    rewrite (tnode_in H HO s y Hy).
    pose proof (rf_root_iff H HO s y Hy) as Hiff. unfold ncrd in Hiff.
    destruct (nroot y), (is_root_c n (cN (nrow y, noff y))); try reflexivity.
    - symmetry. apply Hiff. reflexivity.
    - apply Hiff. reflexivity.
  Qed.

  (** the proof coordinates of the reference = the siblings of [K] outside [K] *)
  Lemma rt_proof_coords sc :
    (exists c, In c (cc_K n T) /\ is_root_c n c = false /\ ~ In (sib c) (cc_K n T) /\ sc = sib c)
    <-> exists d, In d (proof_coords lay tsn) /\ sc = cN d.
  Proof.
    split.
    - intros (c & Hc & Hr & Hns & ->). apply rt_K in Hc. destruct Hc as (d & Hd & ->).
      exists (sib_coord d). split; [|reflexivity]. apply RefTheory.proof_coords_In.
      exists d. split; [exact Hd|]. split; [rewrite (rt_is_root_coord d Hd); exact Hr|].
      split; [|reflexivity]. intros Hin. apply Hns. apply rt_K. exists (sib_coord d).
      split; [exact Hin|reflexivity].
    - intros (d' & Hd' & ->). apply RefTheory.proof_coords_In in Hd'.
      destruct Hd' as (d & Hd & Hr & Hns & ->). exists (cN d).
      split; [apply rt_K; exists d; split; [exact Hd|reflexivity]|].
      split; [rewrite <- (rt_is_root_coord d Hd); exact Hr|]. split; [|reflexivity].
      intros Hin. apply rt_K in Hin. destruct Hin as (d2 & Hd2 & E).
      rewrite cN_sib in E. apply cN_inj in E. apply Hns. rewrite E. exact Hd2.
  Qed.

  (** LINK: the reference's canonical proof positions are the mirror's [ProofPositions] *)
  Lemma rt_canon_pos :
    canon_proof_pos R lay tsn = fst (ProofPositions (sortN (map g T)) n total).
  Proof.
    destruct (cc_pp_positions n Hn63 T rt_valid) as (bs & -> & Hbs & Hmem).
    apply pps_SSlt_ext; [|exact Hbs|].
    - unfold canon_proof_pos, sort_coords. apply cc_sortK_SSlt. rewrite map_map. cbn [fst].
      apply RefTheory.NoDup_map_inj_on; [apply RefTheory.proof_coords_NoDup|].
      exact (RefTheory.proof_coords_pos_inj H HO s tsn Hts_lay).
    - intros p. rewrite RefTheory.canon_proof_pos_In, in_map_iff. split.
      + intros (c & Hc & ->). exists (cN c). split; [symmetry; apply (rf_pos_g H s)|].
        apply Hmem. apply rt_proof_coords. exists c. split; [exact Hc|reflexivity].
      + intros (sc & <- & Hsc). apply Hmem, rt_proof_coords in Hsc. destruct Hsc as (d & Hd & ->).
        exists d. split; [exact Hd|]. symmetry. apply (rf_pos_g H s).
  Qed.
End RefTargets.

(** * 10. C-A: the verifier accepts every canonical proof of the reference forest *)

Lemma cc_Forall2_maps {A B C} (P : B -> C -> Prop) (f : A -> B) (h : A -> C) l :
  Forall (fun e => P (f e) (h e)) l -> Forall2 P (map f l) (map h l).
Proof. induction 1 as [|e l He Hl IH]; cbn [map]; constructor; assumption. Qed.

Section StrictMatchAll.
  Variable H : Type.
  Variable HO : ops H.

  (** when every candidate equals the stored root of its row, all of them are matched *)
  Lemma cc_strict_match_all n roots : forall rows cands,
    Forall2 (fun r c => exists x, nth_error roots (rootIndexForRow n r) = Some x /\
                                  op_eqb HO x c = true) rows cands ->
    strict_match HO n roots cands rows = map (rootIndexForRow n) rows.
  Proof.
    intros rows cands HF. induction HF as [|r c rows cands (x & Ex & Eq) HF IH]; [reflexivity|].
    cbn [strict_match map]. rewrite Ex, Eq, IH. reflexivity.
  Qed.

  Lemma cc_rootIndexForRow n r : r <= 63 ->
    rootIndexForRow n r = N.to_nat (popcount (N.shiftr n (r + 1))).
  Proof.
    intros Hr. unfold rootIndexForRow, numRoots, shr. rewrite add8_small by lia. reflexivity.
  Qed.
End StrictMatchAll.

Section VerifyComplete.
  Variable H : Type.
  Variable HO : ops H.
  Hypothesis HOK : ops_ok HO.
  Hypothesis hash_nz : forall a b, NZ HO (op_hash2 HO a b).
  Variable s : slots H.
  Hypothesis Hlive_nz : forall h, In (Some h) s -> NZ HO h.
  Hypothesis Hn63 : N.of_nat (length s) <= 2 ^ 63.

  Local Notation n := (N.of_nat (length s)).
  Local Notation total := (TreeRows (N.of_nat (length s))).
  Local Notation R := (rows_of (num_leaves s)).
  Local Notation lay := (layout HO s).
  Local Notation g := (g total).
  Local Notation hash2 := (op_hash2 HO).
  Local Notation nz := (NZ HO).

  (** the valuation: the hash of the node at the position, never the empty hash *)
  Definition Wv (p : N) (h : H) : Prop :=
    exists x, In x lay /\ p = g (ncrd x) /\ nhash x = h /\ nz h.

  (** every node except an empty root has a non-empty hash *)
  Lemma vc_nonroot_nz x : In x lay -> nroot x = false -> nz (nhash x).
  Proof.
    intros Hx Hr.
    destruct (node_cases H HO s _ _ x (tnode_in H HO s x Hx))
      as [r' xl xr _ _ _ _ Hh _ _ _ _|Hlf Hin _|Hroot _ _ _ _ _].
    - rewrite Hh. apply hash_nz.
    - apply Hlive_nz. exact Hin.
    - congruence.
  Qed.

  Lemma vc_leaf_nz x : In x lay -> nleaf x = true -> nz (nhash x).
  Proof. intros Hx Hl. apply Hlive_nz. exact (layout_leaf_live H HO s x Hx Hl). Qed.

  Lemma vc_Wv_node x h : In x lay -> Wv (g (ncrd x)) h -> nhash x = h /\ nz h.
  Proof.
    intros Hx (y & Hy & Eg & Eh & Hnz).
    apply pps_g_inj in Eg; [|exact (rf_node_vld H HO s x Hx)|exact (rf_node_vld H HO s y Hy)].
    apply (rf_ncrd_inj H HO s x y Hx Hy) in Eg. subst y. split; assumption.
  Qed.

  (** FORWARD STEP for the reference forest *)
  Lemma vc_step c h hs : inf n c -> is_root_c n c = false ->
    Wv (g c) h -> Wv (g (sib c)) hs -> Wv (g (par c)) (getNextHash HO (g c) h hs).
  Proof.
    intros Hinf Hroot (x & Hx & Eg & Eh & Hnz) Hsib.
    pose proof (rf_nle H s) as Hnle. pose proof (rf_t63 H s Hn63) as Ht63.
    apply pps_g_inj in Eg; [|exact (pps_inf_vld n total Hnle c Hinf)|exact (rf_node_vld H HO s x Hx)].
    subst c. pose proof (rf_nonroot H HO s x Hx Hroot) as Hnr.
    destruct (node_sibling H HO s _ _ x (tnode_in H HO s x Hx) Hnr)
      as (p & sb & Hp & Hsb & _ & _ & _ & Hsbr & Hph).
    apply tnode_some in Hp. destruct Hp as (Hp & Epr & Epo).
    apply tnode_some in Hsb. destruct Hsb as (Hsb & Esr & Eso).
    assert (Esb : ncrd sb = sib (ncrd x)).
    { unfold ncrd, sib, cN. cbn [fst snd]. rewrite Esr, Eso. reflexivity. }
    rewrite <- Esb in Hsib. destruct (vc_Wv_node sb hs Hsb Hsib) as [Ehs Hnzs].
    rewrite cs_getNextHash_nz by assumption.
    rewrite (cc_isLeft total (ncrd x) (proj1 (rf_node_vld H HO s x Hx))).
    exists p. split; [exact Hp|]. split; [|split].
    - f_equal. unfold ncrd. rewrite Epr, Epo. apply cN_par.
    - rewrite Hph, Eh, Ehs. unfold ncrd, cN. cbn [snd]. reflexivity.
    - destruct (N.even (snd (ncrd x))); apply hash_nz.
  Qed.

  (** ** the candidates of the involved roots are the stored roots *)
  Lemma vc_root_match r c : N.testbit n r = true ->
    Wv (rootPosition n r total) c ->
    exists x, nth_error (roots HO s) (rootIndexForRow n r) = Some x /\ op_eqb HO x c = true.
  Proof.
    intros Hbit (y & Hy & Eg & Eh & _).
    pose proof (rf_nle H s) as Hnle. pose proof (rf_t63 H s Hn63) as Ht63.
    destruct (root_coord_valid n r total Hnle Hbit) as [Hr Hov].
    rewrite rootPosition_gpos in Eg by assumption.
    set (k := N.to_nat r).
    assert (Ek : N.of_nat k = r) by (unfold k; apply N2Nat.id).
    destruct (roots_nth_bit H HO s k) as (lo & t & Hin & Hroot); [rewrite Ek; exact Hbit|].
    destruct (root_node H HO s k lo t Hin) as (_ & _ & Ediv & xn & Hxn & _ & Hh & _).
    rewrite Ek in Ediv, Hroot, Hxn. rewrite Ediv in Hxn.
    apply tnode_some in Hxn. destruct Hxn as (Hxn & Exr & Exo).
    assert (Ecrd : ncrd xn = (r, 2 * (n / 2 ^ (r + 1)))).
    { unfold ncrd, cN. cbn [fst snd]. rewrite Exr, Exo, Ek. reflexivity. }
    change (UtilsGeom.gpos total r (2 * (n / 2 ^ (r + 1)))) with (g (r, 2 * (n / 2 ^ (r + 1)))) in Eg.
    rewrite <- Ecrd in Eg.
    apply pps_g_inj in Eg; [|exact (rf_node_vld H HO s xn Hxn)|exact (rf_node_vld H HO s y Hy)].
    apply (rf_ncrd_inj H HO s xn y Hxn Hy) in Eg. subst y.
    exists (root_hash HO t). rewrite cc_rootIndexForRow by lia. split; [exact Hroot|].
    apply HOK. rewrite <- Hh. exact Eh.
  Qed.

  (** the root of the tree of a node is among the node and its geometric ancestors *)
  Lemma vc_root_in_path : forall fuel x, In x lay -> (ntree x - nrow x <= fuel)%nat ->
    exists q, In q (ncrd x :: ancestors fuel n (ncrd x)) /\ is_root_c n q = true /\
              fst q = N.of_nat (ntree x).
  Proof.
    induction fuel as [|f IH]; intros x Hx Hf.
    - destruct (nroot x) eqn:Er.
      + exists (ncrd x). split; [apply in_eq|]. split; [exact (proj1 (rf_root_iff H HO s x Hx) Er)|].
        unfold ncrd, cN. cbn [fst]. rewrite (rf_root_row H HO s x Hx Er). reflexivity.
      + destruct (rf_parent H HO s x Hx Er) as (_ & _ & _ & _ & _ & Hlt). lia.
    - destruct (nroot x) eqn:Er.
      + exists (ncrd x). split; [apply in_eq|]. split; [exact (proj1 (rf_root_iff H HO s x Hx) Er)|].
        unfold ncrd, cN. cbn [fst]. rewrite (rf_root_row H HO s x Hx Er). reflexivity.
      + destruct (rf_parent H HO s x Hx Er) as (p & Hp & Ep & _ & Ht & Hlt).
        destruct (IH p Hp) as (q & Hq & Hqr & Hqf).
        { assert (Erow : nrow p = S (nrow x)).
          { apply (f_equal fst) in Ep. unfold ncrd, par, cN in Ep. cbn [fst] in Ep. lia. }
          lia. }
        exists q. split; [|split; [exact Hqr|rewrite Hqf, Ht; reflexivity]].
        apply in_cons. cbn [ancestors]. rewrite (rf_root_true H HO s x Hx Er).
        fold (par (ncrd x)). rewrite <- Ep. exact Hq.
  Qed.

  (** ** an honest proof *)
  Variable tsn : list (node H).
  Hypothesis Hts_lay : forall x, In x tsn -> In x lay.
  Hypothesis Hts_leaf : forall x, In x tsn -> nleaf x = true.
  Hypothesis Hts_nd : NoDup tsn.

  Local Notation T := (map ncrd tsn).
  Local Notation Ks := (cc_sortC n (cc_K n T)).
  Local Notation rows := (map fst (filter (is_root_c n) Ks)).

  (** the reported rows are the rows of the trees that hold the targets *)
  Lemma vc_rows r : In r rows <-> exists x, In x tsn /\ r = N.of_nat (ntree x).
  Proof.
    pose proof (rt_valid H HO s tsn Hts_lay Hts_leaf Hts_nd) as Hval.
    destruct (cc_Ks_spec n Hn63 T Hval) as [_ HKs_mem].
    rewrite in_map_iff. split.
    - intros (q & <- & Hq). apply filter_In in Hq. destruct Hq as [Hq Hqr].
      apply HKs_mem in Hq. unfold cc_K, cc_anc in Hq.
      rewrite in_app_iff, pps_cdedup_In, in_flat_map in Hq. destruct Hq as [Hq|(c' & Hc' & Ha)].
      + apply in_map_iff in Hq. destruct Hq as (x & <- & Hx). exists x. split; [exact Hx|].
        pose proof (proj2 (rf_root_iff H HO s x (Hts_lay x Hx)) Hqr) as Er.
        unfold ncrd, cN. cbn [fst]. rewrite (rf_root_row H HO s x (Hts_lay x Hx) Er). reflexivity.
      + apply in_map_iff in Hc'. destruct Hc' as (x & <- & Hx). exists x. split; [exact Hx|].
        destruct (rf_ancestors H HO s 70 x (Hts_lay x Hx) q Ha) as (y & Hy & Ey & _ & Hty).
        subst q. pose proof (proj2 (rf_root_iff H HO s y Hy) Hqr) as Er.
        unfold ncrd, cN. cbn [fst]. rewrite (rf_root_row H HO s y Hy Er), Hty. reflexivity.
    - intros (x & Hx & ->).
      destruct (rf_fuel H HO s x Hn63 (Hts_lay x Hx)) as [_ F2].
      destruct (vc_root_in_path 70 x (Hts_lay x Hx) F2) as (q & Hq & Hqr & Hqf).
      exists q. split; [exact Hqf|]. apply filter_In. split; [|exact Hqr].
      apply HKs_mem. unfold cc_K, cc_anc. rewrite in_app_iff, pps_cdedup_In, in_flat_map.
      apply in_inv in Hq. destruct Hq as [<-|Hq]; [left; apply in_map; exact Hx|].
      right. exists (ncrd x). split; [apply in_map; exact Hx|exact Hq].
  Qed.

  Lemma vc_targets_W : Forall2 (fun c h => Wv (g c) h) T (map (@nhash H) tsn).
  Proof.
    apply cc_Forall2_maps. apply Forall_forall. intros x Hx. exists x.
    split; [exact (Hts_lay x Hx)|]. split; [reflexivity|]. split; [reflexivity|].
    exact (vc_leaf_nz x (Hts_lay x Hx) (Hts_leaf x Hx)).
  Qed.

  Lemma vc_proof_W :
    Forall2 Wv (fst (ProofPositions (sortN (map g T)) n total)) (canon_proof_hashes HO R lay tsn).
  Proof.
    rewrite <- (rt_canon_pos H HO s Hn63 tsn Hts_lay Hts_leaf Hts_nd).
    unfold canon_proof_pos, canon_proof_hashes. apply cc_Forall2_maps. apply Forall_forall.
    intros e He. apply RefTheory.sort_coords_In in He. destruct He as (c & Hc & ->). cbn [fst snd].
    apply RefTheory.proof_coords_In in Hc. destruct Hc as (d & Hd & Hr & _ & ->).
    destruct (rt_K_node H HO s tsn Hts_lay (cN d)) as (y & Hy & Ey).
    { apply (rt_K H HO s Hn63 tsn Hts_lay). exists d. split; [exact Hd|reflexivity]. }
    rewrite (rt_is_root_coord H HO s Hn63 tsn Hts_lay d Hd), <- Ey in Hr.
    pose proof (rf_nonroot H HO s y Hy Hr) as Hnr.
    destruct (node_sibling H HO s _ _ y (tnode_in H HO s y Hy) Hnr)
      as (p & sb & _ & Hsb & _ & _ & _ & Hsbr & _).
    apply cN_inj in Ey. subst d. unfold sib_coord. cbn [fst snd].
    change (find_coord lay (nrow y) (N.lxor (noff y) 1)) with (tnode HO s (nrow y) (N.lxor (noff y) 1)).
    rewrite Hsb. apply tnode_some in Hsb. destruct Hsb as (Hsb & Esr & Eso).
    exists sb. split; [exact Hsb|]. split; [|split; [reflexivity|exact (vc_nonroot_nz sb Hsb Hsbr)]].
    rewrite (rf_pos_g H s). unfold ncrd. rewrite Esr, Eso. reflexivity.
  Qed.

  Lemma vc_Wv_nz l m : Forall2 Wv l m -> Forall nz m.
  Proof.
    induction 1 as [|p h l m (x & _ & _ & _ & Hnz) _ IH]; constructor; assumption.
  Qed.

  (** C-A, on the target nodes *)
  Theorem verify_complete_nodes :
    Verify HO true (the_stump (mk_ctx HO s)) (map (@nhash H) tsn) (map (npos R) tsn)
           (canon_proof_hashes HO R lay tsn)
    = Ok (map (rootIndexForRow n) rows) /\ SSlt rows.
  Proof.
    pose proof (rt_valid H HO s tsn Hts_lay Hts_leaf Hts_nd) as Hval.
    destruct (cc_valid_facts n Hn63 T Hval) as (HK1 & _).
    destruct (cc_Ks_spec n Hn63 T Hval) as [_ HKs_mem].
    assert (Ets : map (npos R) tsn = map g T).
    { rewrite map_map. apply map_ext. intros x. apply (rf_npos H s). }
    set (hs := map (@nhash H) tsn). set (pf := canon_proof_hashes HO R lay tsn).
    destruct (calc_complete_c H HO Wv n Hn63 T (Some hs) pf [] Hval)
      as (inter & cands & Ecalc & Hsorted & Hcands & _ & _).
    { intros c h h' Hc Hr. exact (vc_step c h h' (HK1 c Hc) Hr). }
    { exact vc_targets_W. }
    { exact vc_proof_W. }
    rewrite app_nil_r in Ecalc. split; [|exact Hsorted].
    rewrite Ets.
    unfold Verify, the_stump, mk_ctx. cbn [st_n st_roots croots cn]. unfold num_leaves.
    unfold hs at 1. rewrite !map_length, Nat.eqb_refl. cbn [negb andb].
    assert (Hhs_nz : has_empty HO hs = false).
    { apply cs_has_empty_false.
      exact (vc_Wv_nz _ _ (proj1 (cc_Forall2_map_l g Wv T hs) vc_targets_W)). }
    assert (Hpf_nz : has_empty HO pf = false).
    { apply cs_has_empty_false. exact (vc_Wv_nz _ _ vc_proof_W). }
    fold hs. rewrite Hhs_nz, Hpf_nz. cbn [orb]. rewrite Ecalc.
    assert (Hmatch : strict_match HO n (roots HO s) cands rows = map (rootIndexForRow n) rows).
    { apply cc_strict_match_all.
      assert (Hbits : Forall (fun r => N.testbit n r = true) rows).
      { apply Forall_forall. intros r Hr. apply in_map_iff in Hr. destruct Hr as (q & <- & Hq).
        apply filter_In in Hq. destruct Hq as [_ Hq]. unfold is_root_c in Hq.
        apply andb_true_iff in Hq. exact (proj1 Hq). }
      assert (Hgen : forall rws cs, Forall (fun r => N.testbit n r = true) rws ->
                Forall2 (fun r c => Wv (rootPosition n r total) c) rws cs ->
                Forall2 (fun r c => exists x, nth_error (roots HO s) (rootIndexForRow n r) = Some x /\
                                              op_eqb HO x c = true) rws cs).
      { intros rws cs Hb HF. induction HF as [|r c l m Hrc HF IH]; [constructor|].
        inversion Hb as [|r' l' Hb1 Hbs]; subst. constructor; [|exact (IH Hbs)].
        exact (vc_root_match r c Hb1 Hrc). }
      exact (Hgen _ _ Hbits Hcands). }
    rewrite Hmatch, map_length, (cs_Forall2_length _ _ _ Hcands), Nat.eqb_refl. reflexivity.
  Qed.
End VerifyComplete.

(** the target nodes of a request: what [find_leaves] returns *)
Lemma cc_find_leaves_facts {H} (HO : ops H) (s : slots H) hs tsn : ops_ok HO ->
  NoDup hs -> find_leaves HO (layout HO s) hs = Some tsn ->
  (forall x, In x tsn -> In x (layout HO s)) /\ (forall x, In x tsn -> nleaf x = true) /\
  NoDup tsn /\ map (@nhash H) tsn = hs /\
  (forall x, In x tsn <-> exists h, In h hs /\ find_leaf HO (layout HO s) h = Some x).
Proof.
  intros HOK Hnd Efl.
  pose proof (RefTheory.find_leaves_In H HO _ _ _ Efl) as Hin.
  assert (Hx : forall x, In x tsn -> In x (layout HO s) /\ nleaf x = true).
  { intros x Hx. apply Hin in Hx. destruct Hx as (h & _ & Ef).
    destruct (find_leaf_some H HO _ h x HOK Ef) as (H1 & H2 & _). split; assumption. }
  split; [intros x Hx'; exact (proj1 (Hx x Hx'))|]. split; [intros x Hx'; exact (proj2 (Hx x Hx'))|].
  split; [exact (RefTheory.find_leaves_NoDup H HO HOK _ _ _ Hnd Efl)|].
  split; [exact (RefTheory.find_leaves_hashes H HO HOK _ _ _ Efl)|exact Hin].
Qed.

(** C-A.  The repaired verifier accepts the canonical proof of every set of distinct live leaves,
    whatever the order of the request, and reports the roots of the trees that hold them:
    [rows] lists the rows of those trees in ascending order. *)
Theorem verify_complete {H} (HO : ops H) (s : slots H) (hs : list H) (ts : list N) (pf : list H) :
  ops_ok HO ->
  (forall a b, NZ HO (op_hash2 HO a b)) ->
  (forall h, In (Some h) s -> NZ HO h) ->
  N.of_nat (length s) <= 2 ^ 63 ->
  NoDup hs ->
  exp_prove HO (mk_ctx HO s) hs = Some (ts, pf) ->
  exists rows,
    Verify HO true (the_stump (mk_ctx HO s)) hs ts pf
      = Ok (map (rootIndexForRow (N.of_nat (length s))) rows) /\
    StronglySorted N.lt rows /\
    (forall r, In r rows <->
       exists h x, In h hs /\ find_leaf HO (layout HO s) h = Some x /\ r = N.of_nat (ntree x)).
Proof.
  intros HOK Hnz Hlive Hn63 Hnd Ep. unfold exp_prove, mk_ctx in Ep. cbn [clay crows] in Ep.
  destruct (find_leaves HO (layout HO s) hs) as [tsn|] eqn:Efl; [|discriminate].
  injection Ep as <- <-.
  destruct (cc_find_leaves_facts HO s hs tsn HOK Hnd Efl) as (Hlay & Hleaf & Hndt & Ehs & Hin).
  destruct (verify_complete_nodes H HO HOK Hnz s Hlive Hn63 tsn Hlay Hleaf Hndt) as [Ev Hs].
  rewrite Ehs in Ev. eexists. split; [exact Ev|]. split; [exact Hs|].
  intros r. rewrite (vc_rows H HO s Hn63 tsn Hlay Hleaf Hndt r). split.
  - intros (x & Hx & ->). apply Hin in Hx. destruct Hx as (h & Hh & Ef).
    exists h, x. repeat split; assumption.
  - intros (h & x & Hh & Ef & ->). exists x. split; [|reflexivity].
    apply Hin. exists h. split; assumption.
Qed.

(** * 11. C-B: [Stump.del] computes the roots of the forest after the deletion *)

Lemma cc_nth_error_ext {A} : forall (l l' : list A),
  (forall i, nth_error l i = nth_error l' i) -> l = l'.
Proof.
  induction l as [|a l IH]; intros l' Hext.
  - destruct l' as [|b l']; [reflexivity|]. specialize (Hext O). discriminate.
  - destruct l' as [|b l']; [specialize (Hext O); discriminate|].
    pose proof (Hext O) as H0. cbn [nth_error] in H0. injection H0 as ->. f_equal.
    apply IH. intros i. exact (Hext (S i)).
Qed.

Section WriteRoots.
  Variable H : Type.

  Lemma cc_set_nth_spec (v : H) : forall i l, (i < length l)%nat ->
    exists l', set_nth i v l = Some l' /\ length l' = length l /\
      nth_error l' i = Some v /\ (forall j, j <> i -> nth_error l' j = nth_error l j).
  Proof.
    induction i as [|i IH]; intros l Hi; destruct l as [|y l]; cbn [length] in Hi; try lia.
    - exists (v :: l). split; [reflexivity|]. split; [reflexivity|]. split; [reflexivity|].
      intros j Hj. destruct j as [|j]; [congruence|reflexivity].
    - destruct (IH l ltac:(lia)) as (l' & E & El & Ei & Hother). exists (y :: l').
      cbn [set_nth]. rewrite E. split; [reflexivity|]. split; [cbn [length]; rewrite El; reflexivity|].
      split; [exact Ei|]. intros j Hj. destruct j as [|j]; [reflexivity|].
      cbn [nth_error]. apply Hother. lia.
  Qed.

  Lemma cc_write_roots_spec : forall (idxs : list nat) (vals roots : list H),
    NoDup idxs -> length idxs = length vals -> (forall i, In i idxs -> (i < length roots)%nat) ->
    exists r', write_roots roots idxs vals = Some r' /\ length r' = length roots /\
      (forall j i v, nth_error idxs j = Some i -> nth_error vals j = Some v ->
                     nth_error r' i = Some v) /\
      (forall i, ~ In i idxs -> nth_error r' i = nth_error roots i).
  Proof.
    induction idxs as [|i idxs IH]; intros vals roots Hnd Hlen Hlt.
    - destruct vals; [|discriminate]. exists roots. split; [reflexivity|]. split; [reflexivity|].
      split; [intros j i v Hj; destruct j; discriminate|reflexivity].
    - destruct vals as [|v vals]; [discriminate|]. cbn [length] in Hlen.
      inversion Hnd as [|i' l' Hnin Hnd']; subst.
      destruct (cc_set_nth_spec v i roots (Hlt i (or_introl eq_refl))) as (r1 & E1 & El1 & Ei1 & Ho1).
      destruct (IH vals r1 Hnd' ltac:(lia)) as (r' & E & El & Hset & Hother).
      { intros k Hk. rewrite El1. apply Hlt. right. exact Hk. }
      exists r'. cbn [write_roots]. rewrite E1. split; [exact E|]. split; [congruence|]. split.
      + intros j k w Hj Hw. destruct j as [|j]; cbn [nth_error] in Hj, Hw.
        * injection Hj as <-. injection Hw as <-. rewrite (Hother i Hnin). exact Ei1.
        * exact (Hset j k w Hj Hw).
      + intros k Hk. rewrite Hother by (intros Hin; apply Hk; right; exact Hin).
        apply Ho1. intros ->. apply Hk. left. reflexivity.
  Qed.
End WriteRoots.

(** the rows of the trees of the reference forest strictly descend *)
Section ForestRows.
  Variable H : Type.
  Variable HO : ops H.
  Local Notation row := (fun e : nat * N * option (ctree H) => fst (fst e)).

  Lemma cc_trees_rows_desc : forall k lo (s : slots H),
    StronglySorted (fun a b => (b < a)%nat) (map row (trees HO k lo s)) /\
    (forall r, In r (map row (trees HO k lo s)) -> (r <= k)%nat).
  Proof.
    induction k as [|k IH]; intros lo s.
    - cbn [trees]. destruct (Nat.leb (2 ^ 0) (length s)); cbn [map].
      + split; [repeat constructor|]. intros r [<-|[]]. cbn [fst]. lia.
      + split; [constructor|]. intros r [].
    - cbn [trees].
      set (has := Nat.leb (2 ^ S k) (length s)).
      set (rest := if has then skipn (2 ^ S k) s else s).
      set (lo' := if has then lo + N.of_nat (2 ^ S k) else lo).
      destruct (IH lo' rest) as [IH1 IH2].
      destruct has; cbn [app map fst].
      + split.
        * constructor; [exact IH1|]. apply Forall_forall. intros r Hr. specialize (IH2 r Hr). lia.
        * intros r [<-|Hr]; [lia|]. specialize (IH2 r Hr). lia.
      + split; [exact IH1|]. intros r Hr. specialize (IH2 r Hr). lia.
  Qed.

  Lemma cc_forest_rows_NoDup (s : slots H) : NoDup (map row (forest HO s)).
  Proof.
    unfold forest. destruct (cc_trees_rows_desc (Nat.log2 (length s)) 0 s) as [HS _].
    induction HS as [|a l HS IH Ha]; constructor; [|exact IH].
    intros Hin. rewrite Forall_forall in Ha. specialize (Ha a Hin). lia.
  Qed.

  (** the index of the tree of row [k] *)
  Definition cc_tidx (s : slots H) (k : nat) : nat :=
    N.to_nat (popcount (N.shiftr (N.of_nat (length s)) (N.of_nat k + 1))).

  Lemma cc_tidx_p2 s k :
    cc_tidx s k = N.to_nat (popcount (N.of_nat (length s) / p2 (S k))).
  Proof. unfold cc_tidx. rewrite N.shiftr_div_pow2, p2_S'. reflexivity. Qed.

  Lemma cc_forest_index (s : slots H) i k lo t :
    nth_error (forest HO s) i = Some (k, lo, t) -> i = cc_tidx s k.
  Proof.
    intros Ei. assert (Hbit : N.testbit (N.of_nat (length s)) (N.of_nat k) = true).
    { exact (proj1 (forest_entry H HO s k lo t (nth_error_In _ _ Ei))). }
    destruct (forest_bit_entry H HO s k Hbit) as (lo' & t' & Ej). rewrite <- cc_tidx_p2 in Ej.
    pose proof (cc_forest_rows_NoDup s) as Hnd.
    assert (E1 : nth_error (map row (forest HO s)) i = Some k).
    { rewrite nth_error_map, Ei. reflexivity. }
    assert (E2 : nth_error (map row (forest HO s)) (cc_tidx s k) = Some k).
    { rewrite nth_error_map, Ej. reflexivity. }
    apply (proj1 (NoDup_nth_error _) Hnd i (cc_tidx s k)).
    - apply nth_error_Some. rewrite E1. discriminate.
    - rewrite E1, E2. reflexivity.
  Qed.

  Lemma cc_forest_at_tidx (s : slots H) k :
    N.testbit (N.of_nat (length s)) (N.of_nat k) = true ->
    exists lo t, nth_error (forest HO s) (cc_tidx s k) = Some (k, lo, t).
  Proof.
    intros Hbit. destruct (forest_bit_entry H HO s k Hbit) as (lo & t & E).
    rewrite <- cc_tidx_p2 in E. exists lo, t. exact E.
  Qed.
End ForestRows.

Lemma cc_child_offsets o :
  (N.even o = true /\ 2 * (o / 2) = o /\ 2 * (o / 2) + 1 = N.lxor o 1) \/
  (N.even o = false /\ 2 * (o / 2) + 1 = o /\ 2 * (o / 2) = N.lxor o 1).
Proof.
  destruct (pps_bit0 o) as [k [(E1 & E2 & _ & E4)|(E1 & E2 & _ & E4)]].
  - left. rewrite E4, E2. split; [rewrite E1, N.even_mul; reflexivity|]. split; [lia|reflexivity].
  - right. rewrite E4, E2. split; [|split; [lia|reflexivity]].
    rewrite E1, N.add_comm, N.even_add_mul_2. reflexivity.
Qed.

Section DelComplete.
  Variable H : Type.
  Variable HO : ops H.
  Hypothesis HOK : ops_ok HO.
  Hypothesis hash_nz : forall a b, NZ HO (op_hash2 HO a b).
  Variable s : slots H.
  Hypothesis Hlive_nz : forall h, In (Some h) s -> NZ HO h.
  Hypothesis Hlive_nd : NoDup (live s).
  Hypothesis Hn63 : N.of_nat (length s) <= 2 ^ 63.

  Local Notation n := (N.of_nat (length s)).
  Local Notation total := (TreeRows (N.of_nat (length s))).
  Local Notation R := (rows_of (num_leaves s)).
  Local Notation lay := (layout HO s).
  Local Notation g := (g total).
  Local Notation hash2 := (op_hash2 HO).
  Local Notation empty := (op_empty HO).
  Local Notation nz := (NZ HO).

  (** the deleted leaves and their nodes *)
  Variable hs : list H.
  Variable tsn : list (node H).
  Hypothesis Hts_lay : forall x, In x tsn -> In x lay.
  Hypothesis Hts_leaf : forall x, In x tsn -> nleaf x = true.
  Hypothesis Hts_nd : NoDup tsn.
  Hypothesis Hts_hs : map (@nhash H) tsn = hs.

  Local Notation T := (map ncrd tsn).
  Local Notation K := (cc_K n T).
  Local Notation Ks := (cc_sortC n (cc_K n T)).
  Local Notation rows := (map fst (filter (is_root_c n) Ks)).

  (** [AD r o v]: the subtree below the node at [(r, o)] has the hash [v] once the leaves [hs]
      are deleted ([None]: nothing survives) *)
  Inductive AD : nat -> N -> option H -> Prop :=
  | AD_leaf r o x : tnode HO s r o = Some x -> nleaf x = true ->
      AD r o (if memH HO (nhash x) hs then None else Some (nhash x))
  | AD_inner r' o x a b : tnode HO s (S r') o = Some x -> nleaf x = false ->
      AD r' (2 * o) a -> AD r' (2 * o + 1) b -> AD (S r') o (ojoin HO a b).

  Lemma dc_AD_nz r o v : AD r o v -> forall h, v = Some h -> nz h.
  Proof.
    induction 1 as [r o x Hx Hl|r' o x a b Hx Hl Ha IHa Hb IHb]; intros h E.
    - destruct (memH HO (nhash x) hs); [discriminate|]. injection E as <-.
      apply Hlive_nz. apply tnode_some in Hx. exact (layout_leaf_live H HO s x (proj1 Hx) Hl).
    - destruct a as [ha|], b as [hb|]; cbn [ojoin] in E.
      + injection E as <-. apply hash_nz.
      + exact (IHa h E).
      + exact (IHb h E).
      + discriminate.
  Qed.

  Lemma dc_AD_fun r o v : AD r o v -> forall v', AD r o v' -> v = v'.
  Proof.
    induction 1 as [r o x Hx Hl|r' o x a b Hx Hl Ha IHa Hb IHb]; intros v' H'.
    - inversion H' as [r0 o0 x' Hx' Hl' E1 E2 E3|r0 o0 x' a' b' Hx' Hl' Ha' Hb' E1 E2 E3]; subst.
      + rewrite Hx in Hx'. injection Hx' as <-. reflexivity.
      + rewrite Hx in Hx'. injection Hx' as <-. congruence.
    - inversion H' as [r0 o0 x' Hx' Hl' E1 E2 E3|r0 o0 x' a' b' Hx' Hl' Ha' Hb' E1 E2 E3]; subst.
      + rewrite Hx in Hx'. injection Hx' as <-. congruence.
      + rewrite (IHa a' Ha'), (IHb b' Hb'). reflexivity.
  Qed.

  (** the valuation after the deletion *)
  Definition Wd (p : N) (h : H) : Prop :=
    exists x v, In x lay /\ p = g (ncrd x) /\ AD (nrow x) (noff x) v /\ h = ohash HO v.

  Lemma dc_Wd_node x h : In x lay -> Wd (g (ncrd x)) h ->
    exists v, AD (nrow x) (noff x) v /\ h = ohash HO v.
  Proof.
    intros Hx (y & v & Hy & Eg & Hv & Eh).
    apply pps_g_inj in Eg; [|exact (rf_node_vld H HO s x Hx)|exact (rf_node_vld H HO s y Hy)].
    apply (rf_ncrd_inj H HO s x y Hx Hy) in Eg. subst y. exists v. split; assumption.
  Qed.

  Lemma dc_eqb_empty : op_eqb HO empty empty = true.
  Proof. apply HOK. reflexivity. Qed.

  (** [getNextHash] realises [ojoin] *)
  Lemma dc_next_ojoin p a b : (forall h, a = Some h -> nz h) -> (forall h, b = Some h -> nz h) ->
    getNextHash HO p (ohash HO a) (ohash HO b) =
    ohash HO (if isLeftNiece p then ojoin HO a b else ojoin HO b a).
  Proof.
    intros Ha Hb. unfold getNextHash. destruct a as [ha|]; cbn [ohash].
    - rewrite (Ha ha eq_refl). destruct b as [hb|]; cbn [ohash].
      + rewrite (Hb hb eq_refl). destruct (isLeftNiece p); reflexivity.
      + rewrite dc_eqb_empty. destruct (isLeftNiece p); reflexivity.
    - rewrite dc_eqb_empty. destruct b as [hb|]; destruct (isLeftNiece p); reflexivity.
  Qed.

  (** FORWARD STEP after the deletion *)
  Lemma dc_step c h h' : inf n c -> is_root_c n c = false ->
    Wd (g c) h -> Wd (g (sib c)) h' -> Wd (g (par c)) (getNextHash HO (g c) h h').
  Proof.
    intros Hinf Hroot (x & v & Hx & Eg & Hv & Eh) Hsib.
    pose proof (rf_nle H s) as Hnle.
    apply pps_g_inj in Eg; [|exact (pps_inf_vld n total Hnle c Hinf)|exact (rf_node_vld H HO s x Hx)].
    subst c. pose proof (rf_nonroot H HO s x Hx Hroot) as Hnr.
    destruct (node_sibling H HO s _ _ x (tnode_in H HO s x Hx) Hnr)
      as (p & sb & Hp & Hsb & Hpl & _ & _ & _ & _).
    pose proof Hp as Hp'. apply tnode_some in Hp'. destruct Hp' as (Hpin & Epr & Epo).
    apply tnode_some in Hsb. destruct Hsb as (Hsb & Esr & Eso).
    assert (Esb : ncrd sb = sib (ncrd x)).
    { unfold ncrd, sib, cN. cbn [fst snd]. rewrite Esr, Eso. reflexivity. }
    rewrite <- Esb in Hsib. destruct (dc_Wd_node sb h' Hsb Hsib) as (v' & Hv' & Eh').
    rewrite Esr, Eso in Hv'.
    subst h h'. rewrite (dc_next_ojoin _ v v' (dc_AD_nz _ _ _ Hv) (dc_AD_nz _ _ _ Hv')).
    rewrite (cc_isLeft total (ncrd x) (proj1 (rf_node_vld H HO s x Hx))).
    exists p. eexists. split; [exact Hpin|]. split; [|split; [|reflexivity]].
    - f_equal. unfold ncrd. rewrite Epr, Epo. apply cN_par.
    - rewrite Epr, Epo. unfold ncrd, cN. cbn [snd].
      destruct (cc_child_offsets (noff x)) as [(Ee & E1 & E2)|(Ee & E1 & E2)]; rewrite Ee.
      + apply (AD_inner _ _ p _ _ Hp Hpl); [rewrite E1; exact Hv|rewrite E2; exact Hv'].
      + apply (AD_inner _ _ p _ _ Hp Hpl); [rewrite E2; exact Hv'|rewrite E1; exact Hv].
  Qed.

  Lemma dc_valid : pp_valid n total T = true.
  Proof. exact (rt_valid H HO s tsn Hts_lay Hts_leaf Hts_nd). Qed.

  (** a subtree without deleted leaves keeps its hash *)
  Lemma dc_untouched : forall r o x, tnode HO s r o = Some x -> nroot x = false ->
    ~ In (ncrd x) K -> AD r o (Some (nhash x)).
  Proof.
    destruct (cc_valid_facts n Hn63 T dc_valid) as (_ & HK2 & _).
    induction r as [|r IH]; intros o x Hx Hnr HnK;
      pose proof Hx as Hx'; apply tnode_some in Hx'; destruct Hx' as (Hxin & Exr & Exo).
    - destruct (node_cases H HO s _ _ x Hx)
        as [r' xl xr _ Er _ _ _ _ _ _ _|Hlf _ _|Hroot _ _ _ _ _]; [discriminate| |congruence].
      pose proof (AD_leaf 0 o x Hx Hlf) as HA.
      destruct (memH HO (nhash x) hs) eqn:Em; [exfalso|exact HA].
      apply (SpecBasics.memH_In H HO HOK) in Em. rewrite <- Hts_hs in Em.
      apply in_map_iff in Em. destruct Em as (z & Ez & Hz).
      assert (x = z).
      { apply (live_leaf_unique H HO s x z Hlive_nd Hxin (Hts_lay z Hz) Hlf (Hts_leaf z Hz)).
        symmetry. exact Ez. }
      subst z. apply HnK. unfold cc_K. apply in_or_app. left. apply in_map. exact Hz.
    - destruct (node_cases H HO s _ _ x Hx)
        as [r' xl xr Hl Er Hxl Hxr Hh _ _ Hlr Hrr|Hlf _ _|Hroot _ _ _ _ _]; [| |congruence].
      + injection Er as <-.
        assert (Hchild : forall y o', tnode HO s r o' = Some y -> nroot y = false ->
                           o' / 2 = o -> ~ In (ncrd y) K).
        { intros y o' Hy Hyr Eo Hin. apply HnK.
          apply tnode_some in Hy. destruct Hy as (Hyin & Eyr & Eyo).
          pose proof (HK2 (ncrd y) Hin (rf_root_true H HO s y Hyin Hyr)) as Hpar.
          unfold ncrd in Hpar. rewrite Eyr, Eyo, cN_par, Eo in Hpar.
          unfold cc_K. apply in_or_app. right. unfold ncrd. rewrite Exr, Exo. exact Hpar. }
        pose proof (IH _ xl Hxl Hlr (Hchild xl _ Hxl Hlr (pps_div2_double o))) as Al.
        pose proof (IH _ xr Hxr Hrr (Hchild xr _ Hxr Hrr (pps_div2_double1 o))) as Ar.
        pose proof (AD_inner r o x _ _ Hx Hl Al Ar) as HA. cbn [ojoin] in HA.
        rewrite Hh. exact HA.
      + pose proof (AD_leaf (S r) o x Hx Hlf) as HA.
        destruct (memH HO (nhash x) hs) eqn:Em; [exfalso|exact HA].
        apply (SpecBasics.memH_In H HO HOK) in Em. rewrite <- Hts_hs in Em.
        apply in_map_iff in Em. destruct Em as (z & Ez & Hz).
        assert (x = z).
        { apply (live_leaf_unique H HO s x z Hlive_nd Hxin (Hts_lay z Hz) Hlf (Hts_leaf z Hz)).
          symmetry. exact Ez. }
        subst z. apply HnK. unfold cc_K. apply in_or_app. left. apply in_map. exact Hz.
  Qed.

  (** the targets carry the empty hash *)
  Lemma dc_targets_W : forall c, In c T -> Wd (g c) empty.
  Proof.
    intros c Hc. apply in_map_iff in Hc. destruct Hc as (x & <- & Hx).
    exists x. eexists. split; [exact (Hts_lay x Hx)|]. split; [reflexivity|]. split.
    - exact (AD_leaf _ _ x (tnode_in H HO s x (Hts_lay x Hx)) (Hts_leaf x Hx)).
    - assert (Em : memH HO (nhash x) hs = true).
      { apply (SpecBasics.memH_In H HO HOK). rewrite <- Hts_hs. apply in_map. exact Hx. }
      rewrite Em. reflexivity.
  Qed.

  (** the canonical proof hashes are values after the deletion too *)
  Lemma dc_proof_W :
    Forall2 Wd (fst (ProofPositions (sortN (map g T)) n total)) (canon_proof_hashes HO R lay tsn).
  Proof.
    rewrite <- (rt_canon_pos H HO s Hn63 tsn Hts_lay Hts_leaf Hts_nd).
    unfold canon_proof_pos, canon_proof_hashes. apply cc_Forall2_maps. apply Forall_forall.
    intros e He. apply RefTheory.sort_coords_In in He. destruct He as (c & Hc & ->). cbn [fst snd].
    apply RefTheory.proof_coords_In in Hc. destruct Hc as (d & Hd & Hr & Hns & ->).
    destruct (rt_K_node H HO s tsn Hts_lay (cN d)) as (y & Hy & Ey).
    { apply (rt_K H HO s Hn63 tsn Hts_lay). exists d. split; [exact Hd|reflexivity]. }
    rewrite (rt_is_root_coord H HO s Hn63 tsn Hts_lay d Hd), <- Ey in Hr.
    pose proof (rf_nonroot H HO s y Hy Hr) as Hnr.
    destruct (node_sibling H HO s _ _ y (tnode_in H HO s y Hy) Hnr)
      as (p & sb & _ & Hsb & _ & _ & _ & Hsbr & _).
    apply cN_inj in Ey. subst d. unfold sib_coord in *. cbn [fst snd] in *.
    change (find_coord lay (nrow y) (N.lxor (noff y) 1)) with (tnode HO s (nrow y) (N.lxor (noff y) 1)).
    rewrite Hsb. pose proof Hsb as Hsb'. apply tnode_some in Hsb'. destruct Hsb' as (Hsbin & Esr & Eso).
    exists sb, (Some (nhash sb)). split; [exact Hsbin|]. split; [|split; [|reflexivity]].
    - rewrite (rf_pos_g H s). unfold ncrd. rewrite Esr, Eso. reflexivity.
    - rewrite Esr, Eso. apply (dc_untouched _ _ sb Hsb Hsbr). intros Hin.
      apply (rt_K H HO s Hn63 tsn Hts_lay) in Hin. destruct Hin as (d2 & Hd2 & E).
      unfold ncrd in E. rewrite Esr, Eso in E. apply cN_inj in E. subst d2. exact (Hns Hd2).
  Qed.

  (** ** the deletion read on the compressed trees ([RefTheory.prune]) *)
  Lemma dc_ojoin_join (A B : option (ctree H)) :
    ojoin HO (option_map (@chash H) A) (option_map (@chash H) B) =
    option_map (@chash H) (join HO A B).
  Proof. destruct A as [a|], B as [b|]; reflexivity. Qed.

  Lemma dc_AD_tree : forall (c : ctree H) r o b tr, cwf H HO c -> (cheight H c <= r)%nat ->
    (forall x, In x (place_tree c r o b tr) -> In x lay) ->
    AD r o (option_map (@chash H) (RefTheory.prune HO hs c)).
  Proof.
    induction c as [h|h l IHl rr IHr]; intros r o b tr Hwf Hh Hsub.
    - cbn [place_tree] in Hsub.
      assert (Hx : tnode HO s r o = Some (mkNode r o h true b tr)).
      { apply tnode_iff. split; [apply Hsub; left; reflexivity|split; reflexivity]. }
      pose proof (AD_leaf r o _ Hx eq_refl) as HA. cbn [nhash] in HA.
      cbn [RefTheory.prune]. destruct (memH HO h hs); exact HA.
    - cbn [cwf] in Hwf. destruct Hwf as (_ & Hwl & Hwr). cbn [cheight] in Hh.
      destruct r as [|r']; [lia|]. cbn [place_tree] in Hsub.
      assert (Hx : tnode HO s (S r') o = Some (mkNode (S r') o h false b tr)).
      { apply tnode_iff. split; [apply Hsub; left; reflexivity|split; reflexivity]. }
      assert (Al : AD r' (2 * o) (option_map (@chash H) (RefTheory.prune HO hs l))).
      { apply (IHl r' (2 * o) false tr Hwl); [lia|]. intros x Hx'. apply Hsub. right.
        apply in_or_app. left. exact Hx'. }
      assert (Ar : AD r' (2 * o + 1) (option_map (@chash H) (RefTheory.prune HO hs rr))).
      { apply (IHr r' (2 * o + 1) false tr Hwr); [lia|]. intros x Hx'. apply Hsub. right.
        apply in_or_app. right. exact Hx'. }
      pose proof (AD_inner r' o _ _ _ Hx eq_refl Al Ar) as HA.
      rewrite dc_ojoin_join in HA. exact HA.
  Qed.

  Lemma dc_prune_id : forall c : ctree H, cwf H HO c ->
    (forall h, In h (cleaves H c) -> memH HO h hs = false) -> RefTheory.prune HO hs c = Some c.
  Proof.
    induction c as [h|h l IHl rr IHr]; intros Hwf Hno.
    - cbn [RefTheory.prune]. rewrite (Hno h (or_introl eq_refl)). reflexivity.
    - cbn [cwf] in Hwf. destruct Hwf as (Eh & Hwl & Hwr). cbn [RefTheory.prune].
      rewrite IHl, IHr; try assumption.
      + cbn [join]. rewrite <- Eh. reflexivity.
      + intros h' Hh'. apply Hno. cbn [cleaves]. apply in_or_app. right. exact Hh'.
      + intros h' Hh'. apply Hno. cbn [cleaves]. apply in_or_app. left. exact Hh'.
  Qed.

  (** the reported rows are the rows of the trees that hold the targets ([vc_rows]) *)
  Lemma dc_rows r : In r rows <-> exists x, In x tsn /\ r = N.of_nat (ntree x).
  Proof. exact (vc_rows H HO s Hn63 tsn Hts_lay Hts_leaf Hts_nd r). Qed.

  Lemma dc_entry_facts k lo t : In (k, lo, t) (forest HO s) ->
    N.testbit n (N.of_nat k) = true /\
    lo / 2 ^ N.of_nat k = 2 * (n / 2 ^ (N.of_nat k + 1)) /\
    (forall x, In x (place_entry HO (k, lo, t)) -> In x lay) /\
    (forall c, t = Some c -> cwf H HO c /\ (cheight H c <= k)%nat).
  Proof.
    intros Hin. destruct (root_node H HO s k lo t Hin) as (Hbit & _ & Ediv & _).
    split; [exact Hbit|]. split; [exact Ediv|]. split.
    - intros x Hx. exact (entry_layout H HO s _ x Hin Hx).
    - intros c Ec. destruct (forest_entry H HO s k lo t Hin) as (_ & _ & _ & _ & _ & Et).
      rewrite Ec in Et. exact (compress_wf H HO k _ c (eq_sym Et)).
  Qed.

  (** a tree of an involved row: the candidate after the deletion is its pruned root *)
  Lemma dc_root_value k lo t m : In (k, lo, t) (forest HO s) -> In (N.of_nat k) rows ->
    Wd (rootPosition n (N.of_nat k) total) m ->
    m = root_hash HO (RefTheory.oprune HO hs t).
  Proof.
    intros Hin Hrow (y & v & Hy & Eg & Hv & ->).
    destruct (dc_entry_facts k lo t Hin) as (Hbit & Ediv & Hsub & Hwf).
    pose proof (rf_nle H s) as Hnle. pose proof (rf_t63 H s Hn63) as Ht63.
    destruct (root_coord_valid n (N.of_nat k) total Hnle Hbit) as [Hr Hov].
    rewrite rootPosition_gpos in Eg by assumption.
    destruct t as [c|].
    - destruct (Hwf c eq_refl) as [Hcwf Hch]. cbn [place_entry] in Hsub.
      pose proof (dc_AD_tree c k (lo / 2 ^ N.of_nat k) true k Hcwf Hch Hsub) as HA.
      destruct (place_tree_head H c k (lo / 2 ^ N.of_nat k) true k) as (tl & Epl).
      assert (Hhd : In (head_node H c k (lo / 2 ^ N.of_nat k) true k) lay).
      { apply Hsub. rewrite Epl. left. reflexivity. }
      assert (Ecrd : ncrd (head_node H c k (lo / 2 ^ N.of_nat k) true k) =
                     (N.of_nat k, 2 * (n / 2 ^ (N.of_nat k + 1)))).
      { unfold ncrd, cN, head_node. cbn [nrow noff fst snd]. rewrite Ediv. reflexivity. }
      change (UtilsGeom.gpos total (N.of_nat k) (2 * (n / 2 ^ (N.of_nat k + 1))))
        with (g (N.of_nat k, 2 * (n / 2 ^ (N.of_nat k + 1)))) in Eg.
      rewrite <- Ecrd in Eg.
      apply pps_g_inj in Eg; [|exact (rf_node_vld H HO s _ Hhd)|exact (rf_node_vld H HO s y Hy)].
      apply (rf_ncrd_inj H HO s _ y Hhd Hy) in Eg. subst y. cbn [head_node nrow noff] in Hv.
      rewrite (dc_AD_fun _ _ _ Hv _ HA). cbn [RefTheory.oprune].
      destruct (RefTheory.prune HO hs c); reflexivity.
    - (* an empty tree holds no target *)
      exfalso. apply dc_rows in Hrow. destruct Hrow as (x & Hx & Ex).
      apply Nat2N.inj in Ex. subst k.
      destruct (layout_node_tree H HO s x (Hts_lay x Hx)) as (lo' & t' & Hin' & Hxe & _).
      destruct (forest_entry_unique H HO s _ _ _ _ _ Hin Hin') as [<- <-].
      cbn [place_entry] in Hxe. destruct Hxe as [E|[]].
      pose proof (Hts_leaf _ Hx) as Hl. rewrite <- E in Hl. cbn [nleaf] in Hl. discriminate.
  Qed.

  (** a tree without targets is not changed by the deletion *)
  Lemma dc_root_untouched k lo t : In (k, lo, t) (forest HO s) -> ~ In (N.of_nat k) rows ->
    RefTheory.oprune HO hs t = t.
  Proof.
    intros Hin Hrow. destruct t as [c|]; [|reflexivity]. cbn [RefTheory.oprune].
    destruct (dc_entry_facts k lo (Some c) Hin) as (_ & _ & Hsub & Hwf).
    destruct (Hwf c eq_refl) as [Hcwf Hch]. apply dc_prune_id; [exact Hcwf|].
    intros h Hh. destruct (memH HO h hs) eqn:Em; [exfalso|reflexivity].
    apply (SpecBasics.memH_In H HO HOK) in Em. rewrite <- Hts_hs in Em.
    apply in_map_iff in Em. destruct Em as (z & Ez & Hz).
    cbn [place_entry] in Hsub.
    rewrite <- (place_tree_leaves H c k (lo / 2 ^ N.of_nat k) true k Hch) in Hh.
    apply in_map_iff in Hh. destruct Hh as (y & Ey & Hy). apply filter_In in Hy.
    destruct Hy as [Hy Hyl].
    assert (y = z).
    { apply (live_leaf_unique H HO s y z Hlive_nd (Hsub y Hy) (Hts_lay z Hz) Hyl (Hts_leaf z Hz)).
      congruence. }
    subst z. apply Hrow. apply dc_rows. exists y. split; [exact Hz|].
    rewrite (place_tree_ntree H c _ _ _ _ y Hy). reflexivity.
  Qed.

  Lemma dc_row_bit r : In r rows -> N.testbit n r = true /\ r <= 63.
  Proof.
    intros Hr. apply in_map_iff in Hr. destruct Hr as (q & <- & Hq).
    apply filter_In in Hq. destruct Hq as [_ Hq]. unfold is_root_c in Hq.
    apply andb_true_iff in Hq. destruct Hq as [Hbit _]. split; [exact Hbit|].
    pose proof (proj1 (root_coord_valid n (fst q) total (rf_nle H s) Hbit)).
    pose proof (rf_t63 H s Hn63). lia.
  Qed.

  Lemma dc_rootIndex r : r <= 63 -> rootIndexForRow n r = cc_tidx H s (N.to_nat r).
  Proof.
    intros Hr. rewrite (cc_rootIndexForRow n r Hr). unfold cc_tidx. rewrite N2Nat.id. reflexivity.
  Qed.

  Lemma dc_tidx_inj k k' : N.testbit n (N.of_nat k) = true -> N.testbit n (N.of_nat k') = true ->
    cc_tidx H s k = cc_tidx H s k' -> k = k'.
  Proof.
    intros Hb Hb' E.
    destruct (cc_forest_at_tidx H HO s k Hb) as (lo & t & E1).
    destruct (cc_forest_at_tidx H HO s k' Hb') as (lo' & t' & E2).
    rewrite E in E1. rewrite E1 in E2. injection E2 as -> _ _. reflexivity.
  Qed.

  (** C-B on the target nodes *)
  Theorem stump_del_refines_nodes :
    exists inter,
      stump_del HO true (the_stump (mk_ctx HO s)) hs (map (npos R) tsn)
                (canon_proof_hashes HO R lay tsn)
      = (mkStump (roots HO (kill HO hs s)) (num_leaves s), Ok inter).
  Proof.
    pose proof dc_valid as Hval.
    destruct (cc_valid_facts n Hn63 T Hval) as (HK1 & _).
    set (pf := canon_proof_hashes HO R lay tsn).
    destruct (verify_complete_nodes H HO HOK hash_nz s Hlive_nz Hn63 tsn Hts_lay Hts_leaf Hts_nd)
      as [Ev Hsorted].
    rewrite Hts_hs in Ev. fold pf in Ev.
    assert (Ets : map (npos R) tsn = map g T).
    { rewrite map_map. apply map_ext. intros x. apply (rf_npos H s). }
    destruct (calc_complete_c H HO Wd n Hn63 T None pf [] Hval)
      as (inter & modified & Ecalc & _ & Hmod & _ & _).
    { intros c h h' Hc Hr. exact (dc_step c h h' (HK1 c Hc) Hr). }
    { cbn [cc_hs]. rewrite map_map. pose proof dc_targets_W as HW. revert HW.
      generalize T. intros l HW. induction l as [|c l IH]; cbn [map]; constructor.
      - apply HW. left. reflexivity.
      - apply IH. intros c' Hc'. apply HW. right. exact Hc'. }
    { exact dc_proof_W. }
    rewrite app_nil_r in Ecalc.
    exists inter. unfold stump_del. rewrite Ev. rewrite Ets.
    unfold the_stump, mk_ctx. cbn [st_n st_roots croots cn]. unfold num_leaves.
    rewrite Ecalc.
    set (idxs := map (rootIndexForRow n) rows).
    assert (Hlen : length idxs = length modified).
    { unfold idxs. rewrite map_length. exact (cs_Forall2_length _ _ _ Hmod). }
    rewrite <- Hlen, Nat.eqb_refl. cbn [negb].
    assert (Hnd_rows : NoDup rows) by (apply cc_SSlt_NoDup; exact Hsorted).
    assert (Hnd_idx : NoDup idxs).
    { unfold idxs. apply RefTheory.NoDup_map_inj_on; [exact Hnd_rows|].
      intros r r' Hr Hr' E. destruct (dc_row_bit r Hr) as [Hb H63].
      destruct (dc_row_bit r' Hr') as [Hb' H63'].
      rewrite (dc_rootIndex r H63), (dc_rootIndex r' H63') in E.
      apply dc_tidx_inj in E; [lia|rewrite N2Nat.id; exact Hb|rewrite N2Nat.id; exact Hb']. }
    assert (Hroots_len : length (roots HO s) = length (forest HO s)).
    { unfold roots. apply map_length. }
    assert (Hidx_lt : forall i, In i idxs -> (i < length (roots HO s))%nat).
    { intros i Hi. unfold idxs in Hi. apply in_map_iff in Hi. destruct Hi as (r & <- & Hr).
      destruct (dc_row_bit r Hr) as [Hb H63]. rewrite (dc_rootIndex r H63), Hroots_len.
      destruct (cc_forest_at_tidx H HO s (N.to_nat r)) as (lo & t & E); [rewrite N2Nat.id; exact Hb|].
      apply nth_error_Some. rewrite E. discriminate. }
    destruct (cc_write_roots_spec H idxs modified (roots HO s) Hnd_idx Hlen Hidx_lt)
      as (r' & Ew & Elen & Hset & Hother).
    rewrite Ew. f_equal. f_equal.
    apply cc_nth_error_ext. intros i.
    unfold roots at 1. rewrite RefTheory.forest_kill, map_map, nth_error_map.
    destruct (nth_error (forest HO s) i) as [[[k lo] t]|] eqn:Ei; cbn [option_map].
    - pose proof (cc_forest_index H HO s i k lo t Ei) as Eik.
      pose proof (nth_error_In _ _ Ei) as Hin.
      destruct (dc_entry_facts k lo t Hin) as (Hbit & _).
      unfold RefTheory.prune_entry. cbn [fst snd].
      destruct (in_dec N.eq_dec (N.of_nat k) rows) as [Hrow|Hrow].
      + destruct (In_nth_error _ _ Hrow) as (j & Ej).
        destruct (dc_row_bit _ Hrow) as [_ H63].
        assert (Eidx : nth_error idxs j = Some i).
        { unfold idxs. rewrite nth_error_map, Ej. cbn [option_map].
          rewrite (dc_rootIndex _ H63), Nat2N.id, Eik. reflexivity. }
        assert (Hm : exists m, nth_error modified j = Some m /\
                               Wd (rootPosition n (N.of_nat k) total) m).
        { clear - Hmod Ej. revert j Ej. induction Hmod as [|r c l ms Hrc HF IH]; intros j Ej.
          - destruct j; discriminate.
          - destruct j as [|j]; cbn [nth_error] in Ej |- *.
            + injection Ej as ->. exists c. split; [reflexivity|exact Hrc].
            + exact (IH j Ej). }
        destruct Hm as (m & Em & Hm).
        rewrite (Hset j i m Eidx Em). f_equal.
        exact (dc_root_value k lo t m Hin Hrow Hm).
      + assert (Hni : ~ In i idxs).
        { intros Hi. unfold idxs in Hi. apply in_map_iff in Hi. destruct Hi as (r & Er & Hr).
          destruct (dc_row_bit r Hr) as [Hb H63]. rewrite (dc_rootIndex r H63), Eik in Er.
          apply dc_tidx_inj in Er; [|rewrite N2Nat.id; exact Hb|exact Hbit].
          apply Hrow. rewrite <- Er, N2Nat.id. exact Hr. }
        rewrite (Hother i Hni). unfold roots. rewrite nth_error_map, Ei. cbn [option_map snd].
        rewrite (dc_root_untouched k lo t Hin Hrow). reflexivity.
    - apply nth_error_None. rewrite Elen, Hroots_len. apply nth_error_None. exact Ei.
  Qed.
End DelComplete.

(** C-B.  [Stump.del] on the canonical proof of distinct live leaves of a forest without duplicate
    leaves yields the roots of the reference forest after the deletion; the leaf count stays. *)
Theorem stump_del_refines {H} (HO : ops H) (s : slots H) (hs : list H) (ts : list N) (pf : list H) :
  ops_ok HO ->
  (forall a b, NZ HO (op_hash2 HO a b)) ->
  (forall h, In (Some h) s -> NZ HO h) ->
  NoDup (live s) ->
  N.of_nat (length s) <= 2 ^ 63 ->
  NoDup hs ->
  exp_prove HO (mk_ctx HO s) hs = Some (ts, pf) ->
  exists st' inter,
    stump_del HO true (the_stump (mk_ctx HO s)) hs ts pf = (st', Ok inter) /\
    st_roots st' = roots HO (kill HO hs s) /\ st_n st' = num_leaves s.
Proof.
  intros HOK Hnz Hlive Hlnd Hn63 Hnd Ep. unfold exp_prove, mk_ctx in Ep. cbn [clay crows] in Ep.
  destruct (find_leaves HO (layout HO s) hs) as [tsn|] eqn:Efl; [|discriminate].
  injection Ep as <- <-.
  destruct (cc_find_leaves_facts HO s hs tsn HOK Hnd Efl) as (Hlay & Hleaf & Hndt & Ehs & _).
  destruct (stump_del_refines_nodes H HO HOK Hnz s Hlive Hlnd Hn63 hs tsn Hlay Hleaf Hndt Ehs)
    as (inter & E).
  eexists. exists inter. split; [exact E|]. split; reflexivity.
Qed.


(** * 12. The indexes reported by [Verify] are the oracle's [exp_root_indexes] *)

Local Notation descN := (StronglySorted (fun a b : nat => (b < a)%nat)).

Lemma cc_sorted_nth {A} (Rel : A -> A -> Prop) : forall l i j a b,
  StronglySorted Rel l -> (i < j)%nat -> nth_error l i = Some a -> nth_error l j = Some b ->
  Rel a b.
Proof.
  induction l as [|x l IH]; intros i j a b HS Hij Ha Hb; [destruct i; discriminate|].
  destruct (cc_SS_cons_inv _ _ _ HS) as [HS' Hx].
  destruct j as [|j]; [lia|]. cbn [nth_error] in Hb. destruct i as [|i]; cbn [nth_error] in Ha.
  - injection Ha as <-. apply Hx. exact (nth_error_In _ _ Hb).
  - apply (IH i j a b HS'); [lia|exact Ha|exact Hb].
Qed.

Lemma cc_desc_ext : forall l1 l2 : list nat, descN l1 -> descN l2 ->
  (forall x, In x l1 <-> In x l2) -> l1 = l2.
Proof.
  induction l1 as [|x l1 IH]; intros l2 H1 H2 Hs.
  - destruct l2 as [|y l2]; [reflexivity|]. exfalso. apply (Hs y). left. reflexivity.
  - destruct l2 as [|y l2]; [exfalso; apply (Hs x); left; reflexivity|].
    destruct (cc_SS_cons_inv _ _ _ H1) as [H1' Hx1]. destruct (cc_SS_cons_inv _ _ _ H2) as [H2' Hy2].
    assert (Exy : x = y).
    { destruct (proj1 (Hs x) (or_introl eq_refl)) as [E|Hin]; [symmetry; exact E|].
      destruct (proj2 (Hs y) (or_introl eq_refl)) as [E|Hin']; [exact E|].
      pose proof (Hy2 x Hin). pose proof (Hx1 y Hin'). lia. }
    subst y. f_equal. apply IH; [exact H1'|exact H2'|].
    intros z. split; intros Hz.
    + destruct (proj1 (Hs z) (or_intror Hz)) as [E|Hin]; [|exact Hin].
      subst z. pose proof (Hx1 x Hz). lia.
    + destruct (proj2 (Hs z) (or_intror Hz)) as [E|Hin]; [|exact Hin].
      subst z. pose proof (Hy2 x Hz). lia.
Qed.

Lemma cc_insert_desc_spec x : forall l, descN l ->
  descN (insert_desc x l) /\ (forall y, In y (insert_desc x l) <-> y = x \/ In y l).
Proof.
  induction l as [|a l IH]; intros HS.
  - cbn [insert_desc]. split; [repeat constructor|]. intros y. cbn [In]. intuition.
  - destruct (cc_SS_cons_inv _ _ _ HS) as [HS' Ha]. cbn [insert_desc].
    destruct (Nat.eqb_spec x a) as [->|Hne].
    + split; [exact HS|]. intros y. cbn [In]. intuition.
    + destruct (Nat.ltb_spec a x) as [Hlt|Hge].
      * split.
        -- constructor; [exact HS|]. apply Forall_forall. intros z [<-|Hz]; [exact Hlt|].
           specialize (Ha z Hz). lia.
        -- intros y. cbn [In]. intuition.
      * destruct (IH HS') as [IH1 IH2]. split.
        -- constructor; [exact IH1|]. apply Forall_forall. intros z Hz. apply IH2 in Hz.
           destruct Hz as [->|Hz]; [lia|exact (Ha z Hz)].
        -- intros y. cbn [In]. rewrite IH2. intuition.
Qed.

Section RootIndexes.
  Variable H : Type.
  Variable HO : ops H.
  Local Notation row := (fun e : nat * N * option (ctree H) => fst (fst e)).

  Lemma cc_index_of_tree : forall (f : list (nat * N * option (ctree H))) b j k lo t,
    NoDup (map row f) -> nth_error f j = Some (k, lo, t) ->
    index_of_tree k f b = Some (b + j)%nat.
  Proof.
    induction f as [|[[k' lo'] t'] f IH]; intros b j k lo t Hnd Ej; [destruct j; discriminate|].
    cbn [map fst] in Hnd. inversion Hnd as [|r l Hnin Hnd']; subst.
    destruct j as [|j]; cbn [nth_error] in Ej; cbn [index_of_tree].
    - injection Ej as -> -> ->. rewrite Nat.eqb_refl. f_equal. lia.
    - destruct (Nat.eqb_spec k k') as [->|_].
      + exfalso. apply Hnin. apply in_map_iff. exists (k', lo, t). split; [reflexivity|].
        exact (nth_error_In _ _ Ej).
      + rewrite (IH (S b) j k lo t Hnd' Ej). f_equal. lia.
  Qed.

  Variable s : slots H.
  Local Notation n := (N.of_nat (length s)).

  (** the tree of row [k] has the index [cc_tidx s k], and lower rows have higher indexes *)
  Lemma cc_tidx_index k : N.testbit n (N.of_nat k) = true ->
    index_of_tree k (forest HO s) 0 = Some (cc_tidx H s k).
  Proof.
    intros Hbit. destruct (cc_forest_at_tidx H HO s k Hbit) as (lo & t & E).
    exact (cc_index_of_tree _ 0%nat _ k lo t (cc_forest_rows_NoDup H HO s) E).
  Qed.

  Lemma cc_tidx_anti k k' : N.testbit n (N.of_nat k) = true -> N.testbit n (N.of_nat k') = true ->
    (k < k')%nat -> (cc_tidx H s k' < cc_tidx H s k)%nat.
  Proof.
    intros Hb Hb' Hlt.
    destruct (cc_forest_at_tidx H HO s k Hb) as (lo & t & E).
    destruct (cc_forest_at_tidx H HO s k' Hb') as (lo' & t' & E').
    destruct (cc_trees_rows_desc H HO (Nat.log2 (length s)) 0 s) as [HS _]. fold (forest HO s) in HS.
    assert (E1 : nth_error (map row (forest HO s)) (cc_tidx H s k) = Some k)
      by (rewrite nth_error_map, E; reflexivity).
    assert (E2 : nth_error (map row (forest HO s)) (cc_tidx H s k') = Some k')
      by (rewrite nth_error_map, E'; reflexivity).
    destruct (Nat.lt_trichotomy (cc_tidx H s k') (cc_tidx H s k)) as [Hc|[Hc|Hc]]; [exact Hc| |].
    - rewrite Hc in E2. rewrite E1 in E2. injection E2 as E2. lia.
    - pose proof (cc_sorted_nth _ _ _ _ _ _ HS Hc E1 E2) as Hr. cbn beta in Hr. lia.
  Qed.

  (** the oracle's list of tree indexes of a list of nodes *)
  Definition cc_fold_idx (ts : list (node H)) : list nat :=
    fold_right (fun x acc => match index_of_tree (ntree x) (forest HO s) 0 with
                             | Some i => insert_desc i acc | None => acc end) [] ts.

  Lemma cc_fold_idx_spec (ts : list (node H)) :
    (forall x, In x ts -> In x (layout HO s)) ->
    descN (cc_fold_idx ts) /\
    (forall i, In i (cc_fold_idx ts) <-> exists x, In x ts /\ i = cc_tidx H s (ntree x)).
  Proof.
    intros Hlay. induction ts as [|x ts IH]; cbn [cc_fold_idx fold_right].
    - split; [constructor|]. intros i. split; [intros []|intros (x & [] & _)].
    - destruct IH as [IH1 IH2]; [intros y Hy; apply Hlay; right; exact Hy|].
      fold (cc_fold_idx ts).
      assert (Hbit : N.testbit n (N.of_nat (ntree x)) = true).
      { destruct (layout_node_tree H HO s x (Hlay x (or_introl eq_refl))) as (lo & t & Hin & _).
        exact (proj1 (forest_entry H HO s _ lo t Hin)). }
      rewrite (cc_tidx_index (ntree x) Hbit).
      destruct (cc_insert_desc_spec (cc_tidx H s (ntree x)) (cc_fold_idx ts) IH1) as [I1 I2].
      split; [exact I1|]. intros i. rewrite I2, IH2. split.
      + intros [->|(y & Hy & ->)]; [exists x; split; [left; reflexivity|reflexivity]|].
        exists y. split; [right; exact Hy|reflexivity].
      + intros (y & [<-|Hy] & ->); [left; reflexivity|]. right. exists y. split; [exact Hy|reflexivity].
  Qed.
End RootIndexes.

(** C-A with the indexes named: [Verify] returns exactly the oracle's expected root indexes *)
Theorem verify_complete_indexes {H} (HO : ops H) (s : slots H) (hs : list H) (ts : list N)
        (pf : list H) :
  ops_ok HO ->
  (forall a b, NZ HO (op_hash2 HO a b)) ->
  (forall h, In (Some h) s -> NZ HO h) ->
  N.of_nat (length s) <= 2 ^ 63 ->
  NoDup hs ->
  exp_prove HO (mk_ctx HO s) hs = Some (ts, pf) ->
  exists idx,
    Verify HO true (the_stump (mk_ctx HO s)) hs ts pf = Ok idx /\
    exp_root_indexes HO (mk_ctx HO s) hs = Some idx.
Proof.
  intros HOK Hnz Hlive Hn63 Hnd Ep. unfold exp_prove, exp_root_indexes, mk_ctx in *.
  cbn [clay crows cs] in *.
  destruct (find_leaves HO (layout HO s) hs) as [tsn|] eqn:Efl; [|discriminate].
  injection Ep as <- <-.
  destruct (cc_find_leaves_facts HO s hs tsn HOK Hnd Efl) as (Hlay & Hleaf & Hndt & Ehs & _).
  destruct (verify_complete_nodes H HO HOK Hnz s Hlive Hn63 tsn Hlay Hleaf Hndt) as [Ev Hs].
  rewrite Ehs in Ev. eexists. split; [exact Ev|]. f_equal. fold (cc_fold_idx H HO s tsn).
  destruct (cc_fold_idx_spec H HO s tsn Hlay) as [F1 F2].
  set (rows := map fst (filter (is_root_c (N.of_nat (length s)))
                 (cc_sortC (N.of_nat (length s)) (cc_K (N.of_nat (length s)) (map ncrd tsn))))) in *.
  assert (Hrow : forall r, In r rows -> N.testbit (N.of_nat (length s)) r = true /\ r <= 63 /\
                                        exists x, In x tsn /\ r = N.of_nat (ntree x)).
  { intros r Hr. pose proof (proj1 (vc_rows H HO s Hn63 tsn Hlay Hleaf Hndt r) Hr) as Hx.
    apply in_map_iff in Hr. destruct Hr as (q & <- & Hq).
    apply filter_In in Hq. destruct Hq as [_ Hq]. unfold is_root_c in Hq.
    apply andb_true_iff in Hq. destruct Hq as [Hbit _]. split; [exact Hbit|]. split; [|exact Hx].
    pose proof (proj1 (root_coord_valid _ (fst q) _ (rf_nle H s) Hbit)).
    pose proof (rf_t63 H s Hn63). lia. }
  assert (Eidx : forall r, r <= 63 ->
            rootIndexForRow (N.of_nat (length s)) r = cc_tidx H s (N.to_nat r)).
  { intros r Hr. rewrite (cc_rootIndexForRow _ r Hr). unfold cc_tidx. rewrite N2Nat.id. reflexivity. }
  apply cc_desc_ext; [exact F1| |].
  - (* ascending rows give descending indexes *)
    assert (Hdesc : forall l, StronglySorted N.lt l ->
              (forall r, In r l -> N.testbit (N.of_nat (length s)) r = true /\ r <= 63) ->
              descN (map (rootIndexForRow (N.of_nat (length s))) l)).
    { intros l HS. induction HS as [|r l HS IH Hr]; intros Hl; [constructor|].
      cbn [map]. constructor.
      - apply IH. intros r' Hr'. apply Hl. right. exact Hr'.
      - apply Forall_forall. intros i Hi. apply in_map_iff in Hi. destruct Hi as (r' & <- & Hr').
        rewrite Forall_forall in Hr. specialize (Hr r' Hr').
        destruct (Hl r (or_introl eq_refl)) as (Hb & H63).
        destruct (Hl r' (or_intror Hr')) as (Hb' & H63').
        rewrite (Eidx r H63), (Eidx r' H63').
        apply (cc_tidx_anti H HO s (N.to_nat r) (N.to_nat r'));
          [rewrite N2Nat.id; exact Hb|rewrite N2Nat.id; exact Hb'|lia]. }
    apply Hdesc; [exact Hs|]. intros r Hr. destruct (Hrow r Hr) as (Hb & H63 & _). split; assumption.
  - intros i. rewrite F2, in_map_iff. split.
    + intros (x & Hx & ->). exists (N.of_nat (ntree x)).
      assert (Hin : In (N.of_nat (ntree x)) rows).
      { apply (vc_rows H HO s Hn63 tsn Hlay Hleaf Hndt). exists x. split; [exact Hx|reflexivity]. }
      destruct (Hrow _ Hin) as (_ & H63 & _).
      split; [rewrite (Eidx _ H63), Nat2N.id; reflexivity|exact Hin].
    + intros (r & <- & Hr). destruct (Hrow r Hr) as (_ & H63 & x & Hx & ->).
      exists x. split; [exact Hx|]. rewrite (Eidx _ H63), Nat2N.id. reflexivity.
Qed.

(** * 13. Non-vacuity (free hash algebra; [LayoutStruct.ls_ex] has dead slots, a leaf that moved
    up and an empty root: slots [Atom 1; -; Atom 3; Atom 4; -; -; Atom 7]) *)

Lemma ex_cc_hash_nz : forall a b : term, NZ term_ops (op_hash2 term_ops a b).
Proof. intros a b. reflexivity. Qed.

Lemma ex_cc_live_nz : forall h, In (Some h) ls_ex -> NZ term_ops h.
Proof.
  intros h Hin. unfold ls_ex in Hin. cbn [In] in Hin.
  repeat (destruct Hin as [E|Hin]; [try discriminate E; injection E as <-; reflexivity|]).
  destruct Hin.
Qed.

Lemma ex_cc_live_nodup : NoDup (live ls_ex).
Proof.
  change (live ls_ex) with [Atom 1; Atom 3; Atom 4; Atom 7].
  repeat constructor; cbn [In]; intros Hin;
    repeat (destruct Hin as [E|Hin]; [discriminate E|]); destruct Hin.
Qed.

Lemma ex_cc_bound : N.of_nat (length ls_ex) <= 2 ^ 63.
Proof. vm_compute. discriminate. Qed.

Lemma ex_cc_nodup : NoDup [Atom 7; Atom 3].
Proof.
  repeat constructor; cbn [In]; intros Hin;
    repeat (destruct Hin as [E|Hin]; [discriminate E|]); destruct Hin.
Qed.

Example ex_cc_prove :
  exp_prove term_ops (mk_ctx term_ops ls_ex) [Atom 7; Atom 3] = Some ([6; 2], [Atom 4; Atom 1]).
Proof. vm_compute. reflexivity. Qed.

(** C-A applied (not computed): the hypotheses are satisfiable ... *)
Example ex_cc_verify_by_theorem :
  exists idx,
    Verify term_ops true (the_stump (mk_ctx term_ops ls_ex)) [Atom 7; Atom 3] [6; 2]
           [Atom 4; Atom 1] = Ok idx /\
    exp_root_indexes term_ops (mk_ctx term_ops ls_ex) [Atom 7; Atom 3] = Some idx.
Proof.
  exact (verify_complete_indexes term_ops ls_ex [Atom 7; Atom 3] [6; 2] [Atom 4; Atom 1]
           term_ops_ok ex_cc_hash_nz ex_cc_live_nz ex_cc_bound ex_cc_nodup ex_cc_prove).
Qed.

(** ... and the conclusion agrees with the computation *)
Example ex_cc_verify_computed :
  Verify term_ops true (the_stump (mk_ctx term_ops ls_ex)) [Atom 7; Atom 3] [6; 2]
         [Atom 4; Atom 1] = Ok [2%nat; 0%nat] /\
  exp_root_indexes term_ops (mk_ctx term_ops ls_ex) [Atom 7; Atom 3] = Some [2%nat; 0%nat].
Proof. vm_compute. split; reflexivity. Qed.

(** C-B applied, and the computed result *)
Example ex_cc_del_by_theorem :
  exists st' inter,
    stump_del term_ops true (the_stump (mk_ctx term_ops ls_ex)) [Atom 7; Atom 3] [6; 2]
              [Atom 4; Atom 1] = (st', Ok inter) /\
    st_roots st' = roots term_ops (kill term_ops [Atom 7; Atom 3] ls_ex) /\
    st_n st' = num_leaves ls_ex.
Proof.
  exact (stump_del_refines term_ops ls_ex [Atom 7; Atom 3] [6; 2] [Atom 4; Atom 1]
           term_ops_ok ex_cc_hash_nz ex_cc_live_nz ex_cc_live_nodup ex_cc_bound ex_cc_nodup
           ex_cc_prove).
Qed.

Example ex_cc_del_computed :
  stump_del term_ops true (the_stump (mk_ctx term_ops ls_ex)) [Atom 7; Atom 3] [6; 2]
            [Atom 4; Atom 1]
  = (mkStump [Node (Atom 1) (Atom 4); Zero; Zero] 7,
     Ok [(2, Zero); (6, Zero); (9, Atom 4); (12, Node (Atom 1) (Atom 4))]) /\
  roots term_ops (kill term_ops [Atom 7; Atom 3] ls_ex) = [Node (Atom 1) (Atom 4); Zero; Zero].
Proof. vm_compute. split; reflexivity. Qed.

(** [calculateHashes] ignores trailing proof hashes, as [calc_complete] states ([extra]) *)
Example ex_cc_extra :
  calculateHashes term_ops true 7 (Some [Atom 6; Atom 0; Atom 5]) [6; 0; 5]
                  ([Atom 1; Atom 4; Node (Atom 2) (Atom 3)] ++ [Atom 99; Zero])
  = Ok ([(0, Atom 0); (5, Atom 5); (6, Atom 6);
         (8, Node (Atom 0) (Atom 1)); (10, Node (Atom 4) (Atom 5));
         (12, Node (Node (Atom 0) (Atom 1)) (Node (Atom 2) (Atom 3)))],
        [Atom 6; Node (Atom 4) (Atom 5);
         Node (Node (Atom 0) (Atom 1)) (Node (Atom 2) (Atom 3))],
        [0; 1; 2]).
Proof. vm_compute. reflexivity. Qed.

(** the theorem on that run with the trivial valuation: validity of the targets and the canonical
    proof positions are computed, the shape of the result is concluded *)
Example ex_cc_theorem_instance :
  cc_result term (fun _ _ => True) 7 [(0, 6); (0, 0); (0, 5)]
    (calculateHashes term_ops true 7 (Some [Atom 6; Atom 0; Atom 5])
       (map (g (TreeRows 7)) [(0, 6); (0, 0); (0, 5)])
       ([Atom 1; Atom 4; Node (Atom 2) (Atom 3)] ++ [Atom 99; Zero])).
Proof.
  apply (calc_complete term term_ops (fun _ _ => True) 7).
  - vm_compute. discriminate.
  - intros; exact I.
  - vm_compute. reflexivity.
  - repeat constructor.
  - vm_compute. repeat constructor.
Qed.

Print Assumptions calc_complete_holds.
Print Assumptions calc_complete_functional.
Print Assumptions verify_complete.
Print Assumptions verify_complete_indexes.
Print Assumptions stump_del_refines.
Print Assumptions ex_cc_verify_by_theorem.
Print Assumptions ex_cc_del_by_theorem.
