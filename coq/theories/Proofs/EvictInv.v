(** Invariants of the eviction loop mirror [Model.Evict] and the three C15 theorems. *)
From Coq Require Import NArith ZArith List Bool Permutation Sorted.
From Coq Require Import Lia ZifyN ZifyNat ZifyBool.
From Utreexo Require Import Model.Evict.
Import ListNotations.

(** * Generic list facts *)

Lemma NoDup_app_inv {A} (l1 l2 : list A) :
  NoDup (l1 ++ l2) -> NoDup l1 /\ NoDup l2 /\ (forall x, In x l1 -> ~ In x l2).
Proof.
  induction l1 as [|a l1 IH]; intros Hnd.
  - split; [constructor|]. split; [exact Hnd|]. intros x [].
  - cbn [app] in Hnd. inversion Hnd as [|a' l' Hna Hnd' Heq]; subst.
    destruct (IH Hnd') as (H1 & H2 & H3).
    split.
    + constructor; [|exact H1]. intros Hin. apply Hna. apply in_or_app. left. exact Hin.
    + split; [exact H2|]. intros x [Hx|Hx] Hx2.
      * subst x. apply Hna. apply in_or_app. right. exact Hx2.
      * exact (H3 x Hx Hx2).
Qed.

Lemma NoDup_app_intro {A} (l1 l2 : list A) :
  NoDup l1 -> NoDup l2 -> (forall x, In x l1 -> ~ In x l2) -> NoDup (l1 ++ l2).
Proof.
  induction l1 as [|a l1 IH]; intros H1 H2 H3.
  - exact H2.
  - cbn [app]. inversion H1 as [|a' l' Hna Hnd' Heq]; subst.
    constructor.
    + intros Hin. apply in_app_or in Hin. destruct Hin as [Hin|Hin].
      * exact (Hna Hin).
      * exact (H3 a (or_introl eq_refl) Hin).
    + apply IH; [exact Hnd'|exact H2|]. intros x Hx. apply H3. right. exact Hx.
Qed.

Lemma in_concat_nth {A} (L : list (list A)) (x : A) :
  In x (concat L) <-> exists j, In x (nth j L []).
Proof.
  induction L as [|a L IH].
  - cbn [concat]. split; [intros []|]. intros [j Hj]. destruct j; exact Hj.
  - cbn [concat]. rewrite in_app_iff, IH. split.
    + intros [Hx|[j Hj]]; [exists 0%nat; exact Hx|exists (S j); exact Hj].
    + intros [[|j] Hj]; [left; exact Hj|right; exists j; exact Hj].
Qed.

Lemma in_nth_concat {A} (L : list (list A)) (x : A) j :
  In x (nth j L []) -> In x (concat L).
Proof. intros H. apply in_concat_nth. exists j. exact H. Qed.

Lemma NoDup_concat_nth {A} (L : list (list A)) j :
  NoDup (concat L) -> NoDup (nth j L []).
Proof.
  revert j. induction L as [|a L IH]; intros j Hnd.
  - destruct j; constructor.
  - cbn [concat] in Hnd. apply NoDup_app_inv in Hnd. destruct Hnd as (H1 & H2 & _).
    destruct j as [|j]; [exact H1|]. cbn [nth]. apply IH. exact H2.
Qed.

Lemma firstn_S_nth {A} (l : list A) (k : nat) (d : A) :
  (k < length l)%nat -> firstn (S k) l = firstn k l ++ [nth k l d].
Proof.
  revert k. induction l as [|a l IH]; intros k Hk.
  - cbn [length] in Hk. lia.
  - destruct k as [|k].
    + reflexivity.
    + cbn [length] in Hk. change (firstn (S (S k)) (a :: l)) with (a :: firstn (S k) l).
      rewrite (IH k) by lia. reflexivity.
Qed.

Lemma in_concat_skipn {A} (L : list (list A)) k (x : A) :
  In x (concat (skipn k L)) -> exists j, (k <= j)%nat /\ In x (nth j L []).
Proof.
  revert k. induction L as [|a L IH]; intros k Hin.
  - destruct k; destruct Hin.
  - destruct k as [|k].
    + cbn [skipn] in Hin. apply in_concat_nth in Hin. destruct Hin as [j Hj].
      exists j. split; [lia|exact Hj].
    + cbn [skipn] in Hin. destruct (IH k Hin) as (j & Hkj & Hj).
      exists (S j). split; [lia|exact Hj].
Qed.

Lemma concat_firstn_le {A} (L : list (list A)) k :
  (k < length L)%nat ->
  (length (concat (firstn k L)) + length (nth k L []) <= length (concat L))%nat.
Proof.
  revert k. induction L as [|a L IH]; intros k Hk.
  - cbn [length] in Hk. lia.
  - destruct k as [|k].
    + cbn [firstn concat nth length]. rewrite app_length. lia.
    + cbn [length] in Hk. cbn [firstn concat nth]. rewrite !app_length.
      specialize (IH k). lia.
Qed.

Lemma concat_firstn_S {A} (L : list (list A)) k :
  (k < length L)%nat ->
  length (concat (firstn (S k) L)) = (length (concat (firstn k L)) + length (nth k L []))%nat.
Proof.
  intros Hk. rewrite (firstn_S_nth L k []) by exact Hk.
  rewrite concat_app, app_length. cbn [concat]. rewrite app_nil_r. reflexivity.
Qed.

(** A duplicate-free list whose elements all lie in [l2] is no longer than [l2]. *)
Lemma NoDup_incl_length' {A} (l1 l2 : list A) :
  NoDup l1 -> (forall x, In x l1 -> In x l2) -> (length l1 <= length l2)%nat.
Proof. intros H1 H2. apply NoDup_incl_length; [exact H1|exact H2]. Qed.

(** * Sorting *)

Lemma ins_perm x l : Permutation (ins x l) (x :: l).
Proof.
  induction l as [|y r IH].
  - apply Permutation_refl.
  - cbn [ins]. destruct (N.leb x y).
    + apply Permutation_refl.
    + eapply perm_trans; [apply perm_skip; exact IH|apply perm_swap].
Qed.

Lemma isort_perm l : Permutation (isort l) l.
Proof.
  induction l as [|x r IH].
  - apply Permutation_refl.
  - cbn [isort]. eapply perm_trans; [apply ins_perm|apply perm_skip; exact IH].
Qed.

Lemma sort_append_perm p l : Permutation (sort_append p l) (p :: l).
Proof.
  unfold sort_append. eapply perm_trans; [apply isort_perm|].
  apply Permutation_sym. apply Permutation_cons_append.
Qed.

Lemma sort_append_in p l x : In x (sort_append p l) <-> x = p \/ In x l.
Proof.
  split.
  - intros H. apply (Permutation_in _ (sort_append_perm p l)) in H.
    destruct H as [H|H]; [left; symmetry; exact H|right; exact H].
  - intros H. apply (Permutation_in _ (Permutation_sym (sort_append_perm p l))).
    destruct H as [H|H]; [left; symmetry; exact H|right; exact H].
Qed.

Lemma ins_hdrel a x l : N.le a x -> HdRel N.le a l -> HdRel N.le a (ins x l).
Proof.
  intros Hax Hl. destruct l as [|y r].
  - constructor. exact Hax.
  - cbn [ins]. destruct (N.leb x y).
    + constructor. exact Hax.
    + constructor. inversion Hl; subst. assumption.
Qed.

Lemma ins_sorted x l : Sorted N.le l -> Sorted N.le (ins x l).
Proof.
  induction l as [|y r IH]; intros Hs.
  - repeat constructor.
  - cbn [ins]. destruct (N.leb x y) eqn:Hxy.
    + constructor; [exact Hs|]. constructor. lia.
    + inversion Hs as [|y' r' Hsr Hhd]; subst.
      constructor; [apply IH; exact Hsr|].
      apply ins_hdrel; [lia|exact Hhd].
Qed.

Lemma isort_sorted l : Sorted N.le (isort l).
Proof.
  induction l as [|x r IH]; [constructor|]. cbn [isort]. apply ins_sorted. exact IH.
Qed.

Lemma sort_append_sorted p l : Sorted N.le (sort_append p l).
Proof. apply isort_sorted. Qed.

Lemma sorted_le_lt (l : list N) : StronglySorted N.le l -> NoDup l -> StronglySorted N.lt l.
Proof.
  induction l as [|a l IH]; intros Hs Hnd; [constructor|].
  inversion Hs as [|a' l' Hsl Hfa]; subst. inversion Hnd as [|a' l' Hna Hndl]; subst.
  constructor; [apply IH; assumption|].
  rewrite Forall_forall in *. intros x Hx. specialize (Hfa x Hx).
  assert (x <> a) by (intros ->; exact (Hna Hx)). lia.
Qed.

(** * The association list *)

Lemma ch_get_del_other p q ch : q <> p -> ch_get q (ch_del p ch) = ch_get q ch.
Proof.
  intros Hne. induction ch as [|[k v] r IH]; [reflexivity|].
  cbn [ch_del ch_get]. destruct (N.eqb k p) eqn:Hkp.
  - destruct (N.eqb k q) eqn:Hkq; [lia|exact IH].
  - cbn [ch_get]. destruct (N.eqb k q); [reflexivity|exact IH].
Qed.

Lemma ch_get_set_same p v ch : ch_get p (ch_set p v ch) = v.
Proof. unfold ch_set. cbn [ch_get]. rewrite N.eqb_refl. reflexivity. Qed.

Lemma ch_get_set_other p q v ch : q <> p -> ch_get q (ch_set p v ch) = ch_get q ch.
Proof.
  intros Hne. unfold ch_set. cbn [ch_get]. destruct (N.eqb p q) eqn:Hpq; [lia|].
  apply ch_get_del_other. exact Hne.
Qed.

(** * upd_nth *)

Lemma upd_nth_length f h l : length (upd_nth f h l) = length l.
Proof.
  revert h. induction l as [|x r IH]; intros h; [reflexivity|].
  destruct h; cbn [upd_nth length]; [reflexivity|]. rewrite IH. reflexivity.
Qed.

Lemma upd_nth_same f h l : (h < length l)%nat -> nth h (upd_nth f h l) [] = f (nth h l []).
Proof.
  revert h. induction l as [|x r IH]; intros h Hh; [cbn [length] in Hh; lia|].
  destruct h; cbn [upd_nth nth]; [reflexivity|]. apply IH. cbn [length] in Hh. lia.
Qed.

Lemma upd_nth_other f h j l : j <> h -> nth j (upd_nth f h l) [] = nth j l [].
Proof.
  revert h j. induction l as [|x r IH]; intros h j Hne; [reflexivity|].
  destruct h; destruct j; cbn [upd_nth nth]; try reflexivity; try lia.
  apply IH. lia.
Qed.

Lemma upd_nth_in p h l j x : (h < length l)%nat ->
  In x (nth j (upd_nth (sort_append p) h l) []) <-> In x (nth j l []) \/ (x = p /\ j = h).
Proof.
  intros Hh. destruct (Nat.eq_dec j h) as [->|Hne].
  - rewrite upd_nth_same by exact Hh. rewrite sort_append_in. tauto.
  - rewrite upd_nth_other by exact Hne. split; [tauto|]. intros [H|[_ H]]; [exact H|lia].
Qed.

Lemma upd_nth_perm p h l : (h < length l)%nat ->
  Permutation (concat (upd_nth (sort_append p) h l)) (p :: concat l).
Proof.
  revert h. induction l as [|x r IH]; intros h Hh; [cbn [length] in Hh; lia|].
  destruct h as [|h]; cbn [upd_nth concat].
  - change (p :: x ++ concat r) with ((p :: x) ++ concat r).
    apply Permutation_app_tail. apply sort_append_perm.
  - cbn [length] in Hh. eapply perm_trans.
    + apply Permutation_app_head. apply IH. lia.
    + apply Permutation_sym. apply Permutation_middle.
Qed.

(** Unconditional (index possibly out of range). *)
Lemma upd_nth_in_weak p h l x :
  In x (concat (upd_nth (sort_append p) h l)) -> x = p \/ In x (concat l).
Proof.
  revert h. induction l as [|y r IH]; intros h Hin; [destruct Hin|].
  destruct h as [|h]; cbn [upd_nth concat] in *; rewrite in_app_iff in *.
  - destruct Hin as [Hin|Hin]; [|tauto]. apply sort_append_in in Hin. tauto.
  - destruct Hin as [Hin|Hin]; [tauto|]. apply IH in Hin. tauto.
Qed.

Lemma upd_nth_sorted p h l :
  (forall j, Sorted N.le (nth j l [])) ->
  forall j, Sorted N.le (nth j (upd_nth (sort_append p) h l) []).
Proof.
  intros Hs j. destruct (Nat.eq_dec j h) as [->|Hne].
  - destruct (Nat.lt_ge_cases h (length l)) as [Hlt|Hge].
    + rewrite upd_nth_same by exact Hlt. apply sort_append_sorted.
    + rewrite nth_overflow; [constructor|]. rewrite upd_nth_length. exact Hge.
  - rewrite upd_nth_other by exact Hne. apply Hs.
Qed.

(** * The expiry loop: closed form *)

Definition dec_entry (e : entry) : entry := (fst e, dec64 (snd e)).
Definition keepf (c : list entry) : list entry :=
  filter (fun e => negb (Z.eqb (snd e) 0)) (map dec_entry c).
Definition deadf (c : list entry) : list N :=
  map fst (filter (fun e => Z.eqb (dec64 (snd e)) 0) c).
Definition move (cs : list (N * nat) * list (list N)) (p : N)
  : list (N * nat) * list (list N) :=
  (ch_del p (fst cs), upd_nth (sort_append p) (ch_get p (fst cs)) (snd cs)).

Lemma deadf_cons_dead p r (c : list entry) : Z.eqb (dec64 r) 0 = true -> deadf ((p, r) :: c) = p :: deadf c.
Proof. intros E. unfold deadf. cbn [filter snd]. rewrite E. reflexivity. Qed.
Lemma deadf_cons_live p r (c : list entry) : Z.eqb (dec64 r) 0 = false -> deadf ((p, r) :: c) = deadf c.
Proof. intros E. unfold deadf. cbn [filter snd]. rewrite E. reflexivity. Qed.
Lemma keepf_cons_dead p r (c : list entry) : Z.eqb (dec64 r) 0 = true -> keepf ((p, r) :: c) = keepf c.
Proof.
  intros E. unfold keepf. cbn [map filter]. unfold dec_entry at 1. cbn [fst snd].
  rewrite E. reflexivity.
Qed.
Lemma keepf_cons_live p r (c : list entry) :
  Z.eqb (dec64 r) 0 = false -> keepf ((p, r) :: c) = (p, dec64 r) :: keepf c.
Proof.
  intros E. unfold keepf. cbn [map filter]. unfold dec_entry at 1. cbn [fst snd].
  rewrite E. reflexivity.
Qed.

Lemma expire_loop_spec todo : forall kept ch sch,
  expire_loop todo kept ch sch =
  mkState (rev kept ++ keepf todo)
          (fst (fold_left move (deadf todo) (ch, sch)))
          (snd (fold_left move (deadf todo) (ch, sch))).
Proof.
  induction todo as [|[p r] todo IH]; intros kept ch sch.
  - cbn [expire_loop]. unfold keepf, deadf. cbn [map filter fold_left fst snd].
    rewrite app_nil_r. reflexivity.
  - cbn [expire_loop]. destruct (Z.eqb (dec64 r) 0) eqn:E.
    + rewrite IH. rewrite (deadf_cons_dead p r todo E), (keepf_cons_dead p r todo E).
      reflexivity.
    + rewrite IH. rewrite (deadf_cons_live p r todo E), (keepf_cons_live p r todo E).
      cbn [rev]. rewrite <- app_assoc. reflexivity.
Qed.

Lemma expire_spec st :
  expire st =
  mkState (keepf (st_cache st))
          (fst (fold_left move (deadf (st_cache st)) (st_heights st, st_sched st)))
          (snd (fold_left move (deadf (st_cache st)) (st_heights st, st_sched st))).
Proof. unfold expire. rewrite expire_loop_spec. reflexivity. Qed.

Lemma in_keepf p r' c :
  In (p, r') (keepf c) <-> exists r, In (p, r) c /\ r' = dec64 r /\ r' <> 0%Z.
Proof.
  unfold keepf. rewrite filter_In, in_map_iff. cbn [snd]. split.
  - intros [[[q r] [Heq Hin]] Hnz]. unfold dec_entry in Heq. cbn [fst snd] in Heq.
    inversion Heq; subst. exists r. split; [exact Hin|]. split; [reflexivity|]. lia.
  - intros (r & Hin & -> & Hnz). split; [|lia]. exists (p, r). split; [reflexivity|exact Hin].
Qed.

Lemma in_deadf p c : In p (deadf c) <-> exists r, In (p, r) c /\ dec64 r = 0%Z.
Proof.
  unfold deadf. rewrite in_map_iff. split.
  - intros [[q r] [Heq Hin]]. cbn [fst] in Heq. subst q. apply filter_In in Hin.
    cbn [snd] in Hin. exists r. split; [tauto|lia].
  - intros (r & Hin & Hd). exists (p, r). split; [reflexivity|]. apply filter_In.
    cbn [snd]. split; [exact Hin|lia].
Qed.

Lemma keepf_fst_in p c : In p (map fst (keepf c)) -> In p (map fst c).
Proof.
  intros H. apply in_map_iff in H. destruct H as [[q r'] [Heq Hin]]. cbn [fst] in Heq. subst q.
  apply in_keepf in Hin. destruct Hin as (r & Hin & _). apply in_map_iff.
  exists (p, r). split; [reflexivity|exact Hin].
Qed.

Lemma keepf_length c : (length (keepf c) <= length c)%nat.
Proof.
  induction c as [|[p r] c IH]; [cbn; lia|].
  destruct (Z.eqb (dec64 r) 0) eqn:E.
  - rewrite (keepf_cons_dead p r c E). cbn [length]. lia.
  - rewrite (keepf_cons_live p r c E). cbn [length]. lia.
Qed.

Lemma keepf_nodup c : NoDup (map fst c) -> NoDup (map fst (keepf c)).
Proof.
  induction c as [|[p r] c IH]; intros Hnd.
  - constructor.
  - cbn [map fst] in Hnd. inversion Hnd as [|a l Hna Hnd' Heq]; subst.
    destruct (Z.eqb (dec64 r) 0) eqn:E.
    + rewrite (keepf_cons_dead p r c E). apply IH. exact Hnd'.
    + rewrite (keepf_cons_live p r c E). cbn [map fst]. constructor; [|apply IH; exact Hnd'].
      intros Hin. apply Hna. apply keepf_fst_in. exact Hin.
Qed.

Lemma deadf_nodup c : NoDup (map fst c) -> NoDup (deadf c).
Proof.
  induction c as [|[p r] c IH]; intros Hnd.
  - constructor.
  - cbn [map fst] in Hnd. inversion Hnd as [|a l Hna Hnd' Heq]; subst.
    destruct (Z.eqb (dec64 r) 0) eqn:E.
    + rewrite (deadf_cons_dead p r c E). constructor; [|apply IH; exact Hnd'].
      intros Hin. apply Hna. apply in_deadf in Hin. destruct Hin as (r0 & Hin & _).
      apply in_map_iff. exists (p, r0). split; [reflexivity|exact Hin].
    + rewrite (deadf_cons_live p r c E). apply IH. exact Hnd'.
Qed.

(** The effect of moving a duplicate-free list of positions into the schedule. *)
Lemma fold_move_spec dead : forall ch sch,
  NoDup dead ->
  (forall p, In p dead -> (ch_get p ch < length sch)%nat) ->
  length (snd (fold_left move dead (ch, sch))) = length sch /\
  (forall j x, In x (nth j (snd (fold_left move dead (ch, sch))) []) <->
               In x (nth j sch []) \/ (In x dead /\ ch_get x ch = j)) /\
  Permutation (concat (snd (fold_left move dead (ch, sch)))) (dead ++ concat sch) /\
  (forall q, ~ In q dead -> ch_get q (fst (fold_left move dead (ch, sch))) = ch_get q ch) /\
  ((forall j, Sorted N.le (nth j sch [])) ->
   forall j, Sorted N.le (nth j (snd (fold_left move dead (ch, sch))) [])).
Proof.
  induction dead as [|p rest IH]; intros ch sch Hnd Hrange.
  - cbn [fold_left fst snd]. split; [reflexivity|]. split.
    + intros j x. split; [tauto|]. intros [H|[[] _]]. exact H.
    + split; [apply Permutation_refl|]. split; [reflexivity|]. intros H; exact H.
  - inversion Hnd as [|a l Hnp Hnd' Heq]; subst.
    cbn [fold_left].
    change (move (ch, sch) p) with (ch_del p ch, upd_nth (sort_append p) (ch_get p ch) sch).
    set (ch1 := ch_del p ch). set (sch1 := upd_nth (sort_append p) (ch_get p ch) sch).
    assert (Hp : (ch_get p ch < length sch)%nat) by (apply Hrange; left; reflexivity).
    assert (Hlen1 : length sch1 = length sch) by apply upd_nth_length.
    assert (Hget1 : forall q, q <> p -> ch_get q ch1 = ch_get q ch)
      by (intros q Hq; apply ch_get_del_other; exact Hq).
    assert (Hrange1 : forall q, In q rest -> (ch_get q ch1 < length sch1)%nat).
    { intros q Hq. rewrite Hlen1, Hget1; [apply Hrange; right; exact Hq|].
      intros ->. exact (Hnp Hq). }
    destruct (IH ch1 sch1 Hnd' Hrange1) as (I1 & I2 & I3 & I4 & I5).
    split; [rewrite I1; exact Hlen1|]. split.
    { intros j x. rewrite I2. unfold sch1. rewrite upd_nth_in by exact Hp. split.
      - intros [[H|[-> <-]]|[Hx Hg]].
        + left; exact H.
        + right. split; [left; reflexivity|reflexivity].
        + right. split; [right; exact Hx|]. rewrite <- Hg. symmetry. apply Hget1.
          intros ->. exact (Hnp Hx).
      - intros [H|[[<-|Hx] Hg]].
        + left; left; exact H.
        + left; right. split; [reflexivity|symmetry; exact Hg].
        + right. split; [exact Hx|]. rewrite <- Hg. apply Hget1. intros ->. exact (Hnp Hx). }
    split.
    { eapply perm_trans; [exact I3|]. cbn [app]. eapply perm_trans.
      - apply Permutation_app_head. unfold sch1. apply upd_nth_perm. exact Hp.
      - apply Permutation_sym. apply Permutation_middle. }
    split.
    { intros q Hq. rewrite I4 by (intros H; apply Hq; right; exact H).
      apply Hget1. intros ->. apply Hq. left. reflexivity. }
    intros Hs. apply I5. unfold sch1. apply upd_nth_sorted. exact Hs.
Qed.

(** Unconditional bound on what [fold_left move] can add to the schedule. *)
Lemma fold_move_weak dead : forall ch sch x,
  In x (concat (snd (fold_left move dead (ch, sch)))) -> In x dead \/ In x (concat sch).
Proof.
  induction dead as [|p rest IH]; intros ch sch x Hin.
  - right. exact Hin.
  - cbn [fold_left] in Hin. unfold move at 2 in Hin. cbn [fst snd] in Hin.
    apply IH in Hin. destruct Hin as [Hin|Hin].
    + left. right. exact Hin.
    + apply upd_nth_in_weak in Hin. destruct Hin as [->|Hin].
      * left. left. reflexivity.
      * right. exact Hin.
Qed.

Lemma fold_move_length dead : forall ch sch,
  length (snd (fold_left move dead (ch, sch))) = length sch.
Proof.
  induction dead as [|p rest IH]; intros ch sch; [reflexivity|].
  cbn [fold_left]. unfold move at 2. cbn [fst snd]. rewrite IH. apply upd_nth_length.
Qed.

(** * Facts about well-formed inputs *)

Lemma nodup_fst_fun {B} (l : list (N * B)) p t t' :
  NoDup (map fst l) -> In (p, t) l -> In (p, t') l -> t = t'.
Proof.
  induction l as [|[q s] l IH]; intros Hnd H1 H2; [destruct H1|].
  cbn [map fst] in Hnd. inversion Hnd as [|a l' Hna Hnd' Heq]; subst.
  assert (Hfst : forall u, In (q, u) l -> False).
  { intros u Hu. apply Hna. apply in_map_iff. exists (q, u). split; [reflexivity|exact Hu]. }
  destruct H1 as [H1|H1]; destruct H2 as [H2|H2].
  - inversion H1; inversion H2; subst. reflexivity.
  - inversion H1; subst. destruct (Hfst _ H2).
  - inversion H2; subst. destruct (Hfst _ H1).
  - exact (IH Hnd' H1 H2).
Qed.

Lemma in_fst {B} (l : list (N * B)) p t : In (p, t) l -> In p (map fst l).
Proof. intros H. apply in_map_iff. exists (p, t). split; [reflexivity|exact H]. Qed.

Lemma concat_uniq (L : list (list entry)) :
  NoDup (map fst (concat L)) ->
  forall i i' p t t', In (p, t) (nth i L []) -> In (p, t') (nth i' L []) -> i = i' /\ t = t'.
Proof.
  induction L as [|a L IH]; intros Hnd i i' p t t' H1 H2.
  - destruct i; destruct H1.
  - cbn [concat] in Hnd. rewrite map_app in Hnd. apply NoDup_app_inv in Hnd.
    destruct Hnd as (Ha & HL & Hdisj).
    destruct i as [|i]; destruct i' as [|i']; cbn [nth] in H1, H2.
    + split; [reflexivity|]. exact (nodup_fst_fun a p t t' Ha H1 H2).
    + exfalso. apply (Hdisj p (in_fst _ _ _ H1)).
      apply (in_fst _ p t'). apply (in_nth_concat L _ i'). exact H2.
    + exfalso. apply (Hdisj p (in_fst _ _ _ H2)).
      apply (in_fst _ p t). apply (in_nth_concat L _ i). exact H1.
    + destruct (IH HL i i' p t t' H1 H2) as [-> ->]. split; reflexivity.
Qed.

Lemma concat_block_nodup (L : list (list entry)) i :
  NoDup (map fst (concat L)) -> NoDup (map fst (nth i L [])).
Proof.
  revert i. induction L as [|a L IH]; intros i Hnd.
  - destruct i; constructor.
  - cbn [concat] in Hnd. rewrite map_app in Hnd. apply NoDup_app_inv in Hnd.
    destruct Hnd as (Ha & HL & _). destruct i as [|i]; [exact Ha|]. cbn [nth]. apply IH. exact HL.
Qed.

Lemma dec64_pos r : (1 <= r)%Z -> dec64 r = (r - 1)%Z.
Proof.
  intros H. unfold dec64. destruct (Z.eqb_spec r min_int64) as [->|_]; [|reflexivity].
  unfold min_int64 in H. lia.
Qed.

Lemma nth_repeat_nil {A} j n : nth j (repeat (@nil A) n) [] = [].
Proof. revert j. induction n as [|n IH]; intros [|j]; cbn [repeat nth]; try reflexivity. apply IH. Qed.

Lemma concat_repeat_nil {A} n : concat (repeat (@nil A) n) = [].
Proof. induction n as [|n IH]; [reflexivity|]. cbn [repeat concat app]. exact IH. Qed.

(** * evict_first *)
Lemma evict_first_spec t c : forall q c',
  evict_first t c = Some (q, c') ->
  exists l1 rq l2, c = l1 ++ (q, rq) :: l2 /\ c' = l1 ++ l2.
Proof.
  induction c as [|[p r] c IH]; intros q c' H; [discriminate H|].
  cbn [evict_first] in H. destruct (Z.ltb t r).
  - inversion H; subst. exists [], r, c'. split; reflexivity.
  - destruct (evict_first t c) as [[q0 c0]|]; [|discriminate H].
    inversion H; subst. destruct (IH q c0 eq_refl) as (l1 & rq & l2 & -> & ->).
    exists ((p, r) :: l1), rq, l2. split; reflexivity.
Qed.

(** * run *)
Lemma run_app m : forall l1 l2 i st,
  run m i (l1 ++ l2) st = run m (i + length l1) l2 (run m i l1 st).
Proof.
  induction l1 as [|b l1 IH]; intros l2 i st.
  - cbn [app length run]. rewrite Nat.add_0_r. reflexivity.
  - cbn [app length run]. rewrite IH. replace (S i + length l1)%nat with (i + S (length l1))%nat by lia.
    reflexivity.
Qed.

Lemma state_at_S m ttls k : (k < length ttls)%nat ->
  state_at m ttls (S k) = step m k (nth k ttls []) (state_at m ttls k).
Proof.
  intros Hk. unfold state_at. rewrite (firstn_S_nth ttls k []) by exact Hk.
  rewrite run_app. cbn [run Nat.add]. rewrite firstn_length_le by lia. reflexivity.
Qed.

Lemma run_split m ttls k : (k <= length ttls)%nat ->
  run m 0 ttls (init_state (length ttls)) = run m k (skipn k ttls) (state_at m ttls k).
Proof.
  intros Hk. unfold state_at.
  transitivity (run m 0 (firstn k ttls ++ skipn k ttls) (init_state (length ttls))).
  - rewrite firstn_skipn. reflexivity.
  - rewrite run_app. cbn [Nat.add]. rewrite firstn_length_le by exact Hk. reflexivity.
Qed.

Lemma schedule_state_at m ttls : schedule m ttls = st_sched (state_at m ttls (length ttls)).
Proof. unfold schedule, state_at. rewrite firstn_all. reflexivity. Qed.

(** * What later blocks can add (no well-formedness needed) *)

Lemma insert1_sched m i st e : st_sched (insert1 m i st e) = st_sched st.
Proof.
  unfold insert1. destruct (Nat.ltb (length (st_cache st)) m); [reflexivity|].
  destruct (evict_first (snd e) (st_cache st)) as [[q c']|]; reflexivity.
Qed.

Lemma insert1_cache_in m i st e x :
  In x (map fst (st_cache (insert1 m i st e))) -> In x (map fst (st_cache st)) \/ x = fst e.
Proof.
  unfold insert1. destruct (Nat.ltb (length (st_cache st)) m).
  - cbn [st_cache]. rewrite map_app, in_app_iff. cbn [map In]. intros [H|[H|[]]]; [left; exact H|right; symmetry; exact H].
  - destruct (evict_first (snd e) (st_cache st)) as [[q c']|] eqn:Hev.
    + cbn [st_cache]. rewrite map_app, in_app_iff. cbn [map In].
      destruct (evict_first_spec _ _ _ _ Hev) as (l1 & rq & l2 & Hc & ->).
      intros [H|[H|[]]]; [left|right; symmetry; exact H].
      rewrite Hc. rewrite map_app, in_app_iff in *. cbn [map In]. tauto.
    + intros H. left. exact H.
Qed.

Lemma fold_insert_sched m i blk : forall st,
  st_sched (fold_left (insert1 m i) blk st) = st_sched st.
Proof.
  induction blk as [|e blk IH]; intros st; [reflexivity|].
  cbn [fold_left]. rewrite IH. apply insert1_sched.
Qed.

Lemma fold_insert_cache_in m i blk : forall st x,
  In x (map fst (st_cache (fold_left (insert1 m i) blk st))) ->
  In x (map fst (st_cache st)) \/ In x (map fst blk).
Proof.
  induction blk as [|e blk IH]; intros st x H; [left; exact H|].
  cbn [fold_left] in H. apply IH in H. destruct H as [H|H].
  - apply insert1_cache_in in H. destruct H as [H|H]; [left; exact H|].
    right. left. symmetry. exact H.
  - right. right. exact H.
Qed.

Lemma deadf_fst_in p c : In p (deadf c) -> In p (map fst c).
Proof. intros H. apply in_deadf in H. destruct H as (r & H & _). exact (in_fst _ _ _ H). Qed.

Lemma step_sched_in m i blk st x :
  In x (concat (st_sched (step m i blk st))) ->
  In x (concat (st_sched st)) \/ In x (map fst (st_cache st)).
Proof.
  unfold step. rewrite fold_insert_sched, expire_spec. cbn [st_sched]. intros H.
  apply fold_move_weak in H. destruct H as [H|H]; [right; apply deadf_fst_in; exact H|left; exact H].
Qed.

Lemma step_cache_in m i blk st x :
  In x (map fst (st_cache (step m i blk st))) ->
  In x (map fst (st_cache st)) \/ In x (map fst blk).
Proof.
  unfold step. intros H. apply fold_insert_cache_in in H. destruct H as [H|H]; [left|right; exact H].
  rewrite expire_spec in H. cbn [st_cache] in H. apply keepf_fst_in. exact H.
Qed.

Lemma run_future m : forall blks i st x,
  In x (concat (st_sched (run m i blks st))) ->
  In x (concat (st_sched st)) \/ In x (map fst (st_cache st)) \/ In x (map fst (concat blks)).
Proof.
  induction blks as [|b blks IH]; intros i st x H.
  - left. exact H.
  - cbn [run] in H. apply IH in H. cbn [concat]. rewrite map_app, in_app_iff.
    destruct H as [H|[H|H]].
    + apply step_sched_in in H. tauto.
    + apply step_cache_in in H. tauto.
    + tauto.
Qed.

(** The schedule has one entry per block, whatever the input. *)
Lemma step_sched_length m i blk st :
  length (st_sched (step m i blk st)) = length (st_sched st).
Proof.
  unfold step. rewrite fold_insert_sched, expire_spec. cbn [st_sched]. apply fold_move_length.
Qed.

Lemma run_sched_length m : forall blks i st,
  length (st_sched (run m i blks st)) = length (st_sched st).
Proof.
  induction blks as [|b blks IH]; intros i st; [reflexivity|].
  cbn [run]. rewrite IH. apply step_sched_length.
Qed.

Lemma schedule_length m ttls : length (schedule m ttls) = length ttls.
Proof. unfold schedule. rewrite run_sched_length. cbn [init_state st_sched]. apply repeat_length. Qed.

(** * The loop invariant *)
Section Invariant.
  Variable m : nat.
  Variable ttls : list (list entry).
  Hypothesis Hok : ttl_ok ttls.

  Lemma ttl_uniq i i' p t t' :
    In (p, t) (nth i ttls []) -> In (p, t') (nth i' ttls []) -> i = i' /\ t = t'.
  Proof. apply concat_uniq. exact (proj2 Hok). Qed.

  Lemma ttl_block_nodup i : NoDup (map fst (nth i ttls [])).
  Proof. apply concat_block_nodup. exact (proj2 Hok). Qed.

  Lemma ttl_pos i p t : In (p, t) (nth i ttls []) -> (1 <= t)%Z.
  Proof.
    intros H. destruct Hok as [Hall _]. rewrite Forall_forall in Hall.
    apply (Hall (p, t)). apply (in_nth_concat ttls _ i). exact H.
  Qed.

  Lemma ttl_in_range i p t : In (p, t) (nth i ttls []) -> (i < length ttls)%nat.
  Proof.
    intros H. destruct (Nat.lt_ge_cases i (length ttls)) as [Hlt|Hge]; [exact Hlt|].
    rewrite nth_overflow in H by exact Hge. destruct H.
  Qed.

  (** Entries seen so far: all of blocks [< k], and the prefix [done] of block [k]. *)
  Definition avail (k : nat) (done : list entry) (i : nat) (p : N) (t : Z) : Prop :=
    ((i < k)%nat /\ In (p, t) (nth i ttls [])) \/ (i = k /\ In (p, t) done).

  (** [clk] is the number of decrements applied so far to an entry created in block 0. *)
  Record Inv (k : nat) (done : list entry) (clk : Z) (st : state) : Prop := {
    inv_len : (length (st_cache st) <= m)%nat;
    inv_cache : forall p r, In (p, r) (st_cache st) ->
      exists i t, avail k done i p t /\ r = (t + Z.of_nat i - clk)%Z /\ (1 <= r)%Z /\
                  ch_get p (st_heights st) = i;
    inv_cnd : NoDup (map fst (st_cache st));
    inv_slen : length (st_sched st) = length ttls;
    inv_sched : forall i p, In p (nth i (st_sched st) []) ->
      exists t, avail k done i p t /\ (Z.of_nat i + t <= clk)%Z;
    inv_snd : NoDup (concat (st_sched st));
    inv_sorted : forall j, Sorted N.le (nth j (st_sched st) [])
  }.

  Lemma avail_global k done i p t :
    incl done (nth k ttls []) -> avail k done i p t -> In (p, t) (nth i ttls []).
  Proof. intros Hincl [[_ H]|[-> H]]; [exact H|apply Hincl; exact H]. Qed.

  Lemma avail_mono k done e i p t : avail k done i p t -> avail k (done ++ [e]) i p t.
  Proof.
    intros [H|[H1 H2]]; [left; exact H|right]. split; [exact H1|]. apply in_or_app. left. exact H2.
  Qed.

  Lemma avail_lt k done i p t :
    incl done (nth k ttls []) -> (k < length ttls)%nat \/ done = [] ->
    avail k done i p t -> (i < length ttls)%nat.
  Proof.
    intros Hincl Hk Hav. apply (ttl_in_range i p t). exact (avail_global k done i p t Hincl Hav).
  Qed.

  Lemma Inv_mono k done e clk st : Inv k done clk st -> Inv k (done ++ [e]) clk st.
  Proof.
    intros [H1 H2 H3 H4 H5 H6 H7]. constructor; try assumption.
    - intros p r Hin. destruct (H2 p r Hin) as (i & t & Hav & Hr). exists i, t.
      split; [apply avail_mono; exact Hav|exact Hr].
    - intros i p Hin. destruct (H5 i p Hin) as (t & Hav & Hr). exists t.
      split; [apply avail_mono; exact Hav|exact Hr].
  Qed.

  (** ** Expiry phase *)
  Lemma expire_facts k st :
    Inv k [] (Z.of_nat k - 1) st ->
    let c := st_cache st in let ch := st_heights st in let sch := st_sched st in
    let cs := fold_left move (deadf c) (ch, sch) in
    length (snd cs) = length sch /\
    (forall j x, In x (nth j (snd cs) []) <->
                 In x (nth j sch []) \/ (In x (deadf c) /\ ch_get x ch = j)) /\
    Permutation (concat (snd cs)) (deadf c ++ concat sch) /\
    (forall q, ~ In q (deadf c) -> ch_get q (fst cs) = ch_get q ch) /\
    ((forall j, Sorted N.le (nth j sch [])) -> forall j, Sorted N.le (nth j (snd cs) [])).
  Proof.
    intros HI c ch sch cs. apply fold_move_spec.
    - apply deadf_nodup. exact (inv_cnd _ _ _ _ HI).
    - intros p Hp. apply in_deadf in Hp. destruct Hp as (r & Hin & _).
      destruct (inv_cache _ _ _ _ HI p r Hin) as (i & t & Hav & _ & _ & Hget).
      fold ch in Hget. rewrite Hget. unfold sch. rewrite (inv_slen _ _ _ _ HI).
      apply (avail_lt k [] i p t); [intros x []|right; reflexivity|exact Hav].
  Qed.

  (** A dead entry: its deletion block is exactly [k]. *)
  Lemma dead_entry k st p :
    Inv k [] (Z.of_nat k - 1) st -> In p (deadf (st_cache st)) ->
    exists i t, avail k [] i p t /\ (Z.of_nat i + t = Z.of_nat k)%Z /\
                ch_get p (st_heights st) = i.
  Proof.
    intros HI Hp. apply in_deadf in Hp. destruct Hp as (r & Hin & Hd).
    destruct (inv_cache _ _ _ _ HI p r Hin) as (i & t & Hav & Hr & Hpos & Hget).
    exists i, t. split; [exact Hav|]. split; [|exact Hget].
    rewrite (dec64_pos r Hpos) in Hd. lia.
  Qed.

  Lemma inv_expire k st :
    Inv k [] (Z.of_nat k - 1) st -> Inv k [] (Z.of_nat k) (expire st).
  Proof.
    intros HI. destruct (expire_facts k st HI) as (F1 & F2 & F3 & F4 & F5).
    rewrite expire_spec. constructor; cbn [st_cache st_heights st_sched].
    - eapply Nat.le_trans; [apply keepf_length|exact (inv_len _ _ _ _ HI)].
    - intros p r' Hin. apply in_keepf in Hin. destruct Hin as (r & Hin & Hr' & Hnz).
      destruct (inv_cache _ _ _ _ HI p r Hin) as (i & t & Hav & Hr & Hpos & Hget).
      rewrite (dec64_pos r Hpos) in Hr'. exists i, t. split; [exact Hav|].
      split; [lia|]. split; [lia|]. rewrite F4; [exact Hget|].
      intros Hd. apply in_deadf in Hd. destruct Hd as (r2 & Hin2 & Hd2).
      assert (r2 = r) by exact (nodup_fst_fun _ p r2 r (inv_cnd _ _ _ _ HI) Hin2 Hin).
      subst r2. rewrite (dec64_pos r Hpos) in Hd2. lia.
    - apply keepf_nodup. exact (inv_cnd _ _ _ _ HI).
    - rewrite F1. exact (inv_slen _ _ _ _ HI).
    - intros j x Hx. apply F2 in Hx. destruct Hx as [Hx|[Hx Hg]].
      + destruct (inv_sched _ _ _ _ HI j x Hx) as (t & Hav & Hle). exists t.
        split; [exact Hav|lia].
      + destruct (dead_entry k st x HI Hx) as (i & t & Hav & Hit & Hget).
        rewrite Hg in Hget. subst i. exists t.
        split; [exact Hav|lia].
    - apply (Permutation_NoDup (Permutation_sym F3)). apply NoDup_app_intro.
      + apply deadf_nodup. exact (inv_cnd _ _ _ _ HI).
      + exact (inv_snd _ _ _ _ HI).
      + intros x Hd Hs. destruct (dead_entry k st x HI Hd) as (i & t & Hav & Hit & _).
        apply in_concat_nth in Hs. destruct Hs as [j Hj].
        destruct (inv_sched _ _ _ _ HI j x Hj) as (t' & Hav' & Hle).
        assert (Hnil : incl (@nil entry) (nth k ttls [])) by (intros y []).
        destruct (ttl_uniq i j x t t' (avail_global _ _ _ _ _ Hnil Hav)
                                      (avail_global _ _ _ _ _ Hnil Hav')) as [-> ->].
        lia.
    - apply F5. exact (inv_sorted _ _ _ _ HI).
  Qed.

  (** ** Insertion phase *)
  Lemma inv_add k done p t todo c ch sch c0 ch0 :
    nth k ttls [] = done ++ (p, t) :: todo ->
    Inv k done (Z.of_nat k) (mkState c ch sch) ->
    (forall x, In x c0 -> In x c) -> NoDup (map fst c0) -> (length c0 < m)%nat ->
    (forall p', In p' (map fst c0) -> ch_get p' ch0 = ch_get p' ch) ->
    Inv k (done ++ [(p, t)]) (Z.of_nat k) (mkState (c0 ++ [(p, t)]) (ch_set p k ch0) sch).
  Proof.
    intros Hblk HI Hsub Hnd0 Hlen0 Hch0.
    assert (Hincl : incl done (nth k ttls [])).
    { rewrite Hblk. intros x Hx. apply in_or_app. left. exact Hx. }
    assert (Hpt : In (p, t) (nth k ttls [])).
    { rewrite Hblk. apply in_or_app. right. left. reflexivity. }
    assert (Hfresh : ~ In p (map fst c)).
    { intros Hin. apply in_map_iff in Hin. destruct Hin as [[p0 r] [Heq Hin]].
      cbn [fst] in Heq. subst p0.
      destruct (inv_cache _ _ _ _ HI p r Hin) as (i & t' & Hav & _).
      pose proof (avail_global _ _ _ _ _ Hincl Hav) as Hg.
      destruct (ttl_uniq i k p t' t Hg Hpt) as [-> ->].
      destruct Hav as [[Hlt _]|[_ Hd]]; [lia|].
      pose proof (ttl_block_nodup k) as Hbn. rewrite Hblk, map_app in Hbn.
      apply NoDup_app_inv in Hbn. destruct Hbn as (_ & _ & Hdisj).
      apply (Hdisj p (in_fst _ _ _ Hd)). left. reflexivity. }
    assert (Hsub1 : forall q, In q (map fst c0) -> In q (map fst c)).
    { intros q Hq. apply in_map_iff in Hq. destruct Hq as [[q0 r] [Heq Hin]].
      cbn [fst] in Heq. subst q0. exact (in_fst _ _ _ (Hsub _ Hin)). }
    constructor; cbn [st_cache st_heights st_sched].
    - rewrite app_length. cbn [length]. lia.
    - intros p' r Hin. apply in_app_or in Hin. destruct Hin as [Hin|[Hin|[]]].
      + destruct (inv_cache _ _ _ _ HI p' r (Hsub _ Hin)) as (i & t' & Hav & Hr & Hpos & Hget).
        cbn [st_heights] in Hget.
        exists i, t'. split; [apply avail_mono; exact Hav|]. split; [exact Hr|].
        split; [exact Hpos|]. rewrite ch_get_set_other.
        * rewrite Hch0; [exact Hget|exact (in_fst _ _ _ Hin)].
        * intros ->. apply Hfresh. apply Hsub1. exact (in_fst _ _ _ Hin).
      + inversion Hin; subst p' r. exists k, t. split.
        * right. split; [reflexivity|]. apply in_or_app. right. left. reflexivity.
        * split; [lia|]. split; [exact (ttl_pos k p t Hpt)|]. apply ch_get_set_same.
    - rewrite map_app. cbn [map fst]. apply NoDup_app_intro.
      + exact Hnd0.
      + constructor; [intros []|constructor].
      + intros x Hx [Hx2|[]]. subst x. apply Hfresh. apply Hsub1. exact Hx.
    - exact (inv_slen _ _ _ _ HI).
    - intros i x Hx. destruct (inv_sched _ _ _ _ HI i x Hx) as (t' & Hav & Hle).
      exists t'. split; [apply avail_mono; exact Hav|exact Hle].
    - exact (inv_snd _ _ _ _ HI).
    - exact (inv_sorted _ _ _ _ HI).
  Qed.

  Lemma inv_insert k done e todo st :
    nth k ttls [] = done ++ e :: todo ->
    Inv k done (Z.of_nat k) st -> Inv k (done ++ [e]) (Z.of_nat k) (insert1 m k st e).
  Proof.
    intros Hblk HI. destruct e as [p t]. destruct st as [c ch sch].
    unfold insert1. cbn [st_cache st_heights st_sched fst snd].
    destruct (Nat.ltb (length c) m) eqn:Hlt.
    - apply (inv_add k done p t todo c ch sch c ch Hblk HI).
      + intros x Hx. exact Hx.
      + exact (inv_cnd _ _ _ _ HI).
      + lia.
      + intros p' _. reflexivity.
    - destruct (evict_first t c) as [[q c']|] eqn:Hev.
      + destruct (evict_first_spec _ _ _ _ Hev) as (l1 & rq & l2 & Hc & Hc').
        pose proof (inv_cnd _ _ _ _ HI) as Hnd. cbn [st_cache] in Hnd.
        rewrite Hc, map_app in Hnd. cbn [map fst] in Hnd.
        apply NoDup_remove in Hnd. destruct Hnd as [Hnd Hq]. rewrite <- map_app in Hnd, Hq.
        pose proof (inv_len _ _ _ _ HI) as Hlen. cbn [st_cache] in Hlen.
        rewrite Hc, app_length in Hlen. cbn [length] in Hlen.
        apply (inv_add k done p t todo c ch sch c' (ch_del q ch) Hblk HI).
        * intros x Hx. rewrite Hc. rewrite Hc' in Hx. apply in_app_or in Hx.
          apply in_or_app. destruct Hx as [Hx|Hx]; [left; exact Hx|right; right; exact Hx].
        * rewrite Hc'. exact Hnd.
        * rewrite Hc', app_length. lia.
        * intros p' Hp'. apply ch_get_del_other. intros ->. apply Hq. rewrite <- Hc'. exact Hp'.
      + apply Inv_mono. exact HI.
  Qed.

  Lemma inv_insert_all k todo : forall done st,
    nth k ttls [] = done ++ todo ->
    Inv k done (Z.of_nat k) st ->
    Inv k (done ++ todo) (Z.of_nat k) (fold_left (insert1 m k) todo st).
  Proof.
    induction todo as [|e todo IH]; intros done st Hblk HI.
    - rewrite app_nil_r. exact HI.
    - cbn [fold_left]. replace (done ++ e :: todo) with ((done ++ [e]) ++ todo)
        by (rewrite <- app_assoc; reflexivity).
      apply IH.
      + rewrite <- app_assoc. exact Hblk.
      + apply (inv_insert k done e todo st Hblk HI).
  Qed.

  Lemma inv_shift k clk st : Inv k (nth k ttls []) clk st -> Inv (S k) [] clk st.
  Proof.
    assert (Hav : forall i p t, avail k (nth k ttls []) i p t -> avail (S k) [] i p t).
    { intros i p t [[Hlt Hin]|[-> Hin]]; left; (split; [lia|exact Hin]). }
    intros [H1 H2 H3 H4 H5 H6 H7]. constructor; try assumption.
    - intros p r Hin. destruct (H2 p r Hin) as (i & t & Ha & Hr). exists i, t.
      split; [apply Hav; exact Ha|exact Hr].
    - intros i p Hin. destruct (H5 i p Hin) as (t & Ha & Hr). exists t.
      split; [apply Hav; exact Ha|exact Hr].
  Qed.

  Lemma inv_step k st :
    Inv k [] (Z.of_nat k - 1) st ->
    Inv (S k) [] (Z.of_nat (S k) - 1) (step m k (nth k ttls []) st).
  Proof.
    intros HI. replace (Z.of_nat (S k) - 1)%Z with (Z.of_nat k) by lia.
    apply inv_shift. unfold step.
    apply (inv_insert_all k (nth k ttls []) [] (expire st) eq_refl).
    apply inv_expire. exact HI.
  Qed.

  Lemma inv_init : Inv 0 [] (Z.of_nat 0 - 1) (init_state (length ttls)).
  Proof.
    unfold init_state. constructor; cbn [st_cache st_heights st_sched].
    - cbn [length]. lia.
    - intros p r [].
    - constructor.
    - apply repeat_length.
    - intros i p Hin. rewrite nth_repeat_nil in Hin. destruct Hin.
    - rewrite concat_repeat_nil. constructor.
    - intros j. rewrite nth_repeat_nil. constructor.
  Qed.

  Lemma inv_state_at k :
    (k <= length ttls)%nat -> Inv k [] (Z.of_nat k - 1) (state_at m ttls k).
  Proof.
    induction k as [|k IH]; intros Hk.
    - exact inv_init.
    - rewrite state_at_S by lia. apply inv_step. apply IH. lia.
  Qed.

  (** ** T1 *)
  Lemma sched_subset_proof :
    length (schedule m ttls) = length ttls /\
    (forall i p, In p (nth i (schedule m ttls) []) ->
       exists t, In (p, t) (nth i ttls []) /\
                 (Z.of_nat i + t < Z.of_nat (length ttls))%Z) /\
    NoDup (concat (schedule m ttls)) /\
    (forall i, StronglySorted N.lt (nth i (schedule m ttls) [])).
  Proof.
    pose proof (inv_state_at (length ttls) (Nat.le_refl _)) as HI.
    rewrite schedule_state_at.
    assert (Hnil : incl (@nil entry) (nth (length ttls) ttls [])) by (intros y []).
    split; [exact (inv_slen _ _ _ _ HI)|]. split.
    - intros i p Hin. destruct (inv_sched _ _ _ _ HI i p Hin) as (t & Hav & Hle).
      exists t. split; [exact (avail_global _ _ _ _ _ Hnil Hav)|lia].
    - split; [exact (inv_snd _ _ _ _ HI)|]. intros i. apply sorted_le_lt.
      + apply Sorted_StronglySorted; [intros x y z; apply N.le_trans|].
        exact (inv_sorted _ _ _ _ HI i).
      + apply NoDup_concat_nth. exact (inv_snd _ _ _ _ HI).
  Qed.

  (** ** T2 *)
  (** A finally scheduled entry alive at block [b] is in the cache after block [b]. *)
  Lemma alive_in_cache b i p t :
    (b < length ttls)%nat ->
    In p (nth i (schedule m ttls) []) -> In (p, t) (nth i ttls []) -> alive_at i t b ->
    In p (map fst (st_cache (state_at m ttls (S b)))).
  Proof.
    intros Hb Hs Hin [Hib Hbt].
    pose proof (inv_state_at (S b) Hb) as HI.
    unfold schedule in Hs. rewrite (run_split m ttls (S b)) in Hs by lia.
    apply in_nth_concat, run_future in Hs. destruct Hs as [Hs|[Hs|Hs]].
    - exfalso. apply in_concat_nth in Hs. destruct Hs as [j Hj].
      destruct (inv_sched _ _ _ _ HI j p Hj) as (t' & Hav & Hle).
      assert (Hnil : incl (@nil entry) (nth (S b) ttls [])) by (intros y []).
      destruct (ttl_uniq j i p t' t (avail_global _ _ _ _ _ Hnil Hav) Hin) as [-> ->]. lia.
    - exact Hs.
    - exfalso. apply in_map_iff in Hs. destruct Hs as [[p0 t'] [Heq Hs]]. cbn [fst] in Heq.
      subst p0. apply in_concat_skipn in Hs. destruct Hs as (j & Hj & Hjin).
      destruct (ttl_uniq j i p t' t Hjin Hin) as [-> ->]. lia.
  Qed.

  Lemma sched_memory_proof b (l : list N) :
    NoDup l ->
    (forall p, In p l -> exists i t,
        In p (nth i (schedule m ttls) []) /\ In (p, t) (nth i ttls []) /\ alive_at i t b) ->
    (length l <= m)%nat.
  Proof.
    intros Hnd Hall. destruct (Nat.lt_ge_cases b (length ttls)) as [Hb|Hb].
    - pose proof (inv_state_at (S b) Hb) as HI.
      eapply Nat.le_trans; [|exact (inv_len _ _ _ _ HI)].
      rewrite <- (map_length fst). apply NoDup_incl_length'; [exact Hnd|].
      intros p Hp. destruct (Hall p Hp) as (i & t & Hs & Hin & Hal).
      exact (alive_in_cache b i p t Hb Hs Hin Hal).
    - destruct l as [|p l]; [cbn [length]; lia|]. exfalso.
      destruct (Hall p (or_introl eq_refl)) as (i & t & Hs & Hin & [Hib Hbt]).
      destruct sched_subset_proof as (_ & Hsub & _).
      destruct (Hsub i p Hs) as (t' & Hin' & Hlt).
      destruct (ttl_uniq i i p t t' Hin Hin') as [_ ->]. lia.
  Qed.

  (** ** T3: a cache that never fills *)
  Record Inv3 (k : nat) (done : list entry) (st : state) : Prop := {
    inv3_len : (length (st_cache st) <= length (concat (firstn k ttls)) + length done)%nat;
    inv3_all : forall i p t, avail k done i p t ->
      In p (nth i (st_sched st) []) \/ In p (map fst (st_cache st))
  }.

  Lemma inv3_expire k st :
    Inv k [] (Z.of_nat k - 1) st -> Inv3 k [] st -> Inv3 k [] (expire st).
  Proof.
    intros HI H3. destruct (expire_facts k st HI) as (F1 & F2 & F3 & F4 & F5).
    rewrite expire_spec. constructor; cbn [st_cache st_heights st_sched].
    - eapply Nat.le_trans; [apply keepf_length|exact (inv3_len _ _ _ H3)].
    - intros i p t Hav. destruct (inv3_all _ _ _ H3 i p t Hav) as [Hs|Hc].
      + left. apply F2. left. exact Hs.
      + apply in_map_iff in Hc. destruct Hc as [[p0 r] [Heq Hc]]. cbn [fst] in Heq. subst p0.
        destruct (inv_cache _ _ _ _ HI p r Hc) as (i' & t' & Hav' & Hr & Hpos & Hget).
        assert (Hnil : incl (@nil entry) (nth k ttls [])) by (intros y []).
        destruct (ttl_uniq i' i p t' t (avail_global _ _ _ _ _ Hnil Hav')
                                       (avail_global _ _ _ _ _ Hnil Hav)) as [-> ->].
        destruct (Z.eq_dec (dec64 r) 0) as [Hd|Hd].
        * left. apply F2. right. split; [|exact Hget]. apply in_deadf. exists r.
          split; [exact Hc|exact Hd].
        * right. apply (in_fst _ p (dec64 r)). apply in_keepf. exists r.
          split; [exact Hc|]. split; [reflexivity|exact Hd].
  Qed.

  Lemma inv3_insert k done e todo st :
    (total_entries ttls <= m)%nat -> (k < length ttls)%nat ->
    nth k ttls [] = done ++ e :: todo ->
    Inv3 k done st -> Inv3 k (done ++ [e]) (insert1 m k st e).
  Proof.
    intros Hcap Hk Hblk H3. pose proof (inv3_len _ _ _ H3) as Hlen.
    pose proof (concat_firstn_le ttls k Hk) as Hle. rewrite Hblk, app_length in Hle.
    cbn [length] in Hle. unfold total_entries in Hcap.
    unfold insert1. destruct (Nat.ltb_spec (length (st_cache st)) m) as [Hlt|Hge]; [|lia].
    constructor; cbn [st_cache st_heights st_sched].
    - rewrite !app_length. cbn [length]. lia.
    - intros i p t Hav.
      assert (Hcase : avail k done i p t \/ (p, t) = e).
      { destruct Hav as [Hav|[Hi Hin]]; [left; left; exact Hav|].
        apply in_app_or in Hin. destruct Hin as [Hin|[Hin|[]]].
        - left. right. split; [exact Hi|exact Hin].
        - right. symmetry. exact Hin. }
      rewrite map_app, in_app_iff. destruct Hcase as [Hav'|He].
      + destruct (inv3_all _ _ _ H3 i p t Hav') as [Hs|Hc]; [left; exact Hs|right; left; exact Hc].
      + right. right. subst e. left. reflexivity.
  Qed.

  Lemma inv3_insert_all k todo : forall done st,
    (total_entries ttls <= m)%nat -> (k < length ttls)%nat ->
    nth k ttls [] = done ++ todo ->
    Inv3 k done st -> Inv3 k (done ++ todo) (fold_left (insert1 m k) todo st).
  Proof.
    induction todo as [|e todo IH]; intros done st Hcap Hk Hblk H3.
    - rewrite app_nil_r. exact H3.
    - cbn [fold_left]. replace (done ++ e :: todo) with ((done ++ [e]) ++ todo)
        by (rewrite <- app_assoc; reflexivity).
      apply IH; [exact Hcap|exact Hk| |].
      + rewrite <- app_assoc. exact Hblk.
      + apply (inv3_insert k done e todo st Hcap Hk Hblk H3).
  Qed.

  Lemma inv3_shift k st :
    (k < length ttls)%nat -> Inv3 k (nth k ttls []) st -> Inv3 (S k) [] st.
  Proof.
    intros Hk [H1 H2]. constructor.
    - rewrite (concat_firstn_S ttls k Hk). cbn [length]. lia.
    - intros i p t [[Hlt Hin]|[_ []]]. apply (H2 i p t).
      destruct (Nat.eq_dec i k) as [->|Hne]; [right; split; [reflexivity|exact Hin]|].
      left. split; [lia|exact Hin].
  Qed.

  Lemma inv3_state_at k :
    (total_entries ttls <= m)%nat -> (k <= length ttls)%nat -> Inv3 k [] (state_at m ttls k).
  Proof.
    intros Hcap. induction k as [|k IH]; intros Hk.
    - constructor.
      + cbn. lia.
      + intros i p t [[Hlt _]|[_ []]]. lia.
    - rewrite state_at_S by lia. unfold step. apply inv3_shift; [lia|].
      apply (inv3_insert_all k (nth k ttls []) [] (expire (state_at m ttls k)) Hcap);
        [lia|reflexivity|].
      apply inv3_expire; [apply inv_state_at; lia|apply IH; lia].
  Qed.

  Lemma sched_complete_proof :
    (total_entries ttls <= m)%nat ->
    forall i p t, In (p, t) (nth i ttls []) ->
                  (Z.of_nat i + t < Z.of_nat (length ttls))%Z ->
                  In p (nth i (schedule m ttls) []).
  Proof.
    intros Hcap i p t Hin Hlt.
    pose proof (inv_state_at (length ttls) (Nat.le_refl _)) as HI.
    pose proof (inv3_state_at (length ttls) Hcap (Nat.le_refl _)) as H3.
    rewrite schedule_state_at.
    assert (Hav : avail (length ttls) [] i p t).
    { left. split; [exact (ttl_in_range i p t Hin)|exact Hin]. }
    destruct (inv3_all _ _ _ H3 i p t Hav) as [Hs|Hc]; [exact Hs|]. exfalso.
    apply in_map_iff in Hc. destruct Hc as [[p0 r] [Heq Hc]]. cbn [fst] in Heq. subst p0.
    destruct (inv_cache _ _ _ _ HI p r Hc) as (i' & t' & Hav' & Hr & Hpos & _).
    assert (Hnil : incl (@nil entry) (nth (length ttls) ttls [])) by (intros y []).
    destruct (ttl_uniq i' i p t' t (avail_global _ _ _ _ _ Hnil Hav') Hin) as [-> ->]. lia.
  Qed.

End Invariant.

(** * Decidable well-formedness, comparison function *)

Lemma existsb_eqb_in x l : existsb (N.eqb x) l = true <-> In x l.
Proof.
  rewrite existsb_exists. split.
  - intros (y & Hy & He). apply N.eqb_eq in He. subst y. exact Hy.
  - intros H. exists x. split; [exact H|apply N.eqb_refl].
Qed.

Lemma nodupN_spec l : nodupN l = true <-> NoDup l.
Proof.
  induction l as [|x r IH].
  - split; [constructor|reflexivity].
  - cbn [nodupN]. rewrite andb_true_iff, negb_true_iff, IH. split.
    + intros [Hx Hr]. constructor; [|exact Hr]. intros Hin. apply existsb_eqb_in in Hin.
      rewrite Hin in Hx. discriminate Hx.
    + intros Hnd. inversion Hnd as [|a l Hna Hr]; subst. split; [|exact Hr].
      destruct (existsb (N.eqb x) r) eqn:E; [|reflexivity].
      apply existsb_eqb_in in E. destruct (Hna E).
Qed.

Lemma ttl_okb_spec ttls : ttl_okb ttls = true <-> ttl_ok ttls.
Proof.
  unfold ttl_okb, ttl_ok. rewrite andb_true_iff, nodupN_spec, forallb_forall, Forall_forall.
  split; intros [H1 H2]; (split; [|exact H2]); intros e He; specialize (H1 e He); lia.
Qed.

Lemma list_eqb_spec {A} (eqb : A -> A -> bool) :
  (forall x y, eqb x y = true <-> x = y) ->
  forall l1 l2, list_eqb eqb l1 l2 = true <-> l1 = l2.
Proof.
  intros Heq. induction l1 as [|x r1 IH]; intros [|y r2]; cbn [list_eqb].
  - split; reflexivity.
  - split; discriminate.
  - split; discriminate.
  - rewrite andb_true_iff, Heq, IH. split.
    + intros [-> ->]. reflexivity.
    + intros H. inversion H. split; reflexivity.
Qed.

Lemma check_schedule_spec m ttls impl :
  check_schedule m ttls impl = true <-> impl = schedule m ttls.
Proof.
  unfold check_schedule. apply list_eqb_spec. apply list_eqb_spec. apply N.eqb_eq.
Qed.

(** * The counting form of the memory bound *)

Lemma alive_from_in : forall T Sc i0 b p,
  In p (alive_from i0 b T Sc) ->
  exists j t, In p (nth j Sc []) /\ In (p, t) (nth j T []) /\ alive_at (i0 + j) t b.
Proof.
  induction T as [|blk T IH]; intros Sc i0 b p H; [destruct H|].
  destruct Sc as [|s Sc]; [destruct H|]. cbn [alive_from] in H. apply in_app_or in H.
  destruct H as [H|H].
  - apply filter_In in H. destruct H as [Hs Hal].
    unfold ttl_of in Hal. destruct (find (fun e => N.eqb (fst e) p) blk) as [[q t]|] eqn:F;
      [|discriminate Hal].
    apply find_some in F. destruct F as [Hin Hq]. cbn [fst snd] in Hq, Hal.
    apply N.eqb_eq in Hq. subst q. exists 0%nat, t. cbn [nth].
    split; [exact Hs|]. split; [exact Hin|]. unfold alive_atb in Hal. unfold alive_at. lia.
  - destruct (IH Sc (S i0) b p H) as (j & t & H1 & H2 & H3). exists (S j), t. cbn [nth].
    split; [exact H1|]. split; [exact H2|].
    replace (i0 + S j)%nat with (S i0 + j)%nat by lia. exact H3.
Qed.

Lemma alive_from_nodup : forall T Sc i0 b,
  NoDup (concat Sc) -> NoDup (alive_from i0 b T Sc).
Proof.
  induction T as [|blk T IH]; intros Sc i0 b Hnd; [constructor|].
  destruct Sc as [|s Sc]; [constructor|]. cbn [alive_from]. cbn [concat] in Hnd.
  apply NoDup_app_inv in Hnd. destruct Hnd as (Hs & HS & Hdisj).
  apply NoDup_app_intro.
  - apply NoDup_filter. exact Hs.
  - apply IH. exact HS.
  - intros x Hx Hx2. apply filter_In in Hx. destruct Hx as [Hx _].
    apply alive_from_in in Hx2. destruct Hx2 as (j & t & Hj & _).
    exact (Hdisj x Hx (in_nth_concat Sc x j Hj)).
Qed.

Lemma sched_memory_count_proof m ttls :
  ttl_ok ttls -> forall b, (alive_count ttls (schedule m ttls) b <= m)%nat.
Proof.
  intros Hok b. unfold alive_count. apply (sched_memory_proof m ttls Hok b).
  - apply alive_from_nodup. exact (proj1 (proj2 (proj2 (sched_subset_proof m ttls Hok)))).
  - intros p Hp. apply alive_from_in in Hp. destruct Hp as (j & t & H1 & H2 & H3).
    exists j, t. split; [exact H1|]. split; [exact H2|exact H3].
Qed.

(** [alive_count] does count every scheduled entry alive at [b] (so the bound above is not
    vacuous): a scheduled position of block [i] whose ttl makes it alive at [b] is in the list. *)
Lemma alive_from_complete : forall T Sc i0 b j p t,
  NoDup (map fst (nth j T [])) ->
  In p (nth j Sc []) -> In (p, t) (nth j T []) -> alive_at (i0 + j) t b ->
  In p (alive_from i0 b T Sc).
Proof.
  induction T as [|blk T IH]; intros Sc i0 b j p t Hnd Hs Hin Hal.
  - destruct j; destruct Hin.
  - destruct Sc as [|s Sc]; [destruct j; destruct Hs|]. cbn [alive_from]. apply in_or_app.
    destruct j as [|j]; cbn [nth] in Hnd, Hs, Hin.
    + left. apply filter_In. split; [exact Hs|]. unfold ttl_of.
      destruct (find (fun e => N.eqb (fst e) p) blk) as [[q t']|] eqn:F.
      * apply find_some in F. destruct F as [Hin' Hq]. cbn [fst snd] in *.
        apply N.eqb_eq in Hq. subst q.
        assert (t' = t) by exact (nodup_fst_fun blk p t' t Hnd Hin' Hin). subst t'.
        unfold alive_at in Hal. unfold alive_atb. lia.
      * exfalso. pose proof (find_none _ _ F (p, t) Hin) as Hn. cbn [fst] in Hn.
        rewrite N.eqb_refl in Hn. discriminate Hn.
    + right. apply (IH Sc (S i0) b j p t Hnd Hs Hin).
      replace (S i0 + j)%nat with (i0 + S j)%nat by lia. exact Hal.
Qed.

(** * Hand-traced tests of the mirror (see the report for the Go traces) *)

(** [ent p t] is the entry [{pos: p, ttl: t}] (only there to get the number scopes right). *)
Definition ent (p : N) (t : Z) : N * Z := (p, t).

(* cache of 2 fills in block 0; in block 1 (12,1) replaces the first entry with a larger ttl,
   which is (10,2); 10 is therefore never scheduled *)
Example test_replace :
  schedule 2 [[ent 10 3; ent 11 5]; [ent 12 1]; [ent 13 2]; []; []; []]
  = [[11]; [12]; [13]; []; []; []]%N.
Proof. vm_compute. reflexivity. Qed.

(* position 2 outlives the recording (0 + 9 >= 3) and is never scheduled *)
Example test_outlive :
  schedule 3 [[ent 1 2; ent 2 9]; [ent 3 1]; []] = [[1]; [3]; []]%N.
Proof. vm_compute. reflexivity. Qed.

Example test_zero_memory :
  schedule 0 [[ent 1 2; ent 2 9]; [ent 3 1]; []] = [[]; []; []].
Proof. vm_compute. reflexivity. Qed.

(* malformed input: duplicate position 5 and a ttl of 0.  Block 1: both (5,_) entries are
   decremented; the first reaches 0, is scheduled at createHeights[5] = 0 and the key is deleted.
   (7,0) enters with ttl 0, becomes -1 in block 2 and stays in the cache forever.  Block 2: the
   second (5,_) entry reaches 0; its key is gone, so it is scheduled at height 0 (Go zero value). *)
Example test_malformed :
  schedule 3 [[ent 5 1; ent 5 2]; [ent 7 0]; []; []] = [[5; 5]; []; []; []]%N.
Proof. vm_compute. reflexivity. Qed.
