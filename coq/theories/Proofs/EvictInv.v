(** Invariants of the eviction loop mirror [Model.Evict] and the three C15 theorems. *)
From Coq Require Import NArith ZArith List Bool Permutation Sorted.
From Coq Require Import Lia ZifyN ZifyNat ZifyBool.
From Utreexo Require Import Model.Evict.
Import ListNotations.

(** * Generic list facts *)

Lemma NoDup_app_inv {A} (l1 l2 : list A) :
  NoDup (l1 ++ l2) -> NoDup l1 /\ NoDup l2 /\ (forall x, In x l1 -> ~ In x l2).
Proof.
  induction l1 as [|a l1 IH]; intros Hnd.
  - split; [constructor|]. split; [exact Hnd|]. intros x [].
  - cbn [app] in Hnd. inversion Hnd as [|a' l' Hna Hnd' Heq]; subst.
    destruct (IH Hnd') as (H1 & H2 & H3).
    split.
    + constructor; [|exact H1]. intros Hin. apply Hna. apply in_or_app. left. exact Hin.
    + split; [exact H2|]. intros x [Hx|Hx] Hx2.
      * subst x. apply Hna. apply in_or_app. right. exact Hx2.
      * exact (H3 x Hx Hx2).
Qed.

Lemma NoDup_app_intro {A} (l1 l2 : list A) :
  NoDup l1 -> NoDup l2 -> (forall x, In x l1 -> ~ In x l2) -> NoDup (l1 ++ l2).
Proof.
  induction l1 as [|a l1 IH]; intros H1 H2 H3.
  - exact H2.
  - cbn [app]. inversion H1 as [|a' l' Hna Hnd' Heq]; subst.
    constructor.
    + intros Hin. apply in_app_or in Hin. destruct Hin as [Hin|Hin].
      * exact (Hna Hin).
      * exact (H3 a (or_introl eq_refl) Hin).
    + apply IH; [exact Hnd'|exact H2|]. intros x Hx. apply H3. right. exact Hx.
Qed.

Lemma in_concat_nth {A} (L : list (list A)) (x : A) :
  In x (concat L) <-> exists j, In x (nth j L []).
Proof.
  induction L as [|a L IH].
  - cbn [concat]. split; [intros []|]. intros [j Hj]. destruct j; exact Hj.
  - cbn [concat]. rewrite in_app_iff, IH. split.
    + intros [Hx|[j Hj]]; [exists 0%nat; exact Hx|exists (S j); exact Hj].
    + intros [[|j] Hj]; [left; exact Hj|right; exists j; exact Hj].
Qed.

Lemma in_nth_concat {A} (L : list (list A)) (x : A) j :
  In x (nth j L []) -> In x (concat L).
Proof. intros H. apply in_concat_nth. exists j. exact H. Qed.

Lemma NoDup_concat_nth {A} (L : list (list A)) j :
  NoDup (concat L) -> NoDup (nth j L []).
Proof.
  revert j. induction L as [|a L IH]; intros j Hnd.
  - destruct j; constructor.
  - cbn [concat] in Hnd. apply NoDup_app_inv in Hnd. destruct Hnd as (H1 & H2 & _).
    destruct j as [|j]; [exact H1|]. cbn [nth]. apply IH. exact H2.
Qed.

Lemma firstn_S_nth {A} (l : list A) (k : nat) (d : A) :
  (k < length l)%nat -> firstn (S k) l = firstn k l ++ [nth k l d].
Proof.
  revert k. induction l as [|a l IH]; intros k Hk.
  - cbn [length] in Hk. lia.
  - destruct k as [|k].
    + reflexivity.
    + cbn [length] in Hk. change (firstn (S (S k)) (a :: l)) with (a :: firstn (S k) l).
      rewrite (IH k) by lia. reflexivity.
Qed.

Lemma in_concat_skipn {A} (L : list (list A)) k (x : A) :
  In x (concat (skipn k L)) -> exists j, (k <= j)%nat /\ In x (nth j L []).
Proof.
  revert k. induction L as [|a L IH]; intros k Hin.
  - destruct k; destruct Hin.
  - destruct k as [|k].
    + cbn [skipn] in Hin. apply in_concat_nth in Hin. destruct Hin as [j Hj].
      exists j. split; [lia|exact Hj].
    + cbn [skipn] in Hin. destruct (IH k Hin) as (j & Hkj & Hj).
      exists (S j). split; [lia|exact Hj].
Qed.

Lemma concat_firstn_le {A} (L : list (list A)) k :
  (k < length L)%nat ->
  (length (concat (firstn k L)) + length (nth k L []) <= length (concat L))%nat.
Proof.
  revert k. induction L as [|a L IH]; intros k Hk.
  - cbn [length] in Hk. lia.
  - destruct k as [|k].
    + cbn [firstn concat nth length]. rewrite app_length. lia.
    + cbn [length] in Hk. cbn [firstn concat nth]. rewrite !app_length.
      specialize (IH k). lia.
Qed.

Lemma concat_firstn_S {A} (L : list (list A)) k :
  (k < length L)%nat ->
  length (concat (firstn (S k) L)) = (length (concat (firstn k L)) + length (nth k L []))%nat.
Proof.
  intros Hk. rewrite (firstn_S_nth L k []) by exact Hk.
  rewrite concat_app, app_length. cbn [concat]. rewrite app_nil_r. reflexivity.
Qed.

(** A duplicate-free list whose elements all lie in [l2] is no longer than [l2]. *)
Lemma NoDup_incl_length' {A} (l1 l2 : list A) :
  NoDup l1 -> (forall x, In x l1 -> In x l2) -> (length l1 <= length l2)%nat.
Proof. intros H1 H2. apply NoDup_incl_length; [exact H1|exact H2]. Qed.

(** * Sorting *)

Lemma ins_perm x l : Permutation (ins x l) (x :: l).
Proof.
  induction l as [|y r IH].
  - apply Permutation_refl.
  - cbn [ins]. destruct (N.leb x y).
    + apply Permutation_refl.
    + eapply perm_trans; [apply perm_skip; exact IH|apply perm_swap].
Qed.

Lemma isort_perm l : Permutation (isort l) l.
Proof.
  induction l as [|x r IH].
  - apply Permutation_refl.
  - cbn [isort]. eapply perm_trans; [apply ins_perm|apply perm_skip; exact IH].
Qed.

Lemma sort_append_perm p l : Permutation (sort_append p l) (p :: l).
Proof.
  unfold sort_append. eapply perm_trans; [apply isort_perm|].
  apply Permutation_sym. apply Permutation_cons_append.
Qed.

Lemma sort_append_in p l x : In x (sort_append p l) <-> x = p \/ In x l.
Proof.
  split.
  - intros H. apply (Permutation_in _ (sort_append_perm p l)) in H.
    destruct H as [H|H]; [left; symmetry; exact H|right; exact H].
  - intros H. apply (Permutation_in _ (Permutation_sym (sort_append_perm p l))).
    destruct H as [H|H]; [left; symmetry; exact H|right; exact H].
Qed.

Lemma ins_hdrel a x l : N.le a x -> HdRel N.le a l -> HdRel N.le a (ins x l).
Proof.
  intros Hax Hl. destruct l as [|y r].
  - constructor. exact Hax.
  - cbn [ins]. destruct (N.leb x y).
    + constructor. exact Hax.
    + constructor. inversion Hl; subst. assumption.
Qed.

Lemma ins_sorted x l : Sorted N.le l -> Sorted N.le (ins x l).
Proof.
  induction l as [|y r IH]; intros Hs.
  - repeat constructor.
  - cbn [ins]. destruct (N.leb x y) eqn:Hxy.
    + constructor; [exact Hs|]. constructor. lia.
    + inversion Hs as [|y' r' Hsr Hhd]; subst.
      constructor; [apply IH; exact Hsr|].
      apply ins_hdrel; [lia|exact Hhd].
Qed.

Lemma isort_sorted l : Sorted N.le (isort l).
Proof.
  induction l as [|x r IH]; [constructor|]. cbn [isort]. apply ins_sorted. exact IH.
Qed.

Lemma sort_append_sorted p l : Sorted N.le (sort_append p l).
Proof. apply isort_sorted. Qed.

Lemma sorted_le_lt (l : list N) : StronglySorted N.le l -> NoDup l -> StronglySorted N.lt l.
Proof.
  induction l as [|a l IH]; intros Hs Hnd; [constructor|].
  inversion Hs as [|a' l' Hsl Hfa]; subst. inversion Hnd as [|a' l' Hna Hndl]; subst.
  constructor; [apply IH; assumption|].
  rewrite Forall_forall in *. intros x Hx. specialize (Hfa x Hx).
  assert (x <> a) by (intros ->; exact (Hna Hx)). lia.
Qed.

(** * The association list *)

Lemma ch_get_del_other p q ch : q <> p -> ch_get q (ch_del p ch) = ch_get q ch.
Proof.
  intros Hne. induction ch as [|[k v] r IH]; [reflexivity|].
  cbn [ch_del ch_get]. destruct (N.eqb k p) eqn:Hkp.
  - destruct (N.eqb k q) eqn:Hkq; [lia|exact IH].
  - cbn [ch_get]. destruct (N.eqb k q); [reflexivity|exact IH].
Qed.

Lemma ch_get_set_same p v ch : ch_get p (ch_set p v ch) = v.
Proof. unfold ch_set. cbn [ch_get]. rewrite N.eqb_refl. reflexivity. Qed.

Lemma ch_get_set_other p q v ch : q <> p -> ch_get q (ch_set p v ch) = ch_get q ch.
Proof.
  intros Hne. unfold ch_set. cbn [ch_get]. destruct (N.eqb p q) eqn:Hpq; [lia|].
  apply ch_get_del_other. exact Hne.
Qed.

(** * upd_nth *)

Lemma upd_nth_length f h l : length (upd_nth f h l) = length l.
Proof.
  revert h. induction l as [|x r IH]; intros h; [reflexivity|].
  destruct h; cbn [upd_nth length]; [reflexivity|]. rewrite IH. reflexivity.
Qed.

Lemma upd_nth_same f h l : (h < length l)%nat -> nth h (upd_nth f h l) [] = f (nth h l []).
Proof.
  revert h. induction l as [|x r IH]; intros h Hh; [cbn [length] in Hh; lia|].
  destruct h; cbn [upd_nth nth]; [reflexivity|]. apply IH. cbn [length] in Hh. lia.
Qed.

Lemma upd_nth_other f h j l : j <> h -> nth j (upd_nth f h l) [] = nth j l [].
Proof.
  revert h j. induction l as [|x r IH]; intros h j Hne; [reflexivity|].
  destruct h; destruct j; cbn [upd_nth nth]; try reflexivity; try lia.
  apply IH. lia.
Qed.

Lemma upd_nth_in p h l j x : (h < length l)%nat ->
  In x (nth j (upd_nth (sort_append p) h l) []) <-> In x (nth j l []) \/ (x = p /\ j = h).
Proof.
  intros Hh. destruct (Nat.eq_dec j h) as [->|Hne].
  - rewrite upd_nth_same by exact Hh. rewrite sort_append_in. tauto.
  - rewrite upd_nth_other by exact Hne. split; [tauto|]. intros [H|[_ H]]; [exact H|lia].
Qed.

Lemma upd_nth_perm p h l : (h < length l)%nat ->
  Permutation (concat (upd_nth (sort_append p) h l)) (p :: concat l).
Proof.
  revert h. induction l as [|x r IH]; intros h Hh; [cbn [length] in Hh; lia|].
  destruct h as [|h]; cbn [upd_nth concat].
  - change (p :: x ++ concat r) with ((p :: x) ++ concat r).
    apply Permutation_app_tail. apply sort_append_perm.
  - cbn [length] in Hh. eapply perm_trans.
    + apply Permutation_app_head. apply IH. lia.
    + apply Permutation_sym. apply Permutation_middle.
Qed.

(** Unconditional (index possibly out of range). *)
Lemma upd_nth_in_weak p h l x :
  In x (concat (upd_nth (sort_append p) h l)) -> x = p \/ In x (concat l).
Proof.
  revert h. induction l as [|y r IH]; intros h Hin; [destruct Hin|].
  destruct h as [|h]; cbn [upd_nth concat] in *; rewrite in_app_iff in *.
  - destruct Hin as [Hin|Hin]; [|tauto]. apply sort_append_in in Hin. tauto.
  - destruct Hin as [Hin|Hin]; [tauto|]. apply IH in Hin. tauto.
Qed.

Lemma upd_nth_sorted p h l :
  (forall j, Sorted N.le (nth j l [])) ->
  forall j, Sorted N.le (nth j (upd_nth (sort_append p) h l) []).
Proof.
  intros Hs j. destruct (Nat.eq_dec j h) as [->|Hne].
  - destruct (Nat.lt_ge_cases h (length l)) as [Hlt|Hge].
    + rewrite upd_nth_same by exact Hlt. apply sort_append_sorted.
    + rewrite nth_overflow; [constructor|]. rewrite upd_nth_length. exact Hge.
  - rewrite upd_nth_other by exact Hne. apply Hs.
Qed.

(** * The expiry loop: closed form *)

Definition dec_entry (e : entry) : entry := (fst e, dec64 (snd e)).
Definition keepf (c : list entry) : list entry :=
  filter (fun e => negb (Z.eqb (snd e) 0)) (map dec_entry c).
Definition deadf (c : list entry) : list N :=
  map fst (filter (fun e => Z.eqb (dec64 (snd e)) 0) c).
Definition move (cs : list (N * nat) * list (list N)) (p : N)
  : list (N * nat) * list (list N) :=
  (ch_del p (fst cs), upd_nth (sort_append p) (ch_get p (fst cs)) (snd cs)).

Lemma deadf_cons_dead p r (c : list entry) : Z.eqb (dec64 r) 0 = true -> deadf ((p, r) :: c) = p :: deadf c.
Proof. intros E. unfold deadf. cbn [filter snd]. rewrite E. reflexivity. Qed.
Lemma deadf_cons_live p r (c : list entry) : Z.eqb (dec64 r) 0 = false -> deadf ((p, r) :: c) = deadf c.
Proof. intros E. unfold deadf. cbn [filter snd]. rewrite E. reflexivity. Qed.
Lemma keepf_cons_dead p r (c : list entry) : Z.eqb (dec64 r) 0 = true -> keepf ((p, r) :: c) = keepf c.
Proof.
  intros E. unfold keepf. cbn [map filter]. unfold dec_entry at 1. cbn [fst snd].
  rewrite E. reflexivity.
Qed.
Lemma keepf_cons_live p r (c : list entry) :
  Z.eqb (dec64 r) 0 = false -> keepf ((p, r) :: c) = (p, dec64 r) :: keepf c.
Proof.
  intros E. unfold keepf. cbn [map filter]. unfold dec_entry at 1. cbn [fst snd].
  rewrite E. reflexivity.
Qed.

Lemma expire_loop_spec todo : forall kept ch sch,
  expire_loop todo kept ch sch =
  mkState (rev kept ++ keepf todo)
          (fst (fold_left move (deadf todo) (ch, sch)))
          (snd (fold_left move (deadf todo) (ch, sch))).
Proof.
  induction todo as [|[p r] todo IH]; intros kept ch sch.
  - cbn [expire_loop]. unfold keepf, deadf. cbn [map filter fold_left fst snd].
    rewrite app_nil_r. reflexivity.
  - cbn [expire_loop]. destruct (Z.eqb (dec64 r) 0) eqn:E.
    + rewrite IH. rewrite (deadf_cons_dead p r todo E), (keepf_cons_dead p r todo E).
      reflexivity.
    + rewrite IH. rewrite (deadf_cons_live p r todo E), (keepf_cons_live p r todo E).
      cbn [rev]. rewrite <- app_assoc. reflexivity.
Qed.

Lemma expire_spec st :
  expire st =
  mkState (keepf (st_cache st))
          (fst (fold_left move (deadf (st_cache st)) (st_heights st, st_sched st)))
          (snd (fold_left move (deadf (st_cache st)) (st_heights st, st_sched st))).
Proof. unfold expire. rewrite expire_loop_spec. reflexivity. Qed.

Lemma in_keepf p r' c :
  In (p, r') (keepf c) <-> exists r, In (p, r) c /\ r' = dec64 r /\ r' <> 0%Z.
Proof.
  unfold keepf. rewrite filter_In, in_map_iff. cbn [snd]. split.
  - intros [[[q r] [Heq Hin]] Hnz]. unfold dec_entry in Heq. cbn [fst snd] in Heq.
    inversion Heq; subst. exists r. split; [exact Hin|]. split; [reflexivity|]. lia.
  - intros (r & Hin & -> & Hnz). split; [|lia]. exists (p, r). split; [reflexivity|exact Hin].
Qed.

Lemma in_deadf p c : In p (deadf c) <-> exists r, In (p, r) c /\ dec64 r = 0%Z.
Proof.
  unfold deadf. rewrite in_map_iff. split.
  - intros [[q r] [Heq Hin]]. cbn [fst] in Heq. subst q. apply filter_In in Hin.
    cbn [snd] in Hin. exists r. split; [tauto|lia].
  - intros (r & Hin & Hd). exists (p, r). split; [reflexivity|]. apply filter_In.
    cbn [snd]. split; [exact Hin|lia].
Qed.

Lemma keepf_fst_in p c : In p (map fst (keepf c)) -> In p (map fst c).
Proof.
  intros H. apply in_map_iff in H. destruct H as [[q r'] [Heq Hin]]. cbn [fst] in Heq. subst q.
  apply in_keepf in Hin. destruct Hin as (r & Hin & _). apply in_map_iff.
  exists (p, r). split; [reflexivity|exact Hin].
Qed.

Lemma keepf_length c : (length (keepf c) <= length c)%nat.
Proof.
  induction c as [|[p r] c IH]; [cbn; lia|].
  destruct (Z.eqb (dec64 r) 0) eqn:E.
  - rewrite (keepf_cons_dead p r c E). cbn [length]. lia.
  - rewrite (keepf_cons_live p r c E). cbn [length]. lia.
Qed.

Lemma keepf_nodup c : NoDup (map fst c) -> NoDup (map fst (keepf c)).
Proof.
  induction c as [|[p r] c IH]; intros Hnd.
  - constructor.
  - cbn [map fst] in Hnd. inversion Hnd as [|a l Hna Hnd' Heq]; subst.
    destruct (Z.eqb (dec64 r) 0) eqn:E.
    + rewrite (keepf_cons_dead p r c E). apply IH. exact Hnd'.
    + rewrite (keepf_cons_live p r c E). cbn [map fst]. constructor; [|apply IH; exact Hnd'].
      intros Hin. apply Hna. apply keepf_fst_in. exact Hin.
Qed.

Lemma deadf_nodup c : NoDup (map fst c) -> NoDup (deadf c).
Proof.
  induction c as [|[p r] c IH]; intros Hnd.
  - constructor.
  - cbn [map fst] in Hnd. inversion Hnd as [|a l Hna Hnd' Heq]; subst.
    destruct (Z.eqb (dec64 r) 0) eqn:E.
    + rewrite (deadf_cons_dead p r c E). constructor; [|apply IH; exact Hnd'].
      intros Hin. apply Hna. apply in_deadf in Hin. destruct Hin as (r0 & Hin & _).
      apply in_map_iff. exists (p, r0). split; [reflexivity|exact Hin].
    + rewrite (deadf_cons_live p r c E). apply IH. exact Hnd'.
Qed.

(** The effect of moving a duplicate-free list of positions into the schedule. *)
Lemma fold_move_spec dead : forall ch sch,
  NoDup dead ->
  (forall p, In p dead -> (ch_get p ch < length sch)%nat) ->
  length (snd (fold_left move dead (ch, sch))) = length sch /\
  (forall j x, In x (nth j (snd (fold_left move dead (ch, sch))) []) <->
               In x (nth j sch []) \/ (In x dead /\ ch_get x ch = j)) /\
  Permutation (concat (snd (fold_left move dead (ch, sch)))) (dead ++ concat sch) /\
  (forall q, ~ In q dead -> ch_get q (fst (fold_left move dead (ch, sch))) = ch_get q ch) /\
  ((forall j, Sorted N.le (nth j sch [])) ->
   forall j, Sorted N.le (nth j (snd (fold_left move dead (ch, sch))) [])).
Proof.
  induction dead as [|p rest IH]; intros ch sch Hnd Hrange.
  - cbn [fold_left fst snd]. split; [reflexivity|]. split.
    + intros j x. split; [tauto|]. intros [H|[[] _]]. exact H.
    + split; [apply Permutation_refl|]. split; [reflexivity|]. intros H; exact H.
  - inversion Hnd as [|a l Hnp Hnd' Heq]; subst.
    cbn [fold_left].
    change (move (ch, sch) p) with (ch_del p ch, upd_nth (sort_append p) (ch_get p ch) sch).
    set (ch1 := ch_del p ch). set (sch1 := upd_nth (sort_append p) (ch_get p ch) sch).
    assert (Hp : (ch_get p ch < length sch)%nat) by (apply Hrange; left; reflexivity).
    assert (Hlen1 : length sch1 = length sch) by apply upd_nth_length.
    assert (Hget1 : forall q, q <> p -> ch_get q ch1 = ch_get q ch)
      by (intros q Hq; apply ch_get_del_other; exact Hq).
    assert (Hrange1 : forall q, In q rest -> (ch_get q ch1 < length sch1)%nat).
    { intros q Hq. rewrite Hlen1, Hget1; [apply Hrange; right; exact Hq|].
      intros ->. exact (Hnp Hq). }
    destruct (IH ch1 sch1 Hnd' Hrange1) as (I1 & I2 & I3 & I4 & I5).
    split; [rewrite I1; exact Hlen1|]. split.
    { intros j x. rewrite I2. unfold sch1. rewrite upd_nth_in by exact Hp. split.
      - intros [[H|[-> <-]]|[Hx Hg]].
        + left; exact H.
        + right. split; [left; reflexivity|reflexivity].
        + right. split; [right; exact Hx|]. rewrite <- Hg. symmetry. apply Hget1.
          intros ->. exact (Hnp Hx).
      - intros [H|[[<-|Hx] Hg]].
        + left; left; exact H.
        + left; right. split; [reflexivity|symmetry; exact Hg].
        + right. split; [exact Hx|]. rewrite <- Hg. apply Hget1. intros ->. exact (Hnp Hx). }
    split.
    { eapply perm_trans; [exact I3|]. cbn [app]. eapply perm_trans.
      - apply Permutation_app_head. unfold sch1. apply upd_nth_perm. exact Hp.
      - apply Permutation_sym. apply Permutation_middle. }
    split.
    { intros q Hq. rewrite I4 by (intros H; apply Hq; right; exact H).
      apply Hget1. intros ->. apply Hq. left. reflexivity. }
    intros Hs. apply I5. unfold sch1. apply upd_nth_sorted. exact Hs.
Qed.

(** Unconditional bound on what [fold_left move] can add to the schedule. *)
Lemma fold_move_weak dead : forall ch sch x,
  In x (concat (snd (fold_left move dead (ch, sch)))) -> In x dead \/ In x (concat sch).
Proof.
  induction dead as [|p rest IH]; intros ch sch x Hin.
  - right. exact Hin.
  - cbn [fold_left] in Hin. unfold move at 2 in Hin. cbn [fst snd] in Hin.
    apply IH in Hin. destruct Hin as [Hin|Hin].
    + left. right. exact Hin.
    + apply upd_nth_in_weak in Hin. destruct Hin as [->|Hin].
      * left. left. reflexivity.
      * right. exact Hin.
Qed.

Lemma fold_move_length dead : forall ch sch,
  length (snd (fold_left move dead (ch, sch))) = length sch.
Proof.
  induction dead as [|p rest IH]; intros ch sch; [reflexivity|].
  cbn [fold_left]. unfold move at 2. cbn [fst snd]. rewrite IH. apply upd_nth_length.
Qed.

(** * Facts about well-formed inputs *)

Lemma nodup_fst_fun {B} (l : list (N * B)) p t t' :
  NoDup (map fst l) -> In (p, t) l -> In (p, t') l -> t = t'.
Proof.
  induction l as [|[q s] l IH]; intros Hnd H1 H2; [destruct H1|].
  cbn [map fst] in Hnd. inversion Hnd as [|a l' Hna Hnd' Heq]; subst.
  assert (Hfst : forall u, In (q, u) l -> False).
  { intros u Hu. apply Hna. apply in_map_iff. exists (q, u). split; [reflexivity|exact Hu]. }
  destruct H1 as [H1|H1]; destruct H2 as [H2|H2].
  - inversion H1; inversion H2; subst. reflexivity.
  - inversion H1; subst. destruct (Hfst _ H2).
  - inversion H2; subst. destruct (Hfst _ H1).
  - exact (IH Hnd' H1 H2).
Qed.

Lemma in_fst {B} (l : list (N * B)) p t : In (p, t) l -> In p (map fst l).
Proof. intros H. apply in_map_iff. exists (p, t). split; [reflexivity|exact H]. Qed.

Lemma concat_uniq (L : list (list entry)) :
  NoDup (map fst (concat L)) ->
  forall i i' p t t', In (p, t) (nth i L []) -> In (p, t') (nth i' L []) -> i = i' /\ t = t'.
Proof.
  induction L as [|a L IH]; intros Hnd i i' p t t' H1 H2.
  - destruct i; destruct H1.
  - cbn [concat] in Hnd. rewrite map_app in Hnd. apply NoDup_app_inv in Hnd.
    destruct Hnd as (Ha & HL & Hdisj).
    destruct i as [|i]; destruct i' as [|i']; cbn [nth] in H1, H2.
    + split; [reflexivity|]. exact (nodup_fst_fun a p t t' Ha H1 H2).
    + exfalso. apply (Hdisj p (in_fst _ _ _ H1)).
      apply (in_fst _ p t'). apply (in_nth_concat L _ i'). exact H2.
    + exfalso. apply (Hdisj p (in_fst _ _ _ H2)).
      apply (in_fst _ p t). apply (in_nth_concat L _ i). exact H1.
    + destruct (IH HL i i' p t t' H1 H2) as [-> ->]. split; reflexivity.
Qed.

Lemma concat_block_nodup (L : list (list entry)) i :
  NoDup (map fst (concat L)) -> NoDup (map fst (nth i L [])).
Proof.
  revert i. induction L as [|a L IH]; intros i Hnd.
  - destruct i; constructor.
  - cbn [concat] in Hnd. rewrite map_app in Hnd. apply NoDup_app_inv in Hnd.
    destruct Hnd as (Ha & HL & _). destruct i as [|i]; [exact Ha|]. cbn [nth]. apply IH. exact HL.
Qed.

Lemma dec64_pos r : (1 <= r)%Z -> dec64 r = (r - 1)%Z.
Proof.
  intros H. unfold dec64. destruct (Z.eqb_spec r min_int64) as [->|_]; [|reflexivity].
  unfold min_int64 in H. lia.
Qed.

Lemma nth_repeat_nil {A} j n : nth j (repeat (@nil A) n) [] = [].
Proof. revert j. induction n as [|n IH]; intros [|j]; cbn [repeat nth]; try reflexivity. apply IH. Qed.

Lemma concat_repeat_nil {A} n : concat (repeat (@nil A) n) = [].
Proof. induction n as [|n IH]; [reflexivity|]. cbn [repeat concat app]. exact IH. Qed.

(** * evict_first *)
Lemma evict_first_spec t c : forall q c',
  evict_first t c = Some (q, c') ->
  exists l1 rq l2, c = l1 ++ (q, rq) :: l2 /\ c' = l1 ++ l2.
Proof.
  induction c as [|[p r] c IH]; intros q c' H; [discriminate H|].
  cbn [evict_first] in H. destruct (Z.ltb t r).
  - inversion H; subst. exists [], r, c'. split; reflexivity.
  - destruct (evict_first t c) as [[q0 c0]|]; [|discriminate H].
    inversion H; subst. destruct (IH q c0 eq_refl) as (l1 & rq & l2 & -> & ->).
    exists ((p, r) :: l1), rq, l2. split; reflexivity.
Qed.

(** * run *)
Lemma run_app m : forall l1 l2 i st,
  run m i (l1 ++ l2) st = run m (i + length l1) l2 (run m i l1 st).
Proof.
  induction l1 as [|b l1 IH]; intros l2 i st.
  - cbn [app length run]. rewrite Nat.add_0_r. reflexivity.
  - cbn [app length run]. rewrite IH. replace (S i + length l1)%nat with (i + S (length l1))%nat by lia.
    reflexivity.
Qed.

Lemma state_at_S m ttls k : (k < length ttls)%nat ->
  state_at m ttls (S k) = step m k (nth k ttls []) (state_at m ttls k).
Proof.
  intros Hk. unfold state_at. rewrite (firstn_S_nth ttls k []) by exact Hk.
  rewrite run_app. cbn [run Nat.add]. rewrite firstn_length_le by lia. reflexivity.
Qed.

Lemma run_split m ttls k : (k <= length ttls)%nat ->
  run m 0 ttls (init_state (length ttls)) = run m k (skipn k ttls) (state_at m ttls k).
Proof.
  intros Hk. unfold state_at.
  transitivity (run m 0 (firstn k ttls ++ skipn k ttls) (init_state (length ttls))).
  - rewrite firstn_skipn. reflexivity.
  - rewrite run_app. cbn [Nat.add]. rewrite firstn_length_le by exact Hk. reflexivity.
Qed.

Lemma schedule_state_at m ttls : schedule m ttls = st_sched (state_at m ttls (length ttls)).
Proof. unfold schedule, state_at. rewrite firstn_all. reflexivity. Qed.

(** * What later blocks can add (no well-formedness needed) *)

Lemma insert1_sched m i st e : st_sched (insert1 m i st e) = st_sched st.
Proof.
  unfold insert1. destruct (Nat.ltb (length (st_cache st)) m); [reflexivity|].
  destruct (evict_first (snd e) (st_cache st)) as [[q c']|]; reflexivity.
Qed.

Lemma insert1_cache_in m i st e x :
  In x (map fst (st_cache (insert1 m i st e))) -> In x (map fst (st_cache st)) \/ x = fst e.
Proof.
  unfold insert1. destruct (Nat.ltb (length (st_cache st)) m).
  - cbn [st_cache]. rewrite map_app, in_app_iff. cbn [map In]. intros [H|[H|[]]]; [left; exact H|right; symmetry; exact H].
  - destruct (evict_first (snd e) (st_cache st)) as [[q c']|] eqn:Hev.
    + cbn [st_cache]. rewrite map_app, in_app_iff. cbn [map In].
      destruct (evict_first_spec _ _ _ _ Hev) as (l1 & rq & l2 & Hc & ->).
      intros [H|[H|[]]]; [left|right; symmetry; exact H].
      rewrite Hc. rewrite map_app, in_app_iff in *. cbn [map In]. tauto.
    + intros H. left. exact H.
Qed.

Lemma fold_insert_sched m i blk : forall st,
  st_sched (fold_left (insert1 m i) blk st) = st_sched st.
Proof.
  induction blk as [|e blk IH]; intros st; [reflexivity|].
  cbn [fold_left]. rewrite IH. apply insert1_sched.
Qed.

Lemma fold_insert_cache_in m i blk : forall st x,
  In x (map fst (st_cache (fold_left (insert1 m i) blk st))) ->
  In x (map fst (st_cache st)) \/ In x (map fst blk).
Proof.
  induction blk as [|e blk IH]; intros st x H; [left; exact H|].
  cbn [fold_left] in H. apply IH in H. destruct H as [H|H].
  - apply insert1_cache_in in H. destruct H as [H|H]; [left; exact H|].
    right. left. symmetry. exact H.
  - right. right. exact H.
Qed.

Lemma deadf_fst_in p c : In p (deadf c) -> In p (map fst c).
Proof. intros H. apply in_deadf in H. destruct H as (r & H & _). exact (in_fst _ _ _ H). Qed.

Lemma step_sched_in m i blk st x :
  In x (concat (st_sched (step m i blk st))) ->
  In x (concat (st_sched st)) \/ In x (map fst (st_cache st)).
Proof.
  unfold step. rewrite fold_insert_sched, expire_spec. cbn [st_sched]. intros H.
  apply fold_move_weak in H. destruct H as [H|H]; [right; apply deadf_fst_in; exact H|left; exact H].
Qed.

Lemma step_cache_in m i blk st x :
  In x (map fst (st_cache (step m i blk st))) ->
  In x (map fst (st_cache st)) \/ In x (map fst blk).
Proof.
  unfold step. intros H. apply fold_insert_cache_in in H. destruct H as [H|H]; [left|right; exact H].
  rewrite expire_spec in H. cbn [st_cache] in H. apply keepf_fst_in. exact H.
Qed.

Lemma run_future m : forall blks i st x,
  In x (concat (st_sched (run m i blks st))) ->
  In x (concat (st_sched st)) \/ In x (map fst (st_cache st)) \/ In x (map fst (concat blks)).
Proof.
  induction blks as [|b blks IH]; intros i st x H.
  - left. exact H.
  - cbn [run] in H. apply IH in H. cbn [concat]. rewrite map_app, in_app_iff.
    destruct H as [H|[H|H]].
    + apply step_sched_in in H. tauto.
    + apply step_cache_in in H. tauto.
    + tauto.
Qed.
