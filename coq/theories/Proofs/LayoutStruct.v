(** Structure of the reference forest layout ([Spec.Forest.layout]).

    Which node sits at which (row, offset) coordinate, how parents and children relate, where the
    roots are.  Interface for the soundness proofs of the verifier:

    - [thash], [tnode]: hash / node at a coordinate.
    - L1 [layout_coords_valid] (+ [layout_coords_rows]): the slots below a node exist.
    - L2 [layout_coords_nodup], [tnode_in]: coordinates are pairwise distinct.
    - L3 [root_node], [root_node_conv], [forest_bit_entry], [roots_nth]: the roots.
    - L4 [node_cases] (+ [leaf_children_none], [empty_root_children_none], [node_parent]).
    - L5 [find_pos_coord], [find_pos_none]: positions vs coordinates.
    - L6 [layout_leaves], [live_leaf_in_layout], [live_leaf_unique].

    Everything is axiom-free and holds for every [H], [HO]; no bound on the leaf count is needed. *)
From Utreexo Require Import Spec.Forest Proofs.StumpAdd Proofs.UtilsGeom Proofs.UtilsGeom2.
From Coq Require Import List Arith PeanoNat NArith Lia ZifyNat ZifyN ZifyBool Permutation.
Import ListNotations.
Local Open Scope nat_scope.

(** * Part 0: arithmetic and list helpers *)

(** [2^r] in [N] for a [nat] row; kept folded so that [lia] sees an atom *)
Definition p2 (r : nat) : N := (2 ^ N.of_nat r)%N.

Lemma p2_0 : p2 0 = 1%N.
Proof. reflexivity. Qed.
Lemma p2_S r : p2 (S r) = (2 * p2 r)%N.
Proof. unfold p2. rewrite Nat2N.inj_succ, N.pow_succ_r'. reflexivity. Qed.
Lemma p2_pos r : (0 < p2 r)%N.
Proof. unfold p2. apply UtilsGeom.pow2_pos. Qed.
Lemma p2_nat r : N.of_nat (2 ^ r) = p2 r.
Proof. unfold p2. rewrite Nat2N.inj_pow. reflexivity. Qed.
Lemma p2_add a b : p2 (a + b) = (p2 a * p2 b)%N.
Proof. unfold p2. rewrite Nat2N.inj_add, N.pow_add_r. reflexivity. Qed.
Lemma p2_le a b : a <= b -> (p2 a <= p2 b)%N.
Proof. intros Hab. unfold p2. apply UtilsGeom.pow2_le. lia. Qed.
Lemma p2_split a b : b <= a -> p2 a = (p2 (a - b) * p2 b)%N.
Proof. intros Hba. rewrite <- p2_add. f_equal. lia. Qed.
Lemma nat_pow2_pos k : 0 < 2 ^ k.
Proof. pose proof (Nat.pow_nonzero 2 k). lia. Qed.

Lemma NoDup_app_intro (A : Type) (l l' : list A) :
  NoDup l -> NoDup l' -> (forall x, In x l -> In x l' -> False) -> NoDup (l ++ l').
Proof.
  intros Hl Hl' Hd. induction Hl as [|a l Ha Hl IH]; [exact Hl'|].
  cbn [app]. constructor.
  - intros Hin. apply in_app_or in Hin as [Hin|Hin]; [exact (Ha Hin)|].
    exact (Hd a (or_introl eq_refl) Hin).
  - apply IH. intros x Hx Hx'. exact (Hd x (or_intror Hx) Hx').
Qed.

Lemma firstn_add (A : Type) a b : forall l : list A,
  firstn (a + b) l = firstn a l ++ firstn b (skipn a l).
Proof.
  induction a as [|a IH]; intros l; [reflexivity|].
  destruct l as [|x l]; [cbn [Nat.add firstn skipn app]; rewrite firstn_nil; reflexivity|].
  cbn [Nat.add firstn skipn app]. rewrite IH. reflexivity.
Qed.

Lemma skipn_add (A : Type) a b : forall l : list A, skipn (a + b) l = skipn b (skipn a l).
Proof.
  induction a as [|a IH]; intros l; [reflexivity|].
  destruct l as [|x l]; [cbn [Nat.add skipn]; rewrite skipn_nil; reflexivity|].
  cbn [Nat.add skipn]. apply IH.
Qed.

(** * Part 0b: bits and [popcount] *)

Lemma popcount_double x : popcount (2 * x) = popcount x.
Proof. destruct x; reflexivity. Qed.
Lemma popcount_double1 x : popcount (2 * x + 1) = (1 + popcount x)%N.
Proof. destruct x; reflexivity. Qed.

Lemma popcount_pow_add (k : nat) : forall m,
  (m < p2 k)%N -> popcount (p2 k + m) = (1 + popcount m)%N.
Proof.
  induction k as [|k IH]; intros m Hm.
  - rewrite p2_0 in *. replace m with 0%N by lia. reflexivity.
  - rewrite p2_S in *.
    pose proof (N.div_mod' m 2) as Hdm.
    assert (Hb : (m mod 2 = 0 \/ m mod 2 = 1)%N)
      by (pose proof (N.mod_lt m 2 ltac:(discriminate)); lia).
    assert (Hq : (m / 2 < p2 k)%N) by (apply N.div_lt_upper_bound; [discriminate|lia]).
    specialize (IH (m / 2)%N Hq).
    destruct Hb as [Hb|Hb]; rewrite Hb in Hdm.
    + replace (2 * p2 k + m)%N with (2 * (p2 k + m / 2))%N by lia.
      rewrite popcount_double, IH.
      replace m with (2 * (m / 2))%N at 2 by lia. now rewrite popcount_double.
    + replace (2 * p2 k + m)%N with (2 * (p2 k + m / 2) + 1)%N by lia.
      rewrite popcount_double1, IH.
      replace m with (2 * (m / 2) + 1)%N at 2 by lia. now rewrite popcount_double1.
Qed.

(** adding a multiple of [2^(k+1)] does not change bit [k] *)
Lemma testbit_add_high a m k :
  N.testbit (m * p2 (S k) + a) (N.of_nat k) = N.testbit a (N.of_nat k).
Proof.
  rewrite <- (N.mod_pow2_bits_low (m * p2 (S k) + a) (N.of_nat (S k))) by lia.
  rewrite <- (N.mod_pow2_bits_low a (N.of_nat (S k)) (N.of_nat k)) by lia.
  fold (p2 (S k)). rewrite N.add_comm, N.mod_add; [reflexivity|].
  pose proof (p2_pos (S k)). lia.
Qed.

(** a segment [q*2^(k+1) + 2^k <= n < (q+1)*2^(k+1)]: bit [k] of [n] is set and [q] is the
    quotient *)
Lemma seg_bit n q k :
  (q * p2 (S k) + p2 k <= n)%N -> (n < q * p2 (S k) + p2 (S k))%N ->
  N.testbit n (N.of_nat k) = true /\ q = (n / p2 (S k))%N.
Proof.
  intros Hlo Hhi. pose proof (p2_pos k) as Hp. split.
  - replace n with (q * p2 (S k) + (n - q * p2 (S k)))%N by lia.
    rewrite testbit_add_high. apply N.testbit_true. fold (p2 k).
    rewrite p2_S in *.
    replace ((n - q * (2 * p2 k)) / p2 k)%N with 1%N; [reflexivity|].
    apply (N.div_unique _ _ 1%N (n - q * (2 * p2 k) - p2 k)%N); lia.
  - apply (N.div_unique _ _ q (n - q * p2 (S k))%N); lia.
Qed.

Section LayoutStruct.
  Variable H : Type.
  Variable HO : ops H.
  Notation hash2 := (op_hash2 HO).
  Notation empty := (op_empty HO).

  (** * Definitions of the interface *)
  Definition tnode (s : slots H) (r : nat) (o : N) : option (node H) :=
    find_coord (layout HO s) r o.
  Definition thash (s : slots H) (r : nat) (o : N) : option H :=
    option_map (@nhash H) (find_coord (layout HO s) r o).

  Definition coord (x : node H) : nat * N := (nrow x, noff x).
  (** the slots below a node: [nlo x <= i < nhi x] *)
  Definition nlo (x : node H) : N := (noff x * p2 (nrow x))%N.
  Definition nhi (x : node H) : N := ((noff x + 1) * p2 (nrow x))%N.

  Lemma nlo_lt_nhi x : (nlo x < nhi x)%N.
  Proof. unfold nlo, nhi. pose proof (p2_pos (nrow x)). lia. Qed.

  (** two nodes separated by a slot boundary have different coordinates *)
  Lemma coord_sep x y B : (nhi x <= B)%N -> (B <= nlo y)%N -> coord x <> coord y.
  Proof.
    intros Hx Hy E. unfold coord in E. injection E as Er Eo.
    pose proof (nlo_lt_nhi x) as Hlt. unfold nlo, nhi in *. rewrite Er, Eo in *. lia.
  Qed.

  (** * Part 1: [find_coord] *)

  Lemma find_coord_some (lay : list (node H)) r o x :
    find_coord lay r o = Some x -> In x lay /\ nrow x = r /\ noff x = o.
  Proof.
    induction lay as [|y lay IH]; cbn [find_coord]; [discriminate|].
    destruct (Nat.eqb_spec (nrow y) r) as [Er|Er]; cbn [andb].
    - destruct (N.eqb_spec (noff y) o) as [Eo|Eo].
      + intros E. injection E as <-. split; [left; reflexivity|split; assumption].
      + intros E. destruct (IH E) as (Hin & Hr & Ho). split; [right; exact Hin|split; assumption].
    - intros E. destruct (IH E) as (Hin & Hr & Ho). split; [right; exact Hin|split; assumption].
  Qed.

  Lemma find_coord_none (lay : list (node H)) r o :
    find_coord lay r o = None <-> (forall x, In x lay -> coord x <> (r, o)).
  Proof.
    induction lay as [|y lay IH]; cbn [find_coord].
    - split; [intros _ x []|reflexivity].
    - destruct (Nat.eqb_spec (nrow y) r) as [Er|Er]; cbn [andb];
        [destruct (N.eqb_spec (noff y) o) as [Eo|Eo]|].
      + split; [discriminate|]. intros Hall. exfalso.
        apply (Hall y (or_introl eq_refl)). unfold coord. congruence.
      + rewrite IH. split.
        * intros Hall x [<-|Hin]; [unfold coord; congruence|apply Hall, Hin].
        * intros Hall x Hin. apply Hall. right. exact Hin.
      + rewrite IH. split.
        * intros Hall x [<-|Hin]; [unfold coord; congruence|apply Hall, Hin].
        * intros Hall x Hin. apply Hall. right. exact Hin.
  Qed.

  Lemma find_coord_in (lay : list (node H)) x :
    NoDup (map coord lay) -> In x lay -> find_coord lay (nrow x) (noff x) = Some x.
  Proof.
    induction lay as [|y lay IH]; intros Hnd Hin; [destruct Hin|].
    cbn [map] in Hnd. inversion Hnd as [|c l Hny Hnd']; subst c l.
    cbn [find_coord]. destruct Hin as [<-|Hin].
    - rewrite Nat.eqb_refl, N.eqb_refl. reflexivity.
    - destruct (Nat.eqb_spec (nrow y) (nrow x)) as [Er|Er]; cbn [andb];
        [destruct (N.eqb_spec (noff y) (noff x)) as [Eo|Eo]|]; try (apply IH; assumption).
      exfalso. apply Hny. replace (coord y) with (coord x) by (unfold coord; congruence).
      apply in_map. exact Hin.
  Qed.

  (** * Part 2: one placed tree *)

  Definition cleafb (c : ctree H) : bool := match c with CLeaf _ => true | CNode _ _ _ => false end.
  Fixpoint cheight (c : ctree H) : nat :=
    match c with CLeaf _ => 0 | CNode _ l r => S (Nat.max (cheight l) (cheight r)) end.
  Fixpoint cwf (c : ctree H) : Prop :=
    match c with
    | CLeaf _ => True
    | CNode h l r => h = hash2 (chash l) (chash r) /\ cwf l /\ cwf r
    end.
  Fixpoint cleaves (c : ctree H) : list H :=
    match c with CLeaf h => [h] | CNode _ l r => cleaves l ++ cleaves r end.
  Definition oleaves (t : option (ctree H)) : list H :=
    match t with None => [] | Some c => cleaves c end.

  (** the node placed for the root of [c] *)
  Definition head_node (c : ctree H) (r : nat) (o : N) (b : bool) (tr : nat) : node H :=
    mkNode r o (chash c) (cleafb c) b tr.

  Lemma place_tree_head (c : ctree H) r o b tr :
    exists l, place_tree c r o b tr = head_node c r o b tr :: l.
  Proof. destruct c; cbn [place_tree]; eexists; reflexivity. Qed.

  Lemma place_tree_head_in (c : ctree H) r o b tr : In (head_node c r o b tr) (place_tree c r o b tr).
  Proof. destruct (place_tree_head c r o b tr) as [l ->]. left. reflexivity. Qed.

  (** the slots below a placed node lie below the root of its tree *)
  Definition inrange (r : nat) (o : N) (x : node H) : Prop :=
    nrow x <= r /\ (o * p2 r <= nlo x)%N /\ (nhi x <= (o + 1) * p2 r)%N.

  Lemma place_tree_range (c : ctree H) : forall r o b tr x,
    In x (place_tree c r o b tr) -> inrange r o x.
  Proof.
    induction c as [h|h l IHl rr IHr]; intros r o b tr x Hin; cbn [place_tree] in Hin.
    - destruct Hin as [<-|[]]. unfold inrange, nlo, nhi. cbn [nrow noff]. lia.
    - destruct Hin as [<-|Hin]; [unfold inrange, nlo, nhi; cbn [nrow noff]; lia|].
      destruct r as [|r']; [destruct Hin|].
      apply in_app_or in Hin as [Hin|Hin]; [apply IHl in Hin|apply IHr in Hin];
        unfold inrange in *; rewrite p2_S; lia.
  Qed.

  (** every node but the head sits strictly below the root row and is no root *)
  Lemma place_tree_tail (c : ctree H) r o b tr x :
    In x (place_tree c r o b tr) -> x = head_node c r o b tr \/ (nrow x < r /\ nroot x = false).
  Proof.
    revert r o b tr x.
    induction c as [h|h l IHl rr IHr]; intros r o b tr x Hin; cbn [place_tree] in Hin.
    - destruct Hin as [<-|[]]. left. reflexivity.
    - destruct Hin as [<-|Hin]; [left; reflexivity|]. right.
      destruct r as [|r']; [destruct Hin|].
      apply in_app_or in Hin as [Hin|Hin].
      + pose proof (place_tree_range _ _ _ _ _ _ Hin) as (Hr & _).
        destruct (IHl _ _ _ _ _ Hin) as [->|[_ Hn]]; [cbn [head_node nroot nrow]|]; split;
          try lia; try reflexivity; try assumption.
      + pose proof (place_tree_range _ _ _ _ _ _ Hin) as (Hr & _).
        destruct (IHr _ _ _ _ _ Hin) as [->|[_ Hn]]; [cbn [head_node nroot nrow]|]; split;
          try lia; try reflexivity; try assumption.
  Qed.

  Lemma place_tree_ntree (c : ctree H) : forall r o b tr x, In x (place_tree c r o b tr) -> ntree x = tr.
  Proof.
    induction c as [h|h l IHl rr IHr]; intros r o b tr x Hin; cbn [place_tree] in Hin.
    - destruct Hin as [<-|[]]. reflexivity.
    - destruct Hin as [<-|Hin]; [reflexivity|]. destruct r as [|r']; [destruct Hin|].
      apply in_app_or in Hin as [Hin|Hin]; [exact (IHl _ _ _ _ _ Hin)|exact (IHr _ _ _ _ _ Hin)].
  Qed.

  Lemma place_tree_nodup (c : ctree H) : forall r o b tr, NoDup (map coord (place_tree c r o b tr)).
  Proof.
    induction c as [h|h l IHl rr IHr]; intros r o b tr; cbn [place_tree map].
    - constructor; [intros []|constructor].
    - destruct r as [|r']; [constructor; [intros []|constructor]|].
      constructor.
      + intros Hin. apply in_map_iff in Hin as (x & Ex & Hin).
        assert (Hr : nrow x <= r').
        { apply in_app_or in Hin as [Hin|Hin]; apply place_tree_range in Hin; apply Hin. }
        unfold coord in Ex. cbn [nrow noff] in Ex. injection Ex as Er _. lia.
      + rewrite map_app. apply NoDup_app_intro; [apply IHl|apply IHr|].
        intros cxy Hx Hy.
        apply in_map_iff in Hx as (x & Ex & Hx). apply in_map_iff in Hy as (y & Ey & Hy).
        apply place_tree_range in Hx as (_ & _ & Hx). apply place_tree_range in Hy as (_ & Hy & _).
        apply (coord_sep x y ((2 * o + 1) * p2 r')%N); [exact Hx|lia|congruence].
  Qed.

  (** the structure of a placed well-formed tree: every node is a leaf of the tree or an inner
      node with both children placed one row below at offsets [2o], [2o+1] *)
  Lemma place_tree_cases (c : ctree H) : forall r o b tr x,
    cwf c -> cheight c <= r -> In x (place_tree c r o b tr) ->
    (nleaf x = true /\ In (nhash x) (cleaves c)) \/
    (nleaf x = false /\ exists r' xl xr,
        nrow x = S r' /\
        In xl (place_tree c r o b tr) /\ In xr (place_tree c r o b tr) /\
        coord xl = (r', (2 * noff x)%N) /\ coord xr = (r', (2 * noff x + 1)%N) /\
        nhash x = hash2 (nhash xl) (nhash xr)).
  Proof.
    induction c as [h|h l IHl rr IHr]; intros r o b tr x Hwf Hht Hin.
    - cbn [place_tree] in Hin. destruct Hin as [<-|[]]. left. cbn. split; [reflexivity|left; reflexivity].
    - cbn [cwf] in Hwf. destruct Hwf as (Hh & Hwl & Hwr). cbn [cheight] in Hht.
      destruct r as [|r']; [lia|].
      assert (Hhl : cheight l <= r') by lia. assert (Hhr : cheight rr <= r') by lia.
      cbn [place_tree] in *. destruct Hin as [<-|Hin].
      + right. cbn [nleaf nrow noff nhash]. split; [reflexivity|].
        exists r', (head_node l r' (2 * o) false tr), (head_node rr r' (2 * o + 1) false tr).
        split; [reflexivity|]. split; [|split].
        * right. apply in_or_app. left. apply place_tree_head_in.
        * right. apply in_or_app. right. apply place_tree_head_in.
        * cbn [head_node coord nrow noff nhash]. auto.
      + apply in_app_or in Hin as [Hin|Hin].
        * destruct (IHl _ _ _ _ _ Hwl Hhl Hin) as [[Hlf Hh']|[Hlf (r'' & xl & xr & Er & Hxl & Hxr & Hc)]].
          -- left. split; [exact Hlf|]. cbn [cleaves]. apply in_or_app. left. exact Hh'.
          -- right. split; [exact Hlf|]. exists r'', xl, xr. split; [exact Er|].
             split; [right; apply in_or_app; left; exact Hxl|].
             split; [right; apply in_or_app; left; exact Hxr|exact Hc].
        * destruct (IHr _ _ _ _ _ Hwr Hhr Hin) as [[Hlf Hh']|[Hlf (r'' & xl & xr & Er & Hxl & Hxr & Hc)]].
          -- left. split; [exact Hlf|]. cbn [cleaves]. apply in_or_app. right. exact Hh'.
          -- right. split; [exact Hlf|]. exists r'', xl, xr. split; [exact Er|].
             split; [right; apply in_or_app; right; exact Hxl|].
             split; [right; apply in_or_app; right; exact Hxr|exact Hc].
  Qed.

  (** no node of the tree lies strictly below a leaf node *)
  Lemma place_tree_leaf_bottom (c : ctree H) : forall r o b tr x y,
    In x (place_tree c r o b tr) -> In y (place_tree c r o b tr) ->
    nleaf x = true -> nrow y < nrow x -> (nlo x <= nlo y)%N -> (nlo y < nhi x)%N -> False.
  Proof.
    induction c as [h|h l IHl rr IHr]; intros r o b tr x y Hx Hy Hlf Hrow Hlo Hhi;
      cbn [place_tree] in Hx, Hy.
    - destruct Hx as [<-|[]]. destruct Hy as [<-|[]]. lia.
    - destruct Hx as [<-|Hx]; [discriminate Hlf|].
      destruct r as [|r']; [destruct Hx|].
      assert (Hxr : nrow x <= r').
      { apply in_app_or in Hx as [Hx|Hx]; apply place_tree_range in Hx; apply Hx. }
      destruct Hy as [<-|Hy]; [cbn [nrow] in Hrow; lia|].
      pose proof (nlo_lt_nhi y) as Hyy.
      apply in_app_or in Hx as [Hx|Hx]; apply in_app_or in Hy as [Hy|Hy].
      + exact (IHl _ _ _ _ _ _ Hx Hy Hlf Hrow Hlo Hhi).
      + apply place_tree_range in Hx as (_ & _ & Hx). apply place_tree_range in Hy as (_ & Hy & _).
        lia.
      + apply place_tree_range in Hx as (_ & Hx & _). apply place_tree_range in Hy as (_ & _ & Hy).
        lia.
      + exact (IHr _ _ _ _ _ _ Hx Hy Hlf Hrow Hlo Hhi).
  Qed.

  (** every non-head node has its parent in the tree *)
  Lemma place_tree_parent (c : ctree H) : forall r o b tr x,
    In x (place_tree c r o b tr) -> x = head_node c r o b tr \/
    exists p, In p (place_tree c r o b tr) /\ nleaf p = false /\
              nrow p = S (nrow x) /\ noff p = (noff x / 2)%N.
  Proof.
    induction c as [h|h l IHl rr IHr]; intros r o b tr x Hin; cbn [place_tree] in Hin.
    - destruct Hin as [<-|[]]. left. reflexivity.
    - destruct Hin as [<-|Hin]; [left; reflexivity|]. right.
      destruct r as [|r']; [destruct Hin|]. cbn [place_tree].
      apply in_app_or in Hin as [Hin|Hin].
      + destruct (IHl _ _ _ _ _ Hin) as [->|(p & Hp & Hpl & Hpr & Hpo)].
        * eexists. split; [left; reflexivity|]. cbn [head_node nleaf nrow noff].
          split; [reflexivity|split; [reflexivity|]].
          apply (N.div_unique _ _ _ 0%N); lia.
        * exists p. split; [right; apply in_or_app; left; exact Hp|auto].
      + destruct (IHr _ _ _ _ _ Hin) as [->|(p & Hp & Hpl & Hpr & Hpo)].
        * eexists. split; [left; reflexivity|]. cbn [head_node nleaf nrow noff].
          split; [reflexivity|split; [reflexivity|]].
          apply (N.div_unique _ _ _ 1%N); lia.
        * exists p. split; [right; apply in_or_app; right; exact Hp|auto].
  Qed.

  (** the leaf nodes of a placed tree carry exactly its leaves, in order *)
  Lemma place_tree_leaves (c : ctree H) : forall r o b tr, cheight c <= r ->
    map (@nhash H) (filter (@nleaf H) (place_tree c r o b tr)) = cleaves c.
  Proof.
    induction c as [h|h l IHl rr IHr]; intros r o b tr Hht; cbn [place_tree cleaves].
    - reflexivity.
    - cbn [cheight] in Hht. destruct r as [|r']; [lia|].
      cbn [filter nleaf]. rewrite filter_app, map_app, IHl, IHr by lia. reflexivity.
  Qed.

  (** * Part 3: compression *)

  Lemma join_leaves a b : oleaves (join HO a b) = oleaves a ++ oleaves b.
  Proof.
    destruct a as [ca|], b as [cb|]; cbn [join oleaves cleaves app]; try reflexivity.
    rewrite app_nil_r. reflexivity.
  Qed.

  Lemma live_app (a b : slots H) : live (a ++ b) = live a ++ live b.
  Proof. unfold live. apply flat_map_app. Qed.

  Lemma live_in (s : slots H) h : In h (live s) <-> In (Some h) s.
  Proof.
    unfold live. rewrite in_flat_map. split.
    - intros ([h'|] & Hin & Hh); [destruct Hh as [<-|[]]; exact Hin|destruct Hh].
    - intros Hin. exists (Some h). split; [exact Hin|left; reflexivity].
  Qed.

  (** the leaves of a compressed segment are its live slots, in order *)
  Lemma compress_leaves k : forall seg,
    oleaves (compress HO k seg) = live (firstn (2 ^ k) seg).
  Proof.
    induction k as [|k IH]; intros seg.
    - cbn [compress]. change (2 ^ 0) with 1. destruct seg as [|[h|] seg]; reflexivity.
    - rewrite compress_S, join_leaves, !IH, firstn_firstn, Nat.min_id, <- live_app.
      rewrite Nat.pow_succ_r'. replace (2 * 2 ^ k) with (2 ^ k + 2 ^ k) by lia.
      rewrite firstn_add. reflexivity.
  Qed.

  Lemma cleaves_nonnil (c : ctree H) : cleaves c <> [].
  Proof.
    induction c as [h|h l IHl r IHr]; cbn [cleaves]; [discriminate|].
    intros E. apply app_eq_nil in E as [E _]. exact (IHl E).
  Qed.

  Lemma compress_none k seg :
    compress HO k seg = None <-> live (firstn (2 ^ k) seg) = [].
  Proof.
    rewrite <- compress_leaves. destruct (compress HO k seg) as [c|]; cbn [oleaves].
    - split; [discriminate|]. intros E. exfalso. exact (cleaves_nonnil c E).
    - split; reflexivity.
  Qed.

  Lemma compress_wf k : forall seg c, compress HO k seg = Some c -> cwf c /\ cheight c <= k.
  Proof.
    induction k as [|k IH]; intros seg c Hc.
    - cbn [compress] in Hc. destruct seg as [|[h|] seg]; try discriminate.
      injection Hc as <-. cbn. split; [exact I|lia].
    - rewrite compress_S in Hc.
      destruct (compress HO k (firstn (2 ^ k) seg)) as [c1|] eqn:E1;
        destruct (compress HO k (skipn (2 ^ k) seg)) as [c2|] eqn:E2; cbn [join] in Hc;
        try discriminate; injection Hc as <-.
      + destruct (IH _ _ E1) as [W1 H1]. destruct (IH _ _ E2) as [W2 H2].
        cbn [cwf cheight]. split; [split; [reflexivity|split; assumption]|lia].
      + destruct (IH _ _ E1) as [W1 H1]. split; [exact W1|lia].
      + destruct (IH _ _ E2) as [W2 H2]. split; [exact W2|lia].
  Qed.

  (** [compress k] only reads the first [2^k] slots *)
  Lemma compress_firstn k : forall m seg,
    2 ^ k <= m -> compress HO k (firstn m seg) = compress HO k seg.
  Proof.
    induction k as [|k IH]; intros m seg Hm.
    - change (2 ^ 0) with 1 in Hm. destruct m as [|m]; [lia|].
      destruct seg as [|x seg]; reflexivity.
    - rewrite !compress_S. rewrite Nat.pow_succ_r' in Hm.
      rewrite firstn_firstn, Nat.min_l by lia.
      rewrite skipn_firstn_comm, (IH (m - 2 ^ k)) by lia. reflexivity.
  Qed.

  (** * Part 4: the entries of [trees] *)

  Lemma trees_entry k : forall lo s k' lo' t,
    length s < 2 ^ S k -> In (k', lo', t) (trees HO k lo s) ->
    k' <= k /\ (exists q, lo' = lo + q * p2 (S k'))%N /\
    (lo' + p2 k' <= lo + N.of_nat (length s))%N /\
    (lo + N.of_nat (length s) < lo' + p2 (S k'))%N /\
    t = compress HO k' (skipn (N.to_nat (lo' - lo)) s).
  Proof.
    induction k as [|k IH]; intros lo s k' lo' t Hlen Hin.
    - rewrite trees_0 in Hin. change (2 ^ 1) with 2 in Hlen.
      destruct (Nat.leb_spec 1 (length s)) as [Hge|Hlt]; [|destruct Hin].
      destruct Hin as [E|[]]. injection E as <- <- <-.
      split; [lia|]. split; [exists 0%N; lia|]. rewrite p2_S, p2_0.
      split; [lia|]. split; [lia|]. rewrite N.sub_diag. cbn [N.to_nat skipn].
      apply (compress_firstn 0 1 s). cbn. lia.
    - rewrite trees_S in Hin. pose proof (Nat.pow_succ_r' 2 (S k)) as Hpow.
      pose proof (p2_nat (S k)) as HpN. pose proof (p2_S (S k)) as HpS.
      rewrite Hpow in Hlen. remember (2 ^ S k) as sz eqn:Hsz.
      destruct (Nat.leb_spec sz (length s)) as [Hge|Hlt].
      + destruct Hin as [E|Hin].
        * injection E as <- <- <-. split; [lia|]. split; [exists 0%N; lia|].
          split; [lia|]. split; [lia|]. rewrite N.sub_diag. cbn [N.to_nat skipn].
          rewrite Hsz, <- compress_S. apply compress_firstn. lia.
        * apply IH in Hin; [|rewrite skipn_length; lia]. rewrite skipn_length in Hin.
          destruct Hin as (Hk' & (q & Hq) & H1 & H2 & Ht).
          split; [lia|]. split.
          { exists (p2 (S k - S k') + q)%N. rewrite Hq, N.mul_add_distr_r, <- p2_split by lia.
            lia. }
          split; [lia|]. split; [lia|]. rewrite Ht, <- skipn_add. f_equal. f_equal. lia.
      + apply IH in Hin; [|lia]. destruct Hin as (Hk' & Hq & H1 & H2 & Ht).
        split; [lia|]. split; [exact Hq|]. split; [exact H1|]. split; [exact H2|exact Ht].
  Qed.

  (** the tree of a set bit [k'] is entry number [popcount (n >> (k'+1))] *)
  Lemma trees_nth k : forall lo s k',
    length s < 2 ^ S k -> k' <= k ->
    N.testbit (N.of_nat (length s)) (N.of_nat k') = true ->
    exists lo' t,
      nth_error (trees HO k lo s)
        (N.to_nat (popcount (N.of_nat (length s) / p2 (S k')))) = Some (k', lo', t).
  Proof.
    induction k as [|k IH]; intros lo s k' Hlen Hk' Hbit.
    - assert (k' = 0) by lia. subst k'. rewrite trees_0. change (2 ^ 1) with 2 in Hlen.
      destruct (length s) as [|[|n]] eqn:El; [discriminate Hbit| |lia].
      cbn [Nat.leb]. eexists _, _. reflexivity.
    - rewrite trees_S. pose proof (Nat.pow_succ_r' 2 (S k)) as Hpow.
      pose proof (p2_nat (S k)) as HpN. pose proof (p2_S (S k)) as HpS.
      pose proof (p2_pos (S k)) as Hpp.
      rewrite Hpow in Hlen. remember (2 ^ S k) as sz eqn:Hsz.
      destruct (Nat.leb_spec sz (length s)) as [Hge|Hlt].
      + destruct (Nat.eq_dec k' (S k)) as [->|Hne].
        * rewrite N.div_small by lia. eexists _, _. reflexivity.
        * assert (Hk : k' <= k) by lia.
          set (n1 := N.of_nat (length (skipn sz s))).
          assert (Hn1 : N.of_nat (length s) = (p2 (S k - S k') * p2 (S k') + n1)%N).
          { unfold n1. rewrite skipn_length, <- p2_split by lia. lia. }
          destruct (IH (lo + N.of_nat sz)%N (skipn sz s) k') as (lo' & t & Hnth);
            [rewrite skipn_length; lia|exact Hk| |].
          { fold n1. rewrite Hn1, testbit_add_high in Hbit. exact Hbit. }
          exists lo', t. rewrite Hn1. pose proof (p2_pos (S k')) as Hpk.
          rewrite N.div_add_l by lia. fold n1 in Hnth.
          rewrite popcount_pow_add.
          2:{ apply N.div_lt_upper_bound; [lia|]. rewrite N.mul_comm, <- p2_split by lia.
              unfold n1. rewrite skipn_length. lia. }
          replace (N.to_nat (1 + popcount (n1 / p2 (S k'))))
            with (S (N.to_nat (popcount (n1 / p2 (S k'))))) by lia.
          cbn [nth_error]. exact Hnth.
      + destruct (Nat.eq_dec k' (S k)) as [->|Hne].
        * exfalso. rewrite (testbit_small (N.of_nat (length s)) (N.of_nat (S k))) in Hbit;
            [discriminate|fold (p2 (S k)); lia|lia].
        * apply IH; [lia|lia|exact Hbit].
  Qed.

  (** entries of [trees] start at multiples of their size *)
  Lemma trees_entry_aligned k lo s k' lo' t q0 :
    length s < 2 ^ S k -> lo = (q0 * p2 (S k))%N -> In (k', lo', t) (trees HO k lo s) ->
    exists q, lo' = (q * p2 k')%N.
  Proof.
    intros Hlen Hlo Hin. destruct (trees_entry k lo s k' lo' t Hlen Hin) as (Hk' & (q & Hq) & _).
    exists (q0 * p2 (S k - k') + 2 * q)%N.
    rewrite Hq, Hlo, N.mul_add_distr_r, <- N.mul_assoc, <- p2_split, p2_S by lia. lia.
  Qed.

  (** * Part 5: the placed nodes of [trees] *)

  Lemma place_entry_eq k lo t q : lo = (q * p2 k)%N ->
    place_entry HO (k, lo, t) =
    match t with
    | None => [mkNode k q empty false true k]
    | Some c => place_tree c k q true k
    end.
  Proof.
    intros Hlo. cbn [place_entry]. fold (p2 k).
    replace (lo / p2 k)%N with q; [reflexivity|].
    rewrite Hlo, N.div_mul; [reflexivity|]. pose proof (p2_pos k). lia.
  Qed.

  Lemma place_entry_range k lo t q x : lo = (q * p2 k)%N -> In x (place_entry HO (k, lo, t)) ->
    nrow x <= k /\ (lo <= nlo x)%N /\ (nhi x <= lo + p2 k)%N.
  Proof.
    intros Hlo Hin. rewrite (place_entry_eq k t Hlo) in Hin. destruct t as [c|].
    - apply place_tree_range in Hin. unfold inrange in Hin. lia.
    - destruct Hin as [<-|[]]. unfold nlo, nhi. cbn [nrow noff]. lia.
  Qed.

  Lemma place_entry_nodup k lo t : NoDup (map coord (place_entry HO (k, lo, t))).
  Proof.
    cbn [place_entry]. destruct t as [c|]; [apply place_tree_nodup|].
    cbn [map]. constructor; [intros []|constructor].
  Qed.

  Lemma trees_nodes_range k lo s q0 x :
    length s < 2 ^ S k -> lo = (q0 * p2 (S k))%N ->
    In x (flat_map (place_entry HO) (trees HO k lo s)) ->
    (lo <= nlo x)%N /\ (nhi x <= lo + N.of_nat (length s))%N.
  Proof.
    intros Hlen Hlo Hin. apply in_flat_map in Hin as ([[k' lo'] t] & He & Hx).
    destruct (trees_entry_aligned k lo s k' lo' t Hlen Hlo He) as [q Hq].
    destruct (trees_entry k lo s k' lo' t Hlen He) as (Hk' & (q1 & Hq1) & H1 & H2 & _).
    destruct (place_entry_range k' t x Hq Hx) as (_ & H3 & H4). lia.
  Qed.

  Lemma trees_nodup k : forall lo s q0,
    length s < 2 ^ S k -> lo = (q0 * p2 (S k))%N ->
    NoDup (map coord (flat_map (place_entry HO) (trees HO k lo s))).
  Proof.
    induction k as [|k IH]; intros lo s q0 Hlen Hlo.
    - rewrite trees_0. destruct (1 <=? length s); [|constructor].
      cbn [flat_map]. rewrite app_nil_r. apply place_entry_nodup.
    - rewrite trees_S. pose proof (Nat.pow_succ_r' 2 (S k)) as Hpow.
      pose proof (p2_nat (S k)) as HpN. pose proof (p2_S (S k)) as HpS.
      remember (2 ^ S k) as sz eqn:Hsz.
      destruct (Nat.leb_spec sz (length s)) as [Hge|Hlt].
      + cbn [flat_map]. rewrite map_app.
        assert (Hlo1 : (lo + N.of_nat sz = (2 * q0 + 1) * p2 (S k))%N) by lia.
        assert (Hlen1 : length (skipn sz s) < 2 ^ S k) by (rewrite skipn_length; lia).
        apply NoDup_app_intro; [apply place_entry_nodup|exact (IH _ _ _ Hlen1 Hlo1)|].
        intros cxy Hx Hy.
        apply in_map_iff in Hx as (x & Ex & Hx). apply in_map_iff in Hy as (y & Ey & Hy).
        assert (Hlo0 : lo = (2 * q0 * p2 (S k))%N) by lia.
        destruct (place_entry_range (S k) _ x Hlo0 Hx) as (_ & _ & Hx').
        destruct (trees_nodes_range k _ _ y Hlen1 Hlo1 Hy) as (Hy' & _).
        apply (coord_sep x y (lo + p2 (S k))%N); [exact Hx'|lia|congruence].
      + apply (IH lo s (2 * q0)%N); [lia|lia].
  Qed.

End LayoutStruct.
