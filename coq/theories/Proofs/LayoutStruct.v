(** Structure of the reference forest layout ([Spec.Forest.layout]).

    Which node sits at which (row, offset) coordinate, how parents and children relate, where the
    roots are.  Interface for the soundness proofs of the verifier:

    - [thash], [tnode]: hash / node at a coordinate.
    - L1 [layout_coords_valid] (+ [layout_coords_rows]): the slots below a node exist.
    - L2 [layout_coords_nodup], [tnode_in]: coordinates are pairwise distinct.
    - L3 [root_node], [root_node_conv], [forest_entry], [forest_bit_entry], [roots_nth],
      [roots_nth_bit], [roots_length]: the roots.
    - L4 [node_cases] (+ [leaf_children_none], [empty_root_children_none], [node_parent],
      [node_sibling], [node_root], [layout_node_tree]).
    - L5 [find_pos_coord], [find_pos_none], [find_pos_layout]: positions vs coordinates.
    - L6 [layout_leaves], [live_leaf_in_layout], [layout_leaf_live], [live_leaf_unique],
      [find_leaf_live].

    Everything is axiom-free and holds for every [H], [HO]; no bound on the leaf count is needed. *)
From Utreexo Require Import Spec.Forest Proofs.StumpAdd Proofs.UtilsGeom Proofs.UtilsGeom2.
From Coq Require Import List Arith PeanoNat NArith Lia ZifyNat ZifyN ZifyBool Permutation.
Import ListNotations.
Local Open Scope nat_scope.

(** * Part 0: arithmetic and list helpers *)

(** [2^r] in [N] for a [nat] row; kept folded so that [lia] sees an atom *)
Definition p2 (r : nat) : N := (2 ^ N.of_nat r)%N.

Lemma p2_0 : p2 0 = 1%N.
Proof. reflexivity. Qed.
Lemma p2_S r : p2 (S r) = (2 * p2 r)%N.
Proof. unfold p2. rewrite Nat2N.inj_succ, N.pow_succ_r'. reflexivity. Qed.
Lemma p2_pos r : (0 < p2 r)%N.
Proof. unfold p2. apply UtilsGeom.pow2_pos. Qed.
Lemma p2_nat r : N.of_nat (2 ^ r) = p2 r.
Proof. unfold p2. rewrite Nat2N.inj_pow. reflexivity. Qed.
Lemma p2_add a b : p2 (a + b) = (p2 a * p2 b)%N.
Proof. unfold p2. rewrite Nat2N.inj_add, N.pow_add_r. reflexivity. Qed.
Lemma p2_le a b : a <= b -> (p2 a <= p2 b)%N.
Proof. intros Hab. unfold p2. apply UtilsGeom.pow2_le. lia. Qed.
Lemma p2_split a b : b <= a -> p2 a = (p2 (a - b) * p2 b)%N.
Proof. intros Hba. rewrite <- p2_add. f_equal. lia. Qed.
Lemma nat_pow2_pos k : 0 < 2 ^ k.
Proof. pose proof (Nat.pow_nonzero 2 k). lia. Qed.

Lemma NoDup_app_intro (A : Type) (l l' : list A) :
  NoDup l -> NoDup l' -> (forall x, In x l -> In x l' -> False) -> NoDup (l ++ l').
Proof.
  intros Hl Hl' Hd. induction Hl as [|a l Ha Hl IH]; [exact Hl'|].
  cbn [app]. constructor.
  - intros Hin. apply in_app_or in Hin as [Hin|Hin]; [exact (Ha Hin)|].
    exact (Hd a (or_introl eq_refl) Hin).
  - apply IH. intros x Hx Hx'. exact (Hd x (or_intror Hx) Hx').
Qed.

Lemma firstn_add (A : Type) a b : forall l : list A,
  firstn (a + b) l = firstn a l ++ firstn b (skipn a l).
Proof.
  induction a as [|a IH]; intros l; [reflexivity|].
  destruct l as [|x l]; [cbn [Nat.add firstn skipn app]; rewrite firstn_nil; reflexivity|].
  cbn [Nat.add firstn skipn app]. rewrite IH. reflexivity.
Qed.

Lemma skipn_add (A : Type) a b : forall l : list A, skipn (a + b) l = skipn b (skipn a l).
Proof.
  induction a as [|a IH]; intros l; [reflexivity|].
  destruct l as [|x l]; [cbn [Nat.add skipn]; rewrite skipn_nil; reflexivity|].
  cbn [Nat.add skipn]. apply IH.
Qed.

(** * Part 0b: bits and [popcount] *)

Lemma popcount_double x : popcount (2 * x) = popcount x.
Proof. destruct x; reflexivity. Qed.
Lemma popcount_double1 x : popcount (2 * x + 1) = (1 + popcount x)%N.
Proof. destruct x; reflexivity. Qed.

Lemma popcount_pow_add (k : nat) : forall m,
  (m < p2 k)%N -> popcount (p2 k + m) = (1 + popcount m)%N.
Proof.
  induction k as [|k IH]; intros m Hm.
  - rewrite p2_0 in *. replace m with 0%N by lia. reflexivity.
  - rewrite p2_S in *.
    pose proof (N.div_mod' m 2) as Hdm.
    assert (Hb : (m mod 2 = 0 \/ m mod 2 = 1)%N)
      by (pose proof (N.mod_lt m 2 ltac:(discriminate)); lia).
    assert (Hq : (m / 2 < p2 k)%N) by (apply N.div_lt_upper_bound; [discriminate|lia]).
    specialize (IH (m / 2)%N Hq).
    destruct Hb as [Hb|Hb]; rewrite Hb in Hdm.
    + replace (2 * p2 k + m)%N with (2 * (p2 k + m / 2))%N by lia.
      rewrite popcount_double, IH.
      replace m with (2 * (m / 2))%N at 2 by lia. now rewrite popcount_double.
    + replace (2 * p2 k + m)%N with (2 * (p2 k + m / 2) + 1)%N by lia.
      rewrite popcount_double1, IH.
      replace m with (2 * (m / 2) + 1)%N at 2 by lia. now rewrite popcount_double1.
Qed.

(** adding a multiple of [2^(k+1)] does not change bit [k] *)
Lemma testbit_add_high a m k :
  N.testbit (m * p2 (S k) + a) (N.of_nat k) = N.testbit a (N.of_nat k).
Proof.
  rewrite <- (N.mod_pow2_bits_low (m * p2 (S k) + a) (N.of_nat (S k))) by lia.
  rewrite <- (N.mod_pow2_bits_low a (N.of_nat (S k)) (N.of_nat k)) by lia.
  fold (p2 (S k)). rewrite N.add_comm, N.mod_add; [reflexivity|].
  pose proof (p2_pos (S k)). lia.
Qed.

(** a segment [q*2^(k+1) + 2^k <= n < (q+1)*2^(k+1)]: bit [k] of [n] is set and [q] is the
    quotient *)
Lemma seg_bit n q k :
  (q * p2 (S k) + p2 k <= n)%N -> (n < q * p2 (S k) + p2 (S k))%N ->
  N.testbit n (N.of_nat k) = true /\ q = (n / p2 (S k))%N.
Proof.
  intros Hlo Hhi. pose proof (p2_pos k) as Hp. split.
  - replace n with (q * p2 (S k) + (n - q * p2 (S k)))%N by lia.
    rewrite testbit_add_high. apply N.testbit_true. fold (p2 k).
    rewrite p2_S in *.
    replace ((n - q * (2 * p2 k)) / p2 k)%N with 1%N; [reflexivity|].
    apply (N.div_unique _ _ 1%N (n - q * (2 * p2 k) - p2 k)%N); lia.
  - apply (N.div_unique _ _ q (n - q * p2 (S k))%N); lia.
Qed.

Section LayoutStruct.
  Variable H : Type.
  Variable HO : ops H.
  Notation hash2 := (op_hash2 HO).
  Notation empty := (op_empty HO).

  (** * Definitions of the interface *)
  Definition tnode (s : slots H) (r : nat) (o : N) : option (node H) :=
    find_coord (layout HO s) r o.
  Definition thash (s : slots H) (r : nat) (o : N) : option H :=
    option_map (@nhash H) (find_coord (layout HO s) r o).

  Definition coord (x : node H) : nat * N := (nrow x, noff x).
  (** the slots below a node: [nlo x <= i < nhi x] *)
  Definition nlo (x : node H) : N := (noff x * p2 (nrow x))%N.
  Definition nhi (x : node H) : N := ((noff x + 1) * p2 (nrow x))%N.

  Lemma nlo_lt_nhi x : (nlo x < nhi x)%N.
  Proof. unfold nlo, nhi. pose proof (p2_pos (nrow x)). lia. Qed.

  (** two nodes separated by a slot boundary have different coordinates *)
  Lemma coord_sep x y B : (nhi x <= B)%N -> (B <= nlo y)%N -> coord x <> coord y.
  Proof.
    intros Hx Hy E. unfold coord in E. injection E as Er Eo.
    pose proof (nlo_lt_nhi x) as Hlt. unfold nlo, nhi in *. rewrite Er, Eo in *. lia.
  Qed.

  (** * Part 1: [find_coord] *)

  Lemma find_coord_some (lay : list (node H)) r o x :
    find_coord lay r o = Some x -> In x lay /\ nrow x = r /\ noff x = o.
  Proof.
    induction lay as [|y lay IH]; cbn [find_coord]; [discriminate|].
    destruct (Nat.eqb_spec (nrow y) r) as [Er|Er]; cbn [andb].
    - destruct (N.eqb_spec (noff y) o) as [Eo|Eo].
      + intros E. injection E as <-. split; [left; reflexivity|split; assumption].
      + intros E. destruct (IH E) as (Hin & Hr & Ho). split; [right; exact Hin|split; assumption].
    - intros E. destruct (IH E) as (Hin & Hr & Ho). split; [right; exact Hin|split; assumption].
  Qed.

  Lemma find_coord_none (lay : list (node H)) r o :
    find_coord lay r o = None <-> (forall x, In x lay -> coord x <> (r, o)).
  Proof.
    induction lay as [|y lay IH]; cbn [find_coord].
    - split; [intros _ x []|reflexivity].
    - destruct (Nat.eqb_spec (nrow y) r) as [Er|Er]; cbn [andb];
        [destruct (N.eqb_spec (noff y) o) as [Eo|Eo]|].
      + split; [discriminate|]. intros Hall. exfalso.
        apply (Hall y (or_introl eq_refl)). unfold coord. congruence.
      + rewrite IH. split.
        * intros Hall x [<-|Hin]; [unfold coord; congruence|apply Hall, Hin].
        * intros Hall x Hin. apply Hall. right. exact Hin.
      + rewrite IH. split.
        * intros Hall x [<-|Hin]; [unfold coord; congruence|apply Hall, Hin].
        * intros Hall x Hin. apply Hall. right. exact Hin.
  Qed.

  Lemma find_coord_in (lay : list (node H)) x :
    NoDup (map coord lay) -> In x lay -> find_coord lay (nrow x) (noff x) = Some x.
  Proof.
    induction lay as [|y lay IH]; intros Hnd Hin; [destruct Hin|].
    cbn [map] in Hnd. inversion Hnd as [|c l Hny Hnd']; subst c l.
    cbn [find_coord]. destruct Hin as [<-|Hin].
    - rewrite Nat.eqb_refl, N.eqb_refl. reflexivity.
    - destruct (Nat.eqb_spec (nrow y) (nrow x)) as [Er|Er]; cbn [andb];
        [destruct (N.eqb_spec (noff y) (noff x)) as [Eo|Eo]|]; try (apply IH; assumption).
      exfalso. apply Hny. replace (coord y) with (coord x) by (unfold coord; congruence).
      apply in_map. exact Hin.
  Qed.

  (** * Part 2: one placed tree *)

  Definition cleafb (c : ctree H) : bool := match c with CLeaf _ => true | CNode _ _ _ => false end.
  Fixpoint cheight (c : ctree H) : nat :=
    match c with CLeaf _ => 0 | CNode _ l r => S (Nat.max (cheight l) (cheight r)) end.
  Fixpoint cwf (c : ctree H) : Prop :=
    match c with
    | CLeaf _ => True
    | CNode h l r => h = hash2 (chash l) (chash r) /\ cwf l /\ cwf r
    end.
  Fixpoint cleaves (c : ctree H) : list H :=
    match c with CLeaf h => [h] | CNode _ l r => cleaves l ++ cleaves r end.
  Definition oleaves (t : option (ctree H)) : list H :=
    match t with None => [] | Some c => cleaves c end.

  (** the node placed for the root of [c] *)
  Definition head_node (c : ctree H) (r : nat) (o : N) (b : bool) (tr : nat) : node H :=
    mkNode r o (chash c) (cleafb c) b tr.

  Lemma place_tree_head (c : ctree H) r o b tr :
    exists l, place_tree c r o b tr = head_node c r o b tr :: l.
  Proof. destruct c; cbn [place_tree]; eexists; reflexivity. Qed.

  Lemma place_tree_head_in (c : ctree H) r o b tr : In (head_node c r o b tr) (place_tree c r o b tr).
  Proof. destruct (place_tree_head c r o b tr) as [l ->]. left. reflexivity. Qed.

  (** the slots below a placed node lie below the root of its tree *)
  Definition inrange (r : nat) (o : N) (x : node H) : Prop :=
    nrow x <= r /\ (o * p2 r <= nlo x)%N /\ (nhi x <= (o + 1) * p2 r)%N.

  Lemma place_tree_range (c : ctree H) : forall r o b tr x,
    In x (place_tree c r o b tr) -> inrange r o x.
  Proof.
    induction c as [h|h l IHl rr IHr]; intros r o b tr x Hin; cbn [place_tree] in Hin.
    - destruct Hin as [<-|[]]. unfold inrange, nlo, nhi. cbn [nrow noff]. lia.
    - destruct Hin as [<-|Hin]; [unfold inrange, nlo, nhi; cbn [nrow noff]; lia|].
      destruct r as [|r']; [destruct Hin|].
      apply in_app_or in Hin as [Hin|Hin]; [apply IHl in Hin|apply IHr in Hin];
        unfold inrange in *; rewrite p2_S; lia.
  Qed.

  (** every node but the head sits strictly below the root row and is no root *)
  Lemma place_tree_tail (c : ctree H) r o b tr x :
    In x (place_tree c r o b tr) -> x = head_node c r o b tr \/ (nrow x < r /\ nroot x = false).
  Proof.
    revert r o b tr x.
    induction c as [h|h l IHl rr IHr]; intros r o b tr x Hin; cbn [place_tree] in Hin.
    - destruct Hin as [<-|[]]. left. reflexivity.
    - destruct Hin as [<-|Hin]; [left; reflexivity|]. right.
      destruct r as [|r']; [destruct Hin|].
      apply in_app_or in Hin as [Hin|Hin].
      + pose proof (place_tree_range _ _ _ _ _ _ Hin) as (Hr & _).
        destruct (IHl _ _ _ _ _ Hin) as [->|[_ Hn]]; [cbn [head_node nroot nrow]|]; split;
          try lia; try reflexivity; try assumption.
      + pose proof (place_tree_range _ _ _ _ _ _ Hin) as (Hr & _).
        destruct (IHr _ _ _ _ _ Hin) as [->|[_ Hn]]; [cbn [head_node nroot nrow]|]; split;
          try lia; try reflexivity; try assumption.
  Qed.

  Lemma place_tree_ntree (c : ctree H) : forall r o b tr x, In x (place_tree c r o b tr) -> ntree x = tr.
  Proof.
    induction c as [h|h l IHl rr IHr]; intros r o b tr x Hin; cbn [place_tree] in Hin.
    - destruct Hin as [<-|[]]. reflexivity.
    - destruct Hin as [<-|Hin]; [reflexivity|]. destruct r as [|r']; [destruct Hin|].
      apply in_app_or in Hin as [Hin|Hin]; [exact (IHl _ _ _ _ _ Hin)|exact (IHr _ _ _ _ _ Hin)].
  Qed.

  Lemma place_tree_nodup (c : ctree H) : forall r o b tr, NoDup (map coord (place_tree c r o b tr)).
  Proof.
    induction c as [h|h l IHl rr IHr]; intros r o b tr; cbn [place_tree map].
    - constructor; [intros []|constructor].
    - destruct r as [|r']; [constructor; [intros []|constructor]|].
      constructor.
      + intros Hin. apply in_map_iff in Hin as (x & Ex & Hin).
        assert (Hr : nrow x <= r').
        { apply in_app_or in Hin as [Hin|Hin]; apply place_tree_range in Hin; apply Hin. }
        unfold coord in Ex. cbn [nrow noff] in Ex. injection Ex as Er _. lia.
      + rewrite map_app. apply NoDup_app_intro; [apply IHl|apply IHr|].
        intros cxy Hx Hy.
        apply in_map_iff in Hx as (x & Ex & Hx). apply in_map_iff in Hy as (y & Ey & Hy).
        apply place_tree_range in Hx as (_ & _ & Hx). apply place_tree_range in Hy as (_ & Hy & _).
        apply (coord_sep x y ((2 * o + 1) * p2 r')%N); [exact Hx|lia|congruence].
  Qed.

  (** the structure of a placed well-formed tree: every node is a leaf of the tree or an inner
      node with both children placed one row below at offsets [2o], [2o+1] *)
  Lemma place_tree_cases (c : ctree H) : forall r o b tr x,
    cwf c -> cheight c <= r -> In x (place_tree c r o b tr) ->
    (nleaf x = true /\ In (nhash x) (cleaves c)) \/
    (nleaf x = false /\ exists r' xl xr,
        nrow x = S r' /\
        In xl (place_tree c r o b tr) /\ In xr (place_tree c r o b tr) /\
        coord xl = (r', (2 * noff x)%N) /\ coord xr = (r', (2 * noff x + 1)%N) /\
        nhash x = hash2 (nhash xl) (nhash xr)).
  Proof.
    induction c as [h|h l IHl rr IHr]; intros r o b tr x Hwf Hht Hin.
    - cbn [place_tree] in Hin. destruct Hin as [<-|[]]. left. cbn. split; [reflexivity|left; reflexivity].
    - cbn [cwf] in Hwf. destruct Hwf as (Hh & Hwl & Hwr). cbn [cheight] in Hht.
      destruct r as [|r']; [lia|].
      assert (Hhl : cheight l <= r') by lia. assert (Hhr : cheight rr <= r') by lia.
      cbn [place_tree] in *. destruct Hin as [<-|Hin].
      + right. cbn [nleaf nrow noff nhash]. split; [reflexivity|].
        exists r', (head_node l r' (2 * o) false tr), (head_node rr r' (2 * o + 1) false tr).
        split; [reflexivity|]. split; [|split].
        * right. apply in_or_app. left. apply place_tree_head_in.
        * right. apply in_or_app. right. apply place_tree_head_in.
        * cbn [head_node coord nrow noff nhash]. auto.
      + apply in_app_or in Hin as [Hin|Hin].
        * destruct (IHl _ _ _ _ _ Hwl Hhl Hin) as [[Hlf Hh']|[Hlf (r'' & xl & xr & Er & Hxl & Hxr & Hc)]].
          -- left. split; [exact Hlf|]. cbn [cleaves]. apply in_or_app. left. exact Hh'.
          -- right. split; [exact Hlf|]. exists r'', xl, xr. split; [exact Er|].
             split; [right; apply in_or_app; left; exact Hxl|].
             split; [right; apply in_or_app; left; exact Hxr|exact Hc].
        * destruct (IHr _ _ _ _ _ Hwr Hhr Hin) as [[Hlf Hh']|[Hlf (r'' & xl & xr & Er & Hxl & Hxr & Hc)]].
          -- left. split; [exact Hlf|]. cbn [cleaves]. apply in_or_app. right. exact Hh'.
          -- right. split; [exact Hlf|]. exists r'', xl, xr. split; [exact Er|].
             split; [right; apply in_or_app; right; exact Hxl|].
             split; [right; apply in_or_app; right; exact Hxr|exact Hc].
  Qed.

  (** no node of the tree lies strictly below a leaf node *)
  Lemma place_tree_leaf_bottom (c : ctree H) : forall r o b tr x y,
    In x (place_tree c r o b tr) -> In y (place_tree c r o b tr) ->
    nleaf x = true -> nrow y < nrow x -> (nlo x <= nlo y)%N -> (nlo y < nhi x)%N -> False.
  Proof.
    induction c as [h|h l IHl rr IHr]; intros r o b tr x y Hx Hy Hlf Hrow Hlo Hhi;
      cbn [place_tree] in Hx, Hy.
    - destruct Hx as [<-|[]]. destruct Hy as [<-|[]]. lia.
    - destruct Hx as [<-|Hx]; [discriminate Hlf|].
      destruct r as [|r']; [destruct Hx|].
      assert (Hxr : nrow x <= r').
      { apply in_app_or in Hx as [Hx|Hx]; apply place_tree_range in Hx; apply Hx. }
      destruct Hy as [<-|Hy]; [cbn [nrow] in Hrow; lia|].
      pose proof (nlo_lt_nhi y) as Hyy.
      apply in_app_or in Hx as [Hx|Hx]; apply in_app_or in Hy as [Hy|Hy].
      + exact (IHl _ _ _ _ _ _ Hx Hy Hlf Hrow Hlo Hhi).
      + apply place_tree_range in Hx as (_ & _ & Hx). apply place_tree_range in Hy as (_ & Hy & _).
        lia.
      + apply place_tree_range in Hx as (_ & Hx & _). apply place_tree_range in Hy as (_ & _ & Hy).
        lia.
      + exact (IHr _ _ _ _ _ _ Hx Hy Hlf Hrow Hlo Hhi).
  Qed.

  (** every non-head node has its parent in the tree *)
  Lemma place_tree_parent (c : ctree H) : forall r o b tr x,
    In x (place_tree c r o b tr) -> x = head_node c r o b tr \/
    exists p, In p (place_tree c r o b tr) /\ nleaf p = false /\
              nrow p = S (nrow x) /\ noff p = (noff x / 2)%N.
  Proof.
    induction c as [h|h l IHl rr IHr]; intros r o b tr x Hin; cbn [place_tree] in Hin.
    - destruct Hin as [<-|[]]. left. reflexivity.
    - destruct Hin as [<-|Hin]; [left; reflexivity|]. right.
      destruct r as [|r']; [destruct Hin|]. cbn [place_tree].
      apply in_app_or in Hin as [Hin|Hin].
      + destruct (IHl _ _ _ _ _ Hin) as [->|(p & Hp & Hpl & Hpr & Hpo)].
        * eexists. split; [left; reflexivity|]. cbn [head_node nleaf nrow noff].
          split; [reflexivity|split; [reflexivity|]].
          apply (N.div_unique _ _ _ 0%N); lia.
        * exists p. split; [right; apply in_or_app; left; exact Hp|auto].
      + destruct (IHr _ _ _ _ _ Hin) as [->|(p & Hp & Hpl & Hpr & Hpo)].
        * eexists. split; [left; reflexivity|]. cbn [head_node nleaf nrow noff].
          split; [reflexivity|split; [reflexivity|]].
          apply (N.div_unique _ _ _ 1%N); lia.
        * exists p. split; [right; apply in_or_app; right; exact Hp|auto].
  Qed.

  (** the leaf nodes of a placed tree carry exactly its leaves, in order *)
  Lemma place_tree_leaves (c : ctree H) : forall r o b tr, cheight c <= r ->
    map (@nhash H) (filter (@nleaf H) (place_tree c r o b tr)) = cleaves c.
  Proof.
    induction c as [h|h l IHl rr IHr]; intros r o b tr Hht; cbn [place_tree cleaves].
    - reflexivity.
    - cbn [cheight] in Hht. destruct r as [|r']; [lia|].
      cbn [filter nleaf]. rewrite filter_app, map_app, IHl, IHr by lia. reflexivity.
  Qed.

  (** * Part 3: compression *)

  Lemma join_leaves a b : oleaves (join HO a b) = oleaves a ++ oleaves b.
  Proof.
    destruct a as [ca|], b as [cb|]; cbn [join oleaves cleaves app]; try reflexivity.
    rewrite app_nil_r. reflexivity.
  Qed.

  Lemma live_app (a b : slots H) : live (a ++ b) = live a ++ live b.
  Proof. unfold live. apply flat_map_app. Qed.

  Lemma live_in (s : slots H) h : In h (live s) <-> In (Some h) s.
  Proof.
    unfold live. rewrite in_flat_map. split.
    - intros ([h'|] & Hin & Hh); [destruct Hh as [<-|[]]; exact Hin|destruct Hh].
    - intros Hin. exists (Some h). split; [exact Hin|left; reflexivity].
  Qed.

  (** the leaves of a compressed segment are its live slots, in order *)
  Lemma compress_leaves k : forall seg,
    oleaves (compress HO k seg) = live (firstn (2 ^ k) seg).
  Proof.
    induction k as [|k IH]; intros seg.
    - cbn [compress]. change (2 ^ 0) with 1. destruct seg as [|[h|] seg]; reflexivity.
    - rewrite compress_S, join_leaves, !IH, firstn_firstn, Nat.min_id, <- live_app.
      rewrite Nat.pow_succ_r'. replace (2 * 2 ^ k) with (2 ^ k + 2 ^ k) by lia.
      rewrite firstn_add. reflexivity.
  Qed.

  Lemma cleaves_nonnil (c : ctree H) : cleaves c <> [].
  Proof.
    induction c as [h|h l IHl r IHr]; cbn [cleaves]; [discriminate|].
    intros E. apply app_eq_nil in E as [E _]. exact (IHl E).
  Qed.

  Lemma compress_none k seg :
    compress HO k seg = None <-> live (firstn (2 ^ k) seg) = [].
  Proof.
    rewrite <- compress_leaves. destruct (compress HO k seg) as [c|]; cbn [oleaves].
    - split; [discriminate|]. intros E. exfalso. exact (cleaves_nonnil c E).
    - split; reflexivity.
  Qed.

  Lemma compress_wf k : forall seg c, compress HO k seg = Some c -> cwf c /\ cheight c <= k.
  Proof.
    induction k as [|k IH]; intros seg c Hc.
    - cbn [compress] in Hc. destruct seg as [|[h|] seg]; try discriminate.
      injection Hc as <-. cbn. split; [exact I|lia].
    - rewrite compress_S in Hc.
      destruct (compress HO k (firstn (2 ^ k) seg)) as [c1|] eqn:E1;
        destruct (compress HO k (skipn (2 ^ k) seg)) as [c2|] eqn:E2; cbn [join] in Hc;
        try discriminate; injection Hc as <-.
      + destruct (IH _ _ E1) as [W1 H1]. destruct (IH _ _ E2) as [W2 H2].
        cbn [cwf cheight]. split; [split; [reflexivity|split; assumption]|lia].
      + destruct (IH _ _ E1) as [W1 H1]. split; [exact W1|lia].
      + destruct (IH _ _ E2) as [W2 H2]. split; [exact W2|lia].
  Qed.

  (** [compress k] only reads the first [2^k] slots *)
  Lemma compress_firstn k : forall m seg,
    2 ^ k <= m -> compress HO k (firstn m seg) = compress HO k seg.
  Proof.
    induction k as [|k IH]; intros m seg Hm.
    - change (2 ^ 0) with 1 in Hm. destruct m as [|m]; [lia|].
      destruct seg as [|x seg]; reflexivity.
    - rewrite !compress_S. rewrite Nat.pow_succ_r' in Hm.
      rewrite firstn_firstn, Nat.min_l by lia.
      rewrite skipn_firstn_comm, (IH (m - 2 ^ k)) by lia. reflexivity.
  Qed.

  (** * Part 4: the entries of [trees] *)

  Lemma trees_entry k : forall lo s k' lo' t,
    length s < 2 ^ S k -> In (k', lo', t) (trees HO k lo s) ->
    k' <= k /\ (exists q, lo' = lo + q * p2 (S k'))%N /\
    (lo' + p2 k' <= lo + N.of_nat (length s))%N /\
    (lo + N.of_nat (length s) < lo' + p2 (S k'))%N /\
    t = compress HO k' (skipn (N.to_nat (lo' - lo)) s).
  Proof.
    induction k as [|k IH]; intros lo s k' lo' t Hlen Hin.
    - rewrite trees_0 in Hin. change (2 ^ 1) with 2 in Hlen.
      destruct (Nat.leb_spec 1 (length s)) as [Hge|Hlt]; [|destruct Hin].
      destruct Hin as [E|[]]. injection E as <- <- <-.
      split; [lia|]. split; [exists 0%N; lia|]. rewrite p2_S, p2_0.
      split; [lia|]. split; [lia|]. rewrite N.sub_diag. cbn [N.to_nat skipn].
      apply (compress_firstn 0 1 s). cbn. lia.
    - rewrite trees_S in Hin. pose proof (Nat.pow_succ_r' 2 (S k)) as Hpow.
      pose proof (p2_nat (S k)) as HpN. pose proof (p2_S (S k)) as HpS.
      rewrite Hpow in Hlen. remember (2 ^ S k) as sz eqn:Hsz.
      destruct (Nat.leb_spec sz (length s)) as [Hge|Hlt].
      + destruct Hin as [E|Hin].
        * injection E as <- <- <-. split; [lia|]. split; [exists 0%N; lia|].
          split; [lia|]. split; [lia|]. rewrite N.sub_diag. cbn [N.to_nat skipn].
          rewrite Hsz, <- compress_S. apply compress_firstn. lia.
        * apply IH in Hin; [|rewrite skipn_length; lia]. rewrite skipn_length in Hin.
          destruct Hin as (Hk' & (q & Hq) & H1 & H2 & Ht).
          split; [lia|]. split.
          { exists (p2 (S k - S k') + q)%N. rewrite Hq, N.mul_add_distr_r, <- p2_split by lia.
            lia. }
          split; [lia|]. split; [lia|]. rewrite Ht, <- skipn_add. f_equal. f_equal. lia.
      + apply IH in Hin; [|lia]. destruct Hin as (Hk' & Hq & H1 & H2 & Ht).
        split; [lia|]. split; [exact Hq|]. split; [exact H1|]. split; [exact H2|exact Ht].
  Qed.

  (** the tree of a set bit [k'] is entry number [popcount (n >> (k'+1))] *)
  Lemma trees_nth k : forall lo s k',
    length s < 2 ^ S k -> k' <= k ->
    N.testbit (N.of_nat (length s)) (N.of_nat k') = true ->
    exists lo' t,
      nth_error (trees HO k lo s)
        (N.to_nat (popcount (N.of_nat (length s) / p2 (S k')))) = Some (k', lo', t).
  Proof.
    induction k as [|k IH]; intros lo s k' Hlen Hk' Hbit.
    - assert (k' = 0) by lia. subst k'. rewrite trees_0. change (2 ^ 1) with 2 in Hlen.
      destruct (length s) as [|[|n]] eqn:El; [discriminate Hbit| |lia].
      cbn [Nat.leb]. eexists _, _. reflexivity.
    - rewrite trees_S. pose proof (Nat.pow_succ_r' 2 (S k)) as Hpow.
      pose proof (p2_nat (S k)) as HpN. pose proof (p2_S (S k)) as HpS.
      pose proof (p2_pos (S k)) as Hpp.
      rewrite Hpow in Hlen. remember (2 ^ S k) as sz eqn:Hsz.
      destruct (Nat.leb_spec sz (length s)) as [Hge|Hlt].
      + destruct (Nat.eq_dec k' (S k)) as [->|Hne].
        * rewrite N.div_small by lia. eexists _, _. reflexivity.
        * assert (Hk : k' <= k) by lia.
          set (n1 := N.of_nat (length (skipn sz s))).
          assert (Hn1 : N.of_nat (length s) = (p2 (S k - S k') * p2 (S k') + n1)%N).
          { unfold n1. rewrite skipn_length, <- p2_split by lia. lia. }
          destruct (IH (lo + N.of_nat sz)%N (skipn sz s) k') as (lo' & t & Hnth);
            [rewrite skipn_length; lia|exact Hk| |].
          { fold n1. rewrite Hn1, testbit_add_high in Hbit. exact Hbit. }
          exists lo', t. rewrite Hn1. pose proof (p2_pos (S k')) as Hpk.
          rewrite N.div_add_l by lia. fold n1 in Hnth.
          rewrite popcount_pow_add.
          2:{ apply N.div_lt_upper_bound; [lia|]. rewrite N.mul_comm, <- p2_split by lia.
              unfold n1. rewrite skipn_length. lia. }
          replace (N.to_nat (1 + popcount (n1 / p2 (S k'))))
            with (S (N.to_nat (popcount (n1 / p2 (S k'))))) by lia.
          cbn [nth_error]. exact Hnth.
      + destruct (Nat.eq_dec k' (S k)) as [->|Hne].
        * exfalso. rewrite (testbit_small (N.of_nat (length s)) (N.of_nat (S k))) in Hbit;
            [discriminate|fold (p2 (S k)); lia|lia].
        * apply IH; [lia|lia|exact Hbit].
  Qed.

  (** entries of [trees] start at multiples of their size *)
  Lemma trees_entry_aligned k lo s k' lo' t q0 :
    length s < 2 ^ S k -> lo = (q0 * p2 (S k))%N -> In (k', lo', t) (trees HO k lo s) ->
    exists q, lo' = (q * p2 k')%N.
  Proof.
    intros Hlen Hlo Hin. destruct (trees_entry k lo s k' lo' t Hlen Hin) as (Hk' & (q & Hq) & _).
    exists (q0 * p2 (S k - k') + 2 * q)%N.
    rewrite Hq, Hlo, (p2_split (S k) k'), (p2_S k') by lia. ring.
  Qed.

  (** * Part 5: the placed nodes of [trees] *)

  Lemma place_entry_eq k lo t q : lo = (q * p2 k)%N ->
    place_entry HO (k, lo, t) =
    match t with
    | None => [mkNode k q empty false true k]
    | Some c => place_tree c k q true k
    end.
  Proof.
    intros Hlo. cbn [place_entry]. fold (p2 k).
    replace (lo / p2 k)%N with q; [reflexivity|].
    rewrite Hlo, N.div_mul; [reflexivity|]. pose proof (p2_pos k). lia.
  Qed.

  Lemma place_entry_range k lo t q x : lo = (q * p2 k)%N -> In x (place_entry HO (k, lo, t)) ->
    nrow x <= k /\ (lo <= nlo x)%N /\ (nhi x <= lo + p2 k)%N.
  Proof.
    intros Hlo Hin. rewrite (place_entry_eq k lo t q Hlo) in Hin. destruct t as [c|].
    - apply place_tree_range in Hin. unfold inrange in Hin. lia.
    - destruct Hin as [<-|[]]. unfold nlo, nhi. cbn [nrow noff]. lia.
  Qed.

  Lemma place_entry_nodup k lo t : NoDup (map coord (place_entry HO (k, lo, t))).
  Proof.
    cbn [place_entry]. destruct t as [c|]; [apply place_tree_nodup|].
    cbn [map]. constructor; [intros []|constructor].
  Qed.

  Lemma trees_nodes_range k lo s q0 x :
    length s < 2 ^ S k -> lo = (q0 * p2 (S k))%N ->
    In x (flat_map (place_entry HO) (trees HO k lo s)) ->
    (lo <= nlo x)%N /\ (nhi x <= lo + N.of_nat (length s))%N.
  Proof.
    intros Hlen Hlo Hin. apply in_flat_map in Hin as ([[k' lo'] t] & He & Hx).
    destruct (trees_entry_aligned k lo s k' lo' t q0 Hlen Hlo He) as [q Hq].
    destruct (trees_entry k lo s k' lo' t Hlen He) as (Hk' & (q1 & Hq1) & H1 & H2 & _).
    destruct (place_entry_range k' lo' t q x Hq Hx) as (_ & H3 & H4). lia.
  Qed.

  Lemma trees_nodup k : forall lo s q0,
    length s < 2 ^ S k -> lo = (q0 * p2 (S k))%N ->
    NoDup (map coord (flat_map (place_entry HO) (trees HO k lo s))).
  Proof.
    induction k as [|k IH]; intros lo s q0 Hlen Hlo.
    - rewrite trees_0. destruct (1 <=? length s); [|constructor].
      cbn [flat_map]. rewrite app_nil_r. apply place_entry_nodup.
    - rewrite trees_S. pose proof (Nat.pow_succ_r' 2 (S k)) as Hpow.
      pose proof (p2_nat (S k)) as HpN. pose proof (p2_S (S k)) as HpS.
      rewrite Hpow in Hlen. remember (2 ^ S k) as sz eqn:Hsz.
      destruct (Nat.leb_spec sz (length s)) as [Hge|Hlt].
      + cbn [flat_map]. rewrite map_app.
        assert (Hlo1 : (lo + N.of_nat sz = (2 * q0 + 1) * p2 (S k))%N) by lia.
        assert (Hlen1 : length (skipn sz s) < sz) by (rewrite skipn_length; lia).
        assert (Hlen1' : length (skipn sz s) < 2 ^ S k) by (rewrite <- Hsz; exact Hlen1).
        apply NoDup_app_intro; [apply place_entry_nodup|exact (IH _ _ _ Hlen1 Hlo1)|].
        intros cxy Hx Hy.
        apply in_map_iff in Hx as (x & Ex & Hx). apply in_map_iff in Hy as (y & Ey & Hy).
        assert (Hlo0 : lo = (2 * q0 * p2 (S k))%N) by lia.
        destruct (place_entry_range (S k) lo _ _ x Hlo0 Hx) as (_ & _ & Hx').
        destruct (trees_nodes_range k _ _ _ y Hlen1' Hlo1 Hy) as (Hy' & _).
        apply (coord_sep x y (lo + p2 (S k))%N); [exact Hx'|lia|congruence].
      + apply (IH lo s (2 * q0)%N); [lia|lia].
  Qed.

  (** * Part 6: the entries of the forest of a state *)

  Lemma forest_len (s : slots H) : length s < 2 ^ S (Nat.log2 (length s)).
  Proof.
    destruct (Nat.eq_dec (length s) 0) as [E|E].
    - rewrite E. change (Nat.log2 0) with 0. change (2 ^ 1) with 2. lia.
    - apply Nat.log2_spec. lia.
  Qed.

  Lemma p2_S' k : p2 (S k) = (2 ^ (N.of_nat k + 1))%N.
  Proof. unfold p2. rewrite Nat2N.inj_succ, N.add_1_r. reflexivity. Qed.

  (** everything about one entry of the forest ([p2 k = 2 ^ N.of_nat k]) *)
  Lemma forest_entry s k lo t : In (k, lo, t) (forest HO s) ->
    N.testbit (N.of_nat (length s)) (N.of_nat k) = true /\
    lo = (N.of_nat (length s) / p2 (S k) * p2 (S k))%N /\
    lo = (2 * (N.of_nat (length s) / p2 (S k)) * p2 k)%N /\
    (lo + p2 k <= N.of_nat (length s))%N /\ (N.of_nat (length s) < lo + p2 (S k))%N /\
    t = compress HO k (skipn (N.to_nat lo) s).
  Proof.
    intros Hin. unfold forest in Hin.
    destruct (trees_entry _ _ _ _ _ _ (forest_len s) Hin) as (_ & (q & Hq) & H1 & H2 & Ht).
    rewrite N.add_0_l in *. rewrite N.sub_0_r in Ht. subst lo.
    destruct (seg_bit (N.of_nat (length s)) q k H1 H2) as [Hb Hqq].
    split; [exact Hb|]. rewrite <- Hqq. split; [reflexivity|]. split; [rewrite p2_S; lia|].
    split; [exact H1|]. split; [exact H2|exact Ht].
  Qed.

  Lemma forest_entry_unique s k lo t lo' t' :
    In (k, lo, t) (forest HO s) -> In (k, lo', t') (forest HO s) -> lo = lo' /\ t = t'.
  Proof.
    intros H1 H2. apply forest_entry in H1 as (_ & E1 & _ & _ & _ & T1).
    apply forest_entry in H2 as (_ & E2 & _ & _ & _ & T2).
    assert (E : lo = lo') by congruence. split; [exact E|]. rewrite T1, T2, E. reflexivity.
  Qed.

  (** trees of different rows occupy disjoint slot ranges, the higher tree first *)
  Lemma forest_entries_disjoint s k1 lo1 t1 k2 lo2 t2 :
    In (k1, lo1, t1) (forest HO s) -> In (k2, lo2, t2) (forest HO s) -> k2 < k1 ->
    (lo1 + p2 k1 <= lo2)%N.
  Proof.
    intros H1 H2 Hk.
    apply forest_entry in H1 as (_ & _ & E1 & L1 & _ & _).
    apply forest_entry in H2 as (_ & E2 & _ & _ & U2 & _).
    set (n := N.of_nat (length s)) in *.
    set (a := (2 * (n / p2 (S k1)) + 1)%N) in *.
    assert (Ea : (lo1 + p2 k1 = a * p2 (k1 - S k2) * p2 (S k2))%N).
    { rewrite <- N.mul_assoc, <- p2_split by lia. unfold a. lia. }
    set (q2 := (n / p2 (S k2))%N) in *. pose proof (p2_pos (S k2)) as Hp.
    assert (Hlt : (a * p2 (k1 - S k2) * p2 (S k2) < (q2 + 1) * p2 (S k2))%N) by lia.
    apply N.mul_lt_mono_pos_r in Hlt; [|exact Hp].
    assert (Hle : (a * p2 (k1 - S k2) * p2 (S k2) <= q2 * p2 (S k2))%N)
      by (apply N.mul_le_mono_r; lia).
    lia.
  Qed.

  (** every set bit of the leaf count has its tree *)
  Lemma forest_bit_entry s k :
    N.testbit (N.of_nat (length s)) (N.of_nat k) = true ->
    exists lo t,
      nth_error (forest HO s) (N.to_nat (popcount (N.of_nat (length s) / p2 (S k))))
      = Some (k, lo, t).
  Proof.
    intros Hb. unfold forest. apply trees_nth; [apply forest_len| |exact Hb].
    destruct (Nat.le_gt_cases k (Nat.log2 (length s))) as [Hle|Hgt]; [exact Hle|exfalso].
    pose proof (forest_len s) as Hlen.
    rewrite (testbit_small (N.of_nat (length s)) (N.of_nat (S (Nat.log2 (length s))))) in Hb;
      [discriminate| |lia].
    fold (p2 (S (Nat.log2 (length s)))). rewrite <- p2_nat. lia.
  Qed.

  Lemma layout_entry s x : In x (layout HO s) ->
    exists k lo t, In (k, lo, t) (forest HO s) /\ In x (place_entry HO (k, lo, t)).
  Proof.
    intros Hin. unfold layout in Hin. apply in_flat_map in Hin as ([[k lo] t] & He & Hx).
    exists k, lo, t. split; assumption.
  Qed.

  Lemma entry_layout s e x : In e (forest HO s) -> In x (place_entry HO e) -> In x (layout HO s).
  Proof. intros He Hx. unfold layout. apply in_flat_map. exists e. split; assumption. Qed.

  (** the nodes of an entry of the forest lie inside its slot range *)
  Lemma forest_entry_range s k lo t x :
    In (k, lo, t) (forest HO s) -> In x (place_entry HO (k, lo, t)) ->
    nrow x <= k /\ (lo <= nlo x)%N /\ (nhi x <= lo + p2 k)%N.
  Proof.
    intros He Hx. apply forest_entry in He as (_ & _ & E & _).
    exact (place_entry_range k lo t _ x E Hx).
  Qed.

  (** two nodes with overlapping slot ranges belong to the same tree *)
  Lemma layout_same_entry s k1 lo1 t1 k2 lo2 t2 x y :
    In (k1, lo1, t1) (forest HO s) -> In (k2, lo2, t2) (forest HO s) ->
    In x (place_entry HO (k1, lo1, t1)) -> In y (place_entry HO (k2, lo2, t2)) ->
    (nlo x <= nlo y)%N -> (nlo y < nhi x)%N -> k1 = k2 /\ lo1 = lo2 /\ t1 = t2.
  Proof.
    intros H1 H2 Hx Hy Hlo Hhi.
    destruct (forest_entry_range _ _ _ _ _ H1 Hx) as (_ & X1 & X2).
    destruct (forest_entry_range _ _ _ _ _ H2 Hy) as (_ & Y1 & Y2).
    pose proof (nlo_lt_nhi y) as Hy'.
    destruct (Nat.lt_trichotomy k1 k2) as [Hlt|[Heq|Hgt]].
    - pose proof (forest_entries_disjoint _ _ _ _ _ _ _ H2 H1 Hlt). lia.
    - subst k2. split; [reflexivity|]. exact (forest_entry_unique _ _ _ _ _ _ H1 H2).
    - pose proof (forest_entries_disjoint _ _ _ _ _ _ _ H1 H2 Hgt). lia.
  Qed.

  (** * L1: coordinates are valid *)

  Theorem layout_coords_valid s x : In x (layout HO s) ->
    ((noff x + 1) * 2 ^ N.of_nat (nrow x) <= N.of_nat (length s))%N.
  Proof.
    intros Hin. unfold layout, forest in Hin.
    destruct (trees_nodes_range _ 0%N s 0%N x (forest_len s) eq_refl Hin) as [_ Hhi].
    exact Hhi.
  Qed.

  (** ... in any height [K] with [n <= 2^K] *)
  Theorem layout_coords_rows s x K : In x (layout HO s) ->
    (N.of_nat (length s) <= 2 ^ N.of_nat K)%N ->
    nrow x <= K /\ (noff x < 2 ^ (N.of_nat K - N.of_nat (nrow x)))%N.
  Proof.
    intros Hin HK. pose proof (layout_coords_valid s x Hin) as Hv.
    fold (p2 (nrow x)) in Hv. fold (p2 K) in HK.
    pose proof (p2_pos (nrow x)) as Hp.
    assert (Hge : (p2 (nrow x) <= (noff x + 1) * p2 (nrow x))%N) by nia.
    assert (Hr : nrow x <= K).
    { destruct (Nat.le_gt_cases (nrow x) K) as [Hle|Hgt]; [exact Hle|exfalso].
      pose proof (p2_le (S K) (nrow x) Hgt) as Hle. rewrite p2_S in Hle.
      pose proof (p2_pos K). lia. }
    split; [exact Hr|].
    rewrite <- Nat2N.inj_sub. fold (p2 (K - nrow x)).
    rewrite (p2_split K (nrow x) Hr) in HK.
    assert (Hle : ((noff x + 1) * p2 (nrow x) <= p2 (K - nrow x) * p2 (nrow x))%N) by lia.
    apply N.mul_le_mono_pos_r in Hle; [lia|exact Hp].
  Qed.

  Lemma rows_of_upper n : (n <= 2 ^ N.of_nat (rows_of n))%N.
  Proof.
    unfold rows_of. rewrite N2Nat.id. exact (TreeRows_upper n).
  Qed.

  Corollary layout_coords_rows_of s x : In x (layout HO s) ->
    nrow x <= rows_of (num_leaves s) /\
    (noff x < 2 ^ (N.of_nat (rows_of (num_leaves s)) - N.of_nat (nrow x)))%N.
  Proof. intros Hin. apply (layout_coords_rows s x _ Hin), rows_of_upper. Qed.

  (** * L2: coordinates are pairwise distinct *)

  Theorem layout_coords_nodup s :
    NoDup (map (fun x : node H => (nrow x, noff x)) (layout HO s)).
  Proof. exact (trees_nodup _ 0%N s 0%N (forest_len s) eq_refl). Qed.

  Theorem tnode_in s x : In x (layout HO s) -> tnode s (nrow x) (noff x) = Some x.
  Proof. intros Hin. apply find_coord_in; [apply layout_coords_nodup|exact Hin]. Qed.

  Theorem tnode_some s r o x : tnode s r o = Some x ->
    In x (layout HO s) /\ nrow x = r /\ noff x = o.
  Proof. apply find_coord_some. Qed.

  Theorem tnode_iff s r o x :
    tnode s r o = Some x <-> In x (layout HO s) /\ nrow x = r /\ noff x = o.
  Proof.
    split; [apply tnode_some|]. intros (Hin & <- & <-). apply tnode_in, Hin.
  Qed.

  Theorem tnode_none s r o :
    tnode s r o = None <-> (forall x, In x (layout HO s) -> (nrow x, noff x) <> (r, o)).
  Proof. apply find_coord_none. Qed.

  Lemma thash_tnode s r o : thash s r o = option_map (@nhash H) (tnode s r o).
  Proof. reflexivity. Qed.

  (** * L3: the roots *)

  Theorem root_node s k lo t : In (k, lo, t) (forest HO s) ->
    N.testbit (N.of_nat (length s)) (N.of_nat k) = true /\
    lo = (N.of_nat (length s) / 2 ^ (N.of_nat k + 1) * 2 ^ (N.of_nat k + 1))%N /\
    (lo / 2 ^ N.of_nat k = 2 * (N.of_nat (length s) / 2 ^ (N.of_nat k + 1)))%N /\
    exists x, tnode s k (lo / 2 ^ N.of_nat k) = Some x /\
              nroot x = true /\ nhash x = root_hash HO t /\ ntree x = k.
  Proof.
    intros Hin. pose proof (forest_entry _ _ _ _ Hin) as (Hb & E1 & E2 & _).
    rewrite <- p2_S'. split; [exact Hb|]. split; [exact E1|].
    assert (Ediv : (lo / 2 ^ N.of_nat k = 2 * (N.of_nat (length s) / p2 (S k)))%N).
    { fold (p2 k). rewrite E2 at 1. apply N.div_mul. pose proof (p2_pos k). lia. }
    split; [exact Ediv|].
    set (o := (lo / 2 ^ N.of_nat k)%N) in *.
    assert (Hx : exists x, In x (place_entry HO (k, lo, t)) /\ nrow x = k /\ noff x = o /\
                           nroot x = true /\ nhash x = root_hash HO t /\ ntree x = k).
    { cbn [place_entry]. fold o. destruct t as [c|].
      - exists (head_node c k o true k). split; [apply place_tree_head_in|]. cbn. auto.
      - eexists. split; [left; reflexivity|]. cbn. auto. }
    destruct Hx as (x & Hx & Hr & Ho & Hroot & Hh & Ht).
    exists x. split; [|auto]. rewrite <- Hr, <- Ho. apply tnode_in.
    exact (entry_layout s _ x Hin Hx).
  Qed.

  (** conversely, a node flagged as root is the root of an entry of the forest *)
  Theorem root_node_conv s x : In x (layout HO s) -> nroot x = true ->
    exists k lo t, In (k, lo, t) (forest HO s) /\
      nrow x = k /\ noff x = (lo / 2 ^ N.of_nat k)%N /\ nhash x = root_hash HO t /\ ntree x = k.
  Proof.
    intros Hin Hroot. destruct (layout_entry s x Hin) as (k & lo & t & He & Hx).
    exists k, lo, t. split; [exact He|]. cbn [place_entry] in Hx. destruct t as [c|].
    - destruct (place_tree_tail _ _ _ _ _ _ Hx) as [->|[_ Hn]]; [cbn; auto|congruence].
    - destruct Hx as [<-|[]]. cbn. auto.
  Qed.

  (** the tree of row [k] is entry number [popcount (n >> (k+1))] of the forest *)
  Theorem roots_nth s k lo t : In (k, lo, t) (forest HO s) ->
    nth_error (roots HO s)
      (N.to_nat (popcount (N.shiftr (N.of_nat (length s)) (N.of_nat k + 1))))
    = Some (root_hash HO t).
  Proof.
    intros Hin. pose proof (forest_entry _ _ _ _ Hin) as (Hb & _).
    destruct (forest_bit_entry s k Hb) as (lo' & t' & Hnth).
    rewrite N.shiftr_div_pow2, <- p2_S'.
    destruct (forest_entry_unique _ _ _ _ _ _ Hin (nth_error_In _ _ Hnth)) as [<- <-].
    unfold roots. apply (map_nth_error (fun e => root_hash HO (snd e)) _ _ Hnth).
  Qed.

  (** a set bit gives a root *)
  Theorem roots_nth_bit s k : N.testbit (N.of_nat (length s)) (N.of_nat k) = true ->
    exists lo t, In (k, lo, t) (forest HO s) /\
      nth_error (roots HO s)
        (N.to_nat (popcount (N.shiftr (N.of_nat (length s)) (N.of_nat k + 1))))
      = Some (root_hash HO t).
  Proof.
    intros Hb. destruct (forest_bit_entry s k Hb) as (lo & t & Hnth).
    apply nth_error_In in Hnth. exists lo, t. split; [exact Hnth|].
    apply (roots_nth s k lo t Hnth).
  Qed.

  (** * L4: the cases of a node *)

  Lemma in_firstn (A : Type) (a : A) n l : In a (firstn n l) -> In a l.
  Proof. intros Hin. rewrite <- (firstn_skipn n l). apply in_or_app. left. exact Hin. Qed.
  Lemma in_skipn (A : Type) (a : A) n l : In a (skipn n l) -> In a l.
  Proof. intros Hin. rewrite <- (firstn_skipn n l). apply in_or_app. right. exact Hin. Qed.

  (** the two child coordinates of [(r, o)] hold no node *)
  Definition no_children (s : slots H) (r : nat) (o : N) : Prop :=
    forall r', r = S r' -> tnode s r' (2 * o) = None /\ tnode s r' (2 * o + 1) = None.

  Inductive node_case (s : slots H) (r : nat) (o : N) (x : node H) : Prop :=
  | NC_inner (r' : nat) (xl xr : node H) :
      nleaf x = false -> r = S r' ->
      tnode s r' (2 * o) = Some xl -> tnode s r' (2 * o + 1) = Some xr ->
      nhash x = hash2 (nhash xl) (nhash xr) ->
      ntree xl = ntree x -> ntree xr = ntree x -> nroot xl = false -> nroot xr = false ->
      node_case s r o x
  | NC_leaf :
      nleaf x = true -> In (Some (nhash x)) s -> no_children s r o ->
      node_case s r o x
  | NC_empty :
      nroot x = true -> nleaf x = false -> nhash x = empty -> ntree x = r ->
      live (firstn (2 ^ r) (skipn (N.to_nat (o * 2 ^ N.of_nat r)) s)) = [] ->
      no_children s r o ->
      node_case s r o x.

  (** a node below which its own tree has nothing has no children in the layout *)
  Lemma no_children_of s k lo t x :
    In (k, lo, t) (forest HO s) -> In x (place_entry HO (k, lo, t)) ->
    (forall y, In y (place_entry HO (k, lo, t)) ->
               nrow y < nrow x -> (nlo x <= nlo y)%N -> (nlo y < nhi x)%N -> False) ->
    no_children s (nrow x) (noff x).
  Proof.
    intros He Hx Hbot r' Er.
    assert (Hgen : forall o', (o' = 2 * noff x \/ o' = 2 * noff x + 1)%N -> tnode s r' o' = None).
    { intros o' Ho'. apply tnode_none. intros y Hy Ec. injection Ec as Ery Eoy.
      destruct (layout_entry s y Hy) as (k2 & lo2 & t2 & He2 & Hy2).
      pose proof (p2_pos r') as Hp.
      assert (Hlo : (nlo x <= nlo y)%N) by (unfold nlo; rewrite Ery, Eoy, Er, p2_S; lia).
      assert (Hhi : (nlo y < nhi x)%N) by (unfold nlo, nhi; rewrite Ery, Eoy, Er, p2_S; lia).
      destruct (layout_same_entry s _ _ _ _ _ _ x y He He2 Hx Hy2 Hlo Hhi) as (<- & <- & <-).
      apply (Hbot y Hy2); [lia|exact Hlo|exact Hhi]. }
    split; apply Hgen; [left|right]; reflexivity.
  Qed.

  Theorem node_cases s r o x : tnode s r o = Some x -> node_case s r o x.
  Proof.
    intros Hx. apply tnode_some in Hx as (Hin & <- & <-).
    destruct (layout_entry s x Hin) as (k & lo & t & He & Hxe).
    pose proof (forest_entry _ _ _ _ He) as (Hb & E1 & E2 & L1 & U1 & Ht).
    pose proof (place_entry_eq k lo t _ E2) as Hpe.
    set (q := (2 * (N.of_nat (length s) / p2 (S k)))%N) in *.
    destruct t as [c|].
    - symmetry in Ht. destruct (compress_wf _ _ _ Ht) as [Hwf Hht].
      pose proof Hxe as Hxe'. rewrite Hpe in Hxe'.
      destruct (place_tree_cases c k q true k x Hwf Hht Hxe')
        as [[Hlf Hh]|[Hlf (r' & xl & xr & Er & Hxl & Hxr & Cl & Cr & Hh)]].
      + apply NC_leaf; [exact Hlf| |].
        * assert (Hl : In (nhash x) (oleaves (compress HO k (skipn (N.to_nat lo) s))))
            by (rewrite Ht; exact Hh).
          rewrite compress_leaves in Hl. apply live_in in Hl.
          exact (in_skipn _ _ _ _ (in_firstn _ _ _ _ Hl)).
        * apply (no_children_of s k lo (Some c) x He Hxe). rewrite Hpe.
          intros y Hy Hrow Hlo Hhi.
          exact (place_tree_leaf_bottom c k q true k x y Hxe' Hy Hlf Hrow Hlo Hhi).
      + pose proof (f_equal fst Cl) as Clr. pose proof (f_equal snd Cl) as Clo.
        pose proof (f_equal fst Cr) as Crr. pose proof (f_equal snd Cr) as Cro.
        cbn [fst snd coord] in Clr, Clo, Crr, Cro.
        assert (Hnr : forall y, In y (place_tree c k q true k) -> nrow y = r' -> nroot y = false).
        { intros y Hy Hyr. destruct (place_tree_tail _ _ _ _ _ _ Hy) as [->|[_ Hn]]; [|exact Hn].
          cbn [head_node nrow] in Hyr. apply place_tree_range in Hxe' as (Hle & _). lia. }
        apply (NC_inner s (nrow x) (noff x) x r' xl xr); try assumption.
        * rewrite <- Clr, <- Clo. apply tnode_in. apply (entry_layout s _ xl He).
          rewrite Hpe. exact Hxl.
        * rewrite <- Crr, <- Cro. apply tnode_in. apply (entry_layout s _ xr He).
          rewrite Hpe. exact Hxr.
        * rewrite (place_tree_ntree _ _ _ _ _ _ Hxl), (place_tree_ntree _ _ _ _ _ _ Hxe').
          reflexivity.
        * rewrite (place_tree_ntree _ _ _ _ _ _ Hxr), (place_tree_ntree _ _ _ _ _ _ Hxe').
          reflexivity.
        * exact (Hnr xl Hxl Clr).
        * exact (Hnr xr Hxr Crr).
    - pose proof Hxe as Hxe'. rewrite Hpe in Hxe'. destruct Hxe' as [Ex|[]].
      apply NC_empty; try (rewrite <- Ex; reflexivity).
      + apply compress_none. rewrite <- Ex. cbn [nrow noff]. fold (p2 k).
        rewrite <- E2. symmetry. exact Ht.
      + apply (no_children_of s k lo None x He Hxe). rewrite Hpe.
        intros y [Ey|[]] Hrow _ _. rewrite <- Ey, <- Ex in Hrow. cbn [nrow] in Hrow. lia.
  Qed.

  (** with a node hash that is never the empty hash, the inner case is visible in the hash *)
  Lemma node_case_inner_nonempty (xl xr x : node H) :
    (forall a b, hash2 a b <> empty) -> nhash x = hash2 (nhash xl) (nhash xr) -> nhash x <> empty.
  Proof. intros Hh2 E. rewrite E. apply Hh2. Qed.

  (** children coordinates of a leaf / of an empty root hold no node *)
  Theorem leaf_children_none s r' o x :
    tnode s (S r') o = Some x -> nleaf x = true ->
    tnode s r' (2 * o) = None /\ tnode s r' (2 * o + 1) = None.
  Proof.
    intros Hx Hlf. destruct (node_cases s _ _ x Hx) as [? ? ? Hn|_ _ Hc|_ Hn]; try congruence.
    exact (Hc r' eq_refl).
  Qed.

  Theorem empty_root_children_none s r' o x :
    tnode s (S r') o = Some x -> nleaf x = false -> nhash x = empty ->
    (forall a b, hash2 a b <> empty) ->
    tnode s r' (2 * o) = None /\ tnode s r' (2 * o + 1) = None.
  Proof.
    intros Hx Hlf He Hh2.
    destruct (node_cases s _ _ x Hx) as [? ? ? _ _ _ _ Hh|Hn|_ _ _ _ _ Hc].
    - exfalso. rewrite Hh in He. exact (Hh2 _ _ He).
    - congruence.
    - exact (Hc r' eq_refl).
  Qed.

  (** every node that is not a root has its (inner) parent one row up at offset [o / 2] *)
  Theorem node_parent s r o x : tnode s r o = Some x -> nroot x = false ->
    exists p, tnode s (S r) (o / 2) = Some p /\ nleaf p = false /\ ntree p = ntree x /\
              S r <= ntree x.
  Proof.
    intros Hx Hnr. apply tnode_some in Hx as (Hin & <- & <-).
    destruct (layout_entry s x Hin) as (k & lo & t & He & Hxe).
    pose proof (forest_entry _ _ _ _ He) as (_ & _ & E2 & _).
    pose proof (place_entry_eq k lo t _ E2) as Hpe. pose proof Hxe as Hxe'. rewrite Hpe in Hxe'.
    destruct t as [c|].
    - destruct (place_tree_parent _ _ _ _ _ _ Hxe') as [Ex|(p & Hp & Hpl & Hpr & Hpo)].
      + rewrite Ex in Hnr. discriminate Hnr.
      + exists p. rewrite <- Hpr, <- Hpo. split.
        * apply tnode_in. apply (entry_layout s _ p He). rewrite Hpe. exact Hp.
        * split; [exact Hpl|].
          rewrite (place_tree_ntree _ _ _ _ _ _ Hp), (place_tree_ntree _ _ _ _ _ _ Hxe').
          split; [reflexivity|]. apply place_tree_range in Hp as (Hle & _). lia.
    - destruct Hxe' as [Ex|[]]. rewrite <- Ex in Hnr. discriminate Hnr.
  Qed.

  (** ... and its sibling next to it; the parent hashes the two in offset order *)
  Theorem node_sibling s r o x : tnode s r o = Some x -> nroot x = false ->
    exists p sib,
      tnode s (S r) (o / 2) = Some p /\ tnode s r (N.lxor o 1) = Some sib /\
      nleaf p = false /\ ntree p = ntree x /\ ntree sib = ntree x /\ nroot sib = false /\
      nhash p = if N.even o then hash2 (nhash x) (nhash sib) else hash2 (nhash sib) (nhash x).
  Proof.
    intros Hx Hnr. destruct (node_parent s r o x Hx Hnr) as (p & Hp & Hpl & Hpt & _).
    exists p. pose proof (N.div_mod' o 2) as Hdm. pose proof (mod2_even o) as Hm.
    rewrite lxor_1.
    destruct (node_cases s _ _ p Hp)
      as [r' xl xr _ Er Hxl Hxr Hh Htl Htr Hrl Hrr|Hn|_ _ _ _ _ Hc]; [|congruence|].
    - injection Er as <-. destruct (N.even o).
      + replace (2 * (o / 2))%N with o in * by lia.
        assert (xl = x) by congruence. subst xl.
        exists xr. repeat split; try assumption; congruence.
      + replace (2 * (o / 2) + 1)%N with o in * by lia.
        assert (xr = x) by congruence. subst xr.
        exists xl. replace (o - 1)%N with (2 * (o / 2))%N by lia.
        repeat split; try assumption; congruence.
    - exfalso. destruct (Hc r eq_refl) as [C1 C2].
      destruct (N.even o).
      + replace (2 * (o / 2))%N with o in * by lia. congruence.
      + replace (2 * (o / 2) + 1)%N with o in * by lia. congruence.
  Qed.

  (** * L5: positions and coordinates *)

  Lemma pos_gpos rows r o : pos rows r o = gpos (N.of_nat rows) (N.of_nat r) o.
  Proof. reflexivity. Qed.

  Lemma find_pos_coord_gen rows (lay : list (node H)) r o :
    (forall x, In x lay ->
       nrow x <= rows /\ (noff x < 2 ^ (N.of_nat rows - N.of_nat (nrow x)))%N) ->
    r <= rows -> (o < 2 ^ (N.of_nat rows - N.of_nat r))%N ->
    find_pos rows lay (pos rows r o) = find_coord lay r o.
  Proof.
    intros Hval Hr Ho. induction lay as [|y lay IH]; [reflexivity|].
    cbn [find_pos find_coord]. destruct (Hval y (or_introl eq_refl)) as [Hyr Hyo].
    assert (IH' := IH (fun x Hx => Hval x (or_intror Hx))). clear IH.
    unfold npos. rewrite !pos_gpos.
    destruct (N.eqb_spec (gpos (N.of_nat rows) (N.of_nat (nrow y)) (noff y))
                         (gpos (N.of_nat rows) (N.of_nat r) o)) as [E|E].
    - apply gpos_inj in E as [Er Eo]; try lia.
      apply Nat2N.inj in Er. rewrite Er, Eo, Nat.eqb_refl, N.eqb_refl. reflexivity.
    - destruct (Nat.eqb_spec (nrow y) r) as [Er|Er]; cbn [andb];
        [destruct (N.eqb_spec (noff y) o) as [Eo|Eo]|]; try exact IH'.
      exfalso. apply E. rewrite Er, Eo. reflexivity.
  Qed.

  Theorem find_pos_coord s r o :
    r <= rows_of (num_leaves s) ->
    (o < 2 ^ (N.of_nat (rows_of (num_leaves s)) - N.of_nat r))%N ->
    find_pos (rows_of (num_leaves s)) (layout HO s) (pos (rows_of (num_leaves s)) r o)
    = find_coord (layout HO s) r o.
  Proof.
    intros Hr Ho. apply find_pos_coord_gen; [|exact Hr|exact Ho].
    intros x Hx. apply layout_coords_rows_of, Hx.
  Qed.

  Lemma find_pos_some rows (lay : list (node H)) p x :
    find_pos rows lay p = Some x -> In x lay /\ npos rows x = p.
  Proof.
    induction lay as [|y lay IH]; cbn [find_pos]; [discriminate|].
    destruct (N.eqb_spec (npos rows y) p) as [E|E].
    - intros Ex. injection Ex as <-. split; [left; reflexivity|exact E].
    - intros Ex. destruct (IH Ex) as [Hin Hp]. split; [right; exact Hin|exact Hp].
  Qed.

  (** a position that is the position of no node holds nothing *)
  Theorem find_pos_none rows (lay : list (node H)) p :
    find_pos rows lay p = None <-> (forall x, In x lay -> npos rows x <> p).
  Proof.
    induction lay as [|y lay IH]; cbn [find_pos].
    - split; [intros _ x []|reflexivity].
    - destruct (N.eqb_spec (npos rows y) p) as [E|E].
      + split; [discriminate|]. intros Hall. exfalso. exact (Hall y (or_introl eq_refl) E).
      + rewrite IH. split.
        * intros Hall x [<-|Hin]; [exact E|apply Hall, Hin].
        * intros Hall x Hin. apply Hall. right. exact Hin.
  Qed.

  (** whatever [find_pos] finds in the layout is the node at its coordinate *)
  Theorem find_pos_layout s p x :
    find_pos (rows_of (num_leaves s)) (layout HO s) p = Some x ->
    tnode s (nrow x) (noff x) = Some x /\ p = pos (rows_of (num_leaves s)) (nrow x) (noff x).
  Proof.
    intros Hf. apply find_pos_some in Hf as [Hin Hp]. split; [apply tnode_in, Hin|].
    symmetry. exact Hp.
  Qed.

  (** * L6: the leaves of the layout are the live leaves *)

  Lemma filter_flat_map (A B : Type) (f : B -> bool) (g : A -> list B) l :
    filter f (flat_map g l) = flat_map (fun a => filter f (g a)) l.
  Proof.
    induction l as [|a l IH]; [reflexivity|]. cbn [flat_map]. rewrite filter_app, IH. reflexivity.
  Qed.
  Lemma map_flat_map' (A B C : Type) (f : B -> C) (g : A -> list B) l :
    map f (flat_map g l) = flat_map (fun a => map f (g a)) l.
  Proof.
    induction l as [|a l IH]; [reflexivity|]. cbn [flat_map]. rewrite map_app, IH. reflexivity.
  Qed.
  Lemma flat_map_ext_in (A B : Type) (f g : A -> list B) l :
    (forall a, In a l -> f a = g a) -> flat_map f l = flat_map g l.
  Proof.
    induction l as [|a l IH]; intros Hfg; [reflexivity|]. cbn [flat_map].
    rewrite (Hfg a (or_introl eq_refl)), IH; [reflexivity|].
    intros b Hb. apply Hfg. right. exact Hb.
  Qed.

  Lemma trees_leaves k : forall lo s, length s < 2 ^ S k ->
    flat_map (fun e : nat * N * option (ctree H) => oleaves (snd e)) (trees HO k lo s) = live s.
  Proof.
    induction k as [|k IH]; intros lo s Hlen.
    - rewrite trees_0. change (2 ^ 1) with 2 in Hlen.
      destruct s as [|x [|y s]]; cbn [length] in Hlen; [reflexivity| |lia].
      cbn [length Nat.leb flat_map snd]. rewrite app_nil_r, compress_leaves.
      change (2 ^ 0) with 1. reflexivity.
    - rewrite trees_S. pose proof (Nat.pow_succ_r' 2 (S k)) as Hpow. rewrite Hpow in Hlen.
      remember (2 ^ S k) as sz eqn:Hsz.
      destruct (Nat.leb_spec sz (length s)) as [Hge|Hlt].
      + cbn [flat_map snd]. rewrite IH by (rewrite skipn_length; lia).
        rewrite compress_leaves, <- Hsz, firstn_firstn, Nat.min_id, <- live_app, firstn_skipn.
        reflexivity.
      + apply IH. exact Hlt.
  Qed.

  Theorem layout_leaves s :
    map (@nhash H) (filter (@nleaf H) (layout HO s)) = live s.
  Proof.
    unfold layout. rewrite filter_flat_map, map_flat_map'.
    rewrite <- (trees_leaves (Nat.log2 (length s)) 0%N s (forest_len s)). fold (forest HO s).
    apply flat_map_ext_in. intros [[k lo] t] He.
    apply forest_entry in He as (_ & _ & _ & _ & _ & Ht). cbn [place_entry snd].
    destruct t as [c|]; [|reflexivity]. symmetry in Ht.
    destruct (compress_wf _ _ _ Ht) as [_ Hht]. cbn [oleaves].
    apply place_tree_leaves. exact Hht.
  Qed.

  Theorem live_leaf_in_layout s h : In (Some h) s ->
    exists x, In x (layout HO s) /\ nleaf x = true /\ nhash x = h.
  Proof.
    intros Hin. apply live_in in Hin. rewrite <- layout_leaves in Hin.
    apply in_map_iff in Hin as (x & Hh & Hx). apply filter_In in Hx as [Hx Hlf].
    exists x. auto.
  Qed.

  (** conversely every leaf node carries a live leaf *)
  Theorem layout_leaf_live s x : In x (layout HO s) -> nleaf x = true -> In (Some (nhash x)) s.
  Proof.
    intros Hin Hlf. apply live_in. rewrite <- layout_leaves. apply in_map, filter_In. auto.
  Qed.

  Lemma NoDup_map_inj_in (A B : Type) (f : A -> B) l x y :
    NoDup (map f l) -> In x l -> In y l -> f x = f y -> x = y.
  Proof.
    induction l as [|a l IH]; intros Hnd Hx Hy E; [destruct Hx|].
    cbn [map] in Hnd. inversion Hnd as [|b m Hna Hnd']; subst b m.
    destruct Hx as [<-|Hx], Hy as [<-|Hy]; [reflexivity| | |exact (IH Hnd' Hx Hy E)].
    - exfalso. apply Hna. rewrite E. apply in_map, Hy.
    - exfalso. apply Hna. rewrite <- E. apply in_map, Hx.
  Qed.

  (** with pairwise distinct live leaves, the leaf node of a hash is unique *)
  Theorem live_leaf_unique s x y : NoDup (live s) ->
    In x (layout HO s) -> In y (layout HO s) -> nleaf x = true -> nleaf y = true ->
    nhash x = nhash y -> x = y.
  Proof.
    intros Hnd Hx Hy Lx Ly E. rewrite <- layout_leaves in Hnd.
    apply (NoDup_map_inj_in _ _ (@nhash H) (filter (@nleaf H) (layout HO s)) x y Hnd);
      [apply filter_In; auto|apply filter_In; auto|exact E].
  Qed.

  (** [find_leaf] on the layout (needs a correct [op_eqb]) *)
  Lemma find_leaf_some (lay : list (node H)) h x : ops_ok HO ->
    find_leaf HO lay h = Some x -> In x lay /\ nleaf x = true /\ nhash x = h.
  Proof.
    intros Hok. induction lay as [|y lay IH]; cbn [find_leaf]; [discriminate|].
    destruct (nleaf y) eqn:Ly; cbn [andb].
    - destruct (op_eqb HO (nhash y) h) eqn:Ey.
      + intros Ex. injection Ex as <-. apply Hok in Ey. auto using in_eq.
      + intros Ex. destruct (IH Ex) as (Hin & Hl & Hh). auto using in_cons.
    - intros Ex. destruct (IH Ex) as (Hin & Hl & Hh). auto using in_cons.
  Qed.

  Lemma find_leaf_ex (lay : list (node H)) h : ops_ok HO ->
    (exists x, In x lay /\ nleaf x = true /\ nhash x = h) -> exists x, find_leaf HO lay h = Some x.
  Proof.
    intros Hok (x & Hin & Hl & Hh). induction lay as [|y lay IH]; [destruct Hin|].
    cbn [find_leaf]. destruct (nleaf y && op_eqb HO (nhash y) h) eqn:E; [eexists; reflexivity|].
    destruct Hin as [->|Hin]; [|exact (IH Hin)].
    exfalso. rewrite Hl in E. cbn [andb] in E.
    assert (Ht : op_eqb HO (nhash x) h = true) by (apply Hok; exact Hh). congruence.
  Qed.

  Theorem find_leaf_live s h : ops_ok HO ->
    In (Some h) s <->
    exists x, find_leaf HO (layout HO s) h = Some x /\
              tnode s (nrow x) (noff x) = Some x /\ nleaf x = true /\ nhash x = h.
  Proof.
    intros Hok. split.
    - intros Hin. destruct (find_leaf_ex (layout HO s) h Hok (live_leaf_in_layout s h Hin)) as [x Hx].
      exists x. split; [exact Hx|]. apply (find_leaf_some _ _ _ Hok) in Hx as (Hi & Hl & Hh).
      split; [apply tnode_in, Hi|auto].
    - intros (x & Hx & _). apply (find_leaf_some _ _ _ Hok) in Hx as (Hi & Hl & <-).
      apply layout_leaf_live; assumption.
  Qed.

  Theorem thash_some s r o h :
    thash s r o = Some h <-> exists x, tnode s r o = Some x /\ nhash x = h.
  Proof.
    unfold thash. fold (tnode s r o). destruct (tnode s r o) as [x|]; cbn [option_map].
    - split; [intros E; injection E as <-; exists x; auto|intros (y & E & <-); congruence].
    - split; [discriminate|intros (y & E & _); discriminate].
  Qed.

  (** the number of trees is the population count of the leaf count *)
  Lemma trees_length k : forall lo s, length s < 2 ^ S k ->
    N.of_nat (length (trees HO k lo s)) = popcount (N.of_nat (length s)).
  Proof.
    induction k as [|k IH]; intros lo s Hlen.
    - change (2 ^ 1) with 2 in Hlen.
      destruct s as [|x [|y s]]; cbn [length] in Hlen; [reflexivity|reflexivity|lia].
    - rewrite trees_S. pose proof (Nat.pow_succ_r' 2 (S k)) as Hpow. rewrite Hpow in Hlen.
      pose proof (p2_nat (S k)) as HpN. remember (2 ^ S k) as sz eqn:Hsz.
      destruct (Nat.leb_spec sz (length s)) as [Hge|Hlt].
      + cbn [length]. rewrite Nat2N.inj_succ, IH by (rewrite skipn_length; lia).
        rewrite skipn_length.
        replace (N.of_nat (length s)) with (p2 (S k) + N.of_nat (length s - sz))%N by lia.
        rewrite popcount_pow_add by lia. lia.
      + apply IH. exact Hlt.
  Qed.

  Theorem roots_length s : length (roots HO s) = N.to_nat (popcount (N.of_nat (length s))).
  Proof.
    unfold roots. rewrite map_length. unfold forest.
    rewrite <- (trees_length _ 0%N s (forest_len s)). lia.
  Qed.

  (** * More on the tree of a node *)

  Theorem layout_row_log2 s x : In x (layout HO s) -> nrow x <= Nat.log2 (length s).
  Proof.
    intros Hin. pose proof (layout_coords_valid s x Hin) as Hv. fold (p2 (nrow x)) in Hv.
    pose proof (p2_pos (nrow x)) as Hp. pose proof (p2_nat (nrow x)) as Hn.
    assert (Hge : (p2 (nrow x) <= (noff x + 1) * p2 (nrow x))%N) by nia.
    apply Nat.log2_le_pow2; lia.
  Qed.

  (** a node lies in the tree of row [ntree x], inside its slot range *)
  Theorem layout_node_tree s x : In x (layout HO s) ->
    exists lo t, In (ntree x, lo, t) (forest HO s) /\ In x (place_entry HO (ntree x, lo, t)) /\
      nrow x <= ntree x /\
      (lo <= noff x * 2 ^ N.of_nat (nrow x))%N /\
      ((noff x + 1) * 2 ^ N.of_nat (nrow x) <= lo + 2 ^ N.of_nat (ntree x))%N.
  Proof.
    intros Hin. destruct (layout_entry s x Hin) as (k & lo & t & He & Hx).
    assert (Ek : ntree x = k).
    { cbn [place_entry] in Hx. destruct t as [c|]; [exact (place_tree_ntree _ _ _ _ _ _ Hx)|].
      destruct Hx as [<-|[]]. reflexivity. }
    rewrite Ek. exists lo, t. split; [exact He|]. split; [exact Hx|].
    exact (forest_entry_range s k lo t x He Hx).
  Qed.

  (** the root of the tree of a node: row [ntree x], offset [noff x / 2^(ntree x - nrow x)] *)
  Theorem node_root s x : In x (layout HO s) ->
    exists rt, tnode s (ntree x) (noff x / 2 ^ N.of_nat (ntree x - nrow x)) = Some rt /\
               nroot rt = true /\ ntree rt = ntree x.
  Proof.
    intros Hin. destruct (layout_node_tree s x Hin) as (lo & t & He & _ & Hr & Hlo & Hhi).
    destruct (root_node s _ lo t He) as (_ & _ & Ediv & rt & Hrt & Hroot & _ & Htr).
    pose proof (forest_entry _ _ _ _ He) as (_ & _ & E2 & _).
    rewrite <- p2_S' in Ediv. rewrite Ediv in Hrt.
    set (q := (2 * (N.of_nat (length s) / p2 (S (ntree x))))%N) in *.
    exists rt. split; [|auto]. fold (p2 (ntree x - nrow x)).
    replace (noff x / p2 (ntree x - nrow x))%N with q; [exact Hrt|].
    fold (p2 (nrow x)) in Hlo, Hhi. fold (p2 (ntree x)) in Hhi.
    rewrite (p2_split (ntree x) (nrow x) Hr) in E2, Hhi. subst lo.
    pose proof (p2_pos (nrow x)) as Hp. pose proof (p2_pos (ntree x - nrow x)) as Hp'.
    rewrite N.mul_assoc in Hlo. apply N.mul_le_mono_pos_r in Hlo; [|exact Hp].
    assert (Hlt : (noff x * p2 (nrow x) < (q + 1) * p2 (ntree x - nrow x) * p2 (nrow x))%N) by lia.
    apply N.mul_lt_mono_pos_r in Hlt; [|exact Hp].
    apply (N.div_unique _ _ q (noff x - q * p2 (ntree x - nrow x))%N); lia.
  Qed.

End LayoutStruct.

(** [H] is implicit in the interface definitions (as in [Spec.Forest]); the theorems take
    [H HO] explicitly (as in [Proofs.StumpAdd]). *)
Arguments tnode {H} HO s r o.
Arguments thash {H} HO s r o.
Arguments coord {H} x.
Arguments nlo {H} x.
Arguments nhi {H} x.
Arguments no_children {H} HO s r o.
Arguments node_case {H} HO s r o x.

(** * Examples: a forest with dead slots and an empty root *)
From Utreexo Require Import Spec.Term.
Local Open Scope nat_scope.

Definition ls_ex : slots term :=
  [Some (Atom 1); None; Some (Atom 3); Some (Atom 4); None; None; Some (Atom 7)].

(** 7 = 0b111 leaves: trees of rows 2, 1, 0 at slots 0, 4, 6; the row-1 tree is empty *)
Example ls_ex_forest :
  forest term_ops ls_ex =
  [(2, 0%N, Some (CNode (Node (Atom 1) (Node (Atom 3) (Atom 4))) (CLeaf (Atom 1))
                        (CNode (Node (Atom 3) (Atom 4)) (CLeaf (Atom 3)) (CLeaf (Atom 4)))));
   (1, 4%N, None);
   (0, 6%N, Some (CLeaf (Atom 7)))].
Proof. vm_compute. reflexivity. Qed.

(** L2: pairwise distinct coordinates; leaf [Atom 1] moved up to row 1 *)
Example ls_ex_coords :
  map (fun x : node term => (nrow x, noff x)) (layout term_ops ls_ex) =
  [(2, 0%N); (1, 0%N); (1, 1%N); (0, 2%N); (0, 3%N); (1, 2%N); (0, 6%N)].
Proof. vm_compute. reflexivity. Qed.
Example ls_ex_nodup :
  NoDup (map (fun x : node term => (nrow x, noff x)) (layout term_ops ls_ex)).
Proof. exact (layout_coords_nodup term term_ops ls_ex). Qed.

(** L1 on every node: [(o+1) * 2^r <= 7] *)
Example ls_ex_valid :
  forallb (fun x : node term => ((noff x + 1) * 2 ^ N.of_nat (nrow x) <=? 7)%N)
          (layout term_ops ls_ex) = true.
Proof. vm_compute. reflexivity. Qed.

(** L3: the roots; row 1 (bit 1 of 7) is the empty root at offset [4 / 2 = 2 * (7 / 4)] *)
Example ls_ex_root1 :
  In (1, 4%N, None) (forest term_ops ls_ex) /\
  N.testbit 7 1 = true /\ (4 = 7 / 2 ^ (1 + 1) * 2 ^ (1 + 1))%N /\
  tnode term_ops ls_ex 1 2 =
    Some (mkNode 1 2%N Zero false true 1) /\
  nth_error (roots term_ops ls_ex) (N.to_nat (popcount (N.shiftr 7 (1 + 1)))) = Some Zero.
Proof. vm_compute. repeat split; auto. Qed.
Example ls_ex_root1_thm :
  exists x, tnode term_ops ls_ex 1 (4 / 2 ^ N.of_nat 1) = Some x /\ nroot x = true /\
            nhash x = root_hash term_ops None /\ ntree x = 1.
Proof.
  assert (Hin : In (1, 4%N, @None (ctree term)) (forest term_ops ls_ex))
    by (vm_compute; auto).
  exact (proj2 (proj2 (proj2 (root_node term term_ops ls_ex 1 4%N None Hin)))).
Qed.
Example ls_ex_roots_nth :
  nth_error (roots term_ops ls_ex)
    (N.to_nat (popcount (N.shiftr (N.of_nat (length ls_ex)) (N.of_nat 0 + 1)))) =
  Some (root_hash term_ops (Some (CLeaf (Atom 7)))).
Proof.
  apply (roots_nth term term_ops ls_ex 0 6%N). vm_compute. auto.
Qed.

(** L4: the three cases.  Inner: the root of the row-2 tree *)
Example ls_ex_inner :
  thash term_ops ls_ex 2 0 = Some (Node (Atom 1) (Node (Atom 3) (Atom 4))) /\
  thash term_ops ls_ex 1 0 = Some (Atom 1) /\
  thash term_ops ls_ex 1 1 = Some (Node (Atom 3) (Atom 4)).
Proof. vm_compute. auto. Qed.
(** Leaf: [Atom 1] sits at (1, 0); its child coordinates hold no node *)
Example ls_ex_leaf :
  tnode term_ops ls_ex 1 0 = Some (mkNode 1 0%N (Atom 1) true false 2) /\
  tnode term_ops ls_ex 0 0 = None /\ tnode term_ops ls_ex 0 1 = None.
Proof. vm_compute. auto. Qed.
Example ls_ex_leaf_thm :
  tnode term_ops ls_ex 0 (2 * 0) = None /\ tnode term_ops ls_ex 0 (2 * 0 + 1) = None.
Proof.
  apply (leaf_children_none term term_ops ls_ex 0 0%N (mkNode 1 0%N (Atom 1) true false 2));
    reflexivity.
Qed.
(** Empty root: (1, 2) has hash [Zero], no children, and slots 4..5 are dead *)
Example ls_ex_empty :
  tnode term_ops ls_ex 1 2 = Some (mkNode 1 2%N Zero false true 1) /\
  tnode term_ops ls_ex 0 4 = None /\ tnode term_ops ls_ex 0 5 = None /\
  live (firstn (2 ^ 1) (skipn (N.to_nat (2 * 2 ^ N.of_nat 1)) ls_ex)) = [].
Proof. vm_compute. auto. Qed.
Example ls_ex_node_case :
  node_case term_ops ls_ex 2 0 (mkNode 2 0%N (Node (Atom 1) (Node (Atom 3) (Atom 4))) false true 2).
Proof. apply node_cases. reflexivity. Qed.
(** parent and sibling of the leaf [Atom 3] at (0, 2) *)
Example ls_ex_sibling :
  tnode term_ops ls_ex 0 2 = Some (mkNode 0 2%N (Atom 3) true false 2) /\
  thash term_ops ls_ex 0 (N.lxor 2 1) = Some (Atom 4) /\
  thash term_ops ls_ex 1 (2 / 2) = Some (Node (Atom 3) (Atom 4)).
Proof. vm_compute. auto. Qed.

(** L5: positions ([rows = 3]) agree with coordinates on every valid coordinate *)
Example ls_ex_find_pos :
  rows_of (num_leaves ls_ex) = 3 /\
  forallb (fun r =>
    forallb (fun o =>
      match find_pos 3 (layout term_ops ls_ex) (pos 3 r (N.of_nat o)),
            find_coord (layout term_ops ls_ex) r (N.of_nat o) with
      | Some a, Some b => Nat.eqb (nrow a) (nrow b) && (noff a =? noff b)%N
      | None, None => true
      | _, _ => false
      end) (seq 0 (2 ^ (3 - r)))) (seq 0 4) = true.
Proof. vm_compute. auto. Qed.
Example ls_ex_find_pos_thm :
  find_pos 3 (layout term_ops ls_ex) (pos 3 1 2) = find_coord (layout term_ops ls_ex) 1 2.
Proof. apply (find_pos_coord term term_ops ls_ex 1 2%N); vm_compute; [lia|reflexivity]. Qed.
(** position 14 (the top of the 3-row frame) holds no node *)
Example ls_ex_find_pos_none : find_pos 3 (layout term_ops ls_ex) 14 = None.
Proof. vm_compute. reflexivity. Qed.

(** L6: the leaf nodes are the live leaves *)
Example ls_ex_leaves :
  map (@nhash term) (filter (@nleaf term) (layout term_ops ls_ex)) =
  [Atom 1; Atom 3; Atom 4; Atom 7] /\ live ls_ex = [Atom 1; Atom 3; Atom 4; Atom 7].
Proof. vm_compute. auto. Qed.

Print Assumptions layout_coords_valid.
Print Assumptions layout_coords_nodup.
Print Assumptions root_node.
Print Assumptions root_node_conv.
Print Assumptions roots_nth.
Print Assumptions node_cases.
Print Assumptions node_sibling.
Print Assumptions find_pos_coord.
Print Assumptions layout_leaves.
Print Assumptions find_leaf_live.
Print Assumptions node_root.
