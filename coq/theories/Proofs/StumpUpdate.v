(** The whole verifier-state update: [Stump.Update] (mirror) applied to the canonical proof of live
    leaves yields the reference roots and leaf count of the block applied to the slot list.
    Composition of [stump_del_refines] (Proofs/CalcComplete.v) and [stump_add_refines]
    (Proofs/StumpAdd.v); then lifted to whole histories. *)
From Utreexo Require Import Spec.Forest Spec.Oracle Model.Verify Proofs.SpecBasics Proofs.StumpAdd
     Proofs.CalcSound Proofs.LayoutStruct Proofs.CalcComplete.
From Coq Require Import Lia.
Open Scope N_scope.

Section StumpUpdate.
  Variable H : Type.
  Variable HO : ops H.
  Hypothesis HOK : ops_ok HO.
  Hypothesis Hnz : forall a b, NZ HO (op_hash2 HO a b).

  Lemma kill_live_sub dels s h : In (Some h) (kill HO dels s) -> In (Some h) s.
  Proof.
    unfold kill. rewrite in_map_iff. intros ([x|] & E & Hin); [|discriminate].
    destruct (memH HO x dels); [discriminate|]. injection E as <-. exact Hin.
  Qed.

  Theorem stump_update_refines filler s hs adds ts pf :
    (forall h, In (Some h) s -> NZ HO h) ->
    (forall h, In h adds -> NZ HO h) ->
    NoDup (live s) ->
    N.of_nat (length s + length adds) <= 2 ^ 63 ->
    NoDup hs ->
    exp_prove HO (mk_ctx HO s) hs = Some (ts, pf) ->
    exists st' ud,
      stump_update HO true filler (the_stump (mk_ctx HO s)) hs adds ts pf = (st', Ok ud) /\
      st_roots st' = roots HO (apply_block HO s hs adds) /\
      st_n st' = num_leaves (apply_block HO s hs adds) /\
      u_prev ud = num_leaves s.
  Proof.
    intros Hlive Hadds Hnd Hbound Hndh Ep.
    assert (Hn63 : N.of_nat (length s) <= 2 ^ 63) by lia.
    destruct (stump_del_refines HO s hs ts pf HOK Hnz Hlive Hnd Hn63 Hndh Ep)
      as (st1 & inter & Ed & Er & En).
    unfold stump_update. rewrite Ed.
    destruct st1 as [r1 n1]. cbn [st_roots st_n] in Er, En. subst r1 n1.
    assert (Hlen : num_leaves s = num_leaves (kill HO hs s))
      by (unfold num_leaves; rewrite length_kill; reflexivity).
    rewrite Hlen.
    pose proof (stump_add_refines H HO HOK Hnz true filler (kill HO hs s) adds) as Ha.
    assert (Hl2 : forall h, In (Some h) (kill HO hs s) -> op_eqb HO h (op_empty HO) = false)
      by (intros h Hh; apply Hlive, (kill_live_sub hs s h Hh)).
    assert (Hb2 : N.of_nat (length (kill HO hs s) + length adds) <= 2 ^ 63)
      by (rewrite length_kill; exact Hbound).
    specialize (Ha Hl2 Hadds Hb2).
    destruct (stump_add HO true filler
                (mkStump (roots HO (kill HO hs s)) (num_leaves (kill HO hs s))) adds)
      as [[st2 added] destroyed].
    destruct Ha as [Ha1 Ha2].
    eexists. eexists. split; [reflexivity|].
    unfold apply_block. cbn [u_prev st_n]. repeat split; assumption.
  Qed.
End StumpUpdate.

(** ** Whole histories: the roots-only verifier driven by the canonical proofs of the reference
    follows the reference forest block after block. *)
Section History.
  Variable H : Type.
  Variable HO : ops H.
  Hypothesis HOK : ops_ok HO.
  Hypothesis Hnz : forall a b, NZ HO (op_hash2 HO a b).

  Definition stump_of (s : slots H) : stump H := mkStump (roots HO s) (num_leaves s).

  (** run a history: at every block the deletions are proved on the reference ([exp_prove]) and the
      stump is updated with that proof *)
  Fixpoint run_stump (filler : H) (st : stump H) (s : slots H) (bs : list (list H * list H))
    : option (stump H * slots H) :=
    match bs with
    | [] => Some (st, s)
    | (dels, adds) :: rest =>
        match exp_prove HO (mk_ctx HO s) dels with
        | None => None
        | Some (ts, pf) =>
            match stump_update HO true filler st dels adds ts pf with
            | (st', Ok _) => run_stump filler st' (apply_block HO s dels adds) rest
            | _ => None
            end
        end
    end.

  (** a block is valid in state [s]: distinct live deletions, non-empty fresh distinct additions *)
  Definition valid_block (s : slots H) (b : list H * list H) : Prop :=
    NoDup (fst b) /\ (forall h, In h (fst b) -> In (Some h) s) /\
    NoDup (snd b) /\ (forall a, In a (snd b) -> NZ HO a /\ ~ In (Some a) s).
  Fixpoint valid_hist (s : slots H) (bs : list (list H * list H)) : Prop :=
    match bs with
    | [] => True
    | b :: rest => valid_block s b /\ valid_hist (apply_block HO s (fst b) (snd b)) rest
    end.
  Fixpoint total_adds (bs : list (list H * list H)) : nat :=
    match bs with [] => 0%nat | b :: rest => (length (snd b) + total_adds rest)%nat end.

  Lemma live_app (a b : slots H) : live (a ++ b) = live a ++ live b.
  Proof. unfold live. apply flat_map_app. Qed.
  Lemma live_map_some (l : list H) : live (map Some l) = l.
  Proof. induction l as [|x l IH]; cbn; [reflexivity|]. f_equal. exact IH. Qed.
  Lemma live_In (s : slots H) h : In h (live s) <-> In (Some h) s.
  Proof.
    unfold live. rewrite in_flat_map. split.
    - intros ([x|] & Hx & Hin); cbn in Hin; [destruct Hin as [<-|[]]; exact Hx|destruct Hin].
    - intros Hin. exists (Some h). split; [exact Hin|left; reflexivity].
  Qed.
  Lemma live_kill_NoDup dels (s : slots H) : NoDup (live s) -> NoDup (live (kill HO dels s)).
  Proof.
    induction s as [|[x|] s IH]; cbn; intros Hnd; [constructor| |apply IH; exact Hnd].
    inversion Hnd as [|? ? Hx Hnd']; subst.
    destruct (memH HO x dels); cbn; [apply IH; exact Hnd'|].
    constructor; [|apply IH; exact Hnd'].
    intros Hin. apply Hx. apply live_In. apply live_In in Hin.
    eapply kill_live_sub; exact Hin.
  Qed.

  Lemma NoDup_app_intro' (A : Type) (l1 l2 : list A) :
    NoDup l1 -> NoDup l2 -> (forall x, In x l1 -> ~ In x l2) -> NoDup (l1 ++ l2).
  Proof.
    induction l1 as [|a l1 IH]; intros H1 H2 H3; [exact H2|].
    cbn [app]. inversion H1 as [|a' l' Hna Hnd' Heq]; subst. constructor.
    - intros Hin. apply in_app_or in Hin. destruct Hin as [Hin|Hin];
        [exact (Hna Hin)|exact (H3 a (or_introl eq_refl) Hin)].
    - apply IH; [exact Hnd'|exact H2|]. intros x Hx. apply H3. right. exact Hx.
  Qed.

  (** every block's deletions are provable on the reference (they are, whenever they are live:
      [exp_prove] only fails on a hash that is not a live leaf) *)
  Fixpoint provable (s0 : slots H) (l : list (list H * list H)) : Prop :=
    match l with
    | [] => True
    | b :: rest => exp_prove HO (mk_ctx HO s0) (fst b) <> None /\
                   provable (apply_block HO s0 (fst b) (snd b)) rest
    end.
  Fixpoint apply_hist (s0 : slots H) (l : list (list H * list H)) : slots H :=
    match l with
    | [] => s0
    | b :: rest => apply_hist (apply_block HO s0 (fst b) (snd b)) rest
    end.

  Theorem stump_history_refines filler :
    forall bs s,
      (forall h, In (Some h) s -> NZ HO h) -> NoDup (live s) ->
      N.of_nat (length s + total_adds bs) <= 2 ^ 63 ->
      valid_hist s bs -> provable s bs ->
      run_stump filler (stump_of s) s bs = Some (stump_of (apply_hist s bs), apply_hist s bs).
  Proof.
    induction bs as [|[dels adds] bs IH]; intros s Hlive Hnd Hb Hv Hp.
    - reflexivity.
    - cbn [valid_hist fst snd] in Hv. destruct Hv as [(Hd1 & Hd2 & Ha1 & Ha2) Hv].
      cbn [total_adds snd] in Hb. destruct Hp as [Hp1 Hp]. cbn [fst snd] in Hp1, Hp.
      cbn [run_stump].
      destruct (exp_prove HO (mk_ctx HO s) dels) as [[ts pf]|] eqn:Ep; [|contradiction].
      destruct (stump_update_refines H HO HOK Hnz filler s dels adds ts pf Hlive
                  (fun a Ha => proj1 (Ha2 a Ha)) Hnd ltac:(lia) Hd1 Ep)
        as (st' & ud & Eu & Er & En & _).
      change (the_stump (mk_ctx HO s)) with (stump_of s) in Eu. rewrite Eu.
      destruct st' as [r n]. cbn [st_roots st_n] in Er, En. subst r n.
      change (mkStump (roots HO (apply_block HO s dels adds)) (num_leaves (apply_block HO s dels adds)))
        with (stump_of (apply_block HO s dels adds)).
      cbn [apply_hist fst snd]. apply IH; try assumption.
      + intros h Hh. unfold apply_block in Hh. apply in_app_or in Hh as [Hh|Hh].
        * apply Hlive. eapply kill_live_sub; exact Hh.
        * apply in_map_iff in Hh as (a & [= <-] & Ha). apply (proj1 (Ha2 a Ha)).
      + unfold apply_block. rewrite live_app, live_map_some.
        apply NoDup_app_intro'; [apply live_kill_NoDup; exact Hnd|exact Ha1|].
        intros x Hx Hxa. apply live_In in Hx. apply (proj2 (Ha2 x Hxa)).
        eapply kill_live_sub; exact Hx.
      + unfold apply_block. rewrite app_length, length_kill, map_length. lia.
  Qed.

  Lemma exp_prove_live s hs : (forall h, In h hs -> In (Some h) s) ->
    exp_prove HO (mk_ctx HO s) hs <> None.
  Proof.
    intros Hl. unfold exp_prove.
    assert (E : exists ts, find_leaves HO (clay (mk_ctx HO s)) hs = Some ts).
    { change (clay (mk_ctx HO s)) with (layout HO s).
      induction hs as [|h hs IH]; [eexists; reflexivity|]. cbn [find_leaves].
      destruct (proj1 (find_leaf_live H HO s h HOK) (Hl h (or_introl eq_refl))) as (x & Ex & _).
      rewrite Ex. destruct IH as [ts Ets]; [intros k Hk; apply Hl; right; exact Hk|].
      rewrite Ets. eexists; reflexivity. }
    destruct E as [ts ->]. discriminate.
  Qed.

  Lemma valid_provable bs : forall s, valid_hist s bs -> provable s bs.
  Proof.
    induction bs as [|b bs IH]; intros s Hv; [exact I|].
    destruct Hv as [(_ & Hd & _) Hv]. split; [apply exp_prove_live; exact Hd|apply IH; exact Hv].
  Qed.

  (** the statement over histories of valid blocks, from the empty accumulator *)
  Theorem stump_history_refines_empty filler bs :
    N.of_nat (total_adds bs) <= 2 ^ 63 -> valid_hist [] bs ->
    run_stump filler (mkStump [] 0) [] bs = Some (stump_of (apply_hist [] bs), apply_hist [] bs).
  Proof.
    intros Hb Hv.
    assert (E : mkStump [] 0 = stump_of []) by (vm_compute; reflexivity).
    rewrite E. apply stump_history_refines; [intros h []|constructor|exact Hb|exact Hv|apply valid_provable; exact Hv].
  Qed.
End History.

(** In the free hash algebra ("barring collisions") the side conditions on the hash function hold. *)
From Utreexo Require Import Spec.Term.
Theorem stump_history_refines_term filler (bs : list (list term * list term)) :
  N.of_nat (total_adds term bs) <= 2 ^ 63 -> valid_hist term term_ops [] bs ->
  run_stump term term_ops filler (mkStump [] 0) [] bs
  = Some (stump_of term term_ops (apply_hist term term_ops [] bs), apply_hist term term_ops [] bs).
Proof. exact (stump_history_refines_empty term term_ops term_ops_ok cs_term_hash_nz filler bs). Qed.

(** non-vacuity: a three-block history (add 5; delete 2 and add 1; delete 2) is valid and runs *)
Definition ex_su_hist : list (list term * list term) :=
  [ ([], [Atom 1; Atom 2; Atom 3; Atom 4; Atom 5]);
    ([Atom 2; Atom 4], [Atom 6]);
    ([Atom 6; Atom 1], []) ].
Ltac su_nodup := repeat (constructor; [cbn; intuition discriminate|]); constructor.
Ltac su_in H := cbn in H; repeat (destruct H as [<-|H]; [|]); try contradiction.
Example ex_su_valid : valid_hist term term_ops [] ex_su_hist.
Proof.
  unfold ex_su_hist. cbn [valid_hist]. unfold valid_block. cbn [fst snd].
  repeat match goal with |- _ /\ _ => split end; try exact I;
    try (match goal with |- NoDup _ => su_nodup end);
    try (intros h Hh; su_in Hh; vm_compute; tauto);
    try (intros a Ha; su_in Ha; (split; [reflexivity|vm_compute; intuition discriminate])).
Qed.
Example ex_su_runs :
  run_stump term term_ops Zero (mkStump [] 0) [] ex_su_hist
  = Some (stump_of term term_ops (apply_hist term term_ops [] ex_su_hist),
          apply_hist term term_ops [] ex_su_hist)
  /\ length (st_roots (stump_of term term_ops (apply_hist term term_ops [] ex_su_hist))) = 2%nat.
Proof. split; vm_compute; reflexivity. Qed.
