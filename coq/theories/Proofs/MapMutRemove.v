(** [MapPollard.Modify] without additions, i.e. [remove] ([Model.MapMut]: [remove], [removeSingle],
    [forgetBelow], [moveUpDescendants], [updateHashes], [forgetUnneededDel], [prunePosition]) keeps
    the tie between the map forest and the reference forest (property C09, deletions), for full and
    for partial forests and for every allocated height [TreeRows n <= ms_total <= 63].

    The invariant [Inv s R m] (= [Inv2 s R R m]) strengthens [consistent] of [Proofs.MapReadSpec]
    ([Inv_consistent]; the empty forest satisfies it: [Inv_empty]; [Invb]/[Invb_sound] decide it):
    the keys of the two maps are pairwise distinct; the live leaves are pairwise distinct, none is
    the empty hash and none is a [hash2] image ("no collision between a leaf and an inner node":
    a stored inner node whose hash were a cached leaf hash would have its cached position
    overwritten by [moveUpDescendants]); every stored binding is the hash of the node at its
    position; the cached map binds exactly [R] to the positions of the leaf nodes; the roots are
    stored; every remembered leaf is stored WITH the [remember] flag ([prunePosition] reads it); the
    siblings along the path of every remembered leaf are stored (clause (iii) of [consistent]
    without [known_set]).  [Inv2 s Rc Rn m] separates the cached leaves [Rc] from the flagged ones
    [Rn]: between [uncacheLeaves] and the last [removeSingle] of a block they differ.

    Theorems (all closed under the global context, for every [H], [HO] with a correct [op_eqb]):
    - [removeSingle_node]: one [removeSingle] on the position of ANY node [x] of the layout all of
      whose leaves are un-cached and at least one of which is flagged deletes the whole subtree:
      [Inv2 (kill L s) Rc (Rn - L)] ([L] = the leaves below [x]).  [removeSingle_inner]: [x] has a
      sibling, whose subtree moves up one row ([kill_inner]: the layout after the deletion;
      [moveUpDescendants_spec], [uh_chain], [fud_node_Inv2]); [sr_Inv]: [x] is a root.
    - G1 [mm_modify_delete1]: a block that deletes one remembered leaf.
    - G2 [mm_modify_delete_leaves]: a block that deletes any set of distinct remembered leaves, the
      hashes and the targets in any order ([remove_fold]: the detwinned targets one after the other;
      [detwinned_general]: [deTwin] yields the roots of the maximal deleted subtrees, in row-major
      order); [mm_modify_delete_hashes]: the targets as [GetLeafHashPositions] reports them.
    - [prunePosition_Inv2], [del_Inv2]: pruning at a node that is no root keeps the invariant.
    Not proved here: that nothing beyond the allowed positions stays stored (tidiness). *)
From Utreexo Require Import Base.Hash Model.Utils Model.UtilsFast Model.Verify Model.MapRead
  Model.MapMut Spec.Forest Spec.Oracle Spec.Geometry
  Proofs.UtilsGeom Proofs.UtilsGeom2 Proofs.SpecBasics Proofs.StumpAdd Proofs.LayoutStruct
  Proofs.ProofPosSpec Proofs.MapReadSpec.
From Utreexo Require Proofs.RefTheory.
From Coq Require Import List Arith PeanoNat NArith Lia ZifyNat ZifyN ZifyBool Sorted Permutation Bool.
Import ListNotations.
Open Scope N_scope.

Local Notation gpos := UtilsGeom.gpos.

(** * 0. The two association lists *)
Section Assoc.
  Variable H : Type.
  Variable HO : ops H.
  Hypothesis HOK : ops_ok HO.

  Lemma rg_del_same p (l : nodemap H) : nodes_get (nodes_del p l) p = None.
  Proof.
    induction l as [|[k v] l IH]; [reflexivity|]. unfold nodes_del in *. cbn [filter fst].
    destruct (N.eqb_spec k p) as [E|E]; cbn [negb]; [exact IH|].
    cbn [nodes_get]. destruct (N.eqb_spec k p); [contradiction|exact IH].
  Qed.

  Lemma rg_del_other p q (l : nodemap H) : q <> p -> nodes_get (nodes_del p l) q = nodes_get l q.
  Proof.
    intros Hne. induction l as [|[k v] l IH]; [reflexivity|]. unfold nodes_del in *.
    cbn [filter fst nodes_get].
    destruct (N.eqb_spec k p) as [E|E]; cbn [negb].
    - destruct (N.eqb_spec k q) as [E'|E']; [congruence|exact IH].
    - cbn [nodes_get]. destruct (N.eqb_spec k q); [reflexivity|exact IH].
  Qed.

  Lemma rg_del p q (l : nodemap H) :
    nodes_get (nodes_del p l) q = if q =? p then None else nodes_get l q.
  Proof.
    destruct (N.eqb_spec q p) as [->|E]; [apply rg_del_same|apply rg_del_other, E].
  Qed.

  Lemma rg_put p q v (l : nodemap H) :
    nodes_get (nodes_put p v l) q = if q =? p then Some v else nodes_get l q.
  Proof.
    unfold nodes_put. cbn [nodes_get]. rewrite (N.eqb_sym q p).
    destruct (N.eqb_spec p q) as [E|E]; [reflexivity|]. apply rg_del_other. congruence.
  Qed.

  Lemma keys_del p (l : nodemap H) : NoDup (map fst l) -> NoDup (map fst (nodes_del p l)).
  Proof.
    induction l as [|[k v] l IH]; intros Hnd; [constructor|]. unfold nodes_del in *.
    cbn [map fst] in Hnd. inversion Hnd as [|a b Hn Hnd']; subst a b. cbn [filter fst].
    destruct (k =? p); cbn [negb]; [exact (IH Hnd')|]. cbn [map fst]. constructor; [|exact (IH Hnd')].
    intros Hin. apply Hn. apply in_map_iff in Hin as (e & <- & He). apply filter_In in He as [He _].
    apply in_map, He.
  Qed.

  Lemma keys_del_notin p (l : nodemap H) : ~ In p (map fst (nodes_del p l)).
  Proof.
    intros Hin. apply in_map_iff in Hin as (e & Ee & He). unfold nodes_del in He.
    apply filter_In in He as [_ Hb]. rewrite Ee, N.eqb_refl in Hb. discriminate.
  Qed.

  Lemma keys_put p v (l : nodemap H) : NoDup (map fst l) -> NoDup (map fst (nodes_put p v l)).
  Proof.
    intros Hnd. unfold nodes_put. cbn [map fst]. constructor; [apply keys_del_notin|].
    apply keys_del, Hnd.
  Qed.

  Lemma rg_in_get (l : nodemap H) p v : NoDup (map fst l) -> In (p, v) l -> nodes_get l p = Some v.
  Proof.
    induction l as [|[k w] l IH]; intros Hnd Hin; [destruct Hin|].
    cbn [map fst] in Hnd. inversion Hnd as [|a b Hn Hnd']; subst a b. cbn [nodes_get].
    destruct Hin as [E|Hin].
    - injection E as -> ->. rewrite N.eqb_refl. reflexivity.
    - destruct (N.eqb_spec k p) as [->|_]; [|exact (IH Hnd' Hin)].
      exfalso. apply Hn. apply in_map_iff. exists (p, v). auto.
  Qed.

  Lemma heqb_refl h : op_eqb HO h h = true.
  Proof. apply HOK. reflexivity. Qed.

  Lemma heqb_neq h k : h <> k -> op_eqb HO h k = false.
  Proof. intros Hne. destruct (op_eqb HO h k) eqn:E; [|reflexivity]. apply HOK in E. contradiction. Qed.

  Lemma cg_del h k (l : cachemap H) :
    cached_get HO (cached_del HO h l) k = if op_eqb HO k h then None else cached_get HO l k.
  Proof.
    induction l as [|[a p] l IH]; [destruct (op_eqb HO k h); reflexivity|].
    unfold cached_del in *. cbn [filter fst].
    destruct (op_eqb HO a h) eqn:Eah; cbn [negb].
    - apply HOK in Eah. subst a. rewrite IH. cbn [cached_get].
      destruct (op_eqb HO k h) eqn:Ekh; [reflexivity|].
      destruct (op_eqb HO h k) eqn:Ehk; [|reflexivity]. apply HOK in Ehk. subst k.
      rewrite heqb_refl in Ekh. discriminate.
    - cbn [cached_get]. rewrite IH. destruct (op_eqb HO a k) eqn:Eak; [|reflexivity].
      apply HOK in Eak. subst k. rewrite Eah. reflexivity.
  Qed.

  Lemma cg_put h p k (l : cachemap H) :
    cached_get HO (cached_put HO h p l) k = if op_eqb HO k h then Some p else cached_get HO l k.
  Proof.
    unfold cached_put. cbn [cached_get]. rewrite cg_del.
    destruct (op_eqb HO h k) eqn:E.
    - apply HOK in E. subst k. rewrite heqb_refl. reflexivity.
    - destruct (op_eqb HO k h) eqn:E'; [|reflexivity]. apply HOK in E'. subst k.
      rewrite heqb_refl in E. discriminate.
  Qed.

  Lemma ckeys_del h (l : cachemap H) : NoDup (map fst l) -> NoDup (map fst (cached_del HO h l)).
  Proof.
    induction l as [|[k v] l IH]; intros Hnd; [constructor|]. unfold cached_del in *.
    cbn [map fst] in Hnd. inversion Hnd as [|a b Hn Hnd']; subst a b. cbn [filter fst].
    destruct (op_eqb HO k h); cbn [negb]; [exact (IH Hnd')|]. cbn [map fst].
    constructor; [|exact (IH Hnd')].
    intros Hin. apply Hn. apply in_map_iff in Hin as (e & <- & He). apply filter_In in He as [He _].
    apply in_map, He.
  Qed.

  Lemma ckeys_put h p (l : cachemap H) : NoDup (map fst l) -> NoDup (map fst (cached_put HO h p l)).
  Proof.
    intros Hnd. unfold cached_put. cbn [map fst]. constructor; [|apply ckeys_del, Hnd].
    intros Hin. apply in_map_iff in Hin as (e & Ee & He). unfold cached_del in He.
    apply filter_In in He as [_ Hb]. rewrite Ee, heqb_refl in Hb. discriminate.
  Qed.

  Lemma cg_in_get (l : cachemap H) h p : NoDup (map fst l) -> In (h, p) l ->
    cached_get HO l h = Some p.
  Proof.
    induction l as [|[k w] l IH]; intros Hnd Hin; [destruct Hin|].
    cbn [map fst] in Hnd. inversion Hnd as [|a b Hn Hnd']; subst a b. cbn [cached_get].
    destruct Hin as [E|Hin].
    - injection E as -> ->. rewrite heqb_refl. reflexivity.
    - destruct (op_eqb HO k h) eqn:E; [|exact (IH Hnd' Hin)]. apply HOK in E. subst k.
      exfalso. apply Hn. apply in_map_iff. exists (h, p). auto.
  Qed.

  Lemma chas_get (l : cachemap H) h : cached_has HO l h = true <-> cached_get HO l h <> None.
  Proof. unfold cached_has. destruct (cached_get HO l h); split; congruence. Qed.

  Lemma cg_move h p k (l : cachemap H) :
    cached_get HO (cached_move HO h p l) k =
    if op_eqb HO k h && cached_has HO l h then Some p else cached_get HO l k.
  Proof.
    unfold cached_move. destruct (cached_has HO l h) eqn:E.
    - rewrite cg_put, andb_true_r. reflexivity.
    - rewrite andb_false_r. reflexivity.
  Qed.

  Lemma ckeys_move h p (l : cachemap H) : NoDup (map fst l) -> NoDup (map fst (cached_move HO h p l)).
  Proof. intros Hnd. unfold cached_move. destruct (cached_has HO l h); [apply ckeys_put|]; exact Hnd. Qed.
End Assoc.
(** * 1. Moving a list of stored positions *)
Section Moves.
  Variable H : Type.
  Variable HO : ops H.
  Hypothesis HOK : ops_ok HO.
  Variable nx : N -> N.

  Definition mv (st : maps H) (c : N) : maps H :=
    match nodes_get (fst st) c with
    | Some v => (nodes_put (nx c) v (nodes_del c (fst st)), cached_move HO (fst v) (nx c) (snd st))
    | None => st
    end.

  Lemma mv_some (st : maps H) c v : nodes_get (fst st) c = Some v ->
    mv st c = (nodes_put (nx c) v (nodes_del c (fst st)), cached_move HO (fst v) (nx c) (snd st)).
  Proof. intros E. unfold mv. rewrite E. reflexivity. Qed.
  Lemma mv_none (st : maps H) c : nodes_get (fst st) c = None -> mv st c = st.
  Proof. intros E. unfold mv. rewrite E. reflexivity. Qed.

  Lemma mv_keys (st : maps H) c : NoDup (map fst (fst st)) -> NoDup (map fst (snd st)) ->
    NoDup (map fst (fst (mv st c))) /\ NoDup (map fst (snd (mv st c))).
  Proof.
    intros A B. destruct (nodes_get (fst st) c) as [v|] eqn:E.
    - rewrite (mv_some st c v E). cbn [fst snd].
      split; [apply keys_put, keys_del, A|apply ckeys_move; assumption].
    - rewrite (mv_none st c E). auto.
  Qed.

  Lemma mvs_keys C : forall st : maps H, NoDup (map fst (fst st)) -> NoDup (map fst (snd st)) ->
    NoDup (map fst (fst (fold_left mv C st))) /\ NoDup (map fst (snd (fold_left mv C st))).
  Proof.
    induction C as [|c C IH]; intros st A B; [auto|]. cbn [fold_left].
    destruct (mv_keys st c A B) as [A' B']. exact (IH _ A' B').
  Qed.

  (** the node map after the moves of the sources [C]: targets are no sources, and two stored
      sources have different targets *)
  Lemma mvs_nodes C : forall st : maps H,
    (forall c, In c C -> ~ In (nx c) C) ->
    (forall c1 c2, In c1 C -> In c2 C -> nodes_get (fst st) c1 <> None ->
                   nodes_get (fst st) c2 <> None -> nx c1 = nx c2 -> c1 = c2) ->
    let st' := fold_left mv C st in
    (forall q, In q C -> nodes_get (fst st') q = None) /\
    (forall c v, In c C -> nodes_get (fst st) c = Some v -> nodes_get (fst st') (nx c) = Some v) /\
    (forall q, ~ In q C -> (forall c, In c C -> nodes_get (fst st) c <> None -> nx c <> q) ->
               nodes_get (fst st') q = nodes_get (fst st) q).
  Proof.
    induction C as [|c C IH]; intros st Ha Hb; cbn [fold_left].
    - split; [intros q []|]. split; [intros c v []|]. intros q _ _. reflexivity.
    - assert (Ha' : forall c0, In c0 C -> ~ In (nx c0) C).
      { intros c0 Hc0 Hin. apply (Ha c0 (or_intror Hc0)). right. exact Hin. }
      assert (Hcn : nx c <> c) by (intros E; apply (Ha c (or_introl eq_refl)); left; symmetry; exact E).
      destruct (nodes_get (fst st) c) as [v|] eqn:Ec.
      + set (st1 := mv st c).
        assert (G1 : forall q, nodes_get (fst st1) q =
                       if q =? nx c then Some v else if q =? c then None else nodes_get (fst st) q).
        { intros q. unfold st1. rewrite (mv_some st c v Ec). cbn [fst]. rewrite rg_put, rg_del. reflexivity. }
        assert (G1s : forall q, In q C -> nodes_get (fst st1) q <> None -> nodes_get (fst st) q <> None).
        { intros q Hq. rewrite G1.
          destruct (N.eqb_spec q (nx c)) as [->|_].
          - exfalso. apply (Ha c (or_introl eq_refl)). right. exact Hq.
          - destruct (N.eqb_spec q c); [congruence|auto]. }
        assert (G1o : forall q, In q C -> q <> c -> nodes_get (fst st1) q = nodes_get (fst st) q).
        { intros q Hq Hne. rewrite G1.
          destruct (N.eqb_spec q (nx c)) as [->|_].
          - exfalso. apply (Ha c (or_introl eq_refl)). right. exact Hq.
          - destruct (N.eqb_spec q c); [contradiction|reflexivity]. }
        assert (Hb' : forall c1 c2, In c1 C -> In c2 C -> nodes_get (fst st1) c1 <> None ->
                        nodes_get (fst st1) c2 <> None -> nx c1 = nx c2 -> c1 = c2).
        { intros c1 c2 H1 H2 S1 S2. apply Hb; [right; exact H1|right; exact H2|apply G1s|apply G1s]; assumption. }
        destruct (IH st1 Ha' Hb') as (I1 & I2 & I3). fold st1.
        assert (Hsrc : forall c', In c' C -> nodes_get (fst st1) c' <> None -> c' <> c /\ nx c' <> nx c).
        { intros c' Hc' S'. assert (Hne : c' <> c).
          { intros ->. rewrite G1 in S'. destruct (N.eqb_spec c (nx c)); [congruence|].
            rewrite N.eqb_refl in S'. congruence. }
          split; [exact Hne|]. intros E. apply Hne.
          apply (Hb c' c (or_intror Hc') (or_introl eq_refl)); [apply G1s; assumption|congruence|exact E]. }
        split; [|split].
        * intros q [<-|Hq]; [|exact (I1 q Hq)].
          destruct (in_dec N.eq_dec c C) as [Hin|Hnin]; [exact (I1 c Hin)|].
          rewrite I3; [|exact Hnin|].
          -- rewrite G1. destruct (N.eqb_spec c (nx c)); [congruence|]. rewrite N.eqb_refl. reflexivity.
          -- intros c' Hc' _ E. apply (Ha c' (or_intror Hc')). left. symmetry. exact E.
        * intros c0 v0 [<-|Hc0] E0.
          -- rewrite Ec in E0. injection E0 as <-. rewrite I3.
             ++ rewrite G1, N.eqb_refl. reflexivity.
             ++ intros Hin. apply (Ha c (or_introl eq_refl)). right. exact Hin.
             ++ intros c' Hc' S'. apply (Hsrc c' Hc' S').
          -- destruct (N.eq_dec c0 c) as [->|Hne].
             ++ rewrite Ec in E0. injection E0 as <-. rewrite I3.
                ** rewrite G1, N.eqb_refl. reflexivity.
                ** intros Hin. apply (Ha c (or_introl eq_refl)). right. exact Hin.
                ** intros c' Hc' S'. apply (Hsrc c' Hc' S').
             ++ apply I2; [exact Hc0|]. rewrite G1o; assumption.
        * intros q Hq Hno. assert (Hqc : q <> c) by (intros ->; apply Hq; left; reflexivity).
          rewrite I3.
          -- rewrite G1. destruct (N.eqb_spec q (nx c)) as [->|_].
             ++ exfalso. apply (Hno c (or_introl eq_refl)); [congruence|reflexivity].
             ++ destruct (N.eqb_spec q c); [contradiction|reflexivity].
          -- intros Hin. apply Hq. right. exact Hin.
          -- intros c' Hc' S'. apply Hno; [right; exact Hc'|apply G1s; assumption].
      + rewrite (mv_none st c Ec).
        assert (Hb' : forall c1 c2, In c1 C -> In c2 C -> nodes_get (fst st) c1 <> None ->
                        nodes_get (fst st) c2 <> None -> nx c1 = nx c2 -> c1 = c2).
        { intros c1 c2 H1 H2. apply Hb; right; assumption. }
        destruct (IH st Ha' Hb') as (I1 & I2 & I3).
        split; [|split].
        * intros q [<-|Hq]; [|exact (I1 q Hq)].
          destruct (in_dec N.eq_dec c C) as [Hin|Hnin]; [exact (I1 c Hin)|].
          rewrite I3; [exact Ec|exact Hnin|].
          intros c' Hc' _ E. apply (Ha c' (or_intror Hc')). left. symmetry. exact E.
        * intros c0 v0 [<-|Hc0] E0; [congruence|]. exact (I2 c0 v0 Hc0 E0).
        * intros q Hq Hno. apply I3.
          -- intros Hin. apply Hq. right. exact Hin.
          -- intros c' Hc'. apply Hno. right. exact Hc'.
  Qed.

  Lemma chas_move h p k (l : cachemap H) : cached_has HO (cached_move HO h p l) k = cached_has HO l k.
  Proof.
    unfold cached_has at 1. rewrite cg_move by exact HOK.
    destruct (op_eqb HO k h) eqn:E; cbn [andb]; [|reflexivity].
    apply HOK in E. subst k. unfold cached_has. destruct (cached_get HO l h); reflexivity.
  Qed.

  Lemma mvs_has C : forall (st : maps H) h,
    cached_has HO (snd (fold_left mv C st)) h = cached_has HO (snd st) h.
  Proof.
    induction C as [|c C IH]; intros st h; [reflexivity|]. cbn [fold_left]. rewrite IH.
    destruct (nodes_get (fst st) c) as [v|] eqn:Ec.
    - rewrite (mv_some st c v Ec). cbn [snd]. apply chas_move.
    - rewrite (mv_none st c Ec). reflexivity.
  Qed.

  (** the cached map after the moves *)
  Lemma mvs_cached C : forall st : maps H,
    (forall c, In c C -> ~ In (nx c) C) ->
    let st' := fold_left mv C st in
    (forall h, (forall c v, In c C -> nodes_get (fst st) c = Some v -> fst v <> h) ->
               cached_get HO (snd st') h = cached_get HO (snd st) h) /\
    (forall c v, In c C -> nodes_get (fst st) c = Some v -> cached_has HO (snd st) (fst v) = true ->
       (forall c' v', In c' C -> nodes_get (fst st) c' = Some v' -> fst v' = fst v -> c' = c) ->
       cached_get HO (snd st') (fst v) = Some (nx c)).
  Proof.
    induction C as [|c C IH]; intros st Ha; cbn [fold_left].
    - split; [reflexivity|]. intros c v [].
    - assert (Ha' : forall c0, In c0 C -> ~ In (nx c0) C).
      { intros c0 Hc0 Hin. apply (Ha c0 (or_intror Hc0)). right. exact Hin. }
      destruct (nodes_get (fst st) c) as [v|] eqn:Ec.
      + set (st1 := mv st c).
        assert (E1 : st1 = (nodes_put (nx c) v (nodes_del c (fst st)),
                            cached_move HO (fst v) (nx c) (snd st))) by exact (mv_some st c v Ec).
        assert (G1 : forall q, nodes_get (fst st1) q =
                       if q =? nx c then Some v else if q =? c then None else nodes_get (fst st) q).
        { intros q. rewrite E1. cbn [fst]. rewrite rg_put, rg_del. reflexivity. }
        assert (G1v : forall q w, In q C -> nodes_get (fst st1) q = Some w ->
                        q <> c /\ nodes_get (fst st) q = Some w).
        { intros q w Hq. rewrite G1.
          destruct (N.eqb_spec q (nx c)) as [->|_].
          - exfalso. apply (Ha c (or_introl eq_refl)). right. exact Hq.
          - destruct (N.eqb_spec q c); [discriminate|auto]. }
        destruct (IH st1 Ha') as (I1 & I2). fold st1. split.
        * intros h Hno. rewrite I1.
          -- rewrite E1. cbn [snd]. rewrite cg_move by exact HOK.
             rewrite heqb_neq; [reflexivity|exact HOK|]. intros E. exact (Hno c v (or_introl eq_refl) Ec (eq_sym E)).
          -- intros c' v' Hc' E'. destruct (G1v c' v' Hc' E') as [_ E'']. exact (Hno c' v' (or_intror Hc') E'').
        * intros c0 v0 Hc0 E0 Hhas Huniq.
          destruct (N.eq_dec c0 c) as [->|Hne].
          -- rewrite Ec in E0. injection E0 as <-. rewrite I1.
             ++ rewrite E1. cbn [snd]. rewrite cg_move by exact HOK.
                rewrite heqb_refl by exact HOK. rewrite Hhas. reflexivity.
             ++ intros c' v' Hc' E' Eh. destruct (G1v c' v' Hc' E') as [Hne E''].
                apply Hne. exact (Huniq c' v' (or_intror Hc') E'' Eh).
          -- destruct Hc0 as [->|Hc0]; [contradiction|].
             apply I2; [exact Hc0| | |].
             ++ rewrite G1. destruct (N.eqb_spec c0 (nx c)) as [->|_].
                ** exfalso. apply (Ha c (or_introl eq_refl)). right. exact Hc0.
                ** destruct (N.eqb_spec c0 c); [contradiction|exact E0].
             ++ rewrite E1. cbn [snd]. rewrite chas_move. exact Hhas.
             ++ intros c' v' Hc' E' Eh. destruct (G1v c' v' Hc' E') as [_ E''].
                exact (Huniq c' v' (or_intror Hc') E'' Eh).
      + rewrite (mv_none st c Ec). destruct (IH st Ha') as (I1 & I2). split.
        * intros h Hno. apply I1. intros c' v' Hc'. apply Hno. right. exact Hc'.
        * intros c0 v0 Hc0 E0 Hhas Huniq. destruct Hc0 as [->|Hc0]; [congruence|].
          apply I2; [exact Hc0|exact E0|exact Hhas|].
          intros c' v' Hc'. apply Huniq. right. exact Hc'.
  Qed.
End Moves.
(** * 2. The positions below the parent of a deleted position *)
Lemma rmbit_block a j b : b < 2 ^ j -> rmbit (a * 2 ^ j + b) j = a / 2 * 2 ^ j + b.
Proof.
  intros Hb. unfold rmbit. pose proof (pow2_nz j) as Hnz.
  replace ((a * 2 ^ j + b) mod 2 ^ j) with b.
  2:{ rewrite N.add_comm, N.mod_add by exact Hnz. symmetry. apply N.mod_small, Hb. }
  replace ((a * 2 ^ j + b) / 2 ^ (j + 1)) with (a / 2); [reflexivity|].
  rewrite pow2_S. replace (2 * 2 ^ j) with (2 ^ j * 2) by lia.
  rewrite <- N.div_div by (try exact Hnz; lia).
  rewrite N.div_add_l by exact Hnz. rewrite (N.div_small b) by exact Hb. f_equal. lia.
Qed.

Section Below.
  Variables T rd od : N.
  Hypothesis HT : T <= 63.
  Hypothesis Hrd : rd < T.
  Hypothesis Hod : od < 2 ^ (T - rd).
  Let q := od / 2.
  Let sbo := N.lxor od 1.

  Definition posU (k b : N) : N := gpos T (rd + 1 - k) (od / 2 * 2 ^ k + b).
  Definition posS (j b : N) : N := gpos T (rd - j) (N.lxor od 1 * 2 ^ j + b).
  Definition posD (j b : N) : N := gpos T (rd - j) (od * 2 ^ j + b).

  Lemma bl_q : q < 2 ^ (T - rd - 1).
  Proof.
    unfold q. replace (T - rd) with (T - rd - 1 + 1) in Hod by lia. rewrite pow2_S in Hod.
    apply N.div_lt_upper_bound; lia.
  Qed.

  Lemma bl_sbo : sbo < 2 ^ (T - rd) /\ sbo / 2 = q /\
    ((od = 2 * q /\ sbo = 2 * q + 1) \/ (od = 2 * q + 1 /\ sbo = 2 * q)).
  Proof.
    unfold sbo, q. destruct (pps_bit0 od) as (k & [(E1 & E2 & _ & E4)|(E1 & E2 & _ & E4)]).
    - rewrite E2, E4. split; [|split; [rewrite pps_div2_double1; reflexivity|left; lia]].
      replace (T - rd) with (T - rd - 1 + 1) in * by lia. rewrite pow2_S in *. lia.
    - rewrite E2, E4. split; [lia|]. split; [rewrite pps_div2_double; reflexivity|right; lia].
  Qed.

  Lemma posU_valid k b : k <= rd + 1 -> b < 2 ^ k ->
    rd + 1 - k <= T /\ q * 2 ^ k + b < 2 ^ (T - (rd + 1 - k)).
  Proof.
    intros Hk Hb. split; [lia|]. pose proof bl_q as Hq.
    replace (T - (rd + 1 - k)) with (T - rd - 1 + k) by lia. rewrite N.pow_add_r.
    assert ((q + 1) * 2 ^ k <= 2 ^ (T - rd - 1) * 2 ^ k) by (apply N.mul_le_mono_r; lia). lia.
  Qed.

  Lemma posS_valid j b : j <= rd -> b < 2 ^ j ->
    rd - j <= T /\ sbo * 2 ^ j + b < 2 ^ (T - (rd - j)).
  Proof.
    intros Hj Hb. split; [lia|]. destruct bl_sbo as (Hs & _).
    replace (T - (rd - j)) with (T - rd + j) by lia. rewrite N.pow_add_r.
    assert ((sbo + 1) * 2 ^ j <= 2 ^ (T - rd) * 2 ^ j) by (apply N.mul_le_mono_r; lia). lia.
  Qed.

  Lemma posD_valid j b : j <= rd -> b < 2 ^ j ->
    rd - j <= T /\ od * 2 ^ j + b < 2 ^ (T - (rd - j)).
  Proof.
    intros Hj Hb. split; [lia|].
    replace (T - (rd - j)) with (T - rd + j) by lia. rewrite N.pow_add_r.
    assert ((od + 1) * 2 ^ j <= 2 ^ (T - rd) * 2 ^ j) by (apply N.mul_le_mono_r; lia). lia.
  Qed.

  Lemma posU_row k b : k <= rd + 1 -> b < 2 ^ k -> DetectRow (posU k b) T = rd + 1 - k.
  Proof. intros Hk Hb. destruct (posU_valid k b Hk Hb). apply DetectRow_gpos; assumption. Qed.

  Lemma posU_inj k b k' b' : k <= rd + 1 -> b < 2 ^ k -> k' <= rd + 1 -> b' < 2 ^ k' ->
    posU k b = posU k' b' -> k = k' /\ b = b'.
  Proof.
    intros Hk Hb Hk' Hb' E. destruct (posU_valid k b Hk Hb) as [A B].
    destruct (posU_valid k' b' Hk' Hb') as [C D].
    destruct (gpos_inj _ _ _ _ _ A B C D E) as [E1 E2]. assert (k = k') by lia. subst k'.
    split; [reflexivity|]. fold q in E2. lia.
  Qed.

  (** a position [k+1] rows below the parent lies below the deleted position or below its sibling *)
  Lemma posU_split k c : k <= rd -> c < 2 ^ (k + 1) ->
    exists b, b < 2 ^ k /\ (posU (k + 1) c = posD k b \/ posU (k + 1) c = posS k b).
  Proof.
    intros Hk Hc. rewrite pow2_S in Hc. unfold posU, posD, posS. fold q sbo.
    replace (rd + 1 - (k + 1)) with (rd - k) by lia. rewrite pow2_S.
    destruct bl_sbo as (_ & _ & [[E1 E2]|[E1 E2]]).
    - destruct (N.lt_ge_cases c (2 ^ k)) as [L|G].
      + exists c. split; [exact L|]. left. f_equal. lia.
      + exists (c - 2 ^ k). split; [lia|]. right. f_equal. lia.
    - destruct (N.lt_ge_cases c (2 ^ k)) as [L|G].
      + exists c. split; [exact L|]. right. f_equal. lia.
      + exists (c - 2 ^ k). split; [lia|]. left. f_equal. lia.
  Qed.

  Lemma posS_U j b : j <= rd -> b < 2 ^ j ->
    exists c, c < 2 ^ (j + 1) /\ posS j b = posU (j + 1) c.
  Proof.
    intros Hj Hb. unfold posU, posS. fold q sbo.
    replace (rd + 1 - (j + 1)) with (rd - j) by lia. rewrite pow2_S.
    destruct bl_sbo as (_ & _ & [[E1 E2]|[E1 E2]]).
    - exists (2 ^ j + b). split; [lia|]. f_equal. lia.
    - exists b. split; [lia|]. f_equal. lia.
  Qed.

  Lemma posD_U j b : j <= rd -> b < 2 ^ j ->
    exists c, c < 2 ^ (j + 1) /\ posD j b = posU (j + 1) c.
  Proof.
    intros Hj Hb. unfold posU, posD. fold q.
    replace (rd + 1 - (j + 1)) with (rd - j) by lia. rewrite pow2_S.
    destruct bl_sbo as (_ & _ & [[E1 E2]|[E1 E2]]).
    - exists b. split; [lia|]. f_equal. lia.
    - exists (2 ^ j + b). split; [lia|]. f_equal. lia.
  Qed.

  Lemma posS_inj j b b' : j <= rd -> b < 2 ^ j -> b' < 2 ^ j -> posS j b = posS j b' -> b = b'.
  Proof.
    intros Hj Hb Hb' E. destruct (posS_valid j b Hj Hb) as [A B].
    destruct (posS_valid j b' Hj Hb') as [C D].
    destruct (gpos_inj _ _ _ _ _ A B C D E) as [_ E2]. fold sbo in E2. lia.
  Qed.

  Lemma posS_row_neq j b j' b' : j <= rd -> b < 2 ^ j -> j' <= rd -> b' < 2 ^ j' -> j <> j' ->
    posS j b <> posS j' b'.
  Proof.
    intros Hj Hb Hj' Hb' Hne E.
    destruct (posS_valid j b Hj Hb) as [A B].
    destruct (posS_valid j' b' Hj' Hb') as [C D].
    destruct (gpos_inj _ _ _ _ _ A B C D E) as [E1 _]. lia.
  Qed.

  (** where [calcNextPosition] sends the positions below the sibling *)
  Lemma next_posS j b : j <= rd -> b < 2 ^ j ->
    calcNextPosition (posS j b) (gpos T rd od) T = Some (posU j b).
  Proof.
    intros Hj Hb. destruct (posS_valid j b Hj Hb) as [A B]. unfold posS, posU. fold sbo q.
    rewrite (calcNextPosition_gpos T (rd - j) _ _ rd); try assumption; try lia.
    2:{ apply DetectRow_gpos; [exact HT|lia|exact Hod]. }
    replace (rd - (rd - j)) with j by lia. rewrite rmbit_block by exact Hb.
    destruct bl_sbo as (_ & -> & _). f_equal. f_equal. lia.
  Qed.

  Lemma next_total k c : k <= rd + 1 -> 1 <= k -> c < 2 ^ k ->
    exists p, calcNextPosition (posU k c) (gpos T rd od) T = Some p /\ DetectRow p T = rd + 2 - k.
  Proof.
    intros Hk Hk1 Hc. destruct (posU_valid k c Hk Hc) as [A B]. unfold posU. fold q.
    rewrite (calcNextPosition_gpos T (rd + 1 - k) _ _ rd); try assumption; try lia.
    2:{ apply DetectRow_gpos; [exact HT|lia|exact Hod]. }
    eexists. split; [reflexivity|].
    rewrite DetectRow_gpos; [lia|exact HT|lia|].
    pose proof (rmbit_lt (q * 2 ^ k + c) (T - (rd + 1 - k)) (rd - (rd + 1 - k)) ltac:(lia) B) as Hlt.
    replace (T - (rd + 1 - k + 1)) with (T - (rd + 1 - k) - 1) by lia. exact Hlt.
  Qed.

  (** children *)
  Lemma posU_children k b : k <= rd -> b < 2 ^ k ->
    LeftChild (posU k b) T = posU (k + 1) (2 * b) /\ RightChild (posU k b) T = posU (k + 1) (2 * b + 1).
  Proof.
    intros Hk Hb. destruct (posU_valid k b ltac:(lia) Hb) as [A B]. unfold posU. fold q.
    replace (rd + 1 - k) with (rd + 1 - (k + 1) + 1) by lia.
    replace (T - (rd + 1 - k)) with (T - (rd + 1 - (k + 1)) - 1) in B by lia.
    rewrite LeftChild_gpos, RightChild_gpos; try assumption; try lia.
    rewrite pow2_S. split; f_equal; lia.
  Qed.

  Lemma posU_1 p : (exists c, c < 2 ^ 1 /\ p = posU 1 c) <-> (p = gpos T rd od \/ p = gpos T rd sbo).
  Proof.
    unfold posU. fold q. replace (rd + 1 - 1) with rd by lia. change (2 ^ 1) with 2.
    destruct bl_sbo as (_ & _ & [[E1 E2]|[E1 E2]]); split.
    - intros (c & Hc & ->). assert (c = 0 \/ c = 1) as [-> | ->] by lia; [left|right]; f_equal; lia.
    - intros [-> | ->]; [exists 0|exists 1]; (split; [lia|f_equal; lia]).
    - intros (c & Hc & ->). assert (c = 0 \/ c = 1) as [-> | ->] by lia; [right|left]; f_equal; lia.
    - intros [-> | ->]; [exists 1|exists 0]; (split; [lia|f_equal; lia]).
  Qed.
End Below.
(** * 3. [moveUpDescendants] *)
Lemma dedup_sorted_In x l : In x (dedup_sorted l) <-> In x l.
Proof.
  induction l as [|a [|b l] IH]; [reflexivity|reflexivity|].
  change (dedup_sorted (a :: b :: l)) with (if a =? b then dedup_sorted (b :: l) else a :: dedup_sorted (b :: l)).
  destruct (N.eqb_spec a b) as [->|Hne].
  - rewrite IH. cbn [In]. tauto.
  - cbn [In] in *. rewrite IH. tauto.
Qed.

Section MUD.
  Variable H : Type.
  Variable HO : ops H.
  Hypothesis HOK : ops_ok HO.
  Variables T rd od : N.
  Hypothesis HT : T <= 63.
  Hypothesis Hrd : rd < T.
  Hypothesis Hod : od < 2 ^ (T - rd).
  Notation del := (gpos T rd od).
  Notation sibp := (gpos T rd (N.lxor od 1)).
  Notation pU := (posU T rd od).
  Notation pS := (posS T rd od).
  Notation pD := (posD T rd od).

  Definition nxp (c : N) : N :=
    match calcNextPosition c del T with Some p => p | None => 0 end.

  Lemma moveUp_one_mv (st : maps H) c : calcNextPosition c del T <> None ->
    moveUp_one HO T del c st = (mv H HO nxp st c, true).
  Proof.
    intros Hn. unfold moveUp_one, mv, nxp. destruct (calcNextPosition c del T) as [p|]; [|congruence].
    destruct (nodes_get (fst st) c); reflexivity.
  Qed.

  Definition chl (ps : list N) : list N :=
    flat_map (fun p => if DetectRow p T =? 0 then [] else [LeftChild p T; RightChild p T]) ps.

  Lemma moveUp_row_mv ps : forall st : maps H,
    (forall c, In c (chl ps) -> calcNextPosition c del T <> None) ->
    moveUp_row HO T del ps st = (fold_left (mv H HO nxp) (chl ps) st, chl ps, true).
  Proof.
    induction ps as [|p ps IH]; intros st Hn; [reflexivity|].
    cbn [moveUp_row chl flat_map] in *. fold (chl ps) in *.
    destruct (DetectRow p T =? 0).
    - cbn [app] in *. apply IH, Hn.
    - cbn [app fold_left] in *.
      rewrite moveUp_one_mv by (apply Hn; left; reflexivity).
      rewrite moveUp_one_mv by (apply Hn; right; left; reflexivity).
      rewrite IH by (intros c Hc; apply Hn; right; right; exact Hc). reflexivity.
  Qed.

  (** the state before the moves: nothing is stored at or below the deleted position, nor at the
      position of its sibling (whose node has been put on the parent), and a cached hash is stored
      at one position only *)
  Variable nd0 : nodemap H.
  Variable ca0 : cachemap H.
  Hypothesis Hd : forall j b, j <= rd -> b < 2 ^ j -> nodes_get nd0 (pD j b) = None.
  Hypothesis Hs : nodes_get nd0 sibp = None.
  Hypothesis Huniq : forall q1 q2 v1 v2, nodes_get nd0 q1 = Some v1 -> nodes_get nd0 q2 = Some v2 ->
    fst v1 = fst v2 -> cached_has HO ca0 (fst v1) = true -> q1 = q2.

  Set Implicit Arguments.
  Record mud_inv (i : N) (cur : maps H) : Prop := mkMudInv {
    mi_k1 : NoDup (map fst (fst cur));
    mi_k2 : NoDup (map fst (snd cur));
    mi_A : forall j b, 1 <= j -> j < i -> b < 2 ^ j -> nodes_get (fst cur) (pU j b) = nodes_get nd0 (pS j b);
    mi_B : forall b, b < 2 ^ i -> nodes_get (fst cur) (pU i b) = None;
    mi_C : forall j b, i < j -> j <= rd + 1 -> b < 2 ^ j ->
             nodes_get (fst cur) (pU j b) = nodes_get nd0 (pU j b);
    mi_D : forall p, (forall j b, 1 <= j -> j <= rd + 1 -> b < 2 ^ j -> p <> pU j b) ->
             nodes_get (fst cur) p = nodes_get nd0 p;
    mi_K1 : forall j b v, 1 <= j -> j < i -> b < 2 ^ j -> nodes_get nd0 (pS j b) = Some v ->
              cached_has HO ca0 (fst v) = true -> cached_get HO (snd cur) (fst v) = Some (pU j b);
    mi_K2 : forall h, (forall j b v, 1 <= j -> j < i -> b < 2 ^ j ->
                         nodes_get nd0 (pS j b) = Some v -> fst v <> h) ->
              cached_get HO (snd cur) h = cached_get HO ca0 h;
    mi_K3 : forall h, cached_has HO (snd cur) h = cached_has HO ca0 h }.
  Unset Implicit Arguments.

  Lemma mud_step i (C : list N) (cur : maps H) : 1 <= i -> i <= rd ->
    (forall p, In p C <-> exists c, c < 2 ^ (i + 1) /\ p = pU (i + 1) c) ->
    mud_inv i cur -> mud_inv (i + 1) (fold_left (mv H HO nxp) C cur).
  Proof.
    intros Hi1 Hi HC I.
    (* the sources *)
    assert (Hsrc : forall p, In p C -> nodes_get (fst cur) p = nodes_get nd0 p).
    { intros p Hp. apply HC in Hp as (c & Hc & ->). apply (mi_C I); lia. }
    assert (Hst : forall p, In p C -> nodes_get (fst cur) p <> None ->
              exists b, b < 2 ^ i /\ p = pS i b).
    { intros p Hp Hsto. rewrite (Hsrc p Hp) in Hsto. apply HC in Hp as (c & Hc & ->).
      destruct (posU_split T rd od HT Hrd Hod i c Hi Hc) as (b & Hb & [E|E]).
      - rewrite E, Hd in Hsto by assumption. congruence.
      - exists b. auto. }
    assert (HSin : forall b, b < 2 ^ i -> In (pS i b) C).
    { intros b Hb. apply HC. exact (posS_U T rd od HT Hrd Hod i b Hi Hb). }
    assert (Hnx : forall b, b < 2 ^ i -> nxp (pS i b) = pU i b).
    { intros b Hb. unfold nxp. rewrite (next_posS T rd od HT Hrd Hod i b Hi Hb). reflexivity. }
    assert (Ha : forall c, In c C -> ~ In (nxp c) C).
    { intros p Hp Hin. apply HC in Hp as (c & Hc & ->). apply HC in Hin as (c' & Hc' & E).
      destruct (next_total T rd od HT Hrd Hod (i + 1) c ltac:(lia) ltac:(lia) Hc) as (p' & Ep & Hrow).
      unfold nxp in E. rewrite Ep in E. rewrite E in Hrow.
      rewrite (posU_row T rd od HT Hrd Hod) in Hrow by (try assumption; lia). lia. }
    assert (Hb : forall c1 c2, In c1 C -> In c2 C -> nodes_get (fst cur) c1 <> None ->
                   nodes_get (fst cur) c2 <> None -> nxp c1 = nxp c2 -> c1 = c2).
    { intros c1 c2 H1 H2 S1 S2 E. destruct (Hst c1 H1 S1) as (b1 & Hb1 & ->).
      destruct (Hst c2 H2 S2) as (b2 & Hb2 & ->). rewrite !Hnx in E by assumption.
      destruct (posU_inj T rd od HT Hrd Hod i b1 i b2 ltac:(lia) Hb1 ltac:(lia) Hb2 E) as [_ ->].
      reflexivity. }
    destruct (mvs_nodes H HO nxp C cur Ha Hb) as (N1 & N2 & N3).
    destruct (mvs_cached H HO HOK nxp C cur Ha) as (C1 & C2).
    destruct (mvs_keys H HO HOK nxp C cur (mi_k1 I) (mi_k2 I)) as [K1 K2].
    set (st' := fold_left (mv H HO nxp) C cur) in *.
    (* positions that are neither sources nor targets *)
    assert (Hkeep : forall p, (forall c, c < 2 ^ (i + 1) -> p <> pU (i + 1) c) ->
                      (forall b, b < 2 ^ i -> p <> pU i b) ->
                      nodes_get (fst st') p = nodes_get (fst cur) p).
    { intros p Hn1 Hn2. apply N3.
      - intros Hin. apply HC in Hin as (c & Hc & E). exact (Hn1 c Hc E).
      - intros c Hc Hsto E. destruct (Hst c Hc Hsto) as (b & Hb' & ->). rewrite Hnx in E by assumption.
        exact (Hn2 b Hb' (eq_sym E)). }
    assert (HUne : forall j b j' b', j <= rd + 1 -> b < 2 ^ j -> j' <= rd + 1 -> b' < 2 ^ j' -> j <> j' ->
              pU j b <> pU j' b').
    { intros j b j' b' A1 A2 A3 A4 Hne E.
      destruct (posU_inj T rd od HT Hrd Hod j b j' b' A1 A2 A3 A4 E). contradiction. }
    constructor; try assumption.
    - (* A *)
      intros j b Hj1 Hj Hb'. destruct (N.eq_dec j i) as [->|Hne].
      + destruct (nodes_get nd0 (pS i b)) as [v|] eqn:Ev.
        * rewrite <- (Hnx b Hb'). apply N2; [apply HSin, Hb'|]. rewrite Hsrc by (apply HSin, Hb'). exact Ev.
        * rewrite N3.
          -- apply (mi_B I), Hb'.
          -- intros Hin. apply HC in Hin as (c & Hc & E). revert E. apply HUne; try assumption; lia.
          -- intros c Hc Hsto E. destruct (Hst c Hc Hsto) as (b2 & Hb2 & ->).
             rewrite Hnx in E by assumption.
             destruct (posU_inj T rd od HT Hrd Hod i b2 i b ltac:(lia) Hb2 ltac:(lia) Hb' E) as [_ ->].
             rewrite Hsrc, Ev in Hsto by (apply HSin, Hb'). congruence.
      + rewrite Hkeep.
        * apply (mi_A I); [exact Hj1|lia|exact Hb'].
        * intros c Hc. apply HUne; try assumption; lia.
        * intros b2 Hb2. apply HUne; try assumption; lia.
    - (* B *)
      intros b Hb'. apply N1. apply HC. exists b. auto.
    - (* C *)
      intros j b Hj Hj' Hb'. rewrite Hkeep.
      + apply (mi_C I); [lia|exact Hj'|exact Hb'].
      + intros c Hc. apply HUne; try assumption; lia.
      + intros b2 Hb2. apply HUne; try assumption; lia.
    - (* D *)
      intros p Hp. rewrite Hkeep.
      + apply (mi_D I), Hp.
      + intros c Hc. apply Hp; [lia|lia|exact Hc].
      + intros b Hb'. apply Hp; [lia|lia|exact Hb'].
    - (* K1 *)
      intros j b v Hj1 Hj Hb' Ev Hhas. destruct (N.eq_dec j i) as [->|Hne].
      + rewrite <- (Hnx b Hb'). apply C2.
        * apply HSin, Hb'.
        * rewrite Hsrc by (apply HSin, Hb'). exact Ev.
        * rewrite (mi_K3 I). exact Hhas.
        * intros c' v' Hc' Ev' Eh. rewrite (Hsrc c' Hc') in Ev'.
          apply (Huniq c' (pS i b) v' v Ev' Ev Eh). rewrite Eh. exact Hhas.
      + rewrite C1.
        * apply (mi_K1 I); try assumption. lia.
        * intros c v' Hc Ev' Eh. rewrite (Hsrc c Hc) in Ev'.
          assert (Hsto : nodes_get (fst cur) c <> None) by (rewrite (Hsrc c Hc), Ev'; discriminate).
          destruct (Hst c Hc Hsto) as (b2 & Hb2 & ->).
          pose proof (Huniq _ _ v' v Ev' Ev Eh ltac:(rewrite Eh; exact Hhas)) as E.
          revert E. apply (posS_row_neq T rd od HT Hrd Hod); try assumption; lia.
    - (* K2 *)
      intros h Hno. rewrite C1.
      + apply (mi_K2 I). intros j b v Hj1 Hj Hb'. apply Hno; [exact Hj1|lia|exact Hb'].
      + intros c v Hc Ev. assert (Hsto : nodes_get (fst cur) c <> None) by (rewrite Ev; discriminate).
        destruct (Hst c Hc Hsto) as (b2 & Hb2 & ->). rewrite Hsrc in Ev by (apply HSin, Hb2).
        exact (Hno i b2 v Hi1 ltac:(lia) Hb2 Ev).
    - (* K3 *)
      intros h. unfold st'. rewrite mvs_has by exact HOK. apply (mi_K3 I).
  Qed.

  Lemma chl_nil ps : (forall p, In p ps -> DetectRow p T = 0) -> chl ps = [].
  Proof.
    induction ps as [|p ps IH]; intros Hall; [reflexivity|]. cbn [chl flat_map]. fold (chl ps).
    rewrite (Hall p (or_introl eq_refl)), N.eqb_refl, IH; [reflexivity|].
    intros p' Hp'. apply Hall. right. exact Hp'.
  Qed.

  Lemma chl_In ps c : In c (chl ps) <->
    exists p, In p ps /\ DetectRow p T <> 0 /\ (c = LeftChild p T \/ c = RightChild p T).
  Proof.
    unfold chl. rewrite in_flat_map. split.
    - intros (p & Hp & Hc). exists p. split; [exact Hp|].
      destruct (N.eqb_spec (DetectRow p T) 0) as [E|E]; [destruct Hc|]. split; [exact E|].
      destruct Hc as [<-|[<-|[]]]; auto.
    - intros (p & Hp & Hr & Hc). exists p. split; [exact Hp|].
      destruct (N.eqb_spec (DetectRow p T) 0) as [E|E]; [contradiction|].
      destruct Hc as [-> | ->]; [left|right; left]; reflexivity.
  Qed.

  Lemma chl_U i ps : 1 <= i -> i <= rd ->
    (forall p, In p ps <-> exists c, c < 2 ^ i /\ p = pU i c) ->
    forall p, In p (chl ps) <-> exists c, c < 2 ^ (i + 1) /\ p = pU (i + 1) c.
  Proof.
    intros Hi1 Hi Hps p. rewrite chl_In. rewrite pow2_S. split.
    - intros (p0 & Hp0 & _ & Hc). apply Hps in Hp0 as (c & Hc' & ->).
      destruct (posU_children T rd od HT Hrd Hod i c Hi Hc') as [EL ER].
      destruct Hc as [-> | ->]; [exists (2 * c)|exists (2 * c + 1)]; (split; [lia|assumption]).
    - intros (c & Hc & ->). exists (pU i (c / 2)).
      assert (Hc2 : c / 2 < 2 ^ i) by (apply N.div_lt_upper_bound; lia).
      split; [apply Hps; exists (c / 2); auto|]. split.
      + rewrite (posU_row T rd od HT Hrd Hod) by (try assumption; lia). lia.
      + destruct (posU_children T rd od HT Hrd Hod i (c / 2) Hi Hc2) as [EL ER].
        rewrite EL, ER. pose proof (N.div_mod' c 2) as Hdm.
        assert (Hm : c mod 2 < 2) by (apply N.mod_lt; lia).
        assert (c mod 2 = 0 \/ c mod 2 = 1) as [E|E] by lia; [left|right]; f_equal; lia.
  Qed.

  Lemma mud_loop_inv : forall (fuel : nat) i ps (cur : maps H),
    1 <= i -> i <= rd + 1 -> N.of_nat fuel + i = rd + 2 ->
    (forall p, In p ps <-> exists c, c < 2 ^ i /\ p = pU i c) ->
    mud_inv i cur ->
    exists st', mud_loop HO fuel T del ps cur = (st', true) /\ mud_inv (rd + 1) st'.
  Proof.
    induction fuel as [|f IH]; intros i ps cur Hi1 Hi Hf Hps I; [lia|].
    cbn [mud_loop].
    destruct (N.eq_dec i (rd + 1)) as [->|Hne].
    - assert (E : chl ps = []).
      { apply chl_nil. intros p Hp. apply Hps in Hp as (c & Hc & ->).
        rewrite (posU_row T rd od HT Hrd Hod) by (try assumption; lia). lia. }
      rewrite moveUp_row_mv by (rewrite E; intros c []). rewrite E. cbn [fold_left].
      assert (f = 0%nat) by lia. subst f. cbn [mud_loop]. exists cur. auto.
    - assert (Hi' : i <= rd) by lia.
      pose proof (chl_U i ps Hi1 Hi' Hps) as HC.
      rewrite moveUp_row_mv.
      2:{ intros c Hc. apply HC in Hc as (c0 & Hc0 & ->).
          destruct (next_total T rd od HT Hrd Hod (i + 1) c0 ltac:(lia) ltac:(lia) Hc0) as (p' & -> & _).
          discriminate. }
      apply (IH (i + 1)); [lia|lia|lia| |].
      + intros p. rewrite dedup_sorted_In, RefTheory.sortN_In. apply HC.
      + apply mud_step; assumption.
  Qed.

  Theorem moveUpDescendants_spec : NoDup (map fst nd0) -> NoDup (map fst ca0) ->
    exists st', moveUpDescendants HO T sibp del (nd0, ca0) = (st', true) /\ mud_inv (rd + 1) st'.
  Proof.
    intros Hk1 Hk2.
    assert (Hsv : N.lxor od 1 < 2 ^ (T - rd)) by (apply sib_offsets_lt; assumption).
    assert (I1 : mud_inv 1 (nd0, ca0)).
    { constructor; cbn [fst snd]; try assumption; try reflexivity.
      - intros j b Hj1 Hj. lia.
      - intros b Hb. assert (Hex : exists c, c < 2 ^ 1 /\ pU 1 b = pU 1 c) by (exists b; auto).
        apply (posU_1 T rd od HT Hrd Hod) in Hex as [-> | ->]; [|exact Hs].
        specialize (Hd 0 0 ltac:(lia) ltac:(cbn; lia)). unfold posD in Hd.
        rewrite N.sub_0_r, N.pow_0_r, N.mul_1_r, N.add_0_r in Hd. exact Hd.
      - intros j b v Hj1 Hj. lia. }
    unfold moveUpDescendants. rewrite DetectRow_gpos by (try assumption; lia).
    destruct (N.eqb_spec rd 0) as [E0|E0].
    - exists (nd0, ca0). split; [reflexivity|]. rewrite E0. exact I1.
    - apply (mud_loop_inv (S (N.to_nat rd)) 1); [lia|lia|lia| |exact I1].
      intros p. rewrite RefTheory.sortN_In. rewrite (posU_1 T rd od HT Hrd Hod). cbn [In].
      rewrite sibling_gpos by lia. rewrite pps_lxor_invol.
      split; [intros [<-|[<-|[]]]; auto|intros [-> | ->]; auto].
  Qed.
End MUD.
(** * 4. [forgetBelow] *)
Section ForgetBelow.
  Variable H : Type.
  Variable T : N.
  Hypothesis HT : T <= 63.

  (** [p] is the position of a coordinate strictly below [(r, o)] *)
  Definition below (r o p : N) : Prop :=
    exists j b, 1 <= j /\ j <= r /\ b < 2 ^ j /\ p = gpos T (r - j) (o * 2 ^ j + b).

  Lemma below_child r o e p : 1 <= r -> e < 2 -> below (r - 1) (2 * o + e) p -> below r o p.
  Proof.
    intros Hr He (j & b & Hj1 & Hj & Hb & ->). exists (j + 1), (e * 2 ^ j + b).
    split; [lia|]. split; [lia|]. rewrite pow2_S. split; [nia|]. f_equal; [lia|]. lia.
  Qed.

  Lemma fb_children r o : 1 <= r -> r <= T -> o < 2 ^ (T - r) ->
    LeftChild (gpos T r o) T = gpos T (r - 1) (2 * o) /\
    sibling (LeftChild (gpos T r o) T) = gpos T (r - 1) (2 * o + 1).
  Proof.
    intros Hr HrT Ho.
    assert (E : LeftChild (gpos T r o) T = gpos T (r - 1) (2 * o)).
    { replace (gpos T r o) with (gpos T (r - 1 + 1) o) by (f_equal; lia).
      apply LeftChild_gpos; [exact HT|lia|replace (T - (r - 1) - 1) with (T - r) by lia; exact Ho]. }
    rewrite E. split; [reflexivity|]. rewrite sibling_gpos by lia. f_equal.
    rewrite lxor_1. rewrite N.even_mul. reflexivity.
  Qed.

  Definition submap (a b : nodemap H) : Prop :=
    forall p, nodes_get a p = nodes_get b p \/ nodes_get a p = None.

  Lemma forgetBelow_rec_spec : forall (fuel : nat) r o (nd : nodemap H),
    r < N.of_nat fuel -> r <= T -> o < 2 ^ (T - r) ->
    let out := forgetBelow_rec fuel T (gpos T r o) nd in
    (forall p, below r o p -> nodes_get out p = None) /\
    (forall p, nodes_get out p = nodes_get nd p \/ (nodes_get out p = None /\ below r o p)) /\
    (NoDup (map fst nd) -> NoDup (map fst out)).
  Proof.
    induction fuel as [|f IH]; intros r o nd Hf HrT Ho; [lia|]. cbn [forgetBelow_rec]. cbv zeta.
    rewrite DetectRow_gpos by assumption.
    destruct (N.eqb_spec r 0) as [E0|E0].
    - split; [|split; [left; reflexivity|auto]].
      intros p (j & b & Hj1 & Hj & _). lia.
    - assert (Hr : 1 <= r) by lia.
      destruct (fb_children r o Hr HrT Ho) as [EL ER]. rewrite ER, EL.
      set (l := gpos T (r - 1) (2 * o)). set (rr := gpos T (r - 1) (2 * o + 1)).
      set (nd1 := nodes_del rr (nodes_del l nd)).
      assert (Hov : 2 * o + 1 < 2 ^ (T - (r - 1))).
      { replace (T - (r - 1)) with (T - r + 1) by lia. rewrite pow2_S. lia. }
      destruct (IH (r - 1) (2 * o) nd1 ltac:(lia) ltac:(lia) ltac:(lia)) as (L1 & L2 & L3).
      fold l in L1, L2, L3. set (outl := forgetBelow_rec f T l nd1) in *.
      destruct (IH (r - 1) (2 * o + 1) outl ltac:(lia) ltac:(lia) Hov) as (R1 & R2 & R3).
      fold rr in R1, R2, R3. set (out := forgetBelow_rec f T rr outl) in *.
      assert (Hbl : below r o l).
      { exists 1, 0. change (2 ^ 1) with 2. repeat split; try lia. unfold l. f_equal. lia. }
      assert (Hbr : below r o rr).
      { exists 1, 1. change (2 ^ 1) with 2. repeat split; try lia. unfold rr. f_equal. lia. }
      assert (G1 : forall p, nodes_get nd1 p = nodes_get nd p \/ (nodes_get nd1 p = None /\ below r o p)).
      { intros p. unfold nd1. rewrite !rg_del.
        destruct (N.eqb_spec p rr) as [->|_]; [right; auto|].
        destruct (N.eqb_spec p l) as [->|_]; [right; auto|left; reflexivity]. }
      assert (G2 : forall p, nodes_get out p = nodes_get nd p \/ (nodes_get out p = None /\ below r o p)).
      { intros p. destruct (R2 p) as [E|[E Hb]].
        - rewrite E. destruct (L2 p) as [E'|[E' Hb]].
          + rewrite E'. apply G1.
          + right. split; [exact E'|]. replace (2 * o) with (2 * o + 0) in Hb by lia.
            apply (below_child r o 0); [exact Hr|lia|exact Hb].
        - right. split; [exact E|]. apply (below_child r o 1); [exact Hr|lia|exact Hb]. }
      assert (Hnone : forall p, nodes_get nd1 p = None -> nodes_get out p = None).
      { intros p E. destruct (R2 p) as [E'|[E' _]]; [|exact E']. rewrite E'.
        destruct (L2 p) as [E''|[E'' _]]; [|exact E'']. rewrite E''. exact E. }
      split; [|split; [exact G2|]].
      + intros p (j & b & Hj1 & Hj & Hb & ->).
        destruct (N.eq_dec j 1) as [->|Hj2].
        * change (2 ^ 1) with 2 in *. apply Hnone. unfold nd1. rewrite !rg_del.
          assert (b = 0 \/ b = 1) as [-> | ->] by lia.
          -- replace (o * 2 + 0) with (2 * o) by lia. fold l.
             destruct (l =? rr); [reflexivity|]. rewrite N.eqb_refl. reflexivity.
          -- replace (o * 2 + 1) with (2 * o + 1) by lia. fold rr. rewrite N.eqb_refl. reflexivity.
        * replace j with (j - 1 + 1) in Hb by lia. rewrite pow2_S in Hb.
          destruct (N.lt_ge_cases b (2 ^ (j - 1))) as [Lt|Ge].
          -- assert (Hb' : below (r - 1) (2 * o) (gpos T (r - j) (o * 2 ^ j + b))).
             { exists (j - 1), b. repeat split; try lia. f_equal; [lia|].
               replace j with (j - 1 + 1) at 1 by lia. rewrite pow2_S. lia. }
             destruct (R2 (gpos T (r - j) (o * 2 ^ j + b))) as [E|[E _]]; [|exact E].
             rewrite E. apply L1, Hb'.
          -- apply R1. exists (j - 1), (b - 2 ^ (j - 1)). repeat split; try lia. f_equal; [lia|].
             replace j with (j - 1 + 1) at 1 by lia. rewrite pow2_S. lia.
      + intros Hnd. apply R3, L3. unfold nd1. apply keys_del, keys_del, Hnd.
  Qed.

  Lemma forgetBelow_spec r o (nd : nodemap H) : r <= T -> o < 2 ^ (T - r) ->
    let out := forgetBelow T (gpos T r o) nd in
    (forall p, below r o p -> nodes_get out p = None) /\
    (forall p, nodes_get out p = nodes_get nd p \/ (nodes_get out p = None /\ below r o p)) /\
    (NoDup (map fst nd) -> NoDup (map fst out)).
  Proof.
    intros HrT Ho. unfold forgetBelow. rewrite DetectRow_gpos by assumption.
    apply forgetBelow_rec_spec; [lia|exact HrT|exact Ho].
  Qed.
End ForgetBelow.
(** * 5. [updateHashes] *)
Lemma bounded_dec (P : N -> Prop) : (forall j, P j \/ ~ P j) -> forall J,
  (exists j, 1 <= j /\ j <= J /\ P j) \/ (forall j, 1 <= j -> j <= J -> ~ P j).
Proof.
  intros Hdec J. induction J as [|J IH] using N.peano_ind.
  - right. intros j A B. lia.
  - destruct IH as [(j & A & B & C)|Hno].
    + left. exists j. repeat split; try assumption. lia.
    + destruct (Hdec (N.succ J)) as [Hp|Hn].
      * left. exists (N.succ J). repeat split; try assumption; lia.
      * right. intros j A B. destruct (N.eq_dec j (N.succ J)) as [->|Hne]; [exact Hn|].
        apply Hno; lia.
Qed.


Lemma div_pow2_S o j : o / 2 / 2 ^ j = o / 2 ^ (j + 1).
Proof. rewrite pow2_S, N.div_div by (try apply pow2_nz; lia). reflexivity. Qed.

Lemma anc_valid T r o j : r + j <= T -> o < 2 ^ (T - r) -> o / 2 ^ j < 2 ^ (T - (r + j)).
Proof.
  intros Hr Ho. apply N.div_lt_upper_bound; [apply pow2_nz|].
  rewrite <- N.pow_add_r. replace (j + (T - (r + j))) with (T - r) by lia. exact Ho.
Qed.

Section UpdateHashes.
  Variable H : Type.
  Variable HO : ops H.
  Variables n T : N.
  Variable full : bool.
  Hypothesis HT : T <= 63.
  Notation hash2 := (op_hash2 HO).

  (** started at or above a root, nothing is rewritten *)
  Lemma uh_above : forall (fuel : nat) r o h (nd : nodemap H),
    r <= T -> o < 2 ^ (T - r) ->
    (forall j, 1 <= j -> r + j <= T -> nodes_get nd (gpos T (r + j) (o / 2 ^ j)) = None) ->
    nodes_get nd (2 ^ (T + 1) - 1) = None ->
    uh_loop HO fuel n T full r (gpos T r o) h nd = nd.
  Proof.
    induction fuel as [|f IH]; intros r o h nd Hr Ho Hno Hg; [reflexivity|].
    cbn [uh_loop]. cbv zeta. destruct (N.ltb_spec T r) as [L|_]; [reflexivity|].
    destruct (N.eq_dec r T) as [->|Hne].
    - assert (o = 0) by (rewrite N.sub_diag in Ho; change (2 ^ 0) with 1 in Ho; lia). subst o.
      assert (Ep : Parent (gpos T T 0) T = 2 ^ (T + 1) - 1).
      { unfold Parent, gpos, gstart, or64, shr. rewrite shl_1 by exact HT.
        replace (T + 1 - T) with 1 by lia. change (2 ^ 1) with 2. rewrite N.add_0_r.
        rewrite N.shiftr_div_pow2. change (2 ^ 1) with 2.
        pose proof (UtilsGeom.pow2_pos T). rewrite pow2_S.
        replace ((2 * 2 ^ T - 2) / 2) with (2 ^ T - 1).
        2:{ apply (N.div_unique _ _ _ 0); lia. }
        rewrite lor_pow2_add by lia. lia. }
      rewrite Ep. unfold nodes_has. rewrite Hg.
      destruct (isRootPositionTotalRows (2 ^ (T + 1) - 1) n T); [reflexivity|].
      destruct f as [|f']; [reflexivity|]. cbn [uh_loop].
      rewrite add8_small by lia. destruct (N.ltb_spec T (T + 1)) as [_|G]; [reflexivity|lia].
    - rewrite Parent_gpos by (try assumption; lia).
      assert (E1 : nodes_get nd (gpos T (r + 1) (o / 2)) = None).
      { specialize (Hno 1 ltac:(lia) ltac:(lia)). rewrite N.pow_1_r in Hno. exact Hno. }
      unfold nodes_has. rewrite E1.
      destruct (isRootPositionTotalRows (gpos T (r + 1) (o / 2)) n T); [reflexivity|].
      rewrite add8_small by lia. apply IH; [lia| | |exact Hg].
      + pose proof (anc_valid T r o 1 ltac:(lia) Ho) as Hv. rewrite N.pow_1_r in Hv. exact Hv.
      + intros j Hj1 Hj. rewrite div_pow2_S. replace (r + 1 + j) with (r + (j + 1)) by lia.
        apply Hno; lia.
  Qed.

  (** the chain of ancestors of [(r0, o0)] up to the root [J] rows above *)
  Definition anc (r0 o0 j : N) : N := gpos T (r0 + j) (o0 / 2 ^ j).

  Lemma anc_neq r0 o0 J j k : r0 + J <= T -> o0 < 2 ^ (T - r0) -> j <= J -> k <= J -> j <> k ->
    anc r0 o0 j <> anc r0 o0 k.
  Proof.
    intros HJ Ho Hj Hk Hne E. unfold anc in E.
    assert (A : r0 + j <= T) by lia. assert (C : r0 + k <= T) by lia.
    destruct (gpos_inj T _ _ _ _ A (anc_valid T r0 o0 j A Ho) C (anc_valid T r0 o0 k C Ho) E) as [E1 _].
    lia.
  Qed.

  Lemma sib_anc_neq r0 o0 J j k : r0 + J <= T -> o0 < 2 ^ (T - r0) -> j < J -> k <= J ->
    sibling (anc r0 o0 j) <> anc r0 o0 k.
  Proof.
    intros HJ Ho Hj Hk E. unfold anc in E. rewrite sibling_gpos in E by lia.
    assert (A : r0 + j <= T) by lia. assert (C : r0 + k <= T) by lia.
    pose proof (anc_valid T r0 o0 j A Ho) as Vj.
    pose proof (anc_valid T r0 o0 k C Ho) as Vk.
    destruct (sib_offsets_lt T (r0 + j) (o0 / 2 ^ j) ltac:(lia) Vj) as (Vs & _).
    destruct (gpos_inj T _ _ _ _ A Vs C Vk E) as [E1 E2].
    assert (j = k) by lia. subst k. pose proof (lxor_1 (o0 / 2 ^ j)) as Hx.
    destruct (N.even (o0 / 2 ^ j)) eqn:Ev; [lia|]. pose proof (odd_nz _ Ev). lia.
  Qed.

  Lemma uh_chain : forall (fuel : nat) (J : N) r0 o0 (newh hs : N -> H) (nd : nodemap H),
    1 <= J -> J <= N.of_nat fuel -> r0 + J <= T -> o0 < 2 ^ (T - r0) ->
    (forall j, 1 <= j -> j < J -> isRootPositionTotalRows (anc r0 o0 j) n T = false) ->
    isRootPositionTotalRows (anc r0 o0 J) n T = true ->
    (forall j, j < J -> exists b, nodes_get nd (sibling (anc r0 o0 j)) = Some (hs j, b)) ->
    (forall j, j < J -> newh (j + 1) = if N.even (o0 / 2 ^ j) then hash2 (newh j) (hs j)
                                         else hash2 (hs j) (newh j)) ->
    let nd' := uh_loop HO fuel n T full r0 (gpos T r0 o0) (newh 0) nd in
    (forall j, 1 <= j -> j <= J -> nodes_get nd (anc r0 o0 j) <> None ->
               nodes_get nd' (anc r0 o0 j) = Some (newh j, full)) /\
    (forall p, nodes_get nd p = None -> nodes_get nd' p = None) /\
    (forall p, (forall j, 1 <= j -> j <= J -> p <> anc r0 o0 j) -> nodes_get nd' p = nodes_get nd p) /\
    (NoDup (map fst nd) -> NoDup (map fst nd')).
  Proof.
    induction fuel as [|f IH]; intros J r0 o0 newh hs nd HJ1 HJf HJ Ho Hnr HrJ Hsib Hnew; [lia|].
    cbn [uh_loop]. cbv zeta. destruct (N.ltb_spec T r0) as [L|_]; [lia|].
    destruct (Hsib 0 ltac:(lia)) as [b0 Es0]. unfold anc in Es0 at 1.
    rewrite N.add_0_r, N.pow_0_r, N.div_1_r in Es0.
    unfold nodes_get0. rewrite Es0. cbn [fst].
    rewrite isLeftNiece_gpos by lia.
    assert (Eh : (if N.even o0 then hash2 (newh 0) (hs 0) else hash2 (hs 0) (newh 0)) = newh 1).
    { pose proof (Hnew 0 ltac:(lia)) as E0. rewrite N.pow_0_r, N.div_1_r in E0.
      change (0 + 1) with 1 in E0. symmetry. exact E0. }
    rewrite Eh. rewrite Parent_gpos by (try assumption; lia).
    assert (Ea1 : gpos T (r0 + 1) (o0 / 2) = anc r0 o0 1) by (unfold anc; rewrite N.pow_1_r; reflexivity).
    set (nd1 := if nodes_has nd (gpos T (r0 + 1) (o0 / 2))
                then nodes_put (gpos T (r0 + 1) (o0 / 2)) (newh 1, full) nd else nd).
    assert (G1 : forall p, nodes_get nd1 p =
              if (p =? anc r0 o0 1) && nodes_has nd (anc r0 o0 1) then Some (newh 1, full)
              else nodes_get nd p).
    { intros p. unfold nd1. rewrite Ea1. destruct (nodes_has nd (anc r0 o0 1)).
      - rewrite rg_put, andb_true_r. reflexivity.
      - rewrite andb_false_r. reflexivity. }
    assert (K1 : NoDup (map fst nd) -> NoDup (map fst nd1)).
    { intros Hk. unfold nd1. destruct (nodes_has nd (gpos T (r0 + 1) (o0 / 2))); [apply keys_put|]; exact Hk. }
    destruct (N.eq_dec J 1) as [->|HJne].
    - rewrite Ea1, HrJ. fold nd1. split; [|split; [|split; [|exact K1]]].
      + intros j Hj1 Hj Hsto. assert (j = 1) by lia. subst j. rewrite G1, N.eqb_refl.
        unfold nodes_has. destruct (nodes_get nd (anc r0 o0 1)); [reflexivity|congruence].
      + intros p Ep. rewrite G1. destruct (N.eqb_spec p (anc r0 o0 1)) as [->|_]; [|exact Ep].
        unfold nodes_has. rewrite Ep. reflexivity.
      + intros p Hp. rewrite G1. destruct (N.eqb_spec p (anc r0 o0 1)) as [->|_]; [|reflexivity].
        exfalso. apply (Hp 1); [lia|lia|reflexivity].
    - rewrite Ea1, (Hnr 1 ltac:(lia) ltac:(lia)). fold nd1. rewrite add8_small by lia.
      rewrite <- Ea1.
      assert (Hanc : forall j, anc (r0 + 1) (o0 / 2) j = anc r0 o0 (j + 1)).
      { intros j. unfold anc. rewrite div_pow2_S. f_equal. lia. }
      pose proof (anc_valid T r0 o0 1 ltac:(lia) Ho) as Hv. rewrite N.pow_1_r in Hv.
      assert (P1 : 1 <= J - 1) by lia.
      assert (P2 : J - 1 <= N.of_nat f) by lia.
      assert (P3 : r0 + 1 + (J - 1) <= T) by lia.
      assert (P5 : forall j, 1 <= j -> j < J - 1 ->
                     isRootPositionTotalRows (anc (r0 + 1) (o0 / 2) j) n T = false).
      { intros j Hj1 Hj. rewrite Hanc. apply Hnr; lia. }
      assert (P6 : isRootPositionTotalRows (anc (r0 + 1) (o0 / 2) (J - 1)) n T = true).
      { rewrite Hanc. replace (J - 1 + 1) with J by lia. exact HrJ. }
      assert (P7 : forall j, j < J - 1 ->
                     exists b, nodes_get nd1 (sibling (anc (r0 + 1) (o0 / 2) j)) = Some (hs (j + 1), b)).
      { intros j Hj. rewrite Hanc. destruct (Hsib (j + 1) ltac:(lia)) as [b Eb]. exists b.
        rewrite G1. destruct (N.eqb_spec (sibling (anc r0 o0 (j + 1))) (anc r0 o0 1)) as [E|_]; [|exact Eb].
        exfalso. revert E. apply (sib_anc_neq r0 o0 J); try assumption; lia. }
      assert (P8 : forall j, j < J - 1 ->
                     newh (j + 1 + 1) = if N.even (o0 / 2 / 2 ^ j) then hash2 (newh (j + 1)) (hs (j + 1))
                                        else hash2 (hs (j + 1)) (newh (j + 1))).
      { intros j Hj. rewrite div_pow2_S. apply Hnew. lia. }
      pose proof (IH (J - 1) (r0 + 1) (o0 / 2) (fun j => newh (j + 1)) (fun j => hs (j + 1)) nd1
                    P1 P2 P3 Hv P5 P6 P7 P8) as (I1 & I2 & I3 & I4).
      clear P5 P6 P7 P8.
      cbv beta in I1, I2, I3, I4. change (newh (0 + 1)) with (newh 1) in I1, I2, I3, I4.
      set (nd' := uh_loop HO f n T full (r0 + 1) (gpos T (r0 + 1) (o0 / 2)) (newh 1) nd1) in *.
      split; [|split; [|split]].
      * intros j Hj1 Hj Hsto. destruct (N.eq_dec j 1) as [->|Hne].
        -- rewrite I3.
           ++ rewrite G1, N.eqb_refl. unfold nodes_has.
              destruct (nodes_get nd (anc r0 o0 1)); [reflexivity|congruence].
           ++ intros k Hk1 Hk. rewrite Hanc. apply (anc_neq r0 o0 J); try assumption; lia.
        -- replace j with (j - 1 + 1) by lia. rewrite <- Hanc. apply I1; [lia|lia|].
           rewrite Hanc. replace (j - 1 + 1) with j by lia. rewrite G1.
           destruct (N.eqb_spec (anc r0 o0 j) (anc r0 o0 1)) as [E|_]; [|exact Hsto].
           exfalso. revert E. apply (anc_neq r0 o0 J); try assumption; lia.
      * intros p Ep. apply I2. rewrite G1.
        destruct (N.eqb_spec p (anc r0 o0 1)) as [->|_]; [|exact Ep].
        unfold nodes_has. rewrite Ep. reflexivity.
      * intros p Hp. rewrite I3.
        -- rewrite G1. destruct (N.eqb_spec p (anc r0 o0 1)) as [->|_]; [|reflexivity].
           exfalso. apply (Hp 1); [lia|lia|reflexivity].
        -- intros j Hj1 Hj. rewrite Hanc. apply Hp; lia.
      * intros Hk. apply I4, K1, Hk.
  Qed.

  Lemma uh_chain_src (fuel : nat) (J : N) r0 o0 (newh hs : N -> H) (nd : nodemap H) :
    1 <= J -> J <= N.of_nat fuel -> r0 + J <= T -> o0 < 2 ^ (T - r0) ->
    (forall j, 1 <= j -> j < J -> isRootPositionTotalRows (anc r0 o0 j) n T = false) ->
    isRootPositionTotalRows (anc r0 o0 J) n T = true ->
    (forall j, j < J -> exists b, nodes_get nd (sibling (anc r0 o0 j)) = Some (hs j, b)) ->
    (forall j, j < J -> newh (j + 1) = if N.even (o0 / 2 ^ j) then hash2 (newh j) (hs j)
                                         else hash2 (hs j) (newh j)) ->
    forall p v, nodes_get (uh_loop HO fuel n T full r0 (gpos T r0 o0) (newh 0) nd) p = Some v ->
      (exists j, 1 <= j /\ j <= J /\ p = anc r0 o0 j /\ nodes_get nd p <> None /\ v = (newh j, full)) \/
      (nodes_get nd p = Some v /\ forall j, 1 <= j -> j <= J -> p <> anc r0 o0 j).
  Proof.
    intros A1 A2 A3 A4 A5 A6 A7 A8 p v E.
    destruct (uh_chain fuel J r0 o0 newh hs nd A1 A2 A3 A4 A5 A6 A7 A8) as (U1 & U2 & U3 & _).
    destruct (bounded_dec (fun j => p = anc r0 o0 j) (fun j => match N.eq_dec p (anc r0 o0 j) with left e => or_introl e | right e => or_intror e end) J)
      as [(j & B1 & B2 & ->)|Hno].
    - left. exists j. destruct (nodes_get nd (anc r0 o0 j)) as [w|] eqn:Ew.
      + rewrite U1 in E by (try assumption; congruence). repeat split; try assumption; congruence.
      + rewrite (U2 _ Ew) in E. discriminate.
    - right. rewrite U3 in E by exact Hno. auto.
  Qed.
End UpdateHashes.
(** * 6. The reference forest after the deletion of a whole subtree *)

(** [d] lies at or below [c] *)
Definition under (c d : nat * N) : Prop :=
  (fst d <= fst c)%nat /\ snd d / p2 (fst c - fst d) = snd c.

Lemma under_refl c : under c c.
Proof. split; [lia|]. rewrite Nat.sub_diag, p2_0. apply N.div_1_r. Qed.

Lemma under_trans a b c : under a b -> under b c -> under a c.
Proof.
  intros [H1 E1] [H2 E2]. split; [lia|].
  replace (fst a - fst c)%nat with ((fst b - fst c) + (fst a - fst b))%nat by lia.
  rewrite p2_add, <- N.div_div by (pose proof (p2_pos (fst b - fst c)); pose proof (p2_pos (fst a - fst b)); lia).
  rewrite E2. exact E1.
Qed.

Lemma under_antisym a b : under a b -> under b a -> a = b.
Proof.
  intros [H1 E1] [H2 _]. assert (E : fst a = fst b) by lia. destruct a as [ra oa], b as [rb ob].
  cbn [fst snd] in *. subst rb. rewrite Nat.sub_diag, p2_0, N.div_1_r in E1. congruence.
Qed.

Lemma under_par c r o : under c (r, o) -> (r < fst c)%nat -> under c (S r, o / 2).
Proof.
  intros [H1 E1] Hlt. cbn [fst snd] in *. split; [cbn [fst]; lia|]. cbn [fst snd].
  rewrite N.div_div by (try (pose proof (p2_pos (fst c - S r))); lia).
  rewrite <- p2_S. replace (S (fst c - S r)) with (fst c - r)%nat by lia. exact E1.
Qed.

Lemma under_children_excl r o d : under (r, 2 * o) d -> under (r, 2 * o + 1) d -> False.
Proof. intros [_ E1] [_ E2]. cbn [fst snd] in *. lia. Qed.

Lemma under_split r o d : under (S r, o) d -> (fst d <= r)%nat ->
  under (r, 2 * o) d \/ under (r, 2 * o + 1) d.
Proof.
  intros [_ E] Hle. cbn [fst snd] in *.
  replace (S r - fst d)%nat with (S (r - fst d)) in E by lia. rewrite p2_S in E.
  pose proof (p2_pos (r - fst d)) as Hp.
  replace (2 * p2 (r - fst d)) with (p2 (r - fst d) * 2) in E by lia.
  rewrite <- N.div_div in E by lia.
  set (m := snd d / p2 (r - fst d)) in *. pose proof (N.div_mod' m 2) as Hdm.
  assert (Hm : m mod 2 < 2) by (apply N.mod_lt; lia).
  assert (m mod 2 = 0 \/ m mod 2 = 1) as [E0|E0] by lia; [left|right]; (split; [exact Hle|cbn [fst snd]; fold m; lia]).
Qed.

Lemma under_sib_par r o : under (S r, o / 2) (r, N.lxor o 1) /\ under (S r, o / 2) (r, o).
Proof.
  unfold under. cbn [fst snd]. replace (S r - r)%nat with 1%nat by lia.
  change (p2 1) with 2. destruct (pps_bit0 o) as (k & [(E1 & E2 & _ & E4)|(E1 & E2 & _ & E4)]);
    rewrite E2, E4; (split; split; lia).
Qed.

Section RefPrune.
  Variable H : Type.
  Variable HO : ops H.
  Hypothesis HOK : ops_ok HO.
  Notation hash2 := (op_hash2 HO).
  Notation prune := (RefTheory.prune HO).

  Lemma inrange_under r o (y : node H) : inrange H r o y -> under (r, o) (coord y).
  Proof.
    intros (Hr & Hlo & Hhi). unfold under, LayoutStruct.coord. cbn [fst snd]. split; [exact Hr|].
    unfold nlo, nhi in *. rewrite (p2_split r (nrow y) Hr) in Hlo, Hhi.
    pose proof (p2_pos (nrow y)) as Hp. pose proof (p2_pos (r - nrow y)) as Hq.
    symmetry. apply (N.div_unique _ _ _ (noff y - o * p2 (r - nrow y))); nia.
  Qed.

  (** the node of the subtree that has moved up one row into the place of its parent: [rd] is the
      row of the subtree's root, [b] the root flag of the parent *)
  Definition upn (rd : nat) (b : bool) (y : node H) : node H :=
    mkNode (S (nrow y)) (rmbit (noff y) (N.of_nat (rd - nrow y))) (nhash y) (nleaf y)
           ((nrow y =? rd)%nat && b) (ntree y).
  Definition sethash (y : node H) (h : H) : node H :=
    mkNode (nrow y) (noff y) h (nleaf y) (nroot y) (ntree y).

  Lemma place_lift (c : ctree H) : forall rho om rd q e be b tr,
    (cheight H c <= rho)%nat -> (rho <= rd)%nat -> e < 2 -> be < p2 (rd - rho) ->
    om = (2 * q + e) * p2 (rd - rho) + be ->
    map (upn rd b) (place_tree c rho om false tr) =
    place_tree c (S rho) (q * p2 (rd - rho) + be) ((rho =? rd)%nat && b) tr.
  Proof.
    induction c as [h|h l IHl rr IHr]; intros rho om rd q e be b tr Hh Hrho He Hbe Eom.
    - cbn [place_tree map]. unfold upn. cbn [nrow noff nhash nleaf nroot ntree]. f_equal. f_equal.
      rewrite Eom. unfold p2. rewrite rmbit_block by exact Hbe. f_equal. f_equal.
      rewrite N.mul_comm. rewrite N.div_add_l by lia. rewrite (N.div_small e 2) by exact He. lia.
    - cbn [cheight] in Hh. destruct rho as [|rho']; [lia|].
      cbn [place_tree map]. rewrite map_app.
      assert (Ep : p2 (rd - rho') = 2 * p2 (rd - S rho')).
      { replace (rd - rho')%nat with (S (rd - S rho')) by lia. apply p2_S. }
      assert (Ef : (rho' =? rd)%nat = false) by (apply Nat.eqb_neq; lia).
      rewrite (IHl rho' (2 * om) rd q e (2 * be) b tr); [|lia|lia|exact He|lia|rewrite Eom, Ep; lia].
      rewrite (IHr rho' (2 * om + 1) rd q e (2 * be + 1) b tr); [|lia|lia|exact He|lia|rewrite Eom, Ep; lia].
      rewrite Ef. cbn [andb]. unfold upn at 1. cbn [nrow noff nhash nleaf nroot ntree].
      f_equal.
      + f_equal. rewrite Eom. unfold p2. rewrite rmbit_block by exact Hbe. f_equal. f_equal.
        rewrite N.mul_comm. rewrite N.div_add_l by lia. rewrite (N.div_small e 2) by exact He. lia.
      + rewrite Ep. f_equal; f_equal; lia.
  Qed.

  Lemma prune_all dels (t : ctree H) :
    (forall h, In h (cleaves H t) -> memH HO h dels = true) -> prune dels t = None.
  Proof.
    induction t as [h|h l IHl r IHr]; intros Hall; cbn [RefTheory.prune].
    - rewrite (Hall h (or_introl eq_refl)). reflexivity.
    - cbn [cleaves] in Hall. rewrite IHl, IHr; [reflexivity| |];
        intros h' Hh'; apply Hall, in_or_app; [right|left]; exact Hh'.
  Qed.

  Lemma prune_keep dels (t : ctree H) : cwf H HO t ->
    (forall h, In h (cleaves H t) -> memH HO h dels = false) -> prune dels t = Some t.
  Proof.
    induction t as [h|h l IHl r IHr]; intros Hwf Hall; cbn [RefTheory.prune].
    - rewrite (Hall h (or_introl eq_refl)). reflexivity.
    - cbn [cwf] in Hwf. destruct Hwf as (Eh & Wl & Wr). cbn [cleaves] in Hall.
      rewrite IHl, IHr; try assumption.
      + cbn [join]. rewrite <- Eh. reflexivity.
      + intros h' Hh'. apply Hall, in_or_app. right. exact Hh'.
      + intros h' Hh'. apply Hall, in_or_app. left. exact Hh'.
  Qed.

  Lemma leaves_placed (c : ctree H) r o b tr h : (cheight H c <= r)%nat -> In h (cleaves H c) ->
    exists y, In y (place_tree c r o b tr) /\ nleaf y = true /\ nhash y = h.
  Proof.
    intros Hh Hin. rewrite <- (place_tree_leaves H c r o b tr Hh) in Hin.
    apply in_map_iff in Hin as (y & Ey & Hy). apply filter_In in Hy as [Hy Hl]. exists y. auto.
  Qed.

  (** one tree: the subtree rooted at [(rd, od)], strictly below the root, is deleted as a whole *)
  Lemma prune_place dels rd od (t : ctree H) : forall r o b tr xn,
    cwf H HO t -> (cheight H t <= r)%nat -> (rd < r)%nat ->
    In xn (place_tree t r o b tr) -> coord xn = (rd, od) ->
    (forall y, In y (place_tree t r o b tr) -> nleaf y = true ->
               (memH HO (nhash y) dels = true <-> under (rd, od) (coord y))) ->
    exists t', prune dels t = Some t' /\ cwf H HO t' /\ (cheight H t' <= r)%nat /\
      forall y, In y (place_tree t r o b tr) ->
        (~ under (S rd, od / 2) (coord y) -> ~ under (coord y) (S rd, od / 2) ->
           In y (place_tree t' r o b tr)) /\
        (under (rd, N.lxor od 1) (coord y) ->
           In (upn rd ((S rd =? r)%nat && b) y) (place_tree t' r o b tr)) /\
        (under (coord y) (S rd, od / 2) -> coord y <> (S rd, od / 2) ->
           exists h', In (sethash y h') (place_tree t' r o b tr)).
  Proof.
    induction t as [h|h l IHl rr IHr]; intros r o b tr xn Hwf Hht Hrd Hxn Exn Hlv.
    - exfalso. cbn [place_tree] in Hxn. destruct Hxn as [<-|[]].
      unfold LayoutStruct.coord in Exn. cbn [nrow noff] in Exn. injection Exn as E _. lia.
    - cbn [cwf] in Hwf. destruct Hwf as (Eh & Wl & Wr). cbn [cheight] in Hht.
      destruct r as [|r']; [lia|].
      assert (Hhl : (cheight H l <= r')%nat) by lia. assert (Hhr : (cheight H rr <= r')%nat) by lia.
      pose proof (under_sib_par rd od) as [Usb Ux].
      (* the two parts *)
      assert (Hparts : forall y, In y (place_tree (CNode h l rr) (S r') o b tr) ->
                y = mkNode (S r') o h false b tr \/
                (In y (place_tree l r' (2 * o) false tr) /\ under (r', 2 * o) (coord y)) \/
                (In y (place_tree rr r' (2 * o + 1) false tr) /\ under (r', 2 * o + 1) (coord y))).
      { intros y Hy. cbn [place_tree] in Hy. destruct Hy as [<-|Hy]; [left; reflexivity|right].
        apply in_app_or in Hy as [Hy|Hy]; [left|right]; (split; [exact Hy|]);
          apply inrange_under, (place_tree_range H _ _ _ _ _ _ Hy). }
      assert (Hinl : forall y, In y (place_tree l r' (2 * o) false tr) ->
                In y (place_tree (CNode h l rr) (S r') o b tr)).
      { intros y Hy. cbn [place_tree]. right. apply in_or_app. left. exact Hy. }
      assert (Hinr : forall y, In y (place_tree rr r' (2 * o + 1) false tr) ->
                In y (place_tree (CNode h l rr) (S r') o b tr)).
      { intros y Hy. cbn [place_tree]. right. apply in_or_app. right. exact Hy. }
      assert (Hxu : under (rd, od) (coord xn)) by (rewrite Exn; apply under_refl).
      destruct (Hparts xn Hxn) as [Ex|[[Hxl Uxl]|[Hxr Uxr]]].
      + exfalso. rewrite Ex in Exn. unfold LayoutStruct.coord in Exn. cbn [nrow noff] in Exn.
        injection Exn as E _. lia.
      + (* the deleted subtree lies in the left part *)
        rewrite Exn in Uxl.
        assert (Hkeep : prune dels rr = Some rr).
        { apply prune_keep; [exact Wr|]. intros h' Hh'.
          destruct (leaves_placed rr r' (2 * o + 1) false tr h' Hhr Hh') as (y & Hy & Ly & <-).
          destruct (memH HO (nhash y) dels) eqn:Em; [exfalso|reflexivity].
          apply (Hlv y (Hinr y Hy) Ly) in Em.
          destruct (Hparts y (Hinr y Hy)) as [Ey|[[_ Uy]|[_ Uy]]].
          - rewrite Ey in Ly. discriminate.
          - apply (under_children_excl r' o (coord y)); [exact Uy|].
            apply inrange_under, (place_tree_range H _ _ _ _ _ _ Hy).
          - apply (under_children_excl r' o (coord y)); [|exact Uy].
            exact (under_trans _ _ _ Uxl Em). }
        destruct (Nat.eq_dec rd r') as [->|Hne].
        * (* the left child is deleted *)
          assert (Eod : od = 2 * o).
          { destruct Uxl as [_ E]. cbn [fst snd] in E. rewrite Nat.sub_diag, p2_0, N.div_1_r in E. exact E. }
          subst od.
          assert (Hall : prune dels l = None).
          { apply prune_all. intros h' Hh'.
            destruct (leaves_placed l r' (2 * o) false tr h' Hhl Hh') as (y & Hy & Ly & <-).
            apply (Hlv y (Hinl y Hy) Ly). apply inrange_under, (place_tree_range H _ _ _ _ _ _ Hy). }
          exists rr. cbn [RefTheory.prune]. rewrite Hall, Hkeep. cbn [join].
          split; [reflexivity|]. split; [exact Wr|]. split; [lia|].
          rewrite pps_div2_double.
          assert (Elx : N.lxor (2 * o) 1 = 2 * o + 1).
          { rewrite lxor_1, N.even_mul. reflexivity. }
          rewrite Elx. rewrite Nat.eqb_refl. cbn [andb].
          assert (Hall_under : forall y, In y (place_tree (CNode h l rr) (S r') o b tr) ->
                    under (S r', o) (coord y)).
          { intros y Hy. apply inrange_under, (place_tree_range H _ _ _ _ _ _ Hy). }
          intros y Hy. split; [|split].
          -- intros Hn _. exfalso. exact (Hn (Hall_under y Hy)).
          -- intros Uy. destruct (Hparts y Hy) as [Ey|[[_ Uy']|[Hyr _]]].
             ++ exfalso. rewrite Ey in Uy. destruct Uy as [Hle _]. cbn in Hle. lia.
             ++ exfalso. exact (under_children_excl r' o _ Uy' Uy).
             ++ pose proof (place_lift rr r' (2 * o + 1) r' o 1 0 b tr Hhr (le_n _) ltac:(lia)
                              ltac:(rewrite Nat.sub_diag, p2_0; lia)
                              ltac:(rewrite Nat.sub_diag, p2_0; lia)) as El.
                rewrite Nat.sub_diag, p2_0, N.mul_1_r, N.add_0_r, Nat.eqb_refl in El. cbn [andb] in El.
                rewrite <- El. apply in_map, Hyr.
          -- intros Uy Hne. exfalso. apply Hne. symmetry. exact (under_antisym _ _ (Hall_under y Hy) Uy).
        * (* the deleted subtree lies strictly below the left child *)
          assert (Hrd' : (rd < r')%nat) by (destruct Uxl as [Hle _]; cbn [fst] in Hle; lia).
          destruct (IHl r' (2 * o) false tr xn Wl Hhl Hrd' Hxl Exn) as (l' & Pl & Wl' & Hl' & Fl).
          { intros y Hy. apply Hlv, Hinl, Hy. }
          exists (CNode (hash2 (chash l') (chash rr)) l' rr). cbn [RefTheory.prune]. rewrite Pl, Hkeep.
          cbn [join]. split; [reflexivity|]. split; [cbn [cwf]; auto|]. split; [cbn [cheight]; lia|].
          assert (UP : under (r', 2 * o) (S rd, od / 2)) by (apply under_par; assumption).
          assert (Ef : (S rd =? S r')%nat = false) by (apply Nat.eqb_neq; lia).
          assert (Ef' : (S rd =? r')%nat && false = false) by apply andb_false_r.
          rewrite Ef. cbn [andb]. rewrite Ef' in Fl.
          intros y Hy. destruct (Hparts y Hy) as [Ey|[[Hyl Uyl]|[Hyr Uyr]]].
          -- (* the head *)
             subst y. split; [|split].
             ++ intros _ Hn. exfalso. apply Hn. unfold LayoutStruct.coord. cbn [nrow noff].
                apply (under_trans _ (r', 2 * o)); [|exact UP].
                split; [cbn; lia|]. cbn [fst snd]. replace (S r' - r')%nat with 1%nat by lia.
                change (p2 1) with 2. apply pps_div2_double.
             ++ intros [Hle _]. cbn in Hle. lia.
             ++ intros _ _. eexists. cbn [place_tree]. left. unfold sethash. cbn. reflexivity.
          -- destruct (Fl y Hyl) as (F1 & F2 & F3). split; [|split].
             ++ intros A B. cbn [place_tree]. right. apply in_or_app. left. exact (F1 A B).
             ++ intros A. cbn [place_tree]. right. apply in_or_app. left. exact (F2 A).
             ++ intros A B. destruct (F3 A B) as [h' Hh']. exists h'. cbn [place_tree]. right.
                apply in_or_app. left. exact Hh'.
          -- split; [|split].
             ++ intros _ _. cbn [place_tree]. right. apply in_or_app. right. exact Hyr.
             ++ intros A. exfalso. apply (under_children_excl r' o (coord y)); [|exact Uyr].
                exact (under_trans _ _ _ UP (under_trans _ _ _ Usb A)).
             ++ intros A _. exfalso. apply (under_children_excl r' o (S rd, od / 2)); [exact UP|].
                exact (under_trans _ _ _ Uyr A).
      + (* the deleted subtree lies in the right part *)
        rewrite Exn in Uxr.
        assert (Hkeep : prune dels l = Some l).
        { apply prune_keep; [exact Wl|]. intros h' Hh'.
          destruct (leaves_placed l r' (2 * o) false tr h' Hhl Hh') as (y & Hy & Ly & <-).
          destruct (memH HO (nhash y) dels) eqn:Em; [exfalso|reflexivity].
          apply (Hlv y (Hinl y Hy) Ly) in Em.
          apply (under_children_excl r' o (coord y)).
          - apply inrange_under, (place_tree_range H _ _ _ _ _ _ Hy).
          - exact (under_trans _ _ _ Uxr Em). }
        destruct (Nat.eq_dec rd r') as [->|Hne].
        * assert (Eod : od = 2 * o + 1).
          { destruct Uxr as [_ E]. cbn [fst snd] in E. rewrite Nat.sub_diag, p2_0, N.div_1_r in E. exact E. }
          subst od.
          assert (Hall : prune dels rr = None).
          { apply prune_all. intros h' Hh'.
            destruct (leaves_placed rr r' (2 * o + 1) false tr h' Hhr Hh') as (y & Hy & Ly & <-).
            apply (Hlv y (Hinr y Hy) Ly). apply inrange_under, (place_tree_range H _ _ _ _ _ _ Hy). }
          exists l. cbn [RefTheory.prune]. rewrite Hall, Hkeep. cbn [join].
          split; [reflexivity|]. split; [exact Wl|]. split; [lia|].
          rewrite pps_div2_double1.
          assert (Elx : N.lxor (2 * o + 1) 1 = 2 * o).
          { rewrite lxor_1. rewrite N.even_add, N.even_mul. cbn. lia. }
          rewrite Elx. rewrite Nat.eqb_refl. cbn [andb].
          assert (Hall_under : forall y, In y (place_tree (CNode h l rr) (S r') o b tr) ->
                    under (S r', o) (coord y)).
          { intros y Hy. apply inrange_under, (place_tree_range H _ _ _ _ _ _ Hy). }
          intros y Hy. split; [|split].
          -- intros Hn _. exfalso. exact (Hn (Hall_under y Hy)).
          -- intros Uy. destruct (Hparts y Hy) as [Ey|[[Hyl _]|[_ Uy']]].
             ++ exfalso. rewrite Ey in Uy. destruct Uy as [Hle _]. cbn in Hle. lia.
             ++ pose proof (place_lift l r' (2 * o) r' o 0 0 b tr Hhl (le_n _) ltac:(lia)
                              ltac:(rewrite Nat.sub_diag, p2_0; lia)
                              ltac:(rewrite Nat.sub_diag, p2_0; lia)) as El.
                rewrite Nat.sub_diag, p2_0, N.mul_1_r, N.add_0_r, Nat.eqb_refl in El. cbn [andb] in El.
                rewrite <- El. apply in_map, Hyl.
             ++ exfalso. exact (under_children_excl r' o _ Uy Uy').
          -- intros Uy Hne. exfalso. apply Hne. symmetry. exact (under_antisym _ _ (Hall_under y Hy) Uy).
        * assert (Hrd' : (rd < r')%nat) by (destruct Uxr as [Hle _]; cbn [fst] in Hle; lia).
          destruct (IHr r' (2 * o + 1) false tr xn Wr Hhr Hrd' Hxr Exn) as (rr' & Pr & Wr' & Hr' & Fr).
          { intros y Hy. apply Hlv, Hinr, Hy. }
          exists (CNode (hash2 (chash l) (chash rr')) l rr'). cbn [RefTheory.prune]. rewrite Pr, Hkeep.
          cbn [join]. split; [reflexivity|]. split; [cbn [cwf]; auto|]. split; [cbn [cheight]; lia|].
          assert (UP : under (r', 2 * o + 1) (S rd, od / 2)) by (apply under_par; assumption).
          assert (Ef : (S rd =? S r')%nat = false) by (apply Nat.eqb_neq; lia).
          assert (Ef' : (S rd =? r')%nat && false = false) by apply andb_false_r.
          rewrite Ef. cbn [andb]. rewrite Ef' in Fr.
          intros y Hy. destruct (Hparts y Hy) as [Ey|[[Hyl Uyl]|[Hyr Uyr]]].
          -- subst y. split; [|split].
             ++ intros _ Hn. exfalso. apply Hn. unfold LayoutStruct.coord. cbn [nrow noff].
                apply (under_trans _ (r', 2 * o + 1)); [|exact UP].
                split; [cbn; lia|]. cbn [fst snd]. replace (S r' - r')%nat with 1%nat by lia.
                change (p2 1) with 2. apply pps_div2_double1.
             ++ intros [Hle _]. cbn in Hle. lia.
             ++ intros _ _. eexists. cbn [place_tree]. left. unfold sethash. cbn. reflexivity.
          -- split; [|split].
             ++ intros _ _. cbn [place_tree]. right. apply in_or_app. left. exact Hyl.
             ++ intros A. exfalso. apply (under_children_excl r' o (coord y)); [exact Uyl|].
                exact (under_trans _ _ _ UP (under_trans _ _ _ Usb A)).
             ++ intros A _. exfalso. apply (under_children_excl r' o (S rd, od / 2)); [|exact UP].
                exact (under_trans _ _ _ Uyl A).
          -- destruct (Fr y Hyr) as (F1 & F2 & F3). split; [|split].
             ++ intros A B. cbn [place_tree]. right. apply in_or_app. right. exact (F1 A B).
             ++ intros A. cbn [place_tree]. right. apply in_or_app. right. exact (F2 A).
             ++ intros A B. destruct (F3 A B) as [h' Hh']. exists h'. cbn [place_tree]. right.
                apply in_or_app. right. exact Hh'.
  Qed.
End RefPrune.
(** * 7. The layout after the deletion of the subtree below a node *)
Section KillBasics.
  Variable H : Type.
  Variable HO : ops H.
  Variable dels : list H.

  Lemma kill_roots (s : slots H) y' : In y' (layout HO (kill HO dels s)) -> nroot y' = true ->
    exists y, In y (layout HO s) /\ nroot y = true /\ coord y = coord y'.
  Proof.
    intros Hy' Hr.
    destruct (root_node_conv H HO (kill HO dels s) y' Hy' Hr) as (k & lo & t' & He' & Er & Eo & _).
    rewrite RefTheory.forest_kill in He'. apply in_map_iff in He' as ([[k0 lo0] t0] & E & He).
    unfold RefTheory.prune_entry in E. cbn [fst snd] in E. injection E as -> -> _.
    destruct (root_node H HO s k lo t0 He) as (_ & _ & _ & y & Hy & Hroot & _).
    apply tnode_some in Hy as (Hyl & Eyr & Eyo). exists y. split; [exact Hyl|]. split; [exact Hroot|].
    unfold coord. congruence.
  Qed.

  Lemma kill_live (s : slots H) h :
    In (Some h) (kill HO dels s) <-> In (Some h) s /\ memH HO h dels = false.
  Proof.
    unfold kill. rewrite in_map_iff. split.
    - intros ([h0|] & E & Hin); [|discriminate]. destruct (memH HO h0 dels) eqn:Em; [discriminate|].
      injection E as <-. auto.
    - intros [Hin Em]. exists (Some h). rewrite Em. auto.
  Qed.

  Lemma live_kill (s : slots H) :
    live (kill HO dels s) = filter (fun h => negb (memH HO h dels)) (live s).
  Proof.
    induction s as [|[h|] t IH]; [reflexivity| |exact IH].
    change (live (Some h :: t)) with (h :: live t).
    change (kill HO dels (Some h :: t))
      with ((if memH HO h dels then None else Some h) :: kill HO dels t).
    cbn [filter]. destruct (memH HO h dels); cbn [negb].
    - change (live (None :: kill HO dels t)) with (live (kill HO dels t)). exact IH.
    - change (live (Some h :: kill HO dels t)) with (h :: live (kill HO dels t)). rewrite IH. reflexivity.
  Qed.

  Lemma kill_nodup (s : slots H) : NoDup (live s) -> NoDup (live (kill HO dels s)).
  Proof. intros Hnd. rewrite live_kill. apply NoDup_filter, Hnd. Qed.
End KillBasics.

Section RefLayout.
  Variable H : Type.
  Variable HO : ops H.
  Hypothesis HOK : ops_ok HO.
  Variable s : slots H.
  Variable dels : list H.
  Notation lay := (layout HO s).
  Notation s' := (kill HO dels s).
  Notation lay' := (layout HO (kill HO dels s)).

  Lemma under_range (x y : node H) : under (coord x) (coord y) ->
    nlo x <= nlo y /\ nlo y < nhi x /\ nhi y <= nhi x.
  Proof.
    intros [Hr E]. unfold coord in *. cbn [fst snd] in *. unfold nlo, nhi.
    rewrite (p2_split (nrow x) (nrow y) Hr).
    pose proof (p2_pos (nrow y)) as Hp. pose proof (p2_pos (nrow x - nrow y)) as Hq.
    pose proof (N.div_mod' (noff y) (p2 (nrow x - nrow y))) as Hdm. rewrite E in Hdm.
    assert (Hm : noff y mod p2 (nrow x - nrow y) < p2 (nrow x - nrow y)) by (apply N.mod_lt; lia).
    nia.
  Qed.

  Variable x : node H.
  Hypothesis Hx : In x lay.
  Hypothesis Hdel : forall y, In y lay -> nleaf y = true ->
    (memH HO (nhash y) dels = true <-> under (coord x) (coord y)).

  Lemma kill_entry e : In e (forest HO s) -> In (RefTheory.prune_entry HO dels e) (forest HO s').
  Proof. intros He. rewrite RefTheory.forest_kill. apply in_map, He. Qed.

  (** the trees that do not contain [x] are not touched *)
  Lemma other_entry k lo t k2 lo2 t2 : In (k, lo, t) (forest HO s) -> In x (place_entry HO (k, lo, t)) ->
    In (k2, lo2, t2) (forest HO s) -> k2 <> k -> In (k2, lo2, t2) (forest HO s').
  Proof.
    intros He Hxe He2 Hne.
    replace (k2, lo2, t2) with (RefTheory.prune_entry HO dels (k2, lo2, t2)); [apply kill_entry, He2|].
    unfold RefTheory.prune_entry. cbn [fst snd]. f_equal. destruct t2 as [c2|]; [|reflexivity].
    cbn [RefTheory.oprune].
    pose proof (forest_entry H HO s _ _ _ He2) as (_ & _ & E2 & _ & _ & Ht2). symmetry in Ht2.
    destruct (compress_wf H HO _ _ _ Ht2) as [W2 Hh2].
    apply prune_keep; [exact W2|]. intros h Hh.
    destruct (leaves_placed H c2 k2 (2 * (N.of_nat (length s) / p2 (S k2))) true k2 h Hh2 Hh)
      as (y & Hy & Ly & <-).
    assert (Hyl : In y lay).
    { apply (entry_layout H HO s _ y He2). rewrite (place_entry_eq H HO k2 lo2 (Some c2) _ E2). exact Hy. }
    destruct (memH HO (nhash y) dels) eqn:Em; [exfalso|reflexivity].
    apply (Hdel y Hyl Ly) in Em. destruct (under_range x y Em) as (A & B & _).
    assert (Hy' : In y (place_entry HO (k2, lo2, Some c2))).
    { rewrite (place_entry_eq H HO k2 lo2 (Some c2) _ E2). exact Hy. }
    destruct (layout_same_entry H HO s _ _ _ _ _ _ x y He He2 Hxe Hy' A B) as (E & _). congruence.
  Qed.

  Lemma other_node k lo t y : In (k, lo, t) (forest HO s) -> In x (place_entry HO (k, lo, t)) ->
    In y lay -> ~ In y (place_entry HO (k, lo, t)) -> In y lay'.
  Proof.
    intros He Hxe Hy Hny. destruct (layout_entry H HO s y Hy) as (k2 & lo2 & t2 & He2 & Hy2).
    destruct (Nat.eq_dec k2 k) as [->|Hne].
    - destruct (forest_entry_unique H HO s _ _ _ _ _ He He2) as [<- <-]. contradiction.
    - exact (entry_layout H HO s' _ y (other_entry k lo t k2 lo2 t2 He Hxe He2 Hne) Hy2).
  Qed.

  (** ** the deleted subtree is a whole tree *)
  Theorem kill_root : nroot x = true ->
    In (mkNode (nrow x) (noff x) (op_empty HO) false true (nrow x)) lay' /\
    (forall y, In y lay -> ~ under (coord x) (coord y) -> In y lay').
  Proof.
    intros Hroot. destruct (layout_entry H HO s x Hx) as (k & lo & t & He & Hxe).
    pose proof (forest_entry H HO s _ _ _ He) as (_ & _ & E2 & _ & _ & Ht). symmetry in Ht.
    set (q := 2 * (N.of_nat (length s) / p2 (S k))) in *.
    pose proof (place_entry_eq H HO k lo t q E2) as Epe.
    assert (Ec : nrow x = k /\ noff x = q).
    { rewrite Epe in Hxe. destruct t as [c|].
      - destruct (place_tree_tail H _ _ _ _ _ _ Hxe) as [->|[_ Hn]]; [cbn; auto|congruence].
      - destruct Hxe as [<-|[]]. cbn. auto. }
    destruct Ec as [Er Eo].
    assert (Hnone : RefTheory.oprune HO dels t = None).
    { destruct t as [c|]; [|reflexivity]. cbn [RefTheory.oprune].
      destruct (compress_wf H HO _ _ _ Ht) as [W Hh]. apply prune_all. intros h Hh'.
      destruct (leaves_placed H c k q true k h Hh Hh') as (y & Hy & Ly & <-).
      assert (Hyl : In y lay) by (apply (entry_layout H HO s _ y He); rewrite Epe; exact Hy).
      apply (Hdel y Hyl Ly). unfold coord at 1. rewrite Er, Eo.
      apply inrange_under, (place_tree_range H _ _ _ _ _ _ Hy). }
    pose proof (kill_entry _ He) as He'. unfold RefTheory.prune_entry in He'. cbn [fst snd] in He'.
    rewrite Hnone in He'. split.
    - apply (entry_layout H HO s' _ _ He'). rewrite (place_entry_eq H HO k lo None q E2).
      left. rewrite Er, Eo. reflexivity.
    - intros y Hy Hnu. apply (other_node k lo t y He Hxe Hy). intros Hin. apply Hnu.
      unfold coord at 1. rewrite Er, Eo. rewrite Epe in Hin. destruct t as [c|].
      + apply inrange_under, (place_tree_range H _ _ _ _ _ _ Hin).
      + destruct Hin as [<-|[]]. unfold coord. cbn [nrow noff]. apply under_refl.
  Qed.

  (** ** the deleted subtree has a sibling: that one moves up *)
  Theorem kill_inner : nroot x = false ->
    let rd := nrow x in let od := noff x in
    forall y, In y lay ->
      (~ under (S rd, od / 2) (coord y) -> ~ under (coord y) (S rd, od / 2) -> In y lay') /\
      (under (rd, N.lxor od 1) (coord y) -> In (upn H rd (S rd =? ntree x)%nat y) lay') /\
      (under (coord y) (S rd, od / 2) -> coord y <> (S rd, od / 2) ->
         exists h', In (sethash H y h') lay').
  Proof.
    intros Hroot rd od. destruct (layout_entry H HO s x Hx) as (k & lo & t & He & Hxe).
    pose proof (forest_entry H HO s _ _ _ He) as (_ & _ & E2 & _ & _ & Ht). symmetry in Ht.
    set (q := 2 * (N.of_nat (length s) / p2 (S k))) in *.
    pose proof (place_entry_eq H HO k lo t q E2) as Epe. rewrite Epe in Hxe.
    destruct t as [c|]; [|destruct Hxe as [<-|[]]; discriminate Hroot].
    destruct (compress_wf H HO _ _ _ Ht) as [W Hh].
    assert (Hrd : (rd < k)%nat).
    { destruct (place_tree_tail H _ _ _ _ _ _ Hxe) as [E|[Hlt _]]; [|exact Hlt].
      rewrite E in Hroot. discriminate. }
    assert (Etr : ntree x = k) by exact (place_tree_ntree H _ _ _ _ _ _ Hxe).
    destruct (prune_place H HO dels rd od c k q true k x W Hh Hrd Hxe eq_refl) as (t' & Pt & Wt' & Ht' & F).
    { intros y Hy Ly. apply Hdel; [|exact Ly]. apply (entry_layout H HO s _ y He). rewrite Epe. exact Hy. }
    pose proof (kill_entry _ He) as He'. unfold RefTheory.prune_entry in He'. cbn [fst snd] in He'.
    cbn [RefTheory.oprune] in He'. rewrite Pt in He'.
    pose proof (place_entry_eq H HO k lo (Some t') q E2) as Epe'.
    assert (UxH : under (k, q) (coord x)) by (apply inrange_under, (place_tree_range H _ _ _ _ _ _ Hxe)).
    assert (UPH : under (k, q) (S rd, od / 2)) by (apply under_par; assumption).
    pose proof (under_sib_par rd od) as [Usb Uxp].
    set (hn := head_node H c k q true k).
    assert (Hhn : In hn (place_entry HO (k, lo, Some c))) by (rewrite Epe; apply place_tree_head_in).
    assert (Hxe' : In x (place_entry HO (k, lo, Some c))) by (rewrite Epe; exact Hxe).
    (* a node whose coordinate lies below the root of the tree belongs to the tree *)
    assert (Hsame : forall y, In y lay -> under (k, q) (coord y) -> In y (place_tree c k q true k)).
    { intros y Hy Uy. destruct (layout_entry H HO s y Hy) as (k2 & lo2 & t2 & He2 & Hy2).
      assert (Uy' : under (coord hn) (coord y)) by exact Uy.
      destruct (under_range hn y Uy') as (A & B & _).
      destruct (layout_same_entry H HO s _ _ _ _ _ _ hn y He He2 Hhn Hy2 A B) as (<- & <- & <-).
      rewrite Epe in Hy2. exact Hy2. }
    intros y Hy.
    assert (Hdec : In y (place_tree c k q true k) \/ ~ In y (place_entry HO (k, lo, Some c))).
    { destruct (layout_entry H HO s y Hy) as (k2 & lo2 & t2 & He2 & Hy2).
      destruct (Nat.eq_dec k2 k) as [->|Hne].
      - destruct (forest_entry_unique H HO s _ _ _ _ _ He He2) as [<- <-]. left. rewrite <- Epe. exact Hy2.
      - right. intros Hin.
        assert (Uy : under (coord hn) (coord y)).
        { rewrite Epe in Hin. apply inrange_under, (place_tree_range H _ _ _ _ _ _ Hin). }
        destruct (under_range hn y Uy) as (A & B & _).
        destruct (layout_same_entry H HO s _ _ _ _ _ _ hn y He He2 Hhn Hy2 A B) as (E & _). congruence. }
    destruct Hdec as [Hin|Hout].
    - destruct (F y Hin) as (F1 & F2 & F3). rewrite Etr. rewrite andb_true_r in F2. split; [|split].
      + intros A B. apply (entry_layout H HO s' _ _ He'). rewrite Epe'. exact (F1 A B).
      + intros A. apply (entry_layout H HO s' _ _ He'). rewrite Epe'. exact (F2 A).
      + intros A B. destruct (F3 A B) as [h' Hh']. exists h'.
        apply (entry_layout H HO s' _ _ He'). rewrite Epe'. exact Hh'.
    - split; [|split].
      + intros _ _. exact (other_node k lo (Some c) y He Hxe' Hy Hout).
      + intros A. exfalso. apply Hout. rewrite Epe. apply (Hsame y Hy).
        exact (under_trans _ _ _ UPH (under_trans _ _ _ Usb A)).
      + intros A _. exfalso. apply Hout. rewrite Epe.
        (* x lies below y: same tree *)
        destruct (layout_entry H HO s y Hy) as (k2 & lo2 & t2 & He2 & Hy2).
        assert (Ux : under (coord y) (coord x)) by exact (under_trans _ _ _ A Uxp).
        destruct (under_range y x Ux) as (A1 & B1 & _).
        destruct (layout_same_entry H HO s _ _ _ _ _ _ y x He2 He Hy2 Hxe' A1 B1) as (-> & -> & ->).
        rewrite Epe in Hy2. exact Hy2.
  Qed.

End RefLayout.
(** * 8. Nodes of the layout and their positions; the invariant *)
Lemma under_dec c d : {under c d} + {~ under c d}.
Proof.
  unfold under. destruct (le_dec (fst d) (fst c)) as [Hle|Hn]; [|right; tauto].
  destruct (N.eq_dec (snd d / p2 (fst c - fst d)) (snd c)) as [E|E]; [left; auto|right; tauto].
Qed.

Section NodeGeo.
  Variable H : Type.
  Variable HO : ops H.
  Variable s : slots H.
  Variable T : N.
  Notation lay := (layout HO s).
  Notation n := (N.of_nat (length s)).
  Notation tr := (TreeRows (N.of_nat (length s))).
  Hypothesis Hn63 : n <= 2 ^ 63.
  Hypothesis HTlo : tr <= T.
  Hypothesis HT63 : T <= 63.
  Notation gpx := (fun x : node H => gp T (nrow x) (noff x)).

  Lemma ng_valid x : In x lay -> N.of_nat (nrow x) <= T /\ noff x < 2 ^ (T - N.of_nat (nrow x)).
  Proof.
    exact (nodeh_valid H HO s T Hn63 HTlo HT63 [] (fun x Hx => match Hx with end)
             (fun x Hx => match Hx with end) x).
  Qed.

  Lemma ng_valid_min x : In x lay ->
    N.of_nat (nrow x) <= tr /\ noff x < 2 ^ (tr - N.of_nat (nrow x)).
  Proof.
    intros Hx. destruct (layout_coords_rows_of H HO s x Hx) as [Hr Ho].
    pose proof (pc_rows_of H s) as E. rewrite E in Ho. split; [lia|exact Ho].
  Qed.

  Lemma ng_inj x y : In x lay -> In y lay -> gpx x = gpx y -> x = y.
  Proof.
    exact (nodeh_gp_eq H HO s T Hn63 HTlo HT63 [] (fun x Hx => match Hx with end)
             (fun x Hx => match Hx with end) x y).
  Qed.

  Lemma ng_coord_eq x y : In x lay -> In y lay -> coord x = coord y -> x = y.
  Proof.
    intros Hx Hy E. unfold coord in E. injection E as Er Eo. pose proof (tnode_in H HO s x Hx) as Ex.
    pose proof (tnode_in H HO s y Hy) as Ey. rewrite Er, Eo in Ex. congruence.
  Qed.

  Lemma ng_range x : In x lay -> gpx x <= 2 ^ (T + 1) - 2.
  Proof. intros Hx. destruct (ng_valid x Hx) as [A B]. unfold gp. apply gpos_range; assumption. Qed.

  Lemma ng_isroot_min r o : r <= tr -> o < 2 ^ (tr - r) ->
    isRootPosition (gpos tr r o) n = is_root_c n (r, o).
  Proof.
    intros Hr Ho. pose proof (TreeRows_le_63 n Hn63) as Htr.
    unfold isRootPosition. rewrite DetectRow_gpos by assumption.
    unfold is_root_c. cbn [fst snd].
    destruct (isRootPositionOnRow (gpos tr r o) n r) eqn:E.
    - apply isRootPositionOnRow_spec in E as [Hb Ep]; [|exact Hn63]. rewrite Hb. cbn [andb].
      destruct (root_coord_valid n r tr (TreeRows_upper n) Hb) as [Hk Hv].
      destruct (gpos_inj tr _ _ _ _ Hr Ho Hk Hv Ep) as [_ ->]. symmetry. apply N.eqb_refl.
    - destruct (N.testbit n r) eqn:Hb; [|reflexivity]. cbn [andb].
      destruct (N.eqb_spec o (2 * (n / 2 ^ (r + 1)))) as [Eo|]; [|reflexivity].
      assert (Ht : isRootPositionOnRow (gpos tr r o) n r = true).
      { apply isRootPositionOnRow_spec; [exact Hn63|]. split; [exact Hb|]. rewrite Eo. reflexivity. }
      congruence.
  Qed.

  Lemma ng_isroot x : In x lay -> isRootPositionTotalRows (gpx x) n T = nroot x.
  Proof.
    intros Hx. destruct (ng_valid x Hx) as [A B]. destruct (ng_valid_min x Hx) as [C D].
    pose proof (TreeRows_le_63 n Hn63) as Htr.
    rewrite <- (node_is_root_c H HO s x Hx). unfold isRootPositionTotalRows, gp.
    destruct (N.eqb_spec T tr) as [E|E].
    - rewrite E. apply ng_isroot_min; assumption.
    - rewrite translatePos_gpos by assumption. apply ng_isroot_min; assumption.
  Qed.

  (** nodes of one tree *)
  Lemma ng_same_tree x y : In x lay -> In y lay -> under (coord x) (coord y) -> ntree y = ntree x.
  Proof.
    intros Hx Hy U. destruct (under_range H x y U) as (A & B & _).
    destruct (layout_entry H HO s x Hx) as (k & lo & t & He & Hxe).
    destruct (layout_entry H HO s y Hy) as (k2 & lo2 & t2 & He2 & Hye).
    destruct (layout_same_entry H HO s _ _ _ _ _ _ x y He He2 Hxe Hye A B) as (<- & <- & <-).
    assert (G : forall z, In z (place_entry HO (k, lo, t)) -> ntree z = k).
    { intros z Hz. cbn [place_entry] in Hz. destruct t as [c|].
      - exact (place_tree_ntree H _ _ _ _ _ _ Hz).
      - destruct Hz as [<-|[]]. reflexivity. }
    rewrite (G x Hxe), (G y Hye). reflexivity.
  Qed.

  (** no node lies strictly below a leaf node *)
  Lemma ng_leaf_bottom x y : In x lay -> In y lay -> nleaf x = true -> under (coord x) (coord y) -> y = x.
  Proof.
    intros Hx Hy Lx U. destruct (under_range H x y U) as (A & B & _).
    destruct (layout_entry H HO s x Hx) as (k & lo & t & He & Hxe).
    destruct (layout_entry H HO s y Hy) as (k2 & lo2 & t2 & He2 & Hye).
    destruct (layout_same_entry H HO s _ _ _ _ _ _ x y He He2 Hxe Hye A B) as (<- & <- & <-).
    destruct U as [Hr E]. unfold coord in Hr, E. cbn [fst snd] in Hr, E.
    destruct (Nat.eq_dec (nrow y) (nrow x)) as [Er|Hne].
    - apply ng_coord_eq; [exact Hy|exact Hx|]. unfold coord. rewrite Er in *.
      rewrite Nat.sub_diag, p2_0, N.div_1_r in E. congruence.
    - exfalso. cbn [place_entry] in Hxe, Hye. destruct t as [c|].
      + apply (place_tree_leaf_bottom H c _ _ _ _ x y Hxe Hye Lx); [lia|exact A|exact B].
      + destruct Hxe as [<-|[]]. discriminate Lx.
  Qed.

  (** a root does not lie below a node that is no root *)
  Lemma ng_root_top x y : In x lay -> In y lay -> nroot x = false -> nroot y = true ->
    under (coord x) (coord y) -> False.
  Proof.
    intros Hx Hy Rx Ry U. pose proof (ng_same_tree x y Hx Hy U) as Et.
    apply (root_iff_row H HO s y Hy) in Ry. apply (nonroot_iff_row H HO s Hn63 x Hx) in Rx.
    destruct U as [Hr _]. unfold coord in Hr. cbn [fst] in Hr. lia.
  Qed.

  (** a non-root node, its sibling and its parent *)
  Lemma ng_family x : In x lay -> nroot x = false ->
    exists p sb, In p lay /\ In sb lay /\ nroot sb = false /\ nleaf p = false /\
      coord sb = (nrow x, N.lxor (noff x) 1) /\ coord p = (S (nrow x), noff x / 2) /\
      ntree p = ntree x /\ ntree sb = ntree x /\
      nhash p = (if N.even (noff x) then op_hash2 HO (nhash x) (nhash sb)
                 else op_hash2 HO (nhash sb) (nhash x)).
  Proof.
    intros Hx Hr.
    destruct (node_sibling H HO s _ _ x (tnode_in H HO s x Hx) Hr)
      as (p & sb & Hp & Hsb & Hpl & Hpt & Hst & Hsr & Hh).
    apply tnode_some in Hp as (Hpin & Epr & Epo). apply tnode_some in Hsb as (Hsin & Esr & Eso).
    exists p, sb. unfold coord. repeat split; try assumption; congruence.
  Qed.

  (** the chain of ancestors *)
  Lemma ng_ancestor x : In x lay -> forall k : nat, (nrow x + k <= ntree x)%nat ->
    exists y, In y lay /\ coord y = ((nrow x + k)%nat, noff x / 2 ^ N.of_nat k) /\
              ntree y = ntree x /\ (k <> 0%nat -> nleaf y = false).
  Proof.
    intros Hx. induction k as [|k IH]; intros Hk.
    - exists x. unfold coord. rewrite Nat.add_0_r, N.pow_0_r, N.div_1_r.
      repeat split; auto. intros C. contradiction.
    - destruct (IH ltac:(lia)) as (y & Hy & Ey & Ety & _).
      unfold coord in Ey. injection Ey as Er Eo.
      assert (Hnr : nroot y = false) by (apply (nonroot_iff_row H HO s Hn63 y Hy); lia).
      destruct (node_parent H HO s _ _ y (tnode_in H HO s y Hy) Hnr) as (p & Hp & Hpl & Hpt & _).
      apply tnode_some in Hp as (Hpin & Epr & Epo). exists p. split; [exact Hpin|].
      split; [|split; [congruence|auto]]. unfold coord. rewrite Epr, Epo, Er, Eo.
      f_equal; [lia|]. rewrite Nat2N.inj_succ, <- N.add_1_r, N.pow_add_r, N.pow_1_r.
      rewrite N.div_div by (try apply pow2_nz; lia). reflexivity.
  Qed.
End NodeGeo.

Section Invariant.
  Variable H : Type.
  Variable HO : ops H.
  Notation hash2 := (op_hash2 HO).
  Notation empty := (op_empty HO).

  (** [Rc]: the cached leaves; [Rn]: the leaves that the node map remembers (flag); between the
      un-caching of the deleted leaves and the end of [remove] the two differ *)
  Record Inv2 (s : slots H) (Rc Rn : list H) (m : mstate H) : Prop := mkInv2 {
    i_n : ms_n m = num_leaves s;
    i_n63 : ms_n m <= 2 ^ 63;
    i_rows : TreeRows (ms_n m) <= ms_total m;
    i_T63 : ms_total m <= 63;
    i_live_nd : NoDup (live s);
    i_live_nn : forall h a b, In (Some h) s -> h <> hash2 a b;
    i_live_nz : forall h, In (Some h) s -> h <> empty;
    i_keys : NoDup (map fst (ms_nodes m));
    i_ckeys : NoDup (map fst (ms_cached m));
    i_true : forall p h b, nodes_get (ms_nodes m) p = Some (h, b) ->
      exists x, In x (layout HO s) /\ p = gp (ms_total m) (nrow x) (noff x) /\ nhash x = h;
    i_Rn : forall h, In h Rn -> In (Some h) s;
    i_sub : forall h, In h Rc -> In h Rn;
    i_cached : forall h p, cached_get HO (ms_cached m) h = Some p <->
      In h Rc /\ exists x, In x (layout HO s) /\ nleaf x = true /\ nhash x = h /\
                           p = gp (ms_total m) (nrow x) (noff x);
    i_roots : forall x, In x (layout HO s) -> nroot x = true ->
      nodes_get (ms_nodes m) (gp (ms_total m) (nrow x) (noff x)) <> None;
    i_leaf : forall x, In x (layout HO s) -> nleaf x = true -> In (nhash x) Rn ->
      nodes_get (ms_nodes m) (gp (ms_total m) (nrow x) (noff x)) = Some (nhash x, true);
    i_sibs : forall x, In x (layout HO s) -> nleaf x = true -> In (nhash x) Rn ->
      forall k : nat, (nrow x + k < ntree x)%nat ->
      nodes_get (ms_nodes m)
        (gp (ms_total m) (nrow x + k) (N.lxor (noff x / 2 ^ N.of_nat k) 1)) <> None }.

  Definition Inv (s : slots H) (R : list H) (m : mstate H) : Prop := Inv2 s R R m.
End Invariant.
Arguments i_n {H HO s Rc Rn m} _.
Arguments i_n63 {H HO s Rc Rn m} _.
Arguments i_rows {H HO s Rc Rn m} _.
Arguments i_T63 {H HO s Rc Rn m} _.
Arguments i_live_nd {H HO s Rc Rn m} _.
Arguments i_live_nn {H HO s Rc Rn m} _.
Arguments i_live_nz {H HO s Rc Rn m} _.
Arguments i_keys {H HO s Rc Rn m} _.
Arguments i_ckeys {H HO s Rc Rn m} _.
Arguments i_true {H HO s Rc Rn m} _.
Arguments i_Rn {H HO s Rc Rn m} _.
Arguments i_sub {H HO s Rc Rn m} _.
Arguments i_cached {H HO s Rc Rn m} _.
Arguments i_roots {H HO s Rc Rn m} _.
Arguments i_leaf {H HO s Rc Rn m} _.
Arguments i_sibs {H HO s Rc Rn m} _.
Arguments Inv2 {H} HO s Rc Rn m.
Arguments Inv {H} HO s R m.

Section InvConsistent.
  Variable H : Type.
  Variable HO : ops H.
  Hypothesis HOK : ops_ok HO.

  Lemma path_up_form (lay : list (node H)) : forall f r o tr c, In c (path_up f lay r o tr) ->
    exists k : nat, c = ((r + k)%nat, o / 2 ^ N.of_nat k).
  Proof.
    induction f as [|f IH]; intros r o tr c Hc.
    - destruct Hc as [<-|[]]. exists 0%nat. rewrite Nat.add_0_r, N.pow_0_r, N.div_1_r. reflexivity.
    - cbn [path_up] in Hc. destruct Hc as [<-|Hc].
      + exists 0%nat. rewrite Nat.add_0_r, N.pow_0_r, N.div_1_r. reflexivity.
      + destruct (r <? tr)%nat; [|destruct Hc]. destruct (IH _ _ _ _ Hc) as [k ->]. exists (S k).
        f_equal; [lia|]. rewrite Nat2N.inj_succ, <- N.add_1_r, N.add_comm, N.pow_add_r, N.pow_1_r.
        rewrite N.div_div by (try apply pow2_nz; lia). reflexivity.
  Qed.

  (** leaf hashes are hashes of leaf nodes only *)
  Lemma inv_leaf_hash s Rc Rn m : Inv2 HO s Rc Rn m -> forall y z, In y (layout HO s) ->
    In z (layout HO s) -> nleaf z = true -> nhash y = nhash z -> y = z.
  Proof.
    intros I y z Hy Hz Lz E. pose proof (layout_leaf_live H HO s z Hz Lz) as Hlive.
    destruct (node_cases H HO s _ _ y (tnode_in H HO s y Hy))
      as [r' xl xr _ _ _ _ Hh|Ly _ _|_ _ He].
    - exfalso. apply (i_live_nn I _ (nhash xl) (nhash xr) Hlive). congruence.
    - exact (live_leaf_unique H HO s y z (i_live_nd I) Hy Hz Ly Lz E).
    - exfalso. apply (i_live_nz I _ Hlive). congruence.
  Qed.

  Theorem Inv2_consistent s R m : Inv2 HO s R R m -> consistent HO s R m.
  Proof.
    intros I. constructor.
    - exact (i_n I).
    - exact (i_n63 I).
    - exact (i_rows I).
    - exact (i_T63 I).
    - intros p h b Hin. apply (rg_in_get H _ _ _ (i_keys I)) in Hin.
      destruct (i_true I _ _ _ Hin) as (x & Hx & -> & Eh). exists (nrow x), (noff x).
      split; [reflexivity|]. apply thash_some. exists x. split; [apply tnode_in, Hx|exact Eh].
    - exact (i_Rn I).
    - intros h. split.
      + intros Hh. destruct (live_leaf_in_layout H HO s h (i_Rn I h Hh)) as (x & Hx & Lx & Ex).
        assert (E : cached_get HO (ms_cached m) h = Some (gp (ms_total m) (nrow x) (noff x))).
        { apply (i_cached I). split; [exact Hh|]. exists x. auto. }
        apply (cached_get_In H HO HOK) in E. apply in_map_iff. exists (h, gp (ms_total m) (nrow x) (noff x)). auto.
      + intros Hh. destruct (cached_get_some_of_key H HO HOK _ _ Hh) as [p Ep].
        apply (i_cached I) in Ep. apply Ep.
    - intros h p Hin. apply (cg_in_get H HO HOK _ _ _ (i_ckeys I)) in Hin.
      apply (i_cached I) in Hin as (Hh & x & Hx & Lx & Ex & ->).
      destruct (find_leaf_ex H HO (layout HO s) h HOK) as [x' Hx']; [exists x; auto|].
      exists x'. split; [exact Hx'|]. apply (find_leaf_some H HO _ _ _ HOK) in Hx' as (Hx'in & Lx' & Ex').
      rewrite (live_leaf_unique H HO s x x' (i_live_nd I) Hx Hx'in Lx Lx' ltac:(congruence)). reflexivity.
    - intros x Hx Hr. exact (i_roots I x Hx Hr).
    - intros ts Hts x Hx. apply (RefTheory.find_leaves_In H HO _ _ _ Hts) in Hx as (h & Hh & Hf).
      apply (find_leaf_some H HO _ _ _ HOK) in Hf as (Hxin & Lx & Ex). unfold stored.
      rewrite (i_leaf I x Hxin Lx ltac:(rewrite Ex; exact Hh)). discriminate.
    - intros ts Hts c Hc Hroot. apply RefTheory.known_set_In in Hc as (x & Hx & Hc).
      apply (RefTheory.find_leaves_In H HO _ _ _ Hts) in Hx as (h & Hh & Hf).
      apply (find_leaf_some H HO _ _ _ HOK) in Hf as (Hxin & Lx & Ex).
      assert (Hn63 : N.of_nat (length s) <= 2 ^ 63).
      { pose proof (i_n I) as En. pose proof (i_n63 I) as E63. unfold num_leaves in En. rewrite <- En. exact E63. }
      destruct (path_nodes H HO s Hn63 64 x c Hxin Hc) as (y & Hy & Ety).
      rewrite (is_root_coord_node H HO s c y Hy) in Hroot.
      destruct (path_up_form _ _ _ _ _ _ Hc) as [k ->]. cbn [fst snd sib_coord] in *.
      apply tnode_some in Hy as (Hyin & Eyr & Eyo).
      apply (nonroot_iff_row H HO s Hn63 y Hyin) in Hroot.
      unfold stored. apply (i_sibs I x Hxin Lx ltac:(rewrite Ex; exact Hh)). lia.
  Qed.

  Corollary Inv_consistent s R m : Inv HO s R m -> consistent HO s R m.
  Proof. exact (Inv2_consistent s R m). Qed.

  (** the empty forest *)
  Lemma Inv_empty T full : T <= 63 -> Inv HO [] [] (mkM [] [] 0 T full).
  Proof.
    intros HT. constructor; cbn [ms_n ms_total ms_nodes ms_cached layout forest].
    - reflexivity.
    - lia.
    - rewrite TreeRows_0. lia.
    - exact HT.
    - constructor.
    - intros h a b [].
    - intros h [].
    - constructor.
    - constructor.
    - intros p h b E. discriminate.
    - intros h [].
    - intros h [].
    - intros h p. split; [discriminate|]. intros ([] & _).
    - intros x [].
    - intros x [].
    - intros x [].
  Qed.
End InvConsistent.
(** decidability of the membership of a position in the two families *)
Section BelowDec.
  Variables T rd od : N.
  Hypothesis HT : T <= 63.
  Hypothesis Hrd : rd < T.
  Hypothesis Hod : od < 2 ^ (T - rd).

  Lemma posU_dec p : (exists j b, j <= rd + 1 /\ b < 2 ^ j /\ p = posU T rd od j b) \/
                     (forall j b, j <= rd + 1 -> b < 2 ^ j -> p <> posU T rd od j b).
  Proof.
    destruct (N.le_gt_cases p (2 ^ (T + 1) - 2)) as [Hle|Hgt].
    - destruct (mrs_gpos_surj T p Hle) as (r & o & Hr & Ho & ->).
      destruct (N.le_gt_cases r (rd + 1)) as [Hrr|Hrr].
      + destruct (N.eq_dec (o / 2 ^ (rd + 1 - r)) (od / 2)) as [E|E].
        * left. exists (rd + 1 - r), (o mod 2 ^ (rd + 1 - r)).
          split; [lia|]. split; [apply N.mod_lt, pow2_nz|].
          unfold posU. replace (rd + 1 - (rd + 1 - r)) with r by lia. f_equal.
          rewrite <- E. rewrite N.mul_comm. apply N.div_mod'.
        * right. intros j b Hj Hb Ep. apply E.
          destruct (posU_valid T rd od HT Hrd Hod j b Hj Hb) as [A B].
          destruct (gpos_inj T _ _ _ _ Hr Ho A B Ep) as [-> ->].
          replace (rd + 1 - (rd + 1 - j)) with j by lia.
          rewrite N.div_add_l by apply pow2_nz. rewrite (N.div_small b) by exact Hb. lia.
      + right. intros j b Hj Hb Ep.
        destruct (posU_valid T rd od HT Hrd Hod j b Hj Hb) as [A B].
        destruct (gpos_inj T _ _ _ _ Hr Ho A B Ep) as [-> _]. lia.
    - right. intros j b Hj Hb ->.
      destruct (posU_valid T rd od HT Hrd Hod j b Hj Hb) as [A B].
      pose proof (gpos_range T _ _ A B) as Hrange. unfold posU in Hgt. lia.
  Qed.
End BelowDec.

(** * 9. [removeSingle] on a position that is no root: the moves *)
Section RemoveSingleMoves.
  Variable H : Type.
  Variable HO : ops H.
  Hypothesis HOK : ops_ok HO.
  Variables n T rd od : N.
  Variable full : bool.
  Hypothesis HT : T <= 63.
  Hypothesis Hrd : rd < T.
  Hypothesis Hod : od < 2 ^ (T - rd).
  Notation del := (gpos T rd od).
  Notation sibp := (gpos T rd (N.lxor od 1)).
  Notation par := (gpos T (rd + 1) (od / 2)).
  Notation pU := (posU T rd od).
  Notation pS := (posS T rd od).
  Notation pD := (posD T rd od).

  Lemma rs_pS0 : pS 0 0 = sibp.
  Proof. unfold posS. rewrite N.sub_0_r, N.pow_0_r, N.mul_1_r, N.add_0_r. reflexivity. Qed.
  Lemma rs_pD0 : pD 0 0 = del.
  Proof. unfold posD. rewrite N.sub_0_r, N.pow_0_r, N.mul_1_r, N.add_0_r. reflexivity. Qed.
  Lemma rs_pU0 : pU 0 0 = par.
  Proof. unfold posU. rewrite N.sub_0_r, N.pow_0_r, N.mul_1_r, N.add_0_r. reflexivity. Qed.

  Lemma rs_par_neq_U j b : 1 <= j -> j <= rd + 1 -> b < 2 ^ j -> par <> pU j b.
  Proof.
    intros Hj1 Hj Hb E. rewrite <- rs_pU0 in E.
    destruct (posU_inj T rd od HT Hrd Hod 0 0 j b ltac:(lia) ltac:(cbn; lia) Hj Hb E). lia.
  Qed.

  Lemma rs_S_neq_D j b j' b' : j <= rd -> b < 2 ^ j -> j' <= rd -> b' < 2 ^ j' -> pS j b <> pD j' b'.
  Proof.
    intros Hj Hb Hj' Hb' E.
    destruct (posS_valid T rd od HT Hrd Hod j b Hj Hb) as [A B].
    destruct (posD_valid T rd od HT Hrd Hod j' b' Hj' Hb') as [C D].
    destruct (gpos_inj _ _ _ _ _ A B C D E) as [E1 E2]. assert (j = j') by lia. subst j'.
    pose proof (lxor_1 od) as Hx. destruct (N.even od) eqn:Ev.
    - rewrite Hx in E2. nia.
    - pose proof (odd_nz _ Ev). rewrite Hx in E2. nia.
  Qed.

  Variable nd : nodemap H.
  Variable ca : cachemap H.
  Variable vsb : leaf H.
  Hypothesis Hk1 : NoDup (map fst nd).
  Hypothesis Hk2 : NoDup (map fst ca).
  Hypothesis Hnroot : isRootPositionTotalRows del n T = false.
  Hypothesis Hsb : nodes_get nd sibp = Some vsb.
  Hypothesis Huniq : forall q1 q2 v1 v2, nodes_get nd q1 = Some v1 -> nodes_get nd q2 = Some v2 ->
    fst v1 = fst v2 -> cached_has HO ca (fst v1) = true -> q1 = q2.

  (** the state after the moves of [removeSingle], before [updateHashes] *)
  Set Implicit Arguments.
  Record moved (nd3 : nodemap H) (ca3 : cachemap H) : Prop := mkMoved {
    mo_k1 : NoDup (map fst nd3);
    mo_k2 : NoDup (map fst ca3);
    mo_par : nodes_get nd3 par = Some vsb;
    mo_up : forall j b, 1 <= j -> j <= rd -> b < 2 ^ j -> nodes_get nd3 (pU j b) = nodes_get nd (pS j b);
    mo_bot : forall b, b < 2 ^ (rd + 1) -> nodes_get nd3 (pU (rd + 1) b) = None;
    mo_out : forall p, (forall j b, j <= rd + 1 -> b < 2 ^ j -> p <> pU j b) ->
               nodes_get nd3 p = nodes_get nd p;
    mo_cup : forall j b v, j <= rd -> b < 2 ^ j -> nodes_get nd (pS j b) = Some v ->
               cached_has HO ca (fst v) = true -> cached_get HO ca3 (fst v) = Some (pU j b);
    mo_cout : forall h, (forall j b v, j <= rd -> b < 2 ^ j -> nodes_get nd (pS j b) = Some v -> fst v <> h) ->
               cached_get HO ca3 h = cached_get HO ca h;
    mo_chas : forall h, cached_has HO ca3 h = cached_has HO ca h }.
  Unset Implicit Arguments.

  Lemma moved_src nd3 ca3 : moved nd3 ca3 -> forall p v, nodes_get nd3 p = Some v ->
    (p = par /\ v = vsb) \/
    (exists j b, 1 <= j /\ j <= rd /\ b < 2 ^ j /\ p = pU j b /\ nodes_get nd (pS j b) = Some v) \/
    (nodes_get nd p = Some v /\ forall j b, j <= rd + 1 -> b < 2 ^ j -> p <> pU j b).
  Proof.
    intros M p v E. destruct (posU_dec T rd od HT Hrd Hod p) as [(j & b & Hj & Hb & ->)|Hno].
    - destruct (N.eq_dec j 0) as [->|Hj0].
      + assert (b = 0) by (cbn in Hb; lia). subst b. rewrite rs_pU0 in *. left.
        rewrite (mo_par M) in E. split; [reflexivity|congruence].
      + destruct (N.eq_dec j (rd + 1)) as [->|Hj1].
        * rewrite (mo_bot M) in E by exact Hb. discriminate.
        * right. left. exists j, b. rewrite (mo_up M) in E by (try assumption; lia).
          repeat split; try assumption; lia.
    - right. right. rewrite (mo_out M) in E by exact Hno. auto.
  Qed.

  Theorem removeSingle_moves :
    exists nd3 ca3, moved nd3 ca3 /\
      removeSingle HO n T full del (nd, ca) =
      (forgetUnneededDel HO n T del (updateHashes HO n T full del (fst vsb) nd3), ca3).
  Proof.
    assert (Hrd' : rd <= T) by lia.
    destruct (forgetBelow_spec H T HT rd od nd Hrd' Hod) as (B1 & B2 & B3).
    set (nd0 := forgetBelow T del nd) in *.
    set (nd1 := nodes_del del nd0).
    assert (Esib : sibling del = sibp) by (apply sibling_gpos; lia).
    assert (Epar : Parent del T = par) by (apply Parent_gpos; assumption).
    assert (Hsv : N.lxor od 1 < 2 ^ (T - rd)) by (apply sib_offsets_lt; assumption).
    assert (Hne_sd : sibp <> del).
    { rewrite <- rs_pS0, <- rs_pD0. apply rs_S_neq_D; try lia; cbn; lia. }
    assert (HbelowD : forall p, below T rd od p -> exists j b, 1 <= j /\ j <= rd /\ b < 2 ^ j /\ p = pD j b).
    { intros p (j & b & A & B & C & E). exists j, b. auto. }
    assert (G0S : forall j b, j <= rd -> b < 2 ^ j -> nodes_get nd0 (pS j b) = nodes_get nd (pS j b)).
    { intros j b Hj Hb. destruct (B2 (pS j b)) as [E|[_ Hbl]]; [exact E|exfalso].
      destruct (HbelowD _ Hbl) as (j' & b' & A & B & C & E). revert E. apply rs_S_neq_D; assumption. }
    assert (E1 : nodes_get nd1 sibp = Some vsb).
    { unfold nd1. rewrite rg_del. destruct (N.eqb_spec sibp del); [contradiction|].
      rewrite <- rs_pS0. rewrite G0S by (try lia; cbn; lia). rewrite rs_pS0. exact Hsb. }
    set (nd2 := nodes_put par vsb (nodes_del sibp nd1)).
    assert (Hnext : calcNextPosition sibp del T = Some par).
    { rewrite <- rs_pS0, <- rs_pU0. apply next_posS; try assumption; try lia; try (cbn; lia). }
    set (ca2 := if cached_has HO ca (fst vsb) then cached_put HO (fst vsb) par ca else ca).
    (* the node map before the moves *)
    assert (G2 : forall p, nodes_get nd2 p =
              if p =? par then Some vsb else if p =? sibp then None else if p =? del then None
              else nodes_get nd0 p).
    { intros p. unfold nd2, nd1. rewrite rg_put, !rg_del. reflexivity. }
    assert (Hpar_S : forall j b, j <= rd -> b < 2 ^ j -> pS j b <> par).
    { intros j b Hj Hb E. destruct (posS_U T rd od HT Hrd Hod j b Hj Hb) as (c & Hc & Ec).
      rewrite Ec in E. symmetry in E. revert E. apply rs_par_neq_U; lia. }
    assert (Hpar_D : forall j b, j <= rd -> b < 2 ^ j -> pD j b <> par).
    { intros j b Hj Hb E. destruct (posD_U T rd od HT Hrd Hod j b Hj Hb) as (c & Hc & Ec).
      rewrite Ec in E. symmetry in E. revert E. apply rs_par_neq_U; lia. }
    assert (G2S : forall j b, 1 <= j -> j <= rd -> b < 2 ^ j -> nodes_get nd2 (pS j b) = nodes_get nd (pS j b)).
    { intros j b Hj1 Hj Hb. rewrite G2.
      destruct (N.eqb_spec (pS j b) par) as [E|_]; [exfalso; exact (Hpar_S j b Hj Hb E)|].
      destruct (N.eqb_spec (pS j b) sibp) as [E|_].
      { exfalso. rewrite <- rs_pS0 in E.
        exact (posS_row_neq T rd od HT Hrd Hod j b 0 0 Hj Hb ltac:(lia) ltac:(cbn; lia) ltac:(lia) E). }
      destruct (N.eqb_spec (pS j b) del) as [E|_].
      { exfalso. rewrite <- rs_pD0 in E. revert E. apply rs_S_neq_D; try assumption; try lia; try (cbn; lia). }
      apply G0S; assumption. }
    assert (Hd2 : forall j b, j <= rd -> b < 2 ^ j -> nodes_get nd2 (pD j b) = None).
    { intros j b Hj Hb. rewrite G2.
      destruct (N.eqb_spec (pD j b) par) as [E|_]; [exfalso; exact (Hpar_D j b Hj Hb E)|].
      destruct (N.eqb_spec (pD j b) sibp); [reflexivity|].
      destruct (N.eqb_spec (pD j b) del); [reflexivity|].
      destruct (N.eq_dec j 0) as [->|Hj0].
      - exfalso. assert (b = 0) by (cbn in Hb; lia). subst b. rewrite rs_pD0 in *. congruence.
      - apply B1. exists j, b. repeat split; try assumption; lia. }
    assert (Hs2 : nodes_get nd2 sibp = None).
    { rewrite G2. destruct (N.eqb_spec sibp par) as [E|_].
      - exfalso. rewrite <- rs_pS0 in E. revert E. apply Hpar_S; try lia; try (cbn; lia).
      - rewrite N.eqb_refl. reflexivity. }
    assert (Hst2 : forall p v, nodes_get nd2 p = Some v -> p = par /\ v = vsb \/ p <> par /\ nodes_get nd p = Some v).
    { intros p v. rewrite G2. destruct (N.eqb_spec p par) as [->|Hne]; [intros [= <-]; left; auto|].
      destruct (p =? sibp); [discriminate|]. destruct (p =? del); [discriminate|].
      intros E. right. split; [exact Hne|]. destruct (B2 p) as [E'|[E' _]]; congruence. }
    assert (Hca2 : forall h, cached_has HO ca2 h = cached_has HO ca h).
    { intros h. unfold ca2. destruct (cached_has HO ca (fst vsb)) eqn:Eh; [|reflexivity].
      unfold cached_has at 1. rewrite cg_put by exact HOK. destruct (op_eqb HO h (fst vsb)) eqn:E; [|reflexivity].
      apply HOK in E. subst h. symmetry. exact Eh. }
    assert (Huniq2 : forall q1 q2 v1 v2, nodes_get nd2 q1 = Some v1 -> nodes_get nd2 q2 = Some v2 ->
              fst v1 = fst v2 -> cached_has HO ca2 (fst v1) = true -> q1 = q2).
    { intros q1 q2 v1 v2 A1 A2 Ef Hh. rewrite Hca2 in Hh.
      destruct (Hst2 _ _ A1) as [[-> ->]|[N1 A1']], (Hst2 _ _ A2) as [[-> ->]|[N2 A2']].
      - reflexivity.
      - exfalso. pose proof (Huniq _ _ _ _ Hsb A2' Ef Hh) as E. subst q2.
        rewrite G2 in A2. destruct (N.eqb_spec sibp par) as [E'|_]; [exact (N2 E')|]. rewrite N.eqb_refl in A2. discriminate.
      - exfalso. pose proof (Huniq _ _ _ _ A1' Hsb Ef Hh) as E. subst q1.
        rewrite G2 in A1. destruct (N.eqb_spec sibp par) as [E'|_]; [exact (N1 E')|]. rewrite N.eqb_refl in A1. discriminate.
      - exact (Huniq _ _ _ _ A1' A2' Ef Hh). }
    assert (Kn2 : NoDup (map fst nd2)).
    { unfold nd2, nd1. apply keys_put, keys_del, keys_del, B3, Hk1. }
    assert (Kc2 : NoDup (map fst ca2)).
    { unfold ca2. destruct (cached_has HO ca (fst vsb)); [apply ckeys_put; assumption|exact Hk2]. }
    destruct (moveUpDescendants_spec H HO HOK T rd od HT Hrd Hod nd2 ca2 Hd2 Hs2 Huniq2 Kn2 Kc2)
      as ([nd3 ca3] & Emud & I).
    destruct I as [I1 I2 IA IB IC ID IK1 IK2 IK3]. cbn [fst snd] in I1, I2, IA, IB, IC, ID, IK1, IK2, IK3.
    exists nd3, ca3. split.
    - constructor.
      + exact I1.
      + exact I2.
      + rewrite ID; [rewrite G2, N.eqb_refl; reflexivity|].
        intros j b Hj1 Hj Hb. apply rs_par_neq_U; assumption.
      + intros j b Hj1 Hj Hb. rewrite IA by (try assumption; lia).
        apply G2S; assumption.
      + intros b Hb. exact (IB b Hb).
      + intros p Hp. rewrite ID.
        * rewrite G2. destruct (N.eqb_spec p par) as [->|_].
          { exfalso. apply (Hp 0 0); [lia|cbn; lia|symmetry; apply rs_pU0]. }
          destruct (N.eqb_spec p sibp) as [->|_].
          { exfalso. destruct (posS_U T rd od HT Hrd Hod 0 0 ltac:(lia) ltac:(cbn; lia)) as (c & Hc & Ec).
            rewrite rs_pS0 in Ec. apply (Hp (0 + 1) c); [lia|exact Hc|exact Ec]. }
          destruct (N.eqb_spec p del) as [->|_].
          { exfalso. destruct (posD_U T rd od HT Hrd Hod 0 0 ltac:(lia) ltac:(cbn; lia)) as (c & Hc & Ec).
            rewrite rs_pD0 in Ec. apply (Hp (0 + 1) c); [lia|exact Hc|exact Ec]. }
          destruct (B2 p) as [E|[_ Hbl]]; [exact E|exfalso].
          destruct (HbelowD _ Hbl) as (j' & b' & A & B & C & ->).
          destruct (posD_U T rd od HT Hrd Hod j' b' B C) as (c & Hc & Ec).
          apply (Hp (j' + 1) c); [lia|exact Hc|exact Ec].
        * intros j b Hj1 Hj Hb. apply Hp; assumption.
      + (* cached: moved *)
        intros j b v Hj Hb Ev Hh. destruct (N.eq_dec j 0) as [->|Hj0].
        * assert (b = 0) by (cbn in Hb; lia). subst b. rewrite rs_pS0 in Ev. rewrite rs_pU0.
          assert (v = vsb) by congruence. subst v.
          rewrite IK2.
          -- unfold ca2. rewrite Hh. rewrite cg_put by exact HOK. rewrite heqb_refl by exact HOK. reflexivity.
          -- intros j' b' v' A B C Ev' Ef. rewrite G2S in Ev' by (try assumption; lia).
             pose proof (Huniq _ _ _ _ Ev' Hsb Ef ltac:(rewrite Ef; exact Hh)) as E.
             rewrite <- rs_pS0 in E.
             exact (posS_row_neq T rd od HT Hrd Hod j' b' 0 0 ltac:(lia) C ltac:(lia) ltac:(cbn; lia) ltac:(lia) E).
        * apply (IK1 j b v); try assumption; try lia.
          -- rewrite G2S by (try assumption; lia). exact Ev.
          -- rewrite Hca2. exact Hh.
      + (* cached: the others *)
        intros h Hno. rewrite IK2.
        * unfold ca2. destruct (cached_has HO ca (fst vsb)); [|reflexivity].
          rewrite cg_put by exact HOK. rewrite heqb_neq; [reflexivity|exact HOK|].
          intros E. apply (Hno 0 0 vsb); [lia|cbn; lia|rewrite rs_pS0; exact Hsb|congruence].
        * intros j b v Hj1 Hj Hb Ev. rewrite G2S in Ev by (try assumption; lia).
          apply (Hno j b v); try assumption; lia.
      + intros h. rewrite IK3. apply Hca2.
    - unfold removeSingle. cbv zeta. cbn [fst snd]. rewrite Hnroot. rewrite Esib, Epar.
      fold nd0. fold nd1. rewrite E1. fold nd2. rewrite Hnext.
      change (if cached_has HO ca (fst vsb) then Some (cached_put HO (fst vsb) par ca) else Some ca)
        with (if cached_has HO ca (fst vsb) then Some (cached_put HO (fst vsb) par ca) else Some ca).
      assert (Eoca : (if cached_has HO ca (fst vsb) then Some (cached_put HO (fst vsb) par ca) else Some ca)
                     = Some ca2).
      { unfold ca2. destruct (cached_has HO ca (fst vsb)); reflexivity. }
      rewrite Eoca. rewrite Emud. reflexivity.
  Qed.
End RemoveSingleMoves.
(** * 10. Coordinates below the parent of the deleted node, as positions *)
Lemma under_decomp c d : under c d ->
  snd d = snd c * 2 ^ N.of_nat (fst c - fst d) + snd d mod 2 ^ N.of_nat (fst c - fst d) /\
  snd d mod 2 ^ N.of_nat (fst c - fst d) < 2 ^ N.of_nat (fst c - fst d).
Proof.
  intros [Hr E]. unfold p2 in E. split; [|apply N.mod_lt, pow2_nz].
  rewrite <- E. rewrite N.mul_comm. apply N.div_mod'.
Qed.

Lemma under_compose (c d : nat * N) b : (fst d <= fst c)%nat ->
  snd d = snd c * 2 ^ N.of_nat (fst c - fst d) + b -> b < 2 ^ N.of_nat (fst c - fst d) -> under c d.
Proof.
  intros Hr E Hb. split; [exact Hr|]. unfold p2. rewrite E.
  rewrite N.div_add_l by apply pow2_nz. rewrite (N.div_small b) by exact Hb. lia.
Qed.

Section CoordPos.
  Variable T : N.
  Variable rd : nat.
  Variable od : N.
  Hypothesis HT : T <= 63.
  Hypothesis Hrd : N.of_nat rd < T.
  Hypothesis Hod : od < 2 ^ (T - N.of_nat rd).
  Notation rdN := (N.of_nat rd).
  Notation pU := (posU T (N.of_nat rd) od).
  Notation pS := (posS T (N.of_nat rd) od).

  Lemma cp_S ry oy : under (rd, N.lxor od 1) (ry, oy) ->
    exists j b, j <= rdN /\ b < 2 ^ j /\ j = N.of_nat (rd - ry) /\
      gpos T (N.of_nat ry) oy = pS j b /\
      gpos T (N.of_nat (S ry)) (rmbit oy (N.of_nat (rd - ry))) = pU j b.
  Proof.
    intros U. destruct (under_decomp _ _ U) as [E Hb]. destruct U as [Hr _]. cbn [fst snd] in *.
    exists (N.of_nat (rd - ry)), (oy mod 2 ^ N.of_nat (rd - ry)).
    split; [lia|]. split; [exact Hb|]. split; [reflexivity|]. unfold posS, posU. split.
    - f_equal; [lia|exact E].
    - rewrite E at 1. rewrite rmbit_block by exact Hb.
      destruct (bl_sbo T rdN od HT Hrd Hod) as (_ & -> & _). f_equal. lia.
  Qed.

  Lemma cp_U ry oy : under (S rd, od / 2) (ry, oy) -> (ry, oy) <> (S rd, od / 2) ->
    exists j b, 1 <= j /\ j <= rdN + 1 /\ b < 2 ^ j /\ gpos T (N.of_nat ry) oy = pU j b.
  Proof.
    intros U Hne. destruct (under_decomp _ _ U) as [E Hb]. destruct U as [Hr Ed]. cbn [fst snd] in *.
    assert (Hlt : (ry < S rd)%nat).
    { destruct (Nat.eq_dec ry (S rd)) as [->|]; [|lia]. exfalso. apply Hne.
      rewrite Nat.sub_diag, p2_0, N.div_1_r in Ed. congruence. }
    exists (N.of_nat (S rd - ry)), (oy mod 2 ^ N.of_nat (S rd - ry)).
    split; [lia|]. split; [lia|]. split; [exact Hb|]. unfold posU. f_equal; [lia|exact E].
  Qed.

  Lemma cp_U0 : gpos T (N.of_nat (S rd)) (od / 2) = pU 0 0.
  Proof. unfold posU. rewrite N.sub_0_r, N.pow_0_r, N.mul_1_r, N.add_0_r. f_equal. lia. Qed.

  Lemma cp_U_inv ry oy j b : N.of_nat ry <= T -> oy < 2 ^ (T - N.of_nat ry) ->
    j <= rdN + 1 -> b < 2 ^ j -> gpos T (N.of_nat ry) oy = pU j b ->
    under (S rd, od / 2) (ry, oy) /\ N.of_nat ry = rdN + 1 - j /\ oy = od / 2 * 2 ^ j + b.
  Proof.
    intros A B Hj Hb E. destruct (posU_valid T rdN od HT Hrd Hod j b Hj Hb) as [C D].
    destruct (gpos_inj T _ _ _ _ A B C D E) as [Er Eo]. split; [|auto].
    apply (under_compose (S rd, od / 2) (ry, oy) b); cbn [fst snd]; [lia| |].
    - rewrite Eo. f_equal. f_equal. f_equal. lia.
    - replace (N.of_nat (S rd - ry)) with j by lia. exact Hb.
  Qed.

  Lemma cp_S_inv ry oy j b : N.of_nat ry <= T -> oy < 2 ^ (T - N.of_nat ry) ->
    j <= rdN -> b < 2 ^ j -> gpos T (N.of_nat ry) oy = pS j b ->
    under (rd, N.lxor od 1) (ry, oy) /\ N.of_nat ry = rdN - j.
  Proof.
    intros A B Hj Hb E. destruct (posS_valid T rdN od HT Hrd Hod j b Hj Hb) as [C D].
    destruct (gpos_inj T _ _ _ _ A B C D E) as [Er Eo]. split; [|exact Er].
    apply (under_compose (rd, N.lxor od 1) (ry, oy) b); cbn [fst snd]; [lia| |].
    - rewrite Eo. f_equal. f_equal. f_equal. lia.
    - replace (N.of_nat (rd - ry)) with j by lia. exact Hb.
  Qed.

  (** the sibling of a coordinate strictly below the parent lies below the parent *)
  Lemma under_sib c ry oy : under c (ry, oy) -> (ry < fst c)%nat -> under c (ry, N.lxor oy 1).
  Proof.
    intros U Hlt. destruct (under_sib_par ry oy) as [A B].
    assert (Up : under c (S ry, oy / 2)) by (apply under_par; assumption).
    exact (under_trans _ _ _ Up A).
  Qed.
End CoordPos.
Lemma coord_eq {H} (y : node H) r o : coord y = (r, o) -> nrow y = r /\ noff y = o.
Proof. intros E. split; [exact (f_equal fst E)|exact (f_equal snd E)]. Qed.

(** * 11. [prunePosition] keeps the invariant *)
Definition set_nodes {H} (m : mstate H) (nd : nodemap H) : mstate H :=
  mkM nd (ms_cached m) (ms_n m) (ms_total m) (ms_full m).

Section PruneInv.
  Variable H : Type.
  Variable HO : ops H.
  Hypothesis HOK : ops_ok HO.
  Variable s : slots H.
  Variables Rc Rn : list H.
  Notation lay := (layout HO s).

  Section One.
  Variable m : mstate H.
  Hypothesis I : Inv2 HO s Rc Rn m.
  Notation T := (ms_total m).
  Notation N0 := (ms_nodes m).
  Notation gpx := (fun y : node H => gp (ms_total m) (nrow y) (noff y)).

  Lemma pi_n63 : N.of_nat (length s) <= 2 ^ 63.
  Proof. pose proof (i_n I) as E. unfold num_leaves in E. rewrite <- E. exact (i_n63 I). Qed.
  Lemma pi_Tlo : TreeRows (N.of_nat (length s)) <= T.
  Proof. pose proof (i_n I) as E. unfold num_leaves in E. rewrite <- E. exact (i_rows I). Qed.

  Lemma pi_valid y : In y lay -> N.of_nat (nrow y) <= T /\ noff y < 2 ^ (T - N.of_nat (nrow y)).
  Proof. exact (ng_valid H HO s T pi_n63 pi_Tlo (i_T63 I) y). Qed.
  Lemma pi_inj y y' : In y lay -> In y' lay -> gpx y = gpx y' -> y = y'.
  Proof. exact (ng_inj H HO s T pi_n63 pi_Tlo (i_T63 I) y y'). Qed.

  (** deleting the position of a node that is not needed *)
  Lemma del_Inv2 a : In a lay -> nroot a = false ->
    ~ (nleaf a = true /\ In (nhash a) Rn) ->
    (forall w, In w lay -> nleaf w = true -> In (nhash w) Rn -> forall k : nat,
       (nrow w + k < ntree w)%nat ->
       ((nrow w + k)%nat, N.lxor (noff w / 2 ^ N.of_nat k) 1) <> coord a) ->
    Inv2 HO s Rc Rn (set_nodes m (nodes_del (gpx a) N0)).
  Proof.
    intros Ha Hra Hnl Hns. constructor; cbn [set_nodes ms_n ms_total ms_nodes ms_cached];
      try exact (i_n I); try exact (i_n63 I); try exact (i_rows I); try exact (i_T63 I);
      try exact (i_live_nd I); try exact (i_live_nn I); try exact (i_live_nz I);
      try exact (i_ckeys I); try exact (i_Rn I); try exact (i_sub I); try exact (i_cached I).
    - apply keys_del, (i_keys I).
    - intros p h b E. rewrite rg_del in E. destruct (p =? gpx a); [discriminate|]. exact (i_true I p h b E).
    - intros y Hy Ry. rewrite rg_del. destruct (N.eqb_spec (gpx y) (gpx a)) as [E|_].
      + rewrite (pi_inj y a Hy Ha E) in Ry. congruence.
      + exact (i_roots I y Hy Ry).
    - intros y Hy Ly Hh. rewrite rg_del. destruct (N.eqb_spec (gpx y) (gpx a)) as [E|_].
      + exfalso. apply Hnl. rewrite <- (pi_inj y a Hy Ha E). auto.
      + exact (i_leaf I y Hy Ly Hh).
    - intros w Hw Lw Hh k Hk. rewrite rg_del.
      destruct (N.eqb_spec (gp T (nrow w + k) (N.lxor (noff w / 2 ^ N.of_nat k) 1)) (gpx a)) as [E|_].
      + exfalso. apply (Hns w Hw Lw Hh k Hk).
        destruct (pi_valid w Hw) as [Aw Bw]. destruct (pi_valid a Ha) as [Aa Ba].
        destruct (ng_ancestor H HO s T pi_n63 pi_Tlo (i_T63 I) w Hw (S k) ltac:(lia)) as (y & Hy & Ey & _).
        destruct (coord_eq _ _ _ Ey) as [Er _]. destruct (pi_valid y Hy) as [Ay _].
        assert (HrT : N.of_nat (nrow w + k) < T) by lia.
        assert (Hv : noff w / 2 ^ N.of_nat k < 2 ^ (T - N.of_nat (nrow w + k))).
        { rewrite Nat2N.inj_add. apply anc_valid; [lia|exact Bw]. }
        destruct (sib_offsets_lt T _ _ HrT Hv) as (Hvs & _).
        unfold gp in E. destruct (gpos_inj T _ _ _ _ (N.lt_le_incl _ _ HrT) Hvs Aa Ba E) as [E1 E2].
        unfold coord. f_equal; [lia|exact E2].
      + exact (i_sibs I w Hw Lw Hh k Hk).
  Qed.

  Lemma pi_children y r' : In y lay -> nrow y = S r' ->
    LeftChild (gpx y) T = gp T r' (2 * noff y) /\ RightChild (gpx y) T = gp T r' (2 * noff y + 1) /\
    DetectRow (gpx y) T = N.of_nat (S r').
  Proof.
    intros Hy Er. destruct (pi_valid y Hy) as [A B]. cbv beta. unfold gp. rewrite Er in *.
    replace (N.of_nat (S r')) with (N.of_nat r' + 1) in * by lia.
    assert (B' : noff y < 2 ^ (T - N.of_nat r' - 1))
      by (replace (T - N.of_nat r' - 1) with (T - (N.of_nat r' + 1)) by lia; exact B).
    split; [apply LeftChild_gpos; try assumption; try lia; exact (i_T63 I)|].
    split; [apply RightChild_gpos; try assumption; try lia; exact (i_T63 I)|].
    apply DetectRow_gpos; [exact (i_T63 I)|exact A|exact B].
  Qed.

  (** one half of [prunePosition]: [a] goes unless a child of its sibling [b] is stored *)
  Lemma try_del_Inv2 a b : In a lay -> In b lay -> nroot a = false ->
    coord b = (nrow a, N.lxor (noff a) 1) ->
    snd (nodes_get0 HO N0 (gpx a)) = false -> snd (nodes_get0 HO N0 (gpx b)) = false ->
    Inv2 HO s Rc Rn (set_nodes m (if niecesPresent T N0 (gpx a) then N0 else nodes_del (gpx a) N0)).
  Proof.
    intros Ha Hb Hra Eb Fa Fb. destruct (niecesPresent T N0 (gpx a)) eqn:Enp.
    - destruct m; exact I.
    - destruct (coord_eq _ _ _ Eb) as [Ebr Ebo].
      apply del_Inv2; [exact Ha|exact Hra| |].
      + intros [La Hh]. unfold nodes_get0 in Fa. rewrite (i_leaf I a Ha La Hh) in Fa. discriminate.
      + intros w Hw Lw Hh k Hk Ec.
        (* the k-th ancestor of w is b *)
        assert (Ecb : ((nrow w + k)%nat, noff w / 2 ^ N.of_nat k) = coord b).
        { unfold coord in Ec |- *. injection Ec as E1 E2. rewrite Ebr, Ebo, <- E1, <- E2, pps_lxor_invol. reflexivity. }
        destruct k as [|k].
        * rewrite Nat.add_0_r, N.pow_0_r, N.div_1_r in Ecb.
          assert (w = b) by (apply (ng_coord_eq H HO s w b Hw Hb); exact Ecb). subst w.
          unfold nodes_get0 in Fb. rewrite (i_leaf I b Hb Lw Hh) in Fb. discriminate.
        * (* a child of b is on the path: its sibling, the other child, is stored *)
          pose proof (i_sibs I w Hw Lw Hh k ltac:(lia)) as Hs.
          destruct (coord_eq _ _ _ (eq_sym Ecb)) as [Er Eo].
          assert (Er' : nrow b = S (nrow w + k)) by lia.
          destruct (pi_children b (nrow w + k) Hb Er') as (EL & ER & _).
          destruct (pi_children a (nrow w + k) Ha ltac:(lia)) as (_ & _ & ED).
          assert (Esib : sibling (gpx a) = gpx b).
          { destruct (pi_valid a Ha) as [A _]. cbv beta. unfold gp. rewrite sibling_gpos by exact A.
            rewrite Ebr, Ebo. reflexivity. }
          unfold niecesPresent in Enp. rewrite Esib, EL, ER, ED in Enp.
          destruct (N.eqb_spec (N.of_nat (S (nrow w + k))) 0) as [E0|_]; [lia|].
          apply orb_false_iff in Enp as [N1 N2]. unfold nodes_has in N1, N2.
          assert (Eo2 : noff b = noff w / 2 ^ N.of_nat k / 2).
          { rewrite Eo, Nat2N.inj_succ, <- N.add_1_r, N.pow_add_r, N.pow_1_r.
            rewrite N.div_div by (try apply pow2_nz; lia). reflexivity. }
          set (o' := noff w / 2 ^ N.of_nat k) in *. rewrite Eo2 in N1, N2.
          destruct (pps_bit0 o') as (q & [(E1 & E2 & _ & E4)|(E1 & E2 & _ & E4)]); rewrite E2 in Hs; rewrite E4 in N1, N2.
          -- destruct (nodes_get N0 (gp T (nrow w + k) (2 * q + 1))); [discriminate|congruence].
          -- destruct (nodes_get N0 (gp T (nrow w + k) (2 * q))); [discriminate|congruence].
  Qed.
  End One.

  (** [prunePosition] at a node that is no root *)
  Lemma prunePosition_Inv2 m q : Inv2 HO s Rc Rn m -> In q lay -> nroot q = false ->
    Inv2 HO s Rc Rn (set_nodes m (prunePosition HO (ms_total m) (ms_nodes m)
                                    (gp (ms_total m) (nrow q) (noff q)))).
  Proof.
    intros I Hq Hr.
    destruct (ng_family H HO s q Hq Hr) as (p & sq & _ & Hsq & Hsr & _ & Esq & _).
    destruct (coord_eq _ _ _ Esq) as [Er Eo].
    assert (Esib : sibling (gp (ms_total m) (nrow q) (noff q)) = gp (ms_total m) (nrow sq) (noff sq)).
    { destruct (pi_valid m I q Hq) as [A _]. unfold gp. rewrite sibling_gpos by exact A.
      rewrite Er, Eo. reflexivity. }
    unfold prunePosition. rewrite Esib.
    destruct (snd (nodes_get0 HO (ms_nodes m) (gp (ms_total m) (nrow q) (noff q)))) eqn:Fq; cbn [negb andb];
      [destruct m; exact I|].
    destruct (snd (nodes_get0 HO (ms_nodes m) (gp (ms_total m) (nrow sq) (noff sq)))) eqn:Fs; cbn [negb andb];
      [destruct m; exact I|].
    assert (Eq : coord q = (nrow sq, N.lxor (noff sq) 1)).
    { unfold coord. rewrite Er, Eo, pps_lxor_invol. reflexivity. }
    pose proof (try_del_Inv2 m I sq q Hsq Hq Hsr Eq Fs Fq) as I1.
    set (nd1 := if niecesPresent (ms_total m) (ms_nodes m) (gp (ms_total m) (nrow sq) (noff sq))
                then ms_nodes m else nodes_del (gp (ms_total m) (nrow sq) (noff sq)) (ms_nodes m)) in *.
    assert (Hne : gp (ms_total m) (nrow q) (noff q) <> gp (ms_total m) (nrow sq) (noff sq)).
    { intros E. pose proof (pi_inj m I q sq Hq Hsq E) as Eqs. rewrite Eqs in Eo.
      pose proof (lxor_1 (noff sq)) as Hx. destruct (N.even (noff sq)) eqn:Ev; [lia|].
      pose proof (odd_nz _ Ev). lia. }
    pose proof (try_del_Inv2 (set_nodes m nd1) I1 q sq Hq Hsq Hr Esq) as I2.
    cbn [set_nodes ms_nodes ms_total ms_cached ms_n ms_full] in I2. apply I2.
    - unfold nd1. destruct (niecesPresent _ _ _); [exact Fq|].
      unfold nodes_get0. rewrite rg_del.
      destruct (N.eqb_spec (gp (ms_total m) (nrow q) (noff q)) (gp (ms_total m) (nrow sq) (noff sq))) as [E|_]; [contradiction|exact Fq].
    - unfold nd1. destruct (niecesPresent _ _ _); [exact Fs|].
      unfold nodes_get0. rewrite rg_del, N.eqb_refl. reflexivity.
  Qed.

  (** the loop of [forgetUnneededDel] from a node that is no root *)
  Lemma fud_node_Inv2 : forall (fuel : nat) row m y, Inv2 HO s Rc Rn m -> In y lay -> nroot y = false ->
    Inv2 HO s Rc Rn (set_nodes m (fud_loop HO fuel (ms_n m) (ms_total m) row
                                     (gp (ms_total m) (nrow y) (noff y)) (ms_nodes m))).
  Proof.
    induction fuel as [|f IH]; intros row m y I Hy Hr; [destruct m; exact I|].
    cbn [fud_loop]. destruct (ms_total m <? row); [destruct m; exact I|].
    destruct (ng_family H HO s y Hy Hr) as (p & _ & Hp & _ & _ & _ & _ & Ep & _).
    destruct (coord_eq _ _ _ Ep) as [Er Eo].
    assert (Epar : Parent (gp (ms_total m) (nrow y) (noff y)) (ms_total m) = gp (ms_total m) (nrow p) (noff p)).
    { destruct (pi_valid m I y Hy) as [A B]. destruct (pi_valid m I p Hp) as [C _].
      unfold gp. rewrite Parent_gpos; [|exact (i_T63 I)|lia|exact B]. rewrite Er, Eo. f_equal. lia. }
    rewrite Epar.
    assert (Eroot : isRootPositionTotalRows (gp (ms_total m) (nrow p) (noff p)) (ms_n m) (ms_total m) = nroot p).
    { pose proof (i_n I) as En. unfold num_leaves in En. rewrite En.
      exact (ng_isroot H HO s (ms_total m) (pi_n63 m I) (pi_Tlo m I) (i_T63 I) p Hp). }
    rewrite Eroot. destruct (nroot p) eqn:Rp; [destruct m; exact I|].
    pose proof (prunePosition_Inv2 m p I Hp Rp) as I1.
    exact (IH (add8 row 1) _ p I1 Hp Rp).
  Qed.
End PruneInv.

Section FudFromDel.
  Variable H : Type.
  Variable HO : ops H.
  Variable s : slots H.
  Variables Rc Rn : list H.

  (** [forgetUnneededDel] from a deleted position whose parent position holds the node [y0] *)
  Lemma fud_from_del nd ca n T full r o y0 : Inv2 HO s Rc Rn (mkM nd ca n T full) -> In y0 (layout HO s) ->
    r < T -> o < 2 ^ (T - r) ->
    gp T (nrow y0) (noff y0) = gpos T (r + 1) (o / 2) ->
    isRootPositionTotalRows (gpos T r o) n T = false ->
    Inv2 HO s Rc Rn (mkM (forgetUnneededDel HO n T (gpos T r o) nd) ca n T full).
  Proof.
    intros I Hy0 Hr Ho Eg Hnr. pose proof (i_T63 I) as HT. cbn [ms_total] in HT.
    unfold forgetUnneededDel. rewrite Hnr.
    rewrite DetectRow_gpos by (try assumption; lia).
    change 300%nat with (S 299). generalize 299%nat. intros f.
    cbn [fud_loop].
    destruct (N.ltb_spec T r) as [Lt|_]; [lia|].
    rewrite Parent_gpos by assumption. rewrite <- Eg.
    assert (Eroot : isRootPositionTotalRows (gp T (nrow y0) (noff y0)) n T = nroot y0).
    { pose proof (i_n I) as En. cbn [ms_n] in En. unfold num_leaves in En. rewrite En.
      exact (ng_isroot H HO s T (pi_n63 H HO s Rc Rn _ I) (pi_Tlo H HO s Rc Rn _ I) HT y0 Hy0). }
    rewrite Eroot. destruct (nroot y0) eqn:Ry; [exact I|].
    pose proof (prunePosition_Inv2 H HO s Rc Rn _ y0 I Hy0 Ry) as I5.
    exact (fud_node_Inv2 H HO s Rc Rn f (add8 r 1) _ y0 I5 Hy0 Ry).
  Qed.
End FudFromDel.

(** * 12. One [removeSingle] on a node that is no root *)
(** arithmetic of the offsets of one block of positions *)
Lemma block_div a j b k : b < 2 ^ j -> k <= j ->
  (a * 2 ^ j + b) / 2 ^ k = a * 2 ^ (j - k) + b / 2 ^ k /\ b / 2 ^ k < 2 ^ (j - k).
Proof.
  intros Hb Hk. assert (E : 2 ^ j = 2 ^ (j - k) * 2 ^ k).
  { rewrite <- N.pow_add_r. f_equal. lia. }
  split.
  - rewrite E, N.mul_assoc, N.div_add_l by apply pow2_nz. reflexivity.
  - apply N.div_lt_upper_bound; [apply pow2_nz|]. rewrite N.mul_comm, <- E. exact Hb.
Qed.

Lemma block_div_hi a j b k : b < 2 ^ j -> j <= k -> (a * 2 ^ j + b) / 2 ^ k = a / 2 ^ (k - j).
Proof.
  intros Hb Hk. replace k with (j + (k - j)) at 1 by lia. rewrite N.pow_add_r.
  rewrite <- N.div_div by apply pow2_nz. rewrite N.div_add_l by apply pow2_nz.
  rewrite (N.div_small b) by exact Hb. f_equal. lia.
Qed.

Lemma block_lxor a m c : 1 <= m -> c < 2 ^ m ->
  N.lxor (a * 2 ^ m + c) 1 = a * 2 ^ m + N.lxor c 1 /\ N.lxor c 1 < 2 ^ m.
Proof.
  intros Hm Hc. replace m with (m - 1 + 1) in * by lia. rewrite pow2_S in *.
  set (X := 2 ^ (m - 1)) in *.
  assert (Ev' : N.even (a * (2 * X) + c) = N.even c).
  { replace (a * (2 * X) + c) with (c + 2 * (a * X)) by lia. apply N.even_add_mul_2. }
  rewrite !lxor_1, Ev'. destruct (N.even c) eqn:Ev.
  - apply N.even_spec in Ev as [q ->]. split; lia.
  - pose proof (odd_nz _ Ev). split; lia.
Qed.

Section StepInner.
  Variable H : Type.
  Variable HO : ops H.
  Hypothesis HOK : ops_ok HO.
  Variable s : slots H.
  Variables Rc Rn : list H.
  Variable m : mstate H.
  Hypothesis I : Inv2 HO s Rc Rn m.
  Variable L : list H.
  Variable x : node H.
  Hypothesis Hx : In x (layout HO s).
  Hypothesis Hxr : nroot x = false.
  Hypothesis Hdel : forall y, In y (layout HO s) -> nleaf y = true ->
    (memH HO (nhash y) L = true <-> under (coord x) (coord y)).
  Hypothesis HLc : forall y, In y (layout HO s) -> nleaf y = true -> under (coord x) (coord y) ->
    ~ In (nhash y) Rc.
  Variable z : node H.
  Hypothesis Hz : In z (layout HO s).
  Hypothesis Lz : nleaf z = true.
  Hypothesis Uz : under (coord x) (coord z).
  Hypothesis Rz : In (nhash z) Rn.

  Notation lay := (layout HO s).
  Notation s' := (kill HO L s).
  Notation lay' := (layout HO (kill HO L s)).
  Notation T := (ms_total m).
  Notation n := (ms_n m).
  Notation N0 := (ms_nodes m).
  Notation ca := (ms_cached m).
  Notation gpx := (fun y : node H => gp (ms_total m) (nrow y) (noff y)).
  Notation rd := (nrow x).
  Notation od := (noff x).
  Notation rdN := (N.of_nat (nrow x)).
  Notation pU := (posU (ms_total m) (N.of_nat (nrow x)) (noff x)).
  Notation pS := (posS (ms_total m) (N.of_nat (nrow x)) (noff x)).

  Lemma si_len : n = N.of_nat (length s).
  Proof. exact (i_n I). Qed.
  Lemma si_n63 : N.of_nat (length s) <= 2 ^ 63.
  Proof. rewrite <- si_len. exact (i_n63 I). Qed.
  Lemma si_Tlo : TreeRows (N.of_nat (length s)) <= T.
  Proof. rewrite <- si_len. exact (i_rows I). Qed.
  Notation HT63 := (i_T63 I).

  Lemma si_valid y : In y lay -> N.of_nat (nrow y) <= T /\ noff y < 2 ^ (T - N.of_nat (nrow y)).
  Proof. exact (ng_valid H HO s T si_n63 si_Tlo HT63 y). Qed.
  Lemma si_inj y y' : In y lay -> In y' lay -> gpx y = gpx y' -> y = y'.
  Proof. exact (ng_inj H HO s T si_n63 si_Tlo HT63 y y'). Qed.

  Lemma si_family : exists p sb, In p lay /\ In sb lay /\ nroot sb = false /\ nleaf p = false /\
      coord sb = (rd, N.lxor od 1) /\ coord p = (S rd, od / 2) /\
      ntree p = ntree x /\ ntree sb = ntree x.
  Proof.
    destruct (ng_family H HO s x Hx Hxr) as (p & sb & A1 & A2 & A3 & A4 & A5 & A6 & A7 & A8 & _).
    exists p, sb. repeat split; assumption.
  Qed.

  Lemma si_rd : rdN < T.
  Proof.
    destruct si_family as (p & sb & Hp & _ & _ & _ & _ & Ep & _).
    destruct (si_valid p Hp) as [A _]. unfold coord in Ep. injection Ep as Er _. rewrite Er in A. lia.
  Qed.
  Lemma si_od : od < 2 ^ (T - rdN).
  Proof. exact (proj2 (si_valid x Hx)). Qed.

  Lemma si_rd_tree : (rd < ntree x)%nat.
  Proof. apply (nonroot_iff_row H HO s si_n63 x Hx). exact Hxr. Qed.

  Lemma si_tree_z : ntree z = ntree x.
  Proof. exact (ng_same_tree H HO s x z Hx Hz Uz). Qed.

  (** the sibling of every ancestor of [x] (inside the tree) is stored *)
  Lemma si_sib_stored (k : nat) : (rd + k < ntree x)%nat ->
    nodes_get N0 (gp T (rd + k) (N.lxor (od / 2 ^ N.of_nat k) 1)) <> None.
  Proof.
    intros Hk. destruct Uz as [Hr E]. unfold coord in Hr, E. cbn [fst snd] in Hr, E.
    pose proof (i_sibs I z Hz Lz Rz (rd - nrow z + k)%nat ltac:(rewrite si_tree_z; lia)) as Hs.
    replace (nrow z + (rd - nrow z + k))%nat with (rd + k)%nat in Hs by lia.
    replace (noff z / 2 ^ N.of_nat (rd - nrow z + k)) with (od / 2 ^ N.of_nat k) in Hs; [exact Hs|].
    rewrite Nat2N.inj_add, N.pow_add_r, <- N.div_div by apply pow2_nz. unfold p2 in E. rewrite E. reflexivity.
  Qed.

  (** stored values are hashes of nodes *)
  Lemma si_stored_node y v : In y lay -> nodes_get N0 (gpx y) = Some v -> fst v = nhash y.
  Proof.
    intros Hy E. destruct v as [h b]. destruct (i_true I _ _ _ E) as (y' & Hy' & Ep & Eh).
    rewrite (si_inj y y' Hy Hy' Ep). symmetry. exact Eh.
  Qed.

  Lemma si_uniq q1 q2 v1 v2 : nodes_get N0 q1 = Some v1 -> nodes_get N0 q2 = Some v2 ->
    fst v1 = fst v2 -> cached_has HO ca (fst v1) = true -> q1 = q2.
  Proof.
    intros E1 E2 Ef Hh. destruct v1 as [h1 b1], v2 as [h2 b2]. cbn [fst] in *. subst h2.
    destruct (i_true I _ _ _ E1) as (y1 & Hy1 & -> & Eh1).
    destruct (i_true I _ _ _ E2) as (y2 & Hy2 & -> & Eh2).
    apply (chas_get H HO) in Hh. destruct (cached_get HO ca h1) as [p|] eqn:Ec; [|congruence].
    apply (i_cached I) in Ec as (_ & w & Hw & Lw & Ew & _).
    rewrite (inv_leaf_hash H HO s Rc Rn m I y1 w Hy1 Hw Lw ltac:(congruence)).
    rewrite (inv_leaf_hash H HO s Rc Rn m I y2 w Hy2 Hw Lw ltac:(congruence)). reflexivity.
  Qed.

  (** ** the family of [x] *)
  Variables p sb : node H.
  Hypothesis Hp : In p lay.
  Hypothesis Hsb : In sb lay.
  Hypothesis Hsbr : nroot sb = false.
  Hypothesis Hpl : nleaf p = false.
  Hypothesis Esb : coord sb = (rd, N.lxor od 1).
  Hypothesis Ep : coord p = (S rd, od / 2).
  Hypothesis Etp : ntree p = ntree x.
  Hypothesis Ets : ntree sb = ntree x.
  Notation fl := (S (nrow x) =? ntree x)%nat.
  Notation Pc := (S (nrow x), noff x / 2).
  Notation sbc := (nrow x, N.lxor (noff x) 1).

  Lemma si_gpx_x : gpx x = gpos T rdN od. Proof. reflexivity. Qed.
  Lemma si_gpx_sb : gpx sb = gpos T rdN (N.lxor od 1).
  Proof. cbv beta. unfold coord in Esb. injection Esb as -> ->. reflexivity. Qed.
  Lemma si_gpx_p : gpx p = gpos T (rdN + 1) (od / 2).
  Proof. cbv beta. unfold coord in Ep. injection Ep as -> ->. unfold gp. f_equal. lia. Qed.

  (** ** the images of the nodes in the layout after the deletion *)
  Lemma ref_other y : In y lay -> ~ under Pc (coord y) -> ~ under (coord y) Pc -> In y lay'.
  Proof. intros Hy. exact (proj1 (kill_inner H HO s L x Hx Hdel Hxr y Hy)). Qed.
  Lemma ref_sb y : In y lay -> under sbc (coord y) -> In (upn H rd fl y) lay'.
  Proof. intros Hy. exact (proj1 (proj2 (kill_inner H HO s L x Hx Hdel Hxr y Hy))). Qed.
  Lemma ref_anc y : In y lay -> under (coord y) Pc -> coord y <> Pc -> exists h', In (sethash H y h') lay'.
  Proof. intros Hy. exact (proj2 (proj2 (kill_inner H HO s L x Hx Hdel Hxr y Hy))). Qed.

  Lemma upn_coord_sb : coord (upn H rd fl sb) = Pc.
  Proof.
    unfold coord in *. injection Esb as Er Eo. unfold upn. cbn [nrow noff]. rewrite Er, Eo, Nat.sub_diag.
    f_equal. unfold rmbit. cbn [N.of_nat]. rewrite N.add_0_l, N.pow_1_r, N.pow_0_r, N.mul_1_r, N.mod_1_r, N.add_0_r.
    destruct (bl_sbo T rdN od HT63 si_rd si_od) as (_ & E & _). exact E.
  Qed.

  (** ** the chain of ancestors of the parent *)
  Definition ao (k : nat) : N := od / 2 / 2 ^ N.of_nat k.
  Notation J := (ntree x - S (nrow x))%nat.

  Lemma ao_S k : ao (S k) = ao k / 2.
  Proof.
    unfold ao. rewrite Nat2N.inj_succ, <- N.add_1_r, N.pow_add_r, N.pow_1_r.
    rewrite <- N.div_div by (try apply pow2_nz; lia). reflexivity.
  Qed.

  Lemma ao_od k : ao k = od / 2 ^ N.of_nat (S k).
  Proof.
    unfold ao. rewrite N.div_div by (try apply pow2_nz; lia).
    rewrite Nat2N.inj_succ, <- N.add_1_r, N.pow_add_r, N.pow_1_r. f_equal. lia.
  Qed.

  Lemma chain_node (k : nat) : (k <= J)%nat ->
    exists y, In y lay /\ coord y = ((S rd + k)%nat, ao k) /\ ntree y = ntree x /\ nleaf y = false /\
              nroot y = (k =? J)%nat.
  Proof.
    intros Hk. pose proof si_rd_tree as Hlt.
    destruct (ng_ancestor H HO s T si_n63 si_Tlo HT63 x Hx (S k) ltac:(lia)) as (y & Hy & Ey & Ety & Hl).
    exists y. split; [exact Hy|]. split; [rewrite Ey, ao_od; f_equal; lia|]. split; [exact Ety|].
    split; [apply Hl; lia|]. unfold coord in Ey. injection Ey as Er _.
    destruct (Nat.eqb_spec k J) as [E|E].
    - apply (root_iff_row H HO s y Hy). lia.
    - apply (nonroot_iff_row H HO s si_n63 y Hy). lia.
  Qed.

  Lemma chain_p : forall y, In y lay -> coord y = (S rd, ao 0) -> y = p.
  Proof.
    intros y Hy Ey. apply (ng_coord_eq H HO s y p Hy Hp). rewrite Ey, Ep. unfold ao.
    rewrite N.pow_0_r, N.div_1_r. reflexivity.
  Qed.

  (** the chain lies above the parent *)
  Lemma chain_above k : under ((S rd + k)%nat, ao k) Pc.
  Proof.
    split; cbn [fst snd]; [lia|]. unfold ao, p2. f_equal. f_equal. lia.
  Qed.

  Lemma chain_sib (k : nat) : (k < J)%nat ->
    exists sk, In sk lay /\ coord sk = ((S rd + k)%nat, N.lxor (ao k) 1) /\
      ~ under Pc (coord sk) /\ ~ under (coord sk) Pc /\
      exists b, nodes_get N0 (gpx sk) = Some (nhash sk, b).
  Proof.
    intros Hk. destruct (chain_node k ltac:(lia)) as (y & Hy & Ey & Ety & _ & Hr).
    assert (Hnr : nroot y = false) by (rewrite Hr; apply Nat.eqb_neq; lia).
    destruct (ng_family H HO s y Hy Hnr) as (py & sk & _ & Hsk & _ & _ & Esk & _).
    unfold coord in Ey. injection Ey as Er Eo. rewrite Er, Eo in Esk.
    exists sk. split; [exact Hsk|]. split; [exact Esk|].
    assert (Hne : N.lxor (ao k) 1 <> ao k).
    { pose proof (lxor_1 (ao k)) as Hx'. destruct (N.even (ao k)) eqn:Ev; [lia|].
      pose proof (odd_nz _ Ev). lia. }
    split; [|split].
    - rewrite Esk. intros [Hle E]. cbn [fst snd] in *. assert (k = 0)%nat by lia. subst k.
      replace (S rd - S (rd + 0))%nat with 0%nat in E by lia. rewrite p2_0, N.div_1_r in E.
      unfold ao in E, Hne. cbn [N.of_nat] in E, Hne. rewrite N.pow_0_r, N.div_1_r in E, Hne. contradiction.
    - rewrite Esk. intros U. pose proof (chain_above k) as U2.
      destruct U as [_ E1], U2 as [_ E2]. cbn [fst snd] in E1, E2.
      replace (S (rd + k) - S rd)%nat with k in E1 by lia.
      replace (S rd + k - S rd)%nat with k in E2 by lia. congruence.
    - pose proof (si_sib_stored (S k) ltac:(pose proof si_rd_tree; lia)) as Hs.
      rewrite <- ao_od in Hs. replace (rd + S k)%nat with (S rd + k)%nat in Hs by lia.
      unfold coord in Esk. injection Esk as Esr Eso.
      assert (Eg : gpx sk = gp T (S rd + k) (N.lxor (ao k) 1)) by (rewrite Esr, Eso; reflexivity).
      rewrite <- Eg in Hs. destruct (nodes_get N0 (gpx sk)) as [[h b]|] eqn:E; [|congruence].
      exists b. pose proof (si_stored_node sk (h, b) Hsk E) as Eh. cbn [fst] in Eh. subst h. reflexivity.
  Qed.

  (** ** the hashes on the path after the deletion *)
  Definition nh (k : nat) : H :=
    match tnode HO s' (S rd + k) (ao k) with Some y' => nhash y' | None => op_empty HO end.
  Definition sh (k : nat) : H :=
    match tnode HO s (S rd + k) (N.lxor (ao k) 1) with Some y => nhash y | None => op_empty HO end.

  Lemma ao_0 : ao 0 = od / 2.
  Proof. unfold ao. cbn [N.of_nat]. rewrite N.pow_0_r, N.div_1_r. reflexivity. Qed.

  Lemma new_node k : (k <= J)%nat ->
    exists y', In y' lay' /\ coord y' = ((S rd + k)%nat, ao k) /\ nhash y' = nh k /\ ntree y' = ntree x /\
               ((1 <= k)%nat -> nleaf y' = false /\ nroot y' = (k =? J)%nat).
  Proof.
    intros Hk.
    assert (Hgen : forall y', In y' lay' -> coord y' = ((S rd + k)%nat, ao k) -> nhash y' = nh k).
    { intros y' Hy' Ey'. destruct (coord_eq _ _ _ Ey') as [Er Eo]. unfold nh.
      rewrite <- Er, <- Eo, (tnode_in H HO s' y' Hy'). reflexivity. }
    destruct (Nat.eq_dec k 0) as [->|Hk0].
    - exists (upn H rd fl sb).
      assert (Hin : In (upn H rd fl sb) lay') by (apply ref_sb; [exact Hsb|rewrite Esb; apply under_refl]).
      assert (Ec : coord (upn H rd fl sb) = ((S rd + 0)%nat, ao 0)).
      { rewrite upn_coord_sb, ao_0. f_equal. lia. }
      split; [exact Hin|]. split; [exact Ec|]. split; [exact (Hgen _ Hin Ec)|].
      split; [exact Ets|]. intros C. lia.
    - destruct (chain_node k Hk) as (y & Hy & Ey & Ety & Ly & Ry).
      destruct (ref_anc y Hy) as [h' Hh'].
      + rewrite Ey. apply chain_above.
      + rewrite Ey. intros C. injection C as C _. lia.
      + exists (sethash H y h').
        assert (Ec : coord (sethash H y h') = ((S rd + k)%nat, ao k)) by exact Ey.
        split; [exact Hh'|]. split; [exact Ec|]. split; [exact (Hgen _ Hh' Ec)|].
        split; [exact Ety|]. intros _. split; [exact Ly|exact Ry].
  Qed.

  Lemma nh_0 : nh 0 = nhash sb.
  Proof.
    assert (Hin : In (upn H rd fl sb) lay') by (apply ref_sb; [exact Hsb|rewrite Esb; apply under_refl]).
    pose proof upn_coord_sb as Ec. destruct (coord_eq _ _ _ Ec) as [Er Eo].
    unfold nh. replace (S rd + 0)%nat with (S rd) by lia. rewrite ao_0.
    rewrite <- Er at 1. rewrite <- Eo. rewrite (tnode_in H HO s' _ Hin). reflexivity.
  Qed.

  Lemma nh_rec k : (k < J)%nat ->
    nh (S k) = if N.even (ao k) then op_hash2 HO (nh k) (sh k) else op_hash2 HO (sh k) (nh k).
  Proof.
    intros Hk.
    destruct (new_node (S k) ltac:(lia)) as (y1 & Hy1 & Ey1 & Eh1 & _ & Hl1).
    destruct (Hl1 ltac:(lia)) as [Ly1 _].
    destruct (new_node k ltac:(lia)) as (y0 & Hy0 & Ey0 & Eh0 & _ & _).
    destruct (chain_sib k Hk) as (sk & Hsk & Esk & Hn1 & Hn2 & _).
    pose proof (ref_other sk Hsk Hn1 Hn2) as Hsk'.
    assert (Esh : sh k = nhash sk).
    { unfold sh. destruct (coord_eq _ _ _ Esk) as [Er Eo]. rewrite <- Er, <- Eo.
      rewrite (tnode_in H HO s sk Hsk). reflexivity. }
    assert (T0 : tnode HO s' (S rd + k) (ao k) = Some y0).
    { destruct (coord_eq _ _ _ Ey0) as [Er Eo]. rewrite <- Er, <- Eo. apply tnode_in, Hy0. }
    assert (Ts : tnode HO s' (S rd + k) (N.lxor (ao k) 1) = Some sk).
    { destruct (coord_eq _ _ _ Esk) as [Er Eo]. rewrite <- Er, <- Eo. apply tnode_in, Hsk'. }
    assert (T1 : tnode HO s' (S (S rd + k)) (ao (S k)) = Some y1).
    { destruct (coord_eq _ _ _ Ey1) as [Er Eo]. replace (S (S rd + k)) with (S rd + S k)%nat by lia.
      rewrite <- Er, <- Eo. apply tnode_in, Hy1. }
    rewrite <- Eh1, <- Eh0, Esh. rewrite ao_S in T1.
    destruct (pps_bit0 (ao k)) as (q & [(E1 & E2 & _ & E4)|(E1 & E2 & _ & E4)]).
    - rewrite E2 in Ts. rewrite E4 in T1. rewrite E1 in T0.
      assert (Ev : N.even (ao k) = true) by (rewrite E1, N.even_mul; reflexivity). rewrite Ev.
      destruct (node_cases H HO s' _ _ y1 T1) as [r' xl xr _ Er Cxl Cxr Hh|Ll _ _|_ _ _ _ _ Hc].
      + injection Er as <-. cbn [Nat.add] in T0, Ts. rewrite T0 in Cxl. rewrite Ts in Cxr. injection Cxl as <-. injection Cxr as <-.
        exact Hh.
      + congruence.
      + destruct (Hc _ eq_refl) as [C _]. congruence.
    - rewrite E2 in Ts. rewrite E4 in T1. rewrite E1 in T0.
      assert (Ev : N.even (ao k) = false).
      { rewrite E1, N.even_add, N.even_mul. reflexivity. }
      rewrite Ev.
      destruct (node_cases H HO s' _ _ y1 T1) as [r' xl xr _ Er Cxl Cxr Hh|Ll _ _|_ _ _ _ _ Hc].
      + injection Er as <-. cbn [Nat.add] in T0, Ts. rewrite Ts in Cxl. rewrite T0 in Cxr. injection Cxl as <-. injection Cxr as <-.
        exact Hh.
      + congruence.
      + destruct (Hc _ eq_refl) as [_ C]. congruence.
  Qed.

  (** ** the node map after the moves and after [updateHashes] *)
  Variable bsb : bool.
  Variable nd3 : nodemap H.
  Variable ca3 : cachemap H.
  Hypothesis Hvsb : nodes_get N0 (gpx sb) = Some (nhash sb, bsb).
  Hypothesis M : moved HO T rdN od N0 ca (nhash sb, bsb) nd3 ca3.
  Notation full := (ms_full m).
  Notation nd4 := (updateHashes HO (ms_n m) (ms_total m) (ms_full m)
                     (gp (ms_total m) (nrow x) (noff x)) (nhash sb) nd3).

  Definition apos (k : nat) : N := gp T (S rd + k) (ao k).

  Lemma apos_anc k : anc T (rdN + 1) (od / 2) (N.of_nat k) = apos k.
  Proof. unfold anc, apos, gp, ao. f_equal. lia. Qed.

  Lemma apos_node k y : In y lay -> coord y = ((S rd + k)%nat, ao k) -> gpx y = apos k.
  Proof. intros Hy Ey. destruct (coord_eq _ _ _ Ey) as [Er Eo]. cbv beta. unfold apos. rewrite Er, Eo. reflexivity. Qed.

  Lemma si_isroot y : In y lay -> isRootPositionTotalRows (gpx y) n T = nroot y.
  Proof. intros Hy. rewrite si_len. exact (ng_isroot H HO s T si_n63 si_Tlo HT63 y Hy). Qed.

  Lemma si_out y : In y lay -> ~ under Pc (coord y) ->
    forall j b, j <= rdN + 1 -> b < 2 ^ j -> gpx y <> pU j b.
  Proof.
    intros Hy Hn j b Hj Hb E. apply Hn. destruct (si_valid y Hy) as [A B].
    exact (proj1 (cp_U_inv T rd od HT63 si_rd si_od (nrow y) (noff y) j b A B Hj Hb E)).
  Qed.

  Lemma si_out_get y : In y lay -> ~ under Pc (coord y) -> nodes_get nd3 (gpx y) = nodes_get N0 (gpx y).
  Proof. intros Hy Hn. apply (mo_out M). exact (si_out y Hy Hn). Qed.

  Lemma si_garbage : nodes_get nd3 (2 ^ (T + 1) - 1) = None.
  Proof.
    rewrite (mo_out M).
    - destruct (nodes_get N0 (2 ^ (T + 1) - 1)) as [[h b]|] eqn:E; [exfalso|reflexivity].
      destruct (i_true I _ _ _ E) as (y & Hy & Ey & _).
      pose proof (ng_range H HO s T si_n63 si_Tlo HT63 y Hy) as Hr. cbv beta in Hr. rewrite <- Ey in Hr.
      pose proof (UtilsGeom.pow2_pos T). pose proof (UtilsGeom.pow2_S T). lia.
    - intros j b Hj Hb E. destruct (posU_valid T rdN od HT63 si_rd si_od j b Hj Hb) as [A B].
      pose proof (gpos_range T _ _ A B) as Hr. unfold posU in E. rewrite <- E in Hr.
      pose proof (UtilsGeom.pow2_pos T). pose proof (UtilsGeom.pow2_S T). lia.
  Qed.

  Lemma si_above_root : J = 0%nat -> forall j, 1 <= j -> rdN + 1 + j <= T ->
    nodes_get nd3 (gpos T (rdN + 1 + j) (od / 2 / 2 ^ j)) = None.
  Proof.
    intros HJ j Hj1 Hj.
    assert (Hv : od / 2 / 2 ^ j < 2 ^ (T - (rdN + 1 + j))).
    { apply anc_valid; [lia|]. pose proof (bl_q T rdN od HT63 si_rd si_od) as Hq.
      replace (T - (rdN + 1)) with (T - rdN - 1) by lia. exact Hq. }
    rewrite (mo_out M).
    - destruct (nodes_get N0 (gpos T (rdN + 1 + j) (od / 2 / 2 ^ j))) as [[h b]|] eqn:E; [exfalso|reflexivity].
      destruct (i_true I _ _ _ E) as (y & Hy & Ey & _). destruct (si_valid y Hy) as [A B].
      unfold gp in Ey. destruct (gpos_inj T _ _ _ _ Hj Hv A B Ey) as [Er _].
      assert (Uy : under (coord y) (coord p)).
      { rewrite Ep. unfold under, coord. cbn [fst snd]. split; [lia|]. unfold p2.
        destruct (gpos_inj T _ _ _ _ Hj Hv A B Ey) as [_ Eo].
        rewrite <- Eo. f_equal. f_equal. lia. }
      pose proof (ng_same_tree H HO s y p Hy Hp Uy) as Et.
      pose proof (node_row_le_tree H HO s y Hy) as Hle. pose proof si_rd_tree. lia.
    - intros j' b' Hj' Hb' E. destruct (posU_valid T rdN od HT63 si_rd si_od j' b' Hj' Hb') as [A B].
      unfold posU in E. destruct (gpos_inj T _ _ _ _ Hj Hv A B E) as [Er _]. lia.
  Qed.

  Lemma si_parent_pos : Parent (gpx x) T = gpos T (rdN + 1) (od / 2) /\
                        DetectRow (gpos T (rdN + 1) (od / 2)) T = rdN + 1.
  Proof.
    pose proof si_rd as Hr. pose proof si_od as Ho. split.
    - cbv beta. unfold gp. apply Parent_gpos; [exact HT63|exact Hr|exact Ho].
    - apply DetectRow_gpos; [exact HT63|lia|].
      pose proof (bl_q T rdN od HT63 si_rd si_od) as Hq.
      replace (T - (rdN + 1)) with (T - rdN - 1) by lia. exact Hq.
  Qed.

  Lemma sum_all :
    (forall k, (1 <= k)%nat -> (k <= J)%nat -> nodes_get nd3 (apos k) <> None ->
               nodes_get nd4 (apos k) = Some (nh k, full)) /\
    (forall p', nodes_get nd3 p' = None -> nodes_get nd4 p' = None) /\
    (forall p', (forall k, (1 <= k)%nat -> (k <= J)%nat -> p' <> apos k) ->
                nodes_get nd4 p' = nodes_get nd3 p') /\
    NoDup (map fst nd4) /\
    (forall p', nodes_get nd3 p' <> None -> nodes_get nd4 p' <> None) /\
    (forall p' v, nodes_get nd4 p' = Some v ->
       (exists k, (1 <= k)%nat /\ (k <= J)%nat /\ p' = apos k /\ nodes_get nd3 p' <> None /\ v = (nh k, full)) \/
       (nodes_get nd3 p' = Some v /\ forall k, (1 <= k)%nat -> (k <= J)%nat -> p' <> apos k)).
  Proof.
    destruct si_parent_pos as [EP ER]. unfold updateHashes. cbv zeta. rewrite EP, ER.
    assert (Hq : od / 2 < 2 ^ (T - (rdN + 1))).
    { pose proof (bl_q T rdN od HT63 si_rd si_od) as Hq.
      replace (T - (rdN + 1)) with (T - rdN - 1) by lia. exact Hq. }
    pose proof si_rd as Hrd.
    destruct (Nat.eq_dec J 0) as [HJ|HJ].
    - rewrite (uh_above H HO n T full HT63 300 (rdN + 1) (od / 2) (nhash sb) nd3 ltac:(lia) Hq
                 (si_above_root HJ) si_garbage).
      split; [intros k A B; lia|]. split; [auto|]. split; [auto|]. split; [exact (mo_k1 M)|].
      split; [auto|].
      intros p' v E. right. split; [exact E|]. intros k A B. lia.
    - assert (HJT : rdN + 1 + N.of_nat J <= T).
      { destruct (chain_node J (le_n _)) as (y & Hy & Ey & _). destruct (coord_eq _ _ _ Ey) as [Er _].
        destruct (si_valid y Hy) as [A _]. lia. }
      assert (P5 : forall j, 1 <= j -> j < N.of_nat J ->
                isRootPositionTotalRows (anc T (rdN + 1) (od / 2) j) n T = false).
      { intros j A B. pose proof (apos_anc (N.to_nat j)) as Ea. rewrite N2Nat.id in Ea. rewrite Ea.
        destruct (chain_node (N.to_nat j) ltac:(lia)) as (y & Hy & Ey & _ & _ & Ry).
        rewrite <- (apos_node _ y Hy Ey), (si_isroot y Hy), Ry. apply Nat.eqb_neq. lia. }
      assert (P6 : isRootPositionTotalRows (anc T (rdN + 1) (od / 2) (N.of_nat J)) n T = true).
      { rewrite apos_anc. destruct (chain_node J (le_n _)) as (y & Hy & Ey & _ & _ & Ry).
        rewrite <- (apos_node _ y Hy Ey), (si_isroot y Hy), Ry. apply Nat.eqb_refl. }
      assert (P7 : forall j, j < N.of_nat J -> exists b,
                nodes_get nd3 (sibling (anc T (rdN + 1) (od / 2) j)) = Some (sh (N.to_nat j), b)).
      { intros j B. pose proof (apos_anc (N.to_nat j)) as Ea. rewrite N2Nat.id in Ea. rewrite Ea.
        destruct (chain_sib (N.to_nat j) ltac:(lia)) as (sk & Hsk & Esk & Hn1 & _ & b & Eb).
        exists b. destruct (coord_eq _ _ _ Esk) as [Er Eo].
        assert (Es : sibling (apos (N.to_nat j)) = gpx sk).
        { unfold apos, gp. rewrite sibling_gpos.
          - cbv beta. unfold gp. rewrite Er, Eo. reflexivity.
          - destruct (si_valid sk Hsk) as [A _]. rewrite Er in A. exact A. }
        rewrite Es, (si_out_get sk Hsk Hn1), Eb. f_equal. f_equal.
        unfold sh. rewrite <- Er, <- Eo, (tnode_in H HO s sk Hsk). reflexivity. }
      assert (P8 : forall j, j < N.of_nat J ->
                (fun j => nh (N.to_nat j)) (j + 1) =
                if N.even (od / 2 / 2 ^ j) then op_hash2 HO ((fun j => nh (N.to_nat j)) j) ((fun j => sh (N.to_nat j)) j)
                else op_hash2 HO ((fun j => sh (N.to_nat j)) j) ((fun j => nh (N.to_nat j)) j)).
      { intros j B. cbv beta. replace (N.to_nat (j + 1)) with (S (N.to_nat j)) by lia.
        rewrite (nh_rec (N.to_nat j)) by lia. unfold ao. rewrite N2Nat.id. reflexivity. }
      assert (E0 : nhash sb = (fun j => nh (N.to_nat j)) 0) by (symmetry; exact nh_0).
      rewrite E0.
      assert (HJ300 : N.of_nat J <= N.of_nat 300).
      { pose proof (node_tree_63 H HO s si_n63 x Hx). lia. }
      assert (HJ1 : 1 <= N.of_nat J) by lia.
      destruct (uh_chain H HO n T full HT63 300 (N.of_nat J) (rdN + 1) (od / 2)
                  (fun j => nh (N.to_nat j)) (fun j => sh (N.to_nat j)) nd3
                  HJ1 HJ300 HJT Hq P5 P6 P7 P8) as (U1 & U2 & U3 & U4).
      pose proof (uh_chain_src H HO n T full HT63 300 (N.of_nat J) (rdN + 1) (od / 2)
                  (fun j => nh (N.to_nat j)) (fun j => sh (N.to_nat j)) nd3
                  HJ1 HJ300 HJT Hq P5 P6 P7 P8) as U5.
      cbv beta in U1, U5.
      split; [|split; [|split; [|split; [|split]]]].
      + intros k A B Hs. rewrite <- apos_anc. rewrite U1; [rewrite Nat2N.id; reflexivity|lia|lia|].
        rewrite apos_anc. exact Hs.
      + exact U2.
      + intros p' Hp'. apply U3. intros j A B. pose proof (apos_anc (N.to_nat j)) as Ea.
        rewrite N2Nat.id in Ea. rewrite Ea. apply Hp'; lia.
      + apply U4. exact (mo_k1 M).
      + intros p' Hs.
        destruct (bounded_dec (fun j => p' = anc T (rdN + 1) (od / 2) j)
                    (fun j => match N.eq_dec p' (anc T (rdN + 1) (od / 2) j) with
                              | left e => or_introl e | right e => or_intror e end) (N.of_nat J))
          as [(j & A & B & ->)|Hno].
        * rewrite U1 by assumption. discriminate.
        * rewrite U3 by exact Hno. exact Hs.
      + intros p' v E. destruct (U5 p' v E) as [(j & A & B & Ej & Hs & Ev)|[E' Hno]].
        * left. exists (N.to_nat j). pose proof (apos_anc (N.to_nat j)) as Ea.
          rewrite N2Nat.id in Ea. rewrite Ea in Ej.
          repeat split; try assumption; lia.
        * right. split; [exact E'|]. intros k A B. rewrite <- apos_anc. apply Hno; lia.
  Qed.

  (** ** the surviving leaves *)
  Notation Rn' := (filter (fun h => negb (memH HO h L)) Rn).

  Lemma si_leaf_bottom w y : In w lay -> In y lay -> nleaf w = true -> under (coord w) (coord y) -> y = w.
  Proof. exact (ng_leaf_bottom H HO s T si_n63 si_Tlo HT63 w y). Qed.

  Lemma x_or_sb c : under Pc c -> c <> Pc -> under (coord x) c \/ under sbc c.
  Proof.
    intros U Hne. destruct c as [rc oc].
    assert (Hle : (rc <= rd)%nat).
    { destruct U as [Hr E]. cbn [fst snd] in *. destruct (Nat.eq_dec rc (S rd)) as [->|]; [|lia].
      exfalso. apply Hne. rewrite Nat.sub_diag, p2_0, N.div_1_r in E. congruence. }
    destruct (bl_sbo T rdN od HT63 si_rd si_od) as (_ & _ & [[E1 E2]|[E1 E2]]);
      destruct (under_split rd (od / 2) (rc, oc) U Hle) as [U'|U'].
    - left. unfold coord. rewrite <- E1 in U'. exact U'.
    - right. rewrite <- E2 in U'. exact U'.
    - right. rewrite <- E2 in U'. exact U'.
    - left. unfold coord. rewrite <- E1 in U'. exact U'.
  Qed.

  (** a surviving leaf lies below the sibling (and moves up) or away from the parent (and stays) *)
  Lemma leaf_class w : In w lay -> nleaf w = true -> memH HO (nhash w) L = false ->
    (under sbc (coord w) /\ In (upn H rd fl w) lay') \/
    (~ under Pc (coord w) /\ ~ under (coord w) Pc /\ In w lay').
  Proof.
    intros Hw Lw Hm. destruct (under_dec Pc (coord w)) as [U|Hn].
    - left. assert (Hne : coord w <> Pc).
      { intros E. rewrite <- Ep in E. rewrite (ng_coord_eq H HO s w p Hw Hp E) in Lw. congruence. }
      destruct (x_or_sb _ U Hne) as [Ux|Us].
      + apply (Hdel w Hw Lw) in Ux. congruence.
      + split; [exact Us|apply ref_sb; assumption].
    - right. assert (Hn2 : ~ under (coord w) Pc).
      { intros U. rewrite <- Ep in U. rewrite (si_leaf_bottom w p Hw Hp Lw U) in Hpl. congruence. }
      split; [exact Hn|]. split; [exact Hn2|apply ref_other; assumption].
  Qed.

  Definition img (w : node H) : node H :=
    if under_dec Pc (coord w) then upn H rd fl w else w.

  Lemma img_spec w : In w lay -> nleaf w = true -> memH HO (nhash w) L = false ->
    In (img w) lay' /\ nleaf (img w) = true /\ nhash (img w) = nhash w /\ ntree (img w) = ntree w.
  Proof.
    intros Hw Lw Hm. unfold img. destruct (leaf_class w Hw Lw Hm) as [[Us Hin]|(Hn & _ & Hin)].
    - destruct (under_dec Pc (coord w)) as [_|Hn]; [auto|].
      exfalso. apply Hn. exact (under_trans _ _ _ (proj1 (under_sib_par rd od)) Us).
    - destruct (under_dec Pc (coord w)) as [U|_]; [contradiction|auto].
  Qed.

  Lemma new_leaf y' : In y' lay' -> nleaf y' = true ->
    exists w, In w lay /\ nleaf w = true /\ memH HO (nhash w) L = false /\ nhash w = nhash y' /\ y' = img w.
  Proof.
    intros Hy' Ly'. pose proof (layout_leaf_live H HO s' y' Hy' Ly') as Hl.
    apply kill_live in Hl as [Hl Hm]. destruct (live_leaf_in_layout H HO s _ Hl) as (w & Hw & Lw & Ew).
    exists w. rewrite Ew. repeat split; try assumption. rewrite <- Ew in Hm.
    destruct (img_spec w Hw Lw Hm) as (A & B & C & _).
    apply (live_leaf_unique H HO s' y' (img w) (kill_nodup H HO L s (i_live_nd I)) Hy' A Ly' B). congruence.
  Qed.

  Lemma Rn'_spec h : In h Rn' <-> In h Rn /\ memH HO h L = false.
  Proof. rewrite filter_In. destruct (memH HO h L); cbn; intuition congruence. Qed.

  Lemma Rc_not_L h : In h Rc -> memH HO h L = false.
  Proof.
    intros Hh. destruct (live_leaf_in_layout H HO s h (i_Rn I h (i_sub I h Hh))) as (w & Hw & Lw & Ew).
    destruct (memH HO h L) eqn:Em; [exfalso|reflexivity]. rewrite <- Ew in Em.
    apply (Hdel w Hw Lw) in Em. apply (HLc w Hw Lw Em). rewrite Ew. exact Hh.
  Qed.

  (** positions of the images *)
  Lemma img_pos_sb w : In w lay -> under sbc (coord w) ->
    exists j b, j <= rdN /\ b < 2 ^ j /\ j = N.of_nat (rd - nrow w) /\
      gpx w = pS j b /\ gpx (upn H rd fl w) = pU j b.
  Proof.
    intros Hw U. destruct (cp_S T rd od HT63 si_rd si_od (nrow w) (noff w) U) as (j & b & A & B & C & D & E).
    exists j, b. repeat split; assumption.
  Qed.

  Lemma chain_pos_out k j b : (k <= J)%nat -> (1 <= k)%nat -> j <= rdN + 1 -> b < 2 ^ j -> apos k <> pU j b.
  Proof.
    intros Hk Hk1 Hj Hb. destruct (chain_node k Hk) as (y & Hy & Ey & _).
    rewrite <- (apos_node k y Hy Ey). apply (si_out y Hy); [|exact Hj|exact Hb].
    rewrite Ey. intros [Hle _]. cbn [fst] in Hle. lia.
  Qed.

  Lemma si_U_keep j b : j <= rdN + 1 -> b < 2 ^ j -> nodes_get nd4 (pU j b) = nodes_get nd3 (pU j b).
  Proof.
    intros Hj Hb. destruct sum_all as (_ & _ & S3 & _). apply S3.
    intros k A B E. symmetry in E. revert E. apply chain_pos_out; assumption.
  Qed.

  Lemma si_notroot : isRootPositionTotalRows (gpos T rdN od) n T = false.
  Proof. rewrite <- Hxr. exact (si_isroot x Hx). Qed.

  (** ** the clauses of the invariant after the moves and [updateHashes] *)
  Lemma st_true p' h b : nodes_get nd4 p' = Some (h, b) ->
    exists x', In x' lay' /\ p' = gpx x' /\ nhash x' = h.
  Proof.
    intros E. destruct sum_all as (_ & _ & _ & _ & _ & S5).
    destruct (S5 p' (h, b) E) as [(k & A & B & -> & _ & Ev)|[E3 Hno]].
    - injection Ev as -> _. destruct (new_node k B) as (y' & Hy' & Ey' & Eh & _).
      exists y'. split; [exact Hy'|]. split; [|exact Eh].
      destruct (coord_eq _ _ _ Ey') as [Er Eo]. cbv beta. unfold apos. rewrite Er, Eo. reflexivity.
    - destruct (moved_src H HO n T rdN od HT63 si_rd si_od N0 ca (nhash sb, bsb)
                  si_notroot si_uniq nd3 ca3 M p' (h, b) E3)
        as [[-> Ev]|[(j & c & Hj1 & Hj & Hc & -> & Es)|[E0 Hout]]].
      + injection Ev as -> _. exists (upn H rd fl sb).
        split; [apply ref_sb; [exact Hsb|rewrite Esb; apply under_refl]|]. split; [|reflexivity].
        destruct (coord_eq _ _ _ upn_coord_sb) as [Er Eo]. cbv beta. rewrite Er, Eo. unfold gp. f_equal. lia.
      + destruct (i_true I _ _ _ Es) as (y & Hy & Ey & Eh). destruct (si_valid y Hy) as [A B].
        unfold gp in Ey. symmetry in Ey.
        destruct (cp_S_inv T rd od HT63 si_rd si_od (nrow y) (noff y) j c A B ltac:(lia) Hc Ey) as [Uy _].
        exists (upn H rd fl y). split; [apply ref_sb; assumption|]. split; [|exact Eh].
        destruct (img_pos_sb y Hy Uy) as (j' & c' & Hj' & Hc' & _ & E1 & E2). cbv beta in *. rewrite E2.
        cbv beta in E1. unfold gp in E1. rewrite Ey in E1.
        destruct (N.eq_dec j j') as [<-|Hne].
        * rewrite (posS_inj T rdN od HT63 si_rd si_od j c c' ltac:(lia) Hc Hc' E1). reflexivity.
        * exfalso. exact (posS_row_neq T rdN od HT63 si_rd si_od j c j' c' ltac:(lia) Hc Hj' Hc' Hne E1).
      + destruct (i_true I _ _ _ E0) as (y & Hy & -> & Eh).
        assert (Hn1 : ~ under Pc (coord y)).
        { intros U. destruct (si_valid y Hy) as [A B].
          destruct (N.eq_dec 0 0) as [_|]; [|lia].
          assert (Hc : coord y = Pc \/ coord y <> Pc).
          { destruct (Nat.eq_dec (nrow y) (S rd)) as [Er|Er].
            - destruct (N.eq_dec (noff y) (od / 2)) as [Eo|Eo]; [left; unfold coord; congruence|].
              right. intros C. injection C as _ C. contradiction.
            - right. intros C. injection C as C _. contradiction. }
          destruct Hc as [Ec|Hne].
          - destruct (coord_eq _ _ _ Ec) as [Er Eo].
            apply (Hout 0 0); [lia|cbn; lia|]. cbv beta. rewrite Er, Eo. exact (cp_U0 T rd od HT63 si_rd si_od).
          - destruct (cp_U T rd od HT63 si_rd si_od (nrow y) (noff y) U Hne) as (j & c & Hj1 & Hj & Hc' & Ec).
            exact (Hout j c Hj Hc' Ec). }
        assert (Hn2 : ~ under (coord y) Pc).
        { intros U. destruct U as [Hle Eo]. unfold coord in Hle, Eo. cbn [fst snd] in Hle, Eo.
          pose proof (ng_same_tree H HO s y p Hy Hp ltac:(rewrite Ep; split; [exact Hle|exact Eo])) as Et.
          pose proof (node_row_le_tree H HO s y Hy) as Hrt.
          assert (Hk : (nrow y - S rd <= J)%nat) by lia.
          assert (Hk1 : (1 <= nrow y - S rd)%nat).
          { destruct (Nat.eq_dec (nrow y) (S rd)) as [Er|]; [|lia]. exfalso. apply Hn1.
            rewrite Er, Nat.sub_diag, p2_0, N.div_1_r in Eo. unfold coord. rewrite Er, <- Eo. apply under_refl. }
          apply (Hno (nrow y - S rd)%nat Hk1 Hk). cbv beta. unfold apos, ao. unfold p2 in Eo. rewrite Eo.
          f_equal. lia. }
        exists y. split; [apply ref_other; assumption|]. split; [reflexivity|exact Eh].
  Qed.

  Lemma sb_under_P c : under sbc c -> under Pc c.
  Proof. intros U. exact (under_trans _ _ _ (proj1 (under_sib_par rd od)) U). Qed.

  (** where the hash of a cached leaf is found after the moves *)
  Lemma cached_new h w : In h Rc -> In w lay -> nleaf w = true -> nhash w = h ->
    cached_get HO ca3 h = Some (gpx (img w)).
  Proof.
    intros Hh Hw Lw Ew. pose proof (Rc_not_L h Hh) as Hm. rewrite <- Ew in Hm.
    assert (Ec : cached_get HO ca h = Some (gpx w)).
    { apply (i_cached I). split; [exact Hh|]. exists w. auto. }
    assert (Es : nodes_get N0 (gpx w) = Some (h, true)).
    { rewrite <- Ew. apply (i_leaf I w Hw Lw). rewrite Ew. exact (i_sub I h Hh). }
    assert (Hhas : cached_has HO ca h = true) by (unfold cached_has; rewrite Ec; reflexivity).
    unfold img. destruct (leaf_class w Hw Lw Hm) as [[Us Hin]|(Hn & _ & Hin)].
    - destruct (under_dec Pc (coord w)) as [_|Hn]; [|exfalso; exact (Hn (sb_under_P _ Us))].
      destruct (img_pos_sb w Hw Us) as (j & b & Hj & Hb & _ & E1 & E2). cbv beta in *. rewrite E2.
      rewrite E1 in Es. exact (mo_cup M Hj Hb Es Hhas).
    - destruct (under_dec Pc (coord w)) as [U|_]; [contradiction|].
      rewrite (mo_cout M); [exact Ec|].
      intros j b v Hj Hb Ev Ef. destruct v as [hv bv]. cbn [fst] in Ef. subst hv.
      destruct (i_true I _ _ _ Ev) as (y & Hy & Ey & Eh). destruct (si_valid y Hy) as [A B].
      unfold gp in Ey. symmetry in Ey.
      destruct (cp_S_inv T rd od HT63 si_rd si_od (nrow y) (noff y) j b A B Hj Hb Ey) as [Uy _].
      rewrite (inv_leaf_hash H HO s Rc Rn m I y w Hy Hw Lw ltac:(congruence)) in Uy.
      exact (Hn (sb_under_P _ Uy)).
  Qed.

  Lemma st_cached h p' : cached_get HO ca3 h = Some p' <->
    In h Rc /\ exists x', In x' lay' /\ nleaf x' = true /\ nhash x' = h /\ p' = gpx x'.
  Proof.
    split.
    - intros E. assert (Hhas : cached_has HO ca h = true).
      { rewrite <- (mo_chas M). unfold cached_has. rewrite E. reflexivity. }
      apply (chas_get H HO) in Hhas. destruct (cached_get HO ca h) as [q|] eqn:Eq; [|congruence].
      apply (i_cached I) in Eq as (Hh & w & Hw & Lw & Ew & _). split; [exact Hh|].
      pose proof (Rc_not_L h Hh) as Hm. rewrite <- Ew in Hm.
      destruct (img_spec w Hw Lw Hm) as (A & B & C & _). exists (img w).
      rewrite (cached_new h w Hh Hw Lw Ew) in E. injection E as <-. repeat split; try assumption. congruence.
    - intros (Hh & x' & Hx' & Lx' & Ex' & ->).
      destruct (new_leaf x' Hx' Lx') as (w & Hw & Lw & Hm & Ew & ->).
      apply (cached_new h w Hh Hw Lw). congruence.
  Qed.

  Lemma sum_stored q : nodes_get nd3 q <> None -> nodes_get nd4 q <> None.
  Proof. destruct sum_all as (_ & _ & _ & _ & S & _). apply S. Qed.

  Lemma st_roots x' : In x' lay' -> nroot x' = true -> nodes_get nd4 (gpx x') <> None.
  Proof.
    intros Hx' Hr. destruct (kill_roots H HO L s x' Hx' Hr) as (y & Hy & Ry & Ec).
    destruct (coord_eq _ _ _ (eq_sym Ec)) as [Er Eo]. cbv beta. rewrite Er, Eo.
    change (nodes_get nd4 (gpx y) <> None). apply sum_stored.
    destruct (under_dec Pc (coord y)) as [U|Hn].
    - destruct (Nat.eq_dec (nrow y) (S rd)) as [E|E].
      + assert (Ey : coord y = Pc).
        { destruct U as [_ Eo']. unfold coord in *. cbn [fst snd] in *. rewrite E, Nat.sub_diag, p2_0, N.div_1_r in Eo'.
          congruence. }
        rewrite <- Ep in Ey. rewrite (ng_coord_eq H HO s y p Hy Hp Ey), si_gpx_p, (mo_par M). discriminate.
      + exfalso. assert (Hne : coord y <> Pc) by (intros C; injection C as C _; contradiction).
        destruct (x_or_sb _ U Hne) as [Ux|Us].
        * exact (ng_root_top H HO s T si_n63 si_Tlo HT63 x y Hx Hy Hxr Ry Ux).
        * rewrite <- Esb in Us. exact (ng_root_top H HO s T si_n63 si_Tlo HT63 sb y Hsb Hy Hsbr Ry Us).
    - rewrite (si_out_get y Hy Hn). exact (i_roots I y Hy Ry).
  Qed.

  Lemma st_leaf x' : In x' lay' -> nleaf x' = true -> In (nhash x') Rn' ->
    nodes_get nd4 (gpx x') = Some (nhash x', true).
  Proof.
    intros Hx' Lx' Hh. apply Rn'_spec in Hh as [Hh _].
    destruct (new_leaf x' Hx' Lx') as (w & Hw & Lw & Hm & Ew & ->). rewrite <- Ew in *.
    pose proof (i_leaf I w Hw Lw Hh) as Es.
    destruct sum_all as (_ & _ & S3 & _).
    unfold img. destruct (leaf_class w Hw Lw Hm) as [[Us Hin]|(Hn & _ & Hin)].
    - destruct (under_dec Pc (coord w)) as [_|Hn]; [|exfalso; exact (Hn (sb_under_P _ Us))].
      destruct (img_pos_sb w Hw Us) as (j & b & Hj & Hb & Ej & E1 & E2). cbv beta in *. rewrite E2.
      rewrite si_U_keep by (try assumption; lia). rewrite E1 in Es.
      destruct (N.eq_dec j 0) as [->|Hj0].
      + assert (b = 0) by (cbn in Hb; lia). subst b.
        rewrite (rs_pU0 T rdN od), (mo_par M). rewrite (rs_pS0 T rdN od) in Es.
        rewrite <- si_gpx_sb, Hvsb in Es. exact Es.
      + rewrite (mo_up M) by (try assumption; lia). exact Es.
    - destruct (under_dec Pc (coord w)) as [U|_]; [contradiction|].
      rewrite S3; [rewrite (si_out_get w Hw Hn); exact Es|].
      intros k A B E. destruct (chain_node k B) as (y & Hy & Ey & _ & Ly & _).
      rewrite <- (apos_node k y Hy Ey) in E. rewrite (si_inj w y Hw Hy E) in Lw. congruence.
  Qed.

  Lemma under_anc (w : node H) (k : nat) : under ((nrow w + k)%nat, noff w / 2 ^ N.of_nat k) (coord w).
  Proof. split; cbn [fst snd]; [unfold coord; cbn; lia|]. unfold coord, p2. cbn [fst snd]. f_equal. f_equal. lia. Qed.

  Lemma st_sibs x' : In x' lay' -> nleaf x' = true -> In (nhash x') Rn' ->
    forall k : nat, (nrow x' + k < ntree x')%nat ->
    nodes_get nd4 (gp T (nrow x' + k) (N.lxor (noff x' / 2 ^ N.of_nat k) 1)) <> None.
  Proof.
    intros Hx' Lx' Hh k Hk. apply Rn'_spec in Hh as [Hh _].
    destruct (new_leaf x' Hx' Lx') as (w & Hw & Lw & Hm & Ew & ->). rewrite <- Ew in Hh.
    destruct (img_spec w Hw Lw Hm) as (_ & _ & _ & Et). rewrite Et in Hk.
    apply sum_stored. revert Hk. unfold img.
    destruct (leaf_class w Hw Lw Hm) as [[Us Hin]|(Hn & _ & Hin)].
    - destruct (under_dec Pc (coord w)) as [_|Hn]; [|exfalso; exact (Hn (sb_under_P _ Us))].
      unfold upn. cbn [nrow noff]. intros Hk.
      assert (Et' : ntree w = ntree x).
      { rewrite <- Ets. apply (ng_same_tree H HO s sb w Hsb Hw). rewrite Esb. exact Us. }
      destruct (under_decomp _ _ Us) as [Eo Hb]. destruct Us as [Hr _]. unfold coord in Hr, Eo, Hb.
      cbn [fst snd] in Hr, Eo, Hb.
      set (jn := (rd - nrow w)%nat) in *. set (b := noff w mod 2 ^ N.of_nat jn) in *. clearbody b.
      assert (Erm : rmbit (noff w) (N.of_nat jn) = od / 2 * 2 ^ N.of_nat jn + b).
      { rewrite Eo at 1. rewrite rmbit_block by exact Hb.
        destruct (bl_sbo T rdN od HT63 si_rd si_od) as (_ & -> & _). reflexivity. }
      rewrite Erm. pose proof si_rd as Hrd. pose proof si_rd_tree as Hrt.
      destruct (Nat.lt_ge_cases k jn) as [Hlt|Hge].
      + (* below the parent: the moved sibling of the ancestor *)
        destruct (block_div (od / 2) (N.of_nat jn) b (N.of_nat k) Hb ltac:(lia)) as [D1 D2].
        destruct (block_lxor (od / 2) (N.of_nat jn - N.of_nat k) (b / 2 ^ N.of_nat k) ltac:(lia) D2) as [X1 X2].
        rewrite D1, X1.
        destruct (block_div (N.lxor od 1) (N.of_nat jn) b (N.of_nat k) Hb ltac:(lia)) as [D1' _].
        destruct (block_lxor (N.lxor od 1) (N.of_nat jn - N.of_nat k) (b / 2 ^ N.of_nat k) ltac:(lia) D2) as [X1' _].
        pose proof (i_sibs I w Hw Lw Hh k ltac:(lia)) as Hs.
        rewrite Eo, D1', X1' in Hs.
        set (j' := N.of_nat jn - N.of_nat k) in *. set (c' := N.lxor (b / 2 ^ N.of_nat k) 1) in *.
        assert (EU : gp T (S (nrow w) + k) (od / 2 * 2 ^ j' + c') = pU j' c').
        { unfold gp, posU. f_equal. lia. }
        assert (ES : gp T (nrow w + k) (N.lxor od 1 * 2 ^ j' + c') = pS j' c').
        { unfold gp, posS. f_equal. lia. }
        rewrite EU. rewrite ES in Hs. rewrite (mo_up M) by (try assumption; lia). exact Hs.
      + (* at or above the parent: the sibling of an ancestor of the parent *)
        rewrite (block_div_hi (od / 2) (N.of_nat jn) b (N.of_nat k) Hb ltac:(lia)).
        assert (Hk' : (k - jn < J)%nat) by lia.
        destruct (chain_sib (k - jn) Hk') as (sk & Hsk & Esk & Hn1 & _ & bk & Ebk).
        destruct (coord_eq _ _ _ Esk) as [Er Eo'].
        assert (Eg : gp T (S (nrow w) + k) (N.lxor (od / 2 / 2 ^ (N.of_nat k - N.of_nat jn)) 1) = gpx sk).
        { cbv beta. rewrite Er, Eo'. unfold ao. f_equal; [lia|]. f_equal. f_equal. f_equal. lia. }
        rewrite Eg, (si_out_get sk Hsk Hn1), Ebk. discriminate.
    - destruct (under_dec Pc (coord w)) as [U|_]; [contradiction|]. intros Hk.
      pose proof (i_sibs I w Hw Lw Hh k Hk) as Hs.
      set (c := gp T (nrow w + k) (N.lxor (noff w / 2 ^ N.of_nat k) 1)) in *.
      destruct (nodes_get N0 c) as [[hs bs]|] eqn:Ec; [clear Hs|congruence].
      destruct (i_true I _ _ _ Ec) as (sk & Hsk & Esk & _).
      (* the coordinates of [sk] *)
      destruct (si_valid w Hw) as [Aw Bw]. destruct (si_valid sk Hsk) as [As Bs].
      pose proof (node_tree_63 H HO s si_n63 w Hw) as H63.
      assert (HrT : N.of_nat (nrow w + k) < T).
      { destruct (ng_ancestor H HO s T si_n63 si_Tlo HT63 w Hw (S k) ltac:(lia)) as (y & Hy & Ey & _).
        destruct (coord_eq _ _ _ Ey) as [Er _]. destruct (si_valid y Hy) as [A _]. lia. }
      assert (Hv : noff w / 2 ^ N.of_nat k < 2 ^ (T - N.of_nat (nrow w + k))).
      { rewrite Nat2N.inj_add. apply anc_valid; [lia|exact Bw]. }
      destruct (sib_offsets_lt T _ _ HrT Hv) as (Hvs & _).
      unfold c, gp in Esk.
      destruct (gpos_inj T _ _ _ _ (N.lt_le_incl _ _ HrT) Hvs As Bs Esk) as [Er Eo].
      destruct (under_dec Pc (coord sk)) as [U|Hn'].
      + destruct (Nat.eq_dec (nrow sk) (S rd)) as [E|E].
        * assert (Ey : coord sk = coord p).
          { rewrite Ep. destruct U as [_ Eo']. unfold coord in *. cbn [fst snd] in *.
            rewrite E, Nat.sub_diag, p2_0, N.div_1_r in Eo'. congruence. }
          rewrite (ng_coord_eq H HO s sk p Hsk Hp Ey) in Esk. unfold c, gp. rewrite Esk.
          fold (gp T (nrow p) (noff p)). rewrite si_gpx_p, (mo_par M). discriminate.
        * exfalso. apply Hn.
          assert (Hlt : (nrow sk < S rd)%nat) by (destruct U as [Hle _]; unfold coord in Hle; cbn in Hle; lia).
          pose proof (under_sib Pc (nrow sk) (noff sk) U Hlt) as U2.
          rewrite <- Eo, pps_lxor_invol in U2.
          replace (nrow sk) with (nrow w + k)%nat in U2 by lia.
          exact (under_trans _ _ _ U2 (under_anc w k)).
      + assert (Ecs : c = gpx sk) by (unfold c, gp; exact Esk).
        rewrite Ecs, (si_out_get sk Hsk Hn'), <- Ecs, Ec. discriminate.
  Qed.

  Theorem st_Inv : Inv2 HO s' Rc Rn' (mkM nd4 ca3 n T full).
  Proof.
    constructor; cbn [ms_n ms_total ms_nodes ms_cached].
    - unfold num_leaves. rewrite (length_kill H HO L s). exact (i_n I).
    - exact (i_n63 I).
    - exact (i_rows I).
    - exact HT63.
    - exact (kill_nodup H HO L s (i_live_nd I)).
    - intros h a b Hin. apply kill_live in Hin as [Hin _]. exact (i_live_nn I h a b Hin).
    - intros h Hin. apply kill_live in Hin as [Hin _]. exact (i_live_nz I h Hin).
    - destruct sum_all as (_ & _ & _ & K & _). exact K.
    - exact (mo_k2 M).
    - exact st_true.
    - intros h Hh. apply Rn'_spec in Hh as [Hh Hm]. apply kill_live. split; [exact (i_Rn I h Hh)|exact Hm].
    - intros h Hh. apply Rn'_spec. split; [exact (i_sub I h Hh)|exact (Rc_not_L h Hh)].
    - exact st_cached.
    - exact st_roots.
    - exact st_leaf.
    - exact st_sibs.
  Qed.
  (** ** ... and after [forgetUnneededDel] *)
  Theorem st_fud :
    Inv2 HO s' Rc Rn' (mkM (forgetUnneededDel HO n T (gp T (nrow x) (noff x)) nd4) ca3 n T full).
  Proof.
    pose proof st_Inv as I4. set (N4 := nd4) in *. clearbody N4.
    assert (Hy0 : In (upn H rd fl sb) lay') by (apply ref_sb; [exact Hsb|rewrite Esb; apply under_refl]).
    destruct (coord_eq _ _ _ upn_coord_sb) as [Er0 Eo0].
    assert (Eg0 : gp T (nrow (upn H rd fl sb)) (noff (upn H rd fl sb)) = gpos T (rdN + 1) (od / 2)).
    { rewrite Er0, Eo0. unfold gp. f_equal. lia. }
    exact (fud_from_del H HO s' Rc Rn' N4 ca3 n T full rdN od (upn H rd fl sb)
             I4 Hy0 si_rd si_od Eg0 si_notroot).
  Qed.
End StepInner.
(** * 13. [removeSingle] deletes the subtree below a node *)
Section RemoveSingleInv.
  Variable H : Type.
  Variable HO : ops H.
  Hypothesis HOK : ops_ok HO.

  (** the node is no root: its sibling moves up *)
  Theorem removeSingle_inner s Rc Rn m L x z : Inv2 HO s Rc Rn m ->
    In x (layout HO s) -> nroot x = false ->
    (forall y, In y (layout HO s) -> nleaf y = true ->
               (memH HO (nhash y) L = true <-> under (coord x) (coord y))) ->
    (forall y, In y (layout HO s) -> nleaf y = true -> under (coord x) (coord y) -> ~ In (nhash y) Rc) ->
    In z (layout HO s) -> nleaf z = true -> under (coord x) (coord z) -> In (nhash z) Rn ->
    exists nd' ca',
      removeSingle HO (ms_n m) (ms_total m) (ms_full m) (gp (ms_total m) (nrow x) (noff x))
        (ms_nodes m, ms_cached m) = (nd', ca') /\
      Inv2 HO (kill HO L s) Rc (filter (fun h => negb (memH HO h L)) Rn)
        (mkM nd' ca' (ms_n m) (ms_total m) (ms_full m)).
  Proof.
    intros I Hx Hxr Hdel HLc Hz Lz Uz Rz.
    destruct (ng_family H HO s x Hx Hxr) as (p & sb & Hp & Hsb & Hsbr & Hpl & Esb & Ep & Etp & Ets & _).
    pose proof (si_rd H HO s Rc Rn m I L x Hx Hxr Hdel HLc z Lz) as Hrd.
    pose proof (si_od H HO s Rc Rn m I x Hx) as Hod.
    pose proof (si_rd_tree H HO s Rc Rn m I x Hx Hxr) as Hrt.
    pose proof (si_sib_stored H HO s Rc Rn m I L x Hx Hxr Hdel HLc z Hz Lz Uz Rz 0 ltac:(lia)) as Hs.
    rewrite Nat.add_0_r in Hs. cbn [N.of_nat] in Hs. rewrite N.pow_0_r, N.div_1_r in Hs.
    destruct (coord_eq _ _ _ Esb) as [Esr Eso].
    assert (Eg : gp (ms_total m) (nrow x) (N.lxor (noff x) 1) = gp (ms_total m) (nrow sb) (noff sb))
      by (rewrite Esr, Eso; reflexivity).
    rewrite Eg in Hs.
    destruct (nodes_get (ms_nodes m) (gp (ms_total m) (nrow sb) (noff sb))) as [[h b]|] eqn:Evs; [clear Hs|congruence].
    pose proof (si_stored_node H HO s Rc Rn m I sb (h, b) Hsb Evs) as Eh. cbn [fst] in Eh. subst h.
    assert (Evs' : nodes_get (ms_nodes m) (gpos (ms_total m) (N.of_nat (nrow x)) (N.lxor (noff x) 1))
                   = Some (nhash sb, b)).
    { rewrite <- Evs. unfold gp. rewrite Esr, Eso. reflexivity. }
    destruct (removeSingle_moves H HO HOK (ms_n m) (ms_total m) (N.of_nat (nrow x)) (noff x) (ms_full m)
                (i_T63 I) Hrd Hod (ms_nodes m) (ms_cached m) (nhash sb, b) (i_keys I) (i_ckeys I)
                (si_notroot H HO s Rc Rn m I x Hx Hxr) Evs' (si_uniq H HO s Rc Rn m I))
      as (nd3 & ca3 & M & Eq).
    eexists. exists ca3. split; [exact Eq|]. cbn [fst].
    exact (st_fud H HO s Rc Rn m I L x Hx Hxr Hdel HLc z Hz Lz Uz Rz p sb Hp Hsb Hsbr Hpl Esb Ep Etp Ets
             b nd3 ca3 Evs M).
  Qed.
End RemoveSingleInv.

(** * 14. [removeSingle] on a root: the tree becomes an empty root *)
Section TreeRoot.
  Variable H : Type.
  Variable HO : ops H.
  Variable s : slots H.

  (** every node of a tree lies below its root *)
  Lemma ng_tree_root x y : In x (layout HO s) -> In y (layout HO s) -> nroot x = true ->
    ntree y = ntree x -> under (coord x) (coord y).
  Proof.
    intros Hx Hy Rx Et.
    destruct (root_node_conv H HO s x Hx Rx) as (k & lo & t & He & Er & Eo & _ & Etx).
    destruct (layout_entry H HO s y Hy) as (k2 & lo2 & t2 & He2 & Hye).
    assert (Ek : k2 = k).
    { cbn [place_entry] in Hye. destruct t2 as [c|].
      - rewrite <- (place_tree_ntree H _ _ _ _ _ _ Hye). congruence.
      - destruct Hye as [<-|[]]. cbn [ntree] in Et. congruence. }
    subst k2. destruct (forest_entry_unique H HO s _ _ _ _ _ He He2) as [<- <-].
    pose proof (forest_entry H HO s _ _ _ He) as (_ & _ & E2 & _).
    rewrite (place_entry_eq H HO k lo t _ E2) in Hye.
    assert (Eq : noff x = 2 * (N.of_nat (length s) / p2 (S k))).
    { rewrite Eo. fold (p2 k). rewrite E2 at 1. apply N.div_mul. pose proof (p2_pos k). lia. }
    unfold coord at 1. rewrite Er, Eq. destruct t as [c|].
    - apply inrange_under, (place_tree_range H _ _ _ _ _ _ Hye).
    - destruct Hye as [<-|[]]. unfold coord. cbn [nrow noff]. apply under_refl.
  Qed.
End TreeRoot.

Section StepRoot.
  Variable H : Type.
  Variable HO : ops H.
  Hypothesis HOK : ops_ok HO.
  Variable s : slots H.
  Variables Rc Rn : list H.
  Variable m : mstate H.
  Hypothesis I : Inv2 HO s Rc Rn m.
  Variable L : list H.
  Variable x : node H.
  Hypothesis Hx : In x (layout HO s).
  Hypothesis Hxr : nroot x = true.
  Hypothesis Hdel : forall y, In y (layout HO s) -> nleaf y = true ->
    (memH HO (nhash y) L = true <-> under (coord x) (coord y)).
  Hypothesis HLc : forall y, In y (layout HO s) -> nleaf y = true -> under (coord x) (coord y) ->
    ~ In (nhash y) Rc.

  Notation lay := (layout HO s).
  Notation s' := (kill HO L s).
  Notation lay' := (layout HO (kill HO L s)).
  Notation T := (ms_total m).
  Notation n := (ms_n m).
  Notation N0 := (ms_nodes m).
  Notation ca := (ms_cached m).
  Notation gpx := (fun y : node H => gp (ms_total m) (nrow y) (noff y)).
  Notation rd := (nrow x).
  Notation od := (noff x).
  Notation rdN := (N.of_nat (nrow x)).
  Notation Rn' := (filter (fun h => negb (memH HO h L)) Rn).
  Notation del := (gp (ms_total m) (nrow x) (noff x)).
  Notation nd0 := (forgetBelow (ms_total m) (gp (ms_total m) (nrow x) (noff x)) (ms_nodes m)).
  Notation nd' := (nodes_put (gp (ms_total m) (nrow x) (noff x)) (op_empty HO, ms_full m)
                     (forgetBelow (ms_total m) (gp (ms_total m) (nrow x) (noff x)) (ms_nodes m))).
  Notation er := (mkNode (nrow x) (noff x) (op_empty HO) false true (nrow x)).

  Lemma sr_n63 : N.of_nat (length s) <= 2 ^ 63. Proof. exact (pi_n63 H HO s Rc Rn m I). Qed.
  Lemma sr_Tlo : TreeRows (N.of_nat (length s)) <= T. Proof. exact (pi_Tlo H HO s Rc Rn m I). Qed.
  Lemma sr_valid y : In y lay -> N.of_nat (nrow y) <= T /\ noff y < 2 ^ (T - N.of_nat (nrow y)).
  Proof. exact (ng_valid H HO s T sr_n63 sr_Tlo (i_T63 I) y). Qed.
  Lemma sr_inj y y' : In y lay -> In y' lay -> gpx y = gpx y' -> y = y'.
  Proof. exact (ng_inj H HO s T sr_n63 sr_Tlo (i_T63 I) y y'). Qed.

  Lemma sr_er : In er lay'. Proof. exact (proj1 (kill_root H HO s L x Hx Hdel Hxr)). Qed.
  Lemma sr_keep y : In y lay -> ~ under (coord x) (coord y) -> In y lay'.
  Proof. exact (proj2 (kill_root H HO s L x Hx Hdel Hxr) y). Qed.

  (** the node map after the deletion *)
  Lemma sr_get y : In y lay -> ~ under (coord x) (coord y) ->
    nodes_get nd' (gp T (nrow y) (noff y)) = nodes_get N0 (gp T (nrow y) (noff y)).
  Proof.
    intros Hy Hn. destruct (sr_valid x Hx) as [A B].
    destruct (forgetBelow_spec H T (i_T63 I) rdN od N0 A B) as (_ & B2 & _).
    rewrite rg_put. destruct (N.eqb_spec (gpx y) del) as [E|_].
    - exfalso. apply Hn. rewrite (sr_inj y x Hy Hx E). apply under_refl.
    - destruct (B2 (gpx y)) as [E|[_ (j & b & Hj1 & Hj & Hb & E)]]; [exact E|exfalso].
      apply Hn. destruct (sr_valid y Hy) as [C D]. cbv beta in E. unfold gp in E.
      assert (Hjv : rdN - j <= T) by lia.
      assert (Hbv : od * 2 ^ j + b < 2 ^ (T - (rdN - j))).
      { replace (T - (rdN - j)) with (T - rdN + j) by lia. rewrite N.pow_add_r.
        assert ((od + 1) * 2 ^ j <= 2 ^ (T - rdN) * 2 ^ j) by (apply N.mul_le_mono_r; lia). lia. }
      destruct (gpos_inj T _ _ _ _ C D Hjv Hbv E) as [Er Eo].
      apply (under_compose (coord x) (coord y) b); unfold coord; cbn [fst snd]; [lia| |].
      + rewrite Eo. f_equal. f_equal. f_equal. lia.
      + replace (N.of_nat (rd - nrow y)) with j by lia. exact Hb.
  Qed.

  Lemma sr_src p' v : nodes_get nd' p' = Some v ->
    (p' = del /\ v = (op_empty HO, ms_full m)) \/
    (exists y, In y lay /\ ~ under (coord x) (coord y) /\ p' = gp T (nrow y) (noff y) /\ nodes_get N0 p' = Some v).
  Proof.
    intros E. rewrite rg_put in E. destruct (N.eqb_spec p' del) as [->|Hne].
    - left. split; [reflexivity|]. injection E as <-. reflexivity.
    - right. destruct (sr_valid x Hx) as [A B].
      destruct (forgetBelow_spec H T (i_T63 I) rdN od N0 A B) as (B1 & B2 & _).
      change (gp T rd od) with (gpos T rdN od) in E.
      destruct (B2 p') as [E'|[E' _]]; [|congruence]. rewrite E' in E.
      destruct v as [h b]. destruct (i_true I _ _ _ E) as (y & Hy & -> & _).
      exists y. split; [exact Hy|]. split; [|auto]. intros U.
      destruct (Nat.eq_dec (nrow y) rd) as [Er|Er].
      + apply Hne. destruct U as [_ Eo]. unfold coord in Eo. cbn [fst snd] in Eo.
        rewrite Er, Nat.sub_diag, p2_0, N.div_1_r in Eo. cbv beta. rewrite Er, Eo. reflexivity.
      + destruct (under_decomp _ _ U) as [Eo Hb]. destruct U as [Hr _]. unfold coord in *. cbn [fst snd] in *.
        assert (Hbl : below T rdN od (gpx y)).
        { exists (N.of_nat (rd - nrow y)), (noff y mod 2 ^ N.of_nat (rd - nrow y)).
          split; [lia|]. split; [lia|]. split; [exact Hb|]. cbv beta. unfold gp. f_equal; [lia|exact Eo]. }
        rewrite (B1 _ Hbl) in E'. rewrite <- E' in E. discriminate.
  Qed.

  Lemma sr_root_only y : In y lay -> nroot y = true -> under (coord x) (coord y) -> y = x.
  Proof.
    intros Hy Ry U. pose proof (ng_same_tree H HO s x y Hx Hy U) as Et.
    apply (root_iff_row H HO s y Hy) in Ry. pose proof Hxr as Rx. apply (root_iff_row H HO s x Hx) in Rx.
    destruct U as [Hr Eo]. unfold coord in *. cbn [fst snd] in *.
    assert (Er : nrow y = rd) by lia. rewrite Er, Nat.sub_diag, p2_0, N.div_1_r in Eo.
    apply (ng_coord_eq H HO s y x Hy Hx). unfold coord. congruence.
  Qed.

  Lemma sr_leaf_keep w : In w lay -> nleaf w = true -> memH HO (nhash w) L = false ->
    ~ under (coord x) (coord w) /\ In w lay'.
  Proof.
    intros Hw Lw Hm. assert (Hn : ~ under (coord x) (coord w)).
    { intros U. apply (Hdel w Hw Lw) in U. congruence. }
    split; [exact Hn|exact (sr_keep w Hw Hn)].
  Qed.

  Lemma sr_new_leaf y' : In y' lay' -> nleaf y' = true ->
    In y' lay /\ memH HO (nhash y') L = false /\ ~ under (coord x) (coord y').
  Proof.
    intros Hy' Ly'. pose proof (layout_leaf_live H HO s' y' Hy' Ly') as Hl.
    apply kill_live in Hl as [Hl Hm]. destruct (live_leaf_in_layout H HO s _ Hl) as (w & Hw & Lw & Ew).
    rewrite <- Ew in Hm. destruct (sr_leaf_keep w Hw Lw Hm) as [Hn Hw'].
    assert (y' = w).
    { apply (live_leaf_unique H HO s' y' w (kill_nodup H HO L s (i_live_nd I)) Hy' Hw' Ly' Lw). congruence. }
    subst y'. auto.
  Qed.

  Lemma sr_Rc_not_L h : In h Rc -> memH HO h L = false.
  Proof.
    intros Hh. destruct (live_leaf_in_layout H HO s h (i_Rn I h (i_sub I h Hh))) as (w & Hw & Lw & Ew).
    destruct (memH HO h L) eqn:Em; [exfalso|reflexivity]. rewrite <- Ew in Em.
    apply (Hdel w Hw Lw) in Em. apply (HLc w Hw Lw Em). rewrite Ew. exact Hh.
  Qed.

  Theorem sr_Inv : Inv2 HO s' Rc Rn' (mkM nd' ca n T (ms_full m)).
  Proof.
    constructor; cbn [ms_n ms_total ms_nodes ms_cached].
    - unfold num_leaves. rewrite (length_kill H HO L s). exact (i_n I).
    - exact (i_n63 I).
    - exact (i_rows I).
    - exact (i_T63 I).
    - exact (kill_nodup H HO L s (i_live_nd I)).
    - intros h a b Hin. apply kill_live in Hin as [Hin _]. exact (i_live_nn I h a b Hin).
    - intros h Hin. apply kill_live in Hin as [Hin _]. exact (i_live_nz I h Hin).
    - apply keys_put. destruct (sr_valid x Hx) as [A B].
      destruct (forgetBelow_spec H T (i_T63 I) rdN od N0 A B) as (_ & _ & B3). apply B3, (i_keys I).
    - exact (i_ckeys I).
    - intros p' h b E. destruct (sr_src p' (h, b) E) as [[-> Ev]|(y & Hy & Hn & -> & E0)].
      + injection Ev as -> _. exists er. split; [exact sr_er|]. split; reflexivity.
      + exists y. split; [exact (sr_keep y Hy Hn)|]. split; [reflexivity|].
        pose proof (si_stored_node H HO s Rc Rn m I y (h, b) Hy E0) as Eh. symmetry. exact Eh.
    - intros h Hh. apply filter_In in Hh as [Hh Hm]. apply kill_live. split; [exact (i_Rn I h Hh)|].
      destruct (memH HO h L); [discriminate|reflexivity].
    - intros h Hh. apply filter_In. split; [exact (i_sub I h Hh)|]. rewrite (sr_Rc_not_L h Hh). reflexivity.
    - intros h p'. rewrite (i_cached I). split.
      + intros (Hh & w & Hw & Lw & Ew & ->). split; [exact Hh|]. exists w.
        pose proof (sr_Rc_not_L h Hh) as Hm. rewrite <- Ew in Hm.
        destruct (sr_leaf_keep w Hw Lw Hm) as [_ Hw']. auto.
      + intros (Hh & y' & Hy' & Ly' & Ey' & ->). split; [exact Hh|]. exists y'.
        destruct (sr_new_leaf y' Hy' Ly') as (Hy & _ & _). auto.
    - intros x' Hx' Rx'. destruct (kill_roots H HO L s x' Hx' Rx') as (y & Hy & Ry & Ec).
      destruct (coord_eq _ _ _ (eq_sym Ec)) as [Er Eo]. rewrite Er, Eo.
      destruct (under_dec (coord x) (coord y)) as [U|Hn].
      + rewrite (sr_root_only y Hy Ry U). rewrite rg_put, N.eqb_refl. discriminate.
      + rewrite (sr_get y Hy Hn). exact (i_roots I y Hy Ry).
    - intros x' Hx' Lx' Hh. apply filter_In in Hh as [Hh _].
      destruct (sr_new_leaf x' Hx' Lx') as (Hy & _ & Hn).
      rewrite (sr_get x' Hy Hn).
      exact (i_leaf I x' Hy Lx' Hh).
    - intros x' Hx' Lx' Hh k Hk. apply filter_In in Hh as [Hh _].
      destruct (sr_new_leaf x' Hx' Lx') as (Hw & _ & Hn).
      pose proof (i_sibs I x' Hw Lx' Hh k Hk) as Hs.
      destruct (ng_ancestor H HO s T sr_n63 sr_Tlo (i_T63 I) x' Hw k ltac:(lia)) as (a & Ha & Ea & Eta & _).
      destruct (coord_eq _ _ _ Ea) as [Ear Eao].
      assert (Hnr : nroot a = false) by (apply (nonroot_iff_row H HO s sr_n63 a Ha); lia).
      destruct (ng_family H HO s a Ha Hnr) as (pa & sk & _ & Hsk & _ & _ & Esk & _ & _ & Ets & _).
      destruct (coord_eq _ _ _ Esk) as [Esr Eso].
      assert (Eg : gp T (nrow x' + k) (N.lxor (noff x' / 2 ^ N.of_nat k) 1) = gp T (nrow sk) (noff sk)).
      { rewrite Esr, Eso, Ear, Eao. reflexivity. }
      rewrite Eg in Hs |- *. rewrite sr_get; [exact Hs|exact Hsk|].
      intros U. apply Hn. apply (ng_tree_root H HO s x x' Hx Hw Hxr).
      rewrite <- (ng_same_tree H HO s x sk Hx Hsk U). congruence.
  Qed.
End StepRoot.
(** * 15. [remove]: un-caching, and one [removeSingle] for the subtree below a node *)
Section RemoveNode.
  Variable H : Type.
  Variable HO : ops H.
  Hypothesis HOK : ops_ok HO.

  Notation keep L := (fun h => negb (memH HO h L)).

  (** [uncacheLeaves] *)
  Lemma uncache_Inv2 L : forall s Rc Rn nd ca n T full, Inv2 HO s Rc Rn (mkM nd ca n T full) ->
    Inv2 HO s (filter (keep L) Rc) Rn
      (mkM nd (fold_left (fun c h => cached_del HO h c) L ca) n T full).
  Proof.
    induction L as [|d L IH]; intros s Rc Rn nd ca n T full I.
    - cbn [fold_left]. replace (filter (keep []) Rc) with Rc; [exact I|].
      clear. induction Rc as [|h Rc IHR]; [reflexivity|]. cbn [filter memH negb]. f_equal. exact IHR.
    - cbn [fold_left].
      assert (I1 : Inv2 HO s (filter (fun h => negb (op_eqb HO h d)) Rc) Rn
                     (mkM nd (cached_del HO d ca) n T full)).
      { constructor; cbn [ms_n ms_total ms_nodes ms_cached];
          try exact (i_n I); try exact (i_n63 I); try exact (i_rows I); try exact (i_T63 I);
          try exact (i_live_nd I); try exact (i_live_nn I); try exact (i_live_nz I);
          try exact (i_keys I); try exact (i_true I); try exact (i_Rn I); try exact (i_roots I);
          try exact (i_leaf I); try exact (i_sibs I).
        - apply ckeys_del, (i_ckeys I).
        - intros h Hh. apply filter_In in Hh as [Hh _]. exact (i_sub I h Hh).
        - intros h p. rewrite (cg_del H HO HOK). rewrite filter_In.
          destruct (op_eqb HO h d) eqn:E; cbn [negb].
          + split; [discriminate|]. intros [[_ C] _]. discriminate.
          + pose proof (i_cached I h p) as Hc. cbn [ms_cached ms_total] in Hc. rewrite Hc. tauto. }
      specialize (IH s _ Rn nd _ n T full I1).
      replace (filter (keep (d :: L)) Rc) with (filter (keep L) (filter (fun h => negb (op_eqb HO h d)) Rc)); [exact IH|].
      clear. induction Rc as [|h Rc IHR]; [reflexivity|]. cbn [filter memH].
      destruct (op_eqb HO h d); cbn [negb orb filter]; [exact IHR|].
      destruct (memH HO h L); cbn [negb]; rewrite IHR; reflexivity.
  Qed.

  (** [removeSingle] on the position of a node: all the leaves below the node are deleted *)
  Theorem removeSingle_node s Rc Rn m L x z : Inv2 HO s Rc Rn m ->
    In x (layout HO s) ->
    (forall y, In y (layout HO s) -> nleaf y = true ->
               (memH HO (nhash y) L = true <-> under (coord x) (coord y))) ->
    (forall y, In y (layout HO s) -> nleaf y = true -> under (coord x) (coord y) -> ~ In (nhash y) Rc) ->
    In z (layout HO s) -> nleaf z = true -> under (coord x) (coord z) -> In (nhash z) Rn ->
    exists nd' ca',
      removeSingle HO (ms_n m) (ms_total m) (ms_full m) (gp (ms_total m) (nrow x) (noff x))
        (ms_nodes m, ms_cached m) = (nd', ca') /\
      Inv2 HO (kill HO L s) Rc (filter (keep L) Rn) (mkM nd' ca' (ms_n m) (ms_total m) (ms_full m)).
  Proof.
    intros I Hx Hdel HLc Hz Lz Uz Rz. destruct (nroot x) eqn:Rx.
    - exists (nodes_put (gp (ms_total m) (nrow x) (noff x)) (op_empty HO, ms_full m)
                (forgetBelow (ms_total m) (gp (ms_total m) (nrow x) (noff x)) (ms_nodes m))),
             (ms_cached m).
      split; [|exact (sr_Inv H HO s Rc Rn m I L x Hx Rx Hdel HLc)].
      unfold removeSingle. cbv zeta. cbn [fst snd].
      pose proof (i_n I) as En. unfold num_leaves in En. rewrite En at 1.
      rewrite (ng_isroot H HO s (ms_total m) (pi_n63 H HO s Rc Rn m I) (pi_Tlo H HO s Rc Rn m I) (i_T63 I) x Hx).
      rewrite Rx. reflexivity.
    - exact (removeSingle_inner H HO HOK s Rc Rn m L x z I Hx Rx Hdel HLc Hz Lz Uz Rz).
  Qed.

  Lemma sortN_single t : sortN [t] = [t].
  Proof. reflexivity. Qed.

  Lemma deTwin_single p fr : deTwin [p] fr = [p].
  Proof. reflexivity. Qed.

  (** the target of a node, as [remove] translates it *)
  Lemma target_translate s Rc Rn m x : Inv2 HO s Rc Rn m -> In x (layout HO s) ->
    (if ms_total m =? TreeRows (ms_n m) then [npos (rows_of (num_leaves s)) x]
     else translatePositions [npos (rows_of (num_leaves s)) x] (TreeRows (ms_n m)) (ms_total m))
    = [gp (ms_total m) (nrow x) (noff x)].
  Proof.
    intros I Hx. pose proof (i_n I) as En. unfold num_leaves in En.
    pose proof (pi_n63 H HO s Rc Rn m I) as Hn63. pose proof (pi_Tlo H HO s Rc Rn m I) as HTlo.
    destruct (ng_valid H HO s (ms_total m) Hn63 HTlo (i_T63 I) x Hx) as [A B].
    destruct (ng_valid_min H HO s (ms_total m) Hn63 HTlo (i_T63 I) x Hx) as [C D].
    assert (Et : npos (rows_of (num_leaves s)) x = gpos (TreeRows (ms_n m)) (N.of_nat (nrow x)) (noff x)).
    { unfold npos. rewrite LayoutStruct.pos_gpos. unfold num_leaves. rewrite <- En.
      rewrite (rows_of_TreeRows (ms_n m)). reflexivity. }
    rewrite Et. rewrite En in *.
    destruct (N.eqb_spec (ms_total m) (TreeRows (N.of_nat (length s)))) as [E|E].
    - unfold gp. rewrite E. reflexivity.
    - unfold translatePositions. cbn [map]. f_equal. unfold gp.
      apply translatePos_gpos; try assumption; try exact (i_T63 I).
      exact (TreeRows_le_63 _ Hn63).
  Qed.

  (** ** G1: one remembered leaf is deleted *)
  Theorem mm_modify_delete1 s R m x proof : Inv HO s R m ->
    In x (layout HO s) -> nleaf x = true -> In (nhash x) R ->
    exists m', mm_modify HO m [] [nhash x] [npos (rows_of (num_leaves s)) x] proof = Some m' /\
               Inv HO (kill HO [nhash x] s) (filter (keep [nhash x]) R) m'.
  Proof.
    intros I Hx Lx Hh. unfold Inv in *.
    pose proof (target_translate s R R m x I Hx) as Etr.
    destruct m as [nd ca n T full]. cbn [ms_n ms_total ms_nodes ms_cached ms_full] in *.
    pose proof (pi_n63 H HO s R R _ I) as Hn63. pose proof (pi_Tlo H HO s R R _ I) as HTlo.
    cbn [ms_total] in HTlo.
    assert (Hhas : cached_has HO ca (nhash x) = true).
    { unfold cached_has.
      assert (E : cached_get HO ca (nhash x) = Some (gp T (nrow x) (noff x))).
      { apply (i_cached I). split; [exact Hh|]. exists x. auto. }
      cbn [ms_cached] in E. rewrite E. reflexivity. }
    pose proof (uncache_Inv2 [nhash x] s R R nd ca n T full I) as I1. cbn [fold_left] in I1.
    assert (Hdel : forall y, In y (layout HO s) -> nleaf y = true ->
              (memH HO (nhash y) [nhash x] = true <-> under (coord x) (coord y))).
    { intros y Hy Ly. rewrite (memH_In H HO HOK). cbn [In]. split.
      - intros [E|[]]. rewrite (live_leaf_unique H HO s x y (i_live_nd I) Hx Hy Lx Ly E). apply under_refl.
      - intros U. left. rewrite (ng_leaf_bottom H HO s T Hn63 HTlo (i_T63 I) x y Hx Hy Lx U). reflexivity. }
    assert (HLc : forall y, In y (layout HO s) -> nleaf y = true -> under (coord x) (coord y) ->
              ~ In (nhash y) (filter (keep [nhash x]) R)).
    { intros y Hy Ly U Hin. apply filter_In in Hin as [_ Hm].
      apply (Hdel y Hy Ly) in U. rewrite U in Hm. discriminate. }
    destruct (removeSingle_node s _ R _ [nhash x] x x I1 Hx Hdel HLc Hx Lx (under_refl _) Hh)
      as (nd' & ca' & Eq & I2).
    cbn [ms_n ms_total ms_nodes ms_cached ms_full] in Eq, I2.
    exists (mkM nd' ca' n T full). split; [|exact I2].
    unfold mm_modify, MapMut.remove. cbn [ms_n ms_total ms_nodes ms_cached ms_full forallb].
    rewrite Hhas. cbn [andb negb fold_left]. rewrite sortN_single, Etr, deTwin_single.
    cbn [fold_left].
    match goal with |- context [add_all _ _ _ _ _ ?st] =>
      replace st with (nd', ca') by (symmetry; exact Eq) end.
    reflexivity.
  Qed.
End RemoveNode.
(** * 16. Several subtrees are deleted one after the other *)
Lemma under_nested a b c : under a c -> under b c -> (fst a <= fst b)%nat -> under b a.
Proof.
  intros [Ha Ea] [Hb Eb] Hle. split; [exact Hle|].
  rewrite <- Ea, <- Eb. rewrite N.div_div by (try (pose proof (p2_pos (fst a - fst c))); try (pose proof (p2_pos (fst b - fst a))); lia).
  rewrite <- p2_add. f_equal. f_equal. lia.
Qed.

Lemma under_P_split rd od c : under (S rd, od / 2) c -> c <> (S rd, od / 2) ->
  under (rd, od) c \/ under (rd, N.lxor od 1) c.
Proof.
  intros U Hne. destruct c as [rc oc].
  assert (Hle : (rc <= rd)%nat).
  { destruct U as [Hr E]. cbn [fst snd] in *. destruct (Nat.eq_dec rc (S rd)) as [->|]; [|lia].
    exfalso. apply Hne. rewrite Nat.sub_diag, p2_0, N.div_1_r in E. congruence. }
  destruct (under_split rd (od / 2) (rc, oc) U Hle) as [U'|U'];
    destruct (pps_bit0 od) as (k & [(E1 & E2 & _ & E4)|(E1 & E2 & _ & E4)]); rewrite E4 in U'.
  - left. rewrite E1. exact U'.
  - right. rewrite E2. exact U'.
  - right. rewrite E2. exact U'.
  - left. rewrite E1. exact U'.
Qed.

(** [y] is not touched by the deletion of the subtree below [x] *)
Definition indep {H} (x y : node H) : Prop :=
  ~ under (coord x) (coord y) /\ ~ under (coord y) (coord x) /\
  coord y <> (nrow x, N.lxor (noff x) 1) /\ (nrow x <= nrow y)%nat.

Lemma indep_other {H} (x y : node H) : indep x y ->
  ~ under (S (nrow x), noff x / 2) (coord y) /\ ~ under (coord y) (S (nrow x), noff x / 2).
Proof.
  intros (N1 & N2 & N3 & Hr). split.
  - intros U. destruct (Nat.eq_dec (nrow y) (S (nrow x))) as [E|E].
    + apply N2. destruct U as [_ Eo]. unfold coord in *. cbn [fst snd] in *.
      rewrite E, Nat.sub_diag, p2_0, N.div_1_r in Eo.
      destruct (under_sib_par (nrow x) (noff x)) as [_ Ux]. rewrite E, Eo. exact Ux.
    + assert (Hne : coord y <> (S (nrow x), noff x / 2)) by (intros C; apply E; exact (f_equal fst C)).
      destruct (under_P_split _ _ _ U Hne) as [Ux|Us]; [exact (N1 Ux)|].
      apply N3. destruct Us as [Hle Eo]. unfold coord in *. cbn [fst snd] in *.
      assert (Er : nrow y = nrow x) by lia. rewrite Er, Nat.sub_diag, p2_0, N.div_1_r in Eo. congruence.
  - intros U. apply N2. exact (under_trans _ _ _ U (proj2 (under_sib_par (nrow x) (noff x)))).
Qed.

(** whatever lies below a node that is not touched is not touched *)
Lemma other_below c y w : ~ under c y -> ~ under y c -> under y w -> ~ under c w /\ ~ under w c.
Proof.
  intros N1 N2 U. split.
  - intros Uc. destruct (le_ge_dec (fst c) (fst y)) as [Hle|Hge].
    + apply N2. exact (under_nested _ _ _ Uc U Hle).
    + apply N1. exact (under_nested _ _ _ U Uc Hge).
  - intros Uw. apply N2. exact (under_trans _ _ _ U Uw).
Qed.

Section KillLeaves.
  Variable H : Type.
  Variable HO : ops H.
  Hypothesis HOK : ops_ok HO.
  Variable s : slots H.
  Variable L : list H.
  Variable x : node H.
  Hypothesis Hnd : NoDup (live s).
  Hypothesis Hx : In x (layout HO s).
  Hypothesis Hdel : forall y, In y (layout HO s) -> nleaf y = true ->
    (memH HO (nhash y) L = true <-> under (coord x) (coord y)).
  Notation lay := (layout HO s).
  Notation lay' := (layout HO (kill HO L s)).

  (** a node that is not touched, and everything below it, stays where it is *)
  Lemma kl_keep y : In y lay -> indep x y -> forall w, In w lay -> under (coord y) (coord w) -> In w lay'.
  Proof.
    intros Hy Hi w Hw U. destruct (nroot x) eqn:Rx.
    - apply (proj2 (kill_root H HO s L x Hx Hdel Rx) w Hw).
      destruct Hi as (N1 & N2 & _). exact (proj1 (other_below _ _ _ N1 N2 U)).
    - destruct (indep_other x y Hi) as [N1 N2]. destruct (other_below _ _ _ N1 N2 U) as [M1 M2].
      exact (proj1 (kill_inner H HO s L x Hx Hdel Rx w Hw) M1 M2).
  Qed.

  (** the leaves after the deletion, below a node that is not touched *)
  Lemma kl_leaf_below y w' : In y lay -> indep x y -> In w' lay' -> nleaf w' = true ->
    under (coord y) (coord w') -> In w' lay /\ memH HO (nhash w') L = false.
  Proof.
    intros Hy Hi Hw' Lw' U.
    pose proof (layout_leaf_live H HO _ w' Hw' Lw') as Hl. apply kill_live in Hl as [Hl Hm].
    destruct (live_leaf_in_layout H HO s _ Hl) as (w & Hw & Lw & Ew). rewrite <- Ew in Hm.
    assert (Hnx : ~ under (coord x) (coord w)).
    { intros Ux. apply (Hdel w Hw Lw) in Ux. congruence. }
    pose proof (kill_nodup H HO L s Hnd) as Hnd'.
    destruct (nroot x) eqn:Rx.
    - pose proof (proj2 (kill_root H HO s L x Hx Hdel Rx) w Hw Hnx) as Hwl.
      rewrite (live_leaf_unique H HO _ w' w Hnd' Hw' Hwl Lw' Lw ltac:(congruence)). split; assumption.
    - destruct (indep_other x y Hi) as [N1 N2].
      destruct (kill_inner H HO s L x Hx Hdel Rx w Hw) as (K1 & K2 & _).
      destruct (under_dec (S (nrow x), noff x / 2) (coord w)) as [UP|NP].
      + (* w lies below the sibling: its image lies below the parent, not below y *)
        exfalso.
        assert (Hne : coord w <> (S (nrow x), noff x / 2)).
        { intros C. destruct (ng_family H HO s x Hx Rx) as (p & _ & Hp & _ & _ & Hpl & _ & Ep & _).
          rewrite <- Ep in C. rewrite (ng_coord_eq H HO s w p Hw Hp C) in Lw. congruence. }
        destruct (under_P_split _ _ _ UP Hne) as [Ux|Us]; [exact (Hnx Ux)|].
        pose proof (K2 Us) as Hup.
        assert (Ew' : w' = upn H (nrow x) (S (nrow x) =? ntree x)%nat w).
        { apply (live_leaf_unique H HO _ _ _ Hnd' Hw' Hup Lw' Lw). cbn [upn nhash]. congruence. }
        (* the image lies below the parent *)
        assert (UPi : under (S (nrow x), noff x / 2) (coord w')).
        { rewrite Ew'. destruct Us as [Hr Eo]. unfold coord in *. cbn [fst snd] in *.
          unfold upn. cbn [nrow noff]. 
          destruct (under_decomp (nrow x, N.lxor (noff x) 1) (nrow w, noff w) (conj Hr Eo)) as [Ed Hb].
          cbn [fst snd] in Ed, Hb.
          apply (under_compose (S (nrow x), noff x / 2) (S (nrow w), _) (noff w mod 2 ^ N.of_nat (nrow x - nrow w)));
            cbn [fst snd]; [lia| |].
          - rewrite Ed at 1. rewrite rmbit_block by exact Hb.
            replace (S (nrow x) - S (nrow w))%nat with (nrow x - nrow w)%nat by lia.
            f_equal. f_equal. rewrite lxor_1. destruct (pps_bit0 (noff x)) as (k & [(E1 & E2 & _ & E4)|(E1 & E2 & _ & E4)]).
            + rewrite <- lxor_1, E2, E4. apply pps_div2_double1.
            + rewrite <- lxor_1, E2, E4. apply pps_div2_double.
          - replace (S (nrow x) - S (nrow w))%nat with (nrow x - nrow w)%nat by lia. exact Hb. }
        destruct (le_ge_dec (S (nrow x)) (nrow y)) as [Hle|Hge].
        * apply N2. exact (under_nested _ _ _ UPi U Hle).
        * apply N1. exact (under_nested _ _ _ U UPi Hge).
      + assert (NP2 : ~ under (coord w) (S (nrow x), noff x / 2)).
        { intros Uw. destruct (ng_family H HO s x Hx Rx) as (p & _ & Hp & _ & _ & Hpl & _ & Ep & _).
          rewrite <- Ep in Uw.
          assert (Hn63 : True) by exact I.
          (* a node below a leaf is the leaf *)
          destruct (under_range H w p Uw) as (A & B & _).
          destruct (layout_entry H HO s w Hw) as (k & lo & t & He & Hwe).
          destruct (layout_entry H HO s p Hp) as (k2 & lo2 & t2 & He2 & Hpe).
          destruct (layout_same_entry H HO s _ _ _ _ _ _ w p He He2 Hwe Hpe A B) as (<- & <- & <-).
          destruct Uw as [Hr E]. unfold coord in Hr, E. cbn [fst snd] in Hr, E.
          destruct (Nat.eq_dec (nrow p) (nrow w)) as [Er|Hne].
          - rewrite Er, Nat.sub_diag, p2_0, N.div_1_r in E.
            assert (Ec : coord p = coord w) by (unfold coord; congruence).
            rewrite (ng_coord_eq H HO s p w Hp Hw Ec) in Hpl. congruence.
          - cbn [place_entry] in Hwe, Hpe. destruct t as [c|].
            + apply (place_tree_leaf_bottom H c _ _ _ _ w p Hwe Hpe Lw); [lia|exact A|exact B].
            + destruct Hwe as [<-|[]]. discriminate Lw. }
        pose proof (K1 NP NP2) as Hwl.
        rewrite (live_leaf_unique H HO _ w' w Hnd' Hw' Hwl Lw' Lw ltac:(congruence)). split; assumption.
  Qed.
End KillLeaves.

Section RemoveFold.
  Variable H : Type.
  Variable HO : ops H.
  Hypothesis HOK : ops_ok HO.
  Notation keep L := (fun h => negb (memH HO h L)).

  Definition underb (c d : nat * N) : bool := if under_dec c d then true else false.
  Definition leaves_under (s : slots H) (y : node H) : list H :=
    map (@nhash H) (filter (fun w => nleaf w && underb (coord y) (coord w)) (layout HO s)).

  Lemma leaves_under_spec s y w : NoDup (live s) -> In w (layout HO s) -> nleaf w = true ->
    (memH HO (nhash w) (leaves_under s y) = true <-> under (coord y) (coord w)).
  Proof.
    intros Hnd Hw Lw. rewrite (memH_In H HO HOK). unfold leaves_under. rewrite in_map_iff. split.
    - intros (w' & Eh & Hin). apply filter_In in Hin as [Hw' Hb]. apply andb_true_iff in Hb as [Lw' Hu].
      rewrite <- (live_leaf_unique H HO s w' w Hnd Hw' Hw Lw' Lw Eh).
      unfold underb in Hu. destruct (under_dec (coord y) (coord w')); [assumption|discriminate].
    - intros U. exists w. split; [reflexivity|]. apply filter_In. split; [exact Hw|].
      rewrite Lw. unfold underb. destruct (under_dec (coord y) (coord w)); [reflexivity|contradiction].
  Qed.

  Lemma kill_nil (s : slots H) : kill HO [] s = s.
  Proof. induction s as [|[h|] s IH]; cbn [kill map memH] in *; [reflexivity| |]; f_equal; exact IH. Qed.

  Lemma filter_keep_nil (R : list H) : filter (keep []) R = R.
  Proof. induction R as [|h R IH]; [reflexivity|]. cbn [filter memH negb]. f_equal. exact IH. Qed.

  Lemma filter_keep_app A B (R : list H) : filter (keep (A ++ B)) R = filter (keep B) (filter (keep A) R).
  Proof.
    induction R as [|h R IH]; [reflexivity|]. cbn [filter]. rewrite (memH_app H HO).
    destruct (memH HO h A); cbn [negb orb filter]; [exact IH|].
    destruct (memH HO h B); cbn [negb]; rewrite IH; reflexivity.
  Qed.

  (** a list of nodes whose subtrees can be deleted one after the other *)
  Definition okseq (s : slots H) (Rc Rn : list H) (ys : list (node H)) : Prop :=
    (forall y, In y ys ->
       In y (layout HO s) /\
       (exists z, In z (layout HO s) /\ nleaf z = true /\ under (coord y) (coord z) /\ In (nhash z) Rn) /\
       (forall w, In w (layout HO s) -> nleaf w = true -> under (coord y) (coord w) -> ~ In (nhash w) Rc)) /\
    ForallOrdPairs indep ys.

  Lemma remove_fold Rc : forall ys s Rn nd ca n T full,
    Inv2 HO s Rc Rn (mkM nd ca n T full) -> okseq s Rc Rn ys ->
    exists Lt nd' ca',
      fold_left (fun st d => removeSingle HO n T full d st)
                (map (fun y : node H => gp T (nrow y) (noff y)) ys) (nd, ca) = (nd', ca') /\
      (forall w, In w (layout HO s) -> nleaf w = true ->
         (memH HO (nhash w) Lt = true <-> exists y, In y ys /\ under (coord y) (coord w))) /\
      Inv2 HO (kill HO Lt s) Rc (filter (keep Lt) Rn) (mkM nd' ca' n T full).
  Proof.
    induction ys as [|y1 rest IH]; intros s Rn nd ca n T full I [Hok Hfop].
    - exists [], nd, ca. split; [reflexivity|]. split.
      + intros w _ _. cbn [memH]. split; [discriminate|]. intros (y & [] & _).
      + rewrite kill_nil, filter_keep_nil. exact I.
    - pose proof (i_live_nd I) as Hnd.
      destruct (Hok y1 (or_introl eq_refl)) as (Hy1 & (z & Hz & Lz & Uz & Rz) & Hc1).
      set (L1 := leaves_under s y1).
      assert (Hdel1 : forall w, In w (layout HO s) -> nleaf w = true ->
                (memH HO (nhash w) L1 = true <-> under (coord y1) (coord w))).
      { intros w Hw Lw. apply leaves_under_spec; assumption. }
      destruct (removeSingle_node H HO HOK s Rc Rn _ L1 y1 z I Hy1 Hdel1 Hc1 Hz Lz Uz Rz)
        as (nd1 & ca1 & Eq & I1).
      cbn [ms_n ms_total ms_nodes ms_cached ms_full] in Eq, I1.
      inversion Hfop as [|a l Hhead Htail]; subst a l.
      rewrite Forall_forall in Hhead.
      assert (Hok1 : okseq (kill HO L1 s) Rc (filter (keep L1) Rn) rest).
      { split; [|exact Htail]. intros y Hy.
        destruct (Hok y (or_intror Hy)) as (Hyl & (zy & Hzy & Lzy & Uzy & Rzy) & Hcy).
        pose proof (Hhead y Hy) as Hi. split; [|split].
        - exact (kl_keep H HO s L1 y1 Hy1 Hdel1 y Hyl Hi y Hyl (under_refl _)).
        - exists zy. split; [exact (kl_keep H HO s L1 y1 Hy1 Hdel1 y Hyl Hi zy Hzy Uzy)|].
          split; [exact Lzy|]. split; [exact Uzy|]. apply filter_In. split; [exact Rzy|].
          destruct (memH HO (nhash zy) L1) eqn:Em; [exfalso|reflexivity].
          apply (Hdel1 zy Hzy Lzy) in Em. destruct Hi as (N1 & N2 & _ & Hr).
          apply N2. exact (under_nested _ _ _ Em Uzy Hr).
        - intros w' Hw' Lw' Uw'.
          destruct (kl_leaf_below H HO s L1 y1 Hnd Hy1 Hdel1 y w' Hyl Hi Hw' Lw' Uw') as [Hwl _].
          exact (Hcy w' Hwl Lw' Uw'). }
      destruct (IH _ _ nd1 ca1 n T full I1 Hok1) as (Ltr & nd' & ca' & Ef & Hspec & Ir).
      exists (L1 ++ Ltr), nd', ca'. split; [|split].
      + cbn [map fold_left].
        match goal with |- fold_left ?f ?l ?st = _ => replace st with (nd1, ca1) by (symmetry; exact Eq) end.
        exact Ef.
      + intros w Hw Lw. rewrite (memH_app H HO), orb_true_iff. split.
        * intros [E1|Er].
          -- exists y1. split; [left; reflexivity|]. apply (Hdel1 w Hw Lw), E1.
          -- destruct (memH HO (nhash w) L1) eqn:E1.
             { exists y1. split; [left; reflexivity|]. apply (Hdel1 w Hw Lw), E1. }
             assert (Hl1 : In (Some (nhash w)) (kill HO L1 s)).
             { apply kill_live. split; [exact (layout_leaf_live H HO s w Hw Lw)|exact E1]. }
             destruct (live_leaf_in_layout H HO _ _ Hl1) as (w1 & Hw1 & Lw1 & Ew1).
             rewrite <- Ew1 in Er. apply (Hspec w1 Hw1 Lw1) in Er as (y & Hy & Uy).
             destruct (Hok y (or_intror Hy)) as (Hyl & _).
             destruct (kl_leaf_below H HO s L1 y1 Hnd Hy1 Hdel1 y w1 Hyl (Hhead y Hy) Hw1 Lw1 Uy) as [Hw1l _].
             rewrite (live_leaf_unique H HO s w1 w Hnd Hw1l Hw Lw1 Lw Ew1) in Uy.
             exists y. split; [right; exact Hy|exact Uy].
        * intros (y & [<-|Hy] & Uy).
          -- left. apply (Hdel1 w Hw Lw), Uy.
          -- right. destruct (Hok y (or_intror Hy)) as (Hyl & _).
             pose proof (kl_keep H HO s L1 y1 Hy1 Hdel1 y Hyl (Hhead y Hy) w Hw Uy) as Hw1.
             apply (Hspec w Hw1 Lw). exists y. auto.
      + rewrite <- (kill_kill H HO), filter_keep_app. exact Ir.
  Qed.
End RemoveFold.
(** * 17. [remove] of several remembered leaves *)
Section RemoveLeaves.
  Variable H : Type.
  Variable HO : ops H.
  Hypothesis HOK : ops_ok HO.
  Notation keep L := (fun h => negb (memH HO h L)).

  Lemma kill_ext A B (s : slots H) : (forall h, In (Some h) s -> memH HO h A = memH HO h B) ->
    kill HO A s = kill HO B s.
  Proof.
    intros E. unfold kill. apply map_ext_in. intros [h|] Hin; [|reflexivity]. rewrite (E h Hin). reflexivity.
  Qed.

  Lemma filter_keep_ext A B (R : list H) : (forall h, In h R -> memH HO h A = memH HO h B) ->
    filter (keep A) R = filter (keep B) R.
  Proof. intros E. apply filter_ext_in. intros h Hh. rewrite (E h Hh). reflexivity. Qed.

  (** the targets, sorted and translated *)
  Lemma translate_nodes s Rc Rn m (l : list (node H)) : Inv2 HO s Rc Rn m ->
    (forall x, In x l -> In x (layout HO s)) ->
    (if ms_total m =? TreeRows (ms_n m) then map (npos (rows_of (num_leaves s))) l
     else translatePositions (map (npos (rows_of (num_leaves s))) l) (TreeRows (ms_n m)) (ms_total m))
    = map (fun x : node H => gp (ms_total m) (nrow x) (noff x)) l.
  Proof.
    intros I Hl. induction l as [|x l IH].
    - destruct (ms_total m =? TreeRows (ms_n m)); reflexivity.
    - pose proof (target_translate H HO s Rc Rn m x I (Hl x (or_introl eq_refl))) as E1.
      specialize (IH (fun y Hy => Hl y (or_intror Hy))).
      destruct (ms_total m =? TreeRows (ms_n m)).
      + cbn [map]. injection E1 as E1. rewrite E1, IH. reflexivity.
      + unfold translatePositions in *. cbn [map] in *. injection E1 as E1. rewrite E1, IH. reflexivity.
  Qed.

  Definition npl (s : slots H) (a b : node H) : Prop :=
    npos (rows_of (num_leaves s)) a < npos (rows_of (num_leaves s)) b.

  (** what [deTwin] must deliver for the sorted leaf nodes [ls] *)
  Definition detwinned (s : slots H) (T : N) (xs ls ys : list (node H)) : Prop :=
    deTwin (map (fun x : node H => gp T (nrow x) (noff x)) ls) T =
      map (fun x : node H => gp T (nrow x) (noff x)) ys /\
    (forall y, In y ys -> In y (layout HO s) /\
       exists z, In z (layout HO s) /\ nleaf z = true /\ under (coord y) (coord z)) /\
    (forall w, In w (layout HO s) -> nleaf w = true ->
       ((exists y, In y ys /\ under (coord y) (coord w)) <-> In w xs)) /\
    ForallOrdPairs indep ys.

  Lemma sorted_nodes s (ls : list (node H)) : (forall x, In x ls -> In x (layout HO s)) -> NoDup ls ->
    StronglySorted N.le (map (npos (rows_of (num_leaves s))) ls) -> StronglySorted (npl s) ls.
  Proof.
    induction ls as [|a l IH]; intros Hls Hnd Hs; [constructor|].
    cbn [map] in Hs. inversion Hs as [|? ? Hs' Hall]; subst. inversion Hnd as [|? ? Hna Hnd']; subst.
    constructor; [apply IH; [intros x Hx; apply Hls; right; exact Hx|exact Hnd'|exact Hs']|].
    rewrite Forall_forall in *. intros b Hb. unfold npl.
    pose proof (Hall _ (in_map _ _ _ Hb)) as Hle.
    destruct (N.eq_dec (npos (rows_of (num_leaves s)) a) (npos (rows_of (num_leaves s)) b)) as [E|E]; [|lia].
    exfalso. apply Hna.
    rewrite (RefTheory.layout_npos_inj H HO s a b (Hls a (or_introl eq_refl)) (Hls b (or_intror Hb)) E).
    exact Hb.
  Qed.

  Theorem remove_leaves s R m xs dels targets proof : Inv HO s R m -> NoDup xs ->
    (forall x, In x xs -> In x (layout HO s) /\ nleaf x = true /\ In (nhash x) R) ->
    (forall h, In h dels <-> exists x, In x xs /\ nhash x = h) ->
    Permutation targets (map (npos (rows_of (num_leaves s))) xs) ->
    (forall ls, Permutation xs ls -> StronglySorted (npl s) ls ->
       exists ys, detwinned s (ms_total m) xs ls ys) ->
    exists m', mm_modify HO m [] dels targets proof = Some m' /\
               Inv HO (kill HO dels s) (filter (keep dels) R) m'.
  Proof.
    intros I Hnd Hxs Hdels Hperm Hdt. unfold Inv in *.
    (* the sorted targets *)
    assert (Hp2 : Permutation (sortN targets) (map (npos (rows_of (num_leaves s))) xs)).
    { eapply Permutation_trans; [apply pps_sortN_perm|exact Hperm]. }
    destruct (Permutation_map_inv _ _ Hp2) as (ls & Els & Pls).
    assert (Hls : forall x, In x ls -> In x (layout HO s)).
    { intros x Hx. apply (Permutation_in _ (Permutation_sym Pls)) in Hx. apply Hxs, Hx. }
    assert (Sls : StronglySorted (npl s) ls).
    { apply sorted_nodes; [exact Hls|exact (Permutation_NoDup Pls Hnd)|].
      rewrite <- Els. apply pps_sortN_sorted. }
    destruct (Hdt ls Pls Sls) as (ys & Edt & Hys & Hcover & Hfop).
    pose proof (translate_nodes s R R m ls I Hls) as Etr. rewrite <- Els in Etr.
    destruct m as [nd ca n T full]. cbn [ms_n ms_total ms_nodes ms_cached ms_full] in *.
    pose proof (i_live_nd I) as Hlnd.
    (* all the deleted hashes are cached *)
    assert (Hall : forallb (cached_has HO ca) dels = true).
    { apply forallb_forall. intros h Hh. apply Hdels in Hh as (x & Hx & <-).
      destruct (Hxs x Hx) as (Hxl & Lx & Hr). unfold cached_has.
      assert (E : cached_get HO ca (nhash x) = Some (gp T (nrow x) (noff x))).
      { apply (i_cached I). split; [exact Hr|]. exists x. auto. }
      cbn [ms_cached] in E. rewrite E. reflexivity. }
    pose proof (uncache_Inv2 H HO HOK dels s R R nd ca n T full I) as I1.
    (* the deleted leaves, by their hashes *)
    assert (Hdel_leaf : forall w, In w (layout HO s) -> nleaf w = true ->
              (memH HO (nhash w) dels = true <-> In w xs)).
    { intros w Hw Lw. rewrite (memH_In H HO HOK), Hdels. split.
      - intros (x & Hx & E). destruct (Hxs x Hx) as (Hxl & Lx & _).
        rewrite <- (live_leaf_unique H HO s x w Hlnd Hxl Hw Lx Lw E). exact Hx.
      - intros Hx. exists w. auto. }
    assert (Hok : okseq H HO s (filter (keep dels) R) R ys).
    { split; [|exact Hfop]. intros y Hy. destruct (Hys y Hy) as (Hyl & z & Hz & Lz & Uz).
      split; [exact Hyl|]. split.
      - exists z. split; [exact Hz|]. split; [exact Lz|]. split; [exact Uz|].
        assert (Hzx : In z xs) by (apply (Hcover z Hz Lz); exists y; auto).
        apply Hxs, Hzx.
      - intros w Hw Lw Uw Hin. apply filter_In in Hin as [_ Hm].
        assert (Hwx : In w xs) by (apply (Hcover w Hw Lw); exists y; auto).
        apply (Hdel_leaf w Hw Lw) in Hwx. rewrite Hwx in Hm. discriminate. }
    destruct (remove_fold H HO HOK (filter (keep dels) R) ys s R nd _ n T full I1 Hok)
      as (Lt & nd' & ca' & Ef & Hspec & I2).
    assert (Ememb : forall h, In (Some h) s -> memH HO h Lt = memH HO h dels).
    { intros h Hh. destruct (live_leaf_in_layout H HO s h Hh) as (w & Hw & Lw & <-).
      pose proof (Hspec w Hw Lw) as S1. pose proof (Hcover w Hw Lw) as S2.
      pose proof (Hdel_leaf w Hw Lw) as S3.
      destruct (memH HO (nhash w) Lt), (memH HO (nhash w) dels); try reflexivity.
      - assert (In w xs) by (apply S2, S1; reflexivity). assert (false = true) by (apply S3; assumption). discriminate.
      - assert (In w xs) by (apply S3; reflexivity). assert (false = true) by (apply S1, S2; assumption). discriminate. }
    rewrite (kill_ext Lt dels s Ememb) in I2.
    rewrite (filter_keep_ext Lt dels R) in I2 by (intros h Hh; apply Ememb, (i_Rn I h Hh)).
    exists (mkM nd' ca' n T full). split; [|exact I2].
    unfold mm_modify, MapMut.remove. cbn [ms_n ms_total ms_nodes ms_cached ms_full].
    rewrite Hall. cbn [negb]. rewrite Etr, Edt.
    match goal with |- context [add_all _ _ _ _ _ ?st] =>
      replace st with (nd', ca') by (symmetry; exact Ef) end.
    reflexivity.
  Qed.
End RemoveLeaves.

(** * 18. [deTwin] *)
Lemma deTwin_loop_id fr : forall (fuel i : nat) l,
  (forall j a b, nth_error l j = Some a -> nth_error l (S j) = Some b -> rightSib a <> b) ->
  deTwin_loop fuel i l fr = l.
Proof.
  induction fuel as [|f IH]; intros i l Hno; [reflexivity|]. cbn [deTwin_loop].
  destruct (nth_error l i) as [a|] eqn:Ea; [|reflexivity].
  destruct (nth_error l (S i)) as [b|] eqn:Eb; [|reflexivity].
  destruct (N.eqb_spec (rightSib a) b) as [E|_]; [exfalso; exact (Hno i a b Ea Eb E)|].
  apply IH, Hno.
Qed.

Section DeTwinLeaves.
  Variable H : Type.
  Variable HO : ops H.
  Hypothesis HOK : ops_ok HO.
  Variable s : slots H.
  Variable T : N.
  Hypothesis Hn63 : N.of_nat (length s) <= 2 ^ 63.
  Hypothesis HTlo : TreeRows (N.of_nat (length s)) <= T.
  Hypothesis HT63 : T <= 63.
  Notation lay := (layout HO s).
  Notation gpx := (fun x : node H => gp T (nrow x) (noff x)).

  (** the order of the positions does not depend on the height *)
  Lemma npl_rows a b : In a lay -> In b lay -> npl H s a b ->
    gp T (nrow a) (noff a) < gp T (nrow b) (noff b) /\ (nrow a <= nrow b)%nat.
  Proof.
    intros Ha Hb Hlt. unfold npl, npos in Hlt. rewrite !LayoutStruct.pos_gpos in Hlt.
    rewrite (pc_rows_of H s) in Hlt.
    destruct (ng_valid_min H HO s T Hn63 HTlo HT63 a Ha) as [A1 A2].
    destruct (ng_valid_min H HO s T Hn63 HTlo HT63 b Hb) as [B1 B2].
    pose proof (gpos_lt_transfer _ T _ _ _ _ HTlo A1 A2 B1 B2 Hlt) as Hlt'. split; [exact Hlt'|].
    apply gpos_lt_lex in Hlt; try assumption. lia.
  Qed.

  (** two nodes whose positions are twins are siblings (or equal) *)
  Lemma twins_coord a b : In a lay -> In b lay ->
    rightSib (gp T (nrow a) (noff a)) = gp T (nrow b) (noff b) ->
    b = a \/ (coord b = (nrow a, N.lxor (noff a) 1) /\ N.even (noff a) = true).
  Proof.
    intros Ha Hb E. destruct (ng_valid H HO s T Hn63 HTlo HT63 a Ha) as [A1 A2].
    destruct (ng_valid H HO s T Hn63 HTlo HT63 b Hb) as [B1 B2].
    unfold gp in E. rewrite rightSib_gpos in E by exact A1.
    pose proof (lor_1 (noff a)) as Hl. pose proof (lxor_1 (noff a)) as Hx.
    destruct (N.even (noff a)) eqn:Ev.
    - right. split; [|reflexivity].
      assert (Hv : N.lor (noff a) 1 < 2 ^ (T - N.of_nat (nrow a))).
      { destruct (N.eq_dec (N.of_nat (nrow a)) T) as [Et|Et].
        - exfalso. rewrite Et, N.sub_diag in A2. change (2 ^ 0) with 1 in A2.
          assert (noff a = 0) by lia.
          (* the only position of the top row has no right sibling in the frame *)
          rewrite Et in E. rewrite Hl in E.
          assert (Hr : gpos T T (noff a + 1) = 2 ^ (T + 1) - 1).
          { unfold gpos, gstart. replace (T + 1 - T) with 1 by lia. change (2 ^ 1) with 2.
            pose proof (UtilsGeom.pow2_pos T). rewrite UtilsGeom.pow2_S. lia. }
          pose proof (gpos_range T _ _ B1 B2) as Hrange. rewrite <- E, Hr in Hrange.
          pose proof (UtilsGeom.pow2_pos T). rewrite UtilsGeom.pow2_S in Hrange. lia.
        - apply sib_offsets_lt; [lia|exact A2]. }
      destruct (gpos_inj T _ _ _ _ A1 Hv B1 B2 E) as [Er Eo]. unfold coord.
      rewrite Hx, <- Hl. f_equal; [lia|congruence].
    - left. rewrite Hl in E. destruct (gpos_inj T _ _ _ _ A1 A2 B1 B2 E) as [Er Eo].
      symmetry. apply (ng_coord_eq H HO s a b Ha Hb). unfold coord. f_equal; [lia|exact Eo].
  Qed.

  Lemma SS_nth {A} (R : A -> A -> Prop) (l : list A) : StronglySorted R l ->
    forall j a b, nth_error l j = Some a -> nth_error l (S j) = Some b -> R a b.
  Proof.
    induction 1 as [|x l Hs IH Hall]; intros j a b Ea Eb; [destruct j; discriminate|].
    destruct j as [|j]; cbn [nth_error] in Ea, Eb.
    - injection Ea as <-. rewrite Forall_forall in Hall. apply Hall.
      destruct l as [|y l']; [discriminate|]. cbn in Eb. injection Eb as <-. left. reflexivity.
    - exact (IH j a b Ea Eb).
  Qed.

  Lemma SS_FOP {A} (R Q : A -> A -> Prop) (l : list A) : StronglySorted R l ->
    (forall a b, In a l -> In b l -> R a b -> Q a b) -> ForallOrdPairs Q l.
  Proof.
    induction 1 as [|x l Hs IH Hall]; intros HQ; [constructor|].
    constructor.
    - rewrite Forall_forall in *. intros b Hb. apply HQ; [left; reflexivity|right; exact Hb|apply Hall, Hb].
    - apply IH. intros a b Ha Hb. apply HQ; right; assumption.
  Qed.

  (** no two of the leaves are siblings: [deTwin] changes nothing *)
  Theorem detwinned_leaves xs ls : Permutation xs ls -> StronglySorted (npl H s) ls ->
    (forall x, In x xs -> In x lay /\ nleaf x = true) ->
    (forall a b, In a xs -> In b xs -> coord b <> (nrow a, N.lxor (noff a) 1)) ->
    detwinned H HO s T xs ls ls.
  Proof.
    intros Pls Sls Hxs Hnotw.
    assert (Hls : forall x, In x ls -> In x lay /\ nleaf x = true /\ In x xs).
    { intros x Hx. apply (Permutation_in _ (Permutation_sym Pls)) in Hx.
      destruct (Hxs x Hx). auto. }
    split; [|split; [|split]].
    - unfold deTwin. apply deTwin_loop_id. intros j pa pb Ea Eb Etw.
      rewrite nth_error_map in Ea, Eb.
      destruct (nth_error ls j) as [a|] eqn:Eja; [|discriminate].
      destruct (nth_error ls (S j)) as [b|] eqn:Ejb; [|discriminate].
      cbn [option_map] in Ea, Eb. injection Ea as <-. injection Eb as <-.
      destruct (Hls a (nth_error_In _ _ Eja)) as (Ha & _ & Hax).
      destruct (Hls b (nth_error_In _ _ Ejb)) as (Hb & _ & Hbx).
      pose proof (SS_nth _ _ Sls j a b Eja Ejb) as Hlt.
      destruct (twins_coord a b Ha Hb Etw) as [->|[Ec _]].
      + unfold npl in Hlt. lia.
      + exact (Hnotw a b Hax Hbx Ec).
    - intros y Hy. destruct (Hls y Hy) as (Hyl & Ly & _). split; [exact Hyl|].
      exists y. split; [exact Hyl|]. split; [exact Ly|apply under_refl].
    - intros w Hw Lw. split.
      + intros (y & Hy & U). destruct (Hls y Hy) as (Hyl & Ly & Hyx).
        rewrite (ng_leaf_bottom H HO s T Hn63 HTlo HT63 y w Hyl Hw Ly U). exact Hyx.
      + intros Hwx. exists w. split; [exact (Permutation_in _ Pls Hwx)|apply under_refl].
    - apply (SS_FOP _ _ _ Sls). intros a b Ha Hb Hlt.
      destruct (Hls a Ha) as (Hal & La & Hax). destruct (Hls b Hb) as (Hbl & Lb & Hbx).
      destruct (npl_rows a b Hal Hbl Hlt) as [_ Hr].
      assert (Hne : a <> b) by (intros ->; unfold npl in Hlt; lia).
      split; [|split; [|split]].
      + intros U. apply Hne. symmetry. exact (ng_leaf_bottom H HO s T Hn63 HTlo HT63 a b Hal Hbl La U).
      + intros U. apply Hne. exact (ng_leaf_bottom H HO s T Hn63 HTlo HT63 b a Hbl Hal Lb U).
      + exact (Hnotw a b Hax Hbx).
      + exact Hr.
  Qed.
End DeTwinLeaves.

Section DeleteLeavesNoSib.
  Variable H : Type.
  Variable HO : ops H.
  Hypothesis HOK : ops_ok HO.

  (** ** G2, leaves no two of which are siblings: any order of the hashes and of the targets *)
  Theorem mm_modify_delete_leaves_nosib s R m xs dels targets proof : Inv HO s R m -> NoDup xs ->
    (forall x, In x xs -> In x (layout HO s) /\ nleaf x = true /\ In (nhash x) R) ->
    (forall a b, In a xs -> In b xs -> coord b <> (nrow a, N.lxor (noff a) 1)) ->
    (forall h, In h dels <-> exists x, In x xs /\ nhash x = h) ->
    Permutation targets (map (npos (rows_of (num_leaves s))) xs) ->
    exists m', mm_modify HO m [] dels targets proof = Some m' /\
               Inv HO (kill HO dels s) (filter (fun h => negb (memH HO h dels)) R) m'.
  Proof.
    intros I Hnd Hxs Hns Hdels Hperm.
    apply (remove_leaves H HO HOK s R m xs dels targets proof I Hnd Hxs Hdels Hperm).
    intros ls Pls Sls. exists ls.
    apply (detwinned_leaves H HO s (ms_total m) (pi_n63 H HO s R R m I) (pi_Tlo H HO s R R m I) (i_T63 I));
      try assumption.
    intros x Hx. destruct (Hxs x Hx) as (A & B & _). auto.
  Qed.
End DeleteLeavesNoSib.

(** * 19. [deTwin] in general: the roots of the maximal deleted subtrees *)
Lemma SS_app_intro {A} (R : A -> A -> Prop) l1 l2 : StronglySorted R l1 -> StronglySorted R l2 ->
  (forall x y, In x l1 -> In y l2 -> R x y) -> StronglySorted R (l1 ++ l2).
Proof.
  intros S1 S2 Hc. induction S1 as [|x l S1 IH Hall]; [exact S2|]. cbn [app]. constructor.
  - apply IH. intros a b Ha Hb. apply Hc; [right; exact Ha|exact Hb].
  - rewrite Forall_forall in *. intros y Hy. apply in_app_or in Hy as [Hy|Hy]; [apply Hall, Hy|].
    apply Hc; [left; reflexivity|exact Hy].
Qed.

Lemma SS_app_elim {A} (R : A -> A -> Prop) l1 l2 : StronglySorted R (l1 ++ l2) ->
  StronglySorted R l1 /\ StronglySorted R l2 /\ (forall x y, In x l1 -> In y l2 -> R x y).
Proof.
  induction l1 as [|a l1 IH]; cbn [app]; intros S.
  - split; [constructor|]. split; [exact S|]. intros x y [].
  - inversion S as [|? ? S' Hall]; subst. destruct (IH S') as (A1 & A2 & A3).
    rewrite Forall_forall in Hall. split; [|split; [exact A2|]].
    + constructor; [exact A1|]. rewrite Forall_forall. intros y Hy. apply Hall, in_or_app. left. exact Hy.
    + intros x y [<-|Hx] Hy; [apply Hall, in_or_app; right; exact Hy|exact (A3 x y Hx Hy)].
Qed.

Lemma nth_split2 {A} (l : list A) i a b : nth_error l i = Some a -> nth_error l (S i) = Some b ->
  l = firstn i l ++ a :: b :: skipn (S (S i)) l /\ length (firstn i l) = i.
Proof.
  revert i. induction l as [|x l IH]; intros i Ea Eb; [destruct i; discriminate|].
  destruct i as [|i].
  - cbn in Ea. injection Ea as ->. destruct l as [|y l]; [discriminate|]. cbn in Eb. injection Eb as ->.
    split; reflexivity.
  - cbn [nth_error] in Ea, Eb. destruct (IH i Ea Eb) as [E L]. cbn [firstn skipn app length].
    split; [f_equal; exact E|f_equal; exact L].
Qed.

Lemma insertInOrder_app l1 l2 e : (forall y, In y l1 -> y <= e) ->
  insertInOrder (l1 ++ l2) e = l1 ++ insertInOrder l2 e.
Proof.
  induction l1 as [|y l1 IH]; intros Hle; [reflexivity|]. cbn [app insertInOrder].
  destruct (N.ltb_spec e y) as [Lt|_]; [pose proof (Hle y (or_introl eq_refl)); lia|].
  f_equal. apply IH. intros z Hz. apply Hle. right. exact Hz.
Qed.

Section DeTwinGen.
  Variable H : Type.
  Variable HO : ops H.
  Hypothesis HOK : ops_ok HO.
  Variable s : slots H.
  Variable T : N.
  Hypothesis Hn63 : N.of_nat (length s) <= 2 ^ 63.
  Hypothesis HTlo : TreeRows (N.of_nat (length s)) <= T.
  Hypothesis HT63 : T <= 63.
  Notation lay := (layout HO s).
  Notation gpx := (fun x : node H => gp T (nrow x) (noff x)).

  Definition pl (a b : node H) : Prop := gp T (nrow a) (noff a) < gp T (nrow b) (noff b).

  Fixpoint insN (p : node H) (l : list (node H)) : list (node H) :=
    match l with
    | [] => [p]
    | y :: t => if gp T (nrow p) (noff p) <? gp T (nrow y) (noff y) then p :: l else y :: insN p t
    end.

  Lemma insN_map p l : map gpx (insN p l) = insertInOrder (map gpx l) (gpx p).
  Proof.
    induction l as [|y l IH]; [reflexivity|]. cbn [insN map insertInOrder].
    destruct (gp T (nrow p) (noff p) <? gp T (nrow y) (noff y)); [reflexivity|].
    cbn [map]. f_equal. exact IH.
  Qed.

  Lemma insN_In p l x : In x (insN p l) <-> x = p \/ In x l.
  Proof.
    induction l as [|y l IH]; cbn [insN In]; [intuition congruence|].
    destruct (gp T (nrow p) (noff p) <? gp T (nrow y) (noff y)); cbn [In]; [intuition congruence|].
    rewrite IH. intuition congruence.
  Qed.

  Lemma insN_length p l : length (insN p l) = S (length l).
  Proof.
    induction l as [|y l IH]; [reflexivity|]. cbn [insN].
    destruct (gp T (nrow p) (noff p) <? gp T (nrow y) (noff y)); cbn [length]; [reflexivity|].
    rewrite IH. reflexivity.
  Qed.

  Lemma insN_sorted p l : StronglySorted pl l ->
    (forall y, In y l -> gp T (nrow y) (noff y) <> gp T (nrow p) (noff p)) -> StronglySorted pl (insN p l).
  Proof.
    intros S Hne. induction S as [|y l S IH Hall]; [repeat constructor|]. cbn [insN].
    rewrite Forall_forall in Hall.
    destruct (N.ltb_spec (gp T (nrow p) (noff p)) (gp T (nrow y) (noff y))) as [Lt|Ge].
    - constructor; [constructor; [exact S|rewrite Forall_forall; exact Hall]|].
      rewrite Forall_forall. intros z [<-|Hz]; [exact Lt|]. unfold pl in *. specialize (Hall z Hz). lia.
    - constructor; [apply IH; intros z Hz; apply Hne; right; exact Hz|].
      rewrite Forall_forall. intros z Hz. apply insN_In in Hz as [->|Hz]; [|exact (Hall z Hz)].
      unfold pl. pose proof (Hne y (or_introl eq_refl)). lia.
  Qed.

  Lemma insN_head p l x : nth_error (insN p l) 0 = Some x ->
    x = p \/ nth_error l 0 = Some x.
  Proof.
    destruct l as [|y l]; cbn [insN]; [cbn; intros [= <-]; left; reflexivity|].
    destruct (gp T (nrow p) (noff p) <? gp T (nrow y) (noff y)); cbn; intros [= <-]; auto.
  Qed.

  (** the sibling coordinate of a root holds no node *)
  Lemma sib_nonroot a b : In a lay -> In b lay -> coord b = (nrow a, N.lxor (noff a) 1) -> nroot a = false.
  Proof.
    intros Ha Hb Eb. destruct (nroot a) eqn:Ra; [exfalso|reflexivity].
    pose proof (node_is_root_c H HO s a Ha) as Hr. rewrite Ra in Hr.
    pose proof (node_in_forest H HO s b Hb) as Hf. destruct (coord_eq _ _ _ Eb) as [Er Eo].
    rewrite Er, Eo in Hf. exact (pps_root_sib_out _ _ _ Hr Hf).
  Qed.

  Variable xs : list (node H).

  (** the invariant of the loop of [deTwin]: the current list are the positions of nodes [C] *)
  Record psi (C : list (node H)) : Prop := mkPsi {
    ps_sorted : StronglySorted pl C;
    ps_node : forall c, In c C -> In c lay /\
      (exists z, In z lay /\ nleaf z = true /\ under (coord c) (coord z)) /\
      (forall w, In w lay -> nleaf w = true -> under (coord c) (coord w) -> In w xs);
    ps_cover : forall w, In w xs -> exists c, In c C /\ under (coord c) (coord w);
    ps_disj : forall c1 c2, In c1 C -> In c2 C -> c1 <> c2 -> ~ under (coord c1) (coord c2) }.

  Definition notwin_before (i : nat) (C : list (node H)) : Prop :=
    forall j a b, (j < i)%nat -> nth_error C j = Some a -> nth_error C (S j) = Some b ->
                  rightSib (gp T (nrow a) (noff a)) <> gp T (nrow b) (noff b).

  Lemma dt_valid y : In y lay -> N.of_nat (nrow y) <= T /\ noff y < 2 ^ (T - N.of_nat (nrow y)).
  Proof. exact (ng_valid H HO s T Hn63 HTlo HT63 y). Qed.

  Lemma rightSib_le q : rightSib q <= q + 1.
  Proof. unfold rightSib, or64. rewrite lor_1. destruct (N.even q); lia. Qed.

  (** merging two twins *)
  Lemma merge_step C i a b : psi C -> notwin_before i C ->
    nth_error C i = Some a -> nth_error C (S i) = Some b ->
    rightSib (gp T (nrow a) (noff a)) = gp T (nrow b) (noff b) ->
    exists C', insertInOrder (firstn i (map gpx C) ++ skipn (S (S i)) (map gpx C))
                 (Parent (gp T (nrow a) (noff a)) T) = map gpx C' /\
               psi C' /\ notwin_before i C' /\ S (length C') = length C.
  Proof.
    intros P Hnt Ea Eb Etw. destruct (nth_split2 C i a b Ea Eb) as [EC Li].
    set (pre := firstn i C) in *. set (post := skipn (S (S i)) C) in *.
    assert (A1 : firstn i (map gpx C) = map gpx pre) by (unfold pre; apply firstn_map).
    assert (A2 : skipn (S (S i)) (map gpx C) = map gpx post) by (unfold post; apply skipn_map).
    clearbody pre post.
    assert (HaC : In a C) by exact (nth_error_In _ _ Ea).
    assert (HbC : In b C) by exact (nth_error_In _ _ Eb).
    destruct (ps_node _ P a HaC) as (Ha & (za & Hza & Lza & Uza) & Hax).
    destruct (ps_node _ P b HbC) as (Hb & _ & Hbx).
    pose proof (SS_nth _ _ (ps_sorted _ P) i a b Ea Eb) as Hab. unfold pl in Hab.
    destruct (twins_coord H HO s T Hn63 HTlo HT63 a b Ha Hb Etw) as [->|[Ecb Eva]]; [lia|].
    pose proof (sib_nonroot a b Ha Hb Ecb) as Ra.
    destruct (ng_family H HO s a Ha Ra) as (p & sb & Hp & Hsb & _ & Lp & Esb & Ep & _).
    assert (sb = b) by (apply (ng_coord_eq H HO s sb b Hsb Hb); congruence). subst sb.
    destruct (coord_eq _ _ _ Ep) as [Epr Epo].
    destruct (dt_valid a Ha) as [Va1 Va2]. destruct (dt_valid p Hp) as [Vp1 Vp2].
    destruct (dt_valid b Hb) as [Vb1 Vb2].
    assert (EP : Parent (gp T (nrow a) (noff a)) T = gp T (nrow p) (noff p)).
    { unfold gp. rewrite Parent_gpos; [|exact HT63|lia|exact Va2]. rewrite Epr, Epo. f_equal. lia. }
    assert (Hpb : gp T (nrow b) (noff b) < gp T (nrow p) (noff p)).
    { unfold gp. destruct (coord_eq _ _ _ Ecb) as [Ebr _].
      apply gpos_row_mono; [lia|exact Vp1|exact Vb2]. }
    (* the decomposition of C *)
    pose proof (ps_sorted _ P) as SC. rewrite EC in SC.
    destruct (SS_app_elim _ _ _ SC) as (Spre & Srest & Hcross).
    apply StronglySorted_inv in Srest as [Sb' Halla]. apply StronglySorted_inv in Sb' as [Spost Hallb].
    rewrite Forall_forall in Halla, Hallb.
    assert (Hpre_lt : forall y, In y pre -> gp T (nrow y) (noff y) < gp T (nrow a) (noff a)).
    { intros y Hy. apply (Hcross y a Hy). left. reflexivity. }
    assert (Hin_pre : forall y, In y pre -> In y C) by (intros y Hy; rewrite EC; apply in_or_app; left; exact Hy).
    assert (Hin_post : forall y, In y post -> In y C)
      by (intros y Hy; rewrite EC; apply in_or_app; right; right; right; exact Hy).
    assert (HpnC : ~ In p C).
    { intros HpC. apply (ps_disj _ P p a HpC HaC).
      - intros ->. lia.
      - rewrite Ep. exact (proj2 (under_sib_par (nrow a) (noff a))). }
    exists (pre ++ insN p post). split; [|split; [|split]].
    - rewrite EP, A1, A2. rewrite map_app, insN_map. apply insertInOrder_app.
      intros y Hy. apply in_map_iff in Hy as (y0 & <- & Hy0). specialize (Hpre_lt y0 Hy0). lia.
    - constructor.
      + apply SS_app_intro; [exact Spre| |].
        * apply insN_sorted; [exact Spost|]. intros y Hy E.
          apply HpnC. rewrite <- (ng_inj H HO s T Hn63 HTlo HT63 y p (proj1 (ps_node _ P y (Hin_post y Hy))) Hp E).
          exact (Hin_post y Hy).
        * intros x y Hx Hy. apply insN_In in Hy as [->|Hy].
          -- unfold pl. specialize (Hpre_lt x Hx). lia.
          -- unfold pl. specialize (Hpre_lt x Hx). specialize (Hallb y Hy). unfold pl in Hallb. lia.
      + intros c Hc. apply in_app_or in Hc as [Hc|Hc]; [exact (ps_node _ P c (Hin_pre c Hc))|].
        apply insN_In in Hc as [->|Hc]; [|exact (ps_node _ P c (Hin_post c Hc))].
        split; [exact Hp|]. split.
        * exists za. split; [exact Hza|]. split; [exact Lza|].
          rewrite Ep. exact (under_trans _ _ _ (proj2 (under_sib_par (nrow a) (noff a))) Uza).
        * intros w Hw Lw Uw. rewrite Ep in Uw.
          assert (Hne : coord w <> (S (nrow a), noff a / 2)).
          { intros C0. rewrite <- Ep in C0. rewrite (ng_coord_eq H HO s w p Hw Hp C0) in Lw. congruence. }
          destruct (under_P_split _ _ _ Uw Hne) as [U1|U1]; [exact (Hax w Hw Lw U1)|].
          rewrite <- Ecb in U1. exact (Hbx w Hw Lw U1).
      + intros w Hw. destruct (ps_cover _ P w Hw) as (c & Hc & Uc).
        rewrite EC in Hc. apply in_app_or in Hc as [Hc|[<-|[<-|Hc]]].
        * exists c. split; [apply in_or_app; left; exact Hc|exact Uc].
        * exists p. split; [apply in_or_app; right; apply insN_In; left; reflexivity|].
          rewrite Ep. exact (under_trans _ _ _ (proj2 (under_sib_par (nrow a) (noff a))) Uc).
        * exists p. split; [apply in_or_app; right; apply insN_In; left; reflexivity|].
          rewrite Ep. rewrite Ecb in Uc. exact (under_trans _ _ _ (proj1 (under_sib_par (nrow a) (noff a))) Uc).
        * exists c. split; [apply in_or_app; right; apply insN_In; right; exact Hc|exact Uc].
      + assert (Hmem : forall c, In c (pre ++ insN p post) -> c = p \/ (In c C /\ c <> a /\ c <> b)).
        { intros c Hc. apply in_app_or in Hc as [Hc|Hc].
          - right. split; [exact (Hin_pre c Hc)|]. specialize (Hpre_lt c Hc). split; intros ->; lia.
          - apply insN_In in Hc as [->|Hc]; [left; reflexivity|right]. split; [exact (Hin_post c Hc)|].
            specialize (Hallb c Hc). unfold pl in Hallb. split; intros ->; lia. }
        intros c1 c2 H1 H2 Hne U. destruct (Hmem c1 H1) as [->|(H1C & N1a & N1b)],
          (Hmem c2 H2) as [->|(H2C & N2a & N2b)].
        * contradiction.
        * rewrite Ep in U.
          assert (Hne2 : coord c2 <> (S (nrow a), noff a / 2)).
          { intros C0. rewrite <- Ep in C0.
            apply Hne. symmetry. exact (ng_coord_eq H HO s c2 p (proj1 (ps_node _ P c2 H2C)) Hp C0). }
          destruct (under_P_split _ _ _ U Hne2) as [U1|U1].
          -- exact (ps_disj _ P a c2 HaC H2C (fun E => N2a (eq_sym E)) U1).
          -- rewrite <- Ecb in U1. exact (ps_disj _ P b c2 HbC H2C (fun E => N2b (eq_sym E)) U1).
        * apply (ps_disj _ P c1 a H1C HaC N1a).
          rewrite Ep in U. exact (under_trans _ _ _ U (proj2 (under_sib_par (nrow a) (noff a)))).
        * exact (ps_disj _ P c1 c2 H1C H2C Hne U).
    - (* no twins before i *)
      intros j x y Hj Ex Ey.
      assert (Hjx : nth_error pre j = Some x).
      { rewrite nth_error_app1 in Ex by lia. exact Ex. }
      assert (ExC : nth_error C j = Some x).
      { rewrite EC. rewrite nth_error_app1 by lia. exact Hjx. }
      destruct (Nat.eq_dec (S j) i) as [Ej|Ej].
      + (* the last element of the prefix and the first one after it *)
        rewrite nth_error_app2 in Ey by lia. replace (S j - length pre)%nat with 0%nat in Ey by lia.
        pose proof (Hpre_lt x (nth_error_In _ _ Hjx)) as Hx.
        pose proof (rightSib_le (gp T (nrow x) (noff x))) as Hrs.
        destruct (insN_head p post y Ey) as [->|Ey'].
        * lia.
        * pose proof (Hallb y (nth_error_In _ _ Ey')) as Hy. unfold pl in Hy. lia.
      + assert (EyC : nth_error C (S j) = Some y).
        { rewrite nth_error_app1 in Ey by lia. rewrite EC. rewrite nth_error_app1 by lia. exact Ey. }
        exact (Hnt j x y Hj ExC EyC).
    - assert (EL : length C = length (pre ++ a :: b :: post)) by (rewrite <- EC; reflexivity).
      rewrite EL, !app_length, insN_length. cbn [length]. lia.
  Qed.

  Lemma notwin_mono i k C : notwin_before i C -> (forall j, (j < k)%nat -> (S j < length C)%nat -> (j < i)%nat) ->
    notwin_before k C.
  Proof.
    intros Hn Hk j a b Hj Ea Eb. apply (Hn j a b); [|exact Ea|exact Eb].
    apply Hk; [exact Hj|]. apply nth_error_Some. congruence.
  Qed.

  Lemma deTwin_loop_psi : forall (fuel i : nat) C, psi C -> notwin_before i C ->
    (2 * length C + 1 <= fuel + i)%nat ->
    exists C', deTwin_loop fuel i (map gpx C) T = map gpx C' /\ psi C' /\ notwin_before (length C') C'.
  Proof.
    induction fuel as [|f IH]; intros i C P Hnt Hf.
    - exists C. split; [reflexivity|]. split; [exact P|]. apply (notwin_mono i); [exact Hnt|]. intros j A B. lia.
    - cbn [deTwin_loop]. rewrite !nth_error_map.
      destruct (nth_error C i) as [a|] eqn:Ea; cbn [option_map].
      + destruct (nth_error C (S i)) as [b|] eqn:Eb; cbn [option_map].
        * destruct (N.eqb_spec (rightSib (gp T (nrow a) (noff a))) (gp T (nrow b) (noff b))) as [Etw|Etw].
          -- destruct (merge_step C i a b P Hnt Ea Eb Etw) as (C1 & E1 & P1 & N1 & L1).
             rewrite E1. apply (IH i C1 P1 N1). lia.
          -- apply (IH (S i) C P); [|lia]. intros j x y Hj Ex Ey.
             destruct (Nat.eq_dec j i) as [->|Hne]; [|apply (Hnt j x y); [lia|exact Ex|exact Ey]].
             rewrite Ea in Ex. rewrite Eb in Ey. injection Ex as <-. injection Ey as <-. exact Etw.
        * exists C. split; [reflexivity|]. split; [exact P|]. apply (notwin_mono i); [exact Hnt|].
          intros j A B. apply nth_error_None in Eb. lia.
      + exists C. split; [reflexivity|]. split; [exact P|]. apply (notwin_mono i); [exact Hnt|].
        intros j A B. apply nth_error_None in Ea. lia.
  Qed.

  (** in a strictly sorted list an element and its successor by position are neighbours *)
  Lemma SS_adjacent C a b : StronglySorted pl C -> In a C -> In b C ->
    gp T (nrow b) (noff b) = gp T (nrow a) (noff a) + 1 ->
    exists j b', nth_error C j = Some a /\ nth_error C (S j) = Some b' /\
                 gp T (nrow b') (noff b') = gp T (nrow b) (noff b).
  Proof.
    intros Ss Ha Hb E. destruct (in_split a C Ha) as (l1 & l2 & ->).
    destruct (SS_app_elim _ _ _ Ss) as (_ & S2 & Hc). apply StronglySorted_inv in S2 as [S2 Hall].
    rewrite Forall_forall in Hall.
    assert (Hb2 : In b l2).
    { apply in_app_or in Hb as [Hb|[->|Hb]]; [|lia|exact Hb].
      specialize (Hc b a Hb (or_introl eq_refl)). unfold pl in Hc. lia. }
    destruct l2 as [|b' l2']; [destruct Hb2|].
    exists (length l1), b'. split; [|split].
    - rewrite nth_error_app2 by lia. rewrite Nat.sub_diag. reflexivity.
    - rewrite nth_error_app2 by lia. replace (S (length l1) - length l1)%nat with 1%nat by lia. reflexivity.
    - pose proof (Hall b' (or_introl eq_refl)) as H1. unfold pl in H1.
      destruct Hb2 as [->|Hb2]; [reflexivity|].
      apply StronglySorted_inv in S2 as [_ Hall2]. rewrite Forall_forall in Hall2.
      specialize (Hall2 b Hb2). unfold pl in Hall2. lia.
  Qed.

  (** ** the general case *)
  Theorem detwinned_general ls : Permutation xs ls -> StronglySorted (npl H s) ls ->
    (forall x, In x xs -> In x lay /\ nleaf x = true) ->
    exists ys, detwinned H HO s T xs ls ys.
  Proof.
    intros Pls Sls Hxs.
    assert (Hls : forall x, In x ls -> In x lay /\ nleaf x = true /\ In x xs).
    { intros x Hx. apply (Permutation_in _ (Permutation_sym Pls)) in Hx. destruct (Hxs x Hx). auto. }
    assert (P0 : psi ls).
    { constructor.
      - clear - Sls Hls Hn63 HTlo HT63. induction Sls as [|a l S IH Hall]; [constructor|].
        constructor; [apply IH; intros x Hx; apply Hls; right; exact Hx|].
        rewrite Forall_forall in *. intros b Hb.
        exact (proj1 (npl_rows H HO s T Hn63 HTlo HT63 a b (proj1 (Hls a (or_introl eq_refl)))
                        (proj1 (Hls b (or_intror Hb))) (Hall b Hb))).
      - intros c Hc. destruct (Hls c Hc) as (Hcl & Lc & Hcx). split; [exact Hcl|]. split.
        + exists c. split; [exact Hcl|]. split; [exact Lc|apply under_refl].
        + intros w Hw Lw U. rewrite (ng_leaf_bottom H HO s T Hn63 HTlo HT63 c w Hcl Hw Lc U). exact Hcx.
      - intros w Hw. exists w. split; [exact (Permutation_in _ Pls Hw)|apply under_refl].
      - intros c1 c2 H1 H2 Hne U. destruct (Hls c1 H1) as (Hc1 & L1 & _). destruct (Hls c2 H2) as (Hc2 & _).
        apply Hne. symmetry. exact (ng_leaf_bottom H HO s T Hn63 HTlo HT63 c1 c2 Hc1 Hc2 L1 U). }
    destruct (deTwin_loop_psi (2 * length (map gpx ls) + 2) 0 ls P0) as (C & EC & PC & NC).
    { intros j a b Hj. lia. }
    { rewrite map_length. lia. }
    exists C. split; [exact EC|]. split; [|split].
    - intros y Hy. destruct (ps_node _ PC y Hy) as (A & B & _). auto.
    - intros w Hw Lw. split.
      + intros (y & Hy & U). exact (proj2 (proj2 (ps_node _ PC y Hy)) w Hw Lw U).
      + intros Hwx. exact (ps_cover _ PC w Hwx).
    - apply (SS_FOP _ _ _ (ps_sorted _ PC)). intros a b Ha Hb Hlt. unfold pl in Hlt.
      destruct (ps_node _ PC a Ha) as (Hal & _). destruct (ps_node _ PC b Hb) as (Hbl & _).
      assert (Hne : a <> b) by (intros ->; lia).
      destruct (dt_valid a Hal) as [A1 A2]. destruct (dt_valid b Hbl) as [B1 B2].
      split; [|split; [|split]].
      + exact (ps_disj _ PC a b Ha Hb Hne).
      + exact (ps_disj _ PC b a Hb Ha (fun E => Hne (eq_sym E))).
      + intros Ec. destruct (coord_eq _ _ _ Ec) as [Er Eo].
        assert (Hsucc : gp T (nrow b) (noff b) = gp T (nrow a) (noff a) + 1).
        { unfold gp in *. rewrite Er, Eo in *. pose proof (lxor_1 (noff a)) as Hx.
          unfold gpos in *. destruct (N.even (noff a)) eqn:Ev; [lia|]. pose proof (odd_nz _ Ev). lia. }
        destruct (SS_adjacent C a b (ps_sorted _ PC) Ha Hb Hsucc) as (j & b' & Ej & Ej' & Eb').
        assert (Hjl : (j < length C)%nat) by (apply nth_error_Some; congruence).
        apply (NC j a b' Hjl Ej Ej').
        rewrite Eb', Hsucc. unfold gp in *. rewrite Er, Eo in *.
        rewrite rightSib_gpos by exact A1. pose proof (lor_1 (noff a)) as Hl. pose proof (lxor_1 (noff a)) as Hx.
        unfold gpos in *. destruct (N.even (noff a)) eqn:Ev; [lia|]. pose proof (odd_nz _ Ev). lia.
      + unfold gp in Hlt. apply gpos_lt_lex in Hlt; try assumption. lia.
  Qed.
End DeTwinGen.

Section DeleteLeaves.
  Variable H : Type.
  Variable HO : ops H.
  Hypothesis HOK : ops_ok HO.

  (** ** G2: any set of distinct remembered leaves, the hashes and the targets in any order *)
  Theorem mm_modify_delete_leaves s R m xs dels targets proof : Inv HO s R m -> NoDup xs ->
    (forall x, In x xs -> In x (layout HO s) /\ nleaf x = true /\ In (nhash x) R) ->
    (forall h, In h dels <-> exists x, In x xs /\ nhash x = h) ->
    Permutation targets (map (npos (rows_of (num_leaves s))) xs) ->
    exists m', mm_modify HO m [] dels targets proof = Some m' /\
               Inv HO (kill HO dels s) (filter (fun h => negb (memH HO h dels)) R) m'.
  Proof.
    intros I Hnd Hxs Hdels Hperm.
    apply (remove_leaves H HO HOK s R m xs dels targets proof I Hnd Hxs Hdels Hperm).
    intros ls Pls Sls.
    apply (detwinned_general H HO s (ms_total m) (pi_n63 H HO s R R m I) (pi_Tlo H HO s R R m I) (i_T63 I)
             xs ls Pls Sls).
    intros x Hx. destruct (Hxs x Hx) as (A & B & _). auto.
  Qed.
End DeleteLeaves.

(** * 20. The deleted leaves given by their hashes: the targets as the map forest reports them *)
Section DeleteHashes.
  Variable H : Type.
  Variable HO : ops H.
  Hypothesis HOK : ops_ok HO.

  Lemma leaf_positions s R m : Inv HO s R m -> forall dels, (forall h, In h dels -> In h R) ->
    exists ts, map (@nhash H) ts = dels /\
      (forall x, In x ts -> In x (layout HO s) /\ nleaf x = true) /\
      GetLeafHashPositions HO m dels = map (npos (rows_of (num_leaves s))) ts.
  Proof.
    intros I. pose proof (Inv_consistent H HO HOK s R m I) as Hc.
    induction dels as [|h dels IH]; intros Hsub.
    - exists []. split; [reflexivity|]. split; [intros y []|reflexivity].
    - destruct (IH (fun h' Hh' => Hsub h' (or_intror Hh'))) as (ts & Ets & Hts & Epos).
      pose proof (Hsub h (or_introl eq_refl)) as Hh.
      destruct (live_leaf_in_layout H HO s h (i_Rn I h Hh)) as (x & Hx & Lx & Ex).
      exists (x :: ts). split; [cbn [map]; congruence|]. split.
      + intros y [<-|Hy]; [auto|exact (Hts y Hy)].
      + unfold GetLeafHashPositions in *. cbn [map]. rewrite Epos. f_equal.
        unfold GetLeafPosition.
        assert (Ec : cached_get HO (ms_cached m) h = Some (gp (ms_total m) (nrow x) (noff x))).
        { apply (i_cached I). split; [exact Hh|]. exists x. auto. }
        rewrite Ec. exact (translate_node H HO s R m Hc x Hx).
  Qed.

  Theorem mm_modify_delete_hashes s R m dels proof : Inv HO s R m -> NoDup dels ->
    (forall h, In h dels -> In h R) ->
    exists m', mm_modify HO m [] dels (GetLeafHashPositions HO m dels) proof = Some m' /\
               Inv HO (kill HO dels s) (filter (fun h => negb (memH HO h dels)) R) m'.
  Proof.
    intros I Hnd Hsub. destruct (leaf_positions s R m I dels Hsub) as (ts & Ets & Hts & Epos).
    rewrite Epos.
    apply (mm_modify_delete_leaves H HO HOK s R m ts dels _ proof I).
    - rewrite <- Ets in Hnd. exact (NoDup_map_inv _ _ Hnd).
    - intros x Hx. destruct (Hts x Hx) as [A B]. split; [exact A|]. split; [exact B|].
      apply Hsub. rewrite <- Ets. apply in_map, Hx.
    - intros h. rewrite <- Ets, in_map_iff. split; intros (x & A & B); exists x; auto.
    - apply Permutation_refl.
  Qed.
End DeleteHashes.

(** * 21. A decision procedure for the invariant (sound), and a worked example *)
Section InvDecide.
  Variable H : Type.
  Variable HO : ops H.
  Hypothesis HOK : ops_ok HO.

  Fixpoint nodupN (l : list N) : bool :=
    match l with [] => true | x :: t => negb (memN x t) && nodupN t end.
  Fixpoint nodupH (l : list H) : bool :=
    match l with [] => true | x :: t => negb (memH HO x t) && nodupH t end.

  Lemma nodupN_sound l : nodupN l = true -> NoDup l.
  Proof.
    induction l as [|x l IH]; intros E; [constructor|]. cbn [nodupN] in E.
    apply andb_true_iff in E as [E1 E2]. constructor; [|exact (IH E2)].
    intros Hin. apply RefTheory.memN_In in Hin. rewrite Hin in E1. discriminate.
  Qed.

  Lemma nodupH_sound l : nodupH l = true -> NoDup l.
  Proof.
    induction l as [|x l IH]; intros E; [constructor|]. cbn [nodupH] in E.
    apply andb_true_iff in E as [E1 E2]. constructor; [|exact (IH E2)].
    intros Hin. apply (memH_In H HO HOK) in Hin. rewrite Hin in E1. discriminate.
  Qed.

  Definition Invb (s : slots H) (R : list H) (m : mstate H) : bool :=
    let lay := layout HO s in
    let T := ms_total m in
    (ms_n m =? num_leaves s) && (ms_n m <=? 2 ^ 63) && (TreeRows (ms_n m) <=? T) && (T <=? 63)
    && nodupH (live s) && nodupN (map fst (ms_nodes m)) && nodupH (map fst (ms_cached m))
    && forallb (fun e : N * (H * bool) =>
                  existsb (fun x => (fst e =? gp T (nrow x) (noff x)) &&
                                    op_eqb HO (nhash x) (fst (snd e))) lay) (ms_nodes m)
    && forallb (fun h => memH HO h (live s)) R
    && forallb (fun e : H * N =>
                  memH HO (fst e) R &&
                  existsb (fun x => nleaf x && op_eqb HO (nhash x) (fst e) &&
                                    (snd e =? gp T (nrow x) (noff x))) lay) (ms_cached m)
    && forallb (fun h => cached_has HO (ms_cached m) h) R
    && forallb (fun x => negb (nroot x) || storedb m (gp T (nrow x) (noff x))) lay
    && forallb (fun x => negb (nleaf x && memH HO (nhash x) R) ||
                         match nodes_get (ms_nodes m) (gp T (nrow x) (noff x)) with
                         | Some (h', true) => op_eqb HO h' (nhash x)
                         | _ => false
                         end) lay
    && forallb (fun x => negb (nleaf x && memH HO (nhash x) R) ||
                         forallb (fun k : nat =>
                                    storedb m (gp T (nrow x + k) (N.lxor (noff x / 2 ^ N.of_nat k) 1)))
                                 (seq 0 (ntree x - nrow x))) lay.

  Theorem Invb_sound s R m :
    (forall h a b, In (Some h) s -> h <> op_hash2 HO a b) ->
    (forall h, In (Some h) s -> h <> op_empty HO) ->
    Invb s R m = true -> Inv HO s R m.
  Proof.
    intros Hnn Hnz. unfold Invb. cbv zeta. rewrite !andb_true_iff.
    intros (((((((((((((En & En63) & Erows) & ET) & Elive) & Ekeys) & Eckeys) & Etrue) & ER) & Eca) & ERc)
              & Eroots) & Eleaf) & Esibs).
    rewrite forallb_forall in Etrue, ER, Eca, ERc, Eroots, Eleaf, Esibs.
    pose proof (nodupH_sound _ Elive) as Hlnd. pose proof (nodupN_sound _ Ekeys) as Hk.
    pose proof (nodupH_sound _ Eckeys) as Hck.
    assert (Hstored : forall p, storedb m p = true -> nodes_get (ms_nodes m) p <> None).
    { intros p. unfold storedb. destruct (nodes_get (ms_nodes m) p); [discriminate|discriminate]. }
    assert (HRlive : forall h, In h R -> In (Some h) s).
    { intros h Hh. apply (live_in H). apply (memH_In H HO HOK). exact (ER h Hh). }
    constructor.
    - apply N.eqb_eq, En.
    - apply N.leb_le, En63.
    - apply N.leb_le, Erows.
    - apply N.leb_le, ET.
    - exact Hlnd.
    - exact Hnn.
    - exact Hnz.
    - exact Hk.
    - exact Hck.
    - intros p h b E. apply (nodes_get_In H) in E. specialize (Etrue _ E). cbn [fst snd] in Etrue.
      apply existsb_exists in Etrue as (x & Hx & Ex). apply andb_true_iff in Ex as [E1 E2].
      apply N.eqb_eq in E1. apply HOK in E2. exists x. auto.
    - exact HRlive.
    - auto.
    - intros h p. split.
      + intros E. apply (cached_get_In H HO HOK) in E. specialize (Eca _ E). cbn [fst snd] in Eca.
        apply andb_true_iff in Eca as [E1 E2]. apply (memH_In H HO HOK) in E1. split; [exact E1|].
        apply existsb_exists in E2 as (x & Hx & Ex). apply andb_true_iff in Ex as [Ex E3].
        apply andb_true_iff in Ex as [E4 E5]. apply HOK in E5. apply N.eqb_eq in E3. exists x. auto.
      + intros (Hh & x & Hx & Lx & Ex & ->). specialize (ERc h Hh). unfold cached_has in ERc.
        destruct (cached_get HO (ms_cached m) h) as [p'|] eqn:Ec; [|discriminate]. f_equal.
        pose proof Ec as Ec'. apply (cached_get_In H HO HOK) in Ec'. specialize (Eca _ Ec'). cbn [fst snd] in Eca.
        apply andb_true_iff in Eca as [_ E2].
        apply existsb_exists in E2 as (x' & Hx' & Ex'). apply andb_true_iff in Ex' as [Ex' E3].
        apply andb_true_iff in Ex' as [E4 E5]. apply HOK in E5. apply N.eqb_eq in E3.
        rewrite (live_leaf_unique H HO s x x' Hlnd Hx Hx' Lx E4 ltac:(congruence)). exact E3.
    - intros x Hx Rx. specialize (Eroots x Hx). rewrite Rx in Eroots. cbn [negb orb] in Eroots.
      apply Hstored, Eroots.
    - intros x Hx Lx Hh. specialize (Eleaf x Hx). apply (memH_In H HO HOK) in Hh. rewrite Lx, Hh in Eleaf.
      cbn [andb negb orb] in Eleaf.
      destruct (nodes_get (ms_nodes m) (gp (ms_total m) (nrow x) (noff x))) as [[h' [|]]|]; try discriminate.
      apply HOK in Eleaf. subst h'. reflexivity.
    - intros x Hx Lx Hh k Hkt. specialize (Esibs x Hx). apply (memH_In H HO HOK) in Hh. rewrite Lx, Hh in Esibs.
      cbn [andb negb orb] in Esibs. rewrite forallb_forall in Esibs. apply Hstored, Esibs.
      apply in_seq. lia.
  Qed.
End InvDecide.

(** Example: 7 leaves (the trees of 4, 2 and 1 leaves), the leaves 2, 3 and 6 remembered, the forest
    allocated with 4 rows (minimum 3): the state after adding them satisfies the invariant, and so
    do the states after deleting [Atom 3], and then [Atom 6; Atom 2] (in this order of the hashes). *)
From Utreexo Require Import Spec.Term.

Definition mr_ex_s : slots term := map (fun i => Some (Atom (N.of_nat i))) (seq 1 7).
Definition mr_ex_R : list term := [Atom 2; Atom 3; Atom 6].
Definition mr_ex_m : mstate term :=
  match mm_modify term_ops (mkM [] [] 0 4 false)
          (map (fun i => (Atom (N.of_nat i), orb (orb (Nat.eqb i 2) (Nat.eqb i 3)) (Nat.eqb i 6))) (seq 1 7))
          [] [] [] with
  | Some m => m
  | None => mkM [] [] 0 4 false
  end.

Lemma mr_ex_atoms : (forall h a b, In (Some h) mr_ex_s -> h <> op_hash2 term_ops a b) /\
                    (forall h, In (Some h) mr_ex_s -> h <> op_empty term_ops).
Proof.
  split.
  - intros h a b Hin. cbn in Hin. repeat (destruct Hin as [E|Hin]; [injection E as <-; discriminate|]). destruct Hin.
  - intros h Hin. cbn in Hin. repeat (destruct Hin as [E|Hin]; [injection E as <-; discriminate|]). destruct Hin.
Qed.

Example mr_ex_Inv : Inv term_ops mr_ex_s mr_ex_R mr_ex_m.
Proof.
  apply (Invb_sound term term_ops term_ops_ok); [exact (proj1 mr_ex_atoms)|exact (proj2 mr_ex_atoms)|].
  vm_compute. reflexivity.
Qed.

Example mr_ex_delete :
  exists m1 m2,
    mm_modify term_ops mr_ex_m [] [Atom 3] (GetLeafHashPositions term_ops mr_ex_m [Atom 3]) [] = Some m1 /\
    Inv term_ops (kill term_ops [Atom 3] mr_ex_s) [Atom 2; Atom 6] m1 /\
    mm_modify term_ops m1 [] [Atom 6; Atom 2] (GetLeafHashPositions term_ops m1 [Atom 6; Atom 2]) [] = Some m2 /\
    Inv term_ops (kill term_ops [Atom 6; Atom 2] (kill term_ops [Atom 3] mr_ex_s)) [] m2 /\
    consistent term_ops (kill term_ops [Atom 6; Atom 2] (kill term_ops [Atom 3] mr_ex_s)) [] m2.
Proof.
  destruct (mm_modify_delete_hashes term term_ops term_ops_ok mr_ex_s mr_ex_R mr_ex_m [Atom 3] [] mr_ex_Inv)
    as (m1 & E1 & I1).
  { repeat constructor. intros []. }
  { intros h [<-|[]]. cbn. auto. }
  change (filter (fun h => negb (memH term_ops h [Atom 3])) mr_ex_R) with [Atom 2; Atom 6] in I1.
  destruct (mm_modify_delete_hashes term term_ops term_ops_ok _ _ m1 [Atom 6; Atom 2] [] I1) as (m2 & E2 & I2).
  { repeat constructor; cbn; intuition discriminate. }
  { intros h [<-|[<-|[]]]; cbn; auto. }
  change (filter (fun h => negb (memH term_ops h [Atom 6; Atom 2])) [Atom 2; Atom 6]) with (@nil term) in I2.
  exists m1, m2. split; [exact E1|]. split; [exact I1|]. split; [exact E2|]. split; [exact I2|].
  exact (Inv_consistent term term_ops term_ops_ok _ _ _ I2).
Qed.

(** every theorem is axiom-free *)
Print Assumptions Inv_consistent.
Print Assumptions removeSingle_node.
Print Assumptions mm_modify_delete1.
Print Assumptions mm_modify_delete_leaves.
Print Assumptions mm_modify_delete_hashes.
Print Assumptions mr_ex_delete.
