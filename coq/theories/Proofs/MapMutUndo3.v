(** C06, third part: histories that MIX blocks and undos, on full forests.

    The abstract state is a STACK of reference snapshots: the current [(s, R)] and, newest first,
    the snapshots before the blocks that are still applied, each with its block.  Operations:
    - [SBlock adds dels]: [Modify] (push); valid as a block of Proofs/MapMutUnify2.v whose added
      leaves are no [hash2] images;
    - [SUndo]: [Undo] of the newest block (pop); valid when the stack is not empty; it runs [mm_undo]
      with the popped block's addition count, the canonical targets and proof ([exp_prove]) of its
      deleted leaves in the previous forest, their hashes and the previous roots.

    - [sop_pres]: both operations preserve the invariant [SInv] ([MapMutAdd.Inv] for the snapshot
      on top, [ms_full = true], and the facts about the stacked snapshots that [Undo] needs), from
      [MapMutUnify2.block_Inv], [MapMutUndo2.undo_block], [MapMutUndo2.R_restore] and
      [MapMutUndo2.UInv_AInv_full].
    - [shistory_ok]: from the empty full forest every valid sequence of operations runs on the
      mirror without error and ends in [MapMutAdd.Inv] (hence [consistent]) for the snapshot on top.
    - [sfinal_blocks], [stack_replay]: the snapshot on top is the one reached by the blocks that
      were not undone ([net]), applied from the empty forest, and that history of blocks is valid
      for [MapMutUnify2.history2_ok].
    - [shistory_observables]: roots, leaf count, [Prove], [GetLeafPosition] of the state reached =
      the reference for the snapshot on top; [shistory_as_if]: they are those of the state reached
      by applying only the blocks that were not undone.
    - an example over the free hash algebra: blocks, two undos, different blocks re-applied.

    Partial forests: [MapMutUnify2.block_Inv] needs the tidiness clause of [MapMutAdd.Inv], and
    [Undo] is only known to give [MapMutUndo.UInv] (no tidiness).  The development is therefore
    parametric in the flag [full] and in the premise [full = false -> undo_tidy] ("[Undo] leaves a
    tidy node map"): [full_history_*] are the instances for full forests (premise void),
    [partial_history_ok] is the theorem for partial forests WITH the premise [undo_tidy]; the premise
    is checked by computation on an example ([mmu3_partial_run]) and was tested exhaustively on small
    forests, but it is not proved.  No axioms; [Print Assumptions] at the end. *)
From Utreexo Require Import Base.Hash Model.Utils Model.UtilsFast Model.Verify Model.MapRead
  Model.MapMut Spec.Forest Spec.Oracle Proofs.SpecBasics Proofs.StumpAdd Proofs.LayoutStruct Proofs.MapReadSpec
  Proofs.MapMutAdd Proofs.MapMutUnify Proofs.MapMutUnify2 Proofs.MapMutUndo Proofs.MapMutUndo2.
From Coq Require Import List Arith PeanoNat NArith Lia Bool Permutation.
Import ListNotations.
Open Scope N_scope.

Section StackHistory.
  Variable H : Type.
  Variable HO : ops H.
  Hypothesis HOK : ops_ok HO.
  Hypothesis Hh2 : forall x y, op_eqb HO (op_hash2 HO x y) (op_empty HO) = false.
  Notation AInv := (MapMutAdd.Inv H HO).
  Notation astate := (slots H * list H)%type.
  Notation blk := (list (H * bool) * list H)%type.           (* added leaves with flags, deleted hashes *)
  Notation frame := (astate * blk)%type.                      (* the snapshot before a block, the block *)
  Notation sstate := (astate * list frame)%type.
  Notation keep L := (fun h => negb (memH HO h L)).

  (** what is NOT proved for partial forests: [Undo] leaves a tidy node map (no flags but those of
      remembered leaves; every stored node is a root, a known coordinate or the sibling of a known
      non-root).  Tested by computation (see the end of the file), it is a premise of the theorems
      for partial forests below; for full forests it is not needed. *)
  Definition undo_tidy : Prop :=
    forall (s0 : slots H) (R0 : list H) (adds : list (H * bool)) (dels : list H) ts pf (m m2 : mstate H),
      AInv (apply_block HO s0 dels (map fst adds)) (fold_left (Rnext H false) adds (filter (keep dels) R0)) m ->
      ms_full m = false -> nimage HO s0 -> block_ok H HO false (s0, R0) adds dels -> noimg H HO adds ->
      NoDup (live s0) -> StumpAdd.live_ok H HO s0 ->
      exp_prove HO (mk_ctx HO s0) dels = Some (ts, pf) ->
      mm_undo HO m (N.of_nat (length adds)) ts pf dels (roots HO s0) = Some m2 ->
      Tidy (Vlay HO s0) (RTlay HO s0) R0 (ms_total m2) (ms_nodes m2).

  Variable full : bool.
  Hypothesis Htidy : full = false -> undo_tidy.

  Inductive sop : Type :=
  | SBlock (adds : list (H * bool)) (dels : list H)
  | SUndo.

  Definition sok (st : sstate) (o : sop) : Prop :=
    match o with
    | SBlock adds dels => noimg H HO adds /\ block_ok H HO full (fst st) adds dels
    | SUndo => snd st <> []
    end.
  Definition snext (st : sstate) (o : sop) : sstate :=
    match o with
    | SBlock adds dels => (block_next H HO full (fst st) adds dels, (fst st, (adds, dels)) :: snd st)
    | SUndo => match snd st with
               | [] => st
               | f :: rest => (fst f, rest)
               end
    end.
  Definition srun (st : sstate) (m : mstate H) (o : sop) : option (mstate H) :=
    match o with
    | SBlock adds dels => match exp_prove HO (mk_ctx HO (fst (fst st))) dels with
                          | Some (ts, pf) => mm_modify HO m adds dels ts pf
                          | None => None
                          end
    | SUndo => match snd st with
               | [] => None
               | (prev, (adds, dels)) :: _ =>
                   match exp_prove HO (mk_ctx HO (fst prev)) dels with
                   | Some (ts, pf) => mm_undo HO m (N.of_nat (length adds)) ts pf dels (roots HO (fst prev))
                   | None => None
                   end
               end
    end.

  Fixpoint svalid (st : sstate) (l : list sop) : Prop :=
    match l with
    | [] => True
    | o :: r => sok st o /\ svalid (snext st o) r
    end.
  Fixpoint sfinal (st : sstate) (l : list sop) : sstate :=
    match l with
    | [] => st
    | o :: r => sfinal (snext st o) r
    end.
  Fixpoint srun_all (st : sstate) (m : mstate H) (l : list sop) : option (mstate H) :=
    match l with
    | [] => Some m
    | o :: r => match srun st m o with
                | Some m' => srun_all (snext st o) m' r
                | None => None
                end
    end.

  (** the stacked snapshots: each block was valid where it was applied, and leads to the snapshot
      above it; the bottom is [base] *)
  Fixpoint stack_ok (base cur : astate) (stack : list frame) : Prop :=
    match stack with
    | [] => cur = base
    | (prev, (adds, dels)) :: rest =>
        cur = block_next H HO full prev adds dels /\
        nimage HO (fst prev) /\ block_ok H HO full prev adds dels /\ noimg H HO adds /\
        (forall x, In x (snd prev) -> In (Some x) (fst prev)) /\ (full = true -> R_live H prev) /\ NoDup (live (fst prev)) /\ StumpAdd.live_ok H HO (fst prev) /\
        stack_ok base prev rest
    end.

  Record SInv (base : astate) (st : sstate) (m : mstate H) : Prop := mkSInv {
    si_inv : AInv (fst (fst st)) (snd (fst st)) m;
    si_full : ms_full m = full;
    si_nimage : nimage HO (fst (fst st));
    si_rlive : full = true -> R_live H (fst st);
    si_stack : stack_ok base (fst st) (snd st) }.

  Lemma UInv_AInv (s : slots H) (R : list H) (m : mstate H) :
    UInv HO s R m -> (ms_full m = false -> Tidy (Vlay HO s) (RTlay HO s) R (ms_total m) (ms_nodes m)) ->
    AInv s R m.
  Proof.
    intros [A B C D E F G] Ht. constructor; try assumption.
    intros h Hh. exact (proj1 (F h Hh)).
  Qed.

  (** the one preservation lemma *)
  Theorem sop_pres base st m o : SInv base st m -> sok st o ->
    exists m', srun st m o = Some m' /\ SInv base (snext st o) m'.
  Proof.
    destruct st as [[s R] stack]. intros [I F Hnn HRL Hst] Hok. cbn [fst snd] in *.
    destruct o as [adds dels|]; cbn [sok snext srun fst snd] in *.
    - destruct Hok as [Hni Hb]. pose proof Hb as (Hd & Hfit & Hadd). cbn [fst snd] in Hd, Hfit, Hadd.
      pose proof (MapMutAdd.Inv_consistent H HO HOK s R m I) as Hc.
      destruct (exp_prove_live H HO HOK s dels) as (ts & pf & Ep).
      { intros h Hh. exact (cs_R_live Hc h (proj2 Hd h Hh)). }
      rewrite Ep. rewrite <- F in Hadd.
      destruct (block_Inv H HO HOK Hh2 s R m adds dels ts pf ts pf I Hnn Hd Ep (Permutation_refl _) Hfit Hadd)
        as (m' & E & I' & _ & F').
      exists m'. split; [exact E|]. rewrite F in I', F'. constructor; cbn [fst snd block_next].
      + exact I'.
      + exact F'.
      + apply (nimage_block H HO s dels (map fst adds) Hnn). exact Hni.
      + intros Ef. pose proof (R_live_next H HO (s, R) (@Block H adds dels) (HRL Ef)) as Hn.
        cbn [bop_ok bop_next] in Hn. rewrite Ef. apply Hn. split; [exact Hnn|]. rewrite <- Ef. exact Hb.
      + split; [reflexivity|]. split; [exact Hnn|]. split; [exact Hb|]. split; [exact Hni|].
        split; [exact (cs_R_live Hc)|]. split; [exact HRL|].
        split; [exact (MapMutAdd.inv_nodup H HO s R m I)|].
        split; [exact (MapMutAdd.inv_live H HO s R m I)|exact Hst].
    - destruct stack as [|[[s0 R0] [adds dels]] rest]; [contradiction|]. cbn [fst snd stack_ok] in *.
      destruct Hst as (Ecur & Hnn0 & Hb0 & Hni0 & HR0live & HRL0 & Hnd0 & Hlive0 & Hrest).
      unfold block_next in Ecur. cbn [fst snd] in Ecur. injection Ecur as Es ER.
      pose proof Hb0 as (Hd & Hfit & Hadd). cbn [fst snd] in Hd, Hfit, Hadd.
      destruct (exp_prove_live H HO HOK s0 dels) as (ts & pf & Ep).
      { intros h Hh. exact (HR0live h (proj2 Hd h Hh)). }
      rewrite Ep. subst s R.
      pose proof (AddInv_UInv H HO _ _ _ I (fun h Hh x y => Hnn h x y Hh)) as U1.
      assert (Hlv0 : leaves_ok H HO s0).
      { intros h Hh. split; [exact (Hlive0 h Hh)|]. intros x y. exact (Hnn0 h x y Hh). }
      destruct (undo_block H HO HOK Hh2 s0 dels (map fst adds) ts pf _ m Hnd0 Hlv0 (proj1 Hd) Ep U1)
        as (m2 & R2 & E2 & U2 & HR2 & En2 & ET2 & EF2).
      rewrite map_length in E2. exists m2. split; [exact E2|].
      assert (HRR : forall x, In x R2 <-> In x R0).
      { intros x. rewrite HR2. exact (R_restore H HO HOK s0 R0 full dels adds HR0live (proj2 Hd) Hadd x). }
      pose proof (UInv_ext H HO s0 R2 R0 m2 HRR U2) as U3.
      assert (F2 : ms_full m2 = full) by congruence.
      constructor; cbn [fst snd].
      + apply (UInv_AInv s0 R0 m2 U3). intros Ff. rewrite F2 in Ff.
        pose proof I as I0. pose proof Hb0 as Hb0'. rewrite Ff in I0, Hb0'.
        assert (Fm : ms_full m = false) by congruence.
        exact (Htidy Ff s0 R0 adds dels ts pf m m2 I0 Fm Hnn0 Hb0' Hni0 Hnd0 Hlive0 Ep E2).
      + exact F2.
      + exact Hnn0.
      + exact HRL0.
      + exact Hrest.
  Qed.

  Theorem shistory_generic base l : forall st m, SInv base st m -> svalid st l ->
    exists m', srun_all st m l = Some m' /\ SInv base (sfinal st l) m'.
  Proof.
    induction l as [|o r IH]; intros st m I Hv; cbn [svalid sfinal srun_all] in *.
    - exists m. auto.
    - destruct Hv as [Ho Hr]. destruct (sop_pres base st m o I Ho) as (m1 & E1 & I1). rewrite E1.
      exact (IH _ m1 I1 Hr).
  Qed.

  (** ** what is on the stack at the end: the blocks that were not undone *)
  Fixpoint net (l : list sop) (acc : list blk) : list blk :=   (* newest first *)
    match l with
    | [] => acc
    | SBlock adds dels :: r => net r ((adds, dels) :: acc)
    | SUndo :: r => net r (tl acc)
    end.

  Lemma sfinal_blocks l : forall st, map snd (snd (sfinal st l)) = net l (map snd (snd st)).
  Proof.
    induction l as [|o r IH]; intros st; cbn [sfinal net]; [reflexivity|].
    rewrite IH. destruct o as [adds dels|]; cbn [snext snd map]; [reflexivity|].
    destruct st as [cur [|f rest]]; reflexivity.
  Qed.

  Definition as_bops (bl : list blk) : list (bop H) := map (fun b => @Block H (fst b) (snd b)) bl.

  Lemma hfinal2_app fl l1 : forall st l2,
    hfinal2 H HO fl st (l1 ++ l2) = hfinal2 H HO fl (hfinal2 H HO fl st l1) l2.
  Proof.
    unfold hfinal2. induction l1 as [|o r IH]; intros st l2; cbn [app MapMutUnify.final]; [reflexivity|]. apply IH.
  Qed.

  Lemma hvalid2_app fl l1 : forall st l2,
    hvalid2 H HO fl st l1 -> hvalid2 H HO fl (hfinal2 H HO fl st l1) l2 -> hvalid2 H HO fl st (l1 ++ l2).
  Proof.
    unfold hvalid2, hfinal2. induction l1 as [|o r IH]; intros st l2 H1 H2; cbn [app MapMutUnify.valid MapMutUnify.final] in *;
      [exact H2|]. destruct H1 as [A B]. split; [exact A|]. exact (IH _ _ B H2).
  Qed.

  (** the snapshot on top is reached from the bottom by the stacked blocks, oldest first, and that
      history is valid *)
  Lemma stack_replay base : forall stack cur, stack_ok base cur stack ->
    cur = hfinal2 H HO full base (as_bops (rev (map snd stack))) /\
    hvalid2 H HO full base (as_bops (rev (map snd stack))).
  Proof.
    induction stack as [|[prev [adds dels]] rest IH]; intros cur Hst; cbn [stack_ok map rev snd] in *.
    - subst cur. split; [reflexivity|exact I].
    - destruct Hst as (Ecur & Hnn & Hb & _ & _ & _ & _ & _ & Hrest).
      destruct (IH prev Hrest) as [Ep Hv]. unfold as_bops in *. rewrite map_app. cbn [map fst snd].
      split.
      + rewrite hfinal2_app, <- Ep. exact Ecur.
      + apply hvalid2_app; [exact Hv|]. rewrite <- Ep. split; [exact (conj Hnn Hb)|exact I].
  Qed.

  (** * The history theorem *)
  Definition st0 : sstate := (([], []), []).
  Definition m0 (T : N) : mstate H := mkM [] [] 0 T full.

  Lemma SInv_empty T : T <= 63 -> SInv ([], []) st0 (m0 T).
  Proof.
    intros HT. constructor; cbn [st0 fst snd m0 ms_full].
    - exact (MapMutAdd.Inv_empty H HO T full HT).
    - reflexivity.
    - exact (nimage_nil H HO).
    - intros _ h. cbn. tauto.
    - reflexivity.
  Qed.

  (** every valid sequence of blocks and undos from the empty forest runs without error; the
      state reached satisfies the invariant for the snapshot on top of the stack, which is the
      snapshot reached by the blocks that were not undone *)
  Theorem shistory_ok (T : N) (l : list sop) : T <= 63 -> svalid st0 l ->
    exists m, srun_all st0 (m0 T) l = Some m /\
      let top := fst (sfinal st0 l) in
      let kept := as_bops (rev (net l [])) in
      AInv (fst top) (snd top) m /\ consistent HO (fst top) (snd top) m /\ ms_full m = full /\
      top = hfinal2 H HO full ([], []) kept /\ hvalid2 H HO full ([], []) kept.
  Proof.
    intros HT Hv. destruct (shistory_generic ([], []) l st0 (m0 T) (SInv_empty T HT) Hv) as (m & E & [I F _ _ Hst]).
    exists m. split; [exact E|]. cbv zeta. split; [exact I|].
    split; [exact (MapMutAdd.Inv_consistent H HO HOK _ _ m I)|]. split; [exact F|].
    pose proof (stack_replay ([], []) _ _ Hst) as [A B].
    rewrite (sfinal_blocks l st0) in A, B. exact (conj A B).
  Qed.

  (** the observables of the state reached *)
  Theorem shistory_observables (T : N) (l : list sop) : T <= 63 -> svalid st0 l ->
    exists m, srun_all st0 (m0 T) l = Some m /\
      let sF := fst (fst (sfinal st0 l)) in
      let RF := snd (fst (sfinal st0 l)) in
      getRoots HO m = roots HO sF /\ ms_n m = num_leaves sF /\
      (forall hs, (forall h, In h hs -> In h RF) -> NoDup hs ->
         Prove HO m hs = exp_prove HO (mk_ctx HO sF) hs) /\
      (forall h, GetLeafPosition HO m h = exp_leafpos HO (mk_ctx HO sF) (memH HO h RF) h) /\
      (full = true ->
         (forall hs, (forall h, In h hs -> In (Some h) sF) -> NoDup hs ->
            Prove HO m hs = exp_prove HO (mk_ctx HO sF) hs) /\
         (forall h, In (Some h) sF <-> exists p, GetLeafPosition HO m h = Some p) /\
         (forall h, GetLeafPosition HO m h = leaf_pos HO (rows_of (num_leaves sF)) (layout HO sF) h)).
  Proof.
    intros HT Hv. destruct (shistory_generic ([], []) l st0 (m0 T) (SInv_empty T HT) Hv) as (m & E & [I F _ HRL _]).
    exists m. split; [exact E|]. cbv zeta.
    destruct (sfinal st0 l) as [[sF RF] stack]. cbn [fst snd] in *.
    destruct (Inv_observables H HO HOK sF RF m I) as (Hr & Hn & Hp & Hl & Hnone).
    split; [exact Hr|]. split; [exact Hn|]. split; [exact Hp|]. split; [exact Hl|].
    intros Ef. specialize (HRL Ef). unfold R_live in HRL. cbn [fst snd] in HRL.
    split; [|split].
    - intros hs Hs Hnd. apply Hp; [|exact Hnd]. intros h Hh. apply HRL, Hs, Hh.
    - intros h. rewrite <- (HRL h). split.
      + intros Hin. destruct (GetLeafPosition HO m h) as [p|] eqn:Eg; [eauto|].
        exfalso. exact (proj1 (Hnone h) Eg Hin).
      + intros [p Ep]. destruct (memH HO h RF) eqn:Em.
        * exact (proj1 (memH_In H HO HOK _ _) Em).
        * assert (A : ~ In h RF) by (intros C; apply (memH_In H HO HOK) in C; congruence).
          rewrite (proj2 (Hnone h) A) in Ep. discriminate.
    - intros h. rewrite Hl. unfold exp_leafpos. cbn [mk_ctx crows clay].
      destruct (memH HO h RF) eqn:Em; [reflexivity|].
      unfold leaf_pos. destruct (find_leaf HO _ h) as [x|] eqn:Ef'; [exfalso|reflexivity].
      destruct (find_leaf_spec H HO HOK _ _ _ Ef') as (Hx & Hlf & Eh).
      assert (Hin : In h RF).
      { apply HRL. rewrite <- Eh. exact (layout_leaf_live H HO _ x Hx Hlf). }
      apply (memH_In H HO HOK) in Hin. congruence.
  Qed.

  (** ... are those of the state reached by applying only the blocks that were not undone *)
  Theorem shistory_as_if (T : N) (l : list sop) : T <= 63 -> svalid st0 l ->
    exists m m', srun_all st0 (m0 T) l = Some m /\
      hrun2 H HO full ([], []) (m0 T) (as_bops (rev (net l []))) = Some m' /\
      getRoots HO m = getRoots HO m' /\ ms_n m = ms_n m' /\
      (forall h, GetLeafPosition HO m h = GetLeafPosition HO m' h) /\
      (forall hs, (forall h, In h hs -> exists p, GetLeafPosition HO m h = Some p) -> NoDup hs ->
         Prove HO m hs = Prove HO m' hs).
  Proof.
    intros HT Hv. destruct (shistory_ok T l HT Hv) as (m & E & I & _ & F & Etop & Hv2). cbv zeta in *.
    destruct (history2_ok H HO HOK Hh2 T full _ HT Hv2) as (m' & E' & I' & F').
    rewrite <- Etop in I'.
    exists m, m'. split; [exact E|]. split; [exact E'|].
    destruct (fst (sfinal st0 l)) as [sF RF]. cbn [fst snd] in *.
    destruct (Inv_observables H HO HOK sF RF m I) as (Hr & Hn & Hp & Hl & Hnone).
    destruct (Inv_observables H HO HOK sF RF m' I') as (Hr' & Hn' & Hp' & Hl' & _).
    split; [congruence|]. split; [congruence|]. split; [intros h; rewrite Hl, Hl'; reflexivity|].
    intros hs Hs Hnd.
    assert (HsR : forall h, In h hs -> In h RF).
    { intros h Hh. destruct (Hs h Hh) as [p Ep]. destruct (memH HO h RF) eqn:Em.
      - exact (proj1 (memH_In H HO HOK _ _) Em).
      - assert (A : ~ In h RF) by (intros C; apply (memH_In H HO HOK) in C; congruence).
        rewrite (proj2 (Hnone h) A) in Ep. discriminate. }
    rewrite (Hp hs HsR Hnd), (Hp' hs HsR Hnd). reflexivity.
  Qed.
End StackHistory.
Arguments SBlock {H} adds dels.
Arguments SUndo {H}.

(** * Full forests: nothing is assumed *)
Section FullForests.
  Variable H : Type.
  Variable HO : ops H.
  Hypothesis HOK : ops_ok HO.
  Hypothesis Hh2 : forall x y, op_eqb HO (op_hash2 HO x y) (op_empty HO) = false.

  Lemma no_tidy_needed : true = false -> undo_tidy H HO.
  Proof. discriminate. Qed.

  Theorem full_history_ok (T : N) (l : list (sop H)) : T <= 63 -> svalid H HO true (st0 H) l ->
    exists m, srun_all H HO true (st0 H) (m0 H true T) l = Some m /\
      let top := fst (sfinal H HO true (st0 H) l) in
      let kept := as_bops H (rev (net H l [])) in
      MapMutAdd.Inv H HO (fst top) (snd top) m /\ consistent HO (fst top) (snd top) m /\ ms_full m = true /\
      top = hfinal2 H HO true ([], []) kept /\ hvalid2 H HO true ([], []) kept.
  Proof. exact (shistory_ok H HO HOK Hh2 true no_tidy_needed T l). Qed.

  Theorem full_history_observables (T : N) (l : list (sop H)) : T <= 63 -> svalid H HO true (st0 H) l ->
    exists m, srun_all H HO true (st0 H) (m0 H true T) l = Some m /\
      let sF := fst (fst (sfinal H HO true (st0 H) l)) in
      getRoots HO m = roots HO sF /\ ms_n m = num_leaves sF /\
      (forall hs, (forall h, In h hs -> In (Some h) sF) -> NoDup hs ->
         Prove HO m hs = exp_prove HO (mk_ctx HO sF) hs) /\
      (forall h, In (Some h) sF <-> exists p, GetLeafPosition HO m h = Some p) /\
      (forall h, GetLeafPosition HO m h = leaf_pos HO (rows_of (num_leaves sF)) (layout HO sF) h).
  Proof.
    intros HT Hv. destruct (shistory_observables H HO HOK Hh2 true no_tidy_needed T l HT Hv)
      as (m & E & Hr & Hn & _ & _ & Hf). cbv zeta in *.
    destruct (Hf eq_refl) as (A & B & C). exists m. auto.
  Qed.

  Theorem full_history_as_if (T : N) (l : list (sop H)) : T <= 63 -> svalid H HO true (st0 H) l ->
    exists m m', srun_all H HO true (st0 H) (m0 H true T) l = Some m /\
      hrun2 H HO true ([], []) (m0 H true T) (as_bops H (rev (net H l []))) = Some m' /\
      getRoots HO m = getRoots HO m' /\ ms_n m = ms_n m' /\
      (forall h, GetLeafPosition HO m h = GetLeafPosition HO m' h) /\
      (forall hs, (forall h, In h hs -> exists p, GetLeafPosition HO m h = Some p) -> NoDup hs ->
         Prove HO m hs = Prove HO m' hs).
  Proof. exact (shistory_as_if H HO HOK Hh2 true no_tidy_needed T l). Qed.

  (** partial forests, PROVIDED [Undo] leaves a tidy node map *)
  Theorem partial_history_ok (T : N) (l : list (sop H)) : undo_tidy H HO ->
    T <= 63 -> svalid H HO false (st0 H) l ->
    exists m, srun_all H HO false (st0 H) (m0 H false T) l = Some m /\
      let top := fst (sfinal H HO false (st0 H) l) in
      let kept := as_bops H (rev (net H l [])) in
      MapMutAdd.Inv H HO (fst top) (snd top) m /\ consistent HO (fst top) (snd top) m /\ ms_full m = false /\
      top = hfinal2 H HO false ([], []) kept /\ hvalid2 H HO false ([], []) kept.
  Proof. intros Ht. exact (shistory_ok H HO HOK Hh2 false (fun _ => Ht) T l). Qed.
End FullForests.

(** * Deciding the side conditions *)
Section DecideS.
  Variable H : Type.
  Variable HO : ops H.
  Hypothesis HOK : ops_ok HO.
  Variable nimg : H -> bool.
  Hypothesis nimg_sound : forall h, nimg h = true -> forall a b, h <> op_hash2 HO a b.
  Variable full : bool.
  Notation sstate := ((slots H * list H) * list ((slots H * list H) * (list (H * bool) * list H)))%type.

  Definition sokb (st : sstate) (o : sop H) : bool :=
    match o with
    | SBlock adds dels => forallb nimg (map fst adds) && block_okb H HO full (fst st) adds dels
    | SUndo => match snd st with [] => false | _ => true end
    end.
  Fixpoint svalidb (st : sstate) (l : list (sop H)) : bool :=
    match l with
    | [] => true
    | o :: r => sokb st o && svalidb (snext H HO full st o) r
    end.

  Lemma svalidb_sound l : forall st, svalidb st l = true -> svalid H HO full st l.
  Proof.
    induction l as [|o r IH]; intros st E; [exact I|]. cbn [svalidb svalid] in *.
    apply andb_true_iff in E as [E1 E2]. split; [|exact (IH _ E2)].
    destruct o as [adds dels|]; cbn [sokb sok] in *.
    - apply andb_true_iff in E1 as [A B]. split.
      + exact (noimgb_sound H HO nimg nimg_sound adds A).
      + exact (block_okb_sound H HO HOK full (fst st) adds dels B).
    - destruct (snd st); [discriminate|discriminate].
  Qed.
End DecideS.

(** * An example over the free hash algebra *)
(** A full forest allocated with 0 rows.  Block 1 adds five leaves; block 2 deletes two of them and
    adds two; block 3 deletes an old and a new leaf and adds one; blocks 3 and 2 are undone; a
    different block 4 (one deletion, three additions, the forest is re-mapped) and a block 5 are
    applied, block 5 is undone. *)
From Utreexo Require Import Spec.Term Proofs.MapMutPrune.

Definition mmu3_a (l : list N) : list (term * bool) := map (fun k => (Atom k, false)) l.
Definition mmu3_l : list (sop term) :=
  [SBlock (mmu3_a [1; 2; 3; 4; 5]) [];
   SBlock (mmu3_a [6; 7]) [Atom 2; Atom 4];
   SBlock (mmu3_a [8]) [Atom 6; Atom 1];
   SUndo; SUndo;
   SBlock (mmu3_a [9; 10; 11]) [Atom 3];
   SBlock (mmu3_a [12]) [Atom 2; Atom 9];
   SUndo].

Lemma mmu3_valid : svalid term term_ops true (st0 term) mmu3_l.
Proof.
  apply (svalidb_sound term term_ops term_ops_ok nimg_term nimg_term_sound true). vm_compute. reflexivity.
Qed.

(** the blocks that were not undone: 4 and 1 (newest first) *)
Example mmu3_net : net term mmu3_l [] = [(mmu3_a [9; 10; 11], [Atom 3]); (mmu3_a [1; 2; 3; 4; 5], [])].
Proof. reflexivity. Qed.

Example mmu3_history :
  exists m, srun_all term term_ops true (st0 term) (m0 term true 0) mmu3_l = Some m /\
    let sF := fst (fst (sfinal term term_ops true (st0 term) mmu3_l)) in
    getRoots term_ops m = roots term_ops sF /\ ms_n m = num_leaves sF /\
    (forall hs, (forall h, In h hs -> In (Some h) sF) -> NoDup hs ->
       Prove term_ops m hs = exp_prove term_ops (mk_ctx term_ops sF) hs) /\
    (forall h, In (Some h) sF <-> exists p, GetLeafPosition term_ops m h = Some p) /\
    (forall h, GetLeafPosition term_ops m h = leaf_pos term_ops (rows_of (num_leaves sF)) (layout term_ops sF) h).
Proof.
  exact (full_history_observables term term_ops term_ops_ok term_node_nonzero 0 mmu3_l ltac:(discriminate) mmu3_valid).
Qed.

(** the computed run: the forest on top, and the state reached is consistent with it *)
Example mmu3_run :
  match srun_all term term_ops true (st0 term) (m0 term true 0) mmu3_l with
  | Some m =>
      let top := fst (sfinal term term_ops true (st0 term) mmu3_l) in
      fst top = [Some (Atom 1); Some (Atom 2); None; Some (Atom 4); Some (Atom 5);
                 Some (Atom 9); Some (Atom 10); Some (Atom 11)] /\
      consistentb term_ops (fst top) (snd top) m = true /\ ms_n m = 8 /\ ms_total m = 4
  | None => False
  end.
Proof. vm_compute. auto. Qed.

(** the state reached by blocks 1 and 4 alone: the same observables ([full_history_as_if]); the
    only difference is the number of allocated rows (the undone blocks had grown the forest to 4
    rows, [Undo] does not shrink it) *)
Example mmu3_as_if :
  match srun_all term term_ops true (st0 term) (m0 term true 0) mmu3_l,
        hrun2 term term_ops true ([], []) (m0 term true 0) (as_bops term (rev (net term mmu3_l []))) with
  | Some m, Some m' =>
      getRoots term_ops m = getRoots term_ops m' /\ ms_n m = ms_n m' /\ ms_total m = 4 /\ ms_total m' = 3 /\
      map (GetLeafPosition term_ops m) (map Atom [1; 2; 3; 4; 5; 9; 10; 11]) =
      map (GetLeafPosition term_ops m') (map Atom [1; 2; 3; 4; 5; 9; 10; 11])
  | _, _ => False
  end.
Proof. vm_compute. auto. Qed.

(** ** partial forests: the premise [undo_tidy], by computation on an example *)
(** the same kind of history on a PARTIAL forest (some leaves remembered; only remembered leaves are
    deleted); after every operation the state is consistent with the snapshot on top AND tidy *)
Fixpoint mmu3_check (st : (slots term * list term) * list ((slots term * list term) * (list (term * bool) * list term)))
         (m : mstate term) (l : list (sop term)) : bool :=
  match l with
  | [] => true
  | o :: r =>
      match srun term term_ops st m o with
      | Some m' =>
          let st' := snext term term_ops false st o in
          consistentb term_ops (fst (fst st')) (snd (fst st')) m' &&
          tidyb term term_ops (fst (fst st')) (snd (fst st')) m' && mmu3_check st' m' r
      | None => false
      end
  end.

Definition mmu3_r (l : list N) : list (term * bool) := map (fun k => (Atom k, true)) l.
Definition mmu3_pl : list (sop term) :=
  [SBlock (mmu3_r [1; 2] ++ mmu3_a [3] ++ mmu3_r [4] ++ mmu3_a [5]) [];
   SBlock (mmu3_a [6] ++ mmu3_r [7]) [Atom 2; Atom 4];
   SBlock (mmu3_r [8]) [Atom 7; Atom 1];
   SUndo; SUndo;
   SBlock (mmu3_r [9] ++ mmu3_a [10; 11]) [Atom 1];
   SBlock (mmu3_a [12]) [Atom 2; Atom 9];
   SUndo;
   SBlock (mmu3_r [13; 14]) [Atom 4]].

Example mmu3_partial_valid : svalid term term_ops false (st0 term) mmu3_pl.
Proof.
  apply (svalidb_sound term term_ops term_ops_ok nimg_term nimg_term_sound false). vm_compute. reflexivity.
Qed.

Example mmu3_partial_run : mmu3_check (st0 term) (m0 term false 0) mmu3_pl = true.
Proof. vm_compute. reflexivity. Qed.

Print Assumptions sop_pres.
Print Assumptions shistory_ok.
Print Assumptions full_history_ok.
Print Assumptions full_history_observables.
Print Assumptions full_history_as_if.
Print Assumptions partial_history_ok.
Print Assumptions mmu3_history.
