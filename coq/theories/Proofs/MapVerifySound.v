(** C03 for the map forest: [MapPollard.verify] / [MapPollard.VerifyPartialProof] (mirror
    [Model.MapRead.map_verify], [VerifyPartialProof]) are sound in the free hash algebra.

    A map forest allocated with [T = ms_total m >= TreeRows n] rows accepts target positions in
    either coordinate system; [Spec.Oracle.claims_true_dual] is the reference reading of the claims
    under that convention.  For a state [m] that is [consistent] with the reference forest [s]
    ([Proofs.MapReadSpec]), leaves being atoms:

    - [map_verify_sound]: whatever [map_verify] accepts is true under the dual reading;
    - [map_verify_partial_sound]: the same for [VerifyPartialProof];
    - [map_verify_rejects_false], [map_verify_partial_rejects_false]: a false claim is never
      accepted, whatever the proof hashes.

    HYPOTHESIS [targets64 ts] (every target < 2^64).  The Go targets are [uint64]; the mirror works
    on [N] and its fit check computes [sub64 t start], which wraps modulo 2^64.  Without the bound
    the statement is FALSE for the mirror: [mvs_unbounded_target_accepted] is a vm_compute-checked
    witness (target [2^64 + 16] is accepted as if it were [16], and denotes nothing under the dual
    reading).  This is an artefact of the unbounded carrier, not a defect of the Go code. *)
From Utreexo Require Import Base.Hash Model.Utils Model.UtilsFast Model.Verify Model.MapRead
  Spec.Forest Spec.Oracle Spec.Geometry Spec.Term
  Proofs.UtilsGeom Proofs.UtilsGeom2 Proofs.SpecBasics Proofs.LayoutStruct
  Proofs.MapReadSpec Proofs.Soundness.
From Coq Require Import List Arith PeanoNat NArith Lia ZifyNat ZifyN ZifyBool.
Import ListNotations.
Open Scope N_scope.

Local Notation gpos := UtilsGeom.gpos.
Local Notation gstart := UtilsGeom.gstart.

(** the targets are [uint64] values *)
Definition targets64 (ts : list N) : Prop := Forall (fun t => t < 2 ^ 64) ts.

(** * 1. Geometry of the fit check *)

(** a position of row 0 of the [h]-row frame is left alone by [translatePos] *)
Lemma translatePos_row0 t h h' : h <= 63 -> t < 2 ^ h -> translatePos t h h' = t.
Proof.
  intros Hh Ht. unfold translatePos. cbv zeta.
  assert (E : t = gpos h 0 t).
  { unfold UtilsGeom.gpos. rewrite mrs_gstart_0. reflexivity. }
  assert (Er : DetectRow t h = 0).
  { rewrite E at 1. apply DetectRow_gpos; [exact Hh|lia|rewrite N.sub_0_r; exact Ht]. }
  rewrite Er. reflexivity.
Qed.

Lemma gstart_le_pow h r : gstart h r + 2 ^ (h + 1 - r) = 2 ^ (h + 1).
Proof.
  unfold UtilsGeom.gstart.
  assert (2 ^ (h + 1 - r) <= 2 ^ (h + 1)) by (apply pow2_le; lia). lia.
Qed.

(** a target beyond the minimal frame that passes the fit check of [MapPollard.verify] is the
    position, in [T]-row coordinates, of a coordinate that is valid in the minimal geometry *)
Lemma target_fits_coord tr T t : tr < T -> T <= 63 -> t < 2 ^ 64 ->
  (t <=? maxPosition tr) = false ->
  negb (tr <? DetectRow t T) &&
  (sub64 t (startPositionAtRow (DetectRow t T) T) <? shl 1 (sub8 tr (DetectRow t T))) = true ->
  exists r o, r <= tr /\ o < 2 ^ (tr - r) /\ t = gpos T r o.
Proof.
  intros Hlt HT Ht Hbig Hfit.
  set (row := DetectRow t T) in *.
  apply Bool.andb_true_iff in Hfit as [Hrow Hoff].
  assert (Hr : row <= tr) by (destruct (N.ltb_spec tr row); [discriminate|assumption]).
  rewrite startPositionAtRow_gstart in Hoff by lia.
  rewrite sub8_small in Hoff by lia.
  rewrite shl_1 in Hoff by lia.
  apply N.ltb_lt in Hoff.
  pose proof (gstart_le_pow T row) as Hg.
  assert (HW : 2 ^ (T + 1) <= W) by (rewrite W_eq; apply pow2_le; lia).
  assert (Hp : 2 ^ (tr - row) <= 2 ^ (T + 1 - row)) by (apply pow2_le; lia).
  change (2 ^ 64) with W in Ht.
  exists row, (sub64 t (gstart T row)). split; [exact Hr|]. split; [exact Hoff|].
  unfold sub64 in *.
  destruct (N.le_gt_cases (gstart T row) t) as [Hge|Hlo].
  - replace (t + W - gstart T row) with (t - gstart T row + W) in * by lia.
    rewrite wrap_add_W in * by lia. unfold UtilsGeom.gpos. lia.
  - exfalso. rewrite wrap_small in Hoff by lia. lia.
Qed.

(** * 2. Soundness *)
Section MapVerifySound.
  Variables (s : slots term) (R : list term) (m : mstate term).
  Hypothesis Hat : leaves_atoms s.
  Hypothesis Hc : consistent term_ops s R m.
  Notation c := (mk_ctx term_ops s).
  Notation T := (ms_total m).
  Notation tr := (TreeRows (ms_n m)).
  Notation lay := (layout term_ops s).
  Notation rows := (rows_of (num_leaves s)).

  Lemma mvs_stump : getStump term_ops m = the_stump c.
  Proof.
    unfold getStump, the_stump. cbn [mk_ctx croots cn].
    rewrite (map_getroots term term_ops s R m Hc), (cs_n Hc). reflexivity.
  Qed.

  Lemma mvs_len63 : N.of_nat (length s) <= 2 ^ 63.
  Proof. rewrite (cs_len term term_ops s R m Hc). exact (cs_n63 Hc). Qed.

  (** a true claim about a position of the minimal geometry is true under the dual reading,
      whatever the allocation *)
  Lemma claim_true_dual_of_min total t h :
    claim_true term_ops c t h = true -> claim_true_dual term_ops c total t h = true.
  Proof.
    unfold claim_true, claim_true_dual, dual_node. cbn [mk_ctx crows clay].
    destruct (find_pos rows lay t) as [x|] eqn:Ef; [|discriminate].
    intros Eh. pose proof Ef as Ef'. apply find_pos_some in Ef' as [Hx Ep].
    pose proof (npos_range term term_ops s R m Hc x Hx) as Hrange.
    rewrite Ep in Hrange. rewrite (cs_rows_of term term_ops s R m Hc).
    destruct (N.ltb_spec (2 ^ (tr + 1) - 2) t) as [L|_]; [lia|].
    rewrite Bool.andb_false_r. exact Eh.
  Qed.

  Lemma claims_true_dual_of_min total : forall ts hs,
    claims_true term_ops c ts hs = true -> claims_true_dual term_ops c total ts hs = true.
  Proof.
    induction ts as [|t ts IH]; intros [|h hs]; cbn [claims_true claims_true_dual];
      try discriminate; [reflexivity|].
    intros E. apply Bool.andb_true_iff in E as [E1 E2].
    rewrite (claim_true_dual_of_min total t h E1), (IH hs E2). reflexivity.
  Qed.

  (** a fitting target beyond the minimal frame: truth at the translated position is truth under
      the dual reading *)
  Lemma claim_true_dual_of_big t h : tr < T -> t < 2 ^ 64 ->
    (t <=? maxPosition tr) = false ->
    negb (tr <? DetectRow t T) &&
    (sub64 t (startPositionAtRow (DetectRow t T) T) <? shl 1 (sub8 tr (DetectRow t T))) = true ->
    claim_true term_ops c (translatePos t T tr) h = true ->
    claim_true_dual term_ops c (N.to_nat T) t h = true.
  Proof.
    intros Hlt Ht Hbig Hfit.
    pose proof (cs_T63 Hc) as HT.
    destruct (target_fits_coord tr T t Hlt HT Ht Hbig Hfit) as (r & o & Hr & Ho & Et).
    assert (HoT : o < 2 ^ (T - r)) by (apply (valid_mono tr T); [exact Hr|exact Ho|lia]).
    rewrite Et at 1.
    rewrite translatePos_gpos; [|exact HT|lia|exact HoT|lia|exact Hr|exact Ho].
    unfold claim_true, claim_true_dual. cbn [mk_ctx crows clay].
    destruct (find_pos rows lay (gpos tr r o)) as [x|] eqn:Ef; [|discriminate].
    intros Eh. apply find_pos_some in Ef as [Hx Ep].
    rewrite (npos_gpos term term_ops s R m Hc x) in Ep.
    destruct (node_valid_rows term term_ops s R m Hc x Hx) as [C D].
    destruct (gpos_inj tr _ _ _ _ C D Hr Ho Ep) as [Er Eo].
    assert (Hd : denotes s m t x).
    { right. split; [exact Hlt|]. split.
      - rewrite (maxPosition_spec tr ltac:(lia)) in Hbig.
        destruct (N.leb_spec t (2 ^ (tr + 1) - 1)); [discriminate|assumption].
      - unfold gp. rewrite Er, Eo. exact Et. }
    rewrite (denotes_dual term term_ops s R m Hc t x Hx Hd). exact Eh.
  Qed.

  Lemma claims_true_dual_of_translated : tr < T -> forall ts hs,
    targets64 ts ->
    forallb (fun t => if t <=? maxPosition tr then true
                      else let row := DetectRow t T in
                           negb (tr <? row) &&
                           (sub64 t (startPositionAtRow row T) <? shl 1 (sub8 tr row))) ts = true ->
    claims_true term_ops c (translatePositions ts T tr) hs = true ->
    claims_true_dual term_ops c (N.to_nat T) ts hs = true.
  Proof.
    intros Hlt. pose proof (cs_T63 Hc) as HT.
    induction ts as [|t ts IH]; intros [|h hs] H64 Hfit;
      cbn [translatePositions map claims_true claims_true_dual]; try discriminate; [reflexivity|].
    intros E. apply Bool.andb_true_iff in E as [E1 E2].
    cbn [forallb] in Hfit. apply Bool.andb_true_iff in Hfit as [F1 F2].
    inversion H64 as [|? ? Ht H64']; subst.
    rewrite (IH hs H64' F2 E2), Bool.andb_true_r.
    destruct (t <=? maxPosition tr) eqn:Esmall.
    - (* a position of the minimal frame: row 0 of the [T]-row frame, not moved *)
      apply claim_true_dual_of_min.
      rewrite translatePos_row0 in E1; [exact E1|exact HT|].
      rewrite (maxPosition_spec tr ltac:(lia)) in Esmall. apply N.leb_le in Esmall.
      assert (2 ^ (tr + 1) <= 2 ^ T) by (apply pow2_le; lia).
      pose proof (pow2_pos (tr + 1)). lia.
    - cbv zeta in F1. apply claim_true_dual_of_big; assumption.
  Qed.

  (** G1 *)
  Theorem map_verify_sound_sec hs ts pf idx : targets64 ts ->
    map_verify term_ops m hs ts pf = Ok idx ->
    claims_true_dual term_ops c (N.to_nat T) ts hs = true.
  Proof.
    intros H64. unfold map_verify. cbv zeta. rewrite mvs_stump.
    destruct (N.eqb_spec tr T) as [E|E].
    - intros Ev. apply claims_true_dual_of_min.
      exact (C03_sound_holds s hs ts pf idx Hat mvs_len63 Ev).
    - match goal with |- (if ?b then _ else _) = _ -> _ => destruct b eqn:Efit end; [|discriminate].
      intros Ev. pose proof (cs_rows Hc).
      apply claims_true_dual_of_translated; [lia|exact H64|exact Efit|].
      exact (C03_sound_holds s hs _ pf idx Hat mvs_len63 Ev).
  Qed.

  (** G2 *)
  Theorem map_verify_partial_sound_sec hs ts pf idx : targets64 ts ->
    VerifyPartialProof term_ops m ts hs pf = Ok idx ->
    claims_true_dual term_ops c (N.to_nat T) ts hs = true.
  Proof.
    intros H64. unfold VerifyPartialProof. cbv zeta.
    destruct (ProofPositions_fast (sortN ts) (ms_n m) tr) as [pp comp].
    match goal with |- match ?f with _ => _ end = _ -> _ => destruct f as [all|] end;
      [|discriminate].
    apply map_verify_sound_sec. exact H64.
  Qed.
End MapVerifySound.

(** * 3. The closed statements *)

(** G1: [MapPollard.verify] *)
Theorem map_verify_sound : forall (s : slots term) R m hs ts pf idx,
  leaves_atoms s -> consistent term_ops s R m -> targets64 ts ->
  map_verify term_ops m hs ts pf = Ok idx ->
  claims_true_dual term_ops (mk_ctx term_ops s) (N.to_nat (ms_total m)) ts hs = true.
Proof. intros s R m hs ts pf idx Hat Hc. exact (map_verify_sound_sec s R m Hat Hc hs ts pf idx). Qed.

(** G2: [MapPollard.VerifyPartialProof] *)
Theorem map_verify_partial_sound : forall (s : slots term) R m hs ts pf idx,
  leaves_atoms s -> consistent term_ops s R m -> targets64 ts ->
  VerifyPartialProof term_ops m ts hs pf = Ok idx ->
  claims_true_dual term_ops (mk_ctx term_ops s) (N.to_nat (ms_total m)) ts hs = true.
Proof.
  intros s R m hs ts pf idx Hat Hc. exact (map_verify_partial_sound_sec s R m Hat Hc hs ts pf idx).
Qed.

(** G3: a false claim is never accepted, whatever the proof hashes *)
Theorem map_verify_rejects_false : forall (s : slots term) R m hs ts pf idx,
  leaves_atoms s -> consistent term_ops s R m -> targets64 ts ->
  claims_true_dual term_ops (mk_ctx term_ops s) (N.to_nat (ms_total m)) ts hs = false ->
  map_verify term_ops m hs ts pf <> Ok idx.
Proof.
  intros s R m hs ts pf idx Hat Hc H64 Hfalse E.
  rewrite (map_verify_sound s R m hs ts pf idx Hat Hc H64 E) in Hfalse. discriminate Hfalse.
Qed.

Theorem map_verify_partial_rejects_false : forall (s : slots term) R m hs ts pf idx,
  leaves_atoms s -> consistent term_ops s R m -> targets64 ts ->
  claims_true_dual term_ops (mk_ctx term_ops s) (N.to_nat (ms_total m)) ts hs = false ->
  VerifyPartialProof term_ops m ts hs pf <> Ok idx.
Proof.
  intros s R m hs ts pf idx Hat Hc H64 Hfalse E.
  rewrite (map_verify_partial_sound s R m hs ts pf idx Hat Hc H64 E) in Hfalse.
  discriminate Hfalse.
Qed.

(** with a minimal allocation ([TotalRows = TreeRows]) the bound on the targets is not needed *)
Theorem map_verify_sound_minimal : forall (s : slots term) R m hs ts pf idx,
  leaves_atoms s -> consistent term_ops s R m -> ms_total m = TreeRows (ms_n m) ->
  map_verify term_ops m hs ts pf = Ok idx ->
  claims_true term_ops (mk_ctx term_ops s) ts hs = true.
Proof.
  intros s R m hs ts pf idx Hat Hc ET. unfold map_verify. cbv zeta.
  rewrite (mvs_stump s R m Hc), ET, N.eqb_refl.
  exact (C03_sound_holds s hs ts pf idx Hat (mvs_len63 s R m Hc)).
Qed.

(** when the forest is allocated minimally the dual reading is the plain one *)
Lemma claims_true_dual_minimal (H : Type) (HO : ops H) (c : ctx H) : forall ts hs,
  claims_true_dual HO c (crows c) ts hs = claims_true HO c ts hs.
Proof.
  induction ts as [|t ts IH]; intros [|h hs]; cbn [claims_true claims_true_dual]; try reflexivity.
  rewrite IH. f_equal. unfold claim_true_dual, claim_true, dual_node.
  rewrite Nat.ltb_irrefl. reflexivity.
Qed.

(** what the conclusion says, claim by claim *)
Lemma claims_true_dual_nodes (H : Type) (HO : ops H) (c : ctx H) total : ops_ok HO ->
  forall ts hs, claims_true_dual HO c total ts hs = true ->
  length hs = length ts /\
  forall j t h, nth_error ts j = Some t -> nth_error hs j = Some h ->
    exists x, dual_node c total t = Some x /\ nhash x = h.
Proof.
  intros HOK. induction ts as [|t ts IH]; intros [|h hs]; cbn [claims_true_dual];
    try discriminate.
  - intros _. split; [reflexivity|]. intros [|j] ? ? E; discriminate E.
  - intros E. apply Bool.andb_true_iff in E as [E1 E2]. destruct (IH hs E2) as [Hl Hn].
    split; [cbn [length]; congruence|].
    intros [|j] t' h' Et Eh; cbn [nth_error] in Et, Eh.
    + injection Et as <-. injection Eh as <-. unfold claim_true_dual in E1.
      destruct (dual_node c total t) as [x|]; [|discriminate].
      exists x. split; [reflexivity|]. apply HOK. exact E1.
    + exact (Hn j t' h' Et Eh).
Qed.

(** * 4. Non-vacuity and the witness for the [targets64] hypothesis *)

(** the example of [Proofs.MapReadSpec]: 7 slots (dead slots, an empty root), allocated with 4 rows
    (minimum 3), remembering [Atom 3] and [Atom 7].  Position 16 = (row 1, offset 0) of the 4-row
    frame lies beyond the minimal frame (0..14) and holds [Atom 1]; position 2 holds [Atom 3] in
    both frames. *)
Lemma mrs_ex_atoms : leaves_atoms mrs_ex_s.
Proof.
  intros h Hin. cbn in Hin.
  repeat (destruct Hin as [Hin|Hin]; [first [discriminate Hin | injection Hin as <-; eexists; reflexivity]|]).
  destruct Hin.
Qed.

Example mvs_ex_total_gt_rows : TreeRows (ms_n mrs_ex_m) < ms_total mrs_ex_m.
Proof. vm_compute. reflexivity. Qed.

(** an honest proof with a target in 4-row coordinates (16) and one in the common range (2) *)
Example mvs_ex_accepted :
  map_verify term_ops mrs_ex_m [Atom 1; Atom 3] [16; 2] [Atom 4] = Ok [0%nat].
Proof. vm_compute. reflexivity. Qed.

Example mvs_ex_targets64 : targets64 [16; 2].
Proof. repeat constructor. Qed.

(** the theorem applies, and its conclusion is the computed value *)
Example mvs_ex_by_theorem :
  claims_true_dual term_ops (mk_ctx term_ops mrs_ex_s) (N.to_nat (ms_total mrs_ex_m))
                   [16; 2] [Atom 1; Atom 3] = true.
Proof.
  exact (map_verify_sound mrs_ex_s mrs_ex_R mrs_ex_m _ _ _ _ mrs_ex_atoms mrs_ex_consistent
                          mvs_ex_targets64 mvs_ex_accepted).
Qed.
Example mvs_ex_computed :
  claims_true_dual term_ops (mk_ctx term_ops mrs_ex_s) 4 [16; 2] [Atom 1; Atom 3] = true /\
  (* the same position read in the minimal frame only would be a false claim *)
  claims_true term_ops (mk_ctx term_ops mrs_ex_s) [16; 2] [Atom 1; Atom 3] = false.
Proof. split; vm_compute; reflexivity. Qed.

(** a false claim at a position in 4-row coordinates is rejected, whatever the proof *)
Example mvs_ex_false_claim_rejected pf idx :
  map_verify term_ops mrs_ex_m [Atom 2] [16] pf <> Ok idx.
Proof.
  apply (map_verify_rejects_false mrs_ex_s mrs_ex_R mrs_ex_m _ _ pf idx mrs_ex_atoms
                                  mrs_ex_consistent).
  - repeat constructor.
  - vm_compute. reflexivity.
Qed.

(** a target that does not fit the minimal geometry (position 23 = (1, 7) of the 4-row frame) is
    refused by the fit check *)
Example mvs_ex_unfit_rejected :
  map_verify term_ops mrs_ex_m [Atom 1] [23] [Node (Atom 3) (Atom 4)] = Err.
Proof. vm_compute. reflexivity. Qed.

(** [VerifyPartialProof]: the stored hashes complete an empty proof *)
Example mvs_ex_partial_accepted :
  VerifyPartialProof term_ops mrs_ex_m [6; 2] [Atom 7; Atom 3] [] = Ok [2%nat; 0%nat].
Proof. vm_compute. reflexivity. Qed.
Example mvs_ex_partial_by_theorem :
  claims_true_dual term_ops (mk_ctx term_ops mrs_ex_s) (N.to_nat (ms_total mrs_ex_m))
                   [6; 2] [Atom 7; Atom 3] = true.
Proof.
  apply (map_verify_partial_sound mrs_ex_s mrs_ex_R mrs_ex_m _ _ [] [2%nat; 0%nat] mrs_ex_atoms
                                  mrs_ex_consistent); [repeat constructor|exact mvs_ex_partial_accepted].
Qed.

(** ... also with a target in 4-row coordinates: the proof positions of [2; 16] computed in the
    minimal geometry are [3; 8], both stored once translated *)
Example mvs_ex_partial_total_coords_accepted :
  VerifyPartialProof term_ops mrs_ex_m [16; 2] [Atom 1; Atom 3] [] = Ok [0%nat].
Proof. vm_compute. reflexivity. Qed.
Example mvs_ex_partial_total_coords_by_theorem :
  claims_true_dual term_ops (mk_ctx term_ops mrs_ex_s) (N.to_nat (ms_total mrs_ex_m))
                   [16; 2] [Atom 1; Atom 3] = true.
Proof.
  exact (map_verify_partial_sound mrs_ex_s mrs_ex_R mrs_ex_m _ _ _ _ mrs_ex_atoms
           mrs_ex_consistent mvs_ex_targets64 mvs_ex_partial_total_coords_accepted).
Qed.

(** OBSERVATION (completeness, not soundness): [VerifyPartialProof] computes the proof positions
    from the UNTRANSLATED targets in the minimal geometry, so for a lone target given in 4-row
    coordinates it asks for no proof hash at all and then fails, although [verify] accepts the same
    claim with its honest proof. *)
Example mvs_partial_incomplete_on_total_coords :
  map_verify term_ops mrs_ex_m [Atom 1] [16] [Node (Atom 3) (Atom 4)] = Ok [0%nat] /\
  VerifyPartialProof term_ops mrs_ex_m [16] [Atom 1] [Node (Atom 3) (Atom 4)] = Err /\
  VerifyPartialProof term_ops mrs_ex_m [8] [Atom 1] [Node (Atom 3) (Atom 4)] = Ok [0%nat].
Proof. repeat split; vm_compute; reflexivity. Qed.

(** WITNESS: the hypothesis [targets64] cannot be dropped for the mirror (whose targets are
    unbounded [N]): the fit check wraps [2^64 + 16] to offset 0 of row 1 and the translation maps
    it to position 8, where the claim is true; the position [2^64 + 16] itself denotes nothing. *)
Example mvs_unbounded_target_accepted :
  consistent term_ops mrs_ex_s mrs_ex_R mrs_ex_m /\
  map_verify term_ops mrs_ex_m [Atom 1] [2 ^ 64 + 16] [Node (Atom 3) (Atom 4)] = Ok [0%nat] /\
  claims_true_dual term_ops (mk_ctx term_ops mrs_ex_s) (N.to_nat (ms_total mrs_ex_m))
                   [2 ^ 64 + 16] [Atom 1] = false.
Proof. split; [exact mrs_ex_consistent|]. split; vm_compute; reflexivity. Qed.

Print Assumptions map_verify_sound.
Print Assumptions map_verify_partial_sound.
Print Assumptions map_verify_rejects_false.
Print Assumptions map_verify_partial_rejects_false.
Print Assumptions map_verify_sound_minimal.
Print Assumptions claims_true_dual_nodes.
Print Assumptions mvs_ex_by_theorem.
Print Assumptions mvs_unbounded_target_accepted.
