(** The update data of [Stump.del] / [Stump.Update] (C11, deletion side).

    [Stump.del] (mirror [stump_del], Model/Verify.v) returns, beside the new roots, the list
    [inter] = the first component of [calculateHashes numLeaves nil targets proof]; [Stump.Update]
    stores it in the field [u_del] of its [UpdateData].  The reference specification of that list
    is [new_del] (Spec/Forest.v): sorted by position, every pre-block node on a path from a deleted
    leaf to its root with its pre-block position and the hash its subtree has once the deletions
    are applied (all-zero if nothing survives).

    - G1 [stump_del_data]: on the canonical proof of distinct live leaves the mirror returns
      EXACTLY [new_del] (and the roots of the forest after the deletion).
    - G2 [stump_update_data]: the whole [UpdateData] of the mirror of [Stump.Update] on a valid block
      is [spec_update_data]; the new stump is the reference's.  [stump_update_data_term]: the free
      hash algebra, where the idealisation on [hash2] is a theorem.

    Structure: 1. sublists; 2. [del_nodes] on one placed tree; 3. the declarative list against the
    set [K] (targets and ancestors) and the valuation [Wd] of [Proofs.CalcComplete]; 4. G1;
    5. G2; 6. examples. *)
From Utreexo Require Import Model.Verify Proofs.UtilsGeom Proofs.UtilsGeom2 Proofs.CalcTotal
                            Proofs.CalcSound Spec.Geometry Proofs.ProofPosSpec Spec.Term.
From Utreexo Require Proofs.SpecBasics Proofs.RefTheory.
From Utreexo Require Import Spec.Forest Spec.Oracle Proofs.LayoutStruct Proofs.CalcComplete.
From Utreexo Require Proofs.StumpAdd Proofs.StumpAddData Proofs.StumpUpdate.
From Coq Require Import Lia ZifyN ZifyNat ZifyBool List Sorted Permutation PeanoNat Wf_nat.
Import ListNotations.
Open Scope N_scope.

Local Notation SSlt := (StronglySorted N.lt).

(** * 1. Sublists (order-preserving selections) *)

Inductive subl {A : Type} : list A -> list A -> Prop :=
| subl_nil : subl [] []
| subl_skip x l l' : subl l l' -> subl l (x :: l')
| subl_keep x l l' : subl l l' -> subl (x :: l) (x :: l').

Lemma subl_refl {A} (l : list A) : subl l l.
Proof. induction l; constructor; assumption. Qed.

Lemma subl_nil_l {A} (l : list A) : subl [] l.
Proof. induction l; constructor; assumption. Qed.

Lemma subl_app {A} (a a' b b' : list A) : subl a a' -> subl b b' -> subl (a ++ b) (a' ++ b').
Proof.
  intros Ha Hb. induction Ha as [|x l l' Ha IH|x l l' Ha IH]; cbn [app].
  - exact Hb.
  - apply subl_skip. exact IH.
  - apply subl_keep. exact IH.
Qed.

Lemma subl_In {A} (l l' : list A) x : subl l l' -> In x l -> In x l'.
Proof.
  intros Hs. induction Hs as [|y l l' Hs IH|y l l' Hs IH]; intros Hin.
  - destruct Hin.
  - right. exact (IH Hin).
  - destruct Hin as [<-|Hin]; [left; reflexivity|right; exact (IH Hin)].
Qed.

Lemma subl_NoDup {A} (l l' : list A) : subl l l' -> NoDup l' -> NoDup l.
Proof.
  intros Hs. induction Hs as [|y l l' Hs IH|y l l' Hs IH]; intros Hnd.
  - constructor.
  - inversion Hnd; subst. apply IH. assumption.
  - inversion Hnd as [|z m Hny Hnd']; subst. constructor; [|apply IH; exact Hnd'].
    intros Hin. apply Hny. exact (subl_In _ _ _ Hs Hin).
Qed.

Lemma subl_flat_map {A B} (f f' : A -> list B) (l : list A) :
  (forall a, In a l -> subl (f a) (f' a)) -> subl (flat_map f l) (flat_map f' l).
Proof.
  induction l as [|a l IH]; intros Hf; cbn [flat_map]; [constructor|].
  apply subl_app; [apply Hf; left; reflexivity|]. apply IH. intros b Hb. apply Hf. right. exact Hb.
Qed.

(** strictly ascending keys, in the two forms used by the development *)
Lemma sdd_SSlt_sascK {A} (l : list (N * A)) : SSlt (map fst l) -> RefTheory.sascK l.
Proof.
  induction l as [|x l IH]; intros HS; [constructor|].
  cbn [map] in HS. destruct (cc_SS_cons_inv _ _ _ HS) as [Hl Hx].
  constructor; [|exact (IH Hl)]. intros y Hy. apply Hx. apply in_map. exact Hy.
Qed.

(** * 2. [del_nodes] on one placed tree *)

Section DelNodes.
  Variable H : Type.
  Variable HO : ops H.
  Variable hs : list H.

  Local Notation dn := (del_nodes HO hs).
  Local Notation dcrd := (fun e : nat * N * H => fst e).

  Lemma dn_leaf_eq h r o :
    dn (CLeaf h) r o = if memH HO h hs then [(r, o, ohash HO (after_del HO hs (CLeaf h)))] else [].
  Proof. reflexivity. Qed.

  Lemma dn_node_eq h l rr r o :
    dn (CNode h l rr) r o =
    if has_del HO hs (CNode h l rr) then
      (r, o, ohash HO (after_del HO hs (CNode h l rr))) ::
      match r with
      | S r' => dn l r' (2 * o) ++ dn rr r' (2 * o + 1)
      | O => []
      end
    else [].
  Proof. destruct r; reflexivity. Qed.

  (** the listed coordinates are a selection of the coordinates of the placed tree, in order *)
  Lemma dn_subl (c : ctree H) : forall r o b tr,
    subl (map dcrd (dn c r o)) (map (@coord H) (place_tree c r o b tr)).
  Proof.
    induction c as [h|h l IHl rr IHr]; intros r o b tr.
    - rewrite dn_leaf_eq. cbn [place_tree map coord nrow noff].
      destruct (memH HO h hs); cbn [map fst]; [apply subl_refl|apply subl_nil_l].
    - rewrite dn_node_eq. cbn [place_tree map]. unfold coord at 1. cbn [nrow noff].
      destruct (has_del HO hs (CNode h l rr)); [|apply subl_nil_l].
      cbn [map fst]. apply subl_keep. destruct r as [|r']; [constructor|].
      rewrite !map_app. apply subl_app; [apply IHl|apply IHr].
  Qed.

  Lemma dn_in_has (c : ctree H) r o e : In e (dn c r o) -> has_del HO hs c = true.
  Proof.
    destruct c as [h|h l rr].
    - rewrite dn_leaf_eq. cbn [has_del]. destruct (memH HO h hs); [reflexivity|intros []].
    - rewrite dn_node_eq. destruct (has_del HO hs (CNode h l rr)); [reflexivity|intros []].
  Qed.

  Lemma dn_head (c : ctree H) r o : has_del HO hs c = true ->
    In (r, o, ohash HO (after_del HO hs c)) (dn c r o).
  Proof.
    intros Hd. destruct c as [h|h l rr].
    - rewrite dn_leaf_eq. cbn [has_del] in Hd. rewrite Hd. left. reflexivity.
    - rewrite dn_node_eq, Hd. left. reflexivity.
  Qed.

  (** a deleted leaf of the tree is listed *)
  Lemma dn_leaf (c : ctree H) : forall r o b tr y,
    In y (place_tree c r o b tr) -> nleaf y = true -> memH HO (nhash y) hs = true ->
    exists h, In (nrow y, noff y, h) (dn c r o).
  Proof.
    induction c as [h|h l IHl rr IHr]; intros r o b tr y Hin Hlf Hm; cbn [place_tree] in Hin.
    - destruct Hin as [<-|[]]. cbn [nrow noff nhash] in *. rewrite dn_leaf_eq, Hm.
      eexists. left. reflexivity.
    - destruct Hin as [<-|Hin]; [discriminate Hlf|].
      destruct r as [|r']; [destruct Hin|].
      rewrite dn_node_eq. apply in_app_or in Hin. destruct Hin as [Hin|Hin].
      + destruct (IHl _ _ _ _ _ Hin Hlf Hm) as (h' & Hh').
        cbn [has_del]. rewrite (dn_in_has _ _ _ _ Hh'). cbn [orb].
        exists h'. right. apply in_or_app. left. exact Hh'.
      + destruct (IHr _ _ _ _ _ Hin Hlf Hm) as (h' & Hh').
        cbn [has_del]. rewrite (dn_in_has _ _ _ _ Hh'), Bool.orb_true_r.
        exists h'. right. apply in_or_app. right. exact Hh'.
  Qed.

  (** every listed node but the head has its parent listed *)
  Lemma dn_parent (c : ctree H) : forall r o r' o' h',
    In (r', o', h') (dn c r o) ->
    (r', o') = (r, o) \/ exists h'', In (S r', o' / 2, h'') (dn c r o).
  Proof.
    induction c as [h|h l IHl rr IHr]; intros r o r' o' h' Hin.
    - rewrite dn_leaf_eq in Hin. destruct (memH HO h hs); [|destruct Hin].
      destruct Hin as [E|[]]. injection E as <- <- _. left. reflexivity.
    - rewrite dn_node_eq in *. destruct (has_del HO hs (CNode h l rr)) eqn:Hd; [|destruct Hin].
      destruct Hin as [E|Hin]; [injection E as <- <- _; left; reflexivity|]. right.
      destruct r as [|r0]; [destruct Hin|].
      apply in_app_or in Hin. destruct Hin as [Hin|Hin].
      + destruct (IHl _ _ _ _ _ Hin) as [E|(h'' & Hh'')].
        * assert (E1 : r' = r0) by congruence. assert (E2 : o' = 2 * o) by congruence.
          subst r' o'. eexists. left. f_equal. f_equal.
          apply (N.div_unique _ _ _ 0); lia.
        * exists h''. right. apply in_or_app. left. exact Hh''.
      + destruct (IHr _ _ _ _ _ Hin) as [E|(h'' & Hh'')].
        * assert (E1 : r' = r0) by congruence. assert (E2 : o' = 2 * o + 1) by congruence.
          subst r' o'. eexists. left. f_equal. f_equal.
          apply (N.div_unique _ _ _ 1); lia.
        * exists h''. right. apply in_or_app. right. exact Hh''.
  Qed.

  (** every listed node is a deleted leaf or has a listed child *)
  Lemma dn_child (c : ctree H) : forall r o b tr r' o' h',
    (cheight H c <= r)%nat -> In (r', o', h') (dn c r o) ->
    (exists y, In y (place_tree c r o b tr) /\ nleaf y = true /\
               memH HO (nhash y) hs = true /\ coord y = (r', o')) \/
    (exists r'' o'' h'', r' = S r'' /\ o'' / 2 = o' /\ In (r'', o'', h'') (dn c r o)).
  Proof.
    induction c as [h|h l IHl rr IHr]; intros r o b tr r' o' h' Hht Hin.
    - rewrite dn_leaf_eq in Hin. destruct (memH HO h hs) eqn:Hm; [|destruct Hin].
      destruct Hin as [E|[]]. injection E as <- <- _. left.
      eexists. split; [left; reflexivity|]. cbn [nleaf nhash coord nrow noff]. auto.
    - cbn [cheight] in Hht. destruct r as [|r0]; [lia|].
      rewrite dn_node_eq in *. destruct (has_del HO hs (CNode h l rr)) eqn:Hd; [|destruct Hin].
      destruct Hin as [E|Hin].
      + injection E as <- <- _. right. cbn [has_del] in Hd.
        destruct (has_del HO hs l) eqn:Hdl.
        * exists r0, (2 * o), (ohash HO (after_del HO hs l)). split; [reflexivity|].
          split; [symmetry; apply (N.div_unique _ _ _ 0); lia|].
          right. apply in_or_app. left. apply dn_head. exact Hdl.
        * cbn [orb] in Hd.
          exists r0, (2 * o + 1), (ohash HO (after_del HO hs rr)). split; [reflexivity|].
          split; [symmetry; apply (N.div_unique _ _ _ 1); lia|].
          right. apply in_or_app. right. apply dn_head. exact Hd.
      + apply in_app_or in Hin. cbn [place_tree]. destruct Hin as [Hin|Hin].
        * destruct (IHl r0 (2 * o) false tr _ _ _ ltac:(lia) Hin)
            as [(y & Hy & Hyl & Hym & Hyc)|(r'' & o'' & h'' & E1 & E2 & Hc)].
          -- left. exists y. split; [right; apply in_or_app; left; exact Hy|auto].
          -- right. exists r'', o'', h''. split; [exact E1|]. split; [exact E2|].
             right. apply in_or_app. left. exact Hc.
        * destruct (IHr r0 (2 * o + 1) false tr _ _ _ ltac:(lia) Hin)
            as [(y & Hy & Hyl & Hym & Hyc)|(r'' & o'' & h'' & E1 & E2 & Hc)].
          -- left. exists y. split; [right; apply in_or_app; right; exact Hy|auto].
          -- right. exists r'', o'', h''. split; [exact E1|]. split; [exact E2|].
             right. apply in_or_app. right. exact Hc.
  Qed.

  (** [after_del] is the hash of the pruned tree *)
  Lemma after_del_prune (c : ctree H) :
    after_del HO hs c = option_map (@chash H) (RefTheory.prune HO hs c).
  Proof.
    induction c as [h|h l IHl rr IHr]; cbn [after_del RefTheory.prune].
    - destruct (memH HO h hs); reflexivity.
    - rewrite IHl, IHr. destruct (RefTheory.prune HO hs l), (RefTheory.prune HO hs rr); reflexivity.
  Qed.
End DelNodes.

(** the intermediate list returned by [Stump.del] is the one of the second [calculateHashes] *)
Lemma stump_del_inter {H} (HO : ops H) strict (st : stump H) hs ts pf st' inter :
  stump_del HO strict st hs ts pf = (st', Ok inter) ->
  exists modified rows, calculateHashes HO strict (st_n st) None ts pf = Ok (inter, modified, rows).
Proof.
  unfold stump_del. intros E.
  destruct (Verify HO strict st hs ts pf) as [idxs| | |]; try discriminate E.
  destruct (calculateHashes HO strict (st_n st) None ts pf) as [[[inter0 modified] rows]| | |];
    try discriminate E.
  destruct (negb (Nat.eqb (length modified) (length idxs))); [discriminate E|].
  destruct (write_roots (st_roots st) idxs modified); [|discriminate E].
  injection E as _ <-. exists modified, rows. reflexivity.
Qed.

(** * 3. The declarative list against the set [K] and the valuation [Wd] *)

Section DelData.
  Variable H : Type.
  Variable HO : ops H.
  Hypothesis HOK : ops_ok HO.
  Hypothesis hash_nz : forall a b, NZ HO (op_hash2 HO a b).
  Variable s : slots H.
  Hypothesis Hlive_nz : forall h, In (Some h) s -> NZ HO h.
  Hypothesis Hlive_nd : NoDup (live s).
  Hypothesis Hn63 : N.of_nat (length s) <= 2 ^ 63.

  Local Notation n := (N.of_nat (length s)).
  Local Notation total := (TreeRows (N.of_nat (length s))).
  Local Notation R := (rows_of (num_leaves s)).
  Local Notation lay := (layout HO s).
  Local Notation g := (g total).

  (** the deleted leaves and their nodes *)
  Variable hs : list H.
  Variable tsn : list (node H).
  Hypothesis Hts_lay : forall x, In x tsn -> In x lay.
  Hypothesis Hts_leaf : forall x, In x tsn -> nleaf x = true.
  Hypothesis Hts_nd : NoDup tsn.
  Hypothesis Hts_hs : map (@nhash H) tsn = hs.

  Local Notation T := (map ncrd tsn).
  Local Notation K := (cc_K n T).
  Local Notation Ks := (cc_sortC n (cc_K n T)).
  Local Notation AD := (AD H HO s hs).
  Local Notation Wd := (Wd H HO s hs).
  Local Notation dn := (del_nodes HO hs).

  (** [(r, o, h)] is listed by [del_nodes] in some tree of the forest *)
  Definition InD (r : nat) (o : N) (h : H) : Prop :=
    exists k lo c, In (k, lo, Some c) (forest HO s) /\
                   In (r, o, h) (dn c k (lo / 2 ^ N.of_nat k)).

  (** [new_del] before sorting *)
  Definition dlist : list (N * H) :=
    flat_map (fun e : nat * N * option (ctree H) =>
                let '(k, lo, t) := e in
                match t with
                | None => []
                | Some c => map (fun x : nat * N * H => let '(r, o, h) := x in (pos R r o, h))
                                (dn c k (lo / 2 ^ N.of_nat k))
                end) (forest HO s).

  Lemma new_del_dlist : new_del HO s hs = sortK dlist.
  Proof. reflexivity. Qed.

  Lemma dlist_In p h : In (p, h) dlist <-> exists r o, InD r o h /\ p = pos R r o.
  Proof.
    unfold dlist. rewrite in_flat_map. split.
    - intros ([[k lo] [c|]] & Hin & Hx); [|destruct Hx].
      apply in_map_iff in Hx. destruct Hx as ([[r o] h'] & E & Hx). injection E as <- <-.
      exists r, o. split; [|reflexivity]. exists k, lo, c. split; assumption.
    - intros (r & o & (k & lo & c & Hin & Hx) & ->). exists (k, lo, Some c). split; [exact Hin|].
      apply in_map_iff. exists (r, o, h). split; [reflexivity|exact Hx].
  Qed.

  (** a listed coordinate is the coordinate of a node of its tree *)
  Lemma InD_node r o h k lo c : In (k, lo, Some c) (forest HO s) ->
    In (r, o, h) (dn c k (lo / 2 ^ N.of_nat k)) ->
    exists x, In x (place_tree c k (lo / 2 ^ N.of_nat k) true k) /\ In x lay /\ coord x = (r, o).
  Proof.
    intros Hin Hdn.
    assert (Hc : In (r, o) (map (fun e : nat * N * H => fst e) (dn c k (lo / 2 ^ N.of_nat k)))).
    { apply in_map_iff. exists (r, o, h). split; [reflexivity|exact Hdn]. }
    apply (subl_In _ _ _ (dn_subl H HO hs c k (lo / 2 ^ N.of_nat k) true k)) in Hc.
    apply in_map_iff in Hc. destruct Hc as (x & Ex & Hx). exists x. split; [exact Hx|].
    split; [|exact Ex]. exact (entry_layout H HO s (k, lo, Some c) x Hin Hx).
  Qed.

  (** the listed hash is the value of the subtree after the deletion *)
  Lemma dn_value (c : ctree H) : forall r o b tr r' o' h',
    cwf H HO c -> (cheight H c <= r)%nat ->
    (forall x, In x (place_tree c r o b tr) -> In x lay) ->
    In (r', o', h') (dn c r o) -> exists v, AD r' o' v /\ h' = ohash HO v.
  Proof.
    induction c as [h|h l IHl rr IHr]; intros r o b tr r' o' h' Hwf Hht Hsub Hin.
    - pose proof (dc_AD_tree H HO hash_nz s Hlive_nz Hn63 hs (CLeaf h) r o b tr Hwf Hht Hsub) as HA.
      rewrite <- after_del_prune in HA.
      rewrite dn_leaf_eq in Hin. destruct (memH HO h hs); [|destruct Hin].
      destruct Hin as [E|[]]. injection E as <- <- <-. eexists. split; [exact HA|reflexivity].
    - pose proof (dc_AD_tree H HO hash_nz s Hlive_nz Hn63 hs (CNode h l rr) r o b tr Hwf Hht Hsub) as HA.
      rewrite <- after_del_prune in HA.
      cbn [cwf] in Hwf. destruct Hwf as (_ & Hwl & Hwr). cbn [cheight] in Hht.
      destruct r as [|r0]; [lia|].
      rewrite dn_node_eq in Hin. destruct (has_del HO hs (CNode h l rr)); [|destruct Hin].
      destruct Hin as [E|Hin].
      + injection E as <- <- <-. eexists. split; [exact HA|reflexivity].
      + cbn [place_tree] in Hsub. apply in_app_or in Hin. destruct Hin as [Hin|Hin].
        * apply (IHl r0 (2 * o) false tr r' o' h' Hwl ltac:(lia)); [|exact Hin].
          intros x Hx. apply Hsub. right. apply in_or_app. left. exact Hx.
        * apply (IHr r0 (2 * o + 1) false tr r' o' h' Hwr ltac:(lia)); [|exact Hin].
          intros x Hx. apply Hsub. right. apply in_or_app. right. exact Hx.
  Qed.

  Lemma InD_Wd r o h : InD r o h -> Wd (pos R r o) h.
  Proof.
    intros (k & lo & c & Hin & Hdn).
    destruct (InD_node r o h k lo c Hin Hdn) as (x & Hx & Hxl & Exc).
    destruct (dc_entry_facts H HO s k lo (Some c) Hin) as (_ & _ & Hsub & Hwf).
    destruct (Hwf c eq_refl) as [Hcwf Hch]. cbn [place_entry] in Hsub.
    destruct (dn_value c k (lo / 2 ^ N.of_nat k) true k r o h Hcwf Hch Hsub Hdn) as (v & Hv & Eh).
    unfold coord in Exc. injection Exc as Er Eo.
    exists x, v. split; [exact Hxl|]. split; [|split; [|exact Eh]].
    - rewrite (rf_pos_g H s). unfold ncrd. rewrite Er, Eo. reflexivity.
    - rewrite Er, Eo. exact Hv.
  Qed.

  Lemma Wd_fun p h h' : Wd p h -> Wd p h' -> h = h'.
  Proof.
    intros (x & v & Hx & -> & Hv & ->) HW'.
    destruct (dc_Wd_node H HO s hs x h' Hx HW') as (v' & Hv' & ->).
    rewrite (dc_AD_fun H HO s hs _ _ _ Hv _ Hv'). reflexivity.
  Qed.

  Lemma sdd_valid : pp_valid n total T = true.
  Proof. exact (dc_valid H HO s tsn Hts_lay Hts_leaf Hts_nd). Qed.

  (** a deleted leaf of the layout is a target *)
  Lemma sdd_deleted_target y : In y lay -> nleaf y = true -> memH HO (nhash y) hs = true -> In y tsn.
  Proof.
    intros Hy Hyl Hm. apply (SpecBasics.memH_In H HO HOK) in Hm. rewrite <- Hts_hs in Hm.
    apply in_map_iff in Hm. destruct Hm as (z & Ez & Hz).
    assert (y = z).
    { apply (live_leaf_unique H HO s y z Hlive_nd Hy (Hts_lay z Hz) Hyl (Hts_leaf z Hz)).
      symmetry. exact Ez. }
    subst z. exact Hz.
  Qed.

  (** every listed coordinate is a target or an ancestor of a target *)
  Lemma InD_K : forall r o h, InD r o h -> In (cN (r, o)) K.
  Proof.
    destruct (cc_valid_facts n Hn63 T sdd_valid) as (_ & HK2 & _).
    induction r as [r IH] using lt_wf_ind. intros o h (k & lo & c & Hin & Hdn).
    destruct (dc_entry_facts H HO s k lo (Some c) Hin) as (_ & _ & Hsub & Hwf).
    destruct (Hwf c eq_refl) as [Hcwf Hch]. cbn [place_entry] in Hsub.
    destruct (dn_child H HO hs c k (lo / 2 ^ N.of_nat k) true k r o h Hch Hdn)
      as [(y & Hy & Hyl & Hym & Hyc)|(r'' & o'' & h'' & E1 & E2 & Hc)].
    - pose proof (sdd_deleted_target y (Hsub y Hy) Hyl Hym) as Hz.
      unfold coord in Hyc. injection Hyc as Er Eo.
      unfold cc_K. apply in_or_app. left. apply in_map_iff. exists y. split; [|exact Hz].
      unfold ncrd. rewrite Er, Eo. reflexivity.
    - subst r.
      assert (HinK : In (cN (r'', o'')) K).
      { apply (IH r'' ltac:(lia) o'' h''). exists k, lo, c. split; assumption. }
      destruct (InD_node _ _ _ k lo c Hin Hdn) as (xp & Hxp & _ & Exp).
      destruct (InD_node _ _ _ k lo c Hin Hc) as (xc & Hxc & Hxcl & Exc).
      unfold coord in Exp, Exc. injection Exp as Epr Epo. injection Exc as Ecr Eco.
      pose proof (place_tree_range H c _ _ _ _ xp Hxp) as (Hrow & _).
      assert (Hnr : nroot xc = false).
      { destruct (place_tree_tail H c _ _ _ _ xc Hxc) as [E|[_ E]]; [|exact E].
        rewrite E in Ecr. cbn [head_node nrow] in Ecr. lia. }
      pose proof (rf_root_true H HO s xc Hxcl Hnr) as Hroot.
      unfold ncrd in Hroot. rewrite Ecr, Eco in Hroot.
      pose proof (HK2 _ HinK Hroot) as Hpar. rewrite cN_par, E2 in Hpar.
      unfold cc_K. apply in_or_app. right. exact Hpar.
  Qed.

  (** every target and every ancestor of a target is listed *)
  Lemma K_InD : forall c, In c K -> exists r o h, c = cN (r, o) /\ InD r o h.
  Proof.
    destruct (cc_valid_facts n Hn63 T sdd_valid) as (_ & _ & HK3 & _).
    assert (Hgen : forall m c, N.to_nat (fst c) = m -> In c K ->
                     exists r o h, c = cN (r, o) /\ InD r o h).
    { induction m as [m IH] using lt_wf_ind. intros c Em Hc.
      unfold cc_K in Hc. apply in_app_or in Hc. destruct Hc as [Hc|Hc].
      - apply in_map_iff in Hc. destruct Hc as (x & <- & Hx).
        destruct (layout_node_tree H HO s x (Hts_lay x Hx)) as (lo & t & Hin & Hxe & _).
        destruct t as [c0|].
        + cbn [place_entry] in Hxe.
          assert (Hm : memH HO (nhash x) hs = true).
          { apply (SpecBasics.memH_In H HO HOK). rewrite <- Hts_hs. apply in_map. exact Hx. }
          destruct (dn_leaf H HO hs c0 _ _ _ _ x Hxe (Hts_leaf x Hx) Hm) as (h & Hh).
          exists (nrow x), (noff x), h. split; [reflexivity|].
          exists (ntree x), lo, c0. split; assumption.
        + cbn [place_entry] in Hxe. destruct Hxe as [E|[]].
          pose proof (Hts_leaf x Hx) as Hl. rewrite <- E in Hl. cbn [nleaf] in Hl. discriminate.
      - destruct (HK3 c Hc) as (c' & Hc' & Hr' & ->).
        destruct (IH (N.to_nat (fst c')) ltac:(rewrite <- Em; cbn [par fst]; lia) c' eq_refl Hc')
          as (r1 & o1 & h1 & -> & (k & lo & c0 & Hin & Hdn)).
        destruct (dn_parent H HO hs c0 _ _ _ _ _ Hdn) as [E|(h'' & Hh'')].
        + exfalso.
          destruct (root_node H HO s k lo (Some c0) Hin) as (_ & _ & _ & x & Hx & Hxr & _).
          apply tnode_some in Hx. destruct Hx as (Hxl & Exr & Exo).
          apply (rf_root_iff H HO s x Hxl) in Hxr. unfold ncrd in Hxr.
          rewrite Exr, Exo, <- E in Hxr. congruence.
        + exists (S r1), (o1 / 2), h''. split; [apply cN_par|].
          exists k, lo, c0. split; assumption. }
    intros c Hc. exact (Hgen _ c eq_refl Hc).
  Qed.

  (** the listed positions are pairwise distinct *)
  Lemma dlist_keys_NoDup : NoDup (map fst dlist).
  Proof.
    set (Lc := flat_map (fun e : nat * N * option (ctree H) =>
                           let '(k, lo, t) := e in
                           match t with
                           | None => []
                           | Some c => map (fun x : nat * N * H => fst x) (dn c k (lo / 2 ^ N.of_nat k))
                           end) (forest HO s)).
    assert (E : map fst dlist = map (fun c : nat * N => pos R (fst c) (snd c)) Lc).
    { unfold dlist, Lc. rewrite !map_flat_map'. apply flat_map_ext_in.
      intros [[k lo] [c|]] _; [|reflexivity]. rewrite !map_map. apply map_ext.
      intros [[r o] h]. reflexivity. }
    assert (Hsub : subl Lc (map (@coord H) lay)).
    { unfold Lc, layout. rewrite map_flat_map'. apply subl_flat_map.
      intros [[k lo] [c|]] _; cbn [place_entry]; [apply dn_subl|apply subl_nil_l]. }
    rewrite E. apply RefTheory.NoDup_map_inj_on.
    - apply (subl_NoDup _ _ Hsub). exact (layout_coords_nodup H HO s).
    - intros x y Hx Hy Exy.
      apply (subl_In _ _ _ Hsub) in Hx. apply (subl_In _ _ _ Hsub) in Hy.
      apply in_map_iff in Hx. destruct Hx as (nx & <- & Hnx).
      apply in_map_iff in Hy. destruct Hy as (ny & <- & Hny).
      unfold coord in *. cbn [fst snd] in Exy. rewrite !(rf_pos_g H s) in Exy.
      apply pps_g_inj in Exy; [|exact (rf_node_vld H HO s nx Hnx)|exact (rf_node_vld H HO s ny Hny)].
      apply cN_inj in Exy. exact Exy.
  Qed.

  (** * 4. G1 on the target nodes *)
  Theorem stump_del_data_nodes :
    stump_del HO true (the_stump (mk_ctx HO s)) hs (map (npos R) tsn)
              (canon_proof_hashes HO R lay tsn)
    = (mkStump (roots HO (kill HO hs s)) (num_leaves s), Ok (new_del HO s hs)).
  Proof.
    destruct (stump_del_refines_nodes H HO HOK hash_nz s Hlive_nz Hlive_nd Hn63 hs tsn
                Hts_lay Hts_leaf Hts_nd Hts_hs) as (inter & Ed).
    rewrite Ed. f_equal. f_equal.
    destruct (stump_del_inter HO true _ _ _ _ _ _ Ed) as (modified & rows & Ecalc).
    pose proof sdd_valid as Hval.
    destruct (cc_valid_facts n Hn63 T Hval) as (HK1 & _).
    set (pf := canon_proof_hashes HO R lay tsn) in *.
    assert (Ets : map (npos R) tsn = map g T).
    { rewrite map_map. apply map_ext. intros x. apply (rf_npos H s). }
    destruct (calc_complete_c H HO Wd n Hn63 T None pf [] Hval)
      as (inter0 & modified0 & Ecalc0 & _ & _ & Hkeys & HW).
    { intros c h h' Hc Hr. exact (dc_step H HO HOK hash_nz s Hlive_nz hs c h h' (HK1 c Hc) Hr). }
    { cbn [cc_hs]. rewrite map_map.
      pose proof (dc_targets_W H HO HOK s hs tsn Hts_lay Hts_leaf Hts_hs) as HWt. revert HWt.
      generalize T. intros l HWt. induction l as [|c l IH]; cbn [map]; constructor.
      - apply HWt. left. reflexivity.
      - apply IH. intros c' Hc'. apply HWt. right. exact Hc'. }
    { exact (dc_proof_W H HO HOK s Hlive_nd Hn63 hs tsn Hts_lay Hts_leaf Hts_nd Hts_hs). }
    rewrite app_nil_r, <- Ets in Ecalc0.
    change (calculateHashes HO true n None (map (npos R) tsn) pf = Ok (inter, modified, rows))
      in Ecalc.
    rewrite Ecalc0 in Ecalc. injection Ecalc as <- _ _.
    destruct (cc_Ks_spec n Hn63 T Hval) as [HKs_sorted HKs_mem].
    apply pps_clt_map in HKs_sorted. rewrite <- Hkeys in HKs_sorted.
    rewrite Forall_forall in HW.
    rewrite new_del_dlist. apply RefTheory.sascK_ext.
    - apply sdd_SSlt_sascK. exact HKs_sorted.
    - apply RefTheory.asc_nodup_sasc; [apply SpecBasics.sortK_asc|].
      eapply Permutation_NoDup; [|exact dlist_keys_NoDup].
      apply Permutation_map, Permutation_sym, RefTheory.sortK_perm.
    - intros [p h]. rewrite RefTheory.sortK_In. split.
      + intros Hin. pose proof (HW _ Hin) as HWp. cbn [fst snd] in HWp.
        assert (Hp : In p (map fst inter0)).
        { apply in_map_iff. exists (p, h). split; [reflexivity|exact Hin]. }
        rewrite Hkeys in Hp. apply in_map_iff in Hp. destruct Hp as (c & <- & Hc).
        apply HKs_mem in Hc. destruct (K_InD c Hc) as (r & o & h' & -> & HD).
        pose proof (InD_Wd r o h' HD) as HW'. rewrite (rf_pos_g H s) in HW'.
        rewrite (Wd_fun _ _ _ HWp HW'). apply dlist_In. exists r, o. split; [exact HD|].
        symmetry. apply (rf_pos_g H s).
      + intros Hin. apply dlist_In in Hin. destruct Hin as (r & o & HD & ->).
        pose proof (InD_Wd r o h HD) as HWp.
        pose proof (InD_K r o h HD) as Hc. apply HKs_mem in Hc.
        assert (Hp : In (pos R r o) (map fst inter0)).
        { rewrite Hkeys, (rf_pos_g H s). apply in_map. exact Hc. }
        apply in_map_iff in Hp. destruct Hp as ([p h'] & Ep & Hin). cbn [fst] in Ep. subst p.
        pose proof (HW _ Hin) as HW'. cbn [fst snd] in HW'.
        rewrite (Wd_fun _ _ _ HWp HW'). exact Hin.
  Qed.
End DelData.

(** G1.  [Stump.del] on the canonical proof of distinct live leaves of a forest without duplicate
    leaves returns EXACTLY the declarative list [new_del], and the roots of the reference forest
    after the deletion; the leaf count stays. *)
Theorem stump_del_data {H} (HO : ops H) (s : slots H) (hs : list H) (ts : list N) (pf : list H) :
  ops_ok HO ->
  (forall a b, NZ HO (op_hash2 HO a b)) ->
  (forall h, In (Some h) s -> NZ HO h) ->
  NoDup (live s) ->
  N.of_nat (length s) <= 2 ^ 63 ->
  NoDup hs ->
  exp_prove HO (mk_ctx HO s) hs = Some (ts, pf) ->
  stump_del HO true (the_stump (mk_ctx HO s)) hs ts pf
  = (mkStump (roots HO (kill HO hs s)) (num_leaves s), Ok (new_del HO s hs)).
Proof.
  intros HOK Hnz Hlive Hlnd Hn63 Hnd Ep. unfold exp_prove, mk_ctx in Ep. cbn [clay crows] in Ep.
  destruct (find_leaves HO (layout HO s) hs) as [tsn|] eqn:Efl; [|discriminate].
  injection Ep as <- <-.
  destruct (cc_find_leaves_facts HO s hs tsn HOK Hnd Efl) as (Hlay & Hleaf & Hndt & Ehs & _).
  exact (stump_del_data_nodes H HO HOK Hnz s Hlive Hlnd Hn63 hs tsn Hlay Hleaf Hndt Ehs).
Qed.

(** the same as a statement about whatever the mirror returned *)
Corollary stump_del_data_inter {H} (HO : ops H) (s : slots H) (hs : list H) (ts : list N)
          (pf : list H) st' inter :
  ops_ok HO ->
  (forall a b, NZ HO (op_hash2 HO a b)) ->
  (forall h, In (Some h) s -> NZ HO h) ->
  NoDup (live s) ->
  N.of_nat (length s) <= 2 ^ 63 ->
  NoDup hs ->
  exp_prove HO (mk_ctx HO s) hs = Some (ts, pf) ->
  stump_del HO true (the_stump (mk_ctx HO s)) hs ts pf = (st', Ok inter) ->
  inter = new_del HO s hs /\
  st_roots st' = roots HO (kill HO hs s) /\ st_n st' = num_leaves s.
Proof.
  intros HOK Hnz Hlive Hlnd Hn63 Hnd Ep E.
  rewrite (stump_del_data HO s hs ts pf HOK Hnz Hlive Hlnd Hn63 Hnd Ep) in E.
  injection E as <- <-. repeat split.
Qed.

(** * 5. G2: the whole update data of [Stump.Update] *)

Definition ud_of_spec {H} (D : update_data H) : UpdateData H :=
  mkUpd (ud_to_destroy D) (ud_prev_num_leaves D) (ud_new_del D) (ud_new_add D).

(** A valid block: distinct live deletions with their canonical proof; non-empty additions that are
    not live after the deletions.  [Stump.add] keys its map of updated nodes by hash, hence the last
    hypothesis (the hashes that the specification lists for the additions are pairwise distinct),
    exactly as in [StumpAddData.stump_add_update_data]. *)
Theorem stump_update_data {H} (HO : ops H) (filler : H) (s : slots H) (hs adds : list H)
        (ts : list N) (pf : list H) :
  ops_ok HO ->
  (forall a b, NZ HO (op_hash2 HO a b)) ->
  NZ HO filler ->
  (forall h, In (Some h) s -> NZ HO h) ->
  (forall h, In h adds -> NZ HO h) ->
  NoDup (live s) ->
  N.of_nat (length s + length adds) <= 2 ^ 63 ->
  NoDup hs ->
  exp_prove HO (mk_ctx HO s) hs = Some (ts, pf) ->
  (forall a, In a adds -> ~ In (Some a) (kill HO hs s)) ->
  NoDup (map snd (ud_new_add (spec_update_data HO s hs adds))) ->
  stump_update HO true filler (the_stump (mk_ctx HO s)) hs adds ts pf
  = (mkStump (roots HO (apply_block HO s hs adds)) (num_leaves (apply_block HO s hs adds)),
     Ok (ud_of_spec (spec_update_data HO s hs adds))).
Proof.
  intros HOK Hnz Hfill Hlive Hadds Hlnd Hbound Hnd Ep Hfresh Hndadd.
  assert (Hn63 : N.of_nat (length s) <= 2 ^ 63) by lia.
  unfold stump_update.
  rewrite (stump_del_data HO s hs ts pf HOK Hnz Hlive Hlnd Hn63 Hnd Ep).
  assert (Hlen : num_leaves s = num_leaves (kill HO hs s))
    by (unfold num_leaves; rewrite SpecBasics.length_kill; reflexivity).
  rewrite Hlen.
  assert (Hl1 : forall h, In (Some h) (kill HO hs s) -> op_eqb HO h (op_empty HO) = false).
  { intros h Hh. apply Hlive. exact (StumpUpdate.kill_live_sub H HO hs s h Hh). }
  rewrite (StumpAddData.stump_add_update_data H HO HOK Hnz filler s hs adds Hfill Hl1 Hadds
             Hbound Hfresh Hndadd).
  cbn [st_n]. rewrite <- Hlen. reflexivity.
Qed.

(** the same, field by field, about whatever the mirror returned *)
Corollary stump_update_data_fields {H} (HO : ops H) (filler : H) (s : slots H) (hs adds : list H)
          (ts : list N) (pf : list H) st' ud :
  ops_ok HO ->
  (forall a b, NZ HO (op_hash2 HO a b)) ->
  NZ HO filler ->
  (forall h, In (Some h) s -> NZ HO h) ->
  (forall h, In h adds -> NZ HO h) ->
  NoDup (live s) ->
  N.of_nat (length s + length adds) <= 2 ^ 63 ->
  NoDup hs ->
  exp_prove HO (mk_ctx HO s) hs = Some (ts, pf) ->
  (forall a, In a adds -> ~ In (Some a) (kill HO hs s)) ->
  NoDup (map snd (ud_new_add (spec_update_data HO s hs adds))) ->
  stump_update HO true filler (the_stump (mk_ctx HO s)) hs adds ts pf = (st', Ok ud) ->
  let D := spec_update_data HO s hs adds in
  u_to_destroy ud = ud_to_destroy D /\ u_prev ud = ud_prev_num_leaves D /\
  u_del ud = ud_new_del D /\ u_add ud = ud_new_add D /\
  st_roots st' = roots HO (apply_block HO s hs adds) /\
  st_n st' = num_leaves (apply_block HO s hs adds).
Proof.
  intros HOK Hnz Hfill Hlive Hadds Hlnd Hbound Hnd Ep Hfresh Hndadd E D.
  rewrite (stump_update_data HO filler s hs adds ts pf HOK Hnz Hfill Hlive Hadds Hlnd Hbound Hnd
             Ep Hfresh Hndadd) in E.
  injection E as <- <-. repeat split.
Qed.

(** in the free hash algebra ("barring collisions") the idealisation on [hash2] is a theorem *)
Theorem stump_update_data_term (filler : term) (s : slots term) (hs adds : list term)
        (ts : list N) (pf : list term) :
  filler <> Zero ->
  (forall h, In (Some h) s -> h <> Zero) ->
  (forall h, In h adds -> h <> Zero) ->
  NoDup (live s) ->
  N.of_nat (length s + length adds) <= 2 ^ 63 ->
  NoDup hs ->
  exp_prove term_ops (mk_ctx term_ops s) hs = Some (ts, pf) ->
  (forall a, In a adds -> ~ In (Some a) (kill term_ops hs s)) ->
  NoDup (map snd (ud_new_add (spec_update_data term_ops s hs adds))) ->
  stump_update term_ops true filler (the_stump (mk_ctx term_ops s)) hs adds ts pf
  = (mkStump (roots term_ops (apply_block term_ops s hs adds))
             (num_leaves (apply_block term_ops s hs adds)),
     Ok (ud_of_spec (spec_update_data term_ops s hs adds))).
Proof.
  intros Hfill Hlive Hadds Hlnd Hbound Hnd Ep Hfresh Hndadd.
  apply (stump_update_data term_ops filler s hs adds ts pf term_ops_ok cs_term_hash_nz);
    try assumption.
  - apply StumpAdd.term_nonzero_eqb, Hfill.
  - intros h Hh. apply StumpAdd.term_nonzero_eqb, Hlive, Hh.
  - intros h Hh. apply StumpAdd.term_nonzero_eqb, Hadds, Hh.
Qed.

Theorem stump_del_data_term (s : slots term) (hs : list term) (ts : list N) (pf : list term) :
  (forall h, In (Some h) s -> h <> Zero) ->
  NoDup (live s) ->
  N.of_nat (length s) <= 2 ^ 63 ->
  NoDup hs ->
  exp_prove term_ops (mk_ctx term_ops s) hs = Some (ts, pf) ->
  stump_del term_ops true (the_stump (mk_ctx term_ops s)) hs ts pf
  = (mkStump (roots term_ops (kill term_ops hs s)) (num_leaves s), Ok (new_del term_ops s hs)).
Proof.
  intros Hlive Hlnd Hn63 Hnd Ep.
  apply (stump_del_data term_ops s hs ts pf term_ops_ok cs_term_hash_nz); try assumption.
  intros h Hh. apply StumpAdd.term_nonzero_eqb, Hlive, Hh.
Qed.

(** * 6. Non-vacuity (free hash algebra).  [LayoutStruct.ls_ex] = slots
    [Atom 1; -; Atom 3; Atom 4; -; -; Atom 7]: dead slots, a leaf that moved up, an empty root
    (row 1).  The block deletes [Atom 7] (the whole row-0 tree) and [Atom 3] (row-2 tree) and adds
    [Atom 8; Atom 9]: the first addition overwrites the emptied row-0 root and the empty row-1
    root. *)

Definition sdd_dels : list term := [Atom 7; Atom 3].
Definition sdd_adds : list term := [Atom 8; Atom 9].

Example sdd_ex_roots :
  roots term_ops ls_ex = [Node (Atom 1) (Node (Atom 3) (Atom 4)); Zero; Atom 7].
Proof. vm_compute. reflexivity. Qed.

(** G1 applied (not computed): its hypotheses are satisfiable ... *)
Example sdd_ex_del_by_theorem :
  stump_del term_ops true (the_stump (mk_ctx term_ops ls_ex)) sdd_dels [6; 2] [Atom 4; Atom 1]
  = (mkStump (roots term_ops (kill term_ops sdd_dels ls_ex)) (num_leaves ls_ex),
     Ok (new_del term_ops ls_ex sdd_dels)).
Proof.
  exact (stump_del_data term_ops ls_ex sdd_dels [6; 2] [Atom 4; Atom 1]
           term_ops_ok ex_cc_hash_nz ex_cc_live_nz ex_cc_live_nodup ex_cc_bound ex_cc_nodup
           ex_cc_prove).
Qed.

(** ... and both sides computed: targets 2 and 6 with the all-zero hash; [Atom 4] moves up to
    position 9; the root at 12 becomes [Node (Atom 1) (Atom 4)] *)
Example sdd_ex_del_computed :
  new_del term_ops ls_ex sdd_dels
  = [(2, Zero); (6, Zero); (9, Atom 4); (12, Node (Atom 1) (Atom 4))] /\
  stump_del term_ops true (the_stump (mk_ctx term_ops ls_ex)) sdd_dels [6; 2] [Atom 4; Atom 1]
  = (mkStump [Node (Atom 1) (Atom 4); Zero; Zero] 7,
     Ok [(2, Zero); (6, Zero); (9, Atom 4); (12, Node (Atom 1) (Atom 4))]).
Proof. vm_compute. split; reflexivity. Qed.

(** deleting every leaf of a tree and of the forest *)
Example sdd_ex_del_all :
  exp_prove term_ops (mk_ctx term_ops ls_ex) [Atom 1; Atom 3; Atom 4; Atom 7]
  = Some ([8; 2; 3; 6], []) /\
  new_del term_ops ls_ex [Atom 1; Atom 3; Atom 4; Atom 7]
  = [(2, Zero); (3, Zero); (6, Zero); (8, Zero); (9, Zero); (12, Zero)] /\
  stump_del term_ops true (the_stump (mk_ctx term_ops ls_ex)) [Atom 1; Atom 3; Atom 4; Atom 7]
            [8; 2; 3; 6] []
  = (mkStump [Zero; Zero; Zero] 7,
     Ok [(2, Zero); (3, Zero); (6, Zero); (8, Zero); (9, Zero); (12, Zero)]).
Proof. vm_compute. repeat split; reflexivity. Qed.

(** G2 applied: a block with deletions in two trees and additions that overwrite empty roots *)
Lemma sdd_ex_live_nonzero : forall h, In (Some h) ls_ex -> h <> Zero.
Proof.
  intros h Hin. unfold ls_ex in Hin. cbn [In] in Hin.
  repeat (destruct Hin as [E|Hin]; [try discriminate E; injection E as <-; discriminate|]).
  destruct Hin.
Qed.

Example sdd_ex_update_by_theorem :
  stump_update term_ops true (Atom 99) (the_stump (mk_ctx term_ops ls_ex)) sdd_dels sdd_adds
               [6; 2] [Atom 4; Atom 1]
  = (mkStump (roots term_ops (apply_block term_ops ls_ex sdd_dels sdd_adds))
             (num_leaves (apply_block term_ops ls_ex sdd_dels sdd_adds)),
     Ok (ud_of_spec (spec_update_data term_ops ls_ex sdd_dels sdd_adds))).
Proof.
  apply stump_update_data_term.
  - discriminate.
  - exact sdd_ex_live_nonzero.
  - intros h Hh. cbn in Hh. repeat (destruct Hh as [<-|Hh]; [discriminate|]). destruct Hh.
  - exact ex_cc_live_nodup.
  - vm_compute. discriminate.
  - exact ex_cc_nodup.
  - exact ex_cc_prove.
  - intros a Ha Hin. vm_compute in Ha, Hin.
    repeat (destruct Ha as [<-|Ha];
            [repeat (destruct Hin as [Hin|Hin]; [discriminate|]); destruct Hin|]).
    destruct Ha.
  - vm_compute. repeat constructor; cbn; intuition discriminate.
Qed.

(** the computed values: the emptied row-0 root (position 6) and the empty row-1 root (position
    18 in the 4-row frame after the block) are destroyed, in that order *)
Example sdd_ex_update_computed :
  spec_update_data term_ops ls_ex sdd_dels sdd_adds
  = mkUD [6; 18] 7
         [(2, Zero); (6, Zero); (9, Atom 4); (12, Node (Atom 1) (Atom 4))]
         [(8, Atom 9); (24, Node (Atom 1) (Atom 4)); (25, Atom 8)] /\
  stump_update term_ops true (Atom 99) (the_stump (mk_ctx term_ops ls_ex)) sdd_dels sdd_adds
               [6; 2] [Atom 4; Atom 1]
  = (mkStump [Node (Node (Atom 1) (Atom 4)) (Atom 8); Atom 9] 9,
     Ok (mkUpd [6; 18] 7
               [(2, Zero); (6, Zero); (9, Atom 4); (12, Node (Atom 1) (Atom 4))]
               [(8, Atom 9); (24, Node (Atom 1) (Atom 4)); (25, Atom 8)])).
Proof. vm_compute. split; reflexivity. Qed.

(** field by field *)
Example sdd_ex_update_fields :
  forall st' ud,
    stump_update term_ops true (Atom 99) (the_stump (mk_ctx term_ops ls_ex)) sdd_dels sdd_adds
                 [6; 2] [Atom 4; Atom 1] = (st', Ok ud) ->
    u_to_destroy ud = [6; 18] /\ u_prev ud = 7 /\
    u_del ud = new_del term_ops ls_ex sdd_dels /\
    u_add ud = new_add term_ops (apply_block term_ops ls_ex sdd_dels sdd_adds) sdd_adds.
Proof.
  intros st' ud E. rewrite sdd_ex_update_by_theorem in E. injection E as _ <-.
  repeat split.
Qed.

Print Assumptions stump_del_data.
Print Assumptions stump_del_data_inter.
Print Assumptions stump_update_data.
Print Assumptions stump_update_data_fields.
Print Assumptions stump_update_data_term.
Print Assumptions stump_del_data_term.
Print Assumptions sdd_ex_del_by_theorem.
Print Assumptions sdd_ex_update_by_theorem.
